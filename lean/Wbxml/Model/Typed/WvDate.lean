/-
  Model of the Wireless-Village date-time codec, decision for decision (the code as of the `fix:` commits
  recorded in known_findings.json):

    encoder  src/wbxml_encoder.c  wbxml_encode_wv_datetime, _inline, _opaque
    parser   src/wbxml_parser.c   decode_wv_datetime

  Six-octet form: 2 reserved bits, year 12, month 4, day 5, hour 5, minute 6, second 6 bits, one zone octet.
-/
import Wbxml.Model.Typed.WvInt
namespace Wbxml.Model.Typed
open Wbxml

/-- A content item produced by a typed Wireless-Village encoder. -/
inductive WvItem where
  | inline (s : Bytes)        -- STR_I s NUL
  | opaque (p : Bytes)        -- OPAQUE len p
  deriving Repr, DecidableEq

def WvItem.bytes : WvItem → Bytes
  | .inline s => strItem s
  | .opaque p => opaqueItem p

/-! ### encoder -/

/-- `wbxml_encode_wv_datetime`: the long ISO 8601 forms and UTC (`…Z`) go inline.
    (`buffer[len-1]` needs `len > 0`: guaranteed by `guarded`.) -/
def wvUseInline (s : Bytes) : Bool :=
  s.contains 0x2D || s.contains 0x2B || s.contains 0x3A || s.getLast? == some 0x5A

/-- The five packed octets of `wbxml_encode_wv_datetime_opaque` as numbers; every store is a `WB_UTINY` (mod 256). -/
def wvOctets (year month day hour minute second : Nat) : List Nat :=
  let o0 := (year % 4096) / 64                                   -- (year & 0xfc0) >> 6
  let o1 := (((year % 64) * 4) % 256 + (month % 16) / 4) % 256     -- (year & 0x3f) << 2, += (month & 0xc) >> 2
  let o2a := (((month % 4) * 32) % 256 + day % 32) % 256           -- (month & 3) << 5, += day & 0x1f
  let o2 := ((o2a * 2) % 256 + (hour % 32) / 16) % 256             -- <<= 1, += (hour & 0x10) >> 4
  let o3 := (((hour % 16) * 16) % 256 + (minute % 64) / 4) % 256   -- (hour & 0xf) << 4, += (minute & 0x3c) >> 2
  let o4 := (((minute % 4) * 64) % 256 + second % 64) % 256        -- (minute & 3) << 6, += second & 0x3f
  [o0, o1, o2, o3, o4]

def wvPack (year month day hour minute second : Nat) (zone : UInt8) : Bytes :=
  (wvOctets year month day hour minute second).map UInt8.ofNat ++ [zone]

/-- `wbxml_encode_wv_datetime_opaque` on a non-empty C string. Errors are `WBXML_ERROR_WV_DATETIME_FORMAT` (20). -/
def wvDateOpaque (s : Bytes) : Except Err WvItem :=
  let len0 := s.length
  -- "we can tolerate datetimes which forget the seconds"
  let tmp : Bytes :=
    if len0 = 13 then s ++ b!"00" else if len0 = 14 then s.take 13 ++ b!"00" ++ s.drop 13 else s
  let len := tmp.length
  if len ≠ 15 ∧ len ≠ 16 then .error (.code 20)
  else if s[8]? ≠ some 0x54 then .error (.code 20)                 -- *(buffer+8) != 'T'  (len0 ≥ 13: in bounds)
  else
    -- time zone: `wbxml_buffer_get_char(tmp, 15, &ch)` when len = 16 (always in bounds there)
    let zr : Except Err (UInt8 × Bytes) :=
      if len = 16 then
        match tmp[15]? with
        | none => .error (.code 13)                                -- WBXML_ERROR_INTERNAL (unreachable: len = 16)
        | some zch =>
          if zch < 0x41 || zch == 0x4A || zch > 0x5A then .error (.code 20)
          else .ok (zch, tmp.eraseIdx 15)                          -- delete time zone
      else .ok (0, tmp)
    match zr with
    | .error e => .error e
    | .ok (zone, t1) =>
      let t2 := t1.eraseIdx 8                                     -- delete 'T'
      if !t2.all isDigit then .error (.code 20)
      else
        let fld (a n : Nat) : Nat := decVal ((t2.drop a).take n)   -- duplicate, delete around, strtoul
        let year := fld 0 4
        if year > 4095 then .ok (.inline s)                        -- the 12-bit field cannot carry it: string form
        else .ok (.opaque (wvPack year (fld 4 2) (fld 6 2) (fld 8 2) (fld 10 2) (fld 12 2) zone))

/-- `wbxml_encode_wv_datetime` on a non-empty C string. -/
def encodeWvDate (s : Bytes) : Except Err WvItem :=
  if s = [] then .error (.ub "buffer[len - 1] with len = 0")
  else if wvUseInline s then .ok (.inline s) else wvDateOpaque s

/-! ### parser: `decode_wv_datetime` -/

/-- `sprintf("%0<w>u")`. -/
def padNat (w n : Nat) : Bytes := let s := decNat n; List.replicate (w - s.length) 0x30 ++ s

/-- The six bit fields of `decode_wv_datetime` (the C `|` joins disjoint bit ranges there: it is `+`). -/
structure WvFields where
  year : Nat
  month : Nat
  day : Nat
  hour : Nat
  minute : Nat
  second : Nat

def wvFields (d0 d1 d2 d3 d4 : Nat) : WvFields where
  year := (d0 % 64) * 64 + (d1 / 4) % 64                          -- ((d0 & 0x3F) << 6) + ((d1 >> 2) & 0x3F)
  month := (d1 % 4) * 4 + (d2 / 64) % 4                           -- ((d1 & 0x03) << 2) | ((d2 >> 6) & 0x03)
  day := (d2 / 2) % 32                                            -- (d2 >> 1) & 0x1F
  hour := (d2 % 2) * 16 + (d3 / 16) % 16                          -- ((d2 & 0x01) << 4) | ((d3 >> 4) & 0x0F)
  minute := (d3 % 16) * 4 + (d4 / 64) % 4                         -- ((d3 & 0x0F) << 2) | ((d4 >> 6) & 0x03)
  second := d4 % 64                                               -- d4 & 0x3F

/-- The zone suffix: octet 0 prints `Z`, a letter `A`–`Z` without `J` is kept, anything else is dropped. -/
def wvZoneText (b5 : UInt8) : Bytes :=
  if b5 = 0 then [0x5A] else if b5 < 0x41 || b5 > 0x5A || b5 == 0x4A then [] else [b5]

def wvDateText (f : WvFields) (b5 : UInt8) : Bytes :=
  padNat 4 f.year ++ padNat 2 f.month ++ padNat 2 f.day ++ [0x54] ++ padNat 2 f.hour ++ padNat 2 f.minute ++
  (if f.second ≠ 0 then padNat 2 f.second else []) ++ wvZoneText b5

def decodeWvDate (p : Bytes) : Except Err Bytes :=
  match p with
  | [b0, b1, b2, b3, b4, b5] => .ok (wvDateText (wvFields b0.toNat b1.toNat b2.toNat b3.toNat b4.toNat) b5)
  | _ => .error (.code 20)

/-- What the parser hands on for a content item of a date-time element: inline strings unchanged,
    opaques through `decode_wv_datetime`. -/
def decodeWvDateItem : WvItem → Except Err Bytes
  | .inline s => .ok s
  | .opaque p => decodeWvDate p

/-! ### which element is what: the `switch` ladders on (code page, token) of the current tag -/

inductive WvKind where | integer | dateTime | other
  deriving Repr, DecidableEq

/-- `decode_wv_content` (parser). -/
def wvDecKind (page token : Nat) : WvKind :=
  match page with
  | 0x00 => if token ∈ [0x0B, 0x0F, 0x1A, 0x3C] then .integer else if token = 0x11 then .dateTime else .other
  | 0x01 => if token ∈ [0x1C, 0x25, 0x26, 0x27, 0x28, 0x32] then .integer else .other
  | 0x03 => if token ∈ [0x05, 0x06, 0x0C, 0x0D, 0x0E, 0x12, 0x13] then .integer else .other
  | 0x05 => if token ∈ [0x05, 0x09, 0x32] then .integer else .other
  | 0x06 => if token = 0x1A then .dateTime else .other
  | 0x09 => if token ∈ [0x08, 0x0A] then .integer else .other
  | _ => .other

/-- `wbxml_encode_wv_content` (encoder; it has no case for code page 5, and its boolean cases take the
    string route). -/
def wvEncKind (page token : Nat) : WvKind :=
  match page with
  | 0x00 => if token ∈ [0x0B, 0x0F, 0x1A, 0x3C] then .integer else if token = 0x11 then .dateTime else .other
  | 0x01 => if token ∈ [0x1C, 0x25, 0x26, 0x27, 0x28, 0x32] then .integer else .other
  | 0x03 => if token ∈ [0x05, 0x06, 0x0C, 0x0D, 0x0E, 0x12, 0x13] then .integer else .other
  | 0x06 => if token = 0x1A then .dateTime else .other
  | 0x09 => if token ∈ [0x08, 0x0A] then .integer else .other
  | _ => .other

end Wbxml.Model.Typed
