/-
  Model of the SI/EMN `%Datetime` codec, decision for decision:

    encoder  src/wbxml_encoder.c  wbxml_encode_datetime        (+ wbxml_buffer_hex_to_binary,
                                                                 wbxml_buffer_remove_trailing_zeros, wbxml_encode_opaque)
    parser   src/wbxml_parser.c   decode_datetime              (+ wbxml_buffer_binary_to_hex, wbxml_buffer_insert_cstr)

  plus the small pieces shared by the three typed codecs (C strings, `isdigit`, the OPAQUE / STR_I framing
  with its multi-byte length).  Core Lean only (linked into `driver_typed`).
-/
import Wbxml.Prim.Basic
namespace Wbxml.Model.Typed
open Wbxml

/-! ### shared pieces -/

/-- What a `WB_UTINY *` C string parameter denotes: the bytes before the first NUL. -/
def cstr (bs : Bytes) : Bytes := bs.takeWhile (· != 0)

/-- `isdigit` in the C locale. -/
def isDigit (c : UInt8) : Bool := 0x30 ≤ c && c ≤ 0x39

/-- `wbxml_buffer_append_mb_uint_32` for the lengths that occur here (`WB_ULONG`, so `< 2^32`):
    big-endian base-128, continuation bit on all octets but the last. -/
def mbLoop : Nat → Nat → Bytes → Bytes            -- `for (i = 3; value > 0 && i >= 0; i--)`, i+1 = first argument
  | 0, _, acc => acc
  | k + 1, v, acc => if v > 0 then mbLoop k (v / 128) (UInt8.ofNat (0x80 + v % 128) :: acc) else acc

def mbEnc (v : Nat) : Bytes := mbLoop 4 (v / 128) [UInt8.ofNat (v % 128)]

/-- `wbxml_encode_opaque_data`: OPAQUE, length, bytes. -/
def opaqueItem (p : Bytes) : Bytes := 0xC3 :: (mbEnc p.length ++ p)

/-- `wbxml_encode_inline_string`: STR_I, bytes, NUL. -/
def strItem (s : Bytes) : Bytes := 0x03 :: (s ++ [0x00])

/-- The guard at the top of `wbxml_encode_value_element_buffer`: an empty value encodes to nothing and
    the typed routines are never entered (they index `buffer[1]` / `buffer[len-1]`). -/
def guarded (f : Bytes → Except Err Bytes) (text : Bytes) : Except Err Bytes :=
  if cstr text = [] then .ok [] else f (cstr text)

/-! ### encoder: `wbxml_encode_datetime` -/

/-- The "remove non-digit characters" loop: digits stay, `T Z - :` are deleted, anything else is
    `WBXML_ERROR_BAD_DATETIME` (11). -/
def dtFilter : Bytes → Except Err Bytes
  | [] => .ok []
  | c :: cs =>
    if isDigit c then (dtFilter cs).map (c :: ·)
    else if c == 0x54 || c == 0x5A || c == 0x2D || c == 0x3A then dtFilter cs
    else .error (.code 11)

/-- One character of `wbxml_buffer_hex_to_binary`'s first pass (non-hex characters become 0). -/
def nibble (c : UInt8) : UInt8 :=
  if 0x30 ≤ c && c ≤ 0x39 then c - 0x30
  else if 0x61 ≤ c && c ≤ 0x66 then c - 0x61 + 10
  else if 0x41 ≤ c && c ≤ 0x46 then c - 0x41 + 10
  else 0

/-- Second pass: `data[i] = data[2i] * 16 | data[2i+1]` for `i < len / 2` (an odd last character is dropped). -/
def hexPairs : Bytes → Bytes
  | a :: b :: rest => (nibble a * 16 ||| nibble b) :: hexPairs rest
  | _ => []

/-- `wbxml_buffer_remove_trailing_zeros`. -/
def stripZeros (bs : Bytes) : Bytes := (bs.reverse.dropWhile (· == 0)).reverse

/-- The opaque payload `wbxml_encode_datetime` produces from a C string (`wbxml_buffer_hex_to_binary`
    returns early on an empty buffer, so an empty string gives an empty payload; the caller's guard,
    `guarded`, keeps empty values away anyway). -/
def datetimePayload (s : Bytes) : Except Err Bytes :=
  (dtFilter s).map fun d => stripZeros (hexPairs d)

/-- `wbxml_encode_datetime`: what is appended to the encoder output. -/
def encodeDatetime (s : Bytes) : Except Err Bytes := (datetimePayload s).map opaqueItem

/-! ### parser: `decode_datetime` -/

def hexitU (n : UInt8) : UInt8 := if n < 10 then 0x30 + n else 0x41 + (n - 10)

/-- `wbxml_buffer_binary_to_hex(buff, TRUE)`. -/
def binToHex : Bytes → Bytes
  | [] => []
  | b :: bs => hexitU (b / 16 &&& 0xF) :: hexitU (b % 16) :: binToHex bs

/-- `wbxml_buffer_insert_cstr` (a position past the end makes `insert_data` fail; the caller reports
    `WBXML_ERROR_NOT_ENOUGH_MEMORY`, 15). -/
def insertAt (bs : Bytes) (pos : Nat) (x : Bytes) : Except Err Bytes :=
  if pos > bs.length then .error (.code 15) else .ok (bs.take pos ++ x ++ bs.drop pos)

/-- `decode_datetime` after the hex expansion. -/
def decodeHex (hex : Bytes) : Except Err Bytes :=
  let len := hex.length
  if len < 8 || len > 14 || len == 9 || len == 11 || len == 13 then .error (.code 11) else do
    let b ← insertAt hex 4 [0x2D]
    let b ← insertAt b 7 [0x2D]
    let b ← insertAt b 10 [0x54]
    let b ← if len > 10 then insertAt b 13 [0x3A] else pure b
    let b ← if len > 12 then insertAt b 16 [0x3A] else pure b
    let tail : Bytes :=
      if len = 8 then b!"00:00:00" else if len = 10 then b!":00:00" else if len = 12 then b!":00" else []
    pure (b ++ tail ++ [0x5A])

/-- `decode_datetime` on the attribute value collected by `parse_attribute`. -/
def decodeDatetime (p : Bytes) : Except Err Bytes := decodeHex (binToHex p)

end Wbxml.Model.Typed
