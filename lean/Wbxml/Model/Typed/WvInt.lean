/-
  Model of the Wireless-Village integer codec, decision for decision (the code as of the `fix:` commits
  recorded in known_findings.json):

    encoder  src/wbxml_encoder.c  wbxml_encode_wv_integer
    parser   src/wbxml_parser.c   decode_wv_integer

  [OMA-WV-CSP DataTypes] 4.1: "An integer is a number from 0-4294967295 expressed in decimal format",
  carried as a big-endian opaque without leading zero octets.
-/
import Wbxml.Model.Typed.Datetime
namespace Wbxml.Model.Typed
open Wbxml

/-! ### `sprintf("%u")` -/

def digitChar (n : Nat) : UInt8 := UInt8.ofNat (48 + n % 10)

/-- Decimal digits of `n`, no leading zeros, `"0"` for zero. -/
def decNat (n : Nat) : Bytes :=
  if n < 10 then [digitChar n] else decNat (n / 10) ++ [digitChar n]
termination_by n
decreasing_by omega

/-! ### parser: `decode_wv_integer` -/

/-- The accumulation loop: `WB_ULONG the_int` is 32 bits wide. Before each shift the value must still
    fit in three octets, otherwise the high octet would be shifted out: `WBXML_ERROR_WV_INTEGER_OVERFLOW` (80). -/
def wvIntAcc : Nat → Bytes → Except Err Nat
  | acc, [] => .ok acc
  | acc, c :: cs =>
    if acc > 0x00FFFFFF then .error (.code 80)
    else wvIntAcc ((acc * 256 + c.toNat) % 4294967296) cs

/-- `decode_wv_integer`: opaque payload → decimal text. -/
def decodeWvInt (p : Bytes) : Except Err Bytes := (wvIntAcc 0 p).map decNat

/-! ### encoder: `wbxml_encode_wv_integer` -/

def isHexDigit (c : UInt8) : Bool :=
  (0x30 ≤ c && c ≤ 0x39) || (0x61 ≤ c && c ≤ 0x66) || (0x41 ≤ c && c ≤ 0x46)

/-- `strtoul` digit accumulation (unbounded here; the range test follows). -/
def decVal (s : Bytes) : Nat := s.foldl (fun a c => a * 10 + (c.toNat - 48)) 0
def hexVal (s : Bytes) : Nat := s.foldl (fun a c => a * 16 + (nibble c).toNat) 0

/-- What the text of an integer element denotes for the encoder:
    `some v`  a decimal numeral, or `0x`/`0X` followed by at least one hexadecimal digit, nothing else;
    `none`    anything else (`!isdigit(buffer[0])`, or `strtoul` stopped before the terminator). -/
def wvIntNumeral (s : Bytes) : Option Nat :=
  match s with
  | [] => none
  | c0 :: rest =>
    if !isDigit c0 then none
    else match rest with
      | c1 :: hexs =>
        if c1 == 0x78 || c1 == 0x58 then
          -- strtoul(…, 16): the "0x" prefix counts only when a hex digit follows; otherwise the scan stops at 'x'
          if c0 == 0x30 && hexs ≠ [] && hexs.all isHexDigit then some (hexVal hexs) else none
        else if s.all isDigit then some (decVal s) else none
      | [] => some (decVal s)

/-- `for (i = 3; the_int > 0 && i >= 0; i--) { octets[i] = the_int & 0xff; the_int >>= 8; }`
    (first argument = i + 1). -/
def beLoop : Nat → Nat → Bytes → Bytes
  | 0, _, acc => acc
  | k + 1, v, acc => if v > 0 then beLoop k (v / 256) (UInt8.ofNat (v % 256) :: acc) else acc

/-- Minimal big-endian octets of a 32-bit value (none for zero). -/
def wvIntOctets (n : Nat) : Bytes := beLoop 4 n []

/-- `wbxml_encode_wv_integer` on a C string:
    `.ok (some item)`  OPAQUE item appended to the output,
    `.ok none`         `WBXML_NOT_ENCODED`: the text is left to the generic string path (carried unchanged),
    `.error 80`        a numeral outside 0..2^32-1 (`errno == ERANGE || val > 0xffffffff`). -/
def encodeWvInt (s : Bytes) : Except Err (Option Bytes) :=
  match wvIntNumeral s with
  | none => .ok none
  | some v => if v > 0xFFFFFFFF then .error (.code 80) else .ok (some (opaqueItem (wvIntOctets v)))

end Wbxml.Model.Typed
