/-
  C16 — the hand-unwound functions of `wbxml_encoder.c` that the property names, in the ledger
  monad: encoder create / destroy, `encoder_init_output`, `encoder_encode_tree` with its callers
  (`wbxml_tree_to_wbxml` shape), the string-table functions `wbxml_strtbl_element_create/destroy`,
  `wbxml_strtbl_add_element`, `wbxml_strtbl_collect_strings`, `wbxml_strtbl_check_references`,
  `wbxml_strtbl_collect_words` (with `wbxml_buffer_split_words`), `wbxml_strtbl_initialize`,
  `wbxml_strtbl_construct`, and `wbxml_build_result` with `wbxml_fill_header`.

  Behaviour after the `fix:` commits; `Model/AllocOld.lean` has the former `encoder_encode_tree`.
  The body of the document (`parse_node`) is represented by the sequence of byte chunks it appends
  to the output buffer (each chunk one `wbxml_buffer_append_*` call that must succeed).
-/
import Wbxml.Model.AllocCont
import Wbxml.Spec.Seq
namespace Wbxml.Model.Alloc
open Wbxml

def STRTBL_MIN : Nat := 3          -- WBXML_ENCODER_STRING_TABLE_MIN
def SPLIT_BLOCK : Nat := 20        -- WBXML_BUFFER_SPLIT_BLOCK
def HEADER_BLOCK : Nat := 16       -- WBXML_ENCODER_WBXML_HEADER_MALLOC_BLOCK
def DOC_BLOCK : Nat := 1000        -- WBXML_ENCODER_WBXML_DOC_MALLOC_BLOCK
def CHARSET_UTF8 : Nat := 0x6a     -- WBXML_ENCODER_DEFAULT_CHARSET

/-- The octets of `wbxml_buffer_append_mb_uint_32` (C11/C19 prove what they denote). -/
def mbHigh : Nat → Nat → Bytes → Bytes
  | 0, _, acc => acc
  | f + 1, v, acc => if v > 0 then mbHigh f (v / 128) (UInt8.ofNat (128 + v % 128) :: acc) else acc

def mbOctets (value : Nat) : Bytes :=
  let v := value % 4294967296
  mbHigh 4 (v / 128) [] ++ [UInt8.ofNat (v % 128)]

/-! ### String-table elements -/

/-- `WBXMLStringTableElement *`. -/
structure StrElt where
  hdr : Nat
  string : ABuf
  stat : Bool
  count : Nat
  offset : Nat
  deriving Repr, DecidableEq, Inhabited

def StrElt.owned (e : StrElt) : List Nat := e.hdr :: (if e.stat then [] else e.string.owned)

/-- `wbxml_strtbl_element_create(string, is_stat)`. -/
def strEltCreate (string : ABuf) (stat : Bool) : Prog (Option StrElt) := do
  let h ← malloc
  match h with
  | none => pure none
  | some h => pure (some ⟨h, string, stat, 0, 0⟩)

/-- `wbxml_strtbl_element_destroy(element)`. -/
def strEltDestroy (e : Option StrElt) : Prog Unit :=
  match e with
  | none => pure ()
  | some e => do
    deref (some e.hdr)
    if !e.stat then bufDestroy (some e.string)
    free (some e.hdr)

/-! ### The encoder object -/

/-- `WBXMLEncoder *`: the members that own memory, and the two settings that steer allocation. -/
structure AEnc where
  hdr : Nat
  strstbl : Option (AList StrElt)
  strstblLen : Nat
  output : Option ABuf
  useStrtbl : Bool
  deriving Repr, DecidableEq, Inhabited

def ownedStrList : Option (AList StrElt) → List Nat
  | none => []
  | some l => l.owned StrElt.owned

def AEnc.owned (e : AEnc) : List Nat := e.hdr :: (ownedStrList e.strstbl ++ ownedBufOpt e.output)

/-- `wbxml_encoder_create_real()`. -/
def encCreate : Prog (Option AEnc) := do
  let h ← malloc
  match h with
  | none => pure none
  | some h => do
    let l ← listCreate (ι := StrElt)
    match l with
    | none => do free (some h); pure none
    | some l => pure (some ⟨h, some l, 0, none, true⟩)

/-- `wbxml_encoder_destroy(encoder)`. -/
def encDestroy (e : Option AEnc) : Prog Unit :=
  match e with
  | none => pure ()
  | some e => do
    deref (some e.hdr)
    bufDestroy e.output
    listDestroy e.strstbl (fun x => strEltDestroy (some x))
    free (some e.hdr)

/-- `encoder_init_output(encoder)`. -/
def encInitOutput (e : AEnc) : Prog (AEnc × Bool) := do
  deref (some e.hdr)
  if e.output.isSome then pure (e, true)
  else do
    let b ← bufCreate (some []) DOC_BLOCK
    match b with
    | none => pure (e, false)
    | some b => pure ({ e with output := some b }, true)

/-! ### String table -/

/-- `wbxml_strtbl_add_element(encoder, elt, &index, &added)`: (encoder, ok, added). -/
def strtblAddElement (e : AEnc) (elt : StrElt) : Prog (AEnc × Bool × Bool) := do
  deref (some e.hdr)
  match e.strstbl with
  | none => pure (e, false, false)
  | some l =>
    if l.items.any (fun x => x.string.bytes == elt.string.bytes) then pure (e, true, false)
    else do
      let elt := { elt with offset := e.strstblLen }
      let (l, ok) ← listAppend l elt
      if !ok then pure (e, false, false)
      else pure ({ e with strstbl := some l, strstblLen := e.strstblLen + elt.string.len + 1 }, true, true)

/-- The text nodes `wbxml_strtbl_collect_strings` keeps: not blank, longer than the minimum.
    A failed `wbxml_list_append` is ignored there (the string is simply not shared). -/
def collectStrings (strings : AList ABuf) : List ABuf → Prog (AList ABuf)
  | [] => pure strings
  | t :: rest => do
    deref (some t.hdr)
    if t.bytes.all Spec.Seq.ws then collectStrings strings rest
    else if t.len > STRTBL_MIN then do
      let (strings, _) ← listAppend strings t
      collectStrings strings rest
    else collectStrings strings rest

/-- Destructor passed for the items of `strings`: none when the buffers are borrowed. -/
def destroyString (stat : Bool) (b : ABuf) : Prog Unit :=
  if stat then pure () else bufDestroy (some b)

/-- `ref->count++` on the first element of `referenced` whose string equals `bytes`. -/
def bumpCount (bytes : Bytes) : List (Nat × StrElt) → Option (List (Nat × StrElt))
  | [] => none
  | (c, r) :: rest =>
    if r.string.bytes == bytes then some ((c, { r with count := r.count + 1 }) :: rest)
    else (bumpCount bytes rest).map ((c, r) :: ·)

/-- First loop of `wbxml_strtbl_check_references` ("Count References"). `cells` are the cells of
    `*strings` still in the list. Result: `none` when an allocation failed (everything given to
    the loop has been released), else the list of references. -/
def countRefs (stat : Bool) (sHdr : Nat) (referenced : AList StrElt) :
    List (Nat × ABuf) → Prog (Option (AList StrElt))
  | [] => pure (some referenced)
  | (c, string) :: rest => do
    -- wbxml_list_extract_first(*strings)
    deref (some sHdr); deref (some c); free (some c)
    match bumpCount string.bytes referenced.cells with
    | some cells' => do
      destroyString stat string
      countRefs stat sHdr { referenced with cells := cells' } rest
    | none => do
      let ref ← strEltCreate string stat
      match ref with
      | none => do
        destroyString stat string
        listDestroy (some referenced) (fun x => strEltDestroy (some x))
        listDestroy (some (⟨sHdr, rest⟩ : AList ABuf)) (destroyString stat)
        pure none
      | some ref => do
        let ref := { ref with count := ref.count + 1 }
        let (referenced, ok) ← listAppend referenced ref
        if !ok then do
          strEltDestroy (some ref)
          listDestroy (some referenced) (fun x => strEltDestroy (some x))
          listDestroy (some (⟨sHdr, rest⟩ : AList ABuf)) (destroyString stat)
          pure none
        else countRefs stat sHdr referenced rest

/-- Second loop ("Remove Strings that have only One reference"): (encoder, one_ref or none). -/
def splitRefs (e : AEnc) (rHdr : Nat) (result : AList StrElt) :
    List (Nat × StrElt) → Prog (AEnc × Option (AList StrElt))
  | [] => pure (e, some result)
  | (c, ref) :: rest => do
    deref (some rHdr); deref (some c); free (some c)
    deref (some ref.hdr)
    if ref.count > 1 && ref.string.len > STRTBL_MIN then do
      -- the string table owns its strings: a borrowed text-node buffer is copied first
      let ref' ← (if ref.stat then do
          let copy ← bufDuplicate (some ref.string)
          match copy with
          | none => pure none
          | some c => pure (some { ref with string := c, stat := false })
        else pure (some ref))
      match ref' with
      | none => do
        strEltDestroy (some ref)
        listDestroy (some (⟨rHdr, rest⟩ : AList StrElt)) (fun x => strEltDestroy (some x))
        listDestroy (some result) (fun x => strEltDestroy (some x))
        pure (e, none)
      | some ref => do
        let (e, ok, added) ← strtblAddElement e ref
        if !ok then do
          strEltDestroy (some ref)
          listDestroy (some (⟨rHdr, rest⟩ : AList StrElt)) (fun x => strEltDestroy (some x))
          listDestroy (some result) (fun x => strEltDestroy (some x))
          pure (e, none)
        else do
          (if !added then strEltDestroy (some ref) else pure ())
          splitRefs e rHdr result rest
    else do
      let (result, ok) ← listAppend result ref
      if !ok then do
        strEltDestroy (some ref)
        listDestroy (some (⟨rHdr, rest⟩ : AList StrElt)) (fun x => strEltDestroy (some x))
        listDestroy (some result) (fun x => strEltDestroy (some x))
        pure (e, none)
      else splitRefs e rHdr result rest

/-- `wbxml_strtbl_check_references(encoder, &strings, &one_ref, stat_buff)`:
    (encoder, code, `*strings` afterwards, `*one_ref`). -/
def checkReferences (e : AEnc) (strings : AList ABuf) (stat : Bool) :
    Prog (AEnc × Nat × Option (AList ABuf) × Option (AList StrElt)) := do
  let referenced ← listCreate (ι := StrElt)
  match referenced with
  | none => pure (e, ENOMEM, some strings, none)
  | some referenced => do
    let referenced ← countRefs stat strings.hdr referenced strings.cells
    match referenced with
    | none => pure (e, ENOMEM, none, none)
    | some referenced => do
      listDestroy (some (⟨strings.hdr, []⟩ : AList ABuf)) (fun _ => pure ())
      let result ← listCreate (ι := StrElt)
      match result with
      | none => do
        listDestroy (some referenced) (fun x => strEltDestroy (some x))
        pure (e, ENOMEM, none, none)
      | some result => do
        let (e, oneRef) ← splitRefs e referenced.hdr result referenced.cells
        match oneRef with
        | none => pure (e, ENOMEM, none, none)
        | some oneRef => do
          listDestroy (some (⟨referenced.hdr, []⟩ : AList StrElt)) (fun x => strEltDestroy (some x))
          pure (e, OK, none, some oneRef)

/-- The word loop of `wbxml_buffer_split_words_real`. -/
def splitWordsLoop (list : AList ABuf) : List Bytes → Prog (Option (AList ABuf))
  | [] => pure (some list)
  | w :: rest => do
    let word ← bufCreate (some w) SPLIT_BLOCK
    match word with
    | none => do
      listDestroy (some list) (fun b => bufDestroy (some b))
      pure none
    | some word => do
      let (list, ok) ← listAppend list word
      if !ok then do
        bufDestroy (some word)
        listDestroy (some list) (fun b => bufDestroy (some b))
        pure none
      else splitWordsLoop list rest

/-- `wbxml_buffer_split_words_real(buff)`. -/
def splitWords (b : ABuf) : Prog (Option (AList ABuf)) := do
  deref (some b.hdr)
  let list ← listCreate (ι := ABuf)
  match list with
  | none => pure none
  | some list => splitWordsLoop list (Spec.Seq.words b.bytes)

/-- `while ((word = wbxml_list_extract_first(temp_list)) != NULL) wbxml_list_append(list, word)`:
    `none` when an append failed (word, `temp_list` and `list` released). -/
def moveWords (tHdr : Nat) (list : AList ABuf) : List (Nat × ABuf) → Prog (Option (AList ABuf))
  | [] => pure (some list)
  | (c, word) :: rest => do
    deref (some tHdr); deref (some c); free (some c)
    let (list, ok) ← listAppend list word
    if !ok then do
      bufDestroy (some word)
      listDestroy (some (⟨tHdr, rest⟩ : AList ABuf)) (fun b => bufDestroy (some b))
      listDestroy (some list) (fun b => bufDestroy (some b))
      pure none
    else moveWords tHdr list rest

/-- The `for` loop of `wbxml_strtbl_collect_words`: (code, list). -/
def collectWordsLoop (list : Option (AList ABuf)) : List StrElt → Prog (Nat × Option (AList ABuf))
  | [] => pure (OK, list)
  | elt :: rest => do
    deref (some elt.hdr)
    match list with
    | none => do
      let l ← splitWords elt.string
      match l with
      | none => pure (ENOMEM, none)
      | some l => collectWordsLoop (some l) rest
    | some list => do
      let tmp ← splitWords elt.string
      match tmp with
      | none => do
        listDestroy (some list) (fun b => bufDestroy (some b))
        pure (ENOMEM, none)
      | some tmp => do
        let list ← moveWords tmp.hdr list tmp.cells
        match list with
        | none => pure (ENOMEM, none)
        | some list => do
          listDestroy (some (⟨tmp.hdr, []⟩ : AList ABuf)) (fun _ => pure ())
          collectWordsLoop (some list) rest

/-- `wbxml_strtbl_collect_words(elements, &result)`. -/
def collectWords (elements : AList StrElt) : Prog (Nat × Option (AList ABuf)) := do
  deref (some elements.hdr)
  collectWordsLoop none elements.items

/-- `wbxml_strtbl_initialize(encoder, root)`, `texts` = contents of the text nodes in document
    order (borrowed from the tree). -/
def strtblInitialize (e : AEnc) (texts : List ABuf) : Prog (AEnc × Nat) := do
  let strings ← listCreate (ι := ABuf)
  match strings with
  | none => pure (e, ENOMEM)
  | some strings => do
    let strings ← collectStrings strings texts
    let (e, ret, strings, oneRef) ← checkReferences e strings true
    if ret != OK then do
      listDestroy strings (fun _ => pure ())
      pure (e, ret)
    else match oneRef with
      | none => ub "check_references returned OK without one_ref"
      | some oneRef => do
        let (ret, words) ← collectWords oneRef
        if ret != OK then do
          listDestroy (some oneRef) (fun x => strEltDestroy (some x))
          pure (e, ret)
        else do
          listDestroy (some oneRef) (fun x => strEltDestroy (some x))
          match words with
          | none => pure (e, OK)
          | some words => do
            let (e, ret2, words', oneRef2) ← checkReferences e words false
            if ret2 != OK then listDestroy words' (fun b => bufDestroy (some b))
            listDestroy oneRef2 (fun x => strEltDestroy (some x))
            pure (e, OK)

/-! ### Encoding and result -/

/-- Appends of the document body to `encoder->output`: (encoder, code). -/
def encodeBody (e : AEnc) : List Bytes → Prog (AEnc × Nat)
  | [] => pure (e, OK)
  | chunk :: rest =>
    match e.output with
    | none => ub "encoder->output is NULL"
    | some out => do
      let (out, ok) ← bufAppendData out (some chunk)
      let e := { e with output := some out }
      if !ok then pure (e, EAPPEND) else encodeBody e rest

/-- `encoder_encode_tree(encoder)`: the encoder stays the caller's on every exit. -/
def encodeTree (e : AEnc) (texts : List ABuf) (body : List Bytes) : Prog (AEnc × Nat) := do
  let (e, ok) ← encInitOutput e
  if !ok then pure (e, ENOMEM)
  else do
    let (e, ret) ← (if e.useStrtbl then strtblInitialize e texts else pure (e, OK))
    if ret != OK then pure (e, ret)
    else encodeBody e body

/-- `wbxml_strtbl_construct(buff, strstbl)`. -/
def strtblConstruct (h : ABuf) : List StrElt → Prog (ABuf × Nat)
  | [] => pure (h, OK)
  | elt :: rest => do
    let (h, ok) ← bufAppend h (some elt.string)
    if !ok then pure (h, EAPPEND)
    else do
      let (h, ok) ← bufAppendChar h 0
      if !ok then pure (h, EAPPEND) else strtblConstruct h rest

/-- `wbxml_fill_header(encoder, header)` for a known numeric public id. -/
def fillHeader (e : AEnc) (h : ABuf) (version publicId : Nat) : Prog (ABuf × Nat) := do
  let (h, ok) ← bufAppendChar h (UInt8.ofNat version)
  if !ok then pure (h, EAPPEND)
  else do
    let (h, ok) ← bufAppendData h (some (mbOctets publicId))
    if !ok then pure (h, EAPPEND)
    else do
      -- no charset field in a WBXML 1.0 header (version byte 0x00)
      let (h, ok) ← (if version != 0 then bufAppendData h (some (mbOctets CHARSET_UTF8)) else pure (h, true))
      if !ok then pure (h, EAPPEND)
      else do
        let (h, ok) ← bufAppendData h (some (mbOctets e.strstblLen))
        if !ok then pure (h, EAPPEND)
        else if e.useStrtbl then
          match e.strstbl with
          | none => pure (h, 12)      -- WBXML_ERROR_BAD_PARAMETER
          | some l => strtblConstruct h l.items
        else pure (h, OK)

/-- `wbxml_build_result(encoder, &wbxml, &wbxml_len)`: (code, result block with its bytes). -/
def buildResult (e : AEnc) (version publicId : Nat) : Prog (Nat × Option (Nat × Bytes)) := do
  deref (some e.hdr)
  let header ← bufCreate (some []) HEADER_BLOCK
  match header with
  | none => pure (ENOMEM, none)
  | some header => do
    let (header, ret) ← fillHeader e header version publicId
    if ret != OK then do
      bufDestroy (some header)
      pure (ret, none)
    else do
      let r ← malloc
      match r with
      | none => do
        bufDestroy (some header)
        pure (ENOMEM, none)
      | some r => do
        let hb ← bufCstr header
        let ob ← (match e.output with
          | none => pure (some ([] : Bytes))
          | some o => bufCstr o)
        bufDestroy (some header)
        match hb, ob with
        | some hb, some ob => pure (OK, some (r, hb ++ ob))
        | _, _ => ub "memcpy from a NULL data pointer"

/-- `wbxml_tree_to_wbxml`: create the encoder, encode, build the result, destroy the encoder. -/
def treeToWbxml (useStrtbl : Bool) (texts : List ABuf) (body : List Bytes) (version publicId : Nat) :
    Prog (Nat × Option (Nat × Bytes)) := do
  let e ← encCreate
  match e with
  | none => pure (ENOMEM, none)
  | some e => do
    let e := { e with useStrtbl := useStrtbl }
    let (e, ret) ← encodeTree e texts body
    if ret != OK then do
      encDestroy (some e)
      pure (ret, none)
    else do
      let (ret, out) ← buildResult e version publicId
      encDestroy (some e)
      pure (ret, out)

end Wbxml.Model.Alloc
