/-
  C20 — model of the command-line tools, part 3: `main` of wbxml2xml / xml2wbxml as a total function

      (scan result of argv, world, library) → (exit status, stdout bytes, stderr lines, file writes)

  The library conversion is the parameter `lib.conv` (its behaviour is decided by C01–C07), the text
  of an error code is `lib.errStr` (`wbxml_errors_string`). The operating system is the parameter
  `World`: what `fopen(path,"rb")` / `fopen(path,"w")` answer, what is on stdin, whether the output
  device stores what it is given, and how `fread` cuts the input into pieces.
  The model describes the tree *after* the three C20 repairs (DESIGN_NOTES/C20.md):
  the NULL `FILE*` is no longer written through, xml2wbxml reports an unopenable input on stderr, and
  a failed flush/close of the output is reported like a short `fwrite`.
-/
import Wbxml.Model.ToolGetopt
namespace Wbxml.Model.Tool
open Wbxml

/-- Answer of `fopen(path, "rb")` (and the state of stdin). A directory opens but cannot be read. -/
inductive ROpen where
  | fail
  | dir
  | file (content : Bytes)
  deriving Repr, DecidableEq, Inhabited

/-- Where written bytes go: a device that stores them, or one without space whose stdio buffer
    holds `buf` bytes (`/dev/full`: `fwrite` of fewer than `buf` bytes "succeeds", the flush fails). -/
inductive Sink where
  | ok
  | full (buf : Nat)
  deriving Repr, DecidableEq, Inhabited

/-- Answer of `fopen(path, "w")`. -/
inductive WOpen where
  | fail
  | ok (s : Sink)
  deriving Repr, DecidableEq, Inhabited

structure World where
  stdin : ROpen
  openR : Bytes → ROpen
  openW : Bytes → WOpen
  stdout : Sink
  /-- `fread` schedule: entry `j` makes the next `fread(buf,1,1000,f)` deliver at most `j+1` bytes;
      when the list is used up every call delivers up to 1000. -/
  sched : List Nat

structure Lib where
  conv : Params → Bytes → Except Nat Bytes
  errStr : Nat → Bytes

/-- Lines on stderr, kept symbolic; `render` gives the bytes (without the new line). -/
inductive Line where
  | getopt (raw : Bytes)                 -- printed by the option scanner, starts with argv[0]
  | help                                 -- the block printed by `help()`
  | missingArgs
  | failedOpenIn (path : Bytes)
  | readError (name : Bytes)
  | noMem
  | failed (t : Tool) (text : Bytes)
  | succeeded (t : Tool)
  | failedOpenOut (path : Bytes)
  | writeError (path : Bytes)
  deriving Repr, DecidableEq, Inhabited

def Line.render : Line → Bytes
  | .getopt raw => raw
  | .help => b!"<help>"
  | .missingArgs => b!"Missing arguments"
  | .failedOpenIn p => b!"Failed to open " ++ p
  | .readError n => b!"Error while reading from file " ++ n
  | .noMem => b!"Not enough memory"
  | .failed t x => toolName t ++ b!" failed: " ++ x
  | .succeeded t => toolName t ++ b!" succeeded"
  | .failedOpenOut p => b!"Failed to open output file: " ++ p
  | .writeError p => b!"Error while writing to file: " ++ p

/-- A successful `fopen(path,"w")`: the file now exists and holds `content` (`complete = false`:
    the device did not store it). -/
structure FileWrite where
  path : Bytes
  content : Bytes
  complete : Bool
  deriving Repr, DecidableEq, Inhabited

structure Out where
  exit : Nat
  stdout : Bytes
  stderr : List Line
  files : List FileWrite
  /-- The one call of the library made by this run, if any (parameter block and input bytes). -/
  call : Option (Params × Bytes)
  deriving Repr, DecidableEq, Inhabited

inductive Result where
  | done (o : Out)
  | crash (what : String)
  deriving Repr, DecidableEq, Inhabited

/-! ### option switch -/

structure OptSt (α : Type) where
  cfg : α
  output : Option Bytes

inductive OptR (α : Type) where
  | cont (s : OptSt α)
  | help
  | crash (what : String)

/-- The `switch (opt)` of wbxml2xml. `atoi(NULL)` / `strcmp(NULL, ..)` would fault. -/
def w2xApply (s : OptSt W2XCfg) (e : Ev) : OptR W2XCfg :=
  if e.opt == 107 then .cont { s with cfg := { s.cfg with keepWs := true } }           -- 'k'
  else if e.opt == 105 then                                                              -- 'i'
    match e.arg with
    | some a => .cont { s with cfg := { s.cfg with indent := indentOf a } }
    | none => .crash "atoi(NULL)"
  else if e.opt == 108 then                                                              -- 'l'
    match e.arg with
    | some a => .cont { s with cfg := { s.cfg with lang := getLang a } }
    | none => .crash "strcmp(NULL, ...)"
  else if e.opt == 99 then                                                               -- 'c'
    match e.arg with
    | some a => .cont { s with cfg := { s.cfg with charset := getCharset a } }
    | none => .crash "strcmp(NULL, ...)"
  else if e.opt == 109 then                                                              -- 'm'
    match e.arg with
    | some a => .cont { s with cfg := { s.cfg with gen := genOf a } }
    | none => .crash "atoi(NULL)"
  else if e.opt == 111 then .cont { s with output := e.arg }                            -- 'o'
  else .help                                                                             -- 'h' '?' default

/-- The `switch (opt)` of xml2wbxml. -/
def x2wApply (s : OptSt X2WCfg) (e : Ev) : OptR X2WCfg :=
  if e.opt == 118 then                                                                   -- 'v'
    match e.arg with
    | some a => .cont { s with cfg := { s.cfg with version := getVersion a } }
    | none => .crash "strcmp(NULL, ...)"
  else if e.opt == 110 then .cont { s with cfg := { s.cfg with useStrtbl := false } }   -- 'n'
  else if e.opt == 107 then .cont { s with cfg := { s.cfg with keepWs := true } }       -- 'k'
  else if e.opt == 97 then .cont { s with cfg := { s.cfg with anonymous := true } }     -- 'a'
  else if e.opt == 111 then .cont { s with output := e.arg }                            -- 'o'
  else .help

inductive OptsR (α : Type) where
  | ok (s : OptSt α) (errs : List Line)
  | help (errs : List Line)
  | crash (what : String)

/-- The `while` loop over the scanner's events: getopt's own messages first, then the switch;
    the first `help` case leaves the loop (later events are never produced). -/
def runOpts {α} (apply : OptSt α → Ev → OptR α) : List Ev → OptSt α → List Line → OptsR α
  | [], s, errs => .ok s errs
  | e :: es, s, errs =>
    let errs' := errs ++ e.err.map Line.getopt
    match apply s e with
    | .cont s' => runOpts apply es s' errs'
    | .help => .help errs'
    | .crash w => .crash w

/-! ### reading the input -/

inductive ReadR where
  | data (b : Bytes)
  | noMem
  | fuel
  deriving Repr, DecidableEq, Inhabited

/-- glibc `realloc(p, size)` returning NULL: only `realloc(non-NULL, 0)` (which frees). wbxml2xml
    asks for `total`, xml2wbxml for `total + 1` bytes. Allocation failure itself is not modelled. -/
def reallocNull (t : Tool) (total : Nat) (pNonNull : Bool) : Bool :=
  match t with
  | .w2x => total == 0 && pNonNull
  | .x2w => false

/-- `while (!feof(f)) { count = fread(buf,1,1000,f); total += count; p = realloc(p, ..); memcpy; }`
    on a readable stream holding `rest`. A call that is asked for more than is left delivers what is
    left and sets the end-of-file flag. -/
def readLoop (t : Tool) : Nat → List Nat → Bytes → Bytes → Bool → ReadR
  | 0, _, _, _, _ => .fuel
  | n + 1, sched, rest, acc, p =>
    let k := match sched with
      | [] => 1000
      | j :: _ => min (j + 1) 1000
    if rest.length < k then
      if reallocNull t (acc.length + rest.length) p then .noMem else .data (acc ++ rest)
    else
      if reallocNull t (acc.length + k) p then .noMem
      else readLoop t n sched.tail (rest.drop k) (acc ++ rest.take k) true

def readAll (t : Tool) (sched : List Nat) (content : Bytes) : ReadR :=
  readLoop t (content.length + 1) sched content [] false

/-! ### writing the output -/

/-- `fwrite(p,1,n,f) < n`. -/
def fwriteShort (s : Sink) (n : Nat) : Bool :=
  match s with
  | .ok => false
  | .full buf => decide (0 < n) && decide (buf ≤ n)

/-- `fclose(f) != 0` / `fflush(stdout) != 0`: buffered bytes that cannot be flushed. -/
def flushFails (s : Sink) (n : Nat) : Bool :=
  match s with
  | .ok => false
  | .full buf => decide (0 < n) && decide (n < buf)

def stored (s : Sink) (b : Bytes) : Bool :=
  match s with
  | .ok => true
  | .full _ => b.isEmpty

/-! ### main -/

def mkOut (exit : Nat) (stdout : Bytes) (stderr : List Line) (files : List FileWrite)
    (call : Option (Params × Bytes)) : Result :=
  .done ⟨exit % 256, stdout, stderr, files, call⟩

/-- From the conversion to `return ret`. -/
def convAndWrite (t : Tool) (lib : Lib) (w : World) (p : Params) (output : Option Bytes)
    (input : Bytes) (errs : List Line) : Result :=
  match lib.conv p input with
  | .error code =>
    mkOut code [] (errs ++ [.failed t (lib.errStr code)]) [] (some (p, input))
  | .ok res =>
    let errs1 := errs ++ [.succeeded t]
    match output with
    | none => mkOut 0 [] errs1 [] (some (p, input))
    | some path =>
      if path == b!"-" then
        let bad := fwriteShort w.stdout res.length || flushFails w.stdout res.length
        mkOut 0 (if stored w.stdout res then res else []) (errs1 ++ (if bad then [.writeError path] else []))
          [] (some (p, input))
      else
        match w.openW path with
        | .fail => mkOut 0 [] (errs1 ++ [.failedOpenOut path]) [] (some (p, input))
        | .ok s =>
          let bad := fwriteShort s res.length || flushFails s res.length
          mkOut 0 [] (errs1 ++ (if bad then [.writeError path] else []))
            [⟨path, if stored s res then res else [], stored s res⟩] (some (p, input))

/-- After the option loop: `if (optind >= argc)` … `return ret`. `argv`/`optind` are what the
    scanner left behind. -/
def afterOpts (t : Tool) (lib : Lib) (w : World) (p : Params) (output : Option Bytes)
    (sr : ScanRes) (errs : List Line) : Result :=
  if sr.optind ≥ sr.argv.length then mkOut 0 [] (errs ++ [.missingArgs, .help]) [] none
  else
    match argvAt sr.argv sr.optind with
    | .error _ => .crash "argv[optind]"
    | .ok name =>
      -- `-` is stdin (a closed or unreadable stdin shows up at the first `fread`)
      let src : Option ROpen :=
        if name == b!"-" then some w.stdin
        else match w.openR name with
          | .fail => none
          | r => some r
      match src with
      | none => mkOut 0 [] (errs ++ [.failedOpenIn name]) [] none
      | some .fail | some .dir =>
        -- `ferror` after the first `fread`; xml2wbxml names `argv[1]` in the message
        match t with
        | .w2x => mkOut 0 [] (errs ++ [.readError name]) [] none
        | .x2w =>
          match argvAt sr.argv 1 with
          | .error _ => .crash "argv[1]"
          | .ok a1 => mkOut 0 [] (errs ++ [.readError a1]) [] none
      | some (.file content) =>
        match readAll t w.sched content with
        | .fuel => .crash "fuel"
        | .noMem => mkOut 0 [] (errs ++ [.noMem]) [] none
        | .data input => convAndWrite t lib w p output input errs

def w2xMain (lib : Lib) (w : World) (sr : ScanRes) : Result :=
  match runOpts w2xApply sr.evs ⟨{}, none⟩ [] with
  | .crash x => .crash x
  | .help errs => mkOut 0 [] (errs ++ [.help]) [] none
  | .ok s errs => afterOpts .w2x lib w (.w2x s.cfg) s.output sr errs

def x2wMain (lib : Lib) (w : World) (sr : ScanRes) : Result :=
  match runOpts x2wApply sr.evs ⟨{}, none⟩ [] with
  | .crash x => .crash x
  | .help errs => mkOut 0 [] (errs ++ [.help]) [] none
  | .ok s errs => afterOpts .x2w lib w (.x2w s.cfg) s.output sr errs

def toolMain (t : Tool) (lib : Lib) (w : World) (sr : ScanRes) : Result :=
  match t with
  | .w2x => w2xMain lib w sr
  | .x2w => x2wMain lib w sr

/-- Which option scanner the executable was linked with. -/
inductive Getopt where
  | att | gnu
  deriving Repr, DecidableEq, Inhabited

def scan (g : Getopt) (opts : Bytes) (argv : Argv) : Except Err ScanRes :=
  match g with
  | .att => attScan opts argv
  | .gnu => .ok (gnuScan opts argv)

/-- The whole executable. -/
def tool (t : Tool) (g : Getopt) (lib : Lib) (w : World) (argv : Argv) : Result :=
  match scan g (toolOpts t) argv with
  | .error (.ub x) => .crash x
  | .error _ => .crash "scanner"
  | .ok sr => toolMain t lib w sr

end Wbxml.Model.Tool
