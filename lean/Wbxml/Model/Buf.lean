/-
  C19 — concrete model of `src/wbxml_buffers.c` (the byte buffer as the C struct sees it).

  A buffer is `{ data : Option Mem, len, malloced, isStatic }` exactly like `struct WBXMLBuffer_s`
  (`data = none` is the NULL pointer; `some m` is an allocation of `m.length` bytes).  Every raw
  memory access of the C file (`memcpy`, `memmove`, `memcmp`, `memchr`, `p[i]`, `data[len] = 0`)
  goes through the bounds-obligated primitives of `Mem`, which answer `Err.ub` when the access
  would leave the allocation or go through NULL.  Loops that the C code runs through the
  bounds-checked accessors (`get_char`, `set_char`, `delete`) are index loops over those modelled
  accessors, with fuel that `Lemmas/Buf*.lean` prove sufficient.

  Integer types: `WB_ULONG` is 32 bit.  Lengths, capacities and positions are `Nat` under the
  recorded assumption that every length/capacity stays below 2^31 (so `len + size`, `malloced * 2`
  do not wrap); the two places where the C code relies on unsigned wrap-around or where a wrap
  would matter are explicit: `delete`'s `len - pos - n` (flagged `Err.ub` when `pos + n > len` —
  the case the property excludes) and `strip_blanks`' `end--` (modelled modulo 2^32).

  Behaviour modelled is that of the tree *after* the four `fix:` commits recorded in
  `known_findings.json` (shrink_blanks run of two, hex_to_binary on the empty buffer, search of the
  empty string at an out-of-range position, a buffer inserted into / appended to itself);
  `corpus/c19/defects-before-fix.txt` has the replays for the old code.
-/
import Wbxml.Prim.Basic
import Wbxml.Spec.Seq
namespace Wbxml.Model
open Wbxml.Spec.Seq (Arg Op)

/-- One heap allocation: its bytes (the length is the allocated size). -/
abbrev Mem := List UInt8

namespace Mem

/-- Read `n` bytes at offset `off` (`memcpy`/`memcmp`/`memchr` source range). -/
def read (m : Mem) (off n : Nat) : Except Err Bytes :=
  if off + n ≤ m.length then .ok ((m.drop off).take n)
  else .error (.ub "read outside the allocation")

/-- Write `bs` at offset `off` (`memcpy` destination range). -/
def write (m : Mem) (off : Nat) (bs : Bytes) : Except Err Mem :=
  if off + bs.length ≤ m.length then .ok (m.take off ++ bs ++ m.drop (off + bs.length))
  else .error (.ub "write outside the allocation")

/-- `m[i]` as an rvalue. -/
def load (m : Mem) (i : Nat) : Except Err UInt8 :=
  match m[i]? with
  | some v => .ok v
  | none => .error (.ub "load outside the allocation")

/-- `m[i] = v`. -/
def store (m : Mem) (i : Nat) (v : UInt8) : Except Err Mem := m.write i [v]

/-- `memmove(m + dst, m + src, n)`. -/
def move (m : Mem) (dst src n : Nat) : Except Err Mem :=
  match m.read src n with
  | .ok t => m.write dst t
  | .error e => .error e

/-- `realloc(old, n)` (`malloc(n)` when `old` is NULL): the common prefix is kept, new bytes are
    indeterminate (modelled as 0; nothing observable may depend on them — that is what the
    refinement theorems show). Allocation failure is C16's subject and not modelled here. -/
def realloc (old : Option Mem) (n : Nat) : Mem :=
  match old with
  | none => List.replicate n 0
  | some o => o.take n ++ List.replicate (n - o.length) 0

end Mem

/-- `isspace` in the C locale. -/
def isSpace (c : UInt8) : Bool := c == 0x20 || (0x09 ≤ c && c ≤ 0x0D)

/-- `strlen` view of a C-string argument: the bytes before the first NUL. -/
def bufCstrOf (s : Bytes) : Bytes := s.takeWhile (· != 0)

/-! ### Contents-level codecs (what the bytes become; inverse laws are C11's business) -/

/-- `wbxml_buffer_append_mb_uint_32`: the high octets, most significant first
    (`for (i = 3; value > 0 && i >= 0; i--)`, at most four). -/
def mbHigh : Nat → Nat → Bytes → Bytes
  | 0, _, acc => acc
  | f + 1, v, acc => if v > 0 then mbHigh f (v / 128) (UInt8.ofNat (128 + v % 128) :: acc) else acc

/-- The octets appended for `value` (taken modulo 2^32 as the C parameter is `WB_ULONG`). -/
def mbOctets (value : Nat) : Bytes :=
  let v := value % 4294967296
  mbHigh 4 (v / 128) [] ++ [UInt8.ofNat (v % 128)]

/-- One hex digit → its value; anything else → 0 ("Bad Bad !"). -/
def nibble (c : UInt8) : UInt8 :=
  if 0x30 ≤ c && c ≤ 0x39 then c - 0x30
  else if 0x61 ≤ c && c ≤ 0x66 then c - 0x61 + 10
  else if 0x41 ≤ c && c ≤ 0x46 then c - 0x41 + 10
  else 0

/-- `hexits[n]` for `n ≤ 15`. -/
def hexit (upper : Bool) (n : UInt8) : UInt8 :=
  if n < 10 then 0x30 + n else (if upper then 0x37 else 0x57) + n

/-- `pr2six`. -/
def pr2six (c : UInt8) : Nat :=
  if 0x41 ≤ c && c ≤ 0x5A then c.toNat - 0x41
  else if 0x61 ≤ c && c ≤ 0x7A then c.toNat - 0x61 + 26
  else if 0x30 ≤ c && c ≤ 0x39 then c.toNat - 0x30 + 52
  else if c == 0x2B then 62
  else if c == 0x2F then 63
  else 64

/-- `basis_64[n]` for `n ≤ 63`. -/
def basis64 (n : Nat) : UInt8 :=
  if n < 26 then UInt8.ofNat (0x41 + n)
  else if n < 52 then UInt8.ofNat (0x61 + (n - 26))
  else if n < 62 then UInt8.ofNat (0x30 + (n - 52))
  else if n = 62 then 0x2B else 0x2F

/-- `wbxml_base64_encode` (result without its terminating NUL). -/
def b64Enc : Bytes → Bytes
  | a :: b :: c :: rest =>
    basis64 (a.toNat / 4) :: basis64 ((a.toNat % 4) * 16 + b.toNat / 16) ::
    basis64 ((b.toNat % 16) * 4 + c.toNat / 64) :: basis64 (c.toNat % 64) :: b64Enc rest
  | [a, b] => [basis64 (a.toNat / 4), basis64 ((a.toNat % 4) * 16 + b.toNat / 16),
               basis64 ((b.toNat % 16) * 4), 0x3D]
  | [a] => [basis64 (a.toNat / 4), basis64 ((a.toNat % 4) * 16), 0x3D, 0x3D]
  | [] => []

/-- The decoding loop of `wbxml_base64_decode` over the valid prefix (`while (nprbytes > 4)`, then
    the three tail tests). -/
def b64DecQuads : Bytes → Bytes
  | a :: b :: c :: d :: e :: rest =>
    UInt8.ofNat (pr2six a * 4 + pr2six b / 16) :: UInt8.ofNat (pr2six b * 16 + pr2six c / 4) ::
    UInt8.ofNat (pr2six c * 64 + pr2six d) :: b64DecQuads (e :: rest)
  | [a, b, c, d] =>
    [UInt8.ofNat (pr2six a * 4 + pr2six b / 16), UInt8.ofNat (pr2six b * 16 + pr2six c / 4),
     UInt8.ofNat (pr2six c * 64 + pr2six d)]
  | [a, b, c] => [UInt8.ofNat (pr2six a * 4 + pr2six b / 16), UInt8.ofNat (pr2six b * 16 + pr2six c / 4)]
  | [a, b] => [UInt8.ofNat (pr2six a * 4 + pr2six b / 16)]
  | _ => []

/-- `wbxml_base64_decode`: the decoded bytes (`nbytesdecoded` of them); input stops at the first
    character outside the alphabet (`=` included). -/
def b64Dec (s : Bytes) : Bytes := b64DecQuads (s.takeWhile (fun c => pr2six c ≤ 63))

/-! ### The buffer -/

structure Buf where
  data : Option Mem
  len : Nat
  malloced : Nat
  isStatic : Bool
  deriving Repr, DecidableEq, Inhabited

namespace Buf

/-- `buffer->data` used as a pointer that is dereferenced. -/
def mem (b : Buf) : Except Err Mem :=
  match b.data with
  | some m => .ok m
  | none => .error (.ub "NULL data pointer dereferenced")

/-- What the buffer denotes: the first `len` bytes of its storage. -/
def abs (b : Buf) : Bytes :=
  match b.data with
  | some m => m.take b.len
  | none => []

/-- `wbxml_buffer_create_real(data, len, malloc_block)`; `src = none` is a NULL `data`. -/
def create (src : Option Bytes) (block : Nat) : Except Err Buf :=
  match src with
  | none => .ok ⟨none, 0, 0, false⟩
  | some d =>
    if d.length = 0 then .ok ⟨none, 0, 0, false⟩
    else
      let malloced := if d.length + 1 > block + 1 then d.length + 1 + block else block + 1
      match (Mem.realloc none malloced).write 0 d with
      | .error e => .error e
      | .ok m =>
        match m.store d.length 0 with
        | .error e => .error e
        | .ok m => .ok ⟨some m, d.length, malloced, false⟩

/-- `wbxml_buffer_sta_create_real(data, len)`: aliases the caller's `len` bytes; `malloced` is left
    uninitialised by the C code (never read for a static buffer), 0 here. -/
def staCreate (d : Bytes) : Buf := ⟨some d, d.length, 0, true⟩

/-- `wbxml_buffer_get_char`. -/
def getChar (b : Buf) (pos : Nat) : Except Err (Option UInt8) :=
  if pos ≥ b.len then .ok none
  else match b.mem with
    | .error e => .error e
    | .ok m => match m.load pos with
      | .error e => .error e
      | .ok v => .ok (some v)

/-- `wbxml_buffer_set_char`. -/
def setChar (b : Buf) (pos : Nat) (ch : UInt8) : Except Err (Buf × Bool) :=
  if b.isStatic || pos ≥ b.len then .ok (b, false)
  else match b.mem with
    | .error e => .error e
    | .ok m => match m.store pos ch with
      | .error e => .error e
      | .ok m => .ok ({ b with data := some m }, true)

/-- The `len` bytes behind `wbxml_buffer_get_cstr` (the literal `""` when the buffer is empty). -/
def getCstr (b : Buf) : Except Err Bytes :=
  if b.len = 0 then .ok []
  else match b.mem with
    | .error e => .error e
    | .ok m => m.read 0 b.len

/-- `wbxml_buffer_duplicate`. -/
def duplicate (b : Buf) : Except Err Buf :=
  match b.getCstr with
  | .error e => .error e
  | .ok s => create (some s) b.len

/-- `grow_buff`. -/
def growBuff (b : Buf) (size : Nat) : Buf × Bool :=
  if b.isStatic then (b, false)
  else
    let size := size + 1
    if b.len + size > b.malloced then
      let malloced := if b.malloced * 2 < b.len + size then b.len + size else b.malloced * 2
      ({ b with malloced := malloced, data := some (Mem.realloc b.data malloced) }, true)
    else (b, true)

/-- The stores of `insert_data` once room has been made: optional `memmove` of the tail,
    `memcpy` of the new bytes, terminator. -/
def insertMem (m : Mem) (len pos : Nat) (d : Bytes) : Except Err Mem :=
  match (if len > pos then m.move (pos + d.length) pos (len - pos) else .ok m) with
  | .error e => .error e
  | .ok m => match m.write pos d with
    | .error e => .error e
    | .ok m => m.store (len + d.length) 0

/-- `insert_data(buffer, pos, data, len)` with `d` the `len` bytes at `data`. -/
def insertData (b : Buf) (pos : Nat) (d : Bytes) : Except Err (Buf × Bool) :=
  if b.isStatic || d.length = 0 || pos > b.len then .ok (b, false)
  else
    let (b1, grown) := b.growBuff d.length
    if !grown then .ok (b, false)
    else match b1.mem with
      | .error e => .error e
      | .ok m => match insertMem m b1.len pos d with
        | .error e => .error e
        | .ok m => .ok ({ b1 with data := some m, len := b1.len + d.length }, true)

/-- The buffer object behind an `Arg`. -/
def ofArg : Arg → Except Err (Option Buf)
  | .null => .ok none
  | .dyn bs => match create (some bs) bs.length with
    | .ok b => .ok (some b)
    | .error e => .error e
  | .sta bs => .ok (some (staCreate bs))

/-- The `len` bytes at `buffer->data` of an argument buffer, as `insert_data`/`memcmp` read them
    (not touched when `len = 0`, where `data` may be NULL). -/
def contents (b : Buf) : Except Err Bytes :=
  if b.len = 0 then .ok []
  else match b.mem with
    | .error e => .error e
    | .ok m => m.read 0 b.len

/-- `wbxml_buffer_insert(to, buffer, pos)`. -/
def insert (to : Buf) (src : Option Buf) (pos : Nat) : Except Err (Buf × Bool) :=
  match src with
  | none => .ok (to, false)
  | some s =>
    if to.isStatic then .ok (to, false)
    else match s.contents with
      | .error e => .error e
      | .ok d => to.insertData pos d

/-- `wbxml_buffer_insert_cstr(to, str, pos)`. -/
def insertCstr (to : Buf) (str : Option Bytes) (pos : Nat) : Except Err (Buf × Bool) :=
  match str with
  | none => .ok (to, false)
  | some s => if to.isStatic then .ok (to, false) else to.insertData pos (bufCstrOf s)

/-- `wbxml_buffer_append_data_real(buffer, data, len)`. -/
def appendData (b : Buf) (d : Option Bytes) : Except Err (Buf × Bool) :=
  if b.isStatic then .ok (b, false)
  else match d with
    | none => .ok (b, true)
    | some d => if d.length = 0 then .ok (b, true) else b.insertData b.len d

/-- `wbxml_buffer_append(dest, buff)`. -/
def append (dest : Buf) (src : Option Buf) : Except Err (Buf × Bool) :=
  if dest.isStatic then .ok (dest, false)
  else match src with
    | none => .ok (dest, true)
    | some s => match s.getCstr with
      | .error e => .error e
      | .ok d => dest.appendData (some d)

/-- `wbxml_buffer_append_cstr_real`. -/
def appendCstr (b : Buf) (s : Option Bytes) : Except Err (Buf × Bool) :=
  if b.isStatic then .ok (b, false)
  else match s with
    | none => .ok (b, true)
    | some s => b.appendData (some (bufCstrOf s))

/-- `wbxml_buffer_append_char`. -/
def appendChar (b : Buf) (ch : UInt8) : Except Err (Buf × Bool) :=
  if b.isStatic then .ok (b, false) else b.insertData b.len [ch]

/-- `wbxml_buffer_append_mb_uint_32`. -/
def appendMb (b : Buf) (v : Nat) : Except Err (Buf × Bool) :=
  if b.isStatic then .ok (b, false) else b.appendData (some (mbOctets v))

/-- The stores of `wbxml_buffer_delete`: `memmove` of the tail over the gap, terminator. -/
def deleteMem (m : Mem) (len pos n : Nat) : Except Err Mem :=
  match m.move pos (pos + n) (len - pos - n) with
  | .error e => .error e
  | .ok m => m.store (len - n) 0

/-- `wbxml_buffer_insert(to, to, pos)`: source and destination are the same object, the bytes
    are taken from a private duplicate (which is destroyed afterwards). -/
def insertSelf (b : Buf) (pos : Nat) : Except Err (Buf × Bool) :=
  if b.isStatic then .ok (b, false)
  else match b.duplicate with
    | .error e => .error e
    | .ok d => match d.contents with
      | .error e => .error e
      | .ok c => b.insertData pos c

/-- `wbxml_buffer_append(dest, dest)`. -/
def appendSelf (b : Buf) : Except Err (Buf × Bool) :=
  if b.isStatic then .ok (b, false)
  else match b.duplicate with
    | .error e => .error e
    | .ok d => match d.getCstr with
      | .error e => .error e
      | .ok c => b.appendData (some c)

/-- `wbxml_buffer_delete(buffer, pos, len)`. The `memmove` count is the unsigned `len - pos - n`:
    when `pos + n > len` it wraps to ~4G and the call leaves the allocation — the case the
    property puts outside the contract. -/
def delete (b : Buf) (pos n : Nat) : Except Err (Buf × Bool) :=
  if b.isStatic then .ok (b, false)
  else if pos ≥ b.len || n = 0 then .ok (b, false)
  else if pos + n > b.len then .error (.ub "delete: range overruns the contents (outside the contract)")
  else match b.mem with
    | .error e => .error e
    | .ok m => match deleteMem m b.len pos n with
      | .error e => .error e
      | .ok m => .ok ({ b with data := some m, len := b.len - n }, true)

/-- `while (wbxml_buffer_get_char(buffer, j, &ch) && isspace(ch)) j++;` -/
def scanWs (b : Buf) : Nat → Nat → Except Err Nat
  | 0, _ => .error .fuel
  | f + 1, j =>
    match b.getChar j with
    | .error e => .error e
    | .ok none => .ok j
    | .ok (some ch) => if isSpace ch then scanWs b f (j + 1) else .ok j

/-- Body of the `for (i = 0; i < end; i++)` loop of `wbxml_buffer_shrink_blanks`. -/
def shrinkLoop : Nat → Nat → Nat → Buf → Except Err Buf
  | 0, _, _, _ => .error .fuel
  | f + 1, end_, i, b =>
    if i < end_ then
      match b.getChar i with
      | .error e => .error e
      | .ok none => shrinkLoop f end_ (i + 1) b
      | .ok (some ch) =>
        if isSpace ch then
          match (if ch != 0x20 then b.setChar i 0x20 else .ok (b, true)) with
          | .error e => .error e
          | .ok (b, _) =>
            let i := i + 1
            match scanWs b (b.len + 1) i with
            | .error e => .error e
            | .ok j =>
              match (if j - i > 0 then b.delete i (j - i) else .ok (b, false)) with
              | .error e => .error e
              | .ok (b, _) => shrinkLoop f end_ (i + 1) b
        else shrinkLoop f end_ (i + 1) b
    else .ok b

/-- `wbxml_buffer_shrink_blanks`. -/
def shrinkBlanks (b : Buf) : Except Err (Buf × Bool) :=
  if b.isStatic then .ok (b, false)
  else match shrinkLoop (b.len + 1) b.len 0 b with
    | .error e => .error e
    | .ok b => .ok (b, true)

/-- First loop of `strip_blanks`:
    `while (get_char(start) && isspace(ch) && start <= len) start++;` -/
def stripScan (b : Buf) : Nat → Nat → Except Err Nat
  | 0, _ => .error .fuel
  | f + 1, start =>
    match b.getChar start with
    | .error e => .error e
    | .ok none => .ok start
    | .ok (some ch) => if isSpace ch && start ≤ b.len then stripScan b f (start + 1) else .ok start

/-- Second loop of `strip_blanks`: `while (get_char(end) && isspace(ch)) end--;` with the
    32-bit wrap of `end--` at 0 kept. -/
def backScan (b : Buf) : Nat → Nat → Except Err Nat
  | 0, _ => .error .fuel
  | f + 1, end_ =>
    match b.getChar end_ with
    | .error e => .error e
    | .ok none => .ok end_
    | .ok (some ch) =>
      if isSpace ch then backScan b f (if end_ = 0 then 4294967295 else end_ - 1) else .ok end_

/-- `wbxml_buffer_strip_blanks`. -/
def stripBlanks (b : Buf) : Except Err (Buf × Bool) :=
  if b.isStatic then .ok (b, false)
  else match stripScan b (b.len + 1) 0 with
    | .error e => .error e
    | .ok start =>
      match (if start > 0 then b.delete 0 start else .ok (b, false)) with
      | .error e => .error e
      | .ok (b, _) =>
        if b.len > 0 then
          let len := b.len - 1
          match backScan b (b.len + 1) len with
          | .error e => .error e
          | .ok end_ =>
            match b.delete ((end_ + 1) % 4294967296) ((len + 4294967296 - end_) % 4294967296) with
            | .error e => .error e
            | .ok (b, _) => .ok (b, true)
        else .ok (b, true)

/-- Loop of `wbxml_buffer_no_spaces`. -/
def noSpacesLoop : Nat → Nat → Buf → Except Err Buf
  | 0, _, _ => .error .fuel
  | f + 1, i, b =>
    if i < b.len then
      match b.getChar i with
      | .error e => .error e
      | .ok none => noSpacesLoop f (i + 1) b
      | .ok (some ch) =>
        if isSpace ch then
          match b.delete i 1 with
          | .error e => .error e
          | .ok (b, _) => noSpacesLoop f i b
        else noSpacesLoop f (i + 1) b
    else .ok b

/-- `wbxml_buffer_no_spaces` (returns void; a static buffer is left alone). -/
def noSpaces (b : Buf) : Except Err Buf :=
  if b.isStatic then .ok b else noSpacesLoop (b.len + 1) 0 b

/-- Loop of `wbxml_buffer_remove_trailing_zeros`. -/
def rtzLoop : Nat → Buf → Except Err Buf
  | 0, _ => .error .fuel
  | f + 1, b =>
    if b.len > 0 then
      match b.getChar (b.len - 1) with
      | .error e => .error e
      | .ok (some 0) =>
        match b.delete (b.len - 1) 1 with
        | .error e => .error e
        | .ok (b, _) => rtzLoop f b
      | .ok _ => .ok b
    else .ok b

/-- `wbxml_buffer_remove_trailing_zeros`. -/
def removeTrailingZeros (b : Buf) : Except Err (Buf × Bool) :=
  if b.isStatic then .ok (b, false)
  else match rtzLoop (b.len + 1) b with
    | .error e => .error e
    | .ok b => .ok (b, true)

/-- `memcmp` result sign on two equally long byte strings. -/
def memcmpSign : Bytes → Bytes → Int
  | a :: as, b :: bs => if a < b then -1 else if b < a then 1 else memcmpSign as bs
  | _, _ => 0

/-- Common part of `wbxml_buffer_compare` / `_compare_cstr` once both sides are non-NULL:
    `l1`, `l2` the two lengths, `rd1`, `rd2` the `memcmp` reads. -/
def compareCore (l1 l2 : Nat) (rd1 rd2 : Nat → Except Err Bytes) : Except Err Int :=
  let len := if l1 < l2 then l1 else l2
  if len = 0 then
    if l1 = 0 && l2 > 0 then .ok (-1)
    else if l1 > 0 && l2 = 0 then .ok 1
    else .ok 0
  else match rd1 len with
    | .error e => .error e
    | .ok s1 => match rd2 len with
      | .error e => .error e
      | .ok s2 =>
        let r := memcmpSign s1 s2
        if r = 0 then (if l1 < l2 then .ok (-1) else if l1 > l2 then .ok 1 else .ok 0) else .ok r

/-- `wbxml_buffer_compare(buff1, buff2)` (sign of the result). -/
def compare (b1 : Buf) (o : Option Buf) : Except Err Int :=
  match o with
  | none => .ok 1
  | some b2 =>
    compareCore b1.len b2.len
      (fun n => match b1.mem with | .ok m => m.read 0 n | .error e => .error e)
      (fun n => match b2.mem with | .ok m => m.read 0 n | .error e => .error e)

/-- `wbxml_buffer_compare_cstr(buff, str)`. -/
def compareCstr (b : Buf) (s : Option Bytes) : Except Err Int :=
  match s with
  | none => .ok 1
  | some s =>
    compareCore b.len (bufCstrOf s).length
      (fun n => match b.mem with | .ok m => m.read 0 n | .error e => .error e)
      (fun n => .ok ((bufCstrOf s).take n))

/-- `wbxml_buffer_search_char(to, ch, pos, &result)`: `some idx` = TRUE with `*result = idx`. -/
def searchChar (b : Buf) (ch : UInt8) (pos : Nat) : Except Err (Option Nat) :=
  if pos ≥ b.len then .ok none
  else match b.mem with
    | .error e => .error e
    | .ok m => match m.read pos (b.len - pos) with
      | .error e => .error e
      | .ok seg => match seg.findIdx? (· == ch) with
        | some k => .ok (some (pos + k))
        | none => .ok none

/-- The `while (search_char(to, first, pos, &pos) && to->len - pos >= n) { memcmp …; pos++; }` loop. -/
def searchLoop (to : Buf) (needle : Bytes) (first : UInt8) : Nat → Nat → Except Err (Option Nat)
  | 0, _ => .error .fuel
  | f + 1, pos =>
    match to.searchChar first pos with
    | .error e => .error e
    | .ok none => .ok none
    | .ok (some p) =>
      if to.len - p ≥ needle.length then
        match to.mem with
        | .error e => .error e
        | .ok m => match m.read p needle.length with
          | .error e => .error e
          | .ok seg => if seg = needle then .ok (some p) else searchLoop to needle first f (p + 1)
      else .ok none

/-- Common part of `wbxml_buffer_search` / `_search_cstr` for a non-NULL needle of bytes `nd`. -/
def searchBytes (to : Buf) (nd : Bytes) (pos : Nat) : Except Err (Option Nat) :=
  match nd with
  | [] => if pos > to.len then .ok none else .ok (some pos)
  | first :: rest =>
    if nd.length > to.len then .ok none
    else if rest = [] then to.searchChar first pos
    else searchLoop to nd first (to.len + 1) pos

/-- `wbxml_buffer_search(to, search, pos, &result)`. -/
def search (to : Buf) (needle : Option Buf) (pos : Nat) : Except Err (Option Nat) :=
  match needle with
  | none => .ok none
  | some s => match s.contents with
    | .error e => .error e
    | .ok nd => to.searchBytes nd pos

/-- `wbxml_buffer_search_cstr`. -/
def searchCstr (to : Buf) (needle : Option Bytes) (pos : Nat) : Except Err (Option Nat) :=
  match needle with
  | none => .ok none
  | some s => to.searchBytes (bufCstrOf s) pos

/-- `wbxml_buffer_contains_only_whitespaces`. -/
def onlyWs (b : Buf) : Except Err Bool :=
  match b.contents with
  | .error e => .error e
  | .ok c => .ok (c.all isSpace)

/-- The scanning loop of `wbxml_buffer_split_words_real` over the `len` bytes (zipper). -/
def splitLoop : Nat → Bytes → Except Err (List Bytes)
  | 0, _ => .error .fuel
  | f + 1, s =>
    let s1 := s.dropWhile isSpace
    let w := s1.takeWhile (fun c => !isSpace c)
    if w.length = 0 then .ok []
    else match splitLoop f (s1.drop w.length) with
      | .error e => .error e
      | .ok ws => .ok (w :: ws)

def createAll : List Bytes → Except Err (List Buf)
  | [] => .ok []
  | w :: ws => match create (some w) 20 with
    | .error e => .error e
    | .ok b => match createAll ws with
      | .error e => .error e
      | .ok bs => .ok (b :: bs)

/-- `wbxml_buffer_split_words_real`: the word buffers in list order. -/
def splitWords (b : Buf) : Except Err (List Buf) :=
  match b.contents with
  | .error e => .error e
  | .ok c => match splitLoop (c.length + 1) c with
    | .error e => .error e
    | .ok ws => createAll ws

/-- First loop of `hex_to_binary`: `for (i = 0; i < len; i++, p++) *p = nibble(*p);` -/
def nibLoop : Nat → Nat → Mem → Except Err Mem
  | 0, _, m => .ok m
  | k + 1, i, m =>
    match m.load i with
    | .error e => .error e
    | .ok v => match m.store i (nibble v) with
      | .error e => .error e
      | .ok m => nibLoop k (i + 1) m

/-- Second loop: `data[i] = data[2i] * 16 | data[2i+1]`. -/
def packLoop : Nat → Nat → Mem → Except Err Mem
  | 0, _, m => .ok m
  | k + 1, i, m =>
    match m.load (i * 2) with
    | .error e => .error e
    | .ok a => match m.load (i * 2 + 1) with
      | .error e => .error e
      | .ok c => match m.store i (a * 16 ||| c) with
        | .error e => .error e
        | .ok m => packLoop k (i + 1) m

/-- `wbxml_buffer_hex_to_binary` (with the early return for the empty buffer). -/
def hexToBinary (b : Buf) : Except Err (Buf × Bool) :=
  if b.isStatic then .ok (b, false)
  else if b.len = 0 then .ok (b, true)
  else match b.mem with
    | .error e => .error e
    | .ok m => match nibLoop b.len 0 m with
      | .error e => .error e
      | .ok m => match packLoop (b.len / 2) 0 m with
        | .error e => .error e
        | .ok m => match m.store (b.len / 2) 0 with
          | .error e => .error e
          | .ok m => .ok ({ b with data := some m, len := b.len / 2 }, true)

/-- Back-to-front loop of `binary_to_hex`; `k` is `i + 1`. -/
def hexLoop (upper : Bool) : Nat → Mem → Except Err Mem
  | 0, m => .ok m
  | i + 1, m =>
    match m.load i with
    | .error e => .error e
    | .ok v => match m.store (i * 2 + 1) (hexit upper (v % 16)) with
      | .error e => .error e
      | .ok m => match m.load i with
        | .error e => .error e
        | .ok v => match m.store (i * 2) (hexit upper ((v / 16) &&& 0xf)) with
          | .error e => .error e
          | .ok m => hexLoop upper i m

/-- `wbxml_buffer_binary_to_hex`. -/
def binaryToHex (b : Buf) (upper : Bool) : Except Err (Buf × Bool) :=
  if b.isStatic then .ok (b, false)
  else if b.len = 0 then .ok (b, true)
  else
    let (b1, _) := b.growBuff (b.len * 2)
    match b1.mem with
    | .error e => .error e
    | .ok m => match hexLoop upper b1.len m with
      | .error e => .error e
      | .ok m => match m.store (b1.len * 2) 0 with
        | .error e => .error e
        | .ok m => .ok ({ b1 with data := some m, len := b1.len * 2 }, true)

/-- `wbxml_buffer_decode_base64`; the Bool is `ret == WBXML_OK`. Note that the white space is
    removed even when decoding then fails. -/
def decodeBase64 (b : Buf) : Except Err (Buf × Bool) :=
  if b.isStatic then .ok (b, false)
  else match b.noSpaces with
    | .error e => .error e
    | .ok b => match b.getCstr with
      | .error e => .error e
      | .ok s =>
        let out := b64Dec s
        if out.length = 0 then .ok (b, false)
        else match b.delete 0 b.len with
          | .error e => .error e
          | .ok (b, _) => match b.appendData (some out) with
            | .error e => .error e
            | .ok (b, ok) => .ok (b, ok)

/-- `wbxml_buffer_encode_base64`. -/
def encodeBase64 (b : Buf) : Except Err (Buf × Bool) :=
  if b.isStatic then .ok (b, false)
  else match b.getCstr with
    | .error e => .error e
    | .ok s =>
      if s.length = 0 then .ok (b, false)
      else match b.delete 0 b.len with
        | .error e => .error e
        | .ok (b, _) => match b.appendCstr (some (b64Enc s)) with
          | .error e => .error e
          | .ok (b, ok) => .ok (b, ok)

end Buf

/-! ### Operation histories on one buffer -/

/-- Observable result of one operation on the concrete side. -/
inductive COut where
  | bool (b : Bool) | nat (n : Nat) | optByte (o : Option UInt8) | optNat (o : Option Nat)
  | sign (i : Int) | bytes (bs : Bytes) | buf (b : Buf) | bufs (l : List Buf) | unit
  deriving Repr, DecidableEq, Inhabited

namespace Buf

def liftB (r : Except Err (Buf × Bool)) : Except Err (Buf × COut) :=
  match r with
  | .ok (b, ok) => .ok (b, .bool ok)
  | .error e => .error e

/-- One API call on the object under test. -/
def step (b : Buf) : Op → Except Err (Buf × COut)
  | .len => .ok (b, .nat b.len)
  | .getChar pos => match b.getChar pos with
    | .ok r => .ok (b, .optByte r) | .error e => .error e
  | .setChar pos ch => liftB (b.setChar pos ch)
  | .getCstr => match b.getCstr with
    | .ok r => .ok (b, .bytes r) | .error e => .error e
  | .duplicate => match b.duplicate with
    | .ok d => .ok (b, .buf d) | .error e => .error e
  | .insert src pos => match ofArg src with
    | .ok s => liftB (b.insert s pos) | .error e => .error e
  | .insertCstr s pos => liftB (b.insertCstr s pos)
  | .insertSelf pos => liftB (b.insertSelf pos)
  | .appendSelf => liftB b.appendSelf
  | .append src => match ofArg src with
    | .ok s => liftB (b.append s) | .error e => .error e
  | .appendData d => liftB (b.appendData d)
  | .appendCstr s => liftB (b.appendCstr s)
  | .appendChar ch => liftB (b.appendChar ch)
  | .appendMb v => liftB (b.appendMb v)
  | .delete pos n => liftB (b.delete pos n)
  | .shrink => liftB b.shrinkBlanks
  | .strip => liftB b.stripBlanks
  | .noSpaces => match b.noSpaces with
    | .ok b => .ok (b, .unit) | .error e => .error e
  | .rtz => liftB b.removeTrailingZeros
  | .compare o => match ofArg o with
    | .ok o => (match b.compare o with | .ok r => .ok (b, .sign r) | .error e => .error e)
    | .error e => .error e
  | .compareCstr s => match b.compareCstr s with
    | .ok r => .ok (b, .sign r) | .error e => .error e
  | .splitWords => match b.splitWords with
    | .ok l => .ok (b, .bufs l) | .error e => .error e
  | .searchChar ch pos => match b.searchChar ch pos with
    | .ok r => .ok (b, .optNat r) | .error e => .error e
  | .search o pos => match ofArg o with
    | .ok o => (match b.search o pos with | .ok r => .ok (b, .optNat r) | .error e => .error e)
    | .error e => .error e
  | .searchCstr s pos => match b.searchCstr s pos with
    | .ok r => .ok (b, .optNat r) | .error e => .error e
  | .onlyWs => match b.onlyWs with
    | .ok r => .ok (b, .bool r) | .error e => .error e
  | .hexToBin => liftB b.hexToBinary
  | .binToHex u => liftB (b.binaryToHex u)
  | .decB64 => liftB b.decodeBase64
  | .encB64 => liftB b.encodeBase64

/-- A whole history; stops at the first `Err`. -/
def run (b : Buf) : List Op → Except Err (Buf × List COut)
  | [] => .ok (b, [])
  | op :: ops => match b.step op with
    | .error e => .error e
    | .ok (b, o) => match run b ops with
      | .error e => .error e
      | .ok (b, os) => .ok (b, o :: os)

end Buf
end Wbxml.Model
