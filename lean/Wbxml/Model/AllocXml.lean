/-
  C16 — the XML output half of `wbxml_encoder.c` on the ledger: `wbxml_tree_to_xml` =
  `wbxml_encoder_create` + `wbxml_encoder_encode_tree_to_xml` (`encoder_encode_tree` in XML mode:
  `encoder_init_output`, the node walk `parse_node` with `xml_encode_tag` / `xml_encode_attr` /
  `xml_encode_end_attrs` / `xml_encode_text` (+ `xml_encode_text_entities`) / `xml_encode_cdata` /
  `xml_encode_end_cdata` / `xml_encode_end_tag` / `xml_encode_tree`, then `xml_build_result` with
  `xml_fill_header`) + `wbxml_encoder_destroy`.

  Every byte of the document goes to `encoder->output` through one `wbxml_buffer_append_*` call per
  piece (an indentation space, `<`, the name, every character of a text, an entity …): each call may
  `realloc` the output block and each result is checked.  The temporaries are modelled as the C code
  makes them: the copy of an attribute value (`wbxml_buffer_create_from_cstr`), the copy of a text
  (`wbxml_buffer_duplicate`), its replacement for the SyncML `<Type>` texts, the base64 text of a
  binary element (`wbxml_buffer_encode_base64`: the block of `wbxml_base64_encode`, the rewrite of the
  copy, `wbxml_free`), the header buffer, and for an embedded tree the second encoder
  (`encoder_duplicate`), its output, its result block and the append of that result.

  What the walk *decides from the tables* is an input of the node: the XML name of an element, the
  namespace it declares (`xmlns`: its code page differs from the nearest token ancestor's and the
  language has a name for it), whether its tag has `WBXML_TAG_OPTION_BINARY`, whether it is the
  SyncML MetInf `<Type>` (code page 1, token 0x13); of the language: whether it has an attribute
  table, whether it is SyncML 1.0–1.2 / 1.2, the three DOCTYPE strings.  What is written (the bytes)
  is computed here, because the lengths decide when `grow_buff` asks for memory.

  Not reachable through `wbxml_tree_to_xml` and not modelled: flow mode, `enc_end = FALSE`, the
  indentation inside `xml_encode_text` (`wbxml_tree_node_have_child_elt` of a text node is FALSE).
-/
import Wbxml.Model.AllocEnc
import Wbxml.Model.AllocParseLoop
import Wbxml.Model.Codec.Base64
namespace Wbxml.Model.Alloc
open Wbxml

def XML_HEADER_BLOCK : Nat := 250   -- WBXML_ENCODER_XML_HEADER_MALLOC_BLOCK
def EBADPARAM : Nat := 12           -- WBXML_ERROR_BAD_PARAMETER
def ENOTIMPL : Nat := 16            -- WBXML_ERROR_NOT_IMPLEMENTED
def EXMLNODE : Nat := 102           -- WBXML_ERROR_XML_NODE_NOT_ALLOWED
def ENULLATTR : Nat := 103          -- WBXML_ERROR_XML_NULL_ATTR_NAME

/-- The settings `wbxml_tree_to_xml` copies from `WBXMLGenXMLParams` into the encoder. -/
structure XGen where
  gen : Nat                 -- WBXMLGenXMLType: 0 compact, 1 indent, 2 canonical
  delta : Nat               -- indent_delta
  ignoreEmpty : Bool        -- ignore_empty_text
  stripBlanks : Bool        -- remove_text_blanks
  deriving Repr, DecidableEq, Inhabited

/-- What the printer reads of a language table. -/
structure XLang where
  hasAttrTable : Bool
  syncml : Bool             -- langID ∈ {SYNCML10, SYNCML11, SYNCML12}
  syncml12 : Bool
  rootElt : Bytes
  publicId : Bytes          -- empty: `SYSTEM`
  dtd : Bytes
  deriving Repr, DecidableEq, Inhabited

/-- The encoder fields the walk updates (`indent` is a `WB_UTINY`). -/
structure XSt where
  indent : Nat := 0
  inContent : Bool := false
  inCdata : Bool := false
  binary : Bool := false    -- current_tag != NULL && (current_tag->options & WBXML_TAG_OPTION_BINARY)
  metType : Bool := false   -- current_tag is (code page 1, token 0x13)
  deriving Repr, DecidableEq, Inhabited

/-- `encoder->current_tag = NULL` after every node. -/
def XSt.noTag (st : XSt) : XSt := { st with binary := false, metType := false }

structure XAttr where
  name : Option Bytes       -- NULL `attribute->name`: WBXML_ERROR_XML_NULL_ATTR_NAME
  value : Bytes             -- `wbxml_attribute_get_xml_value` (the empty string for a NULL value)
  deriving Repr, DecidableEq, Inhabited

/-- A node of the tree as the printer sees it.  The content buffer of a text node is the tree's. -/
inductive XNode where
  | elt (name : Bytes) (xmlns : Option Bytes) (binary metType : Bool) (attrs : List XAttr) (kids : List XNode)
  | text (content : ABuf)
  | cdata (kids : List XNode)
  | tree (lang : XLang) (root : XNode)     -- WBXML_TREE_TREE_NODE: an embedded document
  | other (code : Nat)                     -- PI node (NOT_IMPLEMENTED) / unknown type (XML_NODE_NOT_ALLOWED)
  deriving Inhabited

mutual
/-- The content buffers of the text nodes (they must be live while the printer reads them). -/
def XNode.bufs : XNode → List ABuf
  | .elt _ _ _ _ _ kids => XNode.bufsL kids
  | .text b => [b]
  | .cdata kids => XNode.bufsL kids
  | .tree _ root => XNode.bufs root
  | .other _ => []
def XNode.bufsL : List XNode → List ABuf
  | [] => []
  | n :: rest => XNode.bufs n ++ XNode.bufsL rest
end

/-! ### What is written -/

def isElt : XNode → Bool
  | .elt _ _ _ _ _ _ => true
  | _ => false

/-- `wbxml_tree_node_have_child_elt(node)`. -/
def haveChildElt (kids : List XNode) : Bool := kids.any isElt

def stripBlanksB (s : Bytes) : Bytes :=
  ((s.dropWhile Spec.Seq.ws).reverse.dropWhile Spec.Seq.ws).reverse

/-- The `indent * indent_delta` single spaces of an indentation (one `wbxml_buffer_append_char` each). -/
def indentChunks (g : XGen) (st : XSt) : List Bytes :=
  if g.gen = 1 then List.replicate (st.indent * g.delta) [0x20] else []

/-- `xml_encode_tag`. -/
def tagChunks (g : XGen) (st : XSt) (name : Bytes) (xmlns : Option Bytes) : List Bytes :=
  indentChunks g st ++ [b!"<", name] ++
    (match xmlns with
     | some ns => [b!" xmlns=\"", ns, b!"\""]
     | none => [])

/-- `xml_encode_end_attrs`. -/
def endAttrsChunks (g : XGen) (kids : List XNode) : List Bytes :=
  if kids.isEmpty then [b!"/>"] ++ (if g.gen = 1 then [[0x0A]] else [])
  else [b!">"] ++ (if g.gen = 1 && haveChildElt kids then [[0x0A]] else [])

/-- `xml_encode_end_tag`; `st` = the state when the children are done. -/
def endTagChunks (g : XGen) (st : XSt) (name : Bytes) (kids : List XNode) : List Bytes :=
  (if g.gen = 1 && haveChildElt kids then
     (if st.inContent then [[0x0A]] else []) ++ indentChunks g { st with indent := (st.indent + 255) % 256 }
   else []) ++ [b!"</", name, b!">"] ++ (if g.gen = 1 then [[0x0A]] else [])

/-- `xml_encode_text_entities`: one append per character of the temporary copy. -/
def entityChunks (canonical : Bool) (s : Bytes) : List Bytes :=
  s.map fun ch =>
    if ch == 60 then b!"&lt;"
    else if ch == 62 then b!"&gt;"
    else if ch == 38 then b!"&amp;"
    else if ch == 34 then b!"&quot;"
    else if ch == 39 then b!"&apos;"
    else if ch == 13 then b!"&#13;"
    else if ch == 10 && canonical then b!"&#10;"
    else if ch == 9 && canonical then b!"&#9;"
    else [ch]

/-- The text of a CDATA section: character by character, `]]>` split over two sections. -/
def cdataChunks : Bytes → List Bytes
  | 93 :: 93 :: 62 :: r => b!"]]]]><![CDATA[>" :: cdataChunks r
  | b :: r => [b] :: cdataChunks r
  | [] => []

/-- `xml_fill_header`. -/
def headerChunks (g : XGen) (l : XLang) : List Bytes :=
  [b!"<?xml version=\"1.0\"?>"] ++ (if g.gen = 1 then [[0x0A]] else []) ++ [b!"<!DOCTYPE ", l.rootElt] ++
    (if l.publicId.isEmpty then [b!" SYSTEM"] else [b!" PUBLIC \"", l.publicId, b!"\""]) ++
    [b!" \"", l.dtd, b!"\">"] ++ (if g.gen = 1 then [[0x0A]] else [])

def devinfWbxml : Bytes := b!"application/vnd.syncml-devinf+wbxml"
def devinfXml : Bytes := b!"application/vnd.syncml-devinf+xml"
def dmtndsWbxml : Bytes := b!"application/vnd.syncml.dmtnds+wbxml"
def dmtndsXml : Bytes := b!"application/vnd.syncml.dmtnds+xml"

/-! ### Appends -/

/-- Consecutive `wbxml_buffer_append_*` calls on one buffer (`append_char` = a one-byte chunk,
    `append_cstr` / `append_data` of an empty string: TRUE without growth), up to the first failure. -/
def bufAppendAll (b : ABuf) : List Bytes → Prog (ABuf × Bool)
  | [] => pure (b, true)
  | chunk :: rest => do
    let (b, ok) ← bufAppendData b (some chunk)
    if !ok then pure (b, false) else bufAppendAll b rest

/-- … on `encoder->output`; a failed append returns `err`. -/
def appendAll (e : AEnc) (err : Nat) (chunks : List Bytes) : Prog (AEnc × Nat) :=
  match e.output with
  | none => ub "encoder->output is NULL"
  | some out => do
    let (out, ok) ← bufAppendAll out chunks
    pure ({ e with output := some out }, if ok then OK else err)

/-! ### Attributes and text -/

/-- `xml_encode_attr`. -/
def xmlAttr (g : XGen) (e : AEnc) (name value : Bytes) : Prog (AEnc × Nat) := do
  let (e, ret) ← appendAll e EAPPEND [b!" ", name, b!"=\""]
  if ret != OK then pure (e, ret)
  else do
    let tmp ← bufCreate (some value) value.length        -- wbxml_buffer_create_from_cstr
    match tmp with
    | none => pure (e, ENOMEM)
    | some tmp => do
      let (e, ret) ← appendAll e EAPPEND (entityChunks (g.gen == 2) tmp.bytes)
      bufDestroy (some tmp)
      if ret != OK then pure (e, EAPPEND)
      else appendAll e EAPPEND [b!"\""]

/-- The attribute loop of `parse_element` with `parse_attribute`. -/
def xmlAttrs (g : XGen) (l : XLang) (e : AEnc) : List XAttr → Prog (AEnc × Nat)
  | [] => pure (e, OK)
  | a :: rest =>
    if !l.hasAttrTable then xmlAttrs g l e rest               -- parse_attribute: WBXML_OK, nothing written
    else match a.name with
      | none => pure (e, ENULLATTR)
      | some n => do
        let (e, ret) ← xmlAttr g e n a.value
        if ret != OK then pure (e, ret) else xmlAttrs g l e rest

/-- The replacement of a SyncML `<Type>` text: `wbxml_buffer_destroy(tmp)`, then
    `wbxml_buffer_create_from_cstr(new)`. -/
def swapTmp (tmp : ABuf) (new : Bytes) : Prog (Option ABuf) := do
  bufDestroy (some tmp)
  bufCreate (some new) new.length

/-- `wbxml_buffer_encode_base64(tmp)`: (buffer, code). -/
def bufEncodeB64 (tmp : ABuf) : Prog (ABuf × Nat) := do
  deref (some tmp.hdr)
  let r ← b64Encode tmp.len
  match r with
  | none => pure (tmp, EB64ENC)
  | some r => do
    -- wbxml_buffer_delete(buffer, 0, len): inside the block; then wbxml_buffer_append_cstr
    let (tmp, ok) ← bufAppendData { tmp with bytes := [] } (some (Spec.Seq.cstr (Codec.b64Encode tmp.bytes)))
    free (some r)
    pure (tmp, if ok then OK else ENOMEM)

/-- `xml_encode_text` outside a CDATA section, after the copy has been made. -/
def xmlTextTmp (g : XGen) (l : XLang) (e : AEnc) (st : XSt) (tmp : ABuf) : Prog (AEnc × Nat) := do
  let tmp ← (if l.syncml && st.metType && tmp.bytes == devinfWbxml then swapTmp tmp devinfXml else pure (some tmp))
  match tmp with
  | none => pure (e, ENOMEM)
  | some tmp => do
    let tmp ← (if l.syncml12 && st.metType && tmp.bytes == dmtndsWbxml then swapTmp tmp dmtndsXml else pure (some tmp))
    match tmp with
    | none => pure (e, ENOMEM)
    | some tmp => do
      let (tmp, ret) ← (if st.binary then bufEncodeB64 tmp else pure (tmp, OK))
      if ret != OK then do
        bufDestroy (some tmp)
        pure (e, ret)
      else do
        let (e, ret) ← appendAll e EAPPEND (entityChunks (g.gen == 2) tmp.bytes)
        bufDestroy (some tmp)
        pure (e, if ret != OK then EAPPEND else OK)

/-- `parse_text` + `xml_encode_text`: (encoder, state, code). -/
def xmlText (g : XGen) (l : XLang) (e : AEnc) (st : XSt) (content : ABuf) : Prog (AEnc × XSt × Nat) :=
  let plain := !st.inCdata && !st.binary && g.gen != 2
  if plain && g.ignoreEmpty && content.bytes.all Spec.Seq.ws then pure (e, st, OK)
  else
    -- wbxml_buffer_strip_blanks(node->content): in place, inside the block
    let str : ABuf := if plain && g.stripBlanks then { content with bytes := stripBlanksB content.bytes } else content
    if st.inCdata then do
      let _ ← bufCstr str
      let (e, ret) ← appendAll e EAPPEND (cdataChunks str.bytes)
      pure (e, { st with inContent := true }, ret)
    else do
      let tmp ← bufDuplicate (some str)
      match tmp with
      | none => pure (e, st, ENOMEM)
      | some tmp => do
        let (e, ret) ← xmlTextTmp g l e st tmp
        pure (e, { st with inContent := true }, ret)

/-! ### Result -/

/-- `xml_build_result(encoder, &xml, &xml_len)` (not flow mode): (code, result block with its bytes). -/
def xmlBuildResult (g : XGen) (l : XLang) (e : AEnc) (withHeader : Bool) : Prog (Nat × Option (Nat × Bytes)) := do
  deref (some e.hdr)
  let header ← bufCreate (some []) XML_HEADER_BLOCK
  match header with
  | none => pure (ENOMEM, none)
  | some header => do
    let (header, ok) ← (if withHeader then bufAppendAll header (headerChunks g l) else pure (header, true))
    if !ok then do
      bufDestroy (some header)
      pure (EAPPEND, none)
    else do
      let r ← malloc
      match r with
      | none => do
        bufDestroy (some header)
        pure (ENOMEM, none)
      | some r => do
        let hb ← bufCstr header
        let ob ← (match e.output with
          | none => pure (some ([] : Bytes))
          | some o => bufCstr o)
        bufDestroy (some header)
        match hb, ob with
        | some hb, some ob => pure (OK, some (r, hb ++ ob))
        | _, _ => ub "memcpy from a NULL data pointer"

/-! ### The node walk -/

mutual
/-- `parse_node(encoder, node, TRUE)` for one node without its `next` siblings:
    (encoder, state, code). -/
def xmlNode (g : XGen) (l : XLang) : AEnc → XSt → XNode → Prog (AEnc × XSt × Nat)
  | e, st, .elt name xmlns binary metType attrs kids => do
    let st := { st with binary := binary, metType := metType }
    let (e, ret) ← appendAll e EAPPEND (tagChunks g st name xmlns)
    if ret != OK then pure (e, st, ret)
    else do
      let (e, ret) ← xmlAttrs g l e attrs
      if ret != OK then pure (e, st, ret)
      else do
        let (e, ret) ← appendAll e EAPPEND (endAttrsChunks g kids)
        if ret != OK then pure (e, st, ret)
        else do
          let st := if g.gen = 1 && !kids.isEmpty && haveChildElt kids then { st with indent := (st.indent + 1) % 256 } else st
          let (e, st, ret) ← xmlNodes g l e st kids
          if ret != OK then pure (e, st, ret)
          else if kids.isEmpty then pure (e, st.noTag, OK)
          else do
            let (e, ret) ← appendAll e EAPPEND (endTagChunks g st name kids)
            let st := if g.gen = 1 && haveChildElt kids then { st with indent := (st.indent + 255) % 256 } else st
            pure (e, { st.noTag with inContent := false }, ret)
  | e, st, .text content => do
    let (e, st, ret) ← xmlText g l e st content
    pure (e, st.noTag, ret)
  | e, st, .cdata kids => do
    let st := { st with inCdata := true }
    let (e, ret) ← appendAll e EAPPEND [b!"<![CDATA["]
    if ret != OK then pure (e, st, ret)
    else do
      let (e, st, ret) ← xmlNodes g l e st kids
      if ret != OK then pure (e, st, ret)
      else do
        let (e, ret) ← appendAll e EAPPEND [b!"]]>"]
        pure (e, { st.noTag with inCdata := false }, ret)
  | e, st, .tree l' root => do
    -- xml_encode_tree: encoder_duplicate, wbxml_encoder_encode_tree_to_xml on the second encoder
    let ne ← encCreate
    match ne with
    | none => pure (e, st, ENOMEM)
    | some ne => do
      let (ne, ok) ← encInitOutput ne
      if !ok then do
        encDestroy (some ne)
        pure (e, st, ENOMEM)
      else do
        let (ne, _, ret) ← xmlNode g l' ne { indent := st.indent } root
        if ret != OK then do
          encDestroy (some ne)
          pure (e, st, ret)
        else do
          let (ret, xml) ← xmlBuildResult g l' ne false
          encDestroy (some ne)
          match xml with
          | none => pure (e, st, ret)
          | some (r, bytes) => do
            let (e, ret) ← appendAll e ENOMEM [Spec.Seq.cstr bytes]       -- wbxml_buffer_append_cstr(encoder->output, xml)
            free (some r)
            pure (e, st.noTag, ret)
  | e, st, .other code => pure (e, st, code)
/-- … and the `node->next` chain. -/
def xmlNodes (g : XGen) (l : XLang) : AEnc → XSt → List XNode → Prog (AEnc × XSt × Nat)
  | e, st, [] => pure (e, st, OK)
  | e, st, n :: rest => do
    let (e, st, ret) ← xmlNode g l e st n
    if ret != OK then pure (e, st, ret) else xmlNodes g l e st rest
end

/-- `wbxml_tree_to_xml(tree, &xml, &xml_len, params)`: (code, result). -/
def treeToXml (g : XGen) (l : XLang) (root : XNode) : Prog (Nat × Option (Nat × Bytes)) := do
  let e ← encCreate
  match e with
  | none => pure (ENOMEM, none)
  | some e => do
    -- encoder_encode_tree in XML mode: output buffer, no string table, the walk
    let (e, ok) ← encInitOutput e
    if !ok then do
      encDestroy (some e)
      pure (ENOMEM, none)
    else do
      let (e, _, ret) ← xmlNode g l e {} root
      if ret != OK then do
        encDestroy (some e)
        pure (ret, none)
      else do
        let (ret, out) ← xmlBuildResult g l e true
        encDestroy (some e)
        pure (ret, out)

end Wbxml.Model.Alloc
