/-
  C20 — model of the command-line tools, part 1: the pieces of `tools/wbxml2xml_tool.c` and
  `tools/xml2wbxml_tool.c` that turn option arguments into the parameter block handed to the library
  (`get_lang`, `get_charset`, `get_version`, `atoi` + the C casts), and the parameter records.
  argv strings are C strings: `Bytes` without the terminating NUL (and, as a representation
  invariant stated where needed, without embedded NUL), so `strcmp(a,b)==0` is `a == b`.
-/
import Wbxml.Prim.Basic
namespace Wbxml.Model.Tool
open Wbxml

abbrev Argv := List Bytes

/-- `isspace` in the C locale. -/
def isSpaceC (b : UInt8) : Bool := b == 32 || (9 ≤ b && b ≤ 13)
def isDigitC (b : UInt8) : Bool := 48 ≤ b && b ≤ 57

/-- The decimal digit prefix, exact value. -/
def digitsVal : Bytes → Nat → Nat
  | [], acc => acc
  | b :: bs, acc => if isDigitC b then digitsVal bs (acc * 10 + (b.toNat - 48)) else acc

/-- glibc `strtol(s, NULL, 10)` on LP64: white space, optional sign, digits, saturation. -/
def strtolC (s : Bytes) : Int :=
  let s1 := s.dropWhile isSpaceC
  let neg := s1.head? == some 45
  let s2 := if s1.head? == some 45 || s1.head? == some 43 then s1.drop 1 else s1
  let m := digitsVal s2 0
  if neg then (if m > 2 ^ 63 then -((2 : Int) ^ 63) else -(m : Int))
  else (if m > 2 ^ 63 - 1 then (2 : Int) ^ 63 - 1 else (m : Int))

/-- `(int)` conversion of a `long` (two's complement wrap). -/
def toInt32 (v : Int) : Int := (v + 2 ^ 31) % 2 ^ 32 - 2 ^ 31

/-- glibc `atoi` = `(int) strtol(s, NULL, 10)`. -/
def atoiC (s : Bytes) : Int := toInt32 (strtolC s)

/-- `-i X`: `(WB_TINY) atoi(optarg)` passed to a `WB_UTINY` parameter: the value modulo 256. -/
def indentOf (s : Bytes) : Nat := (atoiC s % 256).toNat

/-- `-m X`: `switch (atoi(optarg))` — 0 compact, 1 indent, 2 canonical, anything else indent. -/
def genOf (s : Bytes) : Nat :=
  let v := atoiC s
  if v == 0 then 0 else if v == 2 then 2 else 1

/-- `get_lang` of wbxml2xml_tool.c, in source order (all WBXML_SUPPORT_* enabled). -/
def langNames : List (Bytes × Nat) := [
  (b!"WML10", 1101), (b!"WML11", 1102), (b!"WML12", 1103), (b!"WML13", 1104),
  (b!"WTA10", 1201), (b!"WTAWML12", 1202), (b!"CHANNEL11", 1203), (b!"CHANNEL12", 1204),
  (b!"SI10", 1301), (b!"SL10", 1401), (b!"CO10", 1501), (b!"PROV10", 1601), (b!"EMN10", 1701),
  (b!"DRMREL10", 1801), (b!"OTA", 1901),
  (b!"SYNCML10", 2001), (b!"DEVINF10", 2002), (b!"SYNCML11", 2101), (b!"DEVINF11", 2102),
  (b!"METINF11", 2103), (b!"SYNCML12", 2201), (b!"DEVINF12", 2202), (b!"METINF12", 2203),
  (b!"DMDDF12", 2204), (b!"CSP11", 2301), (b!"CSP12", 2302),
  (b!"AIRSYNC", 2401), (b!"ACTIVESYNC", 2402), (b!"CONML", 2501)]

/-- `get_charset` of wbxml2xml_tool.c, in source order. -/
def charsetNames : List (Bytes × Nat) := [
  (b!"ASCII", 3), (b!"ISO-8859-1", 4), (b!"ISO-8859-2", 5), (b!"ISO-8859-3", 6), (b!"ISO-8859-4", 7),
  (b!"ISO-8859-5", 8), (b!"ISO-8859-6", 9), (b!"ISO-8859-7", 10), (b!"ISO-8859-8", 11),
  (b!"ISO-8859-9", 12), (b!"ISO-10646-UCS-2", 1000), (b!"SHIFT_JIS", 17), (b!"BIG5", 2026),
  (b!"UTF-8", 106), (b!"UTF-16", 1015)]

/-- `get_version` of xml2wbxml_tool.c. -/
def versionNames : List (Bytes × Int) := [(b!"1.0", 0), (b!"1.1", 1), (b!"1.2", 2), (b!"1.3", 3)]

def lookupName {α} (tbl : List (Bytes × α)) (dflt : α) (s : Bytes) : α :=
  match tbl.find? (fun p => p.1 == s) with
  | some p => p.2
  | none => dflt

def getLang (s : Bytes) : Nat := lookupName langNames 0 s          -- WBXML_LANG_UNKNOWN = 0
def getCharset (s : Bytes) : Nat := lookupName charsetNames 0 s    -- WBXML_CHARSET_UNKNOWN = 0
def getVersion (s : Bytes) : Int := lookupName versionNames (-1) s -- WBXML_VERSION_UNKNOWN = -1

/-- Option fields of `WBXMLConvWBXML2XML` with the defaults of `wbxml_conv_wbxml2xml_create`. -/
structure W2XCfg where
  gen : Nat := 1
  lang : Nat := 0
  charset : Nat := 0
  indent : Nat := 0
  keepWs : Bool := false
  deriving Repr, DecidableEq, Inhabited

/-- Option fields of `WBXMLConvXML2WBXML` with the defaults of `wbxml_conv_xml2wbxml_create`. -/
structure X2WCfg where
  version : Int := 3
  keepWs : Bool := false
  useStrtbl : Bool := true
  anonymous : Bool := false
  deriving Repr, DecidableEq, Inhabited

inductive Tool where
  | w2x | x2w
  deriving Repr, DecidableEq, Inhabited

/-- The parameter block the library conversion is called with. -/
inductive Params where
  | w2x (c : W2XCfg)
  | x2w (c : X2WCfg)
  deriving Repr, DecidableEq, Inhabited

def toolName : Tool → Bytes
  | .w2x => b!"wbxml2xml"
  | .x2w => b!"xml2wbxml"

/-- The option strings given to `wbxml_getopt`. -/
def toolOpts : Tool → Bytes
  | .w2x => b!"kh?o:m:i:l:c:"
  | .x2w => b!"nkah?o:v:"

end Wbxml.Model.Tool
