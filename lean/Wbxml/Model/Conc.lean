/-
  C14 — the abstract machine of concurrent conversions.

  `n` threads share a state `Sh` (the library's tables and every other object with static storage)
  and each owns a local state `L` (its converter / parser / encoder objects, inputs, outputs).
  A step of thread `i` executes the next operation of `i`'s program and is a function of
  `(Sh, L i)` only — that much is enforced by the *type* of `Machine.step`.  Whether a step leaves
  the shared state alone is NOT enforced by the type: it is the hypothesis `Machine.ReadOnly`, and it
  is exactly what the structural premises over the regenerated `Gen.Globals` establish for the C
  code (no writable process-wide memory, no non-re-entrant external).  `Model.Conc.counterMachine`
  shows the hypothesis is necessary.

  Schedules are lists of thread ids (interleaving semantics: one operation of one thread at a
  time); a data race between two C operations is not expressible here — that part of the property is
  covered by the ThreadSanitizer runs (see DESIGN_NOTES/C14.md).
-/
namespace Wbxml.Model.Conc

/-- One operation: reads the shared state and the caller's local state, returns the (possibly
    changed) shared state, the new local state and the operation's observable result. -/
structure Machine (Sh L Op Out : Type) where
  step : Sh → L → Op → Sh × L × Out

variable {Sh L Op Out : Type}

/-- No operation changes the shared state. -/
def Machine.ReadOnly (M : Machine Sh L Op Out) : Prop :=
  ∀ sh l op, (M.step sh l op).1 = sh

/-- A thread: its local state, the operations it still has to perform, the results so far (oldest first). -/
structure Thread (L Op Out : Type) where
  loc : L
  todo : List Op
  outs : List Out

/-- A configuration of `n` threads. -/
structure Config (n : Nat) (Sh L Op Out : Type) where
  sh : Sh
  th : Fin n → Thread L Op Out

/-- Point update of a family. -/
def upd {n : Nat} {α : Type} (f : Fin n → α) (i : Fin n) (v : α) : Fin n → α :=
  fun j => if j = i then v else f j

/-- Thread `i` performs its next operation (nothing happens when its program is finished). -/
def stepThread {n : Nat} (M : Machine Sh L Op Out) (i : Fin n) (c : Config n Sh L Op Out) : Config n Sh L Op Out :=
  match (c.th i).todo with
  | [] => c
  | op :: rest =>
    let r := M.step c.sh (c.th i).loc op
    { sh := r.1, th := upd c.th i { loc := r.2.1, todo := rest, outs := (c.th i).outs ++ [r.2.2] } }

/-- Run a schedule (a list of thread ids, leftmost first). -/
def run {n : Nat} (M : Machine Sh L Op Out) : List (Fin n) → Config n Sh L Op Out → Config n Sh L Op Out
  | [], c => c
  | i :: s, c => run M s (stepThread M i c)

/-- The initial configuration: every thread has its whole program ahead and no results. -/
def start {n : Nat} (sh : Sh) (init : Fin n → L) (progs : Fin n → List Op) : Config n Sh L Op Out :=
  { sh := sh, th := fun i => { loc := init i, todo := progs i, outs := [] } }

/-- A schedule is complete for a family of programs when it gives every thread at least as many
    turns as its program has operations (fairness for finite programs; surplus turns are no-ops). -/
def Complete {n : Nat} (progs : Fin n → List Op) (s : List (Fin n)) : Prop :=
  ∀ i, (progs i).length ≤ s.count i

/-- A program run alone, on one thread, from shared state `sh`: final shared state, final local
    state and the results in order. This is "what the call returns when run alone". -/
def seqRun (M : Machine Sh L Op Out) : Sh → L → List Op → Sh × L × List Out
  | sh, l, [] => (sh, l, [])
  | sh, l, op :: ops =>
    let r := M.step sh l op
    let t := seqRun M r.1 r.2.1 ops
    (t.1, t.2.1, r.2.2 :: t.2.2)

/-- The outputs of thread `i` in a configuration. -/
def outputs {n : Nat} (c : Config n Sh L Op Out) (i : Fin n) : List Out := (c.th i).outs

/-- One local step of a thread under a *fixed* shared state. -/
def localStep (M : Machine Sh L Op Out) (sh : Sh) (t : Thread L Op Out) : Thread L Op Out :=
  match t.todo with
  | [] => t
  | op :: rest =>
    let r := M.step sh t.loc op
    { loc := r.2.1, todo := rest, outs := t.outs ++ [r.2.2] }

/-- `k` local steps. -/
def iter {α : Type} (f : α → α) : Nat → α → α
  | 0, a => a
  | k + 1, a => iter f k (f a)

/-- The schedule that runs thread 0 to completion, then thread 1, … (what a sequential caller does). -/
def sequentialSchedule {n : Nat} (progs : Fin n → List Op) : List (Fin n) :=
  (List.finRange n).flatMap (fun i => List.replicate (progs i).length i)

/-- A machine built from a pure function of the shared tables and the request: the shape of the
    library's conversions (`wbxml_conv_*_run` on the caller's own objects) once the structural
    premises hold. `f` is a parameter: the byte-level model of the conversions is supplied elsewhere. -/
def pureMachine (f : Sh → L → Op → L × Out) : Machine Sh L Op Out :=
  { step := fun sh l op => (sh, f sh l op) }

/-- The counter-example machine: one writable global (a call counter, as a `static int counter`
    incremented in `wbxml_parser_parse` would be); every operation returns the counter it saw. -/
def counterMachine : Machine Nat Unit Unit Nat :=
  { step := fun sh _ _ => (sh + 1, (), sh) }

/-- `Complete` is decidable (used by the concrete non-vacuity examples). -/
instance {n : Nat} (progs : Fin n → List Op) (s : List (Fin n)) : Decidable (Complete progs s) := by
  unfold Complete; infer_instance

/-- Demo instance for the non-vacuity examples of Props/C14. Shared: a read-only table; local: an
    accumulator; an operation looks an index up and adds it (total: a missing index adds 0). -/
def demoMachine : Machine (List Nat) Nat Nat Nat :=
  pureMachine fun tbl acc ix => (acc + (tbl[ix]?).getD 0, acc + (tbl[ix]?).getD 0)

def demoProgs : Fin 3 → List Nat := fun i => if i = 0 then [0, 1, 2] else if i = 1 then [2, 2] else [1]

end Wbxml.Model.Conc
