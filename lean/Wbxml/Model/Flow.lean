/-
  Model of the flow-mode API of `wbxml_encoder.c` (C17):

    wbxml_encoder_set_flow_mode / _set_output_type / _set_lang        (configuration: `Enc`)
    wbxml_encoder_encode_node, wbxml_encoder_encode_node_with_elt_end (`Op.encodeNode`, `Op.encodeNodeNoEnd`)
    wbxml_encoder_encode_raw_elt_start / _end                         (`Op.encodeEltStart`, `Op.encodeEltEnd`)
    wbxml_encoder_delete_last_node                                    (`Op.deleteLast`)
    wbxml_encoder_get_output / _get_output_len                        (`Op.getOutput`, `FState.result`)

  The byte encoding of ONE item (a node, an element start, an element end) is a PARAMETER
  (`Enc.item`): a function of the encoder fields that encoding reads and writes (`σ`) and of the
  item.  For WBXML output `σ` = (tag page, attribute page, current tag) and the function is supplied
  by the WBXML encoder model (or, in the correspondence run, by the real library); for XML output it
  is built here from the validated XML generation model (`xmlNode`).

  The state machine mirrors the C code after the repair of C17 (commit message "fix: flow mode ...").
-/
import Wbxml.Model.EncXml
import Wbxml.Model.Codec.MbUint
namespace Wbxml.Model.Flow
open Wbxml Wbxml.Model

/-! ## Items, operations, the per-item encoder -/

/-- What one encoding call of the flow API is asked to encode. -/
inductive Item where
  /-- `wbxml_encoder_encode_node_with_elt_end(encoder, n, encEnd)`: `parse_node(n, encEnd)`. -/
  | node (n : Node) (encEnd : Bool)
  /-- `wbxml_encoder_encode_raw_elt_start(encoder, n, hasContent)`: `parse_element`. -/
  | start (n : Node) (hasContent : Bool)
  /-- `wbxml_encoder_encode_raw_elt_end(encoder, n, hasContent)`: `parse_element_end`. -/
  | fin (n : Node) (hasContent : Bool)
  deriving Inhabited

inductive Op where
  | encodeNode (n : Node)
  | encodeNodeNoEnd (n : Node)
  | encodeEltStart (n : Node) (hasContent : Bool)
  | encodeEltEnd (n : Node) (hasContent : Bool)
  | deleteLast
  | getOutput
  deriving Inhabited

/-- The item an operation asks to encode (none for `deleteLast` / `getOutput`). -/
def Op.item? : Op → Option Item
  | .encodeNode n => some (.node n true)
  | .encodeNodeNoEnd n => some (.node n false)
  | .encodeEltStart n hc => some (.start n hc)
  | .encodeEltEnd n hc => some (.fin n hc)
  | .deleteLast => none
  | .getOutput => none

/-- `encode_node` / `encode_node_with_elt_end`: the two calls that build the header and record the
    point `delete_last_node` comes back to. -/
def Item.isNode : Item → Bool
  | .node _ _ => true
  | _ => false

/-- The encoder as configured before the first node (language, output type, options), seen from the
    flow API: the header `wbxml_fill_header` / `xml_fill_header` produce, the initial value of the
    encoding state, and the encoding of one item: the bytes appended to the output and the new
    encoding state, or an error. -/
structure Enc (σ : Type) where
  header : Bytes
  init : σ
  item : σ → Item → Except Err (Bytes × σ)

/-! ## The state machine (`struct WBXMLEncoder_s`, flow-mode part) -/

/-- `pre_last_node_len` and the `pre_last_node_*` fields next to it: output length and encoding
    state before the most recent successfully encoded node. -/
structure Mark (σ : Type) where
  len : Nat
  st : σ

structure FState (σ : Type) where
  /-- `output_header`: `none` = NULL (not built yet). -/
  header : Option Bytes
  /-- `output` (NULL and empty are not distinguished: every reader goes through `wbxml_buffer_len`). -/
  output : Bytes
  /-- `tagCodePage`, `attrCodePage`, `current_tag`, `indent`, `in_content`. -/
  st : σ
  preLast : Mark σ

def FState.init (e : Enc σ) : FState σ :=
  { header := none, output := [], st := e.init, preLast := { len := 0, st := e.init } }

/-- `wbxml_encoder_get_output`: header (empty while `output_header` is NULL) followed by the output
    buffer. -/
def FState.result (s : FState σ) : Bytes := s.header.getD [] ++ s.output

/-- `wbxml_encoder_get_output_len`. -/
def FState.resultLen (s : FState σ) : Nat := (s.header.getD []).length + s.output.length

/-- One encoding call.  `encode_node[_with_elt_end]` builds the header when it is still NULL — before
    the node is looked at, so also when the node then fails.  On success the bytes are appended and,
    for a node, the point before it becomes the point `delete_last_node` returns to.  On failure
    `encoder_rewind` removes what the item appended and restores the encoding state: nothing of an
    item that could not be encoded stays (`preLast` is not touched). -/
def encodeStep (e : Enc σ) (s : FState σ) (it : Item) : FState σ × Option Err :=
  let hdr := if it.isNode then some (s.header.getD e.header) else s.header
  match e.item s.st it with
  | .ok (bs, st') =>
    ({ header := hdr, output := s.output ++ bs, st := st',
       preLast := if it.isNode then { len := s.output.length, st := s.st } else s.preLast }, none)
  | .error err => ({ s with header := hdr }, some err)

/-- `wbxml_encoder_delete_last_node`: `encoder_rewind` to the recorded point.
    `wbxml_encoder_delete_output_bytes` goes through the bounds-checked `wbxml_buffer_delete`
    (a length beyond the end deletes nothing), which is what `List.take` does. -/
def deleteStep (s : FState σ) : FState σ :=
  { s with output := s.output.take s.preLast.len, st := s.preLast.st }

def step (e : Enc σ) (s : FState σ) (op : Op) : FState σ × Option Err :=
  match op.item? with
  | some it => encodeStep e s it
  | none =>
    match op with
    | .deleteLast => (deleteStep s, none)
    | _ => (s, none)

/-- State after a history. -/
def run (e : Enc σ) (s : FState σ) : List Op → FState σ
  | [] => s
  | op :: ops => run e (step e s op).1 ops

/-- What the caller observes: per operation, its return code and `wbxml_encoder_get_output`. -/
def trace (e : Enc σ) (s : FState σ) : List Op → List (Option Err × Bytes)
  | [] => []
  | op :: ops =>
    let r := step e s op
    (r.2, r.1.result) :: trace e r.1 ops

/-! ### The code before the repair (kept to state the defect in Lean)

`wbxml_encoder_delete_last_node` used to truncate the output and leave `tagCodePage` /
`attrCodePage` (and `current_tag`, `indent`, `in_content`) as the deleted node had left them. -/

def deleteStepUnfixed (s : FState σ) : FState σ :=
  { s with output := s.output.take s.preLast.len }

def runUnfixed (e : Enc σ) (s : FState σ) : List Op → FState σ
  | [] => s
  | .deleteLast :: ops => runUnfixed e (deleteStepUnfixed s) ops
  | op :: ops => runUnfixed e (step e s op).1 ops

/-! ## Specification side: batch encoding, the nodes that remain -/

/-- Batch encoding of a sequence of items: what `parse_node` does along a `next` chain — one item
    after the other on one encoder. -/
def batch (e : Enc σ) : σ → List Item → Except Err (Bytes × σ)
  | st, [] => .ok ([], st)
  | st, it :: rest =>
    match e.item st it with
    | .error err => .error err
    | .ok (b, st1) =>
      match batch e st1 rest with
      | .error err => .error err
      | .ok (b', st2) => .ok (b ++ b', st2)

/-- The items encoded so far and not deleted, with the number of them that a `deleteLast` leaves. -/
structure Surv where
  items : List Item
  mark : Nat

/-- History → remaining items, defined on the specification side only (batch encoding decides
    whether an item can be encoded after the remaining ones): an item that cannot be encoded is not
    part of the document; `deleteLast` removes everything from the most recent remaining node on. -/
def survStep (e : Enc σ) (v : Surv) (op : Op) : Surv :=
  match op.item? with
  | some it =>
    match batch e e.init (v.items ++ [it]) with
    | .ok _ => { items := v.items ++ [it], mark := if it.isNode then v.items.length else v.mark }
    | .error _ => v
  | none =>
    match op with
    | .deleteLast => { v with items := v.items.take v.mark }
    | _ => v

def remaining (e : Enc σ) (v : Surv) : List Op → Surv
  | [] => v
  | op :: ops => remaining e (survStep e v op) ops

/-- Is the operation a call of `encode_node[_with_elt_end]` (the calls that build the header)? -/
def Op.isNodeCall (op : Op) : Bool :=
  match op.item? with
  | some it => it.isNode
  | none => false

/-- Has `encode_node[_with_elt_end]` been called in this history (is the header built)? -/
def nodeCalled (ops : List Op) : Bool := ops.any Op.isNodeCall

/-! ## A reader of the output: which code pages is the peer in? -/

structure Pages where
  tag : Nat
  attr : Nat
  deriving DecidableEq, Repr, Inhabited

/-- Skip one `mb_u_int32`. -/
def skipMb : Bytes → Option Bytes
  | [] => none
  | b :: r => if b.toNat ≥ 128 then skipMb r else some r

/-- Read one `mb_u_int32` (value only matters for OPAQUE lengths). -/
def readMb : Nat → Bytes → Option (Nat × Bytes)
  | _, [] => none
  | acc, b :: r =>
    if b.toNat ≥ 128 then readMb (acc * 128 + (b.toNat - 128)) r else some (acc * 128 + b.toNat, r)

/-- Skip a NUL-terminated inline string. -/
def skipStr : Bytes → Option Bytes
  | [] => none
  | b :: r => if b == 0 then some r else skipStr r

def skipN (n : Nat) (bs : Bytes) : Option Bytes :=
  if n ≤ bs.length then some (bs.drop n) else none

/-- How a reader treats a token, as far as code pages are concerned. -/
inductive TokKind where
  | switchPage                 -- SWITCH_PAGE + page index
  | single (inAttr' : Bool)    -- one byte
  | mb (inAttr' : Bool)        -- one byte + mb_u_int32
  | str                        -- one byte + NUL-terminated string
  | opaq                       -- OPAQUE + length + data
  deriving DecidableEq, Repr

/-- Classification of the token byte `t` read in the content space (`inAttr = false`) or inside an
    attribute list (WBXML 1.3 §5 and §7: global tokens keep their meaning in both spaces; LITERAL
    with the A/C bits exists in the tag space only; bit 7 of a tag = attributes follow; a PI is
    written with attribute syntax up to its END). -/
def tokKind (inAttr : Bool) (t : Nat) : TokKind :=
  if t == 0x00 then .switchPage
  else if t == 0x01 then .single false                                         -- END
  else if t == 0x02 then .mb inAttr                                            -- ENTITY
  else if t == 0x03 then .str                                                  -- STR_I
  else if t == 0x40 || t == 0x41 || t == 0x42 then .str                        -- EXT_I_*
  else if t == 0x80 || t == 0x81 || t == 0x82 then .mb inAttr                  -- EXT_T_*
  else if t == 0x83 then .mb inAttr                                            -- STR_T
  else if t == 0xC0 || t == 0xC1 || t == 0xC2 then .single inAttr              -- EXT_*
  else if t == 0xC3 then .opaq                                               -- OPAQUE
  else if inAttr then
    if t == 0x04 then .mb true                                                 -- LITERAL attribute name
    else .single true                                                          -- attrStart / attrValue token
  else
    if t == 0x43 then .single true                                             -- PI
    else if t == 0x04 || t == 0x44 then .mb false                              -- LITERAL, LITERAL_C
    else if t == 0x84 || t == 0xC4 then .mb true                               -- LITERAL_A, LITERAL_AC
    else .single (t ≥ 128)                                                     -- tag token

/-- One token: the space and pages afterwards and the bytes that follow it. `inAttr` = the reader is
    inside an attribute list (between a tag with the attribute bit, or a PI, and the matching END).
    SWITCH_PAGE changes the page of the space the reader is in. -/
def tok (inAttr : Bool) (p : Pages) : Bytes → Option (Bool × Pages × Bytes)
  | [] => none
  | b :: r =>
    match tokKind inAttr b.toNat with
    | .switchPage =>
      (match r with
       | [] => none
       | pg :: r' => some (inAttr, if inAttr then { p with attr := pg.toNat } else { p with tag := pg.toNat }, r'))
    | .single a' => some (a', p, r)
    | .mb a' => (match skipMb r with | some r' => some (a', p, r') | none => none)
    | .str => (match skipStr r with | some r' => some (inAttr, p, r') | none => none)
    | .opaq =>
      (match readMb 0 r with
       | none => none
       | some (n, r') => (match skipN n r' with | some r'' => some (inAttr, p, r'') | none => none))

/-- `Reads a p bs a' p'`: a reader in space `a` with pages `p` reads exactly the bytes `bs`, token by
    token, and ends in space `a'` with pages `p'`. -/
inductive Reads : Bool → Pages → Bytes → Bool → Pages → Prop where
  | nil (a : Bool) (p : Pages) : Reads a p [] a p
  | step {a p bs a1 p1 rest a2 p2} :
      tok a p bs = some (a1, p1, rest) → Reads a1 p1 rest a2 p2 → Reads a p bs a2 p2

/-- Executable reader (fuel = number of bytes + 1 suffices: every token consumes a byte). -/
def readGo : Nat → Bool → Pages → Bytes → Option (Bool × Pages)
  | 0, _, _, _ => none
  | _ + 1, a, p, [] => some (a, p)
  | f + 1, a, p, b :: r =>
    match tok a p (b :: r) with
    | none => none
    | some (a1, p1, rest) => readGo f a1 p1 rest

/-- The pages a reader that starts in the content space with pages `p` is in after the bytes `bs`,
    provided `bs` is a sequence of complete tokens that ends in the content space. -/
def pagesAfter (p : Pages) (bs : Bytes) : Option Pages :=
  match readGo (bs.length + 1) false p bs with
  | some (false, p') => some p'
  | _ => none

/-! ## WBXML output: header; the encoding state -/

/-- `wbxml_fill_header` with the string table disabled (flow mode): version, public id (numeric, or
    `00 00` + the textual id as the only string-table entry when the numeric id is 0x01 or textual
    ids are forced, unless anonymous; an anonymous document says 0x01), charset UTF-8 (not in a
    WBXML 1.0 header), string-table length, string table. -/
def wbxmlHeader (lang : Lang) (version : Nat) (textual anonymous : Bool) : Bytes :=
  let pid : Option Bytes :=
    if (textual || lang.pub.wbxmlId == 1) && !anonymous then lang.pub.xmlId else none
  [UInt8.ofNat version] ++
  (match pid with
   | some _ => [0x00] ++ Codec.mbEncode 0
   | none => Codec.mbEncode (if anonymous then 1 else lang.pub.wbxmlId)) ++   -- anonymous: "unknown"
  (if version == 0 then [] else Codec.mbEncode 106) ++                         -- no charset field in WBXML 1.0
  (match pid with
   | some s => Codec.mbEncode (s.length + 1) ++ s ++ [0x00]
   | none => Codec.mbEncode 0)

/-- The encoder fields WBXML encoding of an item reads and writes besides the output. -/
structure WSt where
  pages : Pages := { tag := 0, attr := 0 }
  curTag : Option TagRow := none
  deriving DecidableEq, Repr, Inhabited

/-! ## XML output: the per-item encoder built from the XML generation model -/

/-- The encoder fields XML generation reads and writes besides the output (`in_cdata` is FALSE
    between two calls: `parse_node` leaves every CDATA section it enters). -/
structure XFl where
  indent : UInt8 := 0
  inContent : Bool := false
  curTag : Option TagRow := none
  deriving DecidableEq, Repr, Inhabited

def XFl.toXSt (x : XFl) : XSt :=
  { out := [], indent := x.indent, inContent := x.inContent, inCdata := false, curTag := x.curTag }

def XFl.ofXSt (st : XSt) : XFl :=
  { indent := st.indent, inContent := st.inContent, curTag := st.curTag }

mutual
/-- Fuel `xmlNode` needs for this node (each level of nesting and each sibling costs one unit). -/
def needNode : Node → Nat
  | .elt _ _ kids => needList kids + 1
  | .text _ => 1
  | .cdata kids => needList kids + 1
  | .tree _ _ root => (match root with | some r => needNode r + 1 | none => 1)
/-- Fuel `xmlNodes` needs for this list. -/
def needList : List Node → Nat
  | [] => 1
  | n :: rest => max (needNode n) (needList rest) + 1
end

/-- `parse_node(node, enc_end = FALSE)`: an element without its end tag; any other node as usual. -/
def xmlNodeNoEnd (c : XCfg) (n : Node) (st : XSt) : Except Err XSt :=
  match n with
  | .elt name attrs kids => do
    let st := xmlTag c .none name st
    let st := if c.lang.attrs.isSome then attrs.foldl (fun st a => xmlAttr c a st) st else st
    let st := xmlEndAttrs c kids st
    let st ← xmlNodes c (childScope .none name) (needList kids) kids st
    pure { st with curTag := none }
  | _ => xmlNode c .none (needNode n) n st

/-- `parse_element` for XML output (`has_content` is not looked at: `/>` and the indentation are
    decided by the node's own children). Only element nodes have a name: the C code reads
    `node->name` without a test. -/
def xmlStart (c : XCfg) (n : Node) (st : XSt) : Except Err XSt :=
  match n with
  | .elt name attrs kids =>
    let st := xmlTag c .none name st
    let st := if c.lang.attrs.isSome then attrs.foldl (fun st a => xmlAttr c a st) st else st
    let st := xmlEndAttrs c kids st
    -- `<name/>` is a complete element: what is encoded next is not its content
    .ok (if kids.isEmpty then { st with curTag := none } else st)
  | _ => .error (.ub "raw element start of a node that is not an element (node->name is NULL)")

/-- `parse_element_end` for XML output. -/
def xmlFin (c : XCfg) (n : Node) (hasContent : Bool) (st : XSt) : Except Err XSt :=
  if hasContent then
    match n with
    | .elt name _ kids => .ok (xmlEndTag c name kids st)
    | _ => .error (.ub "raw element end of a node that is not an element (node->name is NULL)")
  else .ok st

def xmlItemSt (c : XCfg) (it : Item) (st : XSt) : Except Err XSt :=
  match it with
  | .node n true => xmlNode c .none (needNode n) n st
  | .node n false => xmlNodeNoEnd c n st
  | .start n _ => xmlStart c n st
  | .fin n hc => xmlFin c n hc st

/-- The XML instance of the per-item encoder. -/
def xmlEnc (c : XCfg) : Enc XFl :=
  { header := xmlHeader c.lang c.gen
    init := {}
    item := fun x it =>
      match xmlItemSt c it x.toXSt with
      | .ok st => .ok (st.out, XFl.ofXSt st)
      | .error e => .error e }

end Wbxml.Model.Flow
