/-
  C16 — the hand-unwound functions of `wbxml_parser.c` that the property names, in the ledger monad:
  `parse_attr_start` (its `LITERAL` case), `parse_attr_value`, `parse_attribute`, the attribute
  table of `parse_element` and `free_attrs_table`.

  What a function *decides from the bytes* is C04's subject; here the outcome of those decisions is
  the input (`AttrStart`, `Piece`, `TagShape`: which kind of token was met, which bytes it denotes,
  which error the bytes provoke), and the model is exact about what is allocated, released and
  dereferenced for it, in which order, and which code is returned.  Behaviour after the `fix:`
  commits (`Model/AllocOld.lean` has the former code).  The SI/EMN date-time branch of
  `parse_attribute` (`decode_datetime`, C12) is outside the model: languages without it are used
  in the correspondence.
-/
import Wbxml.Model.AllocCont
namespace Wbxml.Model.Alloc
open Wbxml

/-- `WBXML_PARSER_ATTR_VALUE_MALLOC_BLOCK`. -/
def ATTR_BLOCK : Nat := 100

/-- `WBXML_PARSER_UNKNOWN_STRING`. -/
def unknownName : Bytes := b!"unknown"

/-- What one `attrValue` item turns out to be. -/
inductive Piece where
  /-- inline string, string-table reference or value token: a *static* buffer over existing bytes -/
  | sta (bytes : Bytes)
  /-- entity or opaque: a dynamic copy -/
  | dyn (bytes : Bytes)
  /-- malformed item: this error, nothing allocated -/
  | err (code : Nat)
  deriving Repr, DecidableEq, Inhabited

/-- What the `attrStart` turns out to be. -/
inductive AttrStart where
  | token (row : Nat) (valuePrefix : Option Bytes)
  | unknown
  | literal (name : Bytes)
  | err (code : Nat)
  deriving Repr, DecidableEq, Inhabited

structure AttrShape where
  start : AttrStart
  pieces : List Piece
  deriving Repr, DecidableEq, Inhabited

/-- What the element's tag turns out to be. -/
inductive TagShape where
  | token (row : Nat)
  | unknown
  | literal (name : Bytes)
  | err (code : Nat)
  deriving Repr, DecidableEq, Inhabited

/-- `parse_attr_value`: (code, result). -/
def parseAttrValue (p : Piece) : Prog (Nat × Option ABuf) :=
  match p with
  | .err c => pure (c, none)
  | .sta bs => do
    let b ← bufStaCreate bs
    match b with
    | none => pure (ENOMEM, none)
    | some b => pure (OK, some b)
  | .dyn bs => do
    let b ← bufCreate (some bs) bs.length
    match b with
    | none => pure (ENOMEM, none)
    | some b => pure (OK, some b)

/-- `parse_literal` → `get_strtbl_reference`: a static buffer over the string-table entry. -/
def parseLiteralRef (name : Bytes) : Prog (Nat × Option ABuf) := do
  let b ← bufStaCreate name
  match b with
  | none => pure (ENOMEM, none)
  | some b => pure (OK, some b)

/-- `parse_attr_start`: (code, name, value prefix). -/
def parseAttrStart (st : AttrStart) : Prog (Nat × Option AName × Option Bytes) :=
  match st with
  | .err c => pure (c, none, none)
  | .literal nm => do
    let (ret, lit) ← parseLiteralRef nm
    if ret != OK then pure (ret, none, none)
    else match lit with
      | none => ub "parse_literal returned OK without a result"
      | some lit => do
        let cstr ← bufCstr lit
        let name ← nameCreateLiteral cstr
        let ret := if name.isNone then ENOMEM else OK
        bufDestroy (some lit)
        pure (ret, name, none)
  | .unknown => do
    let name ← nameCreateLiteral (some unknownName)
    match name with
    | none => pure (ENOMEM, none, none)
    | some n => pure (OK, some n, none)
  | .token row pfx => do
    let name ← nameCreateToken row
    match name with
    | none => pure (ENOMEM, none, none)
    | some n => pure (OK, some n, pfx)

/-- The `while (is_attr_value(parser))` loop of `parse_attribute`: (code, value). On an error the
    name and the value have been destroyed. -/
def attrValueLoop (name : Option AName) (value : ABuf) : List Piece → Prog (Nat × Option ABuf)
  | [] => pure (OK, some value)
  | p :: rest => do
    let (ret, tmp) ← parseAttrValue p
    if ret != OK then do
      nameDestroy name
      bufDestroy (some value)
      pure (ret, none)
    else do
      let (value, ok) ← bufAppend value tmp
      if !ok then do
        nameDestroy name
        bufDestroy (some value)
        bufDestroy tmp
        pure (ENOMEM, none)
      else do
        bufDestroy tmp
        attrValueLoop name value rest

/-- `parse_attribute`: (code, attribute). -/
def parseAttribute (a : AttrShape) : Prog (Nat × Option AAttr) := do
  let (ret, name, start) ← parseAttrStart a.start
  if ret != OK then pure (ret, none)
  else do
    let value ← bufCreate start ATTR_BLOCK
    match value with
    | none => do
      nameDestroy name
      pure (ENOMEM, none)
    | some value => do
      let (ret, value) ← attrValueLoop name value a.pieces
      match value with
      | none => pure (ret, none)
      | some value => do
        -- `attr_name->type` is read when the value is not empty
        derefWhen (value.len > 0) (name.map (·.hdr))
        let (value, ok) ← (if value.len > 0 then bufAppendChar value 0 else pure (value, true))
        if !ok then do
          nameDestroy name
          bufDestroy (some value)
          pure (ENOMEM, none)
        else do
          let attr ← attrCreate
          match attr with
          | none => do
            nameDestroy name
            bufDestroy (some value)
            pure (ENOMEM, none)
          | some attr => pure (OK, some { attr with name := name, value := some value })

/-- `free_attrs_table(attrs)`: the NULL-terminated table and every attribute in it. -/
def freeAttrsTable (tbl : Ptr) (entries : List AAttr) : Prog Unit :=
  match tbl with
  | none => pure ()
  | some t => do
    deref (some t)
    forM_ entries (fun a => attrDestroy (some a))
    free (some t)

/-- The `do … while (!END)` loop of `parse_element`: (code, table, entries). On an error the
    element tag, the attribute in hand and the table have been released. -/
def attrTableLoop (element : Option AName) (tbl : Ptr) (entries : List AAttr) :
    List AttrShape → Prog (Nat × Ptr × List AAttr)
  | [] => pure (OK, tbl, entries)
  | a :: rest => do
    let (ret, attr) ← parseAttribute a
    if ret != OK then do
      nameDestroy element
      freeAttrsTable tbl entries
      pure (ret, none, [])
    else match attr with
      | none => ub "parse_attribute returned OK without an attribute"
      | some attr => do
        let q ← realloc tbl
        match q with
        | none => do
          nameDestroy element
          attrDestroy (some attr)
          freeAttrsTable tbl entries
          pure (ENOMEM, none, [])
        | some q => do
          deref (some q)
          attrTableLoop element (some q) (entries ++ [attr]) rest

/-- `parse_stag`: (code, element). -/
def parseStag (t : TagShape) : Prog (Nat × Option AName) :=
  match t with
  | .err c => pure (c, none)
  | .token row => do
    let e ← nameCreateToken row
    match e with
    | none => pure (ENOMEM, none)
    | some e => pure (OK, some e)
  | .unknown => do
    let e ← nameCreateLiteral (some unknownName)
    match e with
    | none => pure (ENOMEM, none)
    | some e => pure (OK, some e)
  | .literal nm => do
    let (ret, lit) ← parseLiteralRef nm
    if ret != OK then pure (ret, none)
    else match lit with
      | none => ub "parse_literal returned OK without a result"
      | some lit => do
        let cstr ← bufCstr lit
        let e ← nameCreateLiteral cstr
        bufDestroy (some lit)
        pure (if e.isNone then ENOMEM else OK, e)

/-- `parse_element` for an element without content: tag, attribute table (when the tag announces
    attributes, `attrs ≠ []`), start/end call-backs (which only read), clean-up. -/
def parseElement (t : TagShape) (attrs : List AttrShape) : Prog Nat := do
  let (ret, element) ← parseStag t
  if ret != OK then pure ret
  else do
    deref (element.map (·.hdr))
    let (ret, tbl, entries) ← attrTableLoop element none [] attrs
    if ret != OK then pure ret
    else do
      freeAttrsTable tbl entries
      nameDestroy element
      pure OK

end Wbxml.Model.Alloc
