/-
  `#audit Ns` lists every theorem whose name starts with `Ns.` in the environment (imported or
  local) together with the axioms it depends on, one `AUDIT name [axioms]` line each.
-/
import Lean
open Lean Elab Command

elab "#audit " ns:ident : command => do
  let env ← getEnv
  let pre := ns.getId
  let mut names : Array Name := #[]
  for (n, ci) in env.constants.toList do
    if pre.isPrefixOf n && !n.isInternal then
      match ci with
      | .thmInfo _ => names := names.push n
      | _ => pure ()
  let sorted := names.qsort (fun a b => a.toString < b.toString)
  for n in sorted do
    let axs ← Lean.collectAxioms n
    let axs := axs.qsort (fun a b => a.toString < b.toString)
    logInfo m!"AUDIT {n} [{", ".intercalate (axs.toList.map toString)}]"

/-- `#inventory Ns`: like `#audit`, and also prints the statement of each theorem (one line). -/
elab "#inventory " ns:ident : command => do
  let env ← getEnv
  let pre := ns.getId
  let mut names : Array Name := #[]
  for (n, ci) in env.constants.toList do
    if pre.isPrefixOf n && !n.isInternal then
      match ci with
      | .thmInfo _ => names := names.push n
      | _ => pure ()
  let sorted := names.qsort (fun a b => a.toString < b.toString)
  for n in sorted do
    let axs ← Lean.collectAxioms n
    let axs := axs.qsort (fun a b => a.toString < b.toString)
    let some ci := env.find? n | continue
    let fmt ← liftTermElabM <| Lean.Meta.ppExpr ci.type
    let s := (fmt.pretty 100000).replace "\n" " "
    logInfo m!"INV {n} [{", ".intercalate (axs.toList.map toString)}] :: {s}"
