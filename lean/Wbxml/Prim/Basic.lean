/-
  Core types shared by the generated tables, the hand-written model and the specifications.
  Core Lean only (no Mathlib) so that the driver links as a `lean_exe`.
-/
namespace Wbxml

abbrev Bytes := List UInt8

/-- `b!"abc"` elaborates to the explicit byte list `[0x61, 0x62, 0x63]` (kernel-friendly literals). -/
syntax:max "b!" str : term
open Lean in
macro_rules
  | `(b! $s) => do
    let bs := s.getString.toUTF8.toList
    let ts : Array (TSyntax `term) := (bs.map fun b => (Syntax.mkNumLit (toString b.toNat) : TSyntax `term)).toArray
    `(([$ts,*] : List UInt8))

/-- Model-side error classes. `code` carries a `WBXMLError` value; `ub` marks a point where the C
    code would touch memory it does not own; `fuel` must be proved unreachable. -/
inductive Err where
  | code (c : Nat)
  | ub (what : String)
  | fuel
  | crash (what : String)
  deriving Repr, DecidableEq, Inhabited

/-- One row of a tag table (`WBXMLTagEntry`). -/
structure TagRow where
  name : Bytes
  page : Nat
  token : Nat
  opts : Nat
  deriving Repr, DecidableEq, Inhabited

/-- `WBXMLNameSpaceEntry`. -/
structure NsRow where
  ns : Bytes
  page : Nat
  deriving Repr, DecidableEq, Inhabited

/-- `WBXMLAttrEntry` (attribute start: name plus optional value prefix). -/
structure AttrRow where
  name : Bytes
  value : Option Bytes
  page : Nat
  token : Nat
  deriving Repr, DecidableEq, Inhabited

/-- `WBXMLAttrValueEntry`. -/
structure ValRow where
  name : Bytes
  page : Nat
  token : Nat
  deriving Repr, DecidableEq, Inhabited

/-- `WBXMLExtValueEntry`. -/
structure ExtRow where
  name : Bytes
  token : Nat
  deriving Repr, DecidableEq, Inhabited

/-- `WBXMLPublicIDEntry`. -/
structure PubId where
  wbxmlId : Nat
  xmlId : Option Bytes
  root : Option Bytes
  dtd : Option Bytes
  deriving Repr, DecidableEq, Inhabited

/-- One entry of the main table (`WBXMLLangEntry`), tables in source order.
    `none` = NULL table pointer. -/
structure Lang where
  id : Nat
  pub : PubId
  tags : Option (List TagRow)
  ns : Option (List NsRow)
  attrs : Option (List AttrRow)
  values : Option (List ValRow)
  exts : Option (List ExtRow)
  deriving Repr, DecidableEq, Inhabited

def hexDigit (n : Nat) : Char :=
  if n < 10 then Char.ofNat (48 + n) else Char.ofNat (87 + n)

def hexOfBytes (bs : Bytes) : String :=
  String.ofList (bs.flatMap fun b => [hexDigit (b.toNat / 16), hexDigit (b.toNat % 16)])

def hexVal (c : Char) : Option Nat :=
  if '0' ≤ c ∧ c ≤ '9' then some (c.toNat - 48)
  else if 'a' ≤ c ∧ c ≤ 'f' then some (c.toNat - 87)
  else if 'A' ≤ c ∧ c ≤ 'F' then some (c.toNat - 55)
  else none

def bytesOfHexChars : List Char → Option Bytes
  | [] => some []
  | a :: b :: rest => do
    let x ← hexVal a
    let y ← hexVal b
    let r ← bytesOfHexChars rest
    pure (UInt8.ofNat (x * 16 + y) :: r)
  | _ => none

def bytesOfHex (s : String) : Option Bytes := bytesOfHexChars s.toList

end Wbxml
