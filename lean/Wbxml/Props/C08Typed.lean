/-
  C08, second half — the elements and attributes that parser and encoder single out for typed
  handling. `Gen.Typed.rows` is regenerated on every run by probing the freshly built library row
  by row (tools/gen_typed.py); `Model.TypedExpected.rows` is the pinned list of intended names.
-/
import Wbxml.Gen.Typed
import Wbxml.Gen.Tables
import Wbxml.Model.TypedExpected
import Wbxml.Model.Tables
set_option maxRecDepth 100000
namespace Wbxml.Props.C08
open Wbxml

/-- Every element or attribute the encoder writes in a typed binary form is decoded by the parser
    with the same type. -/
theorem encoder_typed_subset_parser :
    Gen.Typed.rows.all (fun r => r.enc == 0 || r.dec == r.enc) = true := by decide +kernel

/-- Every (language, page, token) singled out for typed handling in 0.11.10 is still typed, with
    the same kind in the parser (and, where the encoder had a typed form, in the encoder), and the
    table row it applies to still carries the intended name. Typed rows may have been added. -/
theorem typed_names_match :
    Model.TypedExpected.rows.all (fun e => Gen.Typed.rows.any (fun r =>
      r.isAttr == e.isAttr && r.lang == e.lang && r.page == e.page && r.token == e.token &&
      r.name == e.name && r.dec == e.dec && (e.enc == 0 || r.enc == e.enc))) = true := by decide +kernel

/-- Every typed row is a row of that language's table (tags, or value-less attribute starts). -/
theorem typed_rows_exist_in_tables :
    Gen.Typed.rows.all (fun r => match Gen.main.find? (fun l => l.id == r.lang) with
      | some l =>
        if r.isAttr then
          (match l.attrs with
           | some t => t.any (fun a => a.page == r.page && a.token == r.token && a.name == r.name)
           | none => false)
        else
          (match l.tags with
           | some t => (Model.decTag t r.page r.token).map (·.name) == some r.name
           | none => false)
      | none => false) = true := by decide +kernel

example : Model.TypedExpected.rows.length ≥ 50 := by decide

end Wbxml.Props.C08
