/-
  C06 — generated WBXML is grammatical and denotes the source.

  Model: `Model/EncWbxml*.lean` (`treeToWbxml` = `wbxml_tree_to_wbxml`, tied byte for byte to
  `src/wbxml_encoder.c` by the ENCW / X2W correspondence runs). Grammar: `Spec/Wbxml.lean`
  (`Spec.Doc`, `Spec.ser`, `Doc.WF`, `Spec.events`), whose reading by the parser model is C04's
  `parse_ser`.

  Every theorem is for ALL trees, option tuples and languages (induction over the tree,
  `Lemmas/EncW*.lean`); the hypotheses, where there are any, are
    `langOk lang`      decidable range facts of the language's tables — true for every entry of the
                       regenerated main table (`main_langOk`);
    `treeOver lang t`  the root is an element and token names are rows of that language's tables
                       (what the XML tree builder produces; a tree built through the API with rows
                       of another language is outside);
    `typedLangOk lang` table facts of the typed forms (`main_typedLangOk`);
    four decidable conditions on the source tree, each a recorded finding, for `Doc.WF` of outputs
    with typed content (`enc_is_ser_wf`, `decodes_by_spec`: all 29 languages, nothing excluded):
    `noCdataInTyped` (cdata-in-typed-element), `validDatetimeAttrs` (invalid-datetime-attribute-accepted),
    `b64TextDecodes` (D5: text that is not base64 becomes an empty OPAQUE), `keyValueTextFirst` (new:
    DRMREL `ds:KeyValue` text behind a child element) — each with a necessity witness;
    `opqsDoc d = []`   (only `enc_is_ser_wf_partial`, the output-side variant) no OPAQUE token was written.
-/
import Wbxml.Lemmas.EncWConcat
import Wbxml.Props.C04
import Wbxml.Props.C12
import Wbxml.Gen.Tables
set_option maxRecDepth 100000
namespace Wbxml.Props.C06
open Wbxml Wbxml.Model Wbxml.Spec Wbxml.Lemmas.EncW Wbxml.Lemmas.ParseSer
open Wbxml.Model.Codec (mbEncode)

/-- The table facts the encoder relies on (token ranges, code pages are octets, extension tables
    only for Wireless Village, `%Datetime` start tokens without value prefix, public ids in range)
    hold for every language of the library. -/
theorem main_langOk : Gen.main.all langOk = true := by decide +kernel

theorem langOk_of_main (l : Lang) (h : l ∈ Gen.main) : langOk l = true :=
  List.all_eq_true.mp main_langOk l h

/-! ## Header -/

/-- A successful run writes `serHeader h ++ body` where `h` is the header value `hdrOf` of the
    final encoder state and `body` the output of the node walk — for every tree. -/
theorem header_is_ser (cfg : X2WCfg) (t : Tree) (bs : Bytes) (h : treeToWbxml cfg t = .ok bs) :
    ∃ lang r st, t.lang = some lang ∧ t.root = some r ∧
      encNodeG (dcfgOf cfg lang) none true r (docStartW (dcfgOf cfg lang) r) = .ok st ∧
      bs = serHeader (hdrOf (dcfgOf cfg lang) st) ++ st.out := by
  obtain ⟨lang, r, st, hl, hr, hrun, hbs⟩ := treeToWbxml_ok h
  obtain ⟨hinv, hno⟩ := doc_final_inv _ r st hrun
  exact ⟨lang, r, st, hl, hr, hrun, by rw [hbs, fillHeaderW_ser _ _ hinv hno]⟩

/-- "The header carries the requested version": the first octet is the version token. -/
theorem header_version (cfg : X2WCfg) (t : Tree) (bs : Bytes) (h : treeToWbxml cfg t = .ok bs) :
    bs.head? = some (UInt8.ofNat cfg.version) ∧ bs[0]? = some (UInt8.ofNat cfg.version) := by
  obtain ⟨lang, r, st, _, _, _, hbs⟩ := header_is_ser cfg t bs h
  subst hbs
  simp [serHeader, hdrOf, byte]

/-- "…and UTF-8": after the public identifier comes the charset field `6A` (MIBenum 106) for every
    version but 1.0; a WBXML 1.0 header has no charset field. -/
theorem header_charset_utf8 (cfg : X2WCfg) (t : Tree) (bs : Bytes) (h : treeToWbxml cfg t = .ok bs) :
    ∃ lang st rest, t.lang = some lang ∧
      bs = UInt8.ofNat cfg.version :: (serPubid (hdrPubid (dcfgOf cfg lang) st) ++
        ((if cfg.version = 0 then [] else [0x6A]) ++ rest)) := by
  obtain ⟨lang, r, st, hl, _, _, hbs⟩ := header_is_ser cfg t bs h
  refine ⟨lang, st, mb (tblBytes (hdrOf (dcfgOf cfg lang) st).strtbl).length ++
    (tblBytes (hdrOf (dcfgOf cfg lang) st).strtbl ++ st.out), hl, ?_⟩
  rw [hbs]
  simp only [serHeader, hdrOf, dcfgOf_version, mb106, byte, List.cons_append, List.append_assoc]

/-- "The language's public identifier — numerically, or as an index to its text in the string
    table, or as 'unknown' when anonymity is requested". The identifier written is

    * `01` (unknown) when anonymity is requested;
    * otherwise the language's numeric identifier when it has one (≠ 1);
    * otherwise (numeric identifier 1) `00 idx` where `idx` is the offset of an entry of the final
      string table whose string is the language's textual identifier — or `01` when the language
      has no textual identifier either. -/
theorem header_publicid (cfg : X2WCfg) (lang : Lang) (st : WSt) :
    (cfg.anonymous = true → hdrPubid (dcfgOf cfg lang) st = .num 1) ∧
    (cfg.anonymous = false → lang.pub.wbxmlId ≠ 1 → hdrPubid (dcfgOf cfg lang) st = .num lang.pub.wbxmlId) ∧
    (cfg.anonymous = false → lang.pub.wbxmlId = 1 → lang.pub.xmlId = none →
      hdrPubid (dcfgOf cfg lang) st = .num 1) ∧
    (cfg.anonymous = false → lang.pub.wbxmlId = 1 → ∀ p, lang.pub.xmlId = some p →
      ∃ idx e, hdrPubid (dcfgOf cfg lang) st = .str idx ∧ e ∈ finalTbl (dcfgOf cfg lang) st ∧
        e.offset = idx ∧ e.str = p) := by
  refine ⟨?_, ?_, ?_, ?_⟩
  · intro ha
    simp [hdrPubid, hdrPid, ha]
  · intro ha hid
    simp [hdrPubid, hdrPid, ha, hid]
  · intro ha hid hx
    simp [hdrPubid, hdrPid, ha, hid, hx]
  · intro ha hid p hx
    have hp : hdrPid (dcfgOf cfg lang) = some p := by simp [hdrPid, ha, hid, hx]
    cases hu : (dcfgOf cfg lang).useStrtbl with
    | true =>
      obtain ⟨e, he, ho, hs⟩ := strtblAdd_idx st p none
      exact ⟨_, e, by simp [hdrPubid, hp, hu], by simpa [finalTbl, hp, hu] using he, ho, hs⟩
    | false =>
      exact ⟨0, ⟨p, 0, none⟩, by simp [hdrPubid, hp, hu], by simp [finalTbl, hp, hu], rfl, rfl⟩

/-- "An anonymous document's header carries the 'unknown' identifier and no public-identifier
    string": the identifier is `01` and the string table is exactly the one the body built
    (empty when the string table is disabled). -/
theorem anonymous_no_pid_string (cfg : X2WCfg) (lang : Lang) (st : WSt) (ha : cfg.anonymous = true) :
    hdrPubid (dcfgOf cfg lang) st = .num 1 ∧
    finalTbl (dcfgOf cfg lang) st = (if (dcfgOf cfg lang).useStrtbl then st.strtbl else []) := by
  have hp : hdrPid (dcfgOf cfg lang) = none := by simp [hdrPid, ha]
  exact ⟨(header_publicid cfg lang st).1 ha, by simp [finalTbl, hp]⟩

/-! ## String table -/

/-- "The declared string-table length is exact": the header's length field is `mb_u_int32` of the
    octet length of the table that follows, the table is the concatenation of its entries each
    followed by NUL, and every entry's offset is the sum of `length + 1` of the entries before it. -/
theorem strtbl_len_exact (cfg : X2WCfg) (t : Tree) (bs : Bytes) (h : treeToWbxml cfg t = .ok bs) :
    ∃ lang st pre, t.lang = some lang ∧
      bs = pre ++ (mbEncode (strtblBytes (finalTbl (dcfgOf cfg lang) st)).length ++
        (strtblBytes (finalTbl (dcfgOf cfg lang) st) ++ st.out)) ∧
      (strtblBytes (finalTbl (dcfgOf cfg lang) st)).length = tblLen (finalTbl (dcfgOf cfg lang) st) ∧
      OffsFrom 0 (finalTbl (dcfgOf cfg lang) st) := by
  obtain ⟨lang, r, st, hl, _, hrun, hbs⟩ := header_is_ser cfg t bs h
  obtain ⟨hinv, _⟩ := doc_final_inv _ r st hrun
  refine ⟨lang, st, byte cfg.version :: (serPubid (hdrPubid (dcfgOf cfg lang) st) ++
    (if cfg.version = 0 then [] else mb 106)), hl, ?_, strtblBytes_length _, finalTbl_offs _ _ hinv⟩
  rw [hbs]
  simp only [serHeader, hdrOf, dcfgOf_version, tblBytes_map, mb, List.cons_append, List.append_assoc]

/-- The state invariant behind it, on every tree and from every state that satisfies it: the node
    walk only appends entries, keeps `offset e = Σ (len + 1)` of earlier entries and
    `strtblLen = Σ (len + 1)`, and adds nothing when the string table is disabled. -/
theorem strtbl_invariant (c : WCfg) (parent : Option Name) (encEnd : Bool) (n : Node) (st st' : WSt)
    (hinv : StrInv st) (h : encNodeG c parent encEnd n st = .ok st') :
    StrInv st' ∧ st.strtbl <+: st'.strtbl ∧ (c.useStrtbl = false → st'.strtbl = st.strtbl) := by
  have t := encNode_tbl.1 c parent encEnd n st hinv st' h
  exact ⟨t.inv hinv, t.pre, t.no⟩

/-! ## The body: grammar, references, pages -/

/-- **`enc_is_ser`** (grammaticality). For every tree whose root is an element over its language:
    the output is `Spec.ser d` for a document `d` of the WBXML grammar, with the header `hdrOf`
    and no processing instructions. In particular attribute lists, elements and the document
    terminate and balance (`ends_balance`). -/
theorem enc_is_ser (cfg : X2WCfg) (t : Tree) (bs : Bytes) (lang : Lang) (hlang : t.lang = some lang)
    (hl : langOk lang = true) (hover : treeOver lang t = true) (h : treeToWbxml cfg t = .ok bs) :
    ∃ d : Doc, bs = Spec.ser d ∧ d.pre = [] ∧ d.post = [] ∧
      ∃ st, d.hdr = hdrOf (dcfgOf cfg lang) st := by
  obtain ⟨r, d, st, _, hres⟩ := treeToWbxml_doc cfg t bs lang hlang hl hover h
  exact ⟨d, hres.ser, hres.pre, hres.post, st, hres.hdr⟩

/-- "Attribute lists, elements and the document terminate and balance": what follows the header
    is exactly `serElem root` — one element, whose attribute list (when not empty) and content
    (when present) are each closed by their own END, recursively, and nothing after it. -/
theorem ends_balance (cfg : X2WCfg) (t : Tree) (bs : Bytes) (lang : Lang) (hlang : t.lang = some lang)
    (hl : langOk lang = true) (hover : treeOver lang t = true) (h : treeToWbxml cfg t = .ok bs) :
    ∃ (hd : Header) (root : Elem), bs = serHeader hd ++ serElem root := by
  obtain ⟨d, hs, hpre, hpost, _⟩ := enc_is_ser cfg t bs lang hlang hl hover h
  refine ⟨d.hdr, d.root, ?_⟩
  rw [hs, Spec.ser, serBody, hpre, hpost]
  simp [serPis]

/-- "Every string reference and literal index points at the first byte of a NUL-terminated
    entry": every index used by the document (STR_T in content and attribute values, literal tag
    and attribute names, the textual public identifier) is the offset of the `i`-th entry of the
    header's string table, i.e. the total length of the `i` entries (with their NULs) before it. -/
theorem refs_hit_entry_starts (cfg : X2WCfg) (t : Tree) (bs : Bytes) (lang : Lang) (hlang : t.lang = some lang)
    (hl : langOk lang = true) (hover : treeOver lang t = true) (h : treeToWbxml cfg t = .ok bs) :
    ∃ d : Doc, bs = Spec.ser d ∧
      ∀ off ∈ refsDoc d, ∃ i, i < d.hdr.strtbl.length ∧ off = (tblBytes (d.hdr.strtbl.take i)).length := by
  obtain ⟨r, d, st, _, hres⟩ := treeToWbxml_doc cfg t bs lang hlang hl hover h
  refine ⟨d, hres.ser, ?_⟩
  intro off ho
  obtain ⟨e, he, heo⟩ := hres.refs off ho
  obtain ⟨i, hi, hoff⟩ := offsFrom_index 0 _ (finalTbl_offs _ _ hres.inv) e he
  refine ⟨i, by rw [hres.hdr]; simpa [hdrOf] using hi, ?_⟩
  rw [← heo, hoff, hres.hdr]
  simp only [hdrOf, ← List.map_take, tblBytes_map, strtblBytes_length, Nat.zero_add]

/-- "Literal names only through the string table": with the string table disabled the body
    contains no string-table index at all (an unknown name is refused with error 100 instead). -/
theorem literals_only_via_strtbl (cfg : X2WCfg) (t : Tree) (bs : Bytes) (lang : Lang) (hlang : t.lang = some lang)
    (hl : langOk lang = true) (hover : treeOver lang t = true) (h : treeToWbxml cfg t = .ok bs)
    (hu : (dcfgOf cfg lang).useStrtbl = false) :
    ∃ d : Doc, bs = Spec.ser d ∧ refsElem d.root = [] := by
  obtain ⟨r, d, st, _, hres⟩ := treeToWbxml_doc cfg t bs lang hlang hl hover h
  refine ⟨d, hres.ser, ?_⟩
  have hempty := hres.no hu
  cases hr : refsElem d.root with
  | nil => rfl
  | cons off rest =>
    obtain ⟨e, he, _⟩ := hres.body.refs off (by rw [refsItems_single, refsItem_elem, hr]; exact List.mem_cons_self)
    rw [hempty] at he; cases he

/-- "SWITCH_PAGE emitted iff the page changes" — tag space: `wbxml_encode_tag_token` writes
    `00 page` exactly when the tracked tag page differs from the token's page, then the token, and
    tracks the token's page; the attribute page is not touched. -/
theorem switch_iff_page_changes_tag (token page : Nat) (st : WSt) :
    (tagTokenW token page st).out =
      st.out ++ ((if st.tagPage = page % 256 then [] else [0x00, UInt8.ofNat page]) ++ [UInt8.ofNat token]) ∧
    (tagTokenW token page st).tagPage = page % 256 ∧ (tagTokenW token page st).attrPage = st.attrPage := by
  have h := tagTokenW_out token page st
  refine ⟨?_, h.2.1, h.2.2.1⟩
  rw [h.1]; unfold swFor
  by_cases hp : st.tagPage = page % 256
  · simp [hp, serSw]
  · simp [hp, serSw, byte_mod]

/-- … and attribute space (attribute starts and attribute value tokens alike); the tag page is
    not touched: the two code spaces are tracked separately. -/
theorem switch_iff_page_changes_attr (token page : Nat) (st : WSt) :
    (attrTokenW token page st).out =
      st.out ++ ((if st.attrPage = page % 256 then [] else [0x00, UInt8.ofNat page]) ++ [UInt8.ofNat token]) ∧
    (attrTokenW token page st).attrPage = page % 256 ∧ (attrTokenW token page st).tagPage = st.tagPage := by
  have h := attrTokenW_out token page st
  refine ⟨?_, h.2, (attrTokenW_frame token page st).1⟩
  rw [h.1]; unfold swFor
  by_cases hp : st.attrPage = page % 256
  · simp [hp, serSw]
  · simp [hp, serSw, byte_mod]

/-- "Every token is emitted under its own code page": the tag written for a node is a row of the
    language's tag table preceded by `SWITCH_PAGE` exactly when the tracked page is not the row's
    page (or a literal through the string table), and the tracked page afterwards is the page a
    reader is in. -/
theorem token_under_own_page (c : WCfg) (name : Name) (hc ha : Bool) (st st' : WSt)
    (hl : langOk c.lang = true) (hn : nameOver c.lang name = true) (h : encTagW c name hc ha st = .ok st') :
    ∃ sw tag, st'.out = st.out ++ (serSw sw ++ serTag (tagFlags ha hc) tag) ∧
      st'.tagPage = swPage sw st.tagPage ∧ TagOk c st'.strtbl st.tagPage name.cName sw tag := by
  obtain ⟨sw, tag, h1, h2, _, _, _, h6⟩ := encTagW_spec c name hc ha st st' hl hn h
  exact ⟨sw, tag, h1, h2, h6⟩

/-- The tracked pages always equal the pages a reader has after reading the output so far: for
    the whole document, the pages `Spec.evElem` computes from (0, 0) over the root element are the
    encoder's final `tagCodePage` / `attrCodePage`; `Lemmas.EncW.Seg.pages` is the same statement
    for every node and every intermediate state. -/
theorem tracked_pages_are_reader_pages (cfg : X2WCfg) (t : Tree) (bs : Bytes) (lang : Lang)
    (hlang : t.lang = some lang) (hl : langOk lang = true) (hover : treeOver lang t = true)
    (h : treeToWbxml cfg t = .ok bs) :
    ∃ (d : Doc) (st : WSt), bs = Spec.ser d ∧ ∀ ctx, (evElem ctx ⟨0, 0⟩ d.root).2 = ⟨st.tagPage, st.attrPage⟩ := by
  obtain ⟨r, d, st, _, hres⟩ := treeToWbxml_doc cfg t bs lang hlang hl hover h
  refine ⟨d, st, hres.ser, ?_⟩
  intro ctx
  have := hres.body.pages ctx none
  rw [(docStartW_fields _ r).2.1, (docStartW_fields _ r).2.2.1, evItems_single_pages, evItem_elem] at this
  exact this

/-- "Multi-byte integer writer": every length, index and identifier of `Spec.ser` is written by
    `mbEncode`, which uses the least number of 7-bit groups (C11). -/
theorem mb_uint_minimal (v : Nat) (hv : v < 2 ^ 32) :
    1 ≤ (mbEncode v).length ∧ (mbEncode v).length ≤ 5 ∧ v < 2 ^ (7 * (mbEncode v).length) ∧
    ∀ j, 1 ≤ j → v < 2 ^ (7 * j) → (mbEncode v).length ≤ j := Props.C11.mb_minimal v hv

/-! ## Values: "split into tokens / table references / inline strings" denotes the source -/

/-- Reader-side table facts used below (first row with a value token's page and token has the same
    text; first row with an attribute start's page and token has the same value prefix) hold for
    every language of the library. -/
theorem main_valSemOk : Gen.main.all valSemOk = true := by decide +kernel
theorem main_attrSemOk : Gen.main.all attrSemOk = true := by decide +kernel

/-- One pass of the splitting loop of `wbxml_encode_value_element_buffer` (needle = an attribute
    value token's text or a string-table entry) keeps the concatenation of the element values,
    for ANY needle and ANY list — "independent of which strings the table heuristics select". -/
theorem split_preserves_concat (c : WCfg) (tbl : List StrEntry) (tb : Bytes) (hres : Resolves tb tbl)
    (l out : List VElt) (hl : ∀ e ∈ l, VOk c tbl e) :
    (∀ vals, (∀ r ∈ vals, VOk c tbl (.tok r)) → splitByValues vals l = .ok out →
      out.flatMap (vval tb) = l.flatMap (vval tb)) ∧
    (∀ es, (∀ e ∈ es, e ∈ tbl) → splitByStrtbl es l = .ok out →
      out.flatMap (vval tb) = l.flatMap (vval tb)) :=
  ⟨fun vals hv h => splitByValues_concat c tbl tb vals hv l out hl h,
   fun es he h => splitByStrtbl_concat c tbl tb hres es he l out hl h⟩

/-- The table octets the header announces resolve the encoder's table at every moment of the run:
    every NUL-free entry stands at its offset (so `STR_T offset` reads back the entry). -/
theorem header_table_resolves (c : WCfg) (st : WSt) (hinv : StrInv st) (hu : c.useStrtbl = true) :
    Resolves (strtblBytes (finalTbl c st)) st.strtbl := resolves_final c st hinv hu

/-- **Character data is preserved** (every language but Wireless Village and DRMREL, whose typed
    content is C12's): the items written for a text are inline strings / table references whose
    character data, read with any string table that resolves the encoder's, concatenates to the
    text (after the documented SyncML media-type rewriting) — with or without string table. -/
theorem text_preserved (c : WCfg) (parent : Option Name) (s : Bytes) (st st' : WSt)
    (hs : nulFree s = true) (hl : langOk c.lang = true) (hnw : isWv c.lang.id = false)
    (hnd : (c.lang.id == 1801) = false) (h : encContentValueW c parent s st = .ok st') :
    ∃ items, st' = st.emit (serItems items) ∧
      ∀ ctx : Ctx, Resolves ctx.tbl st.strtbl → ∀ own pg,
        s ≠ [] → charsCat (evItems ctx own pg items).1 = syncmlTypeText c.lang.id s := by
  obtain ⟨items, h1, _, _, _, h4⟩ := encContentValueW_text c parent s st st' hs hl hnw hnd h
  exact ⟨items, h1, fun ctx hr own pg => (h4 ctx hr own pg).1⟩

/-- **Attribute values are preserved**: what is written for an attribute is `attrStart *attrValue`
    of the grammar such that the value prefix of the start token (as a reader resolves it: first row
    with that page and token) followed by the texts of the pieces (value tokens, inline strings,
    table references) is exactly the source value read as a C string — whenever no OPAQUE was
    written (typed `%Datetime` / OTA values are C12's). -/
theorem attr_value_preserved (c : WCfg) (na : Option (List Attr)) (a : Attr) (st st' : WSt)
    (ha : attrOver c.lang a = true) (attrs : List AttrRow) (hattrs : c.lang.attrs = some attrs)
    (h : encAttrW c na a st = .ok st') :
    ∃ sa : Attribute, st'.out = st.out ++ serAttr sa ∧
      ∀ ctx : Ctx, ctx.lang = c.lang → langOk c.lang = true → valSemOk c.lang = true →
        attrSemOk c.lang = true → Resolves ctx.tbl st'.strtbl → opqsAttr sa = [] →
        (astartName ctx st.attrPage sa.start).2.1 ++
          (avalsText ctx (astartName ctx st.attrPage sa.start).2.2 sa.vals).1 = cstrOf a.value := by
  obtain ⟨sa, hsa⟩ := encAttrW_spec c na a st st' ha attrs hattrs h
  exact ⟨sa, hsa.out, hsa.value⟩

/-! ## Well-formedness and decoding by the specification -/

/-- **`enc_is_ser` with `Doc.WF`, output-side variant** (superseded by `enc_is_ser_wf` below for every
    tree that satisfies the source hypotheses; kept because its condition is on the OUTPUT and also
    covers trees outside those hypotheses whose output happens to contain no OPAQUE): for EVERY output of a language without typed content
    (`untypedLang`: all but Wireless Village, DRMREL, SyncML, SI, EMN, OTA — 20 of the 29 entries of
    the main table; binary-flagged elements, CDATA sections and embedded documents included), and
    for the outputs of the other languages that contain no OPAQUE token. `_partial`: the
    full-strength statement has no such condition. It is FALSE as it stands for typed content —
    the encoder writes opaques the strict reading rejects (empty base64 for DRMREL `ds:KeyValue` /
    OTA `ICON` text that is not base64, a truncated `%Datetime` for `timestamp="1"`, CDATA inside
    a Wireless-Village integer element: known findings `invalid-datetime-attribute-accepted`,
    `cdata-in-typed-element`, D5 of DESIGN_NOTES/EncWbxml.md) — so the extension needs the typed
    round-trip laws of C12 as side conditions on each opaque; the string / token / literal /
    string-table / code-page machinery is covered completely here.

    `pcfg` is any reader configuration under which the header selects the tree's language and a
    character set in which strings can be delivered (e.g. `{ main := Gen.main }` for a language
    whose public identifier is unique, or the language forced). -/
theorem enc_is_ser_wf_partial (cfg : X2WCfg) (t : Tree) (bs : Bytes) (lang : Lang) (hlang : t.lang = some lang)
    (hl : langOk lang = true) (hover : treeOver lang t = true) (h : treeToWbxml cfg t = .ok bs) :
    ∃ d : Doc, bs = Spec.ser d ∧
      ∀ pcfg : PCfg, headerLang pcfg d.hdr = some lang →
        (headerCharset pcfg d.hdr = 3 ∨ headerCharset pcfg d.hdr = 106) →
        pcfg.charsets.contains (headerCharset pcfg d.hdr) = true →
        cfg.version < 256 → bs.length < 4294967296 →
        (opqsDoc d = [] ∨ untypedLang lang.id = true) → d.WF pcfg := by
  obtain ⟨r, d, st, _, hres⟩ := treeToWbxml_doc cfg t bs lang hlang hl hover h
  exact ⟨d, hres.ser, fun pcfg h1 h2 h3 h4 h5 h6 => hres.wf hl pcfg h1 h2 h3 h4 h5 h6⟩

/-- "Decoding those bytes strictly by the specification": with `parse_ser` (C04) the parser model
    accepts the encoder's output and delivers exactly the events the specification assigns to the
    document the encoder wrote. -/
theorem decodes_by_spec_partial (cfg : X2WCfg) (t : Tree) (bs : Bytes) (lang : Lang) (hlang : t.lang = some lang)
    (hl : langOk lang = true) (hover : treeOver lang t = true) (h : treeToWbxml cfg t = .ok bs) :
    ∃ d : Doc, bs = Spec.ser d ∧
      ∀ pcfg : PCfg, headerLang pcfg d.hdr = some lang →
        (headerCharset pcfg d.hdr = 3 ∨ headerCharset pcfg d.hdr = 106) →
        pcfg.charsets.contains (headerCharset pcfg d.hdr) = true →
        cfg.version < 256 → bs.length < 4294967296 →
        (opqsDoc d = [] ∨ untypedLang lang.id = true) →
        (parse pcfg bs).result = .ok () ∧ (parse pcfg bs).events = Spec.events pcfg d := by
  obtain ⟨d, hs, hwf⟩ := enc_is_ser_wf_partial cfg t bs lang hlang hl hover h
  refine ⟨d, hs, fun pcfg h1 h2 h3 h4 h5 h6 => ?_⟩
  rw [hs]
  exact Props.C04.parse_ser pcfg d (hwf pcfg h1 h2 h3 h4 h5 h6)

/-! ## Typed content: every language, every output — under the recorded findings

  The nine languages with typed content (Wireless Village 1.1/1.2, DRMREL, SyncML 1.0–1.2, SI, EMN,
  OTA settings) write OPAQUE tokens the parser decodes by a typed rule. The encoder's typed writers
  and the parser's typed readers agree (C12) on every VALID typed text; where the encoder accepts
  text that is not valid, or sends an OPAQUE at a place where the parser applies another rule, the
  output is not well-formed: these are recorded findings, and they are exactly the four decidable
  hypotheses on the SOURCE tree below (all four hold trivially in a language without typed content).

  * `noCdataInTyped lang false r` — finding **`cdata-in-typed-element`** (C03): no CDATA section and
    no embedded document inside an element whose opaque content the parser decodes by a typed rule
    (WV integer / date-time elements, DRMREL `ds:KeyValue`, SyncML `NextNonce`), nor inside a literal
    (unknown) element below one (the parser keeps its `current_tag` across a literal tag).
  * `validDatetimeAttrs lang r` — finding **`invalid-datetime-attribute-accepted`** (C03): the value
    of every SI `created` / `si-expires` and EMN `timestamp` attribute satisfies `validDatetimeText`
    (its digits give four to seven BCD octets, or none).
  * `b64TextDecodes c none r` — **D5** of DESIGN_NOTES/EncWbxml.md (the OTA / DRMREL counterpart of
    `invalid-base64-in-binary-element`; not yet in known_findings.json): text under DRMREL
    `ds:KeyValue` and the `VALUE` of an OTA `PARM NAME="ICON"` decode (base64, white space removed) to
    at least one octet — otherwise the encoder writes `C3 00`, which `decode_base64_value` rejects.
  * `keyValueTextFirst c none true r` — NEW (see `keyvalue_text_after_child_witness`): the text of a
    DRMREL `ds:KeyValue` precedes its child elements. The encoder types the text by its PARENT, the
    parser by `current_tag`, which an element end clears: behind a child element the OPAQUE is
    delivered raw instead of as base64.

  `c = dcfgOf cfg lang` only enters through the white-space options (text that is dropped or
  trimmed to nothing needs no condition). `typedLangOk lang` is a table fact (`main_typedLangOk`). -/

/-- Table facts of the typed forms (no binary-flagged tag has a typed-content rule; the OTA icon
    attribute start has no value prefix) hold for every language of the library. -/
theorem main_typedLangOk : Gen.main.all typedLangOk = true := by decide +kernel

/-- (a) Wireless Village integer elements: an OPAQUE of at most four octets — what
    `wbxml_encode_wv_integer` writes for every decimal / `0x` numeral below 2^32; any other text is
    left to the string encoding or refused with error 80 (C12 `wvint_text_never_changes_value`) — is
    accepted by `decode_wv_integer`, as the decimal numeral of its big-endian value. -/
theorem wv_integer_opaque_accepted (s item : Bytes) (h : Typed.encodeWvInt s = .ok (some item)) :
    ∃ p, item = serOpaque p ∧ p.length ≤ 4 ∧
      decodeWvInteger p = .ok (natDigits (Lemmas.Typed.beNat p)) := by
  obtain ⟨p, hp, hlen⟩ := encodeWvInt_shape' s item h
  exact ⟨p, hp, hlen, decodeWvInteger_le4 p hlen⟩

/-- … by value: the numeral denotes `v < 2^32`, the octets are the minimal big-endian form of `v`,
    and the parser delivers the NORMAL FORM of the text, `wvIntNorm s` = the decimal numeral of `v`
    without leading zeros (`0200` and `0xC8` come back as `200`); `wvIntNorm` is idempotent. -/
theorem wv_integer_by_value (s : Bytes) (v : Nat) (hn : Typed.wvIntNumeral s = some v) (hv : v < 2 ^ 32) :
    Typed.encodeWvInt s = .ok (some (serOpaque (Typed.wvIntOctets v))) ∧
    decodeWvInteger (Typed.wvIntOctets v) = .ok (wvIntNorm s) ∧ wvIntNorm s = Typed.decNat v ∧
    wvIntNorm (wvIntNorm s) = wvIntNorm s := by
  have hv' : v < 4294967296 := hv
  have hlen := (Lemmas.Typed.wvIntOctets_minimal v hv').1
  have hnorm : wvIntNorm s = Typed.decNat v := by simp only [wvIntNorm, hn, hv', ↓reduceIte]
  refine ⟨?_, ?_, hnorm, wvIntNorm_idem s⟩
  · have : ¬ v > 0xFFFFFFFF := by omega
    simp only [Typed.encodeWvInt, hn, this, ↓reduceIte]
    rw [opaqueItem_eq]; omega
  · rw [decodeWvInteger_le4 _ hlen, Lemmas.Typed.beNat_wvIntOctets v hv', natDigits_eq_decNat, hnorm]

/-- (b) Wireless Village date-time elements: the item is the inline string itself (zone `Z`, the
    extended format, years above 4095) or an OPAQUE of exactly six octets, which
    `decode_wv_datetime` accepts. -/
theorem wv_datetime_item_accepted (s : Bytes) (item : Typed.WvItem) (h : Typed.encodeWvDate s = .ok item) :
    item.bytes = serStr (.inl s) ∨ ∃ p b, item.bytes = serOpaque p ∧ p.length = 6 ∧ decodeWvDatetime p = .ok b := by
  rcases encodeWvDate_shape' s item h with h | ⟨p, hp, hlen⟩
  · exact Or.inl h
  · obtain ⟨b, hb⟩ := decodeWvDatetime_len6 p hlen
    exact Or.inr ⟨p, b, hp, hlen, hb⟩

/-- … by value (C12 `wvdate_roundtrip` through `decodeWvDatetime_eq_typed`): for every valid calendar
    date-time (years 0000–9999) and every zone designator, the text `YYYYMMDDThhmmss<zone>` goes out
    as the string itself or as a six-octet OPAQUE, and what the parser delivers reads as the SAME
    date-time and zone (zero seconds may be omitted in the delivered text). -/
theorem wv_datetime_by_value (d : Spec.Calendar.DateTime) (h : d.Valid) (z : UInt8)
    (hz : Spec.Calendar.isZone z = true) :
    ∃ item text, Typed.encodeWvDate (Spec.Calendar.basic d (some z)) = .ok item ∧
      (match item with
        | .inline s => s = text
        | .opaque p => decodeWvDatetime p = .ok text) ∧
      Spec.Calendar.readBasic text = some (d, some z) := by
  obtain ⟨item, text, h1, h2, h3⟩ := Props.C12.wvdate_roundtrip d h z hz
  refine ⟨item, text, h1, ?_, h3⟩
  cases item with
  | inline s => simp only [Typed.decodeWvDateItem] at h2; injection h2
  | «opaque» p =>
    simp only [Typed.decodeWvDateItem] at h2
    show decodeWvDatetime p = .ok text
    rw [decodeWvDatetime_eq_typed]; exact h2

/-- (c) SI `created` / `si-expires`, EMN `timestamp`: for text that satisfies `validDatetimeText`
    the OPAQUE `wbxml_encode_datetime` writes is empty or is accepted by `decode_datetime`. -/
theorem datetime_opaque_accepted (s item : Bytes) (hs : s.length < 2 ^ 32) (hv : validDatetimeText s = true)
    (h : Typed.encodeDatetime s = .ok item) :
    ∃ p, item = serOpaque p ∧ (p = [] ∨ ∃ b, Model.decodeDatetime p = .ok b) := by
  obtain ⟨p, hp, hpay, _⟩ := encodeDatetime_shape' s item hs h
  refine ⟨p, hp, ?_⟩
  simp only [validDatetimeText, hpay, Bool.or_eq_true, Bool.and_eq_true, decide_eq_true_eq, List.isEmpty_iff] at hv
  rcases hv with hv | hv
  · exact Or.inl hv
  · exact Or.inr (decodeDatetime_len p hv.1 hv.2)

/-- … and every canonical date-time `YYYY-MM-DDThh:mm:ssZ` of a valid calendar date (C12
    `datetime_payload_is_bcd`: four to seven octets) satisfies the hypothesis. -/
theorem validDatetimeText_canon (d : Spec.Calendar.DateTime) (h : d.Valid) :
    validDatetimeText (Spec.Calendar.canon d) = true := by
  have := Props.C12.datetime_payload_is_bcd d h
  simp only [validDatetimeText, this.1, List.length_take, Bool.or_eq_true, Bool.and_eq_true, decide_eq_true_eq]
  have hl : (Spec.Calendar.bcd7 d).length = 7 := by simp [Spec.Calendar.bcd7]
  rw [hl]
  right
  omega

/-- (d) base64-carried content (DRMREL `ds:KeyValue`, OTA `ICON`, SyncML `NextNonce`): a non-empty
    OPAQUE is accepted by `decode_base64_value` and delivered as the RFC 4648 encoding of its octets
    — the canonical re-encoding of the source text (white space and line wrapping gone). -/
theorem base64_opaque_accepted (p : Bytes) (h : p ≠ []) :
    decodeBase64Value p = .ok (Spec.Rfc4648.encode p) := decodeBase64Value_spec p h

/-- … by value: the parser delivers the normal form `b64Norm s` of the source text `s` — the RFC 4648
    encoding of the octets the text denotes once its white space is removed; `b64Norm` is idempotent. -/
theorem base64_by_value (s d : Bytes) (hd : Codec.b64DecodeE (b64TextW s) = .ok d) (hne : d ≠ []) :
    decodeBase64Value d = .ok (b64Norm s) ∧ b64Norm s = Spec.Rfc4648.encode d ∧ b64Norm (b64Norm s) = b64Norm s := by
  have hn : b64Norm s = Spec.Rfc4648.encode d := by
    simp only [b64Norm, hd, (Props.C11.b64_encode_eq_rfc4648 d).2]
  exact ⟨by rw [hn]; exact decodeBase64Value_spec d hne, hn, b64Norm_idem s⟩

/-- (c) by value: whenever the parser accepts the OPAQUE written for the text `s`, it delivers
    `datetimeNorm s`; for the canonical text of every valid calendar date-time (years 0000–9999) that
    is the text itself (C12 `datetime_roundtrip` through `decodeDatetime_eq_typed`), so the normal form
    is the identity — in particular idempotent — on valid canonical date-times. -/
theorem datetime_by_value (s p t : Bytes) (hp : Typed.datetimePayload s = .ok p) (ht : Model.decodeDatetime p = .ok t) :
    datetimeNorm s = t := by
  simp only [datetimeNorm, hp, ht]

theorem datetime_by_value_canon (d : Spec.Calendar.DateTime) (h : d.Valid) :
    ∃ p, Typed.datetimePayload (Spec.Calendar.canon d) = .ok p ∧
      Model.decodeDatetime p = .ok (Spec.Calendar.canon d) ∧
      datetimeNorm (Spec.Calendar.canon d) = Spec.Calendar.canon d := by
  have hk := Lemmas.Typed.keptOctets_range d
  have hl : ((Spec.Calendar.bcd7 d).take (Spec.Calendar.keptOctets d)).length = Spec.Calendar.keptOctets d := by
    have : (Spec.Calendar.bcd7 d).length = 7 := by simp [Spec.Calendar.bcd7]
    rw [List.length_take, this]; omega
  refine ⟨_, Lemmas.Typed.datetimePayload_canon d h, ?_, datetimeNorm_canon d h⟩
  rw [decodeDatetime_eq_typed _ (by rw [hl]; exact hk.1) (by rw [hl]; exact hk.2),
    Lemmas.Typed.decodeDatetime_take d h _ hk, Lemmas.Typed.truncTo_kept]

/-- **`enc_is_ser` with `Doc.WF`, all 29 languages, typed content included.** For every tree whose
    root is an element over its language and which satisfies the four source hypotheses (each a
    recorded finding — see the section comment): the output is `Spec.ser d` of a document that is
    WELL-FORMED for every reader configuration `pcfg` under which the header selects the tree's
    language and a deliverable character set. No language and no typed form is excluded. -/
theorem enc_is_ser_wf (cfg : X2WCfg) (t : Tree) (bs : Bytes) (lang : Lang) (r : Node)
    (hlang : t.lang = some lang) (hroot : t.root = some r)
    (hl : langOk lang = true) (htl : typedLangOk lang = true) (hover : treeOver lang t = true)
    (h : treeToWbxml cfg t = .ok bs)
    (hcdata : noCdataInTyped lang false r = true)
    (hdt : validDatetimeAttrs lang r = true)
    (hb64 : b64TextDecodes (dcfgOf cfg lang) none r = true)
    (hkv : keyValueTextFirst (dcfgOf cfg lang) none true r = true) :
    ∃ d : Doc, bs = Spec.ser d ∧
      ∀ pcfg : PCfg, headerLang pcfg d.hdr = some lang →
        (headerCharset pcfg d.hdr = 3 ∨ headerCharset pcfg d.hdr = 106) →
        pcfg.charsets.contains (headerCharset pcfg d.hdr) = true →
        cfg.version < 256 → bs.length < 4294967296 → d.WF pcfg := by
  obtain ⟨r', d, st, hr', hres⟩ := treeToWbxml_doc cfg t bs lang hlang hl hover h
  rw [hroot] at hr'; injection hr' with hr'; subst hr'
  exact ⟨d, hres.ser, fun pcfg h1 h2 h3 h4 h5 => hres.wfTyped hl htl hcdata hdt hb64 hkv pcfg h1 h2 h3 h4 h5⟩

/-- **"Decoding those bytes strictly by the specification"**, all languages, typed content
    included: with `parse_ser` (C04) the parser model accepts the encoder's output and delivers
    exactly the events the specification assigns to the document the encoder wrote. -/
theorem decodes_by_spec (cfg : X2WCfg) (t : Tree) (bs : Bytes) (lang : Lang) (r : Node)
    (hlang : t.lang = some lang) (hroot : t.root = some r)
    (hl : langOk lang = true) (htl : typedLangOk lang = true) (hover : treeOver lang t = true)
    (h : treeToWbxml cfg t = .ok bs)
    (hcdata : noCdataInTyped lang false r = true)
    (hdt : validDatetimeAttrs lang r = true)
    (hb64 : b64TextDecodes (dcfgOf cfg lang) none r = true)
    (hkv : keyValueTextFirst (dcfgOf cfg lang) none true r = true) :
    ∃ d : Doc, bs = Spec.ser d ∧
      ∀ pcfg : PCfg, headerLang pcfg d.hdr = some lang →
        (headerCharset pcfg d.hdr = 3 ∨ headerCharset pcfg d.hdr = 106) →
        pcfg.charsets.contains (headerCharset pcfg d.hdr) = true →
        cfg.version < 256 → bs.length < 4294967296 →
        (parse pcfg bs).result = .ok () ∧ (parse pcfg bs).events = Spec.events pcfg d := by
  obtain ⟨d, hs, hwf⟩ := enc_is_ser_wf cfg t bs lang r hlang hroot hl htl hover h hcdata hdt hb64 hkv
  refine ⟨d, hs, fun pcfg h1 h2 h3 h4 h5 => ?_⟩
  rw [hs]
  exact Props.C04.parse_ser pcfg d (hwf pcfg h1 h2 h3 h4 h5)

/-- In a language without typed content (20 of the 29) the four hypotheses hold for EVERY tree: there
    `enc_is_ser_wf` is `enc_is_ser_wf_partial`'s second alternative. -/
theorem typed_hyps_untyped (cfg : X2WCfg) (lang : Lang) (r : Node) (hu : untypedLang lang.id = true) :
    noCdataInTyped lang false r = true ∧ validDatetimeAttrs lang r = true ∧
    b64TextDecodes (dcfgOf cfg lang) none r = true ∧ keyValueTextFirst (dcfgOf cfg lang) none true r = true := by
  have := untyped_node (dcfgOf cfg lang) (by rw [dcfgOf_lang]; exact hu) r none true
  rw [dcfgOf_lang] at this
  exact this

/-! ## The specification's reading of the output is the source document -/

/-- The table facts of the source view hold for every language but ActiveSync (two names share a
    token there — the "earlier alias" normalisation of C03). -/
theorem main_tagSemOk : (Gen.main.filter (fun l => !(l.id == 2401) && !(l.id == 2402))).all tagSemOk = true := by
  decide +kernel
theorem main_attrNameSemOk : Gen.main.all attrNameSemOk = true := by decide +kernel

/-- **"Decoding those bytes strictly by the WBXML specification yields the source document under
    the normalisations of C03."** For a plain tree (no CDATA section, no embedded document) over
    a plain language (no typed content, no typed attribute values, alias-free tables: 21 of the 29
    entries of the main table — WML, WTA, CHANNEL, SL, CO, PROV, SyncML 1.0–1.2 with DevInf, MetInf
    and DM-DDF, ConML; see `plain_languages`): the output is `Spec.ser d` of a well-formed `d`, the parser model accepts it,
    and the events it delivers — which are the events the specification assigns to `d` — have
    exactly the XML-level view of the source tree (`srcToks`): the same element nesting and names,
    the same attributes with the same values in the same order (none for a language without
    attribute table), and the same character data octet for octet after `normText` (white-space
    handling, C-string reading, SyncML media-type rewriting) — independent of string table,
    version and anonymity. `_partial`: CDATA / embedded documents / the ActiveSync alias are outside,
    and so is typed content AT THE LEVEL OF THE WHOLE VIEW: for typed content `decodes_by_spec` gives
    "events = `Spec.events d`" for all 29 languages, and the per-form laws `wv_integer_by_value`,
    `wv_datetime_by_value`, `datetime_by_value(_canon)`, `base64_by_value` say what text comes back
    (the normal forms `wvIntNorm`, `datetimeNorm`, `b64Norm`, each idempotent), but they are not yet
    threaded through `srcToks` (the view of a typed text depends on `current_tag`, i.e. on the
    position — `srcToks` is position-free); the position-dependent view `vTree` of
    `denotes_source_typed` below does that for 26 languages (typed attribute values, DRMREL
    `ds:KeyValue`, binary-flagged elements, aliased names). The tree-level statement
    `treeOfWbxml … = norm t` additionally needs the builder's merging of adjacent character data (C03). -/
theorem denotes_source_partial (cfg : X2WCfg) (t : Tree) (bs : Bytes) (lang : Lang) (r : Node)
    (hlang : t.lang = some lang) (hroot : t.root = some r)
    (hl : langOk lang = true) (hover : treeOver lang t = true) (h : treeToWbxml cfg t = .ok bs)
    (hpn : plainNode r = true) (hpl : plainLang lang = true) (hnta : noTypedAttr lang.id = true)
    (hvs : valSemOk lang = true) (has : attrSemOk lang = true) (hts : tagSemOk lang = true)
    (han : attrNameSemOk lang = true) :
    ∃ d : Doc, bs = Spec.ser d ∧
      ∀ pcfg : PCfg, headerLang pcfg d.hdr = some lang →
        (headerCharset pcfg d.hdr = 3 ∨ headerCharset pcfg d.hdr = 106) →
        pcfg.charsets.contains (headerCharset pcfg d.hdr) = true →
        cfg.version < 256 → bs.length < 4294967296 →
        d.WF pcfg ∧ (parse pcfg bs).result = .ok () ∧
        (parse pcfg bs).events = Spec.events pcfg d ∧
        (parse pcfg bs).events.flatMap toks = srcToks (dcfgOf cfg lang) r := by
  obtain ⟨r', d, st, hr', hres⟩ := treeToWbxml_doc cfg t bs lang hlang hl hover h
  rw [hroot] at hr'; injection hr' with hr'; subst hr'
  refine ⟨d, hres.ser, ?_⟩
  intro pcfg h1 h2 h3 h4 h5
  obtain ⟨hnoq, hden⟩ := hres.denotes hl hpn hpl hnta hvs has hts han pcfg h1
  have hwf := hres.wf hl pcfg h1 h2 h3 h4 h5 (Or.inl hnoq)
  have hp := Props.C04.parse_ser pcfg d hwf
  rw [← hres.ser] at hp
  exact ⟨hwf, hp.1, hp.2, by rw [hp.2]; exact hden⟩

/-- **`denotes_source` with typed content and aliases: 26 of the 29 languages** (every language but
    Wireless Village 1.1/1.2 and OTA settings — for those three the encoder never uses a string
    table, and `C07.enc_opts_same_events` says that ALL their option tuples give the same events).
    For a plain tree (no CDATA section, no embedded document) under the four source hypotheses of
    `enc_is_ser_wf`: the output is `Spec.ser d` of a well-formed `d`, the parser accepts it, and the
    events it delivers have exactly the TYPED source view `vTree (dcfgOf cfg lang) r`, which is
    defined by recursion over the source tree and looks at no option but the white-space policy:

    * element names as the reader's table resolves the token written (`nameView`: for ActiveSync,
      where two names share a token, the first alias; the name itself everywhere else);
    * attributes in order with `vAttrValue`: the value as a C string, and for an SI `created` /
      `si-expires` or EMN `timestamp` value the text `decode_datetime` makes of the BCD payload the
      encoder makes of it (`datetime_by_value`: the same instant, `datetimeNorm`);
    * character data `vText`: `normText`; under a DRMREL `ds:KeyValue` token element the base64 text
      of the decoded octets (`base64_by_value`: `b64Norm`); the raw octets under a binary-flagged
      ActiveSync tag.
    `_partial` no more for the languages; what stays outside is CDATA / embedded documents (their
    position-dependent view: an OPAQUE whose octets depend on the version for an embedded document). -/
theorem denotes_source_typed (cfg : X2WCfg) (t : Tree) (bs : Bytes) (lang : Lang) (r : Node)
    (hlang : t.lang = some lang) (hroot : t.root = some r)
    (hl : langOk lang = true) (htl : typedLangOk lang = true) (hover : treeOver lang t = true)
    (h : treeToWbxml cfg t = .ok bs)
    (hcdata : noCdataInTyped lang false r = true) (hdt : validDatetimeAttrs lang r = true)
    (hb64 : b64TextDecodes (dcfgOf cfg lang) none r = true)
    (hkv : keyValueTextFirst (dcfgOf cfg lang) none true r = true)
    (hpn : plainNode r = true) (hnw : isWv lang.id = false) (hno : (lang.id == 1901) = false)
    (hvs : valSemOk lang = true) (has : attrSemOk lang = true) (han : attrNameSemOk lang = true) :
    ∃ d : Doc, bs = Spec.ser d ∧
      ∀ pcfg : PCfg, headerLang pcfg d.hdr = some lang →
        (headerCharset pcfg d.hdr = 3 ∨ headerCharset pcfg d.hdr = 106) →
        pcfg.charsets.contains (headerCharset pcfg d.hdr) = true →
        cfg.version < 256 → bs.length < 4294967296 →
        d.WF pcfg ∧ (parse pcfg bs).result = .ok () ∧
        (parse pcfg bs).events = Spec.events pcfg d ∧
        (parse pcfg bs).events.flatMap toks = vTree (dcfgOf cfg lang) r := by
  obtain ⟨r', d, st, hr', hres⟩ := treeToWbxml_doc cfg t bs lang hlang hl hover h
  rw [hroot] at hr'; injection hr' with hr'; subst hr'
  refine ⟨d, hres.ser, ?_⟩
  intro pcfg h1 h2 h3 h4 h5
  have hden := hres.denotesT hl htl hpn hnw hno hvs has han pcfg h1
  have hwf := hres.wfTyped hl htl hcdata hdt hb64 hkv pcfg h1 h2 h3 h4 h5
  have hp := Props.C04.parse_ser pcfg d hwf
  rw [← hres.ser] at hp
  exact ⟨hwf, hp.1, hp.2, by rw [hp.2]; exact hden⟩

/-- The languages `denotes_source_typed` applies to: all but Wireless Village 1.1/1.2 and OTA settings. -/
theorem typed_view_languages :
    (Gen.main.filter (fun l => isWv l.id || l.id == 1901)).map (·.id) = [1901, 2301, 2302] ∧
    (Gen.main.filter (fun l => !(isWv l.id || l.id == 1901))).length = 26 := by decide +kernel

/-- The languages `denotes_source_partial` applies to: the table facts `langOk`, `valSemOk`,
    `attrSemOk`, `attrNameSemOk` hold for all 29 entries and `tagSemOk` for all but ActiveSync
    (`main_*` above); `plainLang` and `noTypedAttr` leave out Wireless Village, DRMREL, SI, EMN and
    OTA — 21 languages remain. -/
theorem plain_languages :
    (Gen.main.filter (fun l => plainLang l && noTypedAttr l.id && !(l.id == 2401) && !(l.id == 2402))).map (·.id) =
    [1101, 1102, 1103, 1104, 1201, 1202, 1203, 1204, 1401, 1501, 1601, 2201, 2202, 2203, 2204, 2101, 2102, 2103,
     2001, 2002, 2501] := by decide +kernel

/-! ## Non-vacuity -/

/-- `<SyncML><SyncHdr><Meta><Format xmlns="syncml:metinf">b64</Format></Meta></SyncHdr></SyncML>`
    as a SyncML 1.2 tree: `Format` lives on code page 1 (MetInf). -/
def exTree : Tree where
  lang := some Gen.lang15
  origCharset := 106
  root := some (.elt (.token ⟨b!"SyncML", 0, 0x2D, 0⟩) [] [
    .elt (.token ⟨b!"SyncHdr", 0, 0x2C, 0⟩) [] [
      .elt (.token ⟨b!"Meta", 0, 0x1A, 0⟩) [] [
        .elt (.token ⟨b!"Format", 1, 0x07, 0⟩) [] [.text b!"b64"]]]])

def exCfg : X2WCfg := { version := 2 }

example : Gen.lang15 ∈ Gen.main := by decide +kernel
example : langOk Gen.lang15 = true := by decide +kernel
example : treeOver Gen.lang15 exTree = true := by decide +kernel

/-- The expected octets: version 1.2, public id 4609, UTF-8, empty string table, `SWITCH_PAGE 01`
    in front of `Format`, four ENDs. -/
example : (match treeToWbxml exCfg exTree with | .ok bs => bs | .error _ => []) =
    [0x02, 0xA4, 0x01, 0x6A, 0x00, 0x6D, 0x6C, 0x5A, 0x00, 0x01, 0x47, 0x03, 0x62, 0x36, 0x34, 0x00, 1, 1, 1, 1] := by
  decide +kernel

/-- The output is the serialisation of C04's example document, which is well-formed: the
    hypotheses of `decodes_by_spec_partial` are satisfiable. -/
example : (match treeToWbxml exCfg exTree with | .ok bs => bs | .error _ => []) = Spec.ser Props.C04.exSyncml := by
  decide +kernel

example : (Gen.main.filter (fun l => untypedLang l.id)).length = 20 := by decide +kernel

/-- The source view of the example tree, and the hypotheses of `denotes_source_partial` for it. -/
example : plainNode (.elt (.token ⟨b!"SyncML", 0, 0x2D, 0⟩) [] [.text b!" a "]) = true ∧
    srcToks (dcfgOf exCfg Gen.lang15) (.elt (.token ⟨b!"SyncML", 0, 0x2D, 0⟩) [] [.text b!" a "]) =
      [.start b!"SyncML" [], .ch 0x61, .stop b!"SyncML"] := by decide +kernel

example : opqsDoc Props.C04.exSyncml = [] ∧ headerLang Props.C04.exCfg Props.C04.exSyncml.hdr = some Gen.lang15 ∧
    headerCharset Props.C04.exCfg Props.C04.exSyncml.hdr = 106 := by decide +kernel

/-- A language without numeric identifier (OMA DM-DDF 1.2, id 1): the textual identifier goes to
    the string table (behind the literal name `x`, at offset 2) and the header says `00 02`;
    anonymous: `01` and only `x` in the table. -/
def exDdf : Tree where
  lang := some Gen.lang18
  origCharset := 106
  root := some (.elt (.literal b!"x") [] [])

example : ((match treeToWbxml {} exDdf with | .ok bs => bs | .error _ => []).take 5 =
      [0x03, 0x00, 0x02, 0x6A, 0x1D]) ∧
    ((match treeToWbxml { anonymous := true } exDdf with | .ok bs => bs | .error _ => []) =
      [0x03, 0x01, 0x6A, 0x02, 0x78, 0x00, 0x04, 0x00]) := by decide +kernel

/-! ### Non-vacuity of the typed theorems, and necessity of each hypothesis -/

/-- The reader configuration of the library (main table, nothing forced). -/
def exPc : PCfg := { main := Gen.main }

def outOf (cfg : X2WCfg) (t : Tree) : Bytes := match treeToWbxml cfg t with | .ok bs => bs | .error _ => []

/-- The `WBXMLError` a run ended with (0 = `WBXML_OK`). -/
def errOf (r : Except Err Unit) : Nat := match r with | .ok _ => 0 | .error (.code n) => n | .error _ => 1000

/-- Wireless Village 1.1: `<WV-CSP-Message><Code>…</Code></WV-CSP-Message>` (`Code` is an integer element). -/
def exWvRoot (kids : List Node) : Node :=
  .elt (.token ⟨b!"WV-CSP-Message", 0, 9, 0⟩) [] [.elt (.token ⟨b!"Code", 0, 11, 0⟩) [] kids]
def exWv (kids : List Node) : Tree := { lang := some Gen.lang24, origCharset := 106, root := some (exWvRoot kids) }

/-- `<Code>0200</Code>`: all hypotheses of `enc_is_ser_wf` hold … -/
example : langOk Gen.lang24 = true ∧ typedLangOk Gen.lang24 = true ∧ treeOver Gen.lang24 (exWv [.text b!"0200"]) = true ∧
    noCdataInTyped Gen.lang24 false (exWvRoot [.text b!"0200"]) = true ∧
    validDatetimeAttrs Gen.lang24 (exWvRoot [.text b!"0200"]) = true ∧
    b64TextDecodes (dcfgOf {} Gen.lang24) none (exWvRoot [.text b!"0200"]) = true ∧
    keyValueTextFirst (dcfgOf {} Gen.lang24) none true (exWvRoot [.text b!"0200"]) = true := by decide +kernel

/-- … the integer goes out as the one-octet OPAQUE `C8` (= 200), the parser accepts the document
    and delivers the decimal numeral `200`. -/
example : outOf {} (exWv [.text b!"0200"]) = [0x03, 0x10, 0x6A, 0x00, 0x49, 0x4B, 0xC3, 0x01, 0xC8, 0x01, 0x01] ∧
    (parse exPc (outOf {} (exWv [.text b!"0200"]))).result.toBool = true ∧
    Event.chars b!"200" ∈ (parse exPc (outOf {} (exWv [.text b!"0200"]))).events := by decide +kernel


/-- The hypotheses of `enc_is_ser_wf` / `decodes_by_spec` as one decidable statement. -/
def typedHyps (cfg : X2WCfg) (lang : Lang) (r : Node) : Bool :=
  noCdataInTyped lang false r && validDatetimeAttrs lang r && b64TextDecodes (dcfgOf cfg lang) none r &&
  keyValueTextFirst (dcfgOf cfg lang) none true r

/-- Text that is no numeral is left to the string encoding (no OPAQUE, nothing to check). -/
example : outOf {} (exWv [.text b!"abc"]) = [0x03, 0x10, 0x6A, 0x00, 0x49, 0x4B, 0x03, 0x61, 0x62, 0x63, 0x00, 0x01, 0x01] := by
  decide +kernel

/-- SI 1.0: `<si><indication created="…"/></si>`. -/
def exSiRoot (v : Bytes) : Node :=
  .elt (.token ⟨b!"si", 0, 5, 0⟩) [] [.elt (.token ⟨b!"indication", 0, 6, 0⟩) [⟨.token ⟨b!"created", none, 0, 10⟩, v⟩] []]
def exSi (v : Bytes) : Tree := { lang := some Gen.lang8, origCharset := 106, root := some (exSiRoot v) }

/-- `created="1999-06-25T15:23:15Z"`: the hypotheses hold, the value goes out as the seven BCD octets
    `19 99 06 25 15 23 15`, the parser accepts the document and delivers the same text. -/
example : langOk Gen.lang8 = true ∧ typedLangOk Gen.lang8 = true ∧
    treeOver Gen.lang8 (exSi (b!"1999-06-25T15:23:15Z" ++ [0])) = true ∧
    typedHyps {} Gen.lang8 (exSiRoot (b!"1999-06-25T15:23:15Z" ++ [0])) = true ∧
    outOf {} (exSi (b!"1999-06-25T15:23:15Z" ++ [0])) =
      [0x03, 0x05, 0x6A, 0x00, 0x45, 0x86, 0x0A, 0xC3, 0x07, 0x19, 0x99, 0x06, 0x25, 0x15, 0x23, 0x15, 0x01, 0x01] ∧
    (parse exPc (outOf {} (exSi (b!"1999-06-25T15:23:15Z" ++ [0])))).result.toBool = true ∧
    Event.startElt (.token ⟨b!"indication", 0, 6, 0⟩) [⟨.token ⟨b!"created", none, 0, 10⟩, b!"1999-06-25T15:23:15Z" ++ [0]⟩] ∈
      (parse exPc (outOf {} (exSi (b!"1999-06-25T15:23:15Z" ++ [0])))).events := by decide +kernel

/-- ActiveSync: `<ConversationId>` is binary-flagged (code page 15): the raw octets go out as one
    OPAQUE, which no typed rule touches. -/
def exAsRoot (s : Bytes) : Node := .elt (.token ⟨b!"ConversationId", 15, 32, 1⟩) [] [.text s]
def exAs (s : Bytes) : Tree := { lang := some Gen.lang27, origCharset := 106, root := some (exAsRoot s) }

example : langOk Gen.lang27 = true ∧ typedLangOk Gen.lang27 = true ∧ treeOver Gen.lang27 (exAs [1, 2, 3, 0, 255]) = true ∧
    typedHyps {} Gen.lang27 (exAsRoot [1, 2, 3, 0, 255]) = true ∧
    (outOf {} (exAs [1, 2, 3, 0, 255])).drop 38 = [0x00, 0x0F, 0x60, 0xC3, 0x05, 1, 2, 3, 0, 255, 0x01] ∧
    (parse exPc (outOf {} (exAs [1, 2, 3, 0, 255]))).result.toBool = true ∧
    Event.chars [1, 2, 3, 0, 255] ∈ (parse exPc (outOf {} (exAs [1, 2, 3, 0, 255]))).events := by decide +kernel

/-- Wireless Village date-time (zone `A`): six-octet OPAQUE, accepted. -/
def exWvDtRoot : Node :=
  .elt (.token ⟨b!"WV-CSP-Message", 0, 9, 0⟩) [] [.elt (.token ⟨b!"DateTime", 0, 17, 0⟩) [] [.text b!"20010925T134000A"]]

example : typedHyps {} Gen.lang24 exWvDtRoot = true ∧
    outOf {} { lang := some Gen.lang24, origCharset := 106, root := some exWvDtRoot } =
      [0x03, 0x10, 0x6A, 0x00, 0x49, 0x51, 0xC3, 0x06, 0x1F, 0x46, 0x72, 0xDA, 0x00, 0x41, 0x01, 0x01] ∧
    (parse exPc (outOf {} { lang := some Gen.lang24, origCharset := 106, root := some exWvDtRoot })).result.toBool = true := by
  decide +kernel

/-- DRMREL `<ds:KeyValue>QUJD</ds:KeyValue>`: OPAQUE `ABC`, delivered as `QUJD`. -/
def exDrmRoot (kids : List Node) : Node :=
  .elt (.token ⟨b!"o-ex:rights", 0, 5, 0⟩) [] [.elt (.token ⟨b!"ds:KeyValue", 0, 12, 0⟩) [] kids]
def exDrm (kids : List Node) : Tree := { lang := some Gen.lang13, origCharset := 106, root := some (exDrmRoot kids) }

example : langOk Gen.lang13 = true ∧ typedLangOk Gen.lang13 = true ∧ typedHyps {} Gen.lang13 (exDrmRoot [.text b!"QUJD"]) = true ∧
    outOf {} (exDrm [.text b!"QUJD"]) = [0x03, 0x0E, 0x6A, 0x00, 0x45, 0x4C, 0xC3, 0x03, 0x41, 0x42, 0x43, 0x01, 0x01] ∧
    Event.chars b!"QUJD" ∈ (parse exPc (outOf {} (exDrm [.text b!"QUJD"]))).events := by decide +kernel

/-! #### Each hypothesis is necessary

  In every witness the tree is over its language, the encoder SUCCEEDS, and all hypotheses but the
  one named hold — yet the parser model refuses the output (or delivers other text), so the
  conclusion of `decodes_by_spec` fails. -/

/-- `cdata-in-typed-element`: `<Code><![CDATA[12345]]></Code>` is sent as the five-octet OPAQUE
    `31 32 33 34 35`, which `decode_wv_integer` refuses (error 80: overflow); with two characters
    (`98`) it would be accepted — and read as 14648. -/
theorem cdata_in_typed_witness :
    treeOver Gen.lang24 (exWv [.cdata [.text b!"12345"]]) = true ∧
    noCdataInTyped Gen.lang24 false (exWvRoot [.cdata [.text b!"12345"]]) = false ∧
    validDatetimeAttrs Gen.lang24 (exWvRoot [.cdata [.text b!"12345"]]) = true ∧
    b64TextDecodes (dcfgOf {} Gen.lang24) none (exWvRoot [.cdata [.text b!"12345"]]) = true ∧
    keyValueTextFirst (dcfgOf {} Gen.lang24) none true (exWvRoot [.cdata [.text b!"12345"]]) = true ∧
    outOf {} (exWv [.cdata [.text b!"12345"]]) =
      [0x03, 0x10, 0x6A, 0x00, 0x49, 0x4B, 0xC3, 0x05, 0x31, 0x32, 0x33, 0x34, 0x35, 0x01, 0x01] ∧
    errOf (parse exPc (outOf {} (exWv [.cdata [.text b!"12345"]]))).result = 80 ∧
    Event.chars b!"14648" ∈ (parse exPc (outOf {} (exWv [.cdata [.text b!"98"]]))).events := by decide +kernel

/-- EMN 1.0: `<emn timestamp="…"/>`. -/
def exEmnRoot (v : Bytes) : Node := .elt (.token ⟨b!"emn", 0, 5, 0⟩) [⟨.token ⟨b!"timestamp", none, 0, 5⟩, v⟩] []
def exEmn (v : Bytes) : Tree := { lang := some Gen.lang12, origCharset := 106, root := some (exEmnRoot v) }

/-- `invalid-datetime-attribute-accepted`: `timestamp="12"` is accepted and sent as the one-octet
    OPAQUE `12`, which `decode_datetime` refuses (error 11); `timestamp="1"` (the recorded example) is
    sent as the EMPTY opaque, which the parser accepts — and delivers as the empty value. -/
theorem invalid_datetime_witness :
    treeOver Gen.lang12 (exEmn (b!"12" ++ [0])) = true ∧
    noCdataInTyped Gen.lang12 false (exEmnRoot (b!"12" ++ [0])) = true ∧
    validDatetimeAttrs Gen.lang12 (exEmnRoot (b!"12" ++ [0])) = false ∧
    b64TextDecodes (dcfgOf {} Gen.lang12) none (exEmnRoot (b!"12" ++ [0])) = true ∧
    keyValueTextFirst (dcfgOf {} Gen.lang12) none true (exEmnRoot (b!"12" ++ [0])) = true ∧
    outOf {} (exEmn (b!"12" ++ [0])) = [0x03, 0x0D, 0x6A, 0x00, 0x85, 0x05, 0xC3, 0x01, 0x12, 0x01] ∧
    errOf (parse exPc (outOf {} (exEmn (b!"12" ++ [0])))).result = 11 ∧
    outOf {} (exEmn (b!"1" ++ [0])) = [0x03, 0x0D, 0x6A, 0x00, 0x85, 0x05, 0xC3, 0x00, 0x01] ∧
    Event.startElt (.token ⟨b!"emn", 0, 5, 0⟩) [⟨.token ⟨b!"timestamp", none, 0, 5⟩, []⟩] ∈
      (parse exPc (outOf {} (exEmn (b!"1" ++ [0])))).events := by decide +kernel

/-- D5 (not base64 ⇒ empty OPAQUE): `<ds:KeyValue>!!!!</ds:KeyValue>` is accepted by the encoder and
    sent as `C3 00`, which `decode_base64_value` refuses (error 18, `WBXML_ERROR_B64_ENC`). -/
theorem b64_empty_opaque_witness :
    treeOver Gen.lang13 (exDrm [.text b!"!!!!"]) = true ∧
    noCdataInTyped Gen.lang13 false (exDrmRoot [.text b!"!!!!"]) = true ∧
    validDatetimeAttrs Gen.lang13 (exDrmRoot [.text b!"!!!!"]) = true ∧
    b64TextDecodes (dcfgOf {} Gen.lang13) none (exDrmRoot [.text b!"!!!!"]) = false ∧
    keyValueTextFirst (dcfgOf {} Gen.lang13) none true (exDrmRoot [.text b!"!!!!"]) = true ∧
    outOf {} (exDrm [.text b!"!!!!"]) = [0x03, 0x0E, 0x6A, 0x00, 0x45, 0x4C, 0xC3, 0x00, 0x01, 0x01] ∧
    errOf (parse exPc (outOf {} (exDrm [.text b!"!!!!"]))).result = 18 := by decide +kernel

/-- … the same for the `VALUE` of an OTA settings `PARM NAME="ICON"` (language forced: OTA documents
    carry the "unknown" public identifier). -/
def exOtaRoot (v : Bytes) : Node :=
  .elt (.token ⟨b!"CHARACTERISTIC-LIST", 0, 5, 0⟩) [] [.elt (.token ⟨b!"PARM", 0, 7, 0⟩)
    [⟨.token ⟨b!"NAME", none, 0, 16⟩, b!"ICON" ++ [0]⟩, ⟨.token ⟨b!"VALUE", none, 0, 17⟩, v⟩] []]
def exOta (v : Bytes) : Tree := { lang := some Gen.lang14, origCharset := 106, root := some (exOtaRoot v) }

theorem ota_icon_witness :
    typedHyps {} Gen.lang14 (exOtaRoot (b!"QUJD" ++ [0])) = true ∧
    (parse { main := Gen.main, langForced := 1901 } (outOf {} (exOta (b!"QUJD" ++ [0])))).result.toBool = true ∧
    b64TextDecodes (dcfgOf {} Gen.lang14) none (exOtaRoot (b!"!!" ++ [0])) = false ∧
    (outOf {} (exOta (b!"!!" ++ [0]))).drop 13 = [0x11, 0xC3, 0x00, 0x01, 0x01] ∧
    errOf (parse { main := Gen.main, langForced := 1901 } (outOf {} (exOta (b!"!!" ++ [0])))).result = 18 := by
  decide +kernel

/-- The document the encoder writes for `<ds:KeyValue><o-dd:uid/>QUJD</ds:KeyValue>`. -/
def exKvDoc : Doc where
  hdr := { version := 3, pubid := .num 14, charset := 106, strtbl := [] }
  pre := []
  post := []
  root := .mk none (.tok 0x05) [] (some [.elem (.mk none (.tok 0x0C) [] (some [
    .elem (.mk none (.tok 0x08) [] none), .opaque b!"ABC"]))])

/-- NEW defect candidate (`keyValueTextFirst`): text of a DRMREL `ds:KeyValue` BEHIND a child element
    is still base64-decoded by the encoder (which looks at the parent element), but the parser has
    cleared `current_tag` at the child's end tag and delivers the three octets `ABC` raw: the source
    text `QUJD` comes back as `ABC` (first child: `QUJD`, see the example above). The encoder
    succeeds, the parser succeeds, every other hypothesis holds, and the document written is not
    well-formed in the strict reading. -/
theorem keyvalue_text_after_child_witness :
    treeOver Gen.lang13 (exDrm [.elt (.token ⟨b!"o-dd:uid", 0, 8, 0⟩) [] [], .text b!"QUJD"]) = true ∧
    noCdataInTyped Gen.lang13 false (exDrmRoot [.elt (.token ⟨b!"o-dd:uid", 0, 8, 0⟩) [] [], .text b!"QUJD"]) = true ∧
    validDatetimeAttrs Gen.lang13 (exDrmRoot [.elt (.token ⟨b!"o-dd:uid", 0, 8, 0⟩) [] [], .text b!"QUJD"]) = true ∧
    b64TextDecodes (dcfgOf {} Gen.lang13) none (exDrmRoot [.elt (.token ⟨b!"o-dd:uid", 0, 8, 0⟩) [] [], .text b!"QUJD"]) = true ∧
    keyValueTextFirst (dcfgOf {} Gen.lang13) none true
      (exDrmRoot [.elt (.token ⟨b!"o-dd:uid", 0, 8, 0⟩) [] [], .text b!"QUJD"]) = false ∧
    outOf {} (exDrm [.elt (.token ⟨b!"o-dd:uid", 0, 8, 0⟩) [] [], .text b!"QUJD"]) = Spec.ser exKvDoc ∧
    ¬ exKvDoc.WF exPc ∧
    (parse exPc (Spec.ser exKvDoc)).result.toBool = true ∧
    Event.chars b!"QUJD" ∈ Spec.events exPc exKvDoc ∧
    Event.chars b!"ABC" ∈ (parse exPc (Spec.ser exKvDoc)).events ∧
    Event.chars b!"QUJD" ∉ (parse exPc (Spec.ser exKvDoc)).events := by decide +kernel

end Wbxml.Props.C06
