/-
  C06 — generated WBXML is grammatical and denotes the source.

  Model: `Model/EncWbxml*.lean` (`treeToWbxml` = `wbxml_tree_to_wbxml`, tied byte for byte to
  `src/wbxml_encoder.c` by the ENCW / X2W correspondence runs). Grammar: `Spec/Wbxml.lean`
  (`Spec.Doc`, `Spec.ser`, `Doc.WF`, `Spec.events`), whose reading by the parser model is C04's
  `parse_ser`.

  Every theorem is for ALL trees, option tuples and languages (induction over the tree,
  `Lemmas/EncW*.lean`); the hypotheses, where there are any, are
    `langOk lang`      decidable range facts of the language's tables — true for every entry of the
                       regenerated main table (`main_langOk`);
    `treeOver lang t`  the root is an element and token names are rows of that language's tables
                       (what the XML tree builder produces; a tree built through the API with rows
                       of another language is outside);
    `opqsDoc d = []`   (only for `Doc.WF`) no OPAQUE token was written — see `enc_is_ser_wf_partial`.
-/
import Wbxml.Lemmas.EncWConcat
import Wbxml.Props.C04
import Wbxml.Gen.Tables
set_option maxRecDepth 100000
namespace Wbxml.Props.C06
open Wbxml Wbxml.Model Wbxml.Spec Wbxml.Lemmas.EncW Wbxml.Lemmas.ParseSer
open Wbxml.Model.Codec (mbEncode)

/-- The table facts the encoder relies on (token ranges, code pages are octets, extension tables
    only for Wireless Village, `%Datetime` start tokens without value prefix, public ids in range)
    hold for every language of the library. -/
theorem main_langOk : Gen.main.all langOk = true := by decide +kernel

theorem langOk_of_main (l : Lang) (h : l ∈ Gen.main) : langOk l = true :=
  List.all_eq_true.mp main_langOk l h

/-! ## Header -/

/-- A successful run writes `serHeader h ++ body` where `h` is the header value `hdrOf` of the
    final encoder state and `body` the output of the node walk — for every tree. -/
theorem header_is_ser (cfg : X2WCfg) (t : Tree) (bs : Bytes) (h : treeToWbxml cfg t = .ok bs) :
    ∃ lang r st, t.lang = some lang ∧ t.root = some r ∧
      encNodeG (dcfgOf cfg lang) none true r (docStartW (dcfgOf cfg lang) r) = .ok st ∧
      bs = serHeader (hdrOf (dcfgOf cfg lang) st) ++ st.out := by
  obtain ⟨lang, r, st, hl, hr, hrun, hbs⟩ := treeToWbxml_ok h
  obtain ⟨hinv, hno⟩ := doc_final_inv _ r st hrun
  exact ⟨lang, r, st, hl, hr, hrun, by rw [hbs, fillHeaderW_ser _ _ hinv hno]⟩

/-- "The header carries the requested version": the first octet is the version token. -/
theorem header_version (cfg : X2WCfg) (t : Tree) (bs : Bytes) (h : treeToWbxml cfg t = .ok bs) :
    bs.head? = some (UInt8.ofNat cfg.version) ∧ bs[0]? = some (UInt8.ofNat cfg.version) := by
  obtain ⟨lang, r, st, _, _, _, hbs⟩ := header_is_ser cfg t bs h
  subst hbs
  simp [serHeader, hdrOf, byte]

/-- "…and UTF-8": after the public identifier comes the charset field `6A` (MIBenum 106) for every
    version but 1.0; a WBXML 1.0 header has no charset field. -/
theorem header_charset_utf8 (cfg : X2WCfg) (t : Tree) (bs : Bytes) (h : treeToWbxml cfg t = .ok bs) :
    ∃ lang st rest, t.lang = some lang ∧
      bs = UInt8.ofNat cfg.version :: (serPubid (hdrPubid (dcfgOf cfg lang) st) ++
        ((if cfg.version = 0 then [] else [0x6A]) ++ rest)) := by
  obtain ⟨lang, r, st, hl, _, _, hbs⟩ := header_is_ser cfg t bs h
  refine ⟨lang, st, mb (tblBytes (hdrOf (dcfgOf cfg lang) st).strtbl).length ++
    (tblBytes (hdrOf (dcfgOf cfg lang) st).strtbl ++ st.out), hl, ?_⟩
  rw [hbs]
  simp only [serHeader, hdrOf, dcfgOf_version, mb106, byte, List.cons_append, List.append_assoc]

/-- "The language's public identifier — numerically, or as an index to its text in the string
    table, or as 'unknown' when anonymity is requested". The identifier written is

    * `01` (unknown) when anonymity is requested;
    * otherwise the language's numeric identifier when it has one (≠ 1);
    * otherwise (numeric identifier 1) `00 idx` where `idx` is the offset of an entry of the final
      string table whose string is the language's textual identifier — or `01` when the language
      has no textual identifier either. -/
theorem header_publicid (cfg : X2WCfg) (lang : Lang) (st : WSt) :
    (cfg.anonymous = true → hdrPubid (dcfgOf cfg lang) st = .num 1) ∧
    (cfg.anonymous = false → lang.pub.wbxmlId ≠ 1 → hdrPubid (dcfgOf cfg lang) st = .num lang.pub.wbxmlId) ∧
    (cfg.anonymous = false → lang.pub.wbxmlId = 1 → lang.pub.xmlId = none →
      hdrPubid (dcfgOf cfg lang) st = .num 1) ∧
    (cfg.anonymous = false → lang.pub.wbxmlId = 1 → ∀ p, lang.pub.xmlId = some p →
      ∃ idx e, hdrPubid (dcfgOf cfg lang) st = .str idx ∧ e ∈ finalTbl (dcfgOf cfg lang) st ∧
        e.offset = idx ∧ e.str = p) := by
  refine ⟨?_, ?_, ?_, ?_⟩
  · intro ha
    simp [hdrPubid, hdrPid, ha]
  · intro ha hid
    simp [hdrPubid, hdrPid, ha, hid]
  · intro ha hid hx
    simp [hdrPubid, hdrPid, ha, hid, hx]
  · intro ha hid p hx
    have hp : hdrPid (dcfgOf cfg lang) = some p := by simp [hdrPid, ha, hid, hx]
    cases hu : (dcfgOf cfg lang).useStrtbl with
    | true =>
      obtain ⟨e, he, ho, hs⟩ := strtblAdd_idx st p none
      exact ⟨_, e, by simp [hdrPubid, hp, hu], by simpa [finalTbl, hp, hu] using he, ho, hs⟩
    | false =>
      exact ⟨0, ⟨p, 0, none⟩, by simp [hdrPubid, hp, hu], by simp [finalTbl, hp, hu], rfl, rfl⟩

/-- "An anonymous document's header carries the 'unknown' identifier and no public-identifier
    string": the identifier is `01` and the string table is exactly the one the body built
    (empty when the string table is disabled). -/
theorem anonymous_no_pid_string (cfg : X2WCfg) (lang : Lang) (st : WSt) (ha : cfg.anonymous = true) :
    hdrPubid (dcfgOf cfg lang) st = .num 1 ∧
    finalTbl (dcfgOf cfg lang) st = (if (dcfgOf cfg lang).useStrtbl then st.strtbl else []) := by
  have hp : hdrPid (dcfgOf cfg lang) = none := by simp [hdrPid, ha]
  exact ⟨(header_publicid cfg lang st).1 ha, by simp [finalTbl, hp]⟩

/-! ## String table -/

/-- "The declared string-table length is exact": the header's length field is `mb_u_int32` of the
    octet length of the table that follows, the table is the concatenation of its entries each
    followed by NUL, and every entry's offset is the sum of `length + 1` of the entries before it. -/
theorem strtbl_len_exact (cfg : X2WCfg) (t : Tree) (bs : Bytes) (h : treeToWbxml cfg t = .ok bs) :
    ∃ lang st pre, t.lang = some lang ∧
      bs = pre ++ (mbEncode (strtblBytes (finalTbl (dcfgOf cfg lang) st)).length ++
        (strtblBytes (finalTbl (dcfgOf cfg lang) st) ++ st.out)) ∧
      (strtblBytes (finalTbl (dcfgOf cfg lang) st)).length = tblLen (finalTbl (dcfgOf cfg lang) st) ∧
      OffsFrom 0 (finalTbl (dcfgOf cfg lang) st) := by
  obtain ⟨lang, r, st, hl, _, hrun, hbs⟩ := header_is_ser cfg t bs h
  obtain ⟨hinv, _⟩ := doc_final_inv _ r st hrun
  refine ⟨lang, st, byte cfg.version :: (serPubid (hdrPubid (dcfgOf cfg lang) st) ++
    (if cfg.version = 0 then [] else mb 106)), hl, ?_, strtblBytes_length _, finalTbl_offs _ _ hinv⟩
  rw [hbs]
  simp only [serHeader, hdrOf, dcfgOf_version, tblBytes_map, mb, List.cons_append, List.append_assoc]

/-- The state invariant behind it, on every tree and from every state that satisfies it: the node
    walk only appends entries, keeps `offset e = Σ (len + 1)` of earlier entries and
    `strtblLen = Σ (len + 1)`, and adds nothing when the string table is disabled. -/
theorem strtbl_invariant (c : WCfg) (parent : Option Name) (encEnd : Bool) (n : Node) (st st' : WSt)
    (hinv : StrInv st) (h : encNodeG c parent encEnd n st = .ok st') :
    StrInv st' ∧ st.strtbl <+: st'.strtbl ∧ (c.useStrtbl = false → st'.strtbl = st.strtbl) := by
  have t := encNode_tbl.1 c parent encEnd n st hinv st' h
  exact ⟨t.inv hinv, t.pre, t.no⟩

/-! ## The body: grammar, references, pages -/

/-- **`enc_is_ser`** (grammaticality). For every tree whose root is an element over its language:
    the output is `Spec.ser d` for a document `d` of the WBXML grammar, with the header `hdrOf`
    and no processing instructions. In particular attribute lists, elements and the document
    terminate and balance (`ends_balance`). -/
theorem enc_is_ser (cfg : X2WCfg) (t : Tree) (bs : Bytes) (lang : Lang) (hlang : t.lang = some lang)
    (hl : langOk lang = true) (hover : treeOver lang t = true) (h : treeToWbxml cfg t = .ok bs) :
    ∃ d : Doc, bs = Spec.ser d ∧ d.pre = [] ∧ d.post = [] ∧
      ∃ st, d.hdr = hdrOf (dcfgOf cfg lang) st := by
  obtain ⟨r, d, st, _, hres⟩ := treeToWbxml_doc cfg t bs lang hlang hl hover h
  exact ⟨d, hres.ser, hres.pre, hres.post, st, hres.hdr⟩

/-- "Attribute lists, elements and the document terminate and balance": what follows the header
    is exactly `serElem root` — one element, whose attribute list (when not empty) and content
    (when present) are each closed by their own END, recursively, and nothing after it. -/
theorem ends_balance (cfg : X2WCfg) (t : Tree) (bs : Bytes) (lang : Lang) (hlang : t.lang = some lang)
    (hl : langOk lang = true) (hover : treeOver lang t = true) (h : treeToWbxml cfg t = .ok bs) :
    ∃ (hd : Header) (root : Elem), bs = serHeader hd ++ serElem root := by
  obtain ⟨d, hs, hpre, hpost, _⟩ := enc_is_ser cfg t bs lang hlang hl hover h
  refine ⟨d.hdr, d.root, ?_⟩
  rw [hs, Spec.ser, serBody, hpre, hpost]
  simp [serPis]

/-- "Every string reference and literal index points at the first byte of a NUL-terminated
    entry": every index used by the document (STR_T in content and attribute values, literal tag
    and attribute names, the textual public identifier) is the offset of the `i`-th entry of the
    header's string table, i.e. the total length of the `i` entries (with their NULs) before it. -/
theorem refs_hit_entry_starts (cfg : X2WCfg) (t : Tree) (bs : Bytes) (lang : Lang) (hlang : t.lang = some lang)
    (hl : langOk lang = true) (hover : treeOver lang t = true) (h : treeToWbxml cfg t = .ok bs) :
    ∃ d : Doc, bs = Spec.ser d ∧
      ∀ off ∈ refsDoc d, ∃ i, i < d.hdr.strtbl.length ∧ off = (tblBytes (d.hdr.strtbl.take i)).length := by
  obtain ⟨r, d, st, _, hres⟩ := treeToWbxml_doc cfg t bs lang hlang hl hover h
  refine ⟨d, hres.ser, ?_⟩
  intro off ho
  obtain ⟨e, he, heo⟩ := hres.refs off ho
  obtain ⟨i, hi, hoff⟩ := offsFrom_index 0 _ (finalTbl_offs _ _ hres.inv) e he
  refine ⟨i, by rw [hres.hdr]; simpa [hdrOf] using hi, ?_⟩
  rw [← heo, hoff, hres.hdr]
  simp only [hdrOf, ← List.map_take, tblBytes_map, strtblBytes_length, Nat.zero_add]

/-- "Literal names only through the string table": with the string table disabled the body
    contains no string-table index at all (an unknown name is refused with error 100 instead). -/
theorem literals_only_via_strtbl (cfg : X2WCfg) (t : Tree) (bs : Bytes) (lang : Lang) (hlang : t.lang = some lang)
    (hl : langOk lang = true) (hover : treeOver lang t = true) (h : treeToWbxml cfg t = .ok bs)
    (hu : (dcfgOf cfg lang).useStrtbl = false) :
    ∃ d : Doc, bs = Spec.ser d ∧ refsElem d.root = [] := by
  obtain ⟨r, d, st, _, hres⟩ := treeToWbxml_doc cfg t bs lang hlang hl hover h
  refine ⟨d, hres.ser, ?_⟩
  have hempty := hres.no hu
  cases hr : refsElem d.root with
  | nil => rfl
  | cons off rest =>
    obtain ⟨e, he, _⟩ := hres.body.refs off (by rw [refsItems_single, refsItem_elem, hr]; exact List.mem_cons_self)
    rw [hempty] at he; cases he

/-- "SWITCH_PAGE emitted iff the page changes" — tag space: `wbxml_encode_tag_token` writes
    `00 page` exactly when the tracked tag page differs from the token's page, then the token, and
    tracks the token's page; the attribute page is not touched. -/
theorem switch_iff_page_changes_tag (token page : Nat) (st : WSt) :
    (tagTokenW token page st).out =
      st.out ++ ((if st.tagPage = page % 256 then [] else [0x00, UInt8.ofNat page]) ++ [UInt8.ofNat token]) ∧
    (tagTokenW token page st).tagPage = page % 256 ∧ (tagTokenW token page st).attrPage = st.attrPage := by
  have h := tagTokenW_out token page st
  refine ⟨?_, h.2.1, h.2.2.1⟩
  rw [h.1]; unfold swFor
  by_cases hp : st.tagPage = page % 256
  · simp [hp, serSw]
  · simp [hp, serSw, byte_mod]

/-- … and attribute space (attribute starts and attribute value tokens alike); the tag page is
    not touched: the two code spaces are tracked separately. -/
theorem switch_iff_page_changes_attr (token page : Nat) (st : WSt) :
    (attrTokenW token page st).out =
      st.out ++ ((if st.attrPage = page % 256 then [] else [0x00, UInt8.ofNat page]) ++ [UInt8.ofNat token]) ∧
    (attrTokenW token page st).attrPage = page % 256 ∧ (attrTokenW token page st).tagPage = st.tagPage := by
  have h := attrTokenW_out token page st
  refine ⟨?_, h.2, (attrTokenW_frame token page st).1⟩
  rw [h.1]; unfold swFor
  by_cases hp : st.attrPage = page % 256
  · simp [hp, serSw]
  · simp [hp, serSw, byte_mod]

/-- "Every token is emitted under its own code page": the tag written for a node is a row of the
    language's tag table preceded by `SWITCH_PAGE` exactly when the tracked page is not the row's
    page (or a literal through the string table), and the tracked page afterwards is the page a
    reader is in. -/
theorem token_under_own_page (c : WCfg) (name : Name) (hc ha : Bool) (st st' : WSt)
    (hl : langOk c.lang = true) (hn : nameOver c.lang name = true) (h : encTagW c name hc ha st = .ok st') :
    ∃ sw tag, st'.out = st.out ++ (serSw sw ++ serTag (tagFlags ha hc) tag) ∧
      st'.tagPage = swPage sw st.tagPage ∧ TagOk c st'.strtbl st.tagPage name.cName sw tag := by
  obtain ⟨sw, tag, h1, h2, _, _, _, h6⟩ := encTagW_spec c name hc ha st st' hl hn h
  exact ⟨sw, tag, h1, h2, h6⟩

/-- The tracked pages always equal the pages a reader has after reading the output so far: for
    the whole document, the pages `Spec.evElem` computes from (0, 0) over the root element are the
    encoder's final `tagCodePage` / `attrCodePage`; `Lemmas.EncW.Seg.pages` is the same statement
    for every node and every intermediate state. -/
theorem tracked_pages_are_reader_pages (cfg : X2WCfg) (t : Tree) (bs : Bytes) (lang : Lang)
    (hlang : t.lang = some lang) (hl : langOk lang = true) (hover : treeOver lang t = true)
    (h : treeToWbxml cfg t = .ok bs) :
    ∃ (d : Doc) (st : WSt), bs = Spec.ser d ∧ ∀ ctx, (evElem ctx ⟨0, 0⟩ d.root).2 = ⟨st.tagPage, st.attrPage⟩ := by
  obtain ⟨r, d, st, _, hres⟩ := treeToWbxml_doc cfg t bs lang hlang hl hover h
  refine ⟨d, st, hres.ser, ?_⟩
  intro ctx
  have := hres.body.pages ctx none
  rw [(docStartW_fields _ r).2.1, (docStartW_fields _ r).2.2.1, evItems_single_pages, evItem_elem] at this
  exact this

/-- "Multi-byte integer writer": every length, index and identifier of `Spec.ser` is written by
    `mbEncode`, which uses the least number of 7-bit groups (C11). -/
theorem mb_uint_minimal (v : Nat) (hv : v < 2 ^ 32) :
    1 ≤ (mbEncode v).length ∧ (mbEncode v).length ≤ 5 ∧ v < 2 ^ (7 * (mbEncode v).length) ∧
    ∀ j, 1 ≤ j → v < 2 ^ (7 * j) → (mbEncode v).length ≤ j := Props.C11.mb_minimal v hv

/-! ## Values: "split into tokens / table references / inline strings" denotes the source -/

/-- Reader-side table facts used below (first row with a value token's page and token has the same
    text; first row with an attribute start's page and token has the same value prefix) hold for
    every language of the library. -/
theorem main_valSemOk : Gen.main.all valSemOk = true := by decide +kernel
theorem main_attrSemOk : Gen.main.all attrSemOk = true := by decide +kernel

/-- One pass of the splitting loop of `wbxml_encode_value_element_buffer` (needle = an attribute
    value token's text or a string-table entry) keeps the concatenation of the element values,
    for ANY needle and ANY list — "independent of which strings the table heuristics select". -/
theorem split_preserves_concat (c : WCfg) (tbl : List StrEntry) (tb : Bytes) (hres : Resolves tb tbl)
    (l out : List VElt) (hl : ∀ e ∈ l, VOk c tbl e) :
    (∀ vals, (∀ r ∈ vals, VOk c tbl (.tok r)) → splitByValues vals l = .ok out →
      out.flatMap (vval tb) = l.flatMap (vval tb)) ∧
    (∀ es, (∀ e ∈ es, e ∈ tbl) → splitByStrtbl es l = .ok out →
      out.flatMap (vval tb) = l.flatMap (vval tb)) :=
  ⟨fun vals hv h => splitByValues_concat c tbl tb vals hv l out hl h,
   fun es he h => splitByStrtbl_concat c tbl tb hres es he l out hl h⟩

/-- The table octets the header announces resolve the encoder's table at every moment of the run:
    every NUL-free entry stands at its offset (so `STR_T offset` reads back the entry). -/
theorem header_table_resolves (c : WCfg) (st : WSt) (hinv : StrInv st) (hu : c.useStrtbl = true) :
    Resolves (strtblBytes (finalTbl c st)) st.strtbl := resolves_final c st hinv hu

/-- **Character data is preserved** (every language but Wireless Village and DRMREL, whose typed
    content is C12's): the items written for a text are inline strings / table references whose
    character data, read with any string table that resolves the encoder's, concatenates to the
    text (after the documented SyncML media-type rewriting) — with or without string table. -/
theorem text_preserved (c : WCfg) (parent : Option Name) (s : Bytes) (st st' : WSt)
    (hs : nulFree s = true) (hl : langOk c.lang = true) (hnw : isWv c.lang.id = false)
    (hnd : (c.lang.id == 1801) = false) (h : encContentValueW c parent s st = .ok st') :
    ∃ items, st' = st.emit (serItems items) ∧
      ∀ ctx : Ctx, Resolves ctx.tbl st.strtbl → ∀ own pg,
        s ≠ [] → charsCat (evItems ctx own pg items).1 = syncmlTypeText c.lang.id s := by
  obtain ⟨items, h1, _, _, _, h4⟩ := encContentValueW_text c parent s st st' hs hl hnw hnd h
  exact ⟨items, h1, fun ctx hr own pg => (h4 ctx hr own pg).1⟩

/-- **Attribute values are preserved**: what is written for an attribute is `attrStart *attrValue`
    of the grammar such that the value prefix of the start token (as a reader resolves it: first row
    with that page and token) followed by the texts of the pieces (value tokens, inline strings,
    table references) is exactly the source value read as a C string — whenever no OPAQUE was
    written (typed `%Datetime` / OTA values are C12's). -/
theorem attr_value_preserved (c : WCfg) (na : Option (List Attr)) (a : Attr) (st st' : WSt)
    (ha : attrOver c.lang a = true) (attrs : List AttrRow) (hattrs : c.lang.attrs = some attrs)
    (h : encAttrW c na a st = .ok st') :
    ∃ sa : Attribute, st'.out = st.out ++ serAttr sa ∧
      ∀ ctx : Ctx, ctx.lang = c.lang → langOk c.lang = true → valSemOk c.lang = true →
        attrSemOk c.lang = true → Resolves ctx.tbl st'.strtbl → opqsAttr sa = [] →
        (astartName ctx st.attrPage sa.start).2.1 ++
          (avalsText ctx (astartName ctx st.attrPage sa.start).2.2 sa.vals).1 = cstrOf a.value := by
  obtain ⟨sa, hsa⟩ := encAttrW_spec c na a st st' ha attrs hattrs h
  exact ⟨sa, hsa.out, hsa.value⟩

/-! ## Well-formedness and decoding by the specification -/

/-- **`enc_is_ser` with `Doc.WF`**: for EVERY output of a language without typed content
    (`untypedLang`: all but Wireless Village, DRMREL, SyncML, SI, EMN, OTA — 20 of the 29 entries of
    the main table; binary-flagged elements, CDATA sections and embedded documents included), and
    for the outputs of the other languages that contain no OPAQUE token. `_partial`: the
    full-strength statement has no such condition. It is FALSE as it stands for typed content —
    the encoder writes opaques the strict reading rejects (empty base64 for DRMREL `ds:KeyValue` /
    OTA `ICON` text that is not base64, a truncated `%Datetime` for `timestamp="1"`, CDATA inside
    a Wireless-Village integer element: known findings `invalid-datetime-attribute-accepted`,
    `cdata-in-typed-element`, D5 of DESIGN_NOTES/EncWbxml.md) — so the extension needs the typed
    round-trip laws of C12 as side conditions on each opaque; the string / token / literal /
    string-table / code-page machinery is covered completely here.

    `pcfg` is any reader configuration under which the header selects the tree's language and a
    character set in which strings can be delivered (e.g. `{ main := Gen.main }` for a language
    whose public identifier is unique, or the language forced). -/
theorem enc_is_ser_wf_partial (cfg : X2WCfg) (t : Tree) (bs : Bytes) (lang : Lang) (hlang : t.lang = some lang)
    (hl : langOk lang = true) (hover : treeOver lang t = true) (h : treeToWbxml cfg t = .ok bs) :
    ∃ d : Doc, bs = Spec.ser d ∧
      ∀ pcfg : PCfg, headerLang pcfg d.hdr = some lang →
        (headerCharset pcfg d.hdr = 3 ∨ headerCharset pcfg d.hdr = 106) →
        pcfg.charsets.contains (headerCharset pcfg d.hdr) = true →
        cfg.version < 256 → bs.length < 4294967296 →
        (opqsDoc d = [] ∨ untypedLang lang.id = true) → d.WF pcfg := by
  obtain ⟨r, d, st, _, hres⟩ := treeToWbxml_doc cfg t bs lang hlang hl hover h
  exact ⟨d, hres.ser, fun pcfg h1 h2 h3 h4 h5 h6 => hres.wf hl pcfg h1 h2 h3 h4 h5 h6⟩

/-- "Decoding those bytes strictly by the specification": with `parse_ser` (C04) the parser model
    accepts the encoder's output and delivers exactly the events the specification assigns to the
    document the encoder wrote. -/
theorem decodes_by_spec_partial (cfg : X2WCfg) (t : Tree) (bs : Bytes) (lang : Lang) (hlang : t.lang = some lang)
    (hl : langOk lang = true) (hover : treeOver lang t = true) (h : treeToWbxml cfg t = .ok bs) :
    ∃ d : Doc, bs = Spec.ser d ∧
      ∀ pcfg : PCfg, headerLang pcfg d.hdr = some lang →
        (headerCharset pcfg d.hdr = 3 ∨ headerCharset pcfg d.hdr = 106) →
        pcfg.charsets.contains (headerCharset pcfg d.hdr) = true →
        cfg.version < 256 → bs.length < 4294967296 →
        (opqsDoc d = [] ∨ untypedLang lang.id = true) →
        (parse pcfg bs).result = .ok () ∧ (parse pcfg bs).events = Spec.events pcfg d := by
  obtain ⟨d, hs, hwf⟩ := enc_is_ser_wf_partial cfg t bs lang hlang hl hover h
  refine ⟨d, hs, fun pcfg h1 h2 h3 h4 h5 h6 => ?_⟩
  rw [hs]
  exact Props.C04.parse_ser pcfg d (hwf pcfg h1 h2 h3 h4 h5 h6)

/-! ## The specification's reading of the output is the source document -/

/-- The table facts of the source view hold for every language but ActiveSync (two names share a
    token there — the "earlier alias" normalisation of C03). -/
theorem main_tagSemOk : (Gen.main.filter (fun l => !(l.id == 2401) && !(l.id == 2402))).all tagSemOk = true := by
  decide +kernel
theorem main_attrNameSemOk : Gen.main.all attrNameSemOk = true := by decide +kernel

/-- **"Decoding those bytes strictly by the WBXML specification yields the source document under
    the normalisations of C03."** For a plain tree (no CDATA section, no embedded document) over
    a plain language (no typed content, no typed attribute values, alias-free tables: 21 of the 29
    entries of the main table — WML, WTA, CHANNEL, SL, CO, PROV, SyncML 1.0–1.2 with DevInf, MetInf
    and DM-DDF, ConML; see `plain_languages`): the output is `Spec.ser d` of a well-formed `d`, the parser model accepts it,
    and the events it delivers — which are the events the specification assigns to `d` — have
    exactly the XML-level view of the source tree (`srcToks`): the same element nesting and names,
    the same attributes with the same values in the same order (none for a language without
    attribute table), and the same character data octet for octet after `normText` (white-space
    handling, C-string reading, SyncML media-type rewriting) — independent of string table,
    version and anonymity. `_partial`: CDATA / embedded documents / typed content (C12) / the
    ActiveSync alias are outside; the tree-level statement `treeOfWbxml … = norm t` additionally
    needs the builder's merging of adjacent character data. -/
theorem denotes_source_partial (cfg : X2WCfg) (t : Tree) (bs : Bytes) (lang : Lang) (r : Node)
    (hlang : t.lang = some lang) (hroot : t.root = some r)
    (hl : langOk lang = true) (hover : treeOver lang t = true) (h : treeToWbxml cfg t = .ok bs)
    (hpn : plainNode r = true) (hpl : plainLang lang = true) (hnta : noTypedAttr lang.id = true)
    (hvs : valSemOk lang = true) (has : attrSemOk lang = true) (hts : tagSemOk lang = true)
    (han : attrNameSemOk lang = true) :
    ∃ d : Doc, bs = Spec.ser d ∧
      ∀ pcfg : PCfg, headerLang pcfg d.hdr = some lang →
        (headerCharset pcfg d.hdr = 3 ∨ headerCharset pcfg d.hdr = 106) →
        pcfg.charsets.contains (headerCharset pcfg d.hdr) = true →
        cfg.version < 256 → bs.length < 4294967296 →
        d.WF pcfg ∧ (parse pcfg bs).result = .ok () ∧
        (parse pcfg bs).events = Spec.events pcfg d ∧
        (parse pcfg bs).events.flatMap toks = srcToks (dcfgOf cfg lang) r := by
  obtain ⟨r', d, st, hr', hres⟩ := treeToWbxml_doc cfg t bs lang hlang hl hover h
  rw [hroot] at hr'; injection hr' with hr'; subst hr'
  refine ⟨d, hres.ser, ?_⟩
  intro pcfg h1 h2 h3 h4 h5
  obtain ⟨hnoq, hden⟩ := hres.denotes hl hpn hpl hnta hvs has hts han pcfg h1
  have hwf := hres.wf hl pcfg h1 h2 h3 h4 h5 (Or.inl hnoq)
  have hp := Props.C04.parse_ser pcfg d hwf
  rw [← hres.ser] at hp
  exact ⟨hwf, hp.1, hp.2, by rw [hp.2]; exact hden⟩

/-- The languages `denotes_source_partial` applies to: the table facts `langOk`, `valSemOk`,
    `attrSemOk`, `attrNameSemOk` hold for all 29 entries and `tagSemOk` for all but ActiveSync
    (`main_*` above); `plainLang` and `noTypedAttr` leave out Wireless Village, DRMREL, SI, EMN and
    OTA — 21 languages remain. -/
theorem plain_languages :
    (Gen.main.filter (fun l => plainLang l && noTypedAttr l.id && !(l.id == 2401) && !(l.id == 2402))).map (·.id) =
    [1101, 1102, 1103, 1104, 1201, 1202, 1203, 1204, 1401, 1501, 1601, 2201, 2202, 2203, 2204, 2101, 2102, 2103,
     2001, 2002, 2501] := by decide +kernel

/-! ## Non-vacuity -/

/-- `<SyncML><SyncHdr><Meta><Format xmlns="syncml:metinf">b64</Format></Meta></SyncHdr></SyncML>`
    as a SyncML 1.2 tree: `Format` lives on code page 1 (MetInf). -/
def exTree : Tree where
  lang := some Gen.lang15
  origCharset := 106
  root := some (.elt (.token ⟨b!"SyncML", 0, 0x2D, 0⟩) [] [
    .elt (.token ⟨b!"SyncHdr", 0, 0x2C, 0⟩) [] [
      .elt (.token ⟨b!"Meta", 0, 0x1A, 0⟩) [] [
        .elt (.token ⟨b!"Format", 1, 0x07, 0⟩) [] [.text b!"b64"]]]])

def exCfg : X2WCfg := { version := 2 }

example : Gen.lang15 ∈ Gen.main := by decide +kernel
example : langOk Gen.lang15 = true := by decide +kernel
example : treeOver Gen.lang15 exTree = true := by decide +kernel

/-- The expected octets: version 1.2, public id 4609, UTF-8, empty string table, `SWITCH_PAGE 01`
    in front of `Format`, four ENDs. -/
example : (match treeToWbxml exCfg exTree with | .ok bs => bs | .error _ => []) =
    [0x02, 0xA4, 0x01, 0x6A, 0x00, 0x6D, 0x6C, 0x5A, 0x00, 0x01, 0x47, 0x03, 0x62, 0x36, 0x34, 0x00, 1, 1, 1, 1] := by
  decide +kernel

/-- The output is the serialisation of C04's example document, which is well-formed: the
    hypotheses of `decodes_by_spec_partial` are satisfiable. -/
example : (match treeToWbxml exCfg exTree with | .ok bs => bs | .error _ => []) = Spec.ser Props.C04.exSyncml := by
  decide +kernel

example : (Gen.main.filter (fun l => untypedLang l.id)).length = 20 := by decide +kernel

/-- The source view of the example tree, and the hypotheses of `denotes_source_partial` for it. -/
example : plainNode (.elt (.token ⟨b!"SyncML", 0, 0x2D, 0⟩) [] [.text b!" a "]) = true ∧
    srcToks (dcfgOf exCfg Gen.lang15) (.elt (.token ⟨b!"SyncML", 0, 0x2D, 0⟩) [] [.text b!" a "]) =
      [.start b!"SyncML" [], .ch 0x61, .stop b!"SyncML"] := by decide +kernel

example : opqsDoc Props.C04.exSyncml = [] ∧ headerLang Props.C04.exCfg Props.C04.exSyncml.hdr = some Gen.lang15 ∧
    headerCharset Props.C04.exCfg Props.C04.exSyncml.hdr = 106 := by decide +kernel

/-- A language without numeric identifier (OMA DM-DDF 1.2, id 1): the textual identifier goes to
    the string table (behind the literal name `x`, at offset 2) and the header says `00 02`;
    anonymous: `01` and only `x` in the table. -/
def exDdf : Tree where
  lang := some Gen.lang18
  origCharset := 106
  root := some (.elt (.literal b!"x") [] [])

example : ((match treeToWbxml {} exDdf with | .ok bs => bs | .error _ => []).take 5 =
      [0x03, 0x00, 0x02, 0x6A, 0x1D]) ∧
    ((match treeToWbxml { anonymous := true } exDdf with | .ok bs => bs | .error _ => []) =
      [0x03, 0x01, 0x6A, 0x02, 0x78, 0x00, 0x04, 0x00]) := by decide +kernel

end Wbxml.Props.C06
