/-
  C03 — XML → WBXML → XML round trip: the composition statements that follow from C06
  (`treeToWbxml` writes `Spec.ser d`) and C04 (`parse (ser d)` delivers `Spec.events d`).

  `RT` at tree level is `treeOfWbxml main fuel forced meta (treeToWbxml cfg t)`.
  Proved here:
    * the round trip keeps the language and announces UTF-8 (`rt_header`, every tree);
    * for outputs without OPAQUE token the round-trip tree is the tree the builder makes of the
      SPECIFICATION's reading of the document the encoder wrote (`rt_is_spec_tree_partial`);
    * the builder over the specification's events reconstructs the tree read off the grammar value
      (`build_reconstructs`, every item kind, no element called `Data`);
    * TREE level: `rt_preserves_partial` — for plain trees of plain languages `RT cfg t` is the
      explicit normalisation `normNode` of `t`, up to `canon` (token vs literal representation of
      names); `norm_idempotent`, `norm_idempotent_merged` (+ two counterexamples showing the
      hypotheses are needed);
    * TREE level, exact and typed: `rt_preserves_typed_partial` — for plain trees of 26 languages
      `RT cfg t` IS `normNodeTyped` of `t` (table rows of names included, typed content in its
      typed normal form, elements called `Data` under `dataIsNormal`); the table facts behind "the
      same row comes back" (`tag_tables_names_uniq`, `tag_tables_self_find`,
      `tag_tables_tokens_uniq_partial`, `exact_row_main`); `build_reconstructs_data`;
      `norm_typed_idempotent`;
    * SECOND trip, Expat as a parameter (`ReadsBack`): `printed_is_render_partial`,
      `xml_read_back_partial`, `rt2_tree_partial`, `rt_same_norm_partial`, `rt2_is_rt1_partial`
      (converting twice = converting once at tree and event level), `rt2_is_rt1_ns_partial` (the
      same for the languages WITH a namespace table, `ReadsBackNs`, exact tree equality), and the
      witnesses `rt2_bytes_differ_hollow` / `rt2_bytes_differ_adjacent_text` that octet-by-octet
      equality of the two WBXML documents is false as it stands.
  Not proved: see the note at the end.
-/
import Wbxml.Props.C06
import Wbxml.Lemmas.EncWRt
import Wbxml.Lemmas.RtNorm
import Wbxml.Lemmas.RtSecond
import Wbxml.Lemmas.RtData
import Wbxml.Lemmas.RtNs
import Wbxml.Props.C08
set_option maxRecDepth 100000
namespace Wbxml.Props.C03
open Wbxml Wbxml.Model Wbxml.Spec Wbxml.Lemmas.EncW Wbxml.Lemmas.ParseSer Wbxml.Lemmas.Rt

/-- **`rt_header`.** For EVERY tree the encoder accepts: the output starts with a header `hd` of
    the requested version announcing UTF-8, and whenever `wbxml_tree_from_wbxml` accepts the
    output under a reader configuration for which `hd` selects the tree's language (numeric or
    textual public identifier found in `main`, or the language forced), the resulting tree has
    that language (the main-table entry with its id) and the header's character set (UTF-8 for
    versions 1.1–1.3). -/
theorem rt_header (cfg : X2WCfg) (t : Tree) (bs : Bytes) (lang : Lang) (hlang : t.lang = some lang)
    (hl : langOk lang = true) (h : treeToWbxml cfg t = .ok bs) :
    ∃ (hd : Header) (body : Bytes), bs = serHeader hd ++ body ∧ hd.version = cfg.version ∧ hd.charset = 106 ∧
      ∀ (main : List Lang) (f forced metaCs : Nat) (t' : Tree),
        headerLang (pcfgOf main forced metaCs) hd = some lang →
        (headerCharset (pcfgOf main forced metaCs) hd = 3 ∨ headerCharset (pcfgOf main forced metaCs) hd = 106) →
        cfg.version < 256 → bs.length < 4294967295 →
        treeOfWbxml main (f + 1) forced metaCs bs = .ok t' →
        t'.lang = main.find? (fun x => x.id == lang.id) ∧
        t'.origCharset = headerCharset (pcfgOf main forced metaCs) hd := by
  obtain ⟨lang', r, fs, hl', hr, hrun, hbs⟩ := C06.header_is_ser cfg t bs h
  rw [hlang] at hl'; injection hl' with hl'; subst hl'
  obtain ⟨hinv, hno⟩ := doc_final_inv _ r fs hrun
  refine ⟨hdrOf (dcfgOf cfg lang) fs, fs.out, hbs, by simp [hdrOf], rfl, ?_⟩
  intro main f forced metaCs t' hsel hcs hver hsize hrt
  have htbl : (strtblBytes (finalTbl (dcfgOf cfg lang) fs)).length < 4294967295 := by
    have : (tblBytes (hdrOf (dcfgOf cfg lang) fs).strtbl).length ≤ bs.length := by
      rw [hbs, serHeader]
      simp only [List.length_append, List.length_cons]
      omega
    have e : tblBytes (hdrOf (dcfgOf cfg lang) fs).strtbl = strtblBytes (finalTbl (dcfgOf cfg lang) fs) :=
      tblBytes_map _
    rw [e] at this
    omega
  have hwf := hdrOf_wf (dcfgOf cfg lang) fs hinv (by rw [dcfgOf_lang]; exact hl) (pcfgOf main forced metaCs)
    hcs (charsets_ok main forced metaCs _ hcs) (by rw [dcfgOf_version]; exact hver) htbl
  have hph := Props.C04.parse_ser_header (pcfgOf main forced metaCs) _ hwf lang hsel fs.out
  obtain ⟨s, l, hh, h1, h2⟩ := treeOfWbxml_header main f forced metaCs bs t' hrt
  rw [hbs] at hh
  have heq := hh.symm.trans hph
  injection heq with heq
  injection heq with hs hl2
  subst hl2
  refine ⟨h1, ?_⟩
  rw [h2, hs]
  rfl

/-- In the library's main table a language id selects its own entry. -/
theorem main_find_self : ∀ l ∈ Gen.main, Gen.main.find? (fun x => x.id == l.id) = some l := by decide +kernel

/-- `rt_header` for the library's table: the round-trip tree has exactly the source tree's
    language entry. -/
theorem rt_header_main (cfg : X2WCfg) (t : Tree) (bs : Bytes) (lang : Lang) (hlang : t.lang = some lang)
    (hm : lang ∈ Gen.main) (h : treeToWbxml cfg t = .ok bs) :
    ∃ (hd : Header) (body : Bytes), bs = serHeader hd ++ body ∧
      ∀ (f forced metaCs : Nat) (t' : Tree),
        headerLang (pcfgOf Gen.main forced metaCs) hd = some lang →
        (headerCharset (pcfgOf Gen.main forced metaCs) hd = 3 ∨ headerCharset (pcfgOf Gen.main forced metaCs) hd = 106) →
        cfg.version < 256 → bs.length < 4294967295 →
        treeOfWbxml Gen.main (f + 1) forced metaCs bs = .ok t' → t'.lang = t.lang := by
  obtain ⟨hd, body, hbs, _, _, hrt⟩ := rt_header cfg t bs lang hlang (C06.langOk_of_main lang hm) h
  refine ⟨hd, body, hbs, ?_⟩
  intro f forced metaCs t' h1 h2 h3 h4 h5
  rw [(hrt Gen.main f forced metaCs t' h1 h2 h3 h4 h5).1, main_find_self lang hm, hlang]

/-- The tree `wbxml_tree_from_wbxml` builds from an event list (what it does after parsing). -/
def treeOfEvents (main : List Lang) (emb : Nat → Bytes → Option Tree) (evs : List Event) : Except Err Tree :=
  let b := evs.foldl (buildStep main emb) {}
  match b.error with
  | some e => .error (.code e)
  | none => .ok { lang := b.lang, origCharset := b.charset, root := b.root }

/-- How `wbxml_tree_from_wbxml` reads embedded documents at fuel `f`. -/
def embOf (main : List Lang) (f : Nat) : Nat → Bytes → Option Tree := fun cs bs =>
  match treeOfWbxml main f 0 cs bs with
  | .ok t => some t
  | .error _ => none

/-- **Round trip = the specification's reading of what the encoder wrote** (`_partial`: languages
    without typed content, or outputs without OPAQUE token, see `C06.enc_is_ser_wf_partial`). The tree `RT cfg t` is the tree the
    builder makes of `Spec.events pcfg d`, where `d` is the grammar value with `bs = Spec.ser d`:
    the library's tolerant parser adds nothing to, and removes nothing from, the strict reading of
    the encoder's output. -/
theorem rt_is_spec_tree_partial (cfg : X2WCfg) (t : Tree) (bs : Bytes) (lang : Lang) (hlang : t.lang = some lang)
    (hl : langOk lang = true) (hover : treeOver lang t = true) (h : treeToWbxml cfg t = .ok bs) :
    ∃ d : Doc, bs = Spec.ser d ∧
      ∀ (main : List Lang) (f forced metaCs : Nat),
        headerLang (pcfgOf main forced metaCs) d.hdr = some lang →
        (headerCharset (pcfgOf main forced metaCs) d.hdr = 3 ∨ headerCharset (pcfgOf main forced metaCs) d.hdr = 106) →
        cfg.version < 256 → bs.length < 4294967296 → (opqsDoc d = [] ∨ untypedLang lang.id = true) →
        treeOfWbxml main (f + 1) forced metaCs bs =
          treeOfEvents main (embOf main f) (Spec.events (pcfgOf main forced metaCs) d) := by
  obtain ⟨d, hs, hdec⟩ := C06.decodes_by_spec_partial cfg t bs lang hlang hl hover h
  refine ⟨d, hs, ?_⟩
  intro main f forced metaCs h1 h2 h3 h4 h5
  obtain ⟨hres, hev⟩ := hdec (pcfgOf main forced metaCs) h1 h2 (charsets_ok main forced metaCs _ h2) h3 h4 h5
  rw [treeOfWbxml]
  have hp : parse { main := main, langForced := forced, metaCharset := metaCs } bs = parse (pcfgOf main forced metaCs) bs := rfl
  rw [hp, hres, hev]
  rfl

/-- **Round trip = the specification's reading of what the encoder wrote — all 29 languages, typed
    content included**, under the four source hypotheses of `C06.enc_is_ser_wf` (each a recorded
    finding: `cdata-in-typed-element`, `invalid-datetime-attribute-accepted`, D5 "text that is not
    base64 becomes an empty OPAQUE", DRMREL `ds:KeyValue` text behind a child element). -/
theorem rt_is_spec_tree (cfg : X2WCfg) (t : Tree) (bs : Bytes) (lang : Lang) (r : Node)
    (hlang : t.lang = some lang) (hroot : t.root = some r)
    (hl : langOk lang = true) (htl : typedLangOk lang = true) (hover : treeOver lang t = true)
    (h : treeToWbxml cfg t = .ok bs)
    (hcdata : noCdataInTyped lang false r = true) (hdt : validDatetimeAttrs lang r = true)
    (hb64 : b64TextDecodes (dcfgOf cfg lang) none r = true)
    (hkv : keyValueTextFirst (dcfgOf cfg lang) none true r = true) :
    ∃ d : Doc, bs = Spec.ser d ∧
      ∀ (main : List Lang) (f forced metaCs : Nat),
        headerLang (pcfgOf main forced metaCs) d.hdr = some lang →
        (headerCharset (pcfgOf main forced metaCs) d.hdr = 3 ∨ headerCharset (pcfgOf main forced metaCs) d.hdr = 106) →
        cfg.version < 256 → bs.length < 4294967296 →
        treeOfWbxml main (f + 1) forced metaCs bs =
          treeOfEvents main (embOf main f) (Spec.events (pcfgOf main forced metaCs) d) := by
  obtain ⟨d, hs, hdec⟩ := C06.decodes_by_spec cfg t bs lang r hlang hroot hl htl hover h hcdata hdt hb64 hkv
  refine ⟨d, hs, ?_⟩
  intro main f forced metaCs h1 h2 h3 h4
  obtain ⟨hres, hev⟩ := hdec (pcfgOf main forced metaCs) h1 h2 (charsets_ok main forced metaCs _ h2) h3 h4
  rw [treeOfWbxml]
  have hp : parse { main := main, langForced := forced, metaCharset := metaCs } bs = parse (pcfgOf main forced metaCs) bs := rfl
  rw [hp, hres, hev]
  rfl

/-- **Round trip at the level of parser events** (`_partial`: plain trees of plain languages, see
    `C06.denotes_source_partial`): what the library's own parser — as `wbxml_tree_from_wbxml` runs
    it — delivers on the encoder's output has exactly the XML-level view of the source tree:
    same element nesting and names, same attributes with the same values in the same order, same
    character data after `normText` (white space trimmed / white-space-only text dropped unless
    kept, C-string reading, SyncML media-type rewriting). -/
theorem rt_events_view_partial (cfg : X2WCfg) (t : Tree) (bs : Bytes) (lang : Lang) (r : Node)
    (hlang : t.lang = some lang) (hroot : t.root = some r)
    (hl : langOk lang = true) (hover : treeOver lang t = true) (h : treeToWbxml cfg t = .ok bs)
    (hpn : plainNode r = true) (hpl : plainLang lang = true) (hnta : noTypedAttr lang.id = true)
    (hvs : valSemOk lang = true) (has : attrSemOk lang = true) (hts : tagSemOk lang = true)
    (han : attrNameSemOk lang = true) :
    ∃ d : Doc, bs = Spec.ser d ∧
      ∀ (main : List Lang) (forced metaCs : Nat),
        headerLang (pcfgOf main forced metaCs) d.hdr = some lang →
        (headerCharset (pcfgOf main forced metaCs) d.hdr = 3 ∨ headerCharset (pcfgOf main forced metaCs) d.hdr = 106) →
        cfg.version < 256 → bs.length < 4294967296 →
        (parse (pcfgOf main forced metaCs) bs).result = .ok () ∧
        (parse (pcfgOf main forced metaCs) bs).events.flatMap toks = srcToks (dcfgOf cfg lang) r := by
  obtain ⟨d, hs, hk⟩ := C06.denotes_source_partial cfg t bs lang r hlang hroot hl hover h hpn hpl hnta hvs has hts han
  refine ⟨d, hs, ?_⟩
  intro main forced metaCs h1 h2 h3 h4
  obtain ⟨_, r1, _, r3⟩ := hk (pcfgOf main forced metaCs) h1 h2 (charsets_ok main forced metaCs _ h2) h3 h4
  exact ⟨r1, r3⟩

/-! ## Tree level -/

/-- **Builder reconstruction** (item 1 of the former "missing" list). Over the events the
    specification assigns to a document `d` in which no element is called `Data`, the tree builder
    of `wbxml_tree_from_wbxml` (`buildStep`, `addKid`) succeeds and delivers exactly the tree read
    off `d` by structural recursion (`treeOfEventsSpec` / `nodeOfElem`): one element node per
    element with the reader's name and attributes, one text node per maximal run of non-empty
    character data, processing instructions dropped. Every item kind of the grammar is covered
    (strings, entities, extensions, opaque data all arrive as character data); the only
    restriction is `noDataEvents`, which makes `syncmlDataType` answer `normal` at every
    character-data event (no CDATA node, no embedded tree). -/
theorem build_reconstructs (main : List Lang) (emb : Nat → Bytes → Option Tree) (pcfg : PCfg) (d : Doc) (t : Tree)
    (ht : treeOfEventsSpec main pcfg d = some t) (hnd : noDataEvents (Spec.events pcfg d) = true) :
    treeOfEvents main emb (Spec.events pcfg d) = .ok t := by
  unfold treeOfEventsSpec at ht
  cases hl : headerLang pcfg d.hdr with
  | none => rw [hl] at ht; cases ht
  | some l =>
    rw [hl] at ht; injection ht with ht; subst ht
    unfold treeOfEvents
    rw [run_doc main emb pcfg d l hl hnd]

/-- The tree read off a document has the XML-level view of the document's events, and is in
    normal form (no empty text node, no two adjacent text nodes, at any depth). -/
theorem spec_tree_view (pcfg : PCfg) (d : Doc) (l : Lang) (hl : headerLang pcfg d.hdr = some l) :
    ntoks (rootOfDoc pcfg d l) = (Spec.events pcfg d).flatMap toks ∧ nfNode (rootOfDoc pcfg d l) = true :=
  ⟨(events_toks pcfg d l hl).symm, nf_nodeOfElem _ _ _⟩

/-- **`rt_preserves_partial`: the round trip at tree level.** For a plain tree (`plainNode`: no
    CDATA section, no embedded document) of a plain language (the hypotheses of
    `rt_events_view_partial`) in which no element is called `Data` (`noDataNode`):
    `wbxml_tree_from_wbxml` accepts the encoder's output under every reader configuration for
    which the header selects the language, for every fuel, and the tree it delivers has

      * the language entry the header selects and the header's character set,
      * a root `r'` in normal form (`nfNode`) with `canon r' = normNode (dcfgOf cfg lang) r`,
        whose view `ntoks r'` is the view of the parser's events:

    the round-trip tree IS the normalised source tree — same element nesting, same names, same
    attributes with the same values (C strings with the handlers' trailing NUL) in the same order
    (none without attribute table), character data `normText`-ed per source text node, empty text
    dropped, adjacent text merged — up to `canon`, which forgets only whether a name is
    represented as a table row or as a literal. `r'` is also given explicitly: the tree read off
    the grammar value the encoder wrote (`rootOfDoc`).
    `_partial`: see the note at the end of the file (exact table rows of names, `Data`, CDATA /
    embedded documents, typed content, ActiveSync). -/
theorem rt_preserves_partial (cfg : X2WCfg) (t : Tree) (bs : Bytes) (lang : Lang) (r : Node)
    (hlang : t.lang = some lang) (hroot : t.root = some r)
    (hl : langOk lang = true) (hover : treeOver lang t = true) (h : treeToWbxml cfg t = .ok bs)
    (hpn : plainNode r = true) (hpl : plainLang lang = true) (hnta : noTypedAttr lang.id = true)
    (hvs : valSemOk lang = true) (has : attrSemOk lang = true) (hts : tagSemOk lang = true)
    (han : attrNameSemOk lang = true) (hnd : noDataNode r = true) :
    ∃ d : Doc, bs = Spec.ser d ∧
      ∀ (main : List Lang) (f forced metaCs : Nat),
        headerLang (pcfgOf main forced metaCs) d.hdr = some lang →
        (headerCharset (pcfgOf main forced metaCs) d.hdr = 3 ∨ headerCharset (pcfgOf main forced metaCs) d.hdr = 106) →
        cfg.version < 256 → bs.length < 4294967296 →
        ∃ r' : Node,
          treeOfWbxml main (f + 1) forced metaCs bs =
            .ok { lang := main.find? (fun x => x.id == lang.id),
                  origCharset := headerCharset (pcfgOf main forced metaCs) d.hdr, root := some r' } ∧
          r' = rootOfDoc (pcfgOf main forced metaCs) d lang ∧ nfNode r' = true ∧
          canon r' = normNode (dcfgOf cfg lang) r ∧
          (parse (pcfgOf main forced metaCs) bs).events.flatMap toks = ntoks r' := by
  obtain ⟨d, hs, hk⟩ := C06.denotes_source_partial cfg t bs lang r hlang hroot hl hover h hpn hpl hnta hvs has hts han
  refine ⟨d, hs, ?_⟩
  intro main f forced metaCs h1 h2 h3 h4
  obtain ⟨_, hres, hev, hview⟩ := hk (pcfgOf main forced metaCs) h1 h2 (charsets_ok main forced metaCs _ h2) h3 h4
  rw [hev] at hview
  have hndE : noDataEvents (Spec.events (pcfgOf main forced metaCs) d) = true := by
    rw [noDataEvents_toks, hview, noData_srcToks, hnd]
  have hrElt : isElt r = true := by
    simp only [treeOver, hroot, Bool.and_eq_true] at hover
    exact hover.1
  have hrOver : nodeOver lang r = true := by
    simp only [treeOver, hroot, Bool.and_eq_true] at hover
    exact hover.2
  refine ⟨rootOfDoc (pcfgOf main forced metaCs) d lang, ?_, rfl, nf_nodeOfElem _ _ _, ?_,
    by rw [hev]; exact events_toks _ d lang h1⟩
  · rw [treeOfWbxml]
    have hp : parse { main := main, langForced := forced, metaCharset := metaCs } bs =
        parse (pcfgOf main forced metaCs) bs := rfl
    simp only [hp, hres, hev]
    rw [run_doc main _ (pcfgOf main forced metaCs) d lang h1 hndE]
  · have hnames : namesOk (dcfgOf cfg lang).lang r = true := by
      rw [dcfgOf_lang]; exact namesOk_of_over lang hts han r hrOver
    have hv : ntoks (rootOfDoc (pcfgOf main forced metaCs) d lang) = ntoks (normNode (dcfgOf cfg lang) r) := by
      rw [← events_toks _ d lang h1, hview, ntoks_normNode _ r hpn hnames]
    have := canon_eq_of_ntoks (rootOfDoc (pcfgOf main forced metaCs) d lang) _ (nf_nodeOfElem _ _ _)
      (nf_normNode (dcfgOf cfg lang) r hpn (isText_of_isElt r hrElt)) (isText_nodeOfElem _ _ _)
      (by cases r <;> first | rfl | cases hrElt) hv
    rw [this, canon_normNode]

/-- **Idempotence of the normalisation** — the algebraic core of "the second round trip is the
    identity": `normNode c (normNode c n) = normNode c n` for EVERY node (any depth, CDATA sections
    and embedded documents included — they are left alone) whose text nodes outside CDATA are
    NUL-free (`textsNulFree`: what an XML parser delivers), in every language but the three SyncML
    ones. Both hypotheses are needed, see `norm_not_idempotent_nul` and
    `norm_not_idempotent_syncml`; for SyncML see `norm_idempotent_merged`. -/
theorem norm_idempotent (c : WCfg) (hs : isSyncml c.lang.id = false) (n : Node) (h : textsNulFree n = true) :
    normNode c (normNode c n) = normNode c n := normNode_idem c hs n h

/-- **Idempotence in every language**, SyncML included, for trees with NUL-free text in which no
    two text nodes are adjacent siblings (`mergedNode`: what both tree builders deliver, since
    `wbxml_tree_add_node` merges adjacent character data). -/
theorem norm_idempotent_merged (c : WCfg) (n : Node) (h : textsNulFree n = true) (hm : mergedNode n = true) :
    normNode c (normNode c n) = normNode c n := normNode_idem_merged c n h hm

/-! ## The second trip (Expat as a parameter) -/

/-- **The text `ReadsBack` is about.** `wbxml_tree_to_xml` in compact or canonical mode, for a plain
    tree of a language without namespace table (not SyncML, no binary-flagged element name),
    writes the XML header followed by `renderNode` of the root: `<name` + ` attr="escaped value"`…
    + `/>` for an element without children, otherwise `>` children `</name>`; escaped
    `printedText` for a text node; nothing else. `xmlEventsOf` is what XML 1.0 (and namespace
    processing of the reserved `xml:` prefix) makes a conforming reader report for that text. -/
theorem printed_is_render_partial (cfg : W2XCfg) (fuel : Nat) (t : Tree) (lang : Lang) (r : Node) (xml : Bytes)
    (hlang : t.lang = some lang) (hroot : t.root = some r) (hg : cfg.gen ≠ 1) (hns : lang.ns = none)
    (hs : isSyncml lang.id = false) (hp : plainNode r = true) (hnb : noBinaryNames r = true)
    (h : treeToXml cfg fuel t = .ok xml) : xml = xmlHeader lang cfg.gen ++ renderNode (xcfgOf cfg lang) r :=
  treeToXml_render cfg fuel t lang r xml hlang hroot hg hns hs hp hnb h

/-- **Reading the printed tree back** (`_partial`: plain trees in normal form, languages without
    namespace table, compact or canonical generation — the scope of `ReadsDoc`).
    Let `t'` be any tree with a root element in normal form (`nfNode`: what `rt_preserves_partial`
    delivers) whose element names contain no `|` and are not `Data` (`readable`) and whose
    attributes survive printing (`attrsReadable`: no TAB / LF in a value unless the output is
    canonical, no name that starts with the XML namespace URI). Assume `ReadsBack env xml c t'`:
    **the recorded Expat run for the printed text `xml` succeeded and is a conforming reading of
    the printed tree** — start/end events with the printed names and attributes, character data as
    printed in any chunking, no CDATA (`Reads`; the canonical such sequence is `xmlEventsOf c t'`).
    This is the one assumption about Expat, which is not modelled; it is what the C05 check
    validates on the implementation side (recorded Expat runs of the printer's output against the
    tree). Then `wbxml_tree_from_xml` succeeds, finds the language through the printed document type
    (`docTypeFinds`), and its tree `t''` is `readNode` of `t'`, which equals `t'` up to `normNode`
    for every encoder configuration whose white-space policy absorbs the printer's (`flagsOk`). -/
theorem xml_read_back_partial (main : List Lang) (lang : Lang) (xcfg : W2XCfg) (wc : WCfg) (t' : Tree) (r' : Node)
    (fuel k : Nat) (xml : Bytes) (env : List (Bytes × ExpatRun))
    (hroot : t'.root = some r') (hpl : plainLang lang = true) (hdt : docTypeFinds main lang = true)
    (hnf : nfNode r' = true) (helt : isElt r' = true) (hre : readable r' = true)
    (har : attrsReadable (xcfgOf xcfg lang) r' = true)
    (hwl : wc.lang = lang) (hs : isSyncml lang.id = false) (hf : flagsOk (xcfgOf xcfg lang) wc = true)
    (hx : treeToXml xcfg fuel t' = .ok xml) (hrb : ReadsBack env xml (xcfgOf xcfg lang) t') :
    ∃ r'' : Node,
      treeOfXml main env (k + 1) xml = .ok { lang := some lang, origCharset := 0, root := some r'' } ∧
      r'' = readNode lang (xcfgOf xcfg lang) r' ∧ normNode wc r'' = normNode wc r' := by
  refine ⟨readNode lang (xcfgOf xcfg lang) r', ?_, rfl, ?_⟩
  · exact treeOfXml_readsBack main hpl rfl hdt t' r' hroot hre helt env xml (treeToXml_ne_nil xcfg fuel t' xml hx) hrb k
  · exact norm_read_node lang (xcfgOf xcfg lang) wc hwl (by rw [hwl]; exact hs) hf r' hnf hre har

/-- **The second trip at tree level.** For a source tree `t` as in `rt_preserves_partial`, with
    NUL-free text, in a language that is not SyncML: let `t'` be the round-trip tree
    (`wbxml_tree_from_wbxml` of the encoder's output). If `t'` is printed (`wbxml_tree_to_xml`,
    compact or canonical, white-space policy absorbed by the encoder's) and Expat reads the text
    back (`ReadsBack`, see `xml_read_back_partial`), then `wbxml_tree_from_xml` delivers a tree
    `t''` with `normNode c t'' = normNode c t' = normNode c t = canon t'`: the second trip starts
    from a tree that is, up to the normalisation, the first round-trip tree — and that tree is
    already normal (`norm_idempotent`). The hypotheses `readable` / `attrsReadable` are stated for
    the normalised source tree (they only look at XML names and values). -/
theorem rt2_tree_partial (cfg : X2WCfg) (t : Tree) (bs : Bytes) (lang : Lang) (r : Node)
    (hlang : t.lang = some lang) (hroot : t.root = some r)
    (hl : langOk lang = true) (hover : treeOver lang t = true) (h : treeToWbxml cfg t = .ok bs)
    (hpn : plainNode r = true) (hpl : plainLang lang = true) (hnta : noTypedAttr lang.id = true)
    (hvs : valSemOk lang = true) (has : attrSemOk lang = true) (hts : tagSemOk lang = true)
    (han : attrNameSemOk lang = true) (hnd : noDataNode r = true)
    (hsy : isSyncml lang.id = false) (hnul : textsNulFree r = true) :
    ∃ d : Doc, bs = Spec.ser d ∧
      ∀ (main : List Lang) (f forced metaCs : Nat),
        headerLang (pcfgOf main forced metaCs) d.hdr = some lang →
        (headerCharset (pcfgOf main forced metaCs) d.hdr = 3 ∨ headerCharset (pcfgOf main forced metaCs) d.hdr = 106) →
        cfg.version < 256 → bs.length < 4294967296 →
        ∃ (t' : Tree) (r' : Node), treeOfWbxml main (f + 1) forced metaCs bs = .ok t' ∧ t'.root = some r' ∧
          canon r' = normNode (dcfgOf cfg lang) r ∧
          ∀ (xcfg : W2XCfg) (fuel k : Nat) (xml : Bytes) (env : List (Bytes × ExpatRun)),
            docTypeFinds main lang = true → flagsOk (xcfgOf xcfg lang) (dcfgOf cfg lang) = true →
            readable (normNode (dcfgOf cfg lang) r) = true →
            attrsReadable (xcfgOf xcfg lang) (normNode (dcfgOf cfg lang) r) = true →
            treeToXml xcfg fuel t' = .ok xml → ReadsBack env xml (xcfgOf xcfg lang) t' →
            ∃ r'' : Node,
              treeOfXml main env (k + 1) xml = .ok { lang := some lang, origCharset := 0, root := some r'' } ∧
              normNode (dcfgOf cfg lang) r'' = normNode (dcfgOf cfg lang) r' ∧
              normNode (dcfgOf cfg lang) r'' = normNode (dcfgOf cfg lang) r ∧
              normNode (dcfgOf cfg lang) r'' = canon r' := by
  obtain ⟨d, hs, hk⟩ := rt_preserves_partial cfg t bs lang r hlang hroot hl hover h hpn hpl hnta hvs has hts han hnd
  refine ⟨d, hs, ?_⟩
  intro main f forced metaCs h1 h2 h3 h4
  obtain ⟨r', ht', hr', hnf, hcanon, _⟩ := hk main f forced metaCs h1 h2 h3 h4
  refine ⟨_, r', ht', rfl, hcanon, ?_⟩
  intro xcfg fuel k xml env hdt hf hre har hx hrb
  have hre' : readable r' = true := by rw [← readable_canon, hcanon]; exact hre
  have har' : attrsReadable (xcfgOf xcfg lang) r' = true := by rw [← attrsReadable_canon, hcanon]; exact har
  have helt : isElt r' = true := by rw [hr']; exact isElt_nodeOfElem _ _ _
  obtain ⟨r'', hx'', _, hn⟩ := xml_read_back_partial main lang xcfg (dcfgOf cfg lang) _ r' fuel k xml env rfl hpl hdt
    hnf helt hre' har' (dcfgOf_lang cfg lang) hsy hf hx hrb
  have hidem : normNode (dcfgOf cfg lang) r' = normNode (dcfgOf cfg lang) r := by
    rw [← normNode_canon, hcanon]
    exact normNode_idem _ (by rw [dcfgOf_lang]; exact hsy) r hnul
  exact ⟨r'', hx'', hn, hn.trans hidem, by rw [hn, hidem, hcanon]⟩

/-- **Trees with the same normal form have the same round trip.** Two plain trees of one language
    (table hypotheses `rtLangOk` = those of `rt_preserves_partial`) whose normalisations agree are
    encoded to documents whose event views agree and whose round-trip trees agree up to `canon`,
    whatever the two encodings look like octet by octet (text split differently, different string
    tables, empty content written or not). -/
theorem rt_same_norm_partial (cfg : X2WCfg) (lang : Lang) (hlk : rtLangOk lang = true)
    (t1 t2 : Tree) (r1 r2 : Node) (bs1 bs2 : Bytes)
    (hlang1 : t1.lang = some lang) (hroot1 : t1.root = some r1) (hover1 : treeOver lang t1 = true)
    (h1 : treeToWbxml cfg t1 = .ok bs1) (hpn1 : plainNode r1 = true) (hnd1 : noDataNode r1 = true)
    (hlang2 : t2.lang = some lang) (hroot2 : t2.root = some r2) (hover2 : treeOver lang t2 = true)
    (h2 : treeToWbxml cfg t2 = .ok bs2) (hpn2 : plainNode r2 = true) (hnd2 : noDataNode r2 = true)
    (hN : normNode (dcfgOf cfg lang) r1 = normNode (dcfgOf cfg lang) r2) :
    ∃ d1 d2 : Doc, bs1 = Spec.ser d1 ∧ bs2 = Spec.ser d2 ∧
      ∀ (main : List Lang) (f1 forced1 meta1 f2 forced2 meta2 : Nat),
        headerLang (pcfgOf main forced1 meta1) d1.hdr = some lang →
        (headerCharset (pcfgOf main forced1 meta1) d1.hdr = 3 ∨ headerCharset (pcfgOf main forced1 meta1) d1.hdr = 106) →
        headerLang (pcfgOf main forced2 meta2) d2.hdr = some lang →
        (headerCharset (pcfgOf main forced2 meta2) d2.hdr = 3 ∨ headerCharset (pcfgOf main forced2 meta2) d2.hdr = 106) →
        cfg.version < 256 → bs1.length < 4294967296 → bs2.length < 4294967296 →
        (parse (pcfgOf main forced1 meta1) bs1).events.flatMap toks =
          (parse (pcfgOf main forced2 meta2) bs2).events.flatMap toks ∧
        ∃ (t1' t2' : Tree) (r1' r2' : Node),
          treeOfWbxml main (f1 + 1) forced1 meta1 bs1 = .ok t1' ∧ t1'.root = some r1' ∧
          treeOfWbxml main (f2 + 1) forced2 meta2 bs2 = .ok t2' ∧ t2'.root = some r2' ∧
          t1'.lang = t2'.lang ∧ canon r1' = canon r2' := by
  obtain ⟨hl, hpl, hnta, hvs, has, hts, han⟩ := rtLangOk_spec lang hlk
  obtain ⟨d1, hs1, hk1⟩ := rt_preserves_partial cfg t1 bs1 lang r1 hlang1 hroot1 hl hover1 h1 hpn1 hpl hnta hvs has hts han hnd1
  obtain ⟨d2, hs2, hk2⟩ := rt_preserves_partial cfg t2 bs2 lang r2 hlang2 hroot2 hl hover2 h2 hpn2 hpl hnta hvs has hts han hnd2
  refine ⟨d1, d2, hs1, hs2, ?_⟩
  intro main f1 forced1 meta1 f2 forced2 meta2 a1 a2 b1 b2 hv hz1 hz2
  obtain ⟨r1', e1, _, _, hc1, hv1⟩ := hk1 main f1 forced1 meta1 a1 a2 hv hz1
  obtain ⟨r2', e2, _, _, hc2, hv2⟩ := hk2 main f2 forced2 meta2 b1 b2 hv hz2
  have hcc : canon r1' = canon r2' := by rw [hc1, hc2, hN]
  refine ⟨?_, _, _, r1', r2', e1, rfl, e2, rfl, rfl, hcc⟩
  rw [hv1, hv2, ← ntoks_canon r1', ← ntoks_canon r2', hcc]

/-- **`rt2_is_rt1_partial`: the second round trip is the first, at tree and event level.** Under the
    hypotheses of `rt2_tree_partial` (plus attribute values below 2^32 octets): let `t'` be the first
    round-trip tree, `xml` its printed form, `t''` what `wbxml_tree_from_xml` makes of Expat's
    reading of `xml` (`ReadsBack`). If the encoder accepts `t''` — output `bs2` — then `bs2` and the
    first output `bs` denote the same event view, and the tree `wbxml_tree_from_wbxml` builds from
    `bs2` equals `t'` up to `canon`: converting twice gives the document that converting once gives.
    `_partial`: (i) the class of trees / languages / generation modes of `rt_preserves_partial` and
    `ReadsDoc`; (ii) equality of the two WBXML documents OCTET BY OCTET is not claimed and is false
    as it stands — `rt2_bytes_differ_hollow` (an element whose only child is ignorable white space:
    written with an empty content the first time, without content the second; the known finding
    `empty-element-form-not-stable`) and `rt2_bytes_differ_adjacent_text` (two adjacent text nodes,
    which only API-built trees have: two `STR_I` the first time, one the second). -/
theorem rt2_is_rt1_partial (cfg : X2WCfg) (t : Tree) (bs : Bytes) (lang : Lang) (r : Node)
    (hlk : rtLangOk lang = true) (hlang : t.lang = some lang) (hroot : t.root = some r)
    (hover : treeOver lang t = true) (h : treeToWbxml cfg t = .ok bs)
    (hpn : plainNode r = true) (hnd : noDataNode r = true)
    (hsy : isSyncml lang.id = false) (hnul : textsNulFree r = true) :
    ∃ d : Doc, bs = Spec.ser d ∧
      ∀ (main : List Lang) (f forced metaCs : Nat),
        headerLang (pcfgOf main forced metaCs) d.hdr = some lang →
        (headerCharset (pcfgOf main forced metaCs) d.hdr = 3 ∨ headerCharset (pcfgOf main forced metaCs) d.hdr = 106) →
        cfg.version < 256 → bs.length < 4294967296 →
        ∃ (t' : Tree) (r' : Node), treeOfWbxml main (f + 1) forced metaCs bs = .ok t' ∧ t'.root = some r' ∧
          ∀ (xcfg : W2XCfg) (fuel k : Nat) (xml : Bytes) (env : List (Bytes × ExpatRun)),
            main.find? (fun x => x.id == lang.id) = some lang →
            docTypeFinds main lang = true → flagsOk (xcfgOf xcfg lang) (dcfgOf cfg lang) = true →
            readable (normNode (dcfgOf cfg lang) r) = true →
            attrsReadable (xcfgOf xcfg lang) (normNode (dcfgOf cfg lang) r) = true →
            valuesShort (normNode (dcfgOf cfg lang) r) = true →
            treeToXml xcfg fuel t' = .ok xml → ReadsBack env xml (xcfgOf xcfg lang) t' →
            ∃ t'' : Tree, treeOfXml main env (k + 1) xml = .ok t'' ∧
              ∀ bs2 : Bytes, treeToWbxml cfg t'' = .ok bs2 →
                ∃ d2 : Doc, bs2 = Spec.ser d2 ∧
                  ∀ (f2 forced2 meta2 : Nat),
                    headerLang (pcfgOf main forced2 meta2) d2.hdr = some lang →
                    (headerCharset (pcfgOf main forced2 meta2) d2.hdr = 3 ∨
                      headerCharset (pcfgOf main forced2 meta2) d2.hdr = 106) →
                    bs2.length < 4294967296 →
                    (parse (pcfgOf main forced2 meta2) bs2).events.flatMap toks =
                      (parse (pcfgOf main forced metaCs) bs).events.flatMap toks ∧
                    ∃ (t3 : Tree) (r3 : Node), treeOfWbxml main (f2 + 1) forced2 meta2 bs2 = .ok t3 ∧
                      t3.root = some r3 ∧ t3.lang = t'.lang ∧ canon r3 = canon r' ∧
                      ∀ (fuel3 : Nat) (xml3 : Bytes), treeToXml xcfg fuel3 t3 = .ok xml3 → xml3 = xml := by
  obtain ⟨hl, hpl, hnta, hvs, has, hts, han⟩ := rtLangOk_spec lang hlk
  obtain ⟨d, hs, hk⟩ := rt_preserves_partial cfg t bs lang r hlang hroot hl hover h hpn hpl hnta hvs has hts han hnd
  refine ⟨d, hs, ?_⟩
  intro main f forced metaCs a1 a2 hver hz
  obtain ⟨r', ht', hr', hnf, hcanon, hview⟩ := hk main f forced metaCs a1 a2 hver hz
  refine ⟨_, r', ht', rfl, ?_⟩
  intro xcfg fuel k xml env hfind hdt hf hre har hvsh hx hrb
  have hns : lang.ns = none := by obtain ⟨_, _, _, _, hns, _⟩ := hrb; exact hns
  have hg : xcfg.gen ≠ 1 := by obtain ⟨_, _, _, _, _, hg, _⟩ := hrb; exact hg
  have hre' : readable r' = true := by rw [← readable_canon, hcanon]; exact hre
  have har' : attrsReadable (xcfgOf xcfg lang) r' = true := by rw [← attrsReadable_canon, hcanon]; exact har
  have hvs' : valuesShort r' = true := by rw [← valuesShort_canon, hcanon]; exact hvsh
  have helt : isElt r' = true := by rw [hr']; exact isElt_nodeOfElem _ _ _
  obtain ⟨r'', hx'', hr'', hn⟩ := xml_read_back_partial main lang xcfg (dcfgOf cfg lang) _ r' fuel k xml env rfl hpl hdt
    hnf helt hre' har' (dcfgOf_lang cfg lang) hsy hf hx hrb
  refine ⟨_, hx'', ?_⟩
  intro bs2 h2
  obtain ⟨hov, hpn2, hnd2⟩ := good_readNode lang (xcfgOf xcfg lang) r' hre' hvs'
  rw [← hr''] at hov hpn2 hnd2
  have helt2 : isElt r'' = true := by rw [hr'']; exact isElt_readNode lang _ r' hre' helt
  have hidem : normNode (dcfgOf cfg lang) r'' = normNode (dcfgOf cfg lang) r := by
    rw [hn, ← normNode_canon, hcanon]
    exact normNode_idem _ (by rw [dcfgOf_lang]; exact hsy) r hnul
  obtain ⟨d2, hs2, hk2⟩ := rt_preserves_partial cfg { lang := some lang, origCharset := 0, root := some r'' } bs2 lang r''
    rfl rfl hl (by simp only [treeOver, helt2, hov, Bool.and_self]) h2 hpn2 hpl hnta hvs has hts han hnd2
  refine ⟨d2, hs2, ?_⟩
  intro f2 forced2 meta2 b1 b2 hz2
  obtain ⟨r3, e3, hr3, hnf3, hc3, hv3⟩ := hk2 main f2 forced2 meta2 b1 b2 hver hz2
  have hcc : canon r3 = canon r' := by rw [hc3, hidem, hcanon]
  refine ⟨?_, _, r3, e3, rfl, rfl, hcc, ?_⟩
  · rw [hv3, hview, ← ntoks_canon r3, ← ntoks_canon r', hcc]
  · intro fuel3 xml3 hx3
    exact printed_congr xcfg lang _ _ r3 r' fuel3 fuel xml3 xml hfind hfind rfl rfl hg hns hsy
      (plain_of_nf r3 hnf3) (plain_of_nf r' hnf) (by rw [hr3]; exact noBinary_rootOfDoc _ _ _ hpl)
      (by rw [hr']; exact noBinary_rootOfDoc _ _ _ hpl) hcc hx3 hx

/-! ## Exact and typed round trip; elements called `Data` -/

/-- What the kernel evaluates: per code page of every tag table, no name occurs twice. -/
theorem tag_tables_names_fast : ∀ t ∈ Gen.allTagTables, namesUniqFast t = true := by decide +kernel

/-- **Table fact `tagNamesUniqPerPage`**: within one code page of a language no two rows of the
    tag table share a name — every one of the 22 tag tables of the library (so for all 29
    languages; ActiveSync's aliases share a TOKEN, not a name). -/
theorem tag_tables_names_uniq : ∀ t ∈ Gen.allTagTables, namesUniqPerPage t = true :=
  fun t ht => namesUniqPerPage_of_fast t (tag_tables_names_fast t ht)

/-- **The converse of the encoder's name resolution**: in every tag table, looking a row's name up
    from the row's own code page (`wbxml_tables_get_tag_from_xml`) finds that very row (names are
    unique per page, and the rows of a page are contiguous: C08). -/
theorem tag_tables_self_find : ∀ t ∈ Gen.allTagTables, selfFind t = true := by
  intro t ht
  refine selfFind_of_fast t (tag_tables_names_fast t ht) ?_
  intro r hr
  have h := Props.C08.tag_tables_fast t ht
  unfold tagTableOKFast at h
  simp only [Bool.and_eq_true, List.all_eq_true] at h
  exact (h.2 r.page (mem_pagesOf hr)).1

/-- The one row of the library's tables that is not the first with its page and token:
    ActiveSync `RequireStorageCardEncryption` (page 14, token 0x10). -/
def aliasRow (r : TagRow) : Bool := r.name == b!"RequireStorageCardEncryption" && r.page == 14 && r.token == 16

/-- **(page, token) pairs are unique** in every tag table but ActiveSync's, where exactly one row —
    `RequireStorageCardEncryption`, page 14 token 0x10 — stands behind another with the same page
    and token. -/
theorem tag_tables_tokens_uniq_partial : ∀ t ∈ Gen.allTagTables,
    t.all (fun r => decTag t r.page r.token == some r || aliasRow r) = true := by
  have h : ∀ t ∈ Gen.allTagTables, tokensUniqFast aliasRow t = true := by decide +kernel
  exact fun t ht => tokens_of_fast aliasRow t (h t ht)

/-- … and the row a reader reports for both names is `DeviceEncryptionEnabled`. -/
theorem activesync_alias_first : ∀ l ∈ Gen.main, (l.id == 2401 || l.id == 2402) = true →
    (match l.tags with
     | some t => (decTag t 14 16).map (·.name) == some b!"DeviceEncryptionEnabled" &&
         (t.filter aliasRow).length == 1
     | none => false) = true := by decide +kernel

theorem main_tagNamesUniqPerPage : Gen.main.all tagNamesUniqPerPage = true := by
  have hcov := Props.C08.lang_tables_covered
  rw [List.all_eq_true] at hcov ⊢
  intro l hl
  have h := hcov l hl
  simp only [Bool.and_eq_true] at h
  unfold tagNamesUniqPerPage
  cases ht : l.tags with
  | none => rfl
  | some t =>
    have := h.1.1.1.1
    rw [ht] at this
    exact tag_tables_names_uniq t (List.contains_iff_mem.mp this)

/-- **Builder reconstruction with elements called `Data`** (extends `build_reconstructs`). Over the
    events the specification assigns to a document `d`, if the tree read off `d` satisfies
    `dataIsNormal` — every text node stands where `wbxml_tree_node_get_syncml_data_type` answers
    `normal` at the moment the text arrives: its parent is not called `Data`, or the `Meta`/`Type`
    look-up among the preceding children of the `Data` element's parent and grandparent finds none
    of the special media types and the grandparent is not `Add` / `Replace` — the tree builder of
    `wbxml_tree_from_wbxml` succeeds and delivers exactly that tree. `noDataEvents` is the special
    case without any `Data` element (`dataIsNormal_of_noData`). -/
theorem build_reconstructs_data (main : List Lang) (emb : Nat → Bytes → Option Tree) (pcfg : PCfg) (d : Doc) (t : Tree)
    (ht : treeOfEventsSpec main pcfg d = some t)
    (hnd : ∀ r, t.root = some r → dataIsNormal r = true) :
    treeOfEvents main emb (Spec.events pcfg d) = .ok t := by
  unfold treeOfEventsSpec at ht
  cases hl : headerLang pcfg d.hdr with
  | none => rw [hl] at ht; cases ht
  | some l =>
    rw [hl] at ht; injection ht with ht; subst ht
    unfold treeOfEvents
    rw [run_doc_d main emb pcfg d l hl (dataOkDoc_of_normal pcfg d l hl (hnd _ rfl))]

/-- **`rt_preserves_typed_partial`: the round trip at tree level — exact, typed, with `Data`
    elements.** For a plain tree `r` (no CDATA section, no embedded document) of any language but
    Wireless Village 1.1/1.2 and OTA settings (26 of 29, `C06.typed_view_languages`) under the four
    source hypotheses of `C06.enc_is_ser_wf` (each a recorded finding), with
    `dataIsNormal (normNodeTyped c r)`: `wbxml_tree_from_wbxml` accepts the encoder's output under
    every reader configuration for which the header selects the language, for every fuel, and the
    tree it delivers is — EXACTLY, representation of names included, no `canon` —

        { lang := the header's language entry, origCharset := the header's,
          root := normNodeTyped (dcfgOf cfg lang) r }

    the typed exact normalisation of the source tree (`Lemmas/RtTyped.lean`): every element name
    `.token d` with `d` the first row with the page and token of the row the encoder works with —
    the SAME `TagRow` for every row of every table but ActiveSync's second alias
    (`exactName_token`, `tag_tables_tokens_uniq_partial`) — or the literal C string when the table
    has no such name; attributes `xAttr` (start row `startRow`, see `attr_start_row_spec`); text in
    its typed normal form `vText`; empty text dropped, adjacent text merged.
    `_partial`: plain trees; WV / OTA settings; see the note at the end of the file. -/
theorem rt_preserves_typed_partial (cfg : X2WCfg) (t : Tree) (bs : Bytes) (lang : Lang) (r : Node)
    (hlang : t.lang = some lang) (hroot : t.root = some r)
    (hl : langOk lang = true) (htl : typedLangOk lang = true) (hover : treeOver lang t = true)
    (h : treeToWbxml cfg t = .ok bs)
    (hcdata : noCdataInTyped lang false r = true) (hdt : validDatetimeAttrs lang r = true)
    (hb64 : b64TextDecodes (dcfgOf cfg lang) none r = true)
    (hkv : keyValueTextFirst (dcfgOf cfg lang) none true r = true)
    (hpn : plainNode r = true) (hnw : isWv lang.id = false) (hno : (lang.id == 1901) = false)
    (hvs : valSemOk lang = true) (has : attrSemOk lang = true) (han : attrNameSemOk lang = true)
    (hdata : dataIsNormal (normNodeTyped (dcfgOf cfg lang) r) = true) :
    ∃ d : Doc, bs = Spec.ser d ∧
      ∀ (main : List Lang) (f forced metaCs : Nat),
        headerLang (pcfgOf main forced metaCs) d.hdr = some lang →
        (headerCharset (pcfgOf main forced metaCs) d.hdr = 3 ∨ headerCharset (pcfgOf main forced metaCs) d.hdr = 106) →
        cfg.version < 256 → bs.length < 4294967296 →
        rootOfDoc (pcfgOf main forced metaCs) d lang = normNodeTyped (dcfgOf cfg lang) r ∧
        treeOfWbxml main (f + 1) forced metaCs bs =
          .ok { lang := main.find? (fun x => x.id == lang.id),
                origCharset := headerCharset (pcfgOf main forced metaCs) d.hdr,
                root := some (normNodeTyped (dcfgOf cfg lang) r) } := by
  obtain ⟨r', d, st, hr', hres⟩ := treeToWbxml_doc cfg t bs lang hlang hl hover h
  rw [hroot] at hr'; injection hr' with hr'; subst hr'
  refine ⟨d, hres.ser, ?_⟩
  intro main f forced metaCs h1 h2 h3 h4
  have hwf := hres.wfTyped hl htl hcdata hdt hb64 hkv (pcfgOf main forced metaCs) h1 h2
    (charsets_ok main forced metaCs _ h2) h3 h4
  have hp := Props.C04.parse_ser (pcfgOf main forced metaCs) d hwf
  rw [← hres.ser] at hp
  have helt : isElt r = true := by
    simp only [treeOver, hroot, Bool.and_eq_true] at hover
    exact hover.1
  have hx := hres.exactRoot hl htl helt hpn hnw hno hvs has han (pcfgOf main forced metaCs)
  refine ⟨hx, ?_⟩
  rw [treeOfWbxml]
  have hpp : parse { main := main, langForced := forced, metaCharset := metaCs } bs =
      parse (pcfgOf main forced metaCs) bs := rfl
  simp only [hpp, hp.1, hp.2]
  rw [run_doc_d main _ (pcfgOf main forced metaCs) d lang h1
    (dataOkDoc_of_normal _ d lang h1 (by rw [hx]; exact hdata)), hx]

/-- `rt_preserves_typed_partial` in the 20 languages without typed content (`untypedLang`: all but
    WV, DRMREL, the three SyncML representation protocols, SI, EMN, OTA): no source hypothesis
    besides "plain tree" and `dataIsNormal` is needed (`C06.typed_hyps_untyped`). This extends
    `rt_preserves_partial` to trees with elements called `Data` and replaces `canon` by equality. -/
theorem rt_preserves_exact_untyped (cfg : X2WCfg) (t : Tree) (bs : Bytes) (lang : Lang) (r : Node)
    (hlang : t.lang = some lang) (hroot : t.root = some r)
    (hl : langOk lang = true) (htl : typedLangOk lang = true) (hover : treeOver lang t = true)
    (h : treeToWbxml cfg t = .ok bs) (hu : untypedLang lang.id = true)
    (hpn : plainNode r = true) (hnw : isWv lang.id = false) (hno : (lang.id == 1901) = false)
    (hvs : valSemOk lang = true) (has : attrSemOk lang = true) (han : attrNameSemOk lang = true)
    (hdata : dataIsNormal (normNodeTyped (dcfgOf cfg lang) r) = true) :
    ∃ d : Doc, bs = Spec.ser d ∧
      ∀ (main : List Lang) (f forced metaCs : Nat),
        headerLang (pcfgOf main forced metaCs) d.hdr = some lang →
        (headerCharset (pcfgOf main forced metaCs) d.hdr = 3 ∨ headerCharset (pcfgOf main forced metaCs) d.hdr = 106) →
        cfg.version < 256 → bs.length < 4294967296 →
        treeOfWbxml main (f + 1) forced metaCs bs =
          .ok { lang := main.find? (fun x => x.id == lang.id),
                origCharset := headerCharset (pcfgOf main forced metaCs) d.hdr,
                root := some (normNodeTyped (dcfgOf cfg lang) r) } := by
  obtain ⟨h1, h2, h3, h4⟩ := C06.typed_hyps_untyped cfg lang r hu
  obtain ⟨d, hs, hk⟩ := rt_preserves_typed_partial cfg t bs lang r hlang hroot hl htl hover h h1 h2 h3 h4 hpn hnw hno
    hvs has han hdata
  exact ⟨d, hs, fun main f forced metaCs a1 a2 a3 a4 => (hk main f forced metaCs a1 a2 a3 a4).2⟩

/-- Every token element name of every language of the library except ActiveSync's
    `RequireStorageCardEncryption` comes back from the round trip as the SAME table row
    (`exactName … = .token r`); that one comes back as `DeviceEncryptionEnabled`
    (`activesync_alias_first`). -/
theorem exact_row_main (l : Lang) (hl : l ∈ Gen.main) (tags : List TagRow) (ht : l.tags = some tags) (r : TagRow)
    (hr : r ∈ tags) (ha : aliasRow r = false) (nm : Bytes) : exactName l (some r) nm = .token r := by
  have hcov := Props.C08.lang_tables_covered
  rw [List.all_eq_true] at hcov
  have h := hcov l hl
  simp only [Bool.and_eq_true] at h
  have hmem := h.1.1.1.1
  rw [ht] at hmem
  have hu := tag_tables_tokens_uniq_partial tags (List.contains_iff_mem.mp hmem)
  rw [List.all_eq_true] at hu
  have := hu r hr
  rw [ha, Bool.or_false, beq_iff_eq] at this
  exact exactName_token l tags ht r this nm

/-- **`attr_start_row_spec`: which attribute start row the encoder picks** (the row behind
    `exactAName` / `xAttr`). For a literal attribute name `startRow` is the row
    `wbxml_tables_get_attr_from_xml` picks for (name, value) as C strings, and that is, in closed
    form: the FIRST row in table order with that name whose value IS the value; otherwise the first
    row with the LONGEST non-empty proper value prefix; otherwise the first row with that name and
    no value; otherwise none (the name is written as a literal). For a token name it is the name's
    own row when its value prefix matches, none otherwise (`startRow_token`). -/
theorem attr_start_row_spec (c : WCfg) (a : Attr) (s : Bytes) (ha : a.name = .literal s) (hs : s.isEmpty = false)
    (attrs : List AttrRow) (hattrs : c.lang.attrs = some attrs) :
    startRow c a =
      match attrs.find? (isExactRow (cstrOf s) (cstrOf a.value)) with
      | some e => some e
      | none =>
        if 0 < maxFrom (cstrOf s) (cstrOf a.value) 0 attrs then
          attrs.find? (fun r => preLenOf (cstrOf s) (cstrOf a.value) r == maxFrom (cstrOf s) (cstrOf a.value) 0 attrs)
        else attrs.find? (isNullRow (cstrOf s)) := by
  rw [startRow_literal c a s ha hs attrs hattrs, encAttr_choice]
  cases attrs.find? (isExactRow (cstrOf s) (cstrOf a.value)) with
  | some e => rfl
  | none =>
    simp only
    split
    · cases attrs.find? (fun r => preLenOf (cstrOf s) (cstrOf a.value) r == maxFrom (cstrOf s) (cstrOf a.value) 0 attrs) <;> rfl
    · cases attrs.find? (isNullRow (cstrOf s)) <;> rfl

/-- **The exact normal form refines the earlier one**: in a plain language (the 21 of
    `rt_preserves_partial`) forgetting the representation of names turns `normNodeTyped` into
    `normNode` — so `rt_preserves_partial`'s `canon r' = normNode c r` is what
    `rt_preserves_typed_partial` says after `canon`, and the two normalisations are consistent. -/
theorem norm_typed_refines_norm (c : WCfg) (hpl : plainLang c.lang = true) (hnta : noTypedAttr c.lang.id = true)
    (hts : tagSemOk c.lang = true) (han : attrNameSemOk c.lang = true) (r : Node)
    (hov : nodeOver c.lang r = true) (hp : plainNode r = true) : canon (normNodeTyped c r) = normNode c r :=
  canon_normNodeTyped c hpl hnta hts han r hov hp

/-- **The typed exact normalisation is idempotent** where the per-form normal forms are: on trees
    whose names are in round-trip form, whose attributes and texts are fixed points of `xAttr` /
    `vText` at their position (`fixedNode`: decidable) and that have no two adjacent text nodes.
    Per form: `textFixed_normal` (`normText` of NUL-free text, every language), `textFixed_binary`
    (raw octets under a binary-flagged tag), `C06.base64_by_value` (`b64Norm` idempotent),
    `C06.datetime_by_value_canon` (`datetimeNorm` on canonical texts of valid date-times),
    `nameFixed_token` / `nameFixed_exact` (what the first trip delivers for a token name). -/
theorem norm_typed_idempotent (c : WCfg) (r : Node) (h : fixedNode c none none 0 r = true) :
    normNodeTyped c (normNodeTyped c r) = normNodeTyped c r := normNodeTyped_idem c r h

/-- **`rt2_is_rt1_ns_partial`: the second round trip for languages WITH a namespace table** (SyncML
    1.0–1.2, DevInf, DM-DDF, ActiveSync; not DRMREL). Let `N = normNodeTyped c r` be the first
    round-trip tree of `rt_preserves_typed_partial` and assume the source is a fixed point form
    (`fixedNode`: what an XML reading delivers) and that every element of `N` is a resolved token
    element without attributes (`nsReadable`: its code page has a namespace that leads back to the
    page, its name is found from its own page — `tag_tables_self_find` —, it is not binary-flagged).
    If `N` is printed (`wbxml_tree_to_xml`, compact or canonical, white-space policy absorbed by the
    encoder's) and a namespace-aware Expat reads the text back (`ReadsBackNs`: element names
    reported as `uri|local` for the default namespace `xml_encode_tag` puts in scope, `xmlns`
    attributes not reported; the one assumption about Expat) with `syncmlDataType` answering
    `normal` at every printed text (`dataOkX`: SyncML `<Data>200</Data>` included), then
    `wbxml_tree_from_xml` succeeds, and whenever the encoder accepts its tree, the tree
    `wbxml_tree_from_wbxml` builds from the second WBXML document is EXACTLY the first one: same
    language entry, same root `N` — same table rows, same text — and printing it gives the SAME XML
    text again (`rt_idem` proper). Converting twice gives what converting once gives.
    `_partial`: token elements only, no attributes, no binary-flagged element; compact / canonical
    output; octet identity of the two WBXML documents is not claimed (false as it stands, see
    `rt2_bytes_differ_hollow`). -/
theorem rt2_is_rt1_ns_partial (cfg : X2WCfg) (t : Tree) (bs : Bytes) (lang : Lang) (r : Node) (ns : List NsRow)
    (hlang : t.lang = some lang) (hroot : t.root = some r) (hns : lang.ns = some ns)
    (hl : langOk lang = true) (htl : typedLangOk lang = true) (hover : treeOver lang t = true)
    (h : treeToWbxml cfg t = .ok bs)
    (hcdata : noCdataInTyped lang false r = true) (hdt : validDatetimeAttrs lang r = true)
    (hb64 : b64TextDecodes (dcfgOf cfg lang) none r = true)
    (hkv : keyValueTextFirst (dcfgOf cfg lang) none true r = true)
    (hpn : plainNode r = true) (hnw : isWv lang.id = false) (hno : (lang.id == 1901) = false)
    (hk : (lang.id == 1801) = false)
    (hvs : valSemOk lang = true) (has : attrSemOk lang = true) (han : attrNameSemOk lang = true)
    (hdata : dataIsNormal (normNodeTyped (dcfgOf cfg lang) r) = true)
    (hfix : fixedNode (dcfgOf cfg lang) none none 0 r = true)
    (hre : nsReadable lang (normNodeTyped (dcfgOf cfg lang) r) = true) :
    ∃ d : Doc, bs = Spec.ser d ∧
      ∀ (main : List Lang) (f forced metaCs : Nat),
        headerLang (pcfgOf main forced metaCs) d.hdr = some lang →
        (headerCharset (pcfgOf main forced metaCs) d.hdr = 3 ∨ headerCharset (pcfgOf main forced metaCs) d.hdr = 106) →
        cfg.version < 256 → bs.length < 4294967296 →
        ∃ t' : Tree, treeOfWbxml main (f + 1) forced metaCs bs = .ok t' ∧
          t'.root = some (normNodeTyped (dcfgOf cfg lang) r) ∧
          ∀ (xcfg : W2XCfg) (fuel k : Nat) (xml : Bytes) (env : List (Bytes × ExpatRun)),
            docTypeFinds main lang = true → flagsOk (xcfgOf xcfg lang) (dcfgOf cfg lang) = true →
            dataOkX (xcfgOf xcfg lang) [] (normNodeTyped (dcfgOf cfg lang) r) = true →
            treeToXml xcfg fuel t' = .ok xml → ReadsBackNs env xml (xcfgOf xcfg lang) t' →
            ∃ t'' : Tree, treeOfXml main env (k + 1) xml = .ok t'' ∧
              t''.root = some (readX (xcfgOf xcfg lang) (normNodeTyped (dcfgOf cfg lang) r)) ∧
              ∀ bs2 : Bytes, treeToWbxml cfg t'' = .ok bs2 →
                ∃ d2 : Doc, bs2 = Spec.ser d2 ∧
                  ∀ (f2 forced2 meta2 : Nat),
                    headerLang (pcfgOf main forced2 meta2) d2.hdr = some lang →
                    (headerCharset (pcfgOf main forced2 meta2) d2.hdr = 3 ∨
                      headerCharset (pcfgOf main forced2 meta2) d2.hdr = 106) →
                    bs2.length < 4294967296 →
                    treeOfWbxml main (f2 + 1) forced2 meta2 bs2 =
                      .ok { lang := main.find? (fun x => x.id == lang.id),
                            origCharset := headerCharset (pcfgOf main forced2 meta2) d2.hdr,
                            root := some (normNodeTyped (dcfgOf cfg lang) r) } ∧
                    ∀ (fuel3 : Nat) (xml3 : Bytes),
                      treeToXml xcfg fuel3 { lang := main.find? (fun x => x.id == lang.id),
                                             origCharset := headerCharset (pcfgOf main forced2 meta2) d2.hdr,
                                             root := some (normNodeTyped (dcfgOf cfg lang) r) } = .ok xml3 →
                      xml3 = xml := by
  obtain ⟨d, hs, hk1⟩ := rt_preserves_typed_partial cfg t bs lang r hlang hroot hl htl hover h hcdata hdt hb64 hkv
    hpn hnw hno hvs has han hdata
  refine ⟨d, hs, ?_⟩
  intro main f forced metaCs a1 a2 hver hz
  obtain ⟨hxr, ht'⟩ := hk1 main f forced metaCs a1 a2 hver hz
  refine ⟨_, ht', rfl, ?_⟩
  intro xcfg fuel k xml env hdtf hflags hdx hx hrb
  have hnfN : nfNode (normNodeTyped (dcfgOf cfg lang) r) = true := by rw [← hxr]; exact nf_nodeOfElem _ _ _
  have heltN : isElt (normNodeTyped (dcfgOf cfg lang) r) = true := by rw [← hxr]; exact isElt_nodeOfElem _ _ _
  have hx'' := treeOfXml_readsBackNs (c := xcfgOf xcfg lang) main rfl ns hns hdtf _ _ rfl hre heltN hdx env xml
    (treeToXml_ne_nil xcfg fuel _ xml hx) hrb k
  refine ⟨_, hx'', rfl, ?_⟩
  intro bs2 h2
  have hcl : (dcfgOf cfg lang).lang = lang := dcfgOf_lang cfg lang
  have hg := goodX_readX lang (dcfgOf cfg lang) (xcfgOf xcfg lang) hcl hk _ hre
  have hR : normNodeTyped (dcfgOf cfg lang) (readX (xcfgOf xcfg lang) (normNodeTyped (dcfgOf cfg lang) r)) =
      normNodeTyped (dcfgOf cfg lang) r := by
    have h1 := (xNode_readX (dcfgOf cfg lang) (xcfgOf xcfg lang) lang hflags (by rw [hcl]; exact hk)
      (normNodeTyped (dcfgOf cfg lang) r) none none 0 hre hnfN rfl).1
    unfold normNodeTyped at h1 ⊢
    rw [h1]
    exact (xNode_fixed (dcfgOf cfg lang) r none none 0 hfix).1
  obtain ⟨d2, hs2, hk2⟩ := rt_preserves_typed_partial cfg
    { lang := some lang, origCharset := 0, root := some (readX (xcfgOf xcfg lang) (normNodeTyped (dcfgOf cfg lang) r)) }
    bs2 lang _ rfl rfl hl htl
    (by simp only [treeOver, isElt_readX _ _ heltN, hg.over, Bool.and_self]) h2 (hg.cd false) hg.dt (hg.b64 none)
    (hg.kv none true) hg.plain hnw hno hvs has han (by rw [hR]; exact hdata)
  refine ⟨d2, hs2, ?_⟩
  intro f2 forced2 meta2 b1 b2 hz2
  have := (hk2 main f2 forced2 meta2 b1 b2 hver hz2).2
  rw [hR] at this
  refine ⟨this, ?_⟩
  intro fuel3 xml3 hx3
  exact treeToXml_same xcfg _ _ fuel3 fuel xml3 xml rfl rfl hx3 hx

/-! ## Non-vacuity -/

/-- The round trip of C06's example tree under the library's table: accepted, same language,
    UTF-8. -/
example : (match treeToWbxml C06.exCfg C06.exTree with
    | .ok bs => (match treeOfWbxml Gen.main (bs.length + 1) 0 0 bs with
      | .ok t' => t'.lang == some Gen.lang15 && t'.origCharset == 106
      | .error _ => false)
    | .error _ => false) = true := by decide +kernel

example : headerLang (pcfgOf Gen.main 0 0) Props.C04.exSyncml.hdr = some Gen.lang15 := by decide +kernel

/-! ### Tree level: non-vacuity and counterexamples -/

/-- `build_reconstructs` applies to C04's SyncML example document: a tree is read off it and no
    element is called `Data`. -/
example : (treeOfEventsSpec Gen.main Props.C04.exCfg Props.C04.exSyncml).isSome = true ∧
    noDataEvents (Spec.events Props.C04.exCfg Props.C04.exSyncml) = true := by decide +kernel

def rootOr (t : Tree) : Node :=
  match t.root with
  | some r => r
  | none => .text []

/-- `<wml><card id="a"> Hi <!-- two text nodes -->there<b>x</b>  </card></wml>` as a WML 1.3 tree
    with literal names (the encoder finds the tokens): white space to trim, two adjacent text
    nodes to merge, a white-space-only text node to drop. -/
def exWml : Tree where
  lang := some Gen.lang3
  origCharset := 106
  root := some (.elt (.literal b!"wml") [] [
    .elt (.literal b!"card") [{ name := .literal b!"id", value := b!"a" }] [
      .text b!" Hi ", .text b!"there", .elt (.literal b!"b") [] [.text b!"x"], .text b!"  "]])

def exWmlRoot : Node :=
  match exWml.root with
  | some r => r
  | none => .text []

/-- All hypotheses of `rt_preserves_partial` hold for `exWml` (WML 1.3 from `Gen.main`). -/
example : langOk Gen.lang3 = true ∧ treeOver Gen.lang3 exWml = true ∧ plainNode exWmlRoot = true ∧
    plainLang Gen.lang3 = true ∧ noTypedAttr Gen.lang3.id = true ∧ valSemOk Gen.lang3 = true ∧
    attrSemOk Gen.lang3 = true ∧ tagSemOk Gen.lang3 = true ∧ attrNameSemOk Gen.lang3 = true ∧
    noDataNode exWmlRoot = true := by decide +kernel

/-- The normalised example: `<wml><card id="a">Hithere<b>x</b></card></wml>`. -/
example : plainEq (normNode (dcfgOf {} Gen.lang3) exWmlRoot)
    (.elt (.literal b!"wml") [] [
      .elt (.literal b!"card") [{ name := .literal b!"id", value := b!"a\x00" }] [
        .text b!"Hithere", .elt (.literal b!"b") [] [.text b!"x"]]]) = true := by decide +kernel

/-- … and the conclusion evaluated on it: the round trip under the library's table is accepted,
    keeps language and character set, and `canon` of its root is the normalised source root. -/
example : (match treeToWbxml {} exWml with
    | .ok bs => (match treeOfWbxml Gen.main (bs.length + 1) 0 0 bs with
      | .ok t' => (match t'.root with
        | some r' => t'.lang == some Gen.lang3 && t'.origCharset == 106 && nfNode r' &&
            plainEq (canon r') (normNode (dcfgOf {} Gen.lang3) exWmlRoot)
        | none => false)
      | .error _ => false)
    | .error _ => false) = true := by decide +kernel

/-- Hypotheses of `norm_idempotent` for the example. -/
example : isSyncml (dcfgOf {} Gen.lang3).lang.id = false ∧ textsNulFree exWmlRoot = true := by decide +kernel

/-- Hypotheses of `norm_idempotent_merged` for C06's SyncML 1.2 example tree. -/
example : textsNulFree (rootOr C06.exTree) = true ∧ mergedNode (rootOr C06.exTree) = true ∧
    isSyncml Gen.lang15.id = true := by decide +kernel

/-- `norm_idempotent` needs NUL-free text: `"a \0b"` is cut to `"a "` by the first pass (C string)
    and trimmed to `"a"` by the second. -/
theorem norm_not_idempotent_nul :
    normNode (dcfgOf {} Gen.lang3) (normNode (dcfgOf {} Gen.lang3) (.elt (.literal b!"p") [] [.text [0x61, 0x20, 0, 0x62]])) ≠
      normNode (dcfgOf {} Gen.lang3) (.elt (.literal b!"p") [] [.text [0x61, 0x20, 0, 0x62]]) := by
  intro h
  have := congrArg ntoks h
  revert this
  decide +kernel

/-- `norm_idempotent` excludes SyncML: two adjacent text nodes that spell the DevInf media type
    only after the reader has merged them are rewritten to `…+wbxml` by the second pass. -/
theorem norm_not_idempotent_syncml :
    normNode (dcfgOf {} Gen.lang15)
        (normNode (dcfgOf {} Gen.lang15)
          (.elt (.literal b!"Type") [] [.text b!"application/vnd.syncml-devinf", .text b!"+xml"])) ≠
      normNode (dcfgOf {} Gen.lang15)
        (.elt (.literal b!"Type") [] [.text b!"application/vnd.syncml-devinf", .text b!"+xml"]) := by
  intro h
  have := congrArg ntoks h
  revert this
  decide +kernel

/-! ### Exact / typed round trip and `Data` elements: non-vacuity -/

/-- `<SyncML><SyncBody><Status><CmdID>1</CmdID><Cmd>SyncHdr</Cmd><Data> 200 </Data></Status><Final/></SyncBody></SyncML>`
    with literal names: the everyday `Data` element of a SyncML status. -/
def exStatus : Tree where
  lang := some Gen.lang15
  origCharset := 106
  root := some (.elt (.literal b!"SyncML") [] [
    .elt (.literal b!"SyncBody") [] [
      .elt (.literal b!"Status") [] [
        .elt (.literal b!"CmdID") [] [.text b!"1"],
        .elt (.literal b!"Cmd") [] [.text b!"SyncHdr"],
        .elt (.literal b!"Data") [] [.text b!" 200 "]],
      .elt (.literal b!"Final") [] []]])

/-- All hypotheses of `rt_preserves_typed_partial` for the SyncML status (SyncML 1.2), in particular
    `dataIsNormal` although an element is called `Data`; the conclusion evaluated: the round-trip
    tree IS `normNodeTyped` of the source, `<Data>` holds `200`, every literal name has come back
    as its table row; and that tree is a fixed point (`fixedNode`). -/
example : langOk Gen.lang15 = true ∧ typedLangOk Gen.lang15 = true ∧ treeOver Gen.lang15 exStatus = true ∧
    C06.typedHyps {} Gen.lang15 (rootOr exStatus) = true ∧ plainNode (rootOr exStatus) = true ∧
    isWv Gen.lang15.id = false ∧ (Gen.lang15.id == 1901) = false ∧ valSemOk Gen.lang15 = true ∧
    attrSemOk Gen.lang15 = true ∧ attrNameSemOk Gen.lang15 = true ∧ noDataNode (rootOr exStatus) = false ∧
    dataIsNormal (normNodeTyped (dcfgOf {} Gen.lang15) (rootOr exStatus)) = true ∧
    (match treeToWbxml {} exStatus with
     | .ok bs => (match treeOfWbxml Gen.main (bs.length + 1) 0 0 bs with
       | .ok t' => plainEq (rootOr t') (normNodeTyped (dcfgOf {} Gen.lang15) (rootOr exStatus)) &&
           t'.lang == some Gen.lang15
       | .error _ => false)
     | .error _ => false) = true ∧
    plainEq (normNodeTyped (dcfgOf {} Gen.lang15) (rootOr exStatus))
      (.elt (.token ⟨b!"SyncML", 0, 0x2D, 0⟩) [] [
        .elt (.token ⟨b!"SyncBody", 0, 0x2B, 0⟩) [] [
          .elt (.token ⟨b!"Status", 0, 0x29, 0⟩) [] [
            .elt (.token ⟨b!"CmdID", 0, 0x0B, 0⟩) [] [.text b!"1"],
            .elt (.token ⟨b!"Cmd", 0, 0x0A, 0⟩) [] [.text b!"SyncHdr"],
            .elt (.token ⟨b!"Data", 0, 0x0F, 0⟩) [] [.text b!"200"]],
          .elt (.token ⟨b!"Final", 0, 0x12, 0⟩) [] []]]) = true ∧
    fixedNode (dcfgOf {} Gen.lang15) none none 0 (normNodeTyped (dcfgOf {} Gen.lang15) (rootOr exStatus)) = true := by
  decide +kernel

/-- `dataIsNormal` does exclude what it has to: under `Add` the text of `Data` becomes a CDATA
    section (`vobject`), and with a preceding `Meta`/`Type` of `text/x-vcard` as well. -/
example : dataIsNormal (.elt (.literal b!"Add") [] [.elt (.literal b!"Item") [] [.elt (.literal b!"Data") [] [.text b!"x"]]]) = false ∧
    dataIsNormal (.elt (.literal b!"Item") [] [
      .elt (.literal b!"Meta") [] [.elt (.literal b!"Type") [] [.text b!"text/x-vcard"]],
      .elt (.literal b!"Data") [] [.text b!"x"]]) = false ∧
    dataIsNormal (.elt (.literal b!"Item") [] [
      .elt (.literal b!"Meta") [] [.elt (.literal b!"Type") [] [.text b!"text/plain"]],
      .elt (.literal b!"Data") [] [.text b!"x"]]) = true := by decide +kernel

/-- SI 1.0 with a `%Datetime` attribute, a literal element and attribute name that the tables
    resolve, and text to trim. -/
def exSiRoot : Node :=
  .elt (.token ⟨b!"si", 0, 5, 0⟩) [] [
    .elt (.token ⟨b!"indication", 0, 6, 0⟩) [⟨.token ⟨b!"created", none, 0, 10⟩, b!"1999-06-25T15:23:15Z" ++ [0]⟩]
      [.text b!" hello world hello "],
    .elt (.token ⟨b!"info", 0, 7, 0⟩) [] [
      .elt (.literal b!"item") [⟨.literal b!"class", b!"hello world hello" ++ [0]⟩] [.text b!"hello world hello"]]]
def exSi : Tree := { lang := some Gen.lang8, origCharset := 106, root := some exSiRoot }

/-- DRMREL: base64 text (with a blank) under `ds:KeyValue`. -/
def exDrmRoot : Node :=
  .elt (.token ⟨b!"o-ex:rights", 0, 5, 0⟩) [] [
    .elt (.token ⟨b!"ds:KeyValue", 0, 12, 0⟩) [] [.text b!"QU JD"],
    .elt (.token ⟨b!"o-dd:uid", 0, 8, 0⟩) [] [.text b!"cid:4567829547@foo.com"]]
def exDrm : Tree := { lang := some Gen.lang13, origCharset := 106, root := some exDrmRoot }

/-- ActiveSync: the aliased name, a binary-flagged element as token and as literal name. -/
def exAsRoot : Node :=
  .elt (.token ⟨b!"Sync", 0, 5, 0⟩) [] [
    .elt (.token ⟨b!"SyncKey", 0, 11, 0⟩) [] [.text b!"repeated text here"],
    .elt (.token ⟨b!"RequireStorageCardEncryption", 14, 16, 0⟩) [] [.text b!"1"],
    .elt (.token ⟨b!"ConversationId", 15, 32, 1⟩) [] [.text [1, 2, 0, 255]],
    .elt (.literal b!"ConversationId") [] [.text [3, 0, 4]]]
def exAs : Tree := { lang := some Gen.lang27, origCharset := 106, root := some exAsRoot }

/-- For one tree: the source hypotheses of `rt_preserves_typed_partial`, its conclusion evaluated
    (the round-trip tree IS `normNodeTyped`), `dataIsNormal`, and the hypothesis and conclusion of
    `norm_typed_idempotent` for the round-trip tree. -/
def typedChecks (l : Lang) (t : Tree) : Bool :=
  let r := rootOr t
  let c := dcfgOf {} l
  let n := normNodeTyped c r
  C06.typedHyps {} l r && treeOver l t && plainNode r &&
  (match treeToWbxml {} t with
   | .ok bs => (match treeOfWbxml Gen.main (bs.length + 1) 0 0 bs with
     | .ok t' => plainEq (rootOr t') n && t'.lang == some l
     | .error _ => false)
   | .error _ => false) &&
  dataIsNormal n && fixedNode c none none 0 n && plainEq (normNodeTyped c n) n

/-- SI 1.0: the literal `item` / `class` come back as their rows, `created` as the same text, the
    text trimmed; DRMREL: `QU JD` comes back as `QUJD`; ActiveSync: `RequireStorageCardEncryption`
    comes back as `DeviceEncryptionEnabled` (page 14 token 0x10), the literal `ConversationId` as
    its binary-flagged row with the raw octets. -/
example : typedChecks Gen.lang8 exSi = true ∧ typedChecks Gen.lang13 exDrm = true ∧ typedChecks Gen.lang27 exAs = true ∧
    plainEq (normNodeTyped (dcfgOf {} Gen.lang13) exDrmRoot)
      (.elt (.token ⟨b!"o-ex:rights", 0, 5, 0⟩) [] [
        .elt (.token ⟨b!"ds:KeyValue", 0, 12, 0⟩) [] [.text b!"QUJD"],
        .elt (.token ⟨b!"o-dd:uid", 0, 8, 0⟩) [] [.text b!"cid:4567829547@foo.com"]]) = true ∧
    plainEq (normNodeTyped (dcfgOf {} Gen.lang27) exAsRoot)
      (.elt (.token ⟨b!"Sync", 0, 5, 0⟩) [] [
        .elt (.token ⟨b!"SyncKey", 0, 11, 0⟩) [] [.text b!"repeated text here"],
        .elt (.token ⟨b!"DeviceEncryptionEnabled", 14, 16, 0⟩) [] [.text b!"1"],
        .elt (.token ⟨b!"ConversationId", 15, 32, 1⟩) [] [.text [1, 2, 0, 255]],
        .elt (.token ⟨b!"ConversationId", 15, 32, 1⟩) [] [.text [3, 0, 4]]]) = true := by
  decide +kernel

/-- `attr_start_row_spec` on SI 1.0 (rows for `href`: no value, `http://www.`, `http://`,
    `https://www.`, `https://`): `href="http://www.example.org/"` picks the row with the longest prefix
    `http://www.`, an exact value wins, a value without any matching prefix falls back to the
    value-less row, an unknown name has no row. -/
example : (startRow (dcfgOf {} Gen.lang8) ⟨.literal b!"href", b!"http://www.example.org/"⟩).map (·.value) = some (some b!"http://www.") ∧
    (startRow (dcfgOf {} Gen.lang8) ⟨.literal b!"href", b!"http://"⟩).map (·.value) = some (some b!"http://") ∧
    (startRow (dcfgOf {} Gen.lang8) ⟨.literal b!"href", b!"x"⟩).map (·.value) = some none ∧
    (startRow (dcfgOf {} Gen.lang8) ⟨.literal b!"nosuch", b!"x"⟩) = none := by decide +kernel

/-! ### Second trip: non-vacuity and witnesses -/

/-- `<wml><card id="a"> Hi there<b>x</b>  </card></wml>`: as `exWml`, without adjacent text nodes
    (what `wbxml_tree_from_xml` builds from an XML text). -/
def exMerged : Tree where
  lang := some Gen.lang3
  origCharset := 106
  root := some (.elt (.literal b!"wml") [] [
    .elt (.literal b!"card") [{ name := .literal b!"id", value := b!"a" }] [
      .text b!" Hi there", .elt (.literal b!"b") [] [.text b!"x"], .text b!"  "]])

/-- `<wml><card> </card></wml>`: an element whose only child is ignorable white space. -/
def exHollow : Tree where
  lang := some Gen.lang3
  origCharset := 106
  root := some (.elt (.literal b!"wml") [] [.elt (.literal b!"card") [] [.text b!" "]])

def exXcfg : W2XCfg := { main := Gen.main, gen := 0 }

/-- Both trips under the library's table and default options, Expat's run for the printed text
    being the canonical reading (`xmlEventsOf`, cf. `readsBack_canonical`): the first WBXML
    document, the printed XML, the second WBXML document, the XML printed from it. -/
def twoTrips (t : Tree) : Option (Bytes × Bytes × Bytes × Bytes) :=
  match treeToWbxml {} t with
  | .ok w1 =>
    match treeOfWbxml Gen.main (w1.length + 1) 0 0 w1 with
    | .ok t' =>
      match treeToXml exXcfg t'.xmlFuel t' with
      | .ok xml =>
        match treeOfXml Gen.main [(xml, { ok := true, events := xmlEventsOf (xcfgOf exXcfg Gen.lang3) t' })] 3 xml with
        | .ok t'' =>
          match treeToWbxml {} t'' with
          | .ok w2 =>
            (match wbxml2xml exXcfg w2 with
             | .ok xml3 => some (w1, xml, w2, xml3)
             | .error _ => none)
          | .error _ => none
        | _ => none
      | .error _ => none
    | .error _ => none
  | .error _ => none

/-- All hypotheses of `rt2_tree_partial` / `rt2_is_rt1_partial` that concern the source tree, the
    language and the options hold for `exMerged` (WML 1.3, compact XML, default encoder options). -/
example : rtLangOk Gen.lang3 = true ∧ treeOver Gen.lang3 exMerged = true ∧ plainNode (rootOr exMerged) = true ∧
    noDataNode (rootOr exMerged) = true ∧ isSyncml Gen.lang3.id = false ∧ textsNulFree (rootOr exMerged) = true ∧
    docTypeFinds Gen.main Gen.lang3 = true ∧ flagsOk (xcfgOf exXcfg Gen.lang3) (dcfgOf {} Gen.lang3) = true ∧
    readable (normNode (dcfgOf {} Gen.lang3) (rootOr exMerged)) = true ∧
    attrsReadable (xcfgOf exXcfg Gen.lang3) (normNode (dcfgOf {} Gen.lang3) (rootOr exMerged)) = true ∧
    valuesShort (normNode (dcfgOf {} Gen.lang3) (rootOr exMerged)) = true := by decide +kernel

/-- `ReadsBack` is satisfiable: for every plain tree of a language without namespace table, in a
    generation mode other than indent, by the run that reports `xmlEventsOf`. -/
example (xml : Bytes) (c : XCfg) (t : Tree) (r : Node) (hr : t.root = some r) (hp : plainNode r = true)
    (hns : c.lang.ns = none) (hg : c.gen ≠ 1) :
    ReadsBack [(xml, { ok := true, events := xmlEventsOf c t })] xml c t :=
  readsBack_canonical xml c t r hr hp hns hg

/-- The languages of `Gen.main` in the scope of the second-trip theorems: 14 of 29 (WML 1.0–1.3,
    WTA, WTA-WML, CHANNEL 1.1/1.2, SL, CO, PROV, MetInf 1.1/1.2, ConML). The printed document type
    selects its language again for all 29 (`docTypeFinds`). -/
example : (Gen.main.filter (fun l => rtLangOk l && l.ns.isNone && !isSyncml l.id && docTypeFinds Gen.main l)).map (·.id) =
    [1101, 1102, 1103, 1104, 1201, 1202, 1203, 1204, 1401, 1501, 1601, 2203, 2103, 2501] ∧
    Gen.main.all (docTypeFinds Gen.main) = true := by decide +kernel

/-- The printed text of the first round-trip tree of `exMerged`, and its rendering. -/
example : (match treeToWbxml {} exMerged with
    | .ok w1 => (match treeOfWbxml Gen.main (w1.length + 1) 0 0 w1 with
      | .ok t' => (match treeToXml exXcfg t'.xmlFuel t' with
        | .ok xml => xml == xmlHeader Gen.lang3 0 ++ renderNode (xcfgOf exXcfg Gen.lang3) (rootOr t') &&
            noBinaryNames (rootOr t') && plainNode (rootOr t') &&
            renderNode (xcfgOf exXcfg Gen.lang3) (rootOr t') == b!"<wml><card id=\"a\">Hi there<b>x</b></card></wml>"
        | .error _ => false)
      | .error _ => false)
    | .error _ => false) = true := by decide +kernel

/-- For `exMerged` the second WBXML document is the first, octet by octet, and so is the XML. -/
example : (twoTrips exMerged).map (fun p => p.1 == p.2.2.1 && p.2.1 == p.2.2.2) = some true := by decide +kernel

example : Gen.main.find? (fun x => x.id == Gen.lang3.id) = some Gen.lang3 := by decide +kernel

/-- **Octet-by-octet equality of the two WBXML documents fails** for an element whose only child is
    ignorable white space: the first encoding writes `card` with the content flag and an `END`
    (`67 01`), the round-trip tree has no child left, the second encoding writes `27`
    (known finding `empty-element-form-not-stable`). -/
theorem rt2_bytes_differ_hollow :
    (twoTrips exHollow).map (fun p => (hexOfBytes p.1, hexOfBytes p.2.2.1, p.2.1 == p.2.2.2)) =
      some ("030a6a007f670101", "030a6a007f2701", true) := by decide +kernel

/-- … and for two adjacent text nodes (API-built trees only): `STR_I "Hi" STR_I "there"` the first
    time, `STR_I "Hithere"` the second. -/
theorem rt2_bytes_differ_adjacent_text :
    (twoTrips exWml).map (fun p => (p.1 == p.2.2.1, p.2.1 == p.2.2.2)) = some (false, true) := by decide +kernel

/-! ### Second trip in a language with a namespace table: non-vacuity -/

/-- A SyncML 1.2 message with two code pages (`MaxMsgSize` is MetInf) and a status `Data`, as
    `wbxml_tree_from_xml` delivers it (token names). -/
def exStatusT : Tree where
  lang := some Gen.lang15
  origCharset := 106
  root := some (.elt (.token ⟨b!"SyncML", 0, 0x2D, 0⟩) [] [
    .elt (.token ⟨b!"SyncHdr", 0, 0x2C, 0⟩) [] [
      .elt (.token ⟨b!"Meta", 0, 0x1A, 0⟩) [] [
        .elt (.token ⟨b!"MaxMsgSize", 1, 0x0C, 0⟩) [] [.text b!"5000"]]],
    .elt (.token ⟨b!"SyncBody", 0, 0x2B, 0⟩) [] [
      .elt (.token ⟨b!"Status", 0, 0x29, 0⟩) [] [
        .elt (.token ⟨b!"CmdID", 0, 0x0B, 0⟩) [] [.text b!"1"],
        .elt (.token ⟨b!"Cmd", 0, 0x0A, 0⟩) [] [.text b!"SyncHdr"],
        .elt (.token ⟨b!"Data", 0, 0x0F, 0⟩) [] [.text b!" 200 "]],
      .elt (.token ⟨b!"Final", 0, 0x12, 0⟩) [] []]])

/-- Both trips under the library's table and default options, the namespace-aware run for the
    printed text being the canonical reading (`xmlEventsNs`, cf. `readsBackNs_canonical`):
    the printed XML, whether the first and the third tree are `normNodeTyped` of the source, and
    whether the two WBXML documents are equal. -/
def twoTripsNs (t : Tree) (lang : Lang) : Option (Bytes × Bool × Bool × Bool) :=
  match treeToWbxml {} t with
  | .ok w1 =>
    match treeOfWbxml Gen.main (w1.length + 1) 0 0 w1 with
    | .ok t' =>
      match treeToXml exXcfg t'.xmlFuel t' with
      | .ok xml =>
        let evs := xmlDeclEv :: docTypeOf lang :: xmlEventsNs (xcfgOf exXcfg lang) .none none (rootOr t')
        match treeOfXml Gen.main [(xml, { ok := true, events := evs })] 3 xml with
        | .ok t'' =>
          match treeToWbxml {} t'' with
          | .ok w2 =>
            (match treeOfWbxml Gen.main (w2.length + 1) 0 0 w2 with
             | .ok t3 => some (xml, plainEq (rootOr t') (normNodeTyped (dcfgOf {} lang) (rootOr t)),
                 plainEq (rootOr t3) (normNodeTyped (dcfgOf {} lang) (rootOr t)) && t3.lang == t'.lang, w1 == w2)
             | .error _ => none)
          | .error _ => none
        | _ => none
      | .error _ => none
    | .error _ => none
  | .error _ => none

/-- All hypotheses of `rt2_is_rt1_ns_partial` that concern the source tree, the language and the
    options hold for the SyncML message (compact XML, default encoder options) … -/
example : Gen.lang15.ns.isSome = true ∧ (Gen.lang15.id == 1801) = false ∧ treeOver Gen.lang15 exStatusT = true ∧
    C06.typedHyps {} Gen.lang15 (rootOr exStatusT) = true ∧ plainNode (rootOr exStatusT) = true ∧
    dataIsNormal (normNodeTyped (dcfgOf {} Gen.lang15) (rootOr exStatusT)) = true ∧
    fixedNode (dcfgOf {} Gen.lang15) none none 0 (rootOr exStatusT) = true ∧
    nsReadable Gen.lang15 (normNodeTyped (dcfgOf {} Gen.lang15) (rootOr exStatusT)) = true ∧
    docTypeFinds Gen.main Gen.lang15 = true ∧ flagsOk (xcfgOf exXcfg Gen.lang15) (dcfgOf {} Gen.lang15) = true ∧
    dataOkX (xcfgOf exXcfg Gen.lang15) [] (normNodeTyped (dcfgOf {} Gen.lang15) (rootOr exStatusT)) = true := by
  decide +kernel

/-- ActiveSync (two code pages, `AirSync:` and `Provision:`): the hypotheses of
    `rt2_is_rt1_ns_partial` hold as well. -/
def exAsT : Tree where
  lang := some Gen.lang27
  origCharset := 106
  root := some (.elt (.token ⟨b!"Sync", 0, 5, 0⟩) [] [
    .elt (.token ⟨b!"SyncKey", 0, 11, 0⟩) [] [.text b!" 12 "],
    .elt (.token ⟨b!"DeviceEncryptionEnabled", 14, 16, 0⟩) [] [.text b!"1"]])

example : Gen.lang27.ns.isSome = true ∧ (Gen.lang27.id == 1801) = false ∧ treeOver Gen.lang27 exAsT = true ∧
    C06.typedHyps {} Gen.lang27 (rootOr exAsT) = true ∧ plainNode (rootOr exAsT) = true ∧
    dataIsNormal (normNodeTyped (dcfgOf {} Gen.lang27) (rootOr exAsT)) = true ∧
    fixedNode (dcfgOf {} Gen.lang27) none none 0 (rootOr exAsT) = true ∧
    nsReadable Gen.lang27 (normNodeTyped (dcfgOf {} Gen.lang27) (rootOr exAsT)) = true ∧
    docTypeFinds Gen.main Gen.lang27 = true ∧ flagsOk (xcfgOf exXcfg Gen.lang27) (dcfgOf {} Gen.lang27) = true ∧
    dataOkX (xcfgOf exXcfg Gen.lang27) [] (normNodeTyped (dcfgOf {} Gen.lang27) (rootOr exAsT)) = true := by
  decide +kernel

/-- `ReadsBackNs` is satisfiable: for every plain tree, in a generation mode other than indent. -/
example (xml : Bytes) (c : XCfg) (t : Tree) (r : Node) (hr : t.root = some r) (hp : plainNode r = true) (hg : c.gen ≠ 1) :
    ReadsBackNs [(xml, { ok := true, events := xmlDeclEv :: docTypeOf c.lang :: xmlEventsNs c .none none r })] xml c t :=
  readsBackNs_canonical xml c t r hr hp hg

/-- The languages with a namespace table `rt2_is_rt1_ns_partial` speaks about (9 of 29). -/
example : (Gen.main.filter (fun l => l.ns.isSome && !(l.id == 1801) && !isWv l.id && !(l.id == 1901))).map (·.id) =
    [2201, 2202, 2204, 2101, 2102, 2001, 2002, 2401, 2402] := by decide +kernel

/-!
  ## What is still missing (kept visible, not claimed)

  Full strength (DESIGN §5 C03):

      rt_preserves : accepted cfg t → treeOfWbxml main fuel 0 0 (treeToWbxml cfg t) = .ok (norm cfg t)
      rt_idem      : RT (RT x) = RT x   (XML text to XML text)

  Proved above — first trip: `rt_preserves_typed_partial` (EXACT equality with `normNodeTyped`, typed
  content, `Data` elements through `dataIsNormal`, 26 languages; `rt_preserves_exact_untyped`) and
  the older `rt_preserves_partial` (`canon r' = normNode c r`, 21 plain languages, no `Data`;
  `norm_typed_refines_norm`: `canon (normNodeTyped c r) = normNode c r` there);
  `build_reconstructs(_data)`; the normal forms are idempotent (`norm_idempotent(_merged)`,
  `norm_typed_idempotent`); second trip: `rt2_tree_partial`, `rt2_is_rt1_partial` (14 languages
  without namespace table) and `rt2_is_rt1_ns_partial` (9 languages with one: SyncML family,
  ActiveSync; exact tree equality). Former items 1–4 and 6(a) of this list are done:

    * EXACT table rows (former 1, 3): `normNodeTyped` carries the representation of names
      (`exactName`: the first row with the page and token of the row the encoder works with — the
      same row except for ActiveSync's second alias, `exact_row_main`, `activesync_alias_first`;
      `exactAName` of the start row `startRow` for attributes). Table facts:
      `tag_tables_names_uniq` (`tagNamesUniqPerPage`, all 29 languages), `tag_tables_self_find` (the
      converse of the encoder's name resolution), `tag_tables_tokens_uniq_partial`.
    * `Data` (former 2): `dataIsNormal` (decidable, evaluated with the model's own
      `syncmlDataType` on the frames the builder has when the text arrives) instead of "no element
      is called `Data`"; SyncML status `<Data>200</Data>` is an example.
    * Typed content (former 4): the round-trip tree has typed texts in their typed normal form
      (`vText`: `normText` / raw octets under a binary-flagged tag / `b64Norm` under DRMREL
      `ds:KeyValue`; `vAttrValue`: `datetimeNorm` under an SI / EMN `%Datetime` start token).

  Still to be proved, each with the lemma that is missing:

    1. Wireless Village 1.1/1.2 and OTA settings in `rt_preserves_typed_partial`: `encNode_seg`'s
       typed view (`ViewT`, `TreeT`) excludes them (`wvContentW`'s position-dependent integer /
       date-time typing and the OTA icon value need their own `vText` / `vAttrValue` branches;
       `wvIntNorm` is idempotent, a `wvDateNorm` with idempotence does not exist in C12).
    2. CDATA sections and embedded documents in the source tree (written as OPAQUE; the reader's
       tree needs the nested document's own round-trip theorem and `st.cdata` accumulation as a
       source function), and `Data` elements where `syncmlDataType` does NOT answer `normal`
       (the builder opens a CDATA node / parses an embedded tree: `run_items_d` with the other
       three `SyncType` cases).
    3. `norm_typed_idempotent` is stated with the decidable per-form hypothesis `fixedNode`
       (`nameFixed`, `attrFixed`, `textFixed`); proved per form: `textFixed_normal`,
       `textFixed_binary`, `nameFixed_token`, `nameFixed_exact`. Missing as lemmas (they are
       evaluated in the examples): `textFixed` under `ds:KeyValue` from `C06.base64_by_value`
       (needs "the RFC 4648 text of ≥ 1 octet is non-empty, blank-free, NUL-free") and
       `attrFixed` from `attrSemOk` + "the value prefix of a token name matches" +
       `C06.datetime_by_value_canon`. Without `fixedNode` idempotence at the exact level is FALSE
       for API-built trees: a literal element name `ds:KeyValue` that the table resolves makes
       the second pass base64-normalise a text the first pass left alone; a token attribute name
       whose value prefix does not match is written as a literal and re-resolved by the second
       pass (both only for trees no XML reading produces).
    4. Second trip: (a) literal elements, attributes and binary-flagged elements in the namespace
       languages (`nsReadable` excludes them: needs `xmlElt`'s `encAttr` look-ups against
       `startRow`, and the base64 text of binary-flagged content in `ReadsNs`); the printer's
       SyncML media-type rewriting under `Type` is not in `printedText` (a tree with such a text
       falsifies the assumption `ReadsBackNs`, so the theorem is vacuous, not wrong, there);
       (b) indented output: `Reads`/`ReadsNs` need the white-space `chars` events between elements
       (C07 `indent_read_back_same_up_to_blank_text_partial` has the compact-equivalent form);
       (c) the XML TEXT of the second trip equal to the first IS proved in both scopes (last clause
       of `rt2_is_rt1_partial` and of `rt2_is_rt1_ns_partial`; `treeToXml_same`: a successful
       print depends neither on surplus fuel nor on the recorded charset);
       (d) octet-by-octet equality of the two WBXML documents is FALSE as it stands
       (`rt2_bytes_differ_hollow`, `rt2_bytes_differ_adjacent_text`); for trees without such
       elements / text nodes it needs an encoder congruence
       (`normNode c a = normNode c b → encNodeG c p e a st = encNodeG c p e b st` up to `textNo`),
       including the string-table pre-pass.
    5. `norm_idempotent` without hypothesis is false (`norm_not_idempotent_nul`,
       `norm_not_idempotent_syncml`); `norm_idempotent_merged` covers every language for trees
       without adjacent text nodes. Nothing missing here.

  Observation kept from the first round (a defect candidate, not modelled away): a TAB or LF in an
  attribute value (possible in a source document only as `&#9;` / `&#10;`) is written literally by
  `xml_encode_attr` in compact and indented mode; an XML reader normalises it to a space
  (XML 1.0 §3.3.3), so the second round trip differs from the first (`attrNormalize`,
  `attrReadable`). Same shape as the carriage-return defect fixed by 51380fd.
-/

end Wbxml.Props.C03
