/-
  C03 — XML → WBXML → XML round trip: the composition statements that follow from C06
  (`treeToWbxml` writes `Spec.ser d`) and C04 (`parse (ser d)` delivers `Spec.events d`).

  `RT` at tree level is `treeOfWbxml main fuel forced meta (treeToWbxml cfg t)`.
  Proved here: the round trip keeps the language and announces UTF-8 (`rt_header`, every tree);
  for outputs without OPAQUE token the round-trip tree is the tree the builder makes of the
  SPECIFICATION's reading of the document the encoder wrote (`rt_is_spec_tree_partial`).
  Not proved: `rt_preserves` (`RT cfg t = norm cfg t`) — see the note at the end.
-/
import Wbxml.Props.C06
import Wbxml.Lemmas.EncWRt
set_option maxRecDepth 100000
namespace Wbxml.Props.C03
open Wbxml Wbxml.Model Wbxml.Spec Wbxml.Lemmas.EncW Wbxml.Lemmas.ParseSer

/-- **`rt_header`.** For EVERY tree the encoder accepts: the output starts with a header `hd` of
    the requested version announcing UTF-8, and whenever `wbxml_tree_from_wbxml` accepts the
    output under a reader configuration for which `hd` selects the tree's language (numeric or
    textual public identifier found in `main`, or the language forced), the resulting tree has
    that language (the main-table entry with its id) and the header's character set (UTF-8 for
    versions 1.1–1.3). -/
theorem rt_header (cfg : X2WCfg) (t : Tree) (bs : Bytes) (lang : Lang) (hlang : t.lang = some lang)
    (hl : langOk lang = true) (h : treeToWbxml cfg t = .ok bs) :
    ∃ (hd : Header) (body : Bytes), bs = serHeader hd ++ body ∧ hd.version = cfg.version ∧ hd.charset = 106 ∧
      ∀ (main : List Lang) (f forced metaCs : Nat) (t' : Tree),
        headerLang (pcfgOf main forced metaCs) hd = some lang →
        (headerCharset (pcfgOf main forced metaCs) hd = 3 ∨ headerCharset (pcfgOf main forced metaCs) hd = 106) →
        cfg.version < 256 → bs.length < 4294967295 →
        treeOfWbxml main (f + 1) forced metaCs bs = .ok t' →
        t'.lang = main.find? (fun x => x.id == lang.id) ∧
        t'.origCharset = headerCharset (pcfgOf main forced metaCs) hd := by
  obtain ⟨lang', r, fs, hl', hr, hrun, hbs⟩ := C06.header_is_ser cfg t bs h
  rw [hlang] at hl'; injection hl' with hl'; subst hl'
  obtain ⟨hinv, hno⟩ := doc_final_inv _ r fs hrun
  refine ⟨hdrOf (dcfgOf cfg lang) fs, fs.out, hbs, by simp [hdrOf], rfl, ?_⟩
  intro main f forced metaCs t' hsel hcs hver hsize hrt
  have htbl : (strtblBytes (finalTbl (dcfgOf cfg lang) fs)).length < 4294967295 := by
    have : (tblBytes (hdrOf (dcfgOf cfg lang) fs).strtbl).length ≤ bs.length := by
      rw [hbs, serHeader]
      simp only [List.length_append, List.length_cons]
      omega
    have e : tblBytes (hdrOf (dcfgOf cfg lang) fs).strtbl = strtblBytes (finalTbl (dcfgOf cfg lang) fs) :=
      tblBytes_map _
    rw [e] at this
    omega
  have hwf := hdrOf_wf (dcfgOf cfg lang) fs hinv (by rw [dcfgOf_lang]; exact hl) (pcfgOf main forced metaCs)
    hcs (charsets_ok main forced metaCs _ hcs) (by rw [dcfgOf_version]; exact hver) htbl
  have hph := Props.C04.parse_ser_header (pcfgOf main forced metaCs) _ hwf lang hsel fs.out
  obtain ⟨s, l, hh, h1, h2⟩ := treeOfWbxml_header main f forced metaCs bs t' hrt
  rw [hbs] at hh
  have heq := hh.symm.trans hph
  injection heq with heq
  injection heq with hs hl2
  subst hl2
  refine ⟨h1, ?_⟩
  rw [h2, hs]
  rfl

/-- In the library's main table a language id selects its own entry. -/
theorem main_find_self : ∀ l ∈ Gen.main, Gen.main.find? (fun x => x.id == l.id) = some l := by decide +kernel

/-- `rt_header` for the library's table: the round-trip tree has exactly the source tree's
    language entry. -/
theorem rt_header_main (cfg : X2WCfg) (t : Tree) (bs : Bytes) (lang : Lang) (hlang : t.lang = some lang)
    (hm : lang ∈ Gen.main) (h : treeToWbxml cfg t = .ok bs) :
    ∃ (hd : Header) (body : Bytes), bs = serHeader hd ++ body ∧
      ∀ (f forced metaCs : Nat) (t' : Tree),
        headerLang (pcfgOf Gen.main forced metaCs) hd = some lang →
        (headerCharset (pcfgOf Gen.main forced metaCs) hd = 3 ∨ headerCharset (pcfgOf Gen.main forced metaCs) hd = 106) →
        cfg.version < 256 → bs.length < 4294967295 →
        treeOfWbxml Gen.main (f + 1) forced metaCs bs = .ok t' → t'.lang = t.lang := by
  obtain ⟨hd, body, hbs, _, _, hrt⟩ := rt_header cfg t bs lang hlang (C06.langOk_of_main lang hm) h
  refine ⟨hd, body, hbs, ?_⟩
  intro f forced metaCs t' h1 h2 h3 h4 h5
  rw [(hrt Gen.main f forced metaCs t' h1 h2 h3 h4 h5).1, main_find_self lang hm, hlang]

/-- The tree `wbxml_tree_from_wbxml` builds from an event list (what it does after parsing). -/
def treeOfEvents (main : List Lang) (emb : Nat → Bytes → Option Tree) (evs : List Event) : Except Err Tree :=
  let b := evs.foldl (buildStep main emb) {}
  match b.error with
  | some e => .error (.code e)
  | none => .ok { lang := b.lang, origCharset := b.charset, root := b.root }

/-- How `wbxml_tree_from_wbxml` reads embedded documents at fuel `f`. -/
def embOf (main : List Lang) (f : Nat) : Nat → Bytes → Option Tree := fun cs bs =>
  match treeOfWbxml main f 0 cs bs with
  | .ok t => some t
  | .error _ => none

/-- **Round trip = the specification's reading of what the encoder wrote** (`_partial`: languages
    without typed content, or outputs without OPAQUE token, see `C06.enc_is_ser_wf_partial`). The tree `RT cfg t` is the tree the
    builder makes of `Spec.events pcfg d`, where `d` is the grammar value with `bs = Spec.ser d`:
    the library's tolerant parser adds nothing to, and removes nothing from, the strict reading of
    the encoder's output. -/
theorem rt_is_spec_tree_partial (cfg : X2WCfg) (t : Tree) (bs : Bytes) (lang : Lang) (hlang : t.lang = some lang)
    (hl : langOk lang = true) (hover : treeOver lang t = true) (h : treeToWbxml cfg t = .ok bs) :
    ∃ d : Doc, bs = Spec.ser d ∧
      ∀ (main : List Lang) (f forced metaCs : Nat),
        headerLang (pcfgOf main forced metaCs) d.hdr = some lang →
        (headerCharset (pcfgOf main forced metaCs) d.hdr = 3 ∨ headerCharset (pcfgOf main forced metaCs) d.hdr = 106) →
        cfg.version < 256 → bs.length < 4294967296 → (opqsDoc d = [] ∨ untypedLang lang.id = true) →
        treeOfWbxml main (f + 1) forced metaCs bs =
          treeOfEvents main (embOf main f) (Spec.events (pcfgOf main forced metaCs) d) := by
  obtain ⟨d, hs, hdec⟩ := C06.decodes_by_spec_partial cfg t bs lang hlang hl hover h
  refine ⟨d, hs, ?_⟩
  intro main f forced metaCs h1 h2 h3 h4 h5
  obtain ⟨hres, hev⟩ := hdec (pcfgOf main forced metaCs) h1 h2 (charsets_ok main forced metaCs _ h2) h3 h4 h5
  rw [treeOfWbxml]
  have hp : parse { main := main, langForced := forced, metaCharset := metaCs } bs = parse (pcfgOf main forced metaCs) bs := rfl
  rw [hp, hres, hev]
  rfl

/-- **Round trip at the level of parser events** (`_partial`: plain trees of plain languages, see
    `C06.denotes_source_partial`): what the library's own parser — as `wbxml_tree_from_wbxml` runs
    it — delivers on the encoder's output has exactly the XML-level view of the source tree:
    same element nesting and names, same attributes with the same values in the same order, same
    character data after `normText` (white space trimmed / white-space-only text dropped unless
    kept, C-string reading, SyncML media-type rewriting). -/
theorem rt_events_view_partial (cfg : X2WCfg) (t : Tree) (bs : Bytes) (lang : Lang) (r : Node)
    (hlang : t.lang = some lang) (hroot : t.root = some r)
    (hl : langOk lang = true) (hover : treeOver lang t = true) (h : treeToWbxml cfg t = .ok bs)
    (hpn : plainNode r = true) (hpl : plainLang lang = true) (hnta : noTypedAttr lang.id = true)
    (hvs : valSemOk lang = true) (has : attrSemOk lang = true) (hts : tagSemOk lang = true)
    (han : attrNameSemOk lang = true) :
    ∃ d : Doc, bs = Spec.ser d ∧
      ∀ (main : List Lang) (forced metaCs : Nat),
        headerLang (pcfgOf main forced metaCs) d.hdr = some lang →
        (headerCharset (pcfgOf main forced metaCs) d.hdr = 3 ∨ headerCharset (pcfgOf main forced metaCs) d.hdr = 106) →
        cfg.version < 256 → bs.length < 4294967296 →
        (parse (pcfgOf main forced metaCs) bs).result = .ok () ∧
        (parse (pcfgOf main forced metaCs) bs).events.flatMap toks = srcToks (dcfgOf cfg lang) r := by
  obtain ⟨d, hs, hk⟩ := C06.denotes_source_partial cfg t bs lang r hlang hroot hl hover h hpn hpl hnta hvs has hts han
  refine ⟨d, hs, ?_⟩
  intro main forced metaCs h1 h2 h3 h4
  obtain ⟨_, r1, _, r3⟩ := hk (pcfgOf main forced metaCs) h1 h2 (charsets_ok main forced metaCs _ h2) h3 h4
  exact ⟨r1, r3⟩

/-! ## Non-vacuity -/

/-- The round trip of C06's example tree under the library's table: accepted, same language,
    UTF-8. -/
example : (match treeToWbxml C06.exCfg C06.exTree with
    | .ok bs => (match treeOfWbxml Gen.main (bs.length + 1) 0 0 bs with
      | .ok t' => t'.lang == some Gen.lang15 && t'.origCharset == 106
      | .error _ => false)
    | .error _ => false) = true := by decide +kernel

example : headerLang (pcfgOf Gen.main 0 0) Props.C04.exSyncml.hdr = some Gen.lang15 := by decide +kernel

/-!
  ## `rt_preserves` — what is missing (kept visible, not claimed)

  Full strength (DESIGN §5 C03):

      rt_preserves : accepted cfg t → treeOfWbxml main fuel 0 0 (treeToWbxml cfg t) = .ok (norm cfg t)

  With `rt_is_spec_tree_partial` the left side is `treeOfEvents … (Spec.events pcfg d)` for the `d`
  the encoder wrote, and `rt_events_view_partial` says what those events are for plain trees of plain
  languages (value splitting keeps the concatenation, names and value prefixes are resolved to the
  rows the encoder used, `Lemmas.EncW.encNode_seg` / `ViewN`). Still to be proved:
    1. the builder (`buildStep`, `addKid`) over a balanced event list yields a tree whose view is the
       events' view — including its SyncML special cases (`syncmlDataType`: character data of a
       `Data` element may become a CDATA node or, when `Type` says `+wbxml` and the text happens to
       parse, an embedded tree);
    2. the "earlier alias" normalisation for ActiveSync (`tagSemOk` fails there: two names share a
       token; C08's `tagDecEnc` gives the first alias);
    3. typed content (`opqsDoc d ≠ []`: Wireless Village, DRMREL, SI, EMN, OTA, `NextNonce`): C12's
       round-trip laws as side conditions per opaque, the known findings listed at
       `C06.enc_is_ser_wf_partial` as exclusions;
    4. CDATA sections and embedded documents in the source tree (written as OPAQUE; the reader's
       view needs the nested document's own `denotes_source`).
-/

end Wbxml.Props.C03
