/-
  C14 — concurrent conversions do not interfere with each other.

  Part 1 (for ALL thread counts, programs and schedules, by induction): on a machine whose steps
  read the shared state and touch only the stepping thread's local state, every complete
  interleaving gives every thread exactly the results of running its program alone.
  Part 2 (over the REGENERATED `Gen.Globals`, by kernel evaluation of complete finite tables): the
  C library meets the machine's premise — it owns no writable process-wide memory and references no
  external that is not re-entrant.
  A data race between C statements is not expressible in Part 1's interleaving semantics; that part
  of the property is validated (not proved) by the ThreadSanitizer runs of `tools/props/c14.py`.
-/
import Wbxml.Lemmas.Conc
import Wbxml.Model.Posix
import Wbxml.Gen.Globals
set_option maxRecDepth 100000
namespace Wbxml.Props.C14
open Wbxml Wbxml.Model.Conc Wbxml.Model.Posix

variable {Sh L Op Out : Type} {n : Nat}

/-! ## Part 1 — schedule independence of the abstract machine -/

/-- Steps of distinct threads commute: the shared state is not written and the two updates of the
    thread family are at distinct indices. -/
theorem steps_of_distinct_threads_commute (M : Machine Sh L Op Out) (hro : M.ReadOnly) {i j : Fin n}
    (hij : i ≠ j) (c : Config n Sh L Op Out) :
    stepThread M i (stepThread M j c) = stepThread M j (stepThread M i c) :=
  stepThread_comm M hro hij c

/-- Hence any two adjacent turns of distinct threads may be swapped anywhere in a schedule. -/
theorem adjacent_turns_swap (M : Machine Sh L Op Out) (hro : M.ReadOnly) {i j : Fin n} (hij : i ≠ j)
    (a b : List (Fin n)) (c : Config n Sh L Op Out) :
    run M (a ++ i :: j :: b) c = run M (a ++ j :: i :: b) c :=
  run_swap_adjacent M hro hij a b c

/-- After ANY schedule (complete or not) a thread has produced exactly the first `count i` results of
    its own sequential run: nothing another thread did is visible in them. -/
theorem outputs_are_a_prefix_of_the_sequential_run (M : Machine Sh L Op Out) (hro : M.ReadOnly) (sh : Sh)
    (init : Fin n → L) (progs : Fin n → List Op) (s : List (Fin n)) (i : Fin n) :
    outputs (run M s (start sh init progs)) i = (seqRun M sh (init i) (progs i)).2.2.take (s.count i) := by
  simp only [outputs]
  rw [run_th M hro, iter_outs_prefix, seqRun_readOnly M hro]
  simp [start]

/-- A complete interleaving leaves the shared state untouched, finishes every program, and gives
    every thread the final local state and the results of its sequential run. -/
theorem complete_run_eq_sequential (M : Machine Sh L Op Out) (hro : M.ReadOnly) (sh : Sh)
    (init : Fin n → L) (progs : Fin n → List Op) (s : List (Fin n)) (hs : Complete progs s) (i : Fin n) :
    (run M s (start sh init progs)).sh = sh ∧
    ((run M s (start sh init progs)).th i).todo = [] ∧
    ((run M s (start sh init progs)).th i).loc = (seqRun M sh (init i) (progs i)).2.1 ∧
    outputs (run M s (start sh init progs)) i = (seqRun M sh (init i) (progs i)).2.2 := by
  have hth := run_th M hro s (start sh init progs) i
  have hc : ((start sh init progs : Config n Sh L Op Out).th i).todo.length ≤ s.count i := by
    simpa [start] using hs i
  rw [iter_complete M _ _ _ hc] at hth
  refine ⟨by rw [run_sh M hro]; rfl, ?_, ?_, ?_⟩
  · rw [hth]
  · rw [hth, seqRun_readOnly M hro]; rfl
  · simp only [outputs]
    rw [hth, seqRun_readOnly M hro]
    simp [start]

/-- **Schedule independence**, for every number of threads `n`, every family of programs and
    initial local states, and every two complete interleavings: each thread's outputs coincide, and
    equal the outputs of its program run alone. -/
theorem schedule_independence (M : Machine Sh L Op Out) (hro : M.ReadOnly) (sh : Sh)
    (init : Fin n → L) (progs : Fin n → List Op) (s₁ s₂ : List (Fin n))
    (h₁ : Complete progs s₁) (h₂ : Complete progs s₂) (i : Fin n) :
    outputs (run M s₁ (start sh init progs)) i = outputs (run M s₂ (start sh init progs)) i ∧
    outputs (run M s₁ (start sh init progs)) i = (seqRun M sh (init i) (progs i)).2.2 := by
  have a := (complete_run_eq_sequential M hro sh init progs s₁ h₁ i).2.2.2
  have b := (complete_run_eq_sequential M hro sh init progs s₂ h₂ i).2.2.2
  exact ⟨a.trans b.symm, a⟩

/-- The whole final configuration (not only the outputs) is the same for any two complete schedules. -/
theorem final_configuration_independent (M : Machine Sh L Op Out) (hro : M.ReadOnly) (sh : Sh)
    (init : Fin n → L) (progs : Fin n → List Op) (s₁ s₂ : List (Fin n))
    (h₁ : Complete progs s₁) (h₂ : Complete progs s₂) :
    run M s₁ (start sh init progs) = run M s₂ (start sh init progs) := by
  apply config_ext
  · rw [run_sh M hro, run_sh M hro]
  · intro i
    have hc : ∀ s, Complete progs s →
        ((start sh init progs : Config n Sh L Op Out).th i).todo.length ≤ s.count i :=
      fun s hs => by simpa [start] using hs i
    rw [run_th M hro, run_th M hro, iter_complete M _ _ _ (hc s₁ h₁), iter_complete M _ _ _ (hc s₂ h₂)]

/-- Complete schedules exist for every family of programs (the hypothesis is never vacuous): running
    the threads one after the other is one. -/
theorem sequential_schedule_is_complete (progs : Fin n → List Op) : Complete progs (sequentialSchedule progs) :=
  sequentialSchedule_complete progs

/-- The shape the library's calls have once Part 2 holds — a pure function of the read-only tables,
    the caller's own objects and the request — is a read-only machine, whatever the function. -/
theorem pure_machine_read_only (f : Sh → L → Op → L × Out) : (pureMachine f).ReadOnly :=
  fun _ _ _ => rfl

/-- So conversions of that shape are schedule independent, for any `f` (the byte-level conversion
    model plugs in here). -/
theorem conversions_schedule_independent (f : Sh → L → Op → L × Out) (sh : Sh)
    (init : Fin n → L) (progs : Fin n → List Op) (s₁ s₂ : List (Fin n))
    (h₁ : Complete progs s₁) (h₂ : Complete progs s₂) (i : Fin n) :
    outputs (run (pureMachine f) s₁ (start sh init progs)) i
      = outputs (run (pureMachine f) s₂ (start sh init progs)) i :=
  (schedule_independence (pureMachine f) (pure_machine_read_only f) sh init progs s₁ s₂ h₁ h₂ i).1

/-- The premise is necessary: with ONE writable global (a call counter) two complete schedules of two
    one-operation threads give thread 0 different results. -/
theorem writable_global_breaks_independence :
    ∃ (s₁ s₂ : List (Fin 2)) (progs : Fin 2 → List Unit),
      Complete progs s₁ ∧ Complete progs s₂ ∧
      outputs (run counterMachine s₁ (start 0 (fun _ => ()) progs)) 0
        ≠ outputs (run counterMachine s₂ (start 0 (fun _ => ()) progs)) 0 :=
  ⟨[0, 1], [1, 0], fun _ => [()], by decide, by decide, by decide⟩

theorem counter_machine_not_read_only : ¬ counterMachine.ReadOnly :=
  fun h => absurd (h 0 () ()) (by decide)

/-! ### Non-vacuity: a concrete 3-thread instance with two genuinely different complete schedules -/

example : Complete demoProgs ([0, 1, 2, 0, 1, 0] : List (Fin 3)) := by decide
example : Complete demoProgs ([2, 1, 1, 0, 0, 0, 2] : List (Fin 3)) := by decide
example : ([0, 1, 2, 0, 1, 0] : List (Fin 3)) ≠ [2, 1, 1, 0, 0, 0, 2] := by decide
example : outputs (run demoMachine ([0, 1, 2, 0, 1, 0] : List (Fin 3)) (start [10, 20, 30] (fun _ => 0) demoProgs)) 0
    = [10, 30, 60] := by decide
example : outputs (run demoMachine ([2, 1, 1, 0, 0, 0, 2] : List (Fin 3)) (start [10, 20, 30] (fun _ => 0) demoProgs)) 0
    = [10, 30, 60] := by decide
example : (seqRun demoMachine [10, 20, 30] 0 (demoProgs 0)).2.2 = [10, 30, 60] := by decide
/-- An incomplete schedule is rejected by `Complete` (the predicate is not trivially true). -/
example : ¬ Complete demoProgs ([0, 1, 2] : List (Fin 3)) := by decide

/-! ## Part 2 — the structural premises, over the regenerated symbol dump -/

/-- **No writable globals**: every object symbol of every archive member — file-scope variables and
    function-local statics alike — lies in a read-only section (`.rodata*`, `.data.rel.ro*`, `.text*` …)
    or is a C-runtime / sanitizer object. -/
theorem no_writable_globals :
    ∀ g ∈ Gen.Globals.objects, objectOK g.sec g.name = true := by decide +kernel

/-- The same fact without relying on symbols: every non-empty section that is writable and allocated
    is a `.data.rel.ro*` section (no `.data`, `.bss`, `.tdata`, `.tbss`, COMMON or anonymous writable data). -/
theorem no_writable_sections :
    ∀ s ∈ Gen.Globals.wsections, writableSectionOK s.sec = true := by decide +kernel

/-- No object is a COMMON or thread-local symbol either (per-thread state would survive from one call
    to the next on the same thread). -/
theorem no_common_or_tls_objects :
    ∀ g ∈ Gen.Globals.objects, (g.kind == b!"OBJECT") = true := by decide +kernel

theorem externals_classified_ok :
    ∀ s ∈ Gen.Globals.undefined, externOK s = true := by decide +kernel

/-- What `externOK` means, for any symbol. -/
theorem externOK_spec (s : Bytes) (h : externOK s = true) :
    keyOf (canon s) ∉ needNotBeThreadSafe ∧ keyOf (canon s) ∉ conditionallyNotThreadSafe ∧
    keyOf (canon s) ∉ implementationNotThreadSafe ∧ keyOf (canon s) ∉ processStateMutators ∧
    (keyOf (canon s) ∈ functions ∨ expatPrefix.isPrefixOf s = true ∨ isToolchain s = true) := by
  unfold externOK classify at h
  simp only at h
  split at h
  · simp [ExtClass.ok] at h
  · split at h
    · simp [ExtClass.ok] at h
    · split at h
      · simp [ExtClass.ok] at h
      · split at h
        · simp [ExtClass.ok] at h
        · rename_i h1 h2 h3 h4
          refine ⟨by simpa using h1, by simpa using h2, by simpa using h3, by simpa using h4, ?_⟩
          split at h
          · rename_i ht; exact Or.inr (Or.inr ht)
          · split at h
            · rename_i he; exact Or.inr (Or.inl he)
            · split at h
              · rename_i hf; exact Or.inl (by simpa using hf)
              · simp [ExtClass.ok] at h

/-- **Externals are re-entrant**: no undefined symbol of the library is on the POSIX.1-2017 §2.9.1
    list of functions that need not be thread-safe (nor on its NULL-state rider, nor MT-Unsafe in
    glibc), none mutates process-wide state, and each is a POSIX function, an Expat `XML_*`
    per-parser entry point, or a toolchain/sanitizer symbol. -/
theorem externals_reentrant : ∀ s ∈ Gen.Globals.undefined,
    keyOf (canon s) ∉ needNotBeThreadSafe ∧ keyOf (canon s) ∉ conditionallyNotThreadSafe ∧
    keyOf (canon s) ∉ implementationNotThreadSafe ∧ keyOf (canon s) ∉ processStateMutators ∧
    (keyOf (canon s) ∈ functions ∨ expatPrefix.isPrefixOf s = true ∨ isToolchain s = true) :=
  fun s hs => externOK_spec s (externals_classified_ok s hs)

/-- The dump is not empty or truncated: it has objects, externals, and sees the main token table. -/
theorem dump_is_populated :
    (decide (0 < Gen.Globals.objects.length) && decide (0 < Gen.Globals.undefined.length) &&
     Gen.Globals.objects.any (fun g => g.name == b!"sv_table_entry") &&
     Gen.Globals.members.contains b!"wbxml_parser.c.o") = true := by decide +kernel

/-! ### The committed constants behave as the rule says -/

/-- `sym!` (elaboration time) and `keyOf` (kernel) compute the same key. -/
theorem key_agrees : keyOf b!"strtok" = sym!"strtok" ∧ keyOf b!"XML_Parse" = sym!"XML_Parse" := by decide

/-- Every function on the §2.9.1 list, its riders and the mutator list is a POSIX.1-2017 interface
    (the lists refine `functions`; a typo in one of them would show here). -/
theorem bad_lists_are_posix :
    (needNotBeThreadSafe ++ conditionallyNotThreadSafe ++ implementationNotThreadSafe ++ processStateMutators).all
      (fun k => functions.contains k) = true := by decide +kernel

/-- The named offenders alarm (also through their glibc aliases). -/
theorem offenders_alarm :
    ([b!"strtok", b!"rand", b!"localtime", b!"gmtime", b!"asctime", b!"ctime", b!"strerror", b!"setlocale",
      b!"getenv", b!"readdir", b!"setenv", b!"putenv", b!"srand", b!"tmpnam", b!"getpwnam", b!"basename",
      b!"dirname", b!"inet_ntoa", b!"system", b!"chdir", b!"umask", b!"signal", b!"exit", b!"environ",
      b!"readdir64", b!"__wctomb_chk", b!"__xpg_basename", b!"some_unknown_function"] : List Bytes).all
      (fun s => !externOK s) = true := by decide +kernel

/-- Ordinary thread-safe POSIX functions, their re-entrant variants and fortify/ISO aliases do not. -/
theorem ordinary_functions_quiet :
    ([b!"strlen", b!"memcmp", b!"memcpy", b!"strtok_r", b!"rand_r", b!"localtime_r", b!"gmtime_r", b!"strerror_r",
      b!"snprintf", b!"qsort", b!"bsearch", b!"strtod", b!"iconv", b!"pthread_mutex_lock", b!"fopen", b!"fwrite",
      b!"__sprintf_chk", b!"__memcpy_chk", b!"__isoc99_sscanf", b!"__isoc23_strtol", b!"fopen64",
      b!"__stack_chk_fail", b!"__asan_report_load8", b!"__tsan_read4", b!"XML_ParserCreate"] : List Bytes).all
      externOK = true := by decide +kernel

/-- Which sections count as read-only, and which do not. -/
theorem section_rule :
    ([b!".rodata", b!".rodata.str1.1", b!".rodata.cst16", b!".data.rel.ro", b!".data.rel.ro.local", b!".text",
      b!".text.unlikely"] : List Bytes).all readOnlySection = true ∧
    ([b!".data", b!".bss", b!".tdata", b!".tbss", b!"COMMON", b!".data.rel", b!".data.rel.local", b!".init_array",
      b!".rodata_x", b!".data.rel.rox", b!""] : List Bytes).all (fun s => !readOnlySection s) = true := by
  decide +kernel

end Wbxml.Props.C14
