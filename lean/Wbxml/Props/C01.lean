/-
  C01 — WBXML→XML conversion is total and memory-safe on arbitrary bytes (model level).

  Theorems about `Model.wbxml2xml` (`Model/EncXml.lean`: `wbxml_conv_wbxml2xml_run` =
  `wbxml_tree_from_wbxml` ∘ `wbxml_tree_to_xml`), for ALL byte strings and ALL option tuples
  (`W2XCfg`: main table, forced language, fallback charset, generation mode, indent, keep-ws). The
  tie of the model to the C code is the byte-exact W2X correspondence.

  Proved at full strength: `w2x_no_ub`, `w2x_no_crash`, `w2x_tree_total`.
  Partial (see DESIGN_NOTES/C13_C01_proofs.md): `w2x_total_partial`, `w2x_contract_partial` — the
  fuel of the XML generator (`2·len + 4`) is sufficient whenever the tree fits (`okNode`), and the
  bound "the tree of an `n`-byte document fits into `2n + 4`" is not proved (it is false for
  adversarial language tables, see the notes).
-/
import Wbxml.Lemmas.ParserSafeBuild
namespace Wbxml.Props.C01
open Wbxml Wbxml.Model Wbxml.Lemmas.ParserSafe

/-- The empty input is refused with error 12 (`WBXML_ERROR_BAD_PARAMETER`). -/
theorem empty_input (cfg : W2XCfg) : wbxml2xml cfg [] = .error (.code 12) := rfl

/-- Tree stage (`wbxml_tree_from_wbxml`, parser + tree builder): a well-formed tree — it has a root,
    and so has every embedded document — or a non-zero error code. Never `ub`, `fuel`, `crash`. -/
theorem w2x_tree_total (cfg : W2XCfg) (bs : Bytes) :
    (∃ t, treeOfWbxml cfg.main (bs.length + 1) cfg.lang cfg.charset bs = .ok t ∧ GoodT t) ∨
    (∃ c, c ≠ 0 ∧ treeOfWbxml cfg.main (bs.length + 1) cfg.lang cfg.charset bs = .error (.code c)) := by
  rcases (treeOfWbxml_safe cfg.main bs.length cfg.lang cfg.charset bs).cases with ⟨t, ht, _⟩ | ⟨c, hc, hc0⟩
  · exact Or.inl ⟨t, ht, treeOfWbxml_good cfg.main _ _ _ _ _ ht⟩
  · exact Or.inr ⟨c, hc0, hc⟩

/-- The conversion's verdict is success, a non-zero error code, or — only from the XML generator —
    fuel exhaustion. -/
theorem w2x_contract_partial (cfg : W2XCfg) (bs : Bytes) :
    (∃ xml, wbxml2xml cfg bs = .ok xml) ∨ (∃ c, c ≠ 0 ∧ wbxml2xml cfg bs = .error (.code c)) ∨
    wbxml2xml cfg bs = .error .fuel := by
  rcases wbxml2xml_anatomy cfg bs with ⟨_, h⟩ | ⟨c, hc0, _, h⟩ | ⟨t, ht, h⟩
  · exact Or.inr (Or.inl ⟨12, by decide, h⟩)
  · exact Or.inr (Or.inl ⟨c, hc0, h⟩)
  · rw [h]
    exact (treeToXml_noub cfg _ t (treeOfWbxml_good cfg.main _ _ _ _ _ ht)).cases

/-- **No run of the conversion reaches a flagged operation**: not in the parser (blind cursor
    increments, language-table dereferences), and not in the generator (`tree without root`,
    `nested tree without root`): every tree the tree stage delivers has a root, and so has every
    embedded document in it. -/
theorem w2x_no_ub (cfg : W2XCfg) (bs : Bytes) (w : String) : wbxml2xml cfg bs ≠ .error (.ub w) := by
  intro h
  rcases w2x_contract_partial cfg bs with ⟨x, hx⟩ | ⟨c, _, hc⟩ | hf
  · rw [hx] at h; cases h
  · rw [hc] at h; cases h
  · rw [hf] at h; cases h

theorem w2x_no_crash (cfg : W2XCfg) (bs : Bytes) (w : String) : wbxml2xml cfg bs ≠ .error (.crash w) := by
  intro h
  rcases w2x_contract_partial cfg bs with ⟨x, hx⟩ | ⟨c, _, hc⟩ | hf
  · rw [hx] at h; cases h
  · rw [hc] at h; cases h
  · rw [hf] at h; cases h

/-- Where fuel can run out: only in the XML generator, and only if the tree the tree stage built
    does not fit into `2·len + 4` units (`okNode`: one unit per nesting level and per sibling). -/
theorem w2x_total_partial (cfg : W2XCfg) (bs : Bytes) (h : wbxml2xml cfg bs = .error .fuel) :
    ∃ t r, treeOfWbxml cfg.main (bs.length + 1) cfg.lang cfg.charset bs = .ok t ∧ t.root = some r ∧
      okNode (2 * bs.length + 4) r = false := by
  rcases wbxml2xml_anatomy cfg bs with ⟨_, h'⟩ | ⟨c, _, _, h'⟩ | ⟨t, ht, h'⟩
  · rw [h'] at h; cases h
  · rw [h'] at h; cases h
  · rcases treeOfWbxml_good cfg.main _ _ _ _ _ ht with hl | ⟨r, hr, _⟩
    · -- a tree without language is refused with error 12 before any generation
      rw [h'] at h
      simp [treeToXml, hl] at h
    · refine ⟨t, r, ht, hr, ?_⟩
      cases hok : okNode (2 * bs.length + 4) r with
      | false => rfl
      | true =>
        have := treeToXml_safe cfg (2 * bs.length + 4) t (Or.inr ⟨r, hr, hok⟩)
        rw [← h', h] at this
        exact absurd this (by simp)

/-- Hence: if the tree fits, the conversion is total and meets its contract. -/
theorem w2x_total_of_fits (cfg : W2XCfg) (bs : Bytes)
    (hfit : ∀ t r, treeOfWbxml cfg.main (bs.length + 1) cfg.lang cfg.charset bs = .ok t → t.root = some r →
      okNode (2 * bs.length + 4) r = true) :
    wbxml2xml cfg bs ≠ .error .fuel := by
  intro h
  obtain ⟨t, r, ht, hr, hno⟩ := w2x_total_partial cfg bs h
  rw [hfit t r ht hr] at hno
  cases hno

theorem w2x_contract_of_fits (cfg : W2XCfg) (bs : Bytes)
    (hfit : ∀ t r, treeOfWbxml cfg.main (bs.length + 1) cfg.lang cfg.charset bs = .ok t → t.root = some r →
      okNode (2 * bs.length + 4) r = true) :
    (∃ xml, wbxml2xml cfg bs = .ok xml) ∨ (∃ c, c ≠ 0 ∧ wbxml2xml cfg bs = .error (.code c)) := by
  rcases w2x_contract_partial cfg bs with h | h | h
  · exact Or.inl h
  · exact Or.inr h
  · exact absurd h (w2x_total_of_fits cfg bs hfit)

/-- The parser's part of the conversion, restated: the verdict of `parse` under the conversion's
    parser configuration is success or a non-zero error code. -/
theorem w2x_parser_total (cfg : W2XCfg) (bs : Bytes) :
    let out := parse { main := cfg.main, langForced := cfg.lang, metaCharset := cfg.charset } bs
    out.result = .ok () ∨ ∃ c, c ≠ 0 ∧ out.result = .error (.code c) := by
  intro out
  rcases (parse_result_ok { main := cfg.main, langForced := cfg.lang, metaCharset := cfg.charset } bs).cases
    with ⟨⟨⟩, h, _⟩ | ⟨c, h, h0⟩
  · exact Or.inl h
  · exact Or.inr ⟨c, h0, h⟩

/-! ## Non-vacuity -/

def demoLang : Lang :=
  { id := 1101, pub := ⟨2, some b!"-//DEMO//EN", some b!"doc", some b!"demo.dtd"⟩,
    tags := some [⟨b!"doc", 0, 5, 0⟩, ⟨b!"p", 0, 6, 0⟩],
    ns := none,
    attrs := some [⟨b!"id", none, 0, 5⟩, ⟨b!"href", some b!"http://", 0, 6⟩],
    values := some [⟨b!".com", 0, 0x85⟩],
    exts := none }

def demoCfg : W2XCfg := { main := [demoLang] }

/-- `<doc id="x.com"><p/>A</doc>` -/
def demoDoc : Bytes := [3, 2, 0x6A, 2, 0x78, 0, 0xC5, 5, 0x83, 0, 0x85, 1, 6, 2, 0x41, 1]

example : (wbxml2xml demoCfg demoDoc).toBool = true := by decide +kernel
/-- The fit hypothesis holds for the demo document (checked by evaluation). -/
example : (match treeOfWbxml demoCfg.main (demoDoc.length + 1) demoCfg.lang demoCfg.charset demoDoc with
    | .ok t => (match t.root with | some r => okNode (2 * demoDoc.length + 4) r | none => false)
    | .error _ => false) = true := by decide +kernel
/-- A truncated document: the conversion fails with a non-zero code, not with `ub`/`fuel`. -/
example : (match wbxml2xml demoCfg (demoDoc.take 9) with | .error (.code c) => c == 45 | _ => false) = true := by
  decide +kernel

/-! ## Why `w2x_total` is `_partial`: for arbitrary language tables the generator's fuel is not enough

`W2XCfg.main` is quantified over, and a language table may carry an extension-value name that is
itself a (large) WBXML document: a 3-byte `EXT_T_0 idx` then produces an embedded document whose tree
is bigger than `2·len + 4`. The witness below is checked by evaluation. With the library's real
tables (`Gen.main`) no extension name parses as a document; that table fact is what a full proof of
`w2x_total` needs (see DESIGN_NOTES/C13_C01_proofs.md). -/

/-- An embedded document: header (public id 2), 60 nested `X` elements around an empty `X`. -/
def advInner : Bytes := [3, 2, 0x6A, 0] ++ List.replicate 60 0x48 ++ [0x08] ++ List.replicate 60 0x01

/-- An adversarial Wireless-Village language: its extension-value table holds `advInner` as a name. -/
def advLang : Lang :=
  { id := 2301, pub := ⟨2, some b!"-//ADV//EN", some b!"X", some b!"adv.dtd"⟩,
    tags := some [⟨b!"Data", 0, 5, 0⟩, ⟨b!"Meta", 0, 6, 0⟩, ⟨b!"Type", 0, 7, 0⟩, ⟨b!"X", 0, 8, 0⟩],
    ns := none, attrs := none, values := none,
    exts := some [⟨advInner, 0⟩] }

def advCfg : W2XCfg := { main := [advLang] }

/-- `<X><Meta><Type>application/vnd.syncml-devinf+wbxml</Type></Meta><Data>EXT_T_0 0</Data></X>`: 51 bytes. -/
def advDoc : Bytes :=
  [3, 2, 0x6A, 0, 0x48, 0x46, 0x47, 0x03] ++ b!"application/vnd.syncml-devinf+wbxml" ++
  [0, 0x01, 0x01, 0x45, 0x80, 0x00, 0x01, 0x01]


/-- The 51-byte `advDoc` under `advCfg` exhausts the generator's fuel `2·51 + 4`. -/
theorem w2x_total_false_for_arbitrary_tables :
    ¬ ∀ (cfg : W2XCfg) (bs : Bytes), wbxml2xml cfg bs ≠ .error .fuel := by
  intro h
  have hw : (match wbxml2xml advCfg advDoc with | .error .fuel => true | _ => false) = true := by
    decide +kernel
  rcases w2x_contract_partial advCfg advDoc with ⟨x, hx⟩ | ⟨c, _, hc⟩ | hf
  · rw [hx] at hw; cases hw
  · rw [hc] at hw; cases hw
  · exact h advCfg advDoc hf

/-- … while the same tree is generated without complaint when given more fuel: the failure is the
    model's fuel, not the document. -/
example : (match treeOfWbxml advCfg.main (advDoc.length + 1) 0 0 advDoc with
    | .ok t => (treeToXml advCfg 400 t).toBool
    | .error _ => false) = true := by decide +kernel

end Wbxml.Props.C01
