/-
  C01 — WBXML→XML conversion is total and memory-safe on arbitrary bytes (model level).

  Theorems about `Model.wbxml2xml` (`Model/EncXml.lean`: `wbxml_conv_wbxml2xml_run` =
  `wbxml_tree_from_wbxml` ∘ `wbxml_tree_to_xml`), for ALL byte strings and ALL option tuples
  (`W2XCfg`: main table — arbitrary, not only the library's —, forced language, fallback charset,
  generation mode, indent, keep-ws). The tie of the model to the C code is the byte-exact W2X
  correspondence.

  Proved at full strength: `w2x_total`, `w2x_contract`, `w2x_fuel_sufficient`, `w2x_no_ub`,
  `w2x_no_crash`, `w2x_tree_total`, `w2x_generator_budget`, `w2x_parser_total`, `empty_input`.
  The XML generator's recursion budget is `Tree.xmlFuel`, computed from the tree itself (one unit per
  nesting level and per sibling, exactly what `xmlNode`/`xmlNodes` spend); the C code has no budget.

  What remains a model artefact is stated, not hidden: `embedded_depth_le` (the tree stage nests
  embedded documents at most `bs.length` deep; deeper nesting is cut off by the model's fuel, as text)
  with the witness `embedded_cutoff_witness`. See DESIGN_NOTES/C13_C01_proofs.md.

  Size bounds (section "Bounded: size" below): every intermediate object of the conversion — events,
  tree, XML text — is bounded by an explicit polynomial in the input length and table constants:
  `parse_events_size_le`, `w2x_tree_size_le`, `w2x_tree_depth_le`, `w2x_output_le`, `w2x_bounded_levels`,
  `w2x_polynomial_space`. The polynomial is FIXED only for documents without embedded documents
  (`w2x_bounded_partial`, degree 3 indented / 2 compact); an embedded SyncML document delivered by a
  string-table reference is re-parsed once per reference, so every nesting level raises the degree by one
  (`w2x_bounded_levels`, witnesses `quadratic_witness`, `cubic_witness`).
-/
import Wbxml.Lemmas.ParserSafeDepth
import Wbxml.Lemmas.W2XDepth
import Wbxml.Gen.Tables
namespace Wbxml.Props.C01
open Wbxml Wbxml.Model Wbxml.Lemmas.ParserSafe Wbxml.Lemmas.W2X

/-- The empty input is refused with error 12 (`WBXML_ERROR_BAD_PARAMETER`). -/
theorem empty_input (cfg : W2XCfg) : wbxml2xml cfg [] = .error (.code 12) := rfl

/-- Tree stage (`wbxml_tree_from_wbxml`, parser + tree builder): a well-formed tree — it has a root,
    and so has every embedded document — or a non-zero error code. Never `ub`, `fuel`, `crash`. -/
theorem w2x_tree_total (cfg : W2XCfg) (bs : Bytes) :
    (∃ t, treeOfWbxml cfg.main (bs.length + 1) cfg.lang cfg.charset bs = .ok t ∧ GoodT t) ∨
    (∃ c, c ≠ 0 ∧ treeOfWbxml cfg.main (bs.length + 1) cfg.lang cfg.charset bs = .error (.code c)) := by
  rcases (treeOfWbxml_safe cfg.main bs.length cfg.lang cfg.charset bs).cases with ⟨t, ht, _⟩ | ⟨c, hc, hc0⟩
  · exact Or.inl ⟨t, ht, treeOfWbxml_good cfg.main _ _ _ _ _ ht⟩
  · exact Or.inr ⟨c, hc0, hc⟩

/-- **The generator's budget suffices.** For every tree the tree stage delivers — under any language
    tables — the root passes `okNode` (one unit per nesting level and per sibling, no embedded document
    with a language lacks its root) at the budget `t.xmlFuel` that `wbxml2xml` hands to the generator. -/
theorem w2x_generator_budget (cfg : W2XCfg) (bs : Bytes) (t : Tree)
    (ht : treeOfWbxml cfg.main (bs.length + 1) cfg.lang cfg.charset bs = .ok t) :
    t.lang = none ∨ ∃ r, t.root = some r ∧ okNode t.xmlFuel r = true := by
  rcases treeOfWbxml_good cfg.main _ _ _ _ _ ht with hl | ⟨r, hr, hg⟩
  · exact Or.inl hl
  · refine Or.inr ⟨r, hr, ?_⟩
    have : t.xmlFuel = r.xmlFuel := by simp only [Tree.xmlFuel, hr]
    rw [this]
    exact hg.okNode_xmlFuel

/-- **Totality.** For every option tuple — arbitrary language tables included — and every byte string
    the conversion returns XML or a non-zero library error code; never `fuel`, `ub`, `crash`.

    What the statement covers and what it does not:
    * The XML generator's recursion budget is `Tree.xmlFuel`, a structural function of the tree; it
      can never be the reason for a result (`w2x_generator_budget`). The C code has no budget: it
      recurses over the tree; its stack use at extreme depth is a runtime fact outside the model
      (known finding "deep nesting" of C01/C02).
    * The parser's and the tree stage's budget `bs.length + 1` suffices for the document itself
      (`w2x_tree_total`).
    * **Model artefact, embedded documents**: `treeOfWbxml` runs the parser of an embedded (SyncML
      DevInf / DM-TNDS) document with fuel `f - 1`, starting from `bs.length + 1`, and maps EVERY
      error of the nested run — fuel exhaustion included — to "keep the payload as text". So an
      embedded-document nesting deeper than `bs.length` levels is cut off by the model, not by the
      C code (which recurses on). This does not show in the verdict; it is made explicit by
      `embedded_depth_le` and `embedded_cutoff_witness` below. With the library's own tables an
      embedded document is a strict part of its container's bytes (opaque or inline string), so the
      cut-off is unreachable there; that table fact is not proved here. -/
theorem w2x_total (cfg : W2XCfg) (bs : Bytes) :
    (∃ xml, wbxml2xml cfg bs = .ok xml) ∨ (∃ c, c ≠ 0 ∧ wbxml2xml cfg bs = .error (.code c)) := by
  rcases (wbxml2xml_safe cfg bs).cases with ⟨xml, h, _⟩ | ⟨c, h, hc0⟩
  · exact Or.inl ⟨xml, h⟩
  · exact Or.inr ⟨c, hc0, h⟩

/-- The contract of `wbxml_conv_wbxml2xml_run`: the result is `.ok xml` (the out-parameters are
    `xml`, `xml.length`) or `.error (.code c)` with `c ≠ 0` (an `Except` error carries no output: the
    out-parameters are `NULL, 0`); exactly one of the two, and `WBXML_OK` (0) is never an error. -/
theorem w2x_contract (cfg : W2XCfg) (bs : Bytes) :
    ((∃ xml, wbxml2xml cfg bs = .ok xml) ∨ (∃ c, c ≠ 0 ∧ wbxml2xml cfg bs = .error (.code c))) ∧
    ¬ ((∃ xml, wbxml2xml cfg bs = .ok xml) ∧ (∃ e, wbxml2xml cfg bs = .error e)) ∧
    (bs = [] → wbxml2xml cfg bs = .error (.code 12)) := by
  refine ⟨w2x_total cfg bs, ?_, ?_⟩
  · rintro ⟨⟨xml, h1⟩, ⟨e, h2⟩⟩
    rw [h1] at h2; cases h2
  · intro h; subst h; rfl

/-- The model's fuel is never the reason for a result. -/
theorem w2x_fuel_sufficient (cfg : W2XCfg) (bs : Bytes) : wbxml2xml cfg bs ≠ .error .fuel :=
  (wbxml2xml_safe cfg bs).not_fuel

/-- **No run of the conversion reaches a flagged operation**: not in the parser (blind cursor
    increments, language-table dereferences), and not in the generator (`tree without root`,
    `nested tree without root`): every tree the tree stage delivers has a root, and so has every
    embedded document in it. -/
theorem w2x_no_ub (cfg : W2XCfg) (bs : Bytes) (w : String) : wbxml2xml cfg bs ≠ .error (.ub w) :=
  (wbxml2xml_safe cfg bs).not_ub w

theorem w2x_no_crash (cfg : W2XCfg) (bs : Bytes) (w : String) : wbxml2xml cfg bs ≠ .error (.crash w) :=
  (wbxml2xml_safe cfg bs).not_crash w

/-- A failing conversion failed in the parser / tree builder, or in the generator with one of its two
    codes: 12 (an embedded tree without language) or 18 (base64 of an empty buffer) — stated as:
    the generator's verdict on the delivered tree is the conversion's verdict. -/
theorem w2x_stages (cfg : W2XCfg) (bs : Bytes) :
    (bs = [] ∧ wbxml2xml cfg bs = .error (.code 12)) ∨
    (∃ c, c ≠ 0 ∧ treeOfWbxml cfg.main (bs.length + 1) cfg.lang cfg.charset bs = .error (.code c) ∧
        wbxml2xml cfg bs = .error (.code c)) ∨
    (∃ t, treeOfWbxml cfg.main (bs.length + 1) cfg.lang cfg.charset bs = .ok t ∧ GoodT t ∧
        wbxml2xml cfg bs = treeToXml cfg t.xmlFuel t) := by
  rcases wbxml2xml_anatomy cfg bs with h | h | ⟨t, ht, h⟩
  · exact Or.inl h
  · exact Or.inr (Or.inl h)
  · exact Or.inr (Or.inr ⟨t, ht, treeOfWbxml_good cfg.main _ _ _ _ _ ht, h⟩)

/-- The parser's part of the conversion, restated: the verdict of `parse` under the conversion's
    parser configuration is success or a non-zero error code. -/
theorem w2x_parser_total (cfg : W2XCfg) (bs : Bytes) :
    let out := parse { main := cfg.main, langForced := cfg.lang, metaCharset := cfg.charset } bs
    out.result = .ok () ∨ ∃ c, c ≠ 0 ∧ out.result = .error (.code c) := by
  intro out
  rcases (parse_result_ok { main := cfg.main, langForced := cfg.lang, metaCharset := cfg.charset } bs).cases
    with ⟨⟨⟩, h, _⟩ | ⟨c, h, h0⟩
  · exact Or.inl h
  · exact Or.inr ⟨c, h0, h⟩

/-! ## Bounded: elements and open-element depth of the parse stage -/

/-- **Every start-element event costs an input byte.** Under every option tuple and for every input
    — accepted or not — the parser delivers at most `bs.length - 3` start-element events (the header
    takes at least three bytes), and the number of simultaneously open elements (`maxDepth`: the
    recursion depth of `parse_element`, the height of the tree builder's `current` chain and the
    element nesting the generator descends into for the document's own elements) never exceeds it.
    The bound is in terms of the input only, for arbitrary tables. It does not cover the elements of
    embedded documents (their bytes may come from a table, see `w2x_generator_budget_not_linear`). -/
theorem parser_depth_le_input (cfg : W2XCfg) (bs : Bytes) :
    let out := parse { main := cfg.main, langForced := cfg.lang, metaCharset := cfg.charset } bs
    startCount out.events ≤ bs.length - 3 ∧ maxDepth out.events ≤ startCount out.events ∧
    maxDepth out.events ≤ bs.length - 3 :=
  ⟨parse_startCount_le _ bs, maxDepth_le_startCount _, parse_maxDepth_le _ bs⟩

/-! ## The model artefact that remains: nesting of embedded documents -/

/-- **The tree stage nests embedded documents at most `bs.length` deep** (`embDepthT`: number of
    `.tree` nodes along a path): the nested parser gets one unit of fuel less per level, and a nested
    run that fails — for whatever reason — leaves its payload as text. Deeper nesting is cut off by
    the model; the C code has no such limit. -/
theorem embedded_depth_le (cfg : W2XCfg) (bs : Bytes) (t : Tree)
    (ht : treeOfWbxml cfg.main (bs.length + 1) cfg.lang cfg.charset bs = .ok t) :
    embDepthT t ≤ bs.length := by
  have := treeOfWbxml_embDepth cfg.main _ _ _ _ _ ht
  omega

/-- General form, any fuel. -/
theorem embedded_depth_lt_fuel (main : List Lang) (f lang cs : Nat) (bs : Bytes) (t : Tree)
    (ht : treeOfWbxml main f lang cs bs = .ok t) : embDepthT t < f :=
  treeOfWbxml_embDepth main _ _ _ _ _ ht

/-! ## Non-vacuity -/

def demoLang : Lang :=
  { id := 1101, pub := ⟨2, some b!"-//DEMO//EN", some b!"doc", some b!"demo.dtd"⟩,
    tags := some [⟨b!"doc", 0, 5, 0⟩, ⟨b!"p", 0, 6, 0⟩],
    ns := none,
    attrs := some [⟨b!"id", none, 0, 5⟩, ⟨b!"href", some b!"http://", 0, 6⟩],
    values := some [⟨b!".com", 0, 0x85⟩],
    exts := none }

def demoCfg : W2XCfg := { main := [demoLang] }

/-- `<doc id="x.com"><p/>A</doc>` -/
def demoDoc : Bytes := [3, 2, 0x6A, 2, 0x78, 0, 0xC5, 5, 0x83, 0, 0x85, 1, 6, 2, 0x41, 1]

example : (wbxml2xml demoCfg demoDoc).toBool = true := by decide +kernel
/-- A truncated document: the conversion fails with a non-zero code, not with `ub`/`fuel`. -/
example : (match wbxml2xml demoCfg (demoDoc.take 9) with | .error (.code c) => c == 45 | _ => false) = true := by
  decide +kernel

/-! ## The former fuel witness

Before the generator's budget was made structural it was `2·len + 4`, and that is not enough for
arbitrary language tables: a table may carry an extension-value name that is itself a (large) WBXML
document; a 3-byte `EXT_T_0 idx` then produces an embedded document whose tree is bigger than
`2·len + 4`. The same input now converts. -/

/-- An embedded document: header (public id 2), 60 nested `X` elements around an empty `X`. -/
def advInner : Bytes := [3, 2, 0x6A, 0] ++ List.replicate 60 0x48 ++ [0x08] ++ List.replicate 60 0x01

/-- An adversarial Wireless-Village language: its extension-value table holds `advInner` as a name. -/
def advLang : Lang :=
  { id := 2301, pub := ⟨2, some b!"-//ADV//EN", some b!"X", some b!"adv.dtd"⟩,
    tags := some [⟨b!"Data", 0, 5, 0⟩, ⟨b!"Meta", 0, 6, 0⟩, ⟨b!"Type", 0, 7, 0⟩, ⟨b!"X", 0, 8, 0⟩],
    ns := none, attrs := none, values := none,
    exts := some [⟨advInner, 0⟩] }

def advCfg : W2XCfg := { main := [advLang] }

/-- `<X><Meta><Type>application/vnd.syncml-devinf+wbxml</Type></Meta><Data>EXT_T_0 0</Data></X>`: 51 bytes. -/
def advDoc : Bytes :=
  [3, 2, 0x6A, 0, 0x48, 0x46, 0x47, 0x03] ++ b!"application/vnd.syncml-devinf+wbxml" ++
  [0, 0x01, 0x01, 0x45, 0x80, 0x00, 0x01, 0x01]

/-- The 51-byte `advDoc` under `advCfg` — which exhausted the former budget `2·51 + 4` — converts. -/
theorem w2x_former_fuel_witness_converts : ∃ xml, wbxml2xml advCfg advDoc = .ok xml := by
  have hw : (wbxml2xml advCfg advDoc).toBool = true := by decide +kernel
  rcases w2x_total advCfg advDoc with h | ⟨c, _, hc⟩
  · exact h
  · rw [hc] at hw; cases hw

/-- Its tree does need more than the former budget: `okNode (2·51 + 4)` fails on the root, the
    structural budget is 128, and the embedded document is there (depth 1). -/
example : (match treeOfWbxml advCfg.main (advDoc.length + 1) 0 0 advDoc with
    | .ok t => (match t.root with
        | some r => !okNode (2 * advDoc.length + 4) r && t.xmlFuel == 128 && embDepthT t == 1
        | none => false)
    | .error _ => false) = true := by decide +kernel

/-- Consequently no bound of the generator's recursion budget that is linear in the input with the
    former constants holds for arbitrary tables (the budget is a function of the tree, and an
    embedded document's tree is as large as the table entry it came from). -/
theorem w2x_generator_budget_not_linear :
    ¬ ∀ (cfg : W2XCfg) (bs : Bytes) (t : Tree),
        treeOfWbxml cfg.main (bs.length + 1) cfg.lang cfg.charset bs = .ok t → t.xmlFuel ≤ 2 * bs.length + 4 := by
  intro h
  have hw : (match treeOfWbxml advCfg.main (advDoc.length + 1) advCfg.lang advCfg.charset advDoc with
      | .ok t => decide (2 * advDoc.length + 4 < t.xmlFuel)
      | .error _ => false) = true := by decide +kernel
  cases ht : treeOfWbxml advCfg.main (advDoc.length + 1) advCfg.lang advCfg.charset advDoc with
  | error e => rw [ht] at hw; cases hw
  | ok t =>
    rw [ht] at hw
    have h1 := h advCfg advDoc t ht
    have h2 : 2 * advDoc.length + 4 < t.xmlFuel := of_decide_eq_true hw
    omega

/-- The parse-stage bound on a sample: 4 start-element events, depth 3, 51 bytes. -/
example : (let out := parse { main := advCfg.main } advDoc
    startCount out.events == 4 && maxDepth out.events == 3) = true := by decide +kernel

/-! ### Two levels of embedded documents, and the cut-off -/

/-- Extension 0 is a document that embeds extension 1 (`<X/>`). -/
def nest2Lang : Lang :=
  { advLang with exts := some [⟨advDoc.take 47 ++ [0x80, 0x01, 0x01, 0x01], 0⟩, ⟨[3, 2, 0x6A, 0, 0x08], 1⟩] }

def nest2Cfg : W2XCfg := { main := [nest2Lang] }

/-- A two-level nesting is handled: the tree holds a document inside a document, and converts. -/
example : (match treeOfWbxml nest2Cfg.main (advDoc.length + 1) 0 0 advDoc with
    | .ok t => embDepthT t == 2 && (treeToXml nest2Cfg t.xmlFuel t).toBool
    | .error _ => false) = true := by decide +kernel

/-- A language whose extension 0 is `advDoc` itself: the document embeds itself without end. -/
def selfLang : Lang := { advLang with exts := some [⟨advDoc, 0⟩] }

def selfCfg : W2XCfg := { main := [selfLang] }

/-- **The cut-off is reachable under adversarial tables.** `advDoc` under `selfCfg` embeds itself; the
    C code would recurse without bound; the model stops after `advDoc.length` (= 51) levels — the
    bound of `embedded_depth_le` is attained — and converts what it has. -/
theorem embedded_cutoff_witness :
    (match treeOfWbxml selfCfg.main (advDoc.length + 1) 0 0 advDoc with
     | .ok t => embDepthT t == advDoc.length && (treeToXml selfCfg t.xmlFuel t).toBool
     | .error _ => false) = true := by decide +kernel


/-! ## Bounded: size of the events, the tree and the XML text

`n = bs.length`; table constants of `cfg.main`: `M = tableM` (longest tag name / attribute name + value
prefix / attribute-value name / extension-value name), `K = nsMax` (longest namespace name),
`H = hdrMax` (longest XML declaration + DOCTYPE line). -/

/-- The conversion's parser configuration. -/
abbrev pcfgOf (cfg : W2XCfg) : PCfg := { main := cfg.main, langForced := cfg.lang, metaCharset := cfg.charset }

/-! ### Where payloads come from (per-source bounds) -/

/-- Inline string: paid for octet by octet (and its terminator). -/
theorem inline_string_le (s s' : PState) (str : Bytes) (h : parseTermstr s = .ok (str, s')) :
    str.length + 1 + s'.rest.length ≤ s.rest.length := parseTermstr_len s _ h

/-- String-table reference (`STR_T`, `LITERAL`, `EXT_T`): a C string inside the table, at most
    `|table| - 1` octets (`xmlns`, 5 octets, without a table) — for two or three input octets. This is
    the one source whose payload is not paid for by the octets consumed: the quadratic term. -/
theorem strtbl_ref_le (s : PState) (i : Nat) (str : Bytes) (h : strtblRef s i = .ok str) :
    str.length ≤ strBound s := strtblRef_len s i _ h

/-- Character entity: at most 7 octets. -/
theorem entity_le (code : Nat) (b : Bytes) (h : entityBytes code = .ok b) : b.length ≤ 7 := entityBytes_len code _ h

/-- Opaque: paid for octet by octet, plus token and length field. -/
theorem opaque_le (s s' : PState) (d : Bytes) (h : parseOpaque s = .ok (d, s')) :
    d.length + 2 + s'.rest.length ≤ s.rest.length := parseOpaque_len s _ h

/-- Typed content of an opaque of `k` octets (base64 `4⌈k/3⌉`, Wireless-Village integer ≤ 10 digits,
    Wireless-Village date-time ≤ 25 octets, otherwise verbatim): at most `2k + 25` octets. -/
theorem typed_content_le (lang : Nat) (cur : Option TagRow) (d o : Bytes)
    (h : decodeOpaqueContent lang cur d = .ok o) : o.length ≤ 2 * d.length + 25 := decodeOpaqueContent_len lang cur d _ h

/-- Typed attribute value of an opaque (base64 for language 1901): at most `2k + 2` octets. -/
theorem typed_attr_le (lang : Nat) (d o : Bytes) (h : decodeOpaqueAttrValue lang d = .ok o) :
    o.length ≤ 2 * d.length + 2 := decodeOpaqueAttrValue_len lang d _ h

/-- SI / EMN date-time attribute value: at most 28 octets whatever the input. -/
theorem datetime_attr_le (d o : Bytes) (h : decodeDatetime d = .ok o) : o.length ≤ 28 := decodeDatetime_len d _ h

/-- Extension token: `$(` string `:escape)` around a string of the document (WML), or an extension-value
    name of the table (Wireless Village). `N` bounds the remaining input and the string table. -/
theorem extension_le (ts : Bool) (N M : Nat) (s s' : PState) (hc : Ctx N M s) (r : Option Bytes)
    (h : parseExtension ts s = .ok (r, s')) : (r.getD []).length ≤ N + M + 10 := parseExtension_len ts hc _ h

/-- **No character-data payload is longer than `2n + M + 45` octets.** -/
theorem chars_payload_le (cfg : W2XCfg) (bs s : Bytes) (h : Event.chars s ∈ (parse (pcfgOf cfg) bs).events) :
    s.length ≤ 2 * bs.length + tableM cfg.main + 45 := parse_chars_le (pcfgOf cfg) bs s h

/-! ### 1. Events -/

/-- **The events the parser delivers weigh at most `n · (n + M + 45)`** — one unit per event and per
    attribute plus all octets of element names, attribute names and values (the value prefix of the
    table row, the pieces, the terminating NUL), character data and PI targets / data; an end-element
    event counts one unit (it carries the start event's `WBXMLTag`). Whatever the verdict, any tables.
    Accounting: every input octet pays for at most `W = n + M + 45` units (`elem_content_size`): an event
    or attribute costs at least one octet; a payload is a string of the document or of its string table
    (≤ n + 5), a table row (≤ M), an entity (≤ 7), or a typed decoding of an opaque that is itself paid
    for octet by octet. -/
theorem parse_events_size_le (cfg : W2XCfg) (bs : Bytes) :
    pevSize (fun _ => 0) (parse (pcfgOf cfg) bs).events ≤ bs.length * (bs.length + tableM cfg.main + 45) :=
  parse_pevSize_le (pcfgOf cfg) bs

/-! ### 2. Tree -/

/-- Number of embedded-document levels of the tree the tree stage delivers (0 when it fails). -/
def nesting (cfg : W2XCfg) (bs : Bytes) : Nat :=
  match treeOfWbxml cfg.main (bs.length + 1) cfg.lang cfg.charset bs with
  | .ok t => embDepthT t
  | .error _ => 0

/-- **Tree ≤ polynomial of the input, per nesting level**: with fewer than `D` levels of embedded
    documents, `t.size ≤ treeBound M D n` where `treeBound M 0 n = 0`,
    `treeBound M (D+1) n = 1 + 2·n·(n + M + 45 + treeBound M D (2n + M + 45))` — degree `D + 1` in `n`.
    An embedded document is parsed from a character-data payload of the outer document (at most
    `2n + M + 45` octets, at most `n` payloads). Any tables, any fuel. -/
theorem w2x_tree_size_le (cfg : W2XCfg) (bs : Bytes) (t : Tree) (D : Nat)
    (ht : treeOfWbxml cfg.main (bs.length + 1) cfg.lang cfg.charset bs = .ok t) (hD : embDepthT t < D) :
    t.size ≤ treeBound (tableM cfg.main) D bs.length :=
  treeOfWbxml_size_le cfg.main D _ _ _ _ _ ht (by omega)

/-- Without embedded documents: `t.size ≤ 1 + 2·n·(n + M + 45)`. -/
theorem w2x_tree_size_le_partial (cfg : W2XCfg) (bs : Bytes) (t : Tree)
    (ht : treeOfWbxml cfg.main (bs.length + 1) cfg.lang cfg.charset bs = .ok t) (h0 : embDepthT t = 0) :
    t.size ≤ 1 + 2 * (bs.length * (bs.length + tableM cfg.main + 45)) := by
  have := w2x_tree_size_le cfg bs t 1 ht (by omega)
  simpa only [treeBound, Nat.add_zero] using this

/-- **Element nesting is linear in the input, per nesting level**: `depthBound M 0 n = 0`,
    `depthBound M (D+1) n = n + depthBound M D (2n + M + 45)`. -/
theorem w2x_tree_depth_le (cfg : W2XCfg) (bs : Bytes) (t : Tree) (D : Nat)
    (ht : treeOfWbxml cfg.main (bs.length + 1) cfg.lang cfg.charset bs = .ok t) (hD : embDepthT t < D) :
    t.eltDepth ≤ depthBound (tableM cfg.main) D bs.length :=
  treeOfWbxml_eltDepth_le cfg.main D _ _ _ _ _ ht (by omega)

/-- Without embedded documents the tree nests at most `n` elements. -/
theorem w2x_tree_depth_le_partial (cfg : W2XCfg) (bs : Bytes) (t : Tree)
    (ht : treeOfWbxml cfg.main (bs.length + 1) cfg.lang cfg.charset bs = .ok t) (h0 : embDepthT t = 0) :
    t.eltDepth ≤ bs.length := by
  have := w2x_tree_depth_le cfg bs t 1 ht (by omega)
  simpa only [depthBound, Nat.add_zero] using this

/-- Every language in a delivered tree is an entry of the main table. -/
theorem w2x_tree_langs (cfg : W2XCfg) (bs : Bytes) (t : Tree) (Q : Lang → Bool) (hQ : ∀ l ∈ cfg.main, Q l = true)
    (ht : treeOfWbxml cfg.main (bs.length + 1) cfg.lang cfg.charset bs = .ok t) :
    langsOk Q (.tree t.lang t.origCharset t.root) = true :=
  treeOfWbxml_langs cfg.main Q hQ _ _ _ _ _ ht

/-! ### 3. XML text -/

/-- **Output ≤ tree**: for every tree, fuel and option tuple, when the namespace names of the languages
    that occur (the document's and the embedded documents') are at most `K` octets long,
    `|xml| ≤ (18 + K)·size + 2·indent·size·eltDepth + |header| + 2`.
    Per node (`xcost`): escaping multiplies by at most 6 (`&quot;`); an element costs `<`, `>`, `</`, `>`,
    its name twice, up to three newlines, a namespace declaration (9 + K) and its indentation twice
    (`indent · level` each, `level ≤ eltDepth`); an attribute ` name="…"`; a CDATA section 12 brackets and
    at most 5 octets per octet (`]]>` is split); base64 of binary content 4/3 and never escaped; an
    embedded document is generated without header. `indentOf cfg` is `cfg.indent` when `gen = 1`, else 0. -/
theorem w2x_output_le (cfg : W2XCfg) (fuel : Nat) (t : Tree) (xml : Bytes) (K : Nat)
    (hK : langsOk (fun l => decide (langNs l ≤ K)) (.tree t.lang t.origCharset t.root) = true)
    (h : treeToXml cfg fuel t = .ok xml) :
    ∃ l, t.lang = some l ∧
      xml.length ≤ (18 + K) * t.size + 2 * (indentOf cfg * (t.size * t.eltDepth)) + hdrLen l + 2 :=
  treeToXml_length_le cfg fuel t xml K hK h

/-- The same with the node depth (`eltDepth ≤ depth ≤ size`). -/
theorem w2x_output_le_depth (cfg : W2XCfg) (fuel : Nat) (t : Tree) (xml : Bytes) (K : Nat)
    (hK : langsOk (fun l => decide (langNs l ≤ K)) (.tree t.lang t.origCharset t.root) = true)
    (h : treeToXml cfg fuel t = .ok xml) :
    ∃ l, t.lang = some l ∧
      xml.length ≤ (18 + K) * t.size + 2 * (indentOf cfg * (t.size * t.depth)) + hdrLen l + 2 := by
  obtain ⟨l, hl, hlen⟩ := w2x_output_le cfg fuel t xml K hK h
  refine ⟨l, hl, ?_⟩
  have hd : t.eltDepth ≤ t.depth := Lemmas.X2W.eltDepth_le_depth _
  have := ind_mono (indentOf cfg) (Nat.le_refl t.size) hd
  omega

/-! ### 4. The conversion -/

/-- **Bounded, level by level.** A successful conversion whose tree has `L = nesting cfg bs` levels of
    embedded documents writes at most
    `w2xPoly M K H indent (L+1) n = (18 + K)·S + 2·indent·S·Δ + H + 2` octets,
    `S = treeBound M (L+1) n`, `Δ = depthBound M (L+1) n`: for each fixed `L` a polynomial in `n` of degree
    `L + 2` (compact) resp. `L + 3` (indented). All inputs, all option tuples, arbitrary tables. -/
theorem w2x_bounded_levels (cfg : W2XCfg) (bs xml : Bytes) (h : wbxml2xml cfg bs = .ok xml) :
    xml.length ≤ w2xPoly (tableM cfg.main) (nsMax cfg.main) (hdrMax cfg.main) (indentOf cfg)
      (nesting cfg bs + 1) bs.length := by
  obtain ⟨t, ht, _, hb⟩ := wbxml2xml_length_le cfg bs xml h
  have hn : nesting cfg bs = embDepthT t := by unfold nesting; rw [ht]
  rw [hn]
  exact (hb (embDepthT t + 1) (Nat.lt_succ_self _)).2.2

/-- **Bounded by a fixed polynomial when no embedded document occurs** (every language but SyncML; SyncML
    without a `…+wbxml` `Data` payload that parses): degree 3 in `n` with indentation, degree 2 without
    (`indentOf cfg = 0` unless `gen = 1`). -/
theorem w2x_bounded_partial (cfg : W2XCfg) (bs xml : Bytes) (h : wbxml2xml cfg bs = .ok xml)
    (h0 : nesting cfg bs = 0) :
    xml.length ≤ (18 + nsMax cfg.main) * (1 + 2 * (bs.length * (bs.length + tableM cfg.main + 45))) +
      2 * (indentOf cfg * ((1 + 2 * (bs.length * (bs.length + tableM cfg.main + 45))) * bs.length)) +
      hdrMax cfg.main + 2 := by
  have := w2x_bounded_levels cfg bs xml h
  rw [h0] at this
  simpa only [w2xPoly, treeBound, depthBound, Nat.add_zero, Nat.zero_add] using this

/-- Compact and canonical output: quadratic. -/
theorem w2x_bounded_compact_partial (cfg : W2XCfg) (bs xml : Bytes) (h : wbxml2xml cfg bs = .ok xml)
    (h0 : nesting cfg bs = 0) (hg : cfg.gen ≠ 1) :
    xml.length ≤ (18 + nsMax cfg.main) * (1 + 2 * (bs.length * (bs.length + tableM cfg.main + 45))) +
      hdrMax cfg.main + 2 := by
  have := w2x_bounded_partial cfg bs xml h h0
  have hi : indentOf cfg = 0 := by
    unfold indentOf
    have : (cfg.gen == 1) = false := by simpa using hg
    rw [this]; rfl
  rw [hi] at this
  simpa only [Nat.zero_mul, Nat.mul_zero, Nat.add_zero] using this

/-- The table constants of the library's own tables. -/
theorem gen_tableMax : tableM Gen.main = 49 := by decide +kernel
theorem gen_nsMax : nsMax Gen.main = 54 := by decide +kernel
theorem gen_hdrMax : hdrMax Gen.main = 166 := by decide +kernel

/-- With the library's tables: `|xml| ≤ 72·S + 2·indent·S·Δ + 168`, `S = treeBound 49 (L+1) n`,
    `Δ = depthBound 49 (L+1) n`. -/
theorem w2x_bounded_gen_levels (cfg : W2XCfg) (hm : cfg.main = Gen.main) (bs xml : Bytes)
    (h : wbxml2xml cfg bs = .ok xml) :
    xml.length ≤ 72 * treeBound 49 (nesting cfg bs + 1) bs.length +
      2 * (indentOf cfg * (treeBound 49 (nesting cfg bs + 1) bs.length * depthBound 49 (nesting cfg bs + 1) bs.length)) +
      168 := by
  have := w2x_bounded_levels cfg bs xml h
  rw [hm, gen_tableMax, gen_nsMax, gen_hdrMax] at this
  simpa only [w2xPoly] using this

/-- With the library's tables and no embedded document:
    `|xml| ≤ 72·(1 + 2n(n + 94)) + 2·indent·(1 + 2n(n + 94))·n + 168`. -/
theorem w2x_bounded_gen_partial (cfg : W2XCfg) (hm : cfg.main = Gen.main) (bs xml : Bytes)
    (h : wbxml2xml cfg bs = .ok xml) (h0 : nesting cfg bs = 0) :
    xml.length ≤ 72 * (1 + 2 * (bs.length * (bs.length + 94))) +
      2 * (indentOf cfg * ((1 + 2 * (bs.length * (bs.length + 94))) * bs.length)) + 168 := by
  have := w2x_bounded_partial cfg bs xml h h0
  rw [hm, gen_tableMax, gen_nsMax, gen_hdrMax] at this
  exact this

/-- **Polynomial space.** Every intermediate object of a successful conversion — the event list the
    parser hands to the callbacks, the tree the builder makes of it, the XML text the generator writes —
    is bounded by an explicit polynomial in the input length `n`, the table constants and the indentation
    step, for each number `L` of embedded-document levels:

    * events `≤ n·(n + M + 45)` (the document's own; each embedded document is a run of its own on a
      payload of at most `2n + M + 45` octets);
    * tree `≤ treeBound M (L+1) n`, element nesting `≤ depthBound M (L+1) n`, embedded levels `≤ n`;
    * XML `≤ (18 + K)·tree + 2·indent·tree·nesting + H + 2`.

    What this says about heap use: the payload octets and the object counts (events, attributes,
    `WBXMLTreeNode`s, the output `WBXMLBuffer`'s contents) of everything the conversion allocates are
    polynomially bounded. Without embedded documents the bound is quadratic for compact output and cubic
    for indented output (`w2x_bounded_partial`); the quadratic term is real (`quadratic_witness`: `k`
    string-table references of two octets each deliver the same `k`-octet string) and comes from
    string-table references only — inline strings and opaques are paid for octet by octet
    (`inline_string_le`, `opaque_le`), so a document that does not repeat string-table references is
    linear. An embedded document delivered by a string-table reference is re-parsed per reference: each
    level of embedding raises the degree by one (`cubic_witness`), so there is NO fixed polynomial for all
    inputs. (Informally: an embedding document carries the 35-octet type label and holds the embedded one
    inside its string table, NUL-free, so there are at most about `n / 35` levels; the proved bound on the
    level count is `n`, `embedded_depth_le`.)

    What it cannot say: the allocator's overhead per object, `WBXMLBuffer`'s growth policy (doubling),
    the transient copies (`wbxml_buffer_create` of each payload, the private copy of the input), the C
    stack of the recursive generator, fragmentation. Those are observed by the heap ladder of
    `tools/props/c01.py` on the real code. -/
theorem w2x_polynomial_space (cfg : W2XCfg) (bs xml : Bytes) (h : wbxml2xml cfg bs = .ok xml) :
    pevSize (fun _ => 0) (parse (pcfgOf cfg) bs).events ≤ bs.length * (bs.length + tableM cfg.main + 45) ∧
    ∃ t, treeOfWbxml cfg.main (bs.length + 1) cfg.lang cfg.charset bs = .ok t ∧
      treeToXml cfg t.xmlFuel t = .ok xml ∧
      embDepthT t = nesting cfg bs ∧ embDepthT t ≤ bs.length ∧
      t.size ≤ treeBound (tableM cfg.main) (nesting cfg bs + 1) bs.length ∧
      t.eltDepth ≤ depthBound (tableM cfg.main) (nesting cfg bs + 1) bs.length ∧
      xml.length ≤ w2xPoly (tableM cfg.main) (nsMax cfg.main) (hdrMax cfg.main) (indentOf cfg)
        (nesting cfg bs + 1) bs.length := by
  refine ⟨parse_events_size_le cfg bs, ?_⟩
  obtain ⟨t, ht, hx, hb⟩ := wbxml2xml_length_le cfg bs xml h
  have hn : nesting cfg bs = embDepthT t := by unfold nesting; rw [ht]
  obtain ⟨h1, h2, h3⟩ := hb (embDepthT t + 1) (Nat.lt_succ_self _)
  rw [hn]
  exact ⟨t, ht, hx, rfl, embedded_depth_le cfg bs t ht, h1, h2, h3⟩

/-! ### 5. Non-vacuity and tightness -/

def genCfg : W2XCfg := { main := Gen.main, gen := 1, indent := 2 }
def genCompact : W2XCfg := { main := Gen.main, gen := 0 }

/-- WML 1.3: `<wml><card id="a"><p>hi</p></card></wml>`, 19 octets. -/
def wmlDoc : Bytes := [3, 0x0A, 0x6A, 0, 0x7F, 0xE7, 0x55, 3, 0x61, 0, 1, 0x60, 3, 0x68, 0x69, 0, 1, 1, 1]
/-- SI 1.0: `<si><indication href="http://a.b/">hi</indication></si>`, 20 octets. -/
def siDoc : Bytes := [3, 0x05, 0x6A, 0, 0x45, 0xC6, 0x0C, 3, 0x61, 0x2E, 0x62, 0x2F, 0, 1, 3, 0x68, 0x69, 0, 1, 1]

/-- Check the measures of a run: events, tree size, element nesting, embedded levels, output length. -/
def measuresAre (cfg : W2XCfg) (bs : Bytes) (ev ts dp lv out : Nat) : Bool :=
  pevSize (fun _ => 0) (parse (pcfgOf cfg) bs).events == ev &&
  (match treeOfWbxml cfg.main (bs.length + 1) cfg.lang cfg.charset bs with
   | .ok t => t.size == ts && t.eltDepth == dp && embDepthT t == lv &&
       (match treeToXml cfg t.xmlFuel t with | .ok x => x.length == out | .error _ => false)
   | .error _ => false)

/-- WML: events 24 (bound 19·113 = 2147), tree 20 (bound 4295), nesting 3 (bound 19), output 168 octets. -/
example : measuresAre genCfg wmlDoc 24 20 3 0 168 = true := by decide +kernel
/-- SI: events 38, tree 35, nesting 2, output 170 octets. -/
example : measuresAre genCfg siDoc 38 35 2 0 170 = true := by decide +kernel

example : ∃ xml, wbxml2xml genCfg wmlDoc = .ok xml ∧
    xml.length ≤ 72 * (1 + 2 * (19 * (19 + 94))) + 2 * (2 * ((1 + 2 * (19 * (19 + 94))) * 19)) + 168 := by
  have hw : (wbxml2xml genCfg wmlDoc).toBool = true := by decide +kernel
  have h0 : nesting genCfg wmlDoc = 0 := by decide +kernel
  rcases w2x_total genCfg wmlDoc with ⟨xml, h⟩ | ⟨c, _, hc⟩
  · exact ⟨xml, h, w2x_bounded_gen_partial genCfg rfl wmlDoc xml h h0⟩
  · rw [hc] at hw; cases hw

example : ∃ xml, wbxml2xml genCfg siDoc = .ok xml ∧
    xml.length ≤ 72 * (1 + 2 * (20 * (20 + 94))) + 2 * (2 * ((1 + 2 * (20 * (20 + 94))) * 20)) + 168 := by
  have hw : (wbxml2xml genCfg siDoc).toBool = true := by decide +kernel
  have h0 : nesting genCfg siDoc = 0 := by decide +kernel
  rcases w2x_total genCfg siDoc with ⟨xml, h⟩ | ⟨c, _, hc⟩
  · exact ⟨xml, h, w2x_bounded_gen_partial genCfg rfl siDoc xml h h0⟩
  · rw [hc] at hw; cases hw

/-- WML 1.3 `<wml><card><p>` … `</p></card></wml>` whose string table holds one string of `k` octets and
    whose text is `k` references to it (two octets each): `3k + 11` octets. -/
def quadDoc (k : Nat) : Bytes :=
  [3, 0x0A, 0x6A, UInt8.ofNat (k + 1)] ++ List.replicate k 0x61 ++ [0, 0x7F, 0x67, 0x60] ++
    (List.replicate k [0x83, 0x00]).flatten ++ [1, 1, 1]

theorem quadDoc_length (k : Nat) : (quadDoc k).length = 3 * k + 11 := by
  simp [quadDoc, List.length_flatten]; omega

/-- **The quadratic term is real**: the `3k + 11` octets of `quadDoc k` decode to `k²` octets of text —
    events, tree and compact XML all exceed `k²` (evaluated for `k = 8, 16, 32`: the input doubles, the
    decoded document quadruples; `measuresAre`: events, tree, element nesting, embedded levels, output). -/
theorem quadratic_witness :
    (quadDoc 8).length = 35 ∧ measuresAre genCompact (quadDoc 8) 88 77 3 0 208 = true ∧
    (quadDoc 16).length = 59 ∧ measuresAre genCompact (quadDoc 16) 288 269 3 0 400 = true ∧
    (quadDoc 32).length = 107 ∧ measuresAre genCompact (quadDoc 32) 1072 1037 3 0 1168 = true := by
  refine ⟨by decide +kernel, by decide +kernel, by decide +kernel, by decide +kernel, by decide +kernel, by decide +kernel⟩

/-! ### Embedded documents through the string table: one more degree per level -/

def nestLang : Lang := { advLang with id := 9001, exts := none }
def nestCfg : W2XCfg := { main := [nestLang], gen := 0 }

/-- A NUL-free document `<X>` … `</X>` whose (unterminated) string table is `p + 1` octets and whose
    text is `m` references to its last `p` octets. -/
def innerDoc (m p : Nat) : Bytes :=
  [3, 2, 0x6A, UInt8.ofNat (p + 1)] ++ List.replicate (p + 1) 0x61 ++ [0x48] ++
    (List.replicate m [0x83, 0x01]).flatten ++ [1]

/-- `<X><Meta><Type>application/vnd.syncml-devinf+wbxml</Type></Meta><Data>` … `</Data></X>` whose string
    table is `innerDoc m p` and whose `Data` content is `k` references to it: each reference is parsed
    as an embedded document. -/
def outerDoc (k m p : Nat) : Bytes :=
  [3, 2, 0x6A, UInt8.ofNat ((innerDoc m p).length + 1)] ++ innerDoc m p ++ [0] ++ [0x48, 0x46, 0x47, 0x03] ++
    b!"application/vnd.syncml-devinf+wbxml" ++ [0, 1, 1, 0x45] ++ (List.replicate k [0x83, 0x00]).flatten ++ [1, 1]

/-- **One level of embedded documents makes the decoded document cubic**: `outerDoc k k k` has `5k + 57`
    octets; its tree holds `k` embedded documents of `k²` text octets each (evaluated for `k = 5, 10`:
    the input grows by 25 octets, the tree from 199 to 1094 units, the XML from 304 to 1214 octets;
    `measuresAre`: events, tree, element nesting, embedded levels, output).
    Only element names matter to the tree builder (`Data` under a `Meta/Type` of `…+wbxml`), so the
    same happens under the library's SyncML tables. Every further level multiplies again
    (`w2x_bounded_levels`): no fixed polynomial bounds the conversion of all inputs. -/
theorem cubic_witness :
    (outerDoc 5 5 5).length = 82 ∧ measuresAre nestCfg (outerDoc 5 5 5) 174 199 3 1 304 = true ∧
    (outerDoc 10 10 10).length = 107 ∧ measuresAre nestCfg (outerDoc 10 10 10) 439 1094 3 1 1214 = true := by
  refine ⟨by decide +kernel, by decide +kernel, by decide +kernel, by decide +kernel⟩

end Wbxml.Props.C01
