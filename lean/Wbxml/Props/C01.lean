/-
  C01 — WBXML→XML conversion is total and memory-safe on arbitrary bytes (model level).

  Theorems about `Model.wbxml2xml` (`Model/EncXml.lean`: `wbxml_conv_wbxml2xml_run` =
  `wbxml_tree_from_wbxml` ∘ `wbxml_tree_to_xml`), for ALL byte strings and ALL option tuples
  (`W2XCfg`: main table — arbitrary, not only the library's —, forced language, fallback charset,
  generation mode, indent, keep-ws). The tie of the model to the C code is the byte-exact W2X
  correspondence.

  Proved at full strength: `w2x_total`, `w2x_contract`, `w2x_fuel_sufficient`, `w2x_no_ub`,
  `w2x_no_crash`, `w2x_tree_total`, `w2x_generator_budget`, `w2x_parser_total`, `empty_input`.
  The XML generator's recursion budget is `Tree.xmlFuel`, computed from the tree itself (one unit per
  nesting level and per sibling, exactly what `xmlNode`/`xmlNodes` spend); the C code has no budget.

  What remains a model artefact is stated, not hidden: `embedded_depth_le` (the tree stage nests
  embedded documents at most `bs.length` deep; deeper nesting is cut off by the model's fuel, as text)
  with the witness `embedded_cutoff_witness`. See DESIGN_NOTES/C13_C01_proofs.md.
-/
import Wbxml.Lemmas.ParserSafeDepth
namespace Wbxml.Props.C01
open Wbxml Wbxml.Model Wbxml.Lemmas.ParserSafe

/-- The empty input is refused with error 12 (`WBXML_ERROR_BAD_PARAMETER`). -/
theorem empty_input (cfg : W2XCfg) : wbxml2xml cfg [] = .error (.code 12) := rfl

/-- Tree stage (`wbxml_tree_from_wbxml`, parser + tree builder): a well-formed tree — it has a root,
    and so has every embedded document — or a non-zero error code. Never `ub`, `fuel`, `crash`. -/
theorem w2x_tree_total (cfg : W2XCfg) (bs : Bytes) :
    (∃ t, treeOfWbxml cfg.main (bs.length + 1) cfg.lang cfg.charset bs = .ok t ∧ GoodT t) ∨
    (∃ c, c ≠ 0 ∧ treeOfWbxml cfg.main (bs.length + 1) cfg.lang cfg.charset bs = .error (.code c)) := by
  rcases (treeOfWbxml_safe cfg.main bs.length cfg.lang cfg.charset bs).cases with ⟨t, ht, _⟩ | ⟨c, hc, hc0⟩
  · exact Or.inl ⟨t, ht, treeOfWbxml_good cfg.main _ _ _ _ _ ht⟩
  · exact Or.inr ⟨c, hc0, hc⟩

/-- **The generator's budget suffices.** For every tree the tree stage delivers — under any language
    tables — the root passes `okNode` (one unit per nesting level and per sibling, no embedded document
    with a language lacks its root) at the budget `t.xmlFuel` that `wbxml2xml` hands to the generator. -/
theorem w2x_generator_budget (cfg : W2XCfg) (bs : Bytes) (t : Tree)
    (ht : treeOfWbxml cfg.main (bs.length + 1) cfg.lang cfg.charset bs = .ok t) :
    t.lang = none ∨ ∃ r, t.root = some r ∧ okNode t.xmlFuel r = true := by
  rcases treeOfWbxml_good cfg.main _ _ _ _ _ ht with hl | ⟨r, hr, hg⟩
  · exact Or.inl hl
  · refine Or.inr ⟨r, hr, ?_⟩
    have : t.xmlFuel = r.xmlFuel := by simp only [Tree.xmlFuel, hr]
    rw [this]
    exact hg.okNode_xmlFuel

/-- **Totality.** For every option tuple — arbitrary language tables included — and every byte string
    the conversion returns XML or a non-zero library error code; never `fuel`, `ub`, `crash`.

    What the statement covers and what it does not:
    * The XML generator's recursion budget is `Tree.xmlFuel`, a structural function of the tree; it
      can never be the reason for a result (`w2x_generator_budget`). The C code has no budget: it
      recurses over the tree; its stack use at extreme depth is a runtime fact outside the model
      (known finding "deep nesting" of C01/C02).
    * The parser's and the tree stage's budget `bs.length + 1` suffices for the document itself
      (`w2x_tree_total`).
    * **Model artefact, embedded documents**: `treeOfWbxml` runs the parser of an embedded (SyncML
      DevInf / DM-TNDS) document with fuel `f - 1`, starting from `bs.length + 1`, and maps EVERY
      error of the nested run — fuel exhaustion included — to "keep the payload as text". So an
      embedded-document nesting deeper than `bs.length` levels is cut off by the model, not by the
      C code (which recurses on). This does not show in the verdict; it is made explicit by
      `embedded_depth_le` and `embedded_cutoff_witness` below. With the library's own tables an
      embedded document is a strict part of its container's bytes (opaque or inline string), so the
      cut-off is unreachable there; that table fact is not proved here. -/
theorem w2x_total (cfg : W2XCfg) (bs : Bytes) :
    (∃ xml, wbxml2xml cfg bs = .ok xml) ∨ (∃ c, c ≠ 0 ∧ wbxml2xml cfg bs = .error (.code c)) := by
  rcases (wbxml2xml_safe cfg bs).cases with ⟨xml, h, _⟩ | ⟨c, h, hc0⟩
  · exact Or.inl ⟨xml, h⟩
  · exact Or.inr ⟨c, hc0, h⟩

/-- The contract of `wbxml_conv_wbxml2xml_run`: the result is `.ok xml` (the out-parameters are
    `xml`, `xml.length`) or `.error (.code c)` with `c ≠ 0` (an `Except` error carries no output: the
    out-parameters are `NULL, 0`); exactly one of the two, and `WBXML_OK` (0) is never an error. -/
theorem w2x_contract (cfg : W2XCfg) (bs : Bytes) :
    ((∃ xml, wbxml2xml cfg bs = .ok xml) ∨ (∃ c, c ≠ 0 ∧ wbxml2xml cfg bs = .error (.code c))) ∧
    ¬ ((∃ xml, wbxml2xml cfg bs = .ok xml) ∧ (∃ e, wbxml2xml cfg bs = .error e)) ∧
    (bs = [] → wbxml2xml cfg bs = .error (.code 12)) := by
  refine ⟨w2x_total cfg bs, ?_, ?_⟩
  · rintro ⟨⟨xml, h1⟩, ⟨e, h2⟩⟩
    rw [h1] at h2; cases h2
  · intro h; subst h; rfl

/-- The model's fuel is never the reason for a result. -/
theorem w2x_fuel_sufficient (cfg : W2XCfg) (bs : Bytes) : wbxml2xml cfg bs ≠ .error .fuel :=
  (wbxml2xml_safe cfg bs).not_fuel

/-- **No run of the conversion reaches a flagged operation**: not in the parser (blind cursor
    increments, language-table dereferences), and not in the generator (`tree without root`,
    `nested tree without root`): every tree the tree stage delivers has a root, and so has every
    embedded document in it. -/
theorem w2x_no_ub (cfg : W2XCfg) (bs : Bytes) (w : String) : wbxml2xml cfg bs ≠ .error (.ub w) :=
  (wbxml2xml_safe cfg bs).not_ub w

theorem w2x_no_crash (cfg : W2XCfg) (bs : Bytes) (w : String) : wbxml2xml cfg bs ≠ .error (.crash w) :=
  (wbxml2xml_safe cfg bs).not_crash w

/-- A failing conversion failed in the parser / tree builder, or in the generator with one of its two
    codes: 12 (an embedded tree without language) or 18 (base64 of an empty buffer) — stated as:
    the generator's verdict on the delivered tree is the conversion's verdict. -/
theorem w2x_stages (cfg : W2XCfg) (bs : Bytes) :
    (bs = [] ∧ wbxml2xml cfg bs = .error (.code 12)) ∨
    (∃ c, c ≠ 0 ∧ treeOfWbxml cfg.main (bs.length + 1) cfg.lang cfg.charset bs = .error (.code c) ∧
        wbxml2xml cfg bs = .error (.code c)) ∨
    (∃ t, treeOfWbxml cfg.main (bs.length + 1) cfg.lang cfg.charset bs = .ok t ∧ GoodT t ∧
        wbxml2xml cfg bs = treeToXml cfg t.xmlFuel t) := by
  rcases wbxml2xml_anatomy cfg bs with h | h | ⟨t, ht, h⟩
  · exact Or.inl h
  · exact Or.inr (Or.inl h)
  · exact Or.inr (Or.inr ⟨t, ht, treeOfWbxml_good cfg.main _ _ _ _ _ ht, h⟩)

/-- The parser's part of the conversion, restated: the verdict of `parse` under the conversion's
    parser configuration is success or a non-zero error code. -/
theorem w2x_parser_total (cfg : W2XCfg) (bs : Bytes) :
    let out := parse { main := cfg.main, langForced := cfg.lang, metaCharset := cfg.charset } bs
    out.result = .ok () ∨ ∃ c, c ≠ 0 ∧ out.result = .error (.code c) := by
  intro out
  rcases (parse_result_ok { main := cfg.main, langForced := cfg.lang, metaCharset := cfg.charset } bs).cases
    with ⟨⟨⟩, h, _⟩ | ⟨c, h, h0⟩
  · exact Or.inl h
  · exact Or.inr ⟨c, h0, h⟩

/-! ## Bounded: elements and open-element depth of the parse stage -/

/-- **Every start-element event costs an input byte.** Under every option tuple and for every input
    — accepted or not — the parser delivers at most `bs.length - 3` start-element events (the header
    takes at least three bytes), and the number of simultaneously open elements (`maxDepth`: the
    recursion depth of `parse_element`, the height of the tree builder's `current` chain and the
    element nesting the generator descends into for the document's own elements) never exceeds it.
    The bound is in terms of the input only, for arbitrary tables. It does not cover the elements of
    embedded documents (their bytes may come from a table, see `w2x_generator_budget_not_linear`). -/
theorem parser_depth_le_input (cfg : W2XCfg) (bs : Bytes) :
    let out := parse { main := cfg.main, langForced := cfg.lang, metaCharset := cfg.charset } bs
    startCount out.events ≤ bs.length - 3 ∧ maxDepth out.events ≤ startCount out.events ∧
    maxDepth out.events ≤ bs.length - 3 :=
  ⟨parse_startCount_le _ bs, maxDepth_le_startCount _, parse_maxDepth_le _ bs⟩

/-! ## The model artefact that remains: nesting of embedded documents -/

/-- **The tree stage nests embedded documents at most `bs.length` deep** (`embDepthT`: number of
    `.tree` nodes along a path): the nested parser gets one unit of fuel less per level, and a nested
    run that fails — for whatever reason — leaves its payload as text. Deeper nesting is cut off by
    the model; the C code has no such limit. -/
theorem embedded_depth_le (cfg : W2XCfg) (bs : Bytes) (t : Tree)
    (ht : treeOfWbxml cfg.main (bs.length + 1) cfg.lang cfg.charset bs = .ok t) :
    embDepthT t ≤ bs.length := by
  have := treeOfWbxml_embDepth cfg.main _ _ _ _ _ ht
  omega

/-- General form, any fuel. -/
theorem embedded_depth_lt_fuel (main : List Lang) (f lang cs : Nat) (bs : Bytes) (t : Tree)
    (ht : treeOfWbxml main f lang cs bs = .ok t) : embDepthT t < f :=
  treeOfWbxml_embDepth main _ _ _ _ _ ht

/-! ## Non-vacuity -/

def demoLang : Lang :=
  { id := 1101, pub := ⟨2, some b!"-//DEMO//EN", some b!"doc", some b!"demo.dtd"⟩,
    tags := some [⟨b!"doc", 0, 5, 0⟩, ⟨b!"p", 0, 6, 0⟩],
    ns := none,
    attrs := some [⟨b!"id", none, 0, 5⟩, ⟨b!"href", some b!"http://", 0, 6⟩],
    values := some [⟨b!".com", 0, 0x85⟩],
    exts := none }

def demoCfg : W2XCfg := { main := [demoLang] }

/-- `<doc id="x.com"><p/>A</doc>` -/
def demoDoc : Bytes := [3, 2, 0x6A, 2, 0x78, 0, 0xC5, 5, 0x83, 0, 0x85, 1, 6, 2, 0x41, 1]

example : (wbxml2xml demoCfg demoDoc).toBool = true := by decide +kernel
/-- A truncated document: the conversion fails with a non-zero code, not with `ub`/`fuel`. -/
example : (match wbxml2xml demoCfg (demoDoc.take 9) with | .error (.code c) => c == 45 | _ => false) = true := by
  decide +kernel

/-! ## The former fuel witness

Before the generator's budget was made structural it was `2·len + 4`, and that is not enough for
arbitrary language tables: a table may carry an extension-value name that is itself a (large) WBXML
document; a 3-byte `EXT_T_0 idx` then produces an embedded document whose tree is bigger than
`2·len + 4`. The same input now converts. -/

/-- An embedded document: header (public id 2), 60 nested `X` elements around an empty `X`. -/
def advInner : Bytes := [3, 2, 0x6A, 0] ++ List.replicate 60 0x48 ++ [0x08] ++ List.replicate 60 0x01

/-- An adversarial Wireless-Village language: its extension-value table holds `advInner` as a name. -/
def advLang : Lang :=
  { id := 2301, pub := ⟨2, some b!"-//ADV//EN", some b!"X", some b!"adv.dtd"⟩,
    tags := some [⟨b!"Data", 0, 5, 0⟩, ⟨b!"Meta", 0, 6, 0⟩, ⟨b!"Type", 0, 7, 0⟩, ⟨b!"X", 0, 8, 0⟩],
    ns := none, attrs := none, values := none,
    exts := some [⟨advInner, 0⟩] }

def advCfg : W2XCfg := { main := [advLang] }

/-- `<X><Meta><Type>application/vnd.syncml-devinf+wbxml</Type></Meta><Data>EXT_T_0 0</Data></X>`: 51 bytes. -/
def advDoc : Bytes :=
  [3, 2, 0x6A, 0, 0x48, 0x46, 0x47, 0x03] ++ b!"application/vnd.syncml-devinf+wbxml" ++
  [0, 0x01, 0x01, 0x45, 0x80, 0x00, 0x01, 0x01]

/-- The 51-byte `advDoc` under `advCfg` — which exhausted the former budget `2·51 + 4` — converts. -/
theorem w2x_former_fuel_witness_converts : ∃ xml, wbxml2xml advCfg advDoc = .ok xml := by
  have hw : (wbxml2xml advCfg advDoc).toBool = true := by decide +kernel
  rcases w2x_total advCfg advDoc with h | ⟨c, _, hc⟩
  · exact h
  · rw [hc] at hw; cases hw

/-- Its tree does need more than the former budget: `okNode (2·51 + 4)` fails on the root, the
    structural budget is 128, and the embedded document is there (depth 1). -/
example : (match treeOfWbxml advCfg.main (advDoc.length + 1) 0 0 advDoc with
    | .ok t => (match t.root with
        | some r => !okNode (2 * advDoc.length + 4) r && t.xmlFuel == 128 && embDepthT t == 1
        | none => false)
    | .error _ => false) = true := by decide +kernel

/-- Consequently no bound of the generator's recursion budget that is linear in the input with the
    former constants holds for arbitrary tables (the budget is a function of the tree, and an
    embedded document's tree is as large as the table entry it came from). -/
theorem w2x_generator_budget_not_linear :
    ¬ ∀ (cfg : W2XCfg) (bs : Bytes) (t : Tree),
        treeOfWbxml cfg.main (bs.length + 1) cfg.lang cfg.charset bs = .ok t → t.xmlFuel ≤ 2 * bs.length + 4 := by
  intro h
  have hw : (match treeOfWbxml advCfg.main (advDoc.length + 1) advCfg.lang advCfg.charset advDoc with
      | .ok t => decide (2 * advDoc.length + 4 < t.xmlFuel)
      | .error _ => false) = true := by decide +kernel
  cases ht : treeOfWbxml advCfg.main (advDoc.length + 1) advCfg.lang advCfg.charset advDoc with
  | error e => rw [ht] at hw; cases hw
  | ok t =>
    rw [ht] at hw
    have h1 := h advCfg advDoc t ht
    have h2 : 2 * advDoc.length + 4 < t.xmlFuel := of_decide_eq_true hw
    omega

/-- The parse-stage bound on a sample: 4 start-element events, depth 3, 51 bytes. -/
example : (let out := parse { main := advCfg.main } advDoc
    startCount out.events == 4 && maxDepth out.events == 3) = true := by decide +kernel

/-! ### Two levels of embedded documents, and the cut-off -/

/-- Extension 0 is a document that embeds extension 1 (`<X/>`). -/
def nest2Lang : Lang :=
  { advLang with exts := some [⟨advDoc.take 47 ++ [0x80, 0x01, 0x01, 0x01], 0⟩, ⟨[3, 2, 0x6A, 0, 0x08], 1⟩] }

def nest2Cfg : W2XCfg := { main := [nest2Lang] }

/-- A two-level nesting is handled: the tree holds a document inside a document, and converts. -/
example : (match treeOfWbxml nest2Cfg.main (advDoc.length + 1) 0 0 advDoc with
    | .ok t => embDepthT t == 2 && (treeToXml nest2Cfg t.xmlFuel t).toBool
    | .error _ => false) = true := by decide +kernel

/-- A language whose extension 0 is `advDoc` itself: the document embeds itself without end. -/
def selfLang : Lang := { advLang with exts := some [⟨advDoc, 0⟩] }

def selfCfg : W2XCfg := { main := [selfLang] }

/-- **The cut-off is reachable under adversarial tables.** `advDoc` under `selfCfg` embeds itself; the
    C code would recurse without bound; the model stops after `advDoc.length` (= 51) levels — the
    bound of `embedded_depth_le` is attained — and converts what it has. -/
theorem embedded_cutoff_witness :
    (match treeOfWbxml selfCfg.main (advDoc.length + 1) 0 0 advDoc with
     | .ok t => embDepthT t == advDoc.length && (treeToXml selfCfg t.xmlFuel t).toBool
     | .error _ => false) = true := by decide +kernel

end Wbxml.Props.C01
