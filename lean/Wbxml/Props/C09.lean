/-
  C09 — published token assignments never change (wire compatibility).
  `Registry.reg` is the pinned copy of the 0.11.10 tables (committed once); `Gen.main` is
  regenerated from the current source on every run. Kernel evaluation over every row.
-/
import Wbxml.Model.Compat
import Wbxml.Registry
import Wbxml.Gen.Tables
set_option maxRecDepth 100000
namespace Wbxml.Props.C09
open Wbxml Wbxml.Model

/-- Every language, tag, attribute start (with value prefix), attribute value, extension value,
    namespace↔page mapping, public identifier (numeric and textual), root element and DTD that
    0.11.10 understood is understood identically by the current tables, in both directions, and
    every identification route still selects the same language. Rows may have been added. -/
theorem registry_preserved : registryPreserved Registry.reg Gen.main = true := by decide +kernel

/-- Consequence for the parser: decoding a published (page, token) gives the published name and
    options, for every language of the registry. -/
theorem published_tags_decode_identically (r c : Lang) (hr : r ∈ Registry.reg)
    (hc : langOf Gen.main r.id = some c) (rt ct : List TagRow) (h1 : r.tags = some rt) (h2 : c.tags = some ct)
    (x : TagRow) (hx : x ∈ rt) :
    (decTag ct x.page x.token).map (fun y => (y.name, y.opts)) = (decTag rt x.page x.token).map (fun y => (y.name, y.opts)) := by
  have h := registry_preserved
  unfold registryPreserved at h
  have h := List.all_eq_true.mp h r hr
  simp only [hc, Bool.and_eq_true] at h
  have hl := h.1
  unfold langPreserved at hl
  simp only [Bool.and_eq_true, h1, h2, optPreserved] at hl
  have ht := hl.1.1.1.1.2
  unfold tagsPreserved at ht
  have hp := List.all_eq_true.mp ht x.page (mem_pagesOf hx)
  simp only [Bool.and_eq_true] at hp
  have hxb : x ∈ bucket rt x.page := by simp [bucket, hx]
  exact decTag_preserved_of_row (List.all_eq_true.mp hp.2 x hxb)

/-- The registry is the full 0.11.10 set (29 languages), so the theorem is not vacuous. -/
example : Registry.reg.length = 29 := by decide

end Wbxml.Props.C09
