/-
  C17 — flow-mode encoding always equals batch encoding of the nodes that remain.

  Model: `Model/Flow.lean` — the flow API of `wbxml_encoder.c` as a state machine
  (`output_header`, `output`, the encoding state `σ` = `tagCodePage`/`attrCodePage`/`current_tag`
  resp. `indent`/`in_content`/`current_tag`, and the `pre_last_node_*` fields) over the operations
  encode node | encode node without end | raw element start | raw element end | delete last node |
  get output.  The byte encoding of ONE item is a parameter `e : Enc σ` (header, initial state,
  `item : σ → Item → Except Err (Bytes × σ)`): every theorem holds for an ARBITRARY per-item encoder,
  i.e. under the single hypothesis that the encoding of an item is a function of the encoding state
  and the item (which is what the type of `Enc.item` says).  `xmlEnc c` is the instance built from
  the validated XML generation model; for WBXML output the instance comes from the WBXML encoder
  model (and, in the correspondence run, from the real library).

  All theorems are inductions over the operation list (`Lemmas/Flow.lean`): they hold for ALL finite
  histories, all nodes, all options, both output types.
-/
import Wbxml.Lemmas.Flow
import Wbxml.Lemmas.FlowReader
import Wbxml.Lemmas.FlowXml
namespace Wbxml.Props.C17
open Wbxml Wbxml.Model Wbxml.Model.Flow

variable {σ : Type}

/-- The history starts on a freshly configured encoder: nothing remains, nothing to delete. -/
abbrev none0 : Surv := { items := [], mark := 0 }

/-! ### The bytes available after any history -/

/-- **flow = batch.**  After ANY history the output buffer is exactly the batch encoding (one item
    after the other on one encoder starting from the initial state; the string table plays no part in
    `Enc`) of the items encoded so far and not deleted, the encoder's encoding state is the state
    batch encoding ends in, and `wbxml_encoder_get_output` returns the header — present from the
    first `encode_node` call on — followed by those bytes. -/
theorem flow_eq_batch (e : Enc σ) (ops : List Op) :
    batch e e.init (remaining e none0 ops).items
        = .ok ((run e (FState.init e) ops).output, (run e (FState.init e) ops).st) ∧
    (run e (FState.init e) ops).result
        = (if nodeCalled ops then e.header else []) ++ (run e (FState.init e) ops).output := by
  refine ⟨(inv_run e ops _ _ (inv_init e)).full, ?_⟩
  simp only [FState.result, run_header_init]
  split <;> rfl

/-- … at every moment: what the caller reads after the `i`-th call is the header followed by the
    batch encoding of what remains of the first `i+1` operations. -/
theorem flow_eq_batch_every_step (e : Enc σ) (ops : List Op) (i : Nat) (h : i < ops.length) :
    ∃ ret body st,
      (trace e (FState.init e) ops)[i]? = some (ret, (if nodeCalled (ops.take (i + 1)) then e.header else []) ++ body) ∧
      batch e e.init (remaining e none0 (ops.take (i + 1))).items = .ok (body, st) := by
  have ht := trace_getElem? e (FState.init e) ops i h
  have hf := flow_eq_batch e (ops.take (i + 1))
  exact ⟨_, _, _, by rw [ht, hf.2], hf.1⟩

/-- `wbxml_encoder_get_output_len` is the length of what `wbxml_encoder_get_output` returns. -/
theorem output_len (s : FState σ) : s.resultLen = s.result.length := by
  simp [FState.resultLen, FState.result]

/-- An item that cannot be encoded leaves no trace: output buffer, encoding state and the point
    `delete_last_node` returns to are what they were (only the header may have been built). -/
theorem failed_item_leaves_no_trace (e : Enc σ) (s : FState σ) (it : Item) {err}
    (h : (encodeStep e s it).2 = some err) :
    (encodeStep e s it).1.output = s.output ∧ (encodeStep e s it).1.st = s.st ∧
    (encodeStep e s it).1.preLast = s.preLast := by
  cases hi : e.item s.st it with
  | error er => obtain ⟨a, b, c, _⟩ := encodeStep_error e s it hi; exact ⟨a, b, c⟩
  | ok r =>
    obtain ⟨bs, st'⟩ := r
    obtain ⟨_, _, _, d⟩ := encodeStep_ok e s it hi
    rw [d] at h; cases h

/-! ### Code pages -/

/-- **The encoder's code pages are those of a reader of its output.**  Hypothesis: the new pages an
    item's encoding reports are the pages a WBXML reader is in after reading the bytes it appended
    (`Reads`: token by token, content space to content space).  Then after ANY history — deletions
    and failed items included — a reader that starts with the initial pages and reads the output
    buffer ends with exactly the encoder's (tag page, attribute page). -/
theorem pages_track_output (e : Enc σ) (pg : σ → Pages)
    (hitem : ∀ st it bs st', e.item st it = .ok (bs, st') → Reads false (pg st) bs false (pg st'))
    (ops : List Op) :
    Reads false (pg e.init) (run e (FState.init e) ops).output false (pg (run e (FState.init e) ops).st) := by
  have hb : ∀ (items : List Item) (st : σ) (bs : Bytes) (st' : σ),
      batch e st items = .ok (bs, st') → Reads false (pg st) bs false (pg st') := by
    intro items
    induction items with
    | nil => intro st bs st' h; simp only [batch] at h; cases h; exact Reads.nil _ _
    | cons it rest ih =>
      intro st bs st' h
      cases hi : e.item st it with
      | error err => rw [batch_cons_err e st it rest hi] at h; cases h
      | ok r =>
        obtain ⟨b, st1⟩ := r
        rw [batch_cons_ok e st it rest hi] at h
        cases hr : batch e st1 rest with
        | error err => rw [hr] at h; cases h
        | ok r2 =>
          obtain ⟨b', st2⟩ := r2
          rw [hr] at h; cases h
          exact (hitem _ _ _ _ hi).append (ih _ _ _ hr)
  exact hb _ _ _ _ (flow_eq_batch e ops).1

/-- The same with the executable reader: `pagesAfter` of the output buffer is defined and equals
    the encoder's pages. -/
theorem pages_track_output_fn (e : Enc σ) (pg : σ → Pages)
    (hitem : ∀ st it bs st', e.item st it = .ok (bs, st') → pagesAfter (pg st) bs = some (pg st'))
    (ops : List Op) :
    pagesAfter (pg e.init) (run e (FState.init e) ops).output = some (pg (run e (FState.init e) ops).st) :=
  (pagesAfter_iff _ _ _).2
    (pages_track_output e pg (fun st it bs st' h => (pagesAfter_iff _ _ _).1 (hitem st it bs st' h)) ops)

/-- The reader is a function: "the pages a reader would have" is well defined. -/
theorem reader_deterministic {a p bs a1 p1 a2 p2} (h1 : Reads a p bs a1 p1) (h2 : Reads a p bs a2 p2) :
    a1 = a2 ∧ p1 = p2 := h1.det h2

/-! ### Deleting the last node -/

/-- **delete restores.**  After ANY history: a node is encoded (with or without its end), then
    deleted ⇒ the output buffer AND the encoding state (code pages, current tag, indentation) are
    exactly what they were before that node. -/
theorem delete_restores (e : Enc σ) (ops : List Op) (n : Node) (encEnd : Bool)
    (hok : (encodeStep e (run e (FState.init e) ops) (.node n encEnd)).2 = none) :
    let before := run e (FState.init e) ops
    let after := run e (FState.init e) (ops ++ [if encEnd then .encodeNode n else .encodeNodeNoEnd n, .deleteLast])
    after.output = before.output ∧ after.st = before.st := by
  have h := delete_after_node e (run e (FState.init e) ops) n encEnd hok
  cases encEnd <;> simpa [run_append, run, step, Op.item?] using h

/-- … so whatever is encoded next is emitted exactly as if the deleted node had never been: for every
    sequence of encoding calls that follows, the bytes appended, the return codes and the resulting
    encoding state are the same with and without the deleted node. -/
theorem delete_restores_next (e : Enc σ) (ops : List Op) (n : Node) (encEnd : Bool) (next : List Op)
    (hok : (encodeStep e (run e (FState.init e) ops) (.node n encEnd)).2 = none)
    (hnext : ∀ op ∈ next, op.isEncode = true) :
    let with_ := run e (FState.init e) (ops ++ [if encEnd then .encodeNode n else .encodeNodeNoEnd n, .deleteLast])
    let without := run e (FState.init e) ops
    (run e with_ next).output = (run e without next).output ∧
    (run e with_ next).st = (run e without next).st ∧
    (trace e with_ next).map (·.1) = (trace e without next).map (·.1) := by
  have h := delete_restores e ops n encEnd hok
  exact run_encode_congr e next _ _ hnext h.1 h.2

/-- On the specification side: the deleted node is not among the remaining items. -/
theorem delete_restores_remaining (e : Enc σ) (ops : List Op) (n : Node) (encEnd : Bool)
    (hok : (encodeStep e (run e (FState.init e) ops) (.node n encEnd)).2 = none) :
    (remaining e none0 (ops ++ [if encEnd then .encodeNode n else .encodeNodeNoEnd n, .deleteLast])).items
      = (remaining e none0 ops).items := by
  have hinv := inv_run e ops _ _ (inv_init e)
  have hsn := batch_snoc e _ (.node n encEnd) hinv.full
  cases hi : e.item (run e (FState.init e) ops).st (.node n encEnd) with
  | error err =>
    obtain ⟨_, _, _, h4⟩ := encodeStep_error e _ _ hi
    rw [h4] at hok; cases hok
  | ok r =>
    obtain ⟨bs, st'⟩ := r
    rw [hi] at hsn
    rw [remaining_append]
    generalize remaining e none0 ops = v at hsn ⊢
    cases encEnd <;>
      simp [remaining, survStep, Op.item?, hsn, Item.isNode]

/-- Deleting twice, or before any node, deletes nothing more (one level of undo, as in the C code). -/
theorem delete_twice (s : FState σ) : deleteStep (deleteStep s) = deleteStep s := by
  simp only [deleteStep, List.take_take, Nat.min_self]

theorem delete_first (e : Enc σ) : deleteStep (FState.init e) = FState.init e := rfl

/-! ### The defect of the code before the repair, in Lean

`demo` is a two-page toy encoder: an element whose tag is on page `p` with token `t` is `[t]` when the
reader is already on page `p` and `00 p t` otherwise. -/

def demo : Enc WSt :=
  { header := [3, 1, 106, 0]
    init := {}
    item := fun w it =>
      match it with
      | .node (.elt (.token r) _ _) _ =>
        if (r.page == 0 || r.page == 1) && r.token == 5 then
          .ok ((if w.pages.tag == r.page then [] else [0, UInt8.ofNat r.page]) ++ [5],
               { pages := { w.pages with tag := r.page }, curTag := none })
        else .error (.code 100)
      | _ => .error (.code 100) }

def demoNode (page : Nat) : Node := .elt (.token { name := [], page := page, token := 5, opts := 0 }) [] []

/-- The three-operation history of DESIGN §6.3 #7: node on page 0, node on page 1, delete, node on
    page 1. -/
def witnessOps : List Op :=
  [.encodeNode (demoNode 0), .encodeNode (demoNode 1), .deleteLast, .encodeNode (demoNode 1)]

/-- On the code BEFORE the repair (`delete_last_node` truncated the output but left the code pages)
    the last node is emitted without `00 01`: the output is not the batch encoding of the two nodes
    that remain, and a reader of it is on page 0 while the encoder believes page 1. -/
theorem unfixed_delete_witness :
    (runUnfixed demo (FState.init demo) witnessOps).output = [5, 5] ∧
    (batch demo demo.init (remaining demo none0 witnessOps).items).toOption
        = some ([5, 0, 1, 5], { pages := { tag := 1, attr := 0 } }) ∧
    pagesAfter demo.init.pages (runUnfixed demo (FState.init demo) witnessOps).output = some { tag := 0, attr := 0 } ∧
    (runUnfixed demo (FState.init demo) witnessOps).st.pages = { tag := 1, attr := 0 } := by
  decide

/-- The same history on the repaired code. -/
example : (run demo (FState.init demo) witnessOps).result = [3, 1, 106, 0] ++ [5, 0, 1, 5] := by decide

/-- Non-vacuity of the hypothesis of `pages_track_output`: the toy encoder satisfies it. -/
example : ∀ st it bs st', demo.item st it = .ok (bs, st') → Reads false st.pages bs false st'.pages := by
  intro st it bs st' h
  apply (pagesAfter_iff _ _ _).1
  cases it with
  | node n ee =>
    cases n with
    | elt name attrs kids =>
      cases name with
      | token r =>
        obtain ⟨rn, rp, rt, ro⟩ := r
        obtain ⟨⟨tg, ap⟩, ct⟩ := st
        simp only [demo] at h
        split at h
        · rename_i hc
          cases h
          simp only [Bool.and_eq_true, Bool.or_eq_true, beq_iff_eq] at hc
          obtain ⟨hp, _⟩ := hc
          by_cases heq : tg = rp
          · subst heq; simp [pagesAfter, readGo, tok, tokKind]
          · have hb : (tg == rp) = false := by simpa using heq
            rcases hp with h0 | h1
            · subst h0; simp [hb, pagesAfter, readGo, tok, tokKind]
            · subst h1; simp [hb, pagesAfter, readGo, tok, tokKind]
        · cases h
      | literal s => simp [demo] at h
    | text s => simp [demo] at h
    | cdata k => simp [demo] at h
    | tree l c r => simp [demo] at h
  | start n hc => simp [demo] at h
  | fin n hc => simp [demo] at h

/-! ### XML output: the instance built from the XML generation model -/

/-- `flow_eq_batch` for XML output, any configuration. -/
theorem xml_flow_eq_batch (c : XCfg) (ops : List Op) :
    batch (xmlEnc c) {} (remaining (xmlEnc c) none0 ops).items
        = .ok ((run (xmlEnc c) (FState.init (xmlEnc c)) ops).output, (run (xmlEnc c) (FState.init (xmlEnc c)) ops).st) ∧
    (run (xmlEnc c) (FState.init (xmlEnc c)) ops).result
        = (if nodeCalled ops then xmlHeader c.lang c.gen else []) ++ (run (xmlEnc c) (FState.init (xmlEnc c)) ops).output :=
  flow_eq_batch (xmlEnc c) ops

/-- In XML output `delete_last_node` restores indentation and the in-content flag: a node encoded
    without its end tag (indentation one level deeper) and deleted leaves no indentation behind. -/
theorem xml_delete_restores (c : XCfg) (ops : List Op) (n : Node) (encEnd : Bool)
    (hok : (encodeStep (xmlEnc c) (run (xmlEnc c) (FState.init (xmlEnc c)) ops) (.node n encEnd)).2 = none) :
    let before := run (xmlEnc c) (FState.init (xmlEnc c)) ops
    let after := run (xmlEnc c) (FState.init (xmlEnc c)) (ops ++ [if encEnd then .encodeNode n else .encodeNodeNoEnd n, .deleteLast])
    after.output = before.output ∧ after.st.indent = before.st.indent ∧ after.st.inContent = before.st.inContent ∧
      after.st.curTag = before.st.curTag := by
  have h := delete_restores (xmlEnc c) ops n encEnd hok
  exact ⟨h.1, by rw [h.2], by rw [h.2], by rw [h.2]⟩

/-- The fuel handed to the XML generation model is sufficient: it never runs out. -/
theorem xml_fuel_suffices (c : XCfg) (p : Parent) (n : Node) (st : XSt) :
    xmlNode c p (needNode n) n st ≠ .error .fuel := xmlNode_fuel c p n st (Nat.le_refl _)

/-- Batch encoding of a forest of whole nodes by `xmlEnc` IS the XML generation model run over the
    sibling list (`xmlNodes`, the `next` chain of `parse_node`) on one encoder: same bytes, same final
    indentation / in-content flag / current tag. -/
theorem xml_batch_is_xmlNodes (c : XCfg) (ns : List Node) :
    batch (xmlEnc c) {} (ns.map (fun n => Item.node n true))
      = (match xmlNodes c .none (needList ns) ns {} with
         | .ok st => .ok (st.out, XFl.ofXSt st)
         | .error e => .error e) :=
  batch_xmlNodes c ns

end Wbxml.Props.C17
