/-
  The wire-level constants the hand-written models use as literals (global tokens, masks,
  the `unknown` public identifier, the two string charsets, version codes, XML generation
  modes, tag option bits), checked against the values the library was compiled with
  (`Gen/Consts.lean`, regenerated from the current source by `harness/dump_tables.c` on every run).
  A changed `#define` / enum value in the source breaks exactly this obligation.
  Error codes are deliberately not pinned: a property that says "an error code" is satisfied by
  any non-zero value, and the correspondence compares error classes, not numbers.
-/
import Wbxml.Gen.Consts
namespace Wbxml.Props.C04
open Wbxml.Gen.Consts

/-- The WBXML 1.3 global tokens (WAP-192 §7) and masks as the model's parser / encoders write them. -/
def wireConstants : List (String × Int) := [
  ("WBXML_SWITCH_PAGE", 0x00), ("WBXML_END", 0x01), ("WBXML_ENTITY", 0x02), ("WBXML_STR_I", 0x03),
  ("WBXML_LITERAL", 0x04), ("WBXML_EXT_I_0", 0x40), ("WBXML_EXT_I_1", 0x41), ("WBXML_EXT_I_2", 0x42),
  ("WBXML_PI", 0x43), ("WBXML_LITERAL_C", 0x44), ("WBXML_EXT_T_0", 0x80), ("WBXML_EXT_T_1", 0x81),
  ("WBXML_EXT_T_2", 0x82), ("WBXML_STR_T", 0x83), ("WBXML_LITERAL_A", 0x84), ("WBXML_EXT_0", 0xC0),
  ("WBXML_EXT_1", 0xC1), ("WBXML_EXT_2", 0xC2), ("WBXML_OPAQUE", 0xC3), ("WBXML_LITERAL_AC", 0xC4),
  ("WBXML_TOKEN_MASK", 0x3F), ("WBXML_TOKEN_WITH_ATTRS", 0x80), ("WBXML_TOKEN_WITH_CONTENT", 0x40),
  ("WBXML_PUBLIC_ID_UNKNOWN", 1),
  ("WBXML_TAG_OPTION_BINARY", 1), ("WBXML_TAG_OPTION_OPAQUE", 2), ("WBXML_TAG_OPTION_CDATA", 4),
  ("WBXML_VERSION_10", 0), ("WBXML_VERSION_11", 1), ("WBXML_VERSION_12", 2), ("WBXML_VERSION_13", 3),
  ("WBXML_GEN_XML_COMPACT", 0), ("WBXML_GEN_XML_INDENT", 1), ("WBXML_GEN_XML_CANONICAL", 2),
  ("WBXML_CHARSET_US_ASCII", 3), ("WBXML_CHARSET_UTF_8", 106), ("WBXML_PARSER_DEFAULT_CHARSET", 106),
  ("WBXML_OK", 0), ("WB_ULONG_BITS", 32)]

/-- Every wire-level constant has, in the current build, the value the models assume. -/
theorem wire_constants_as_specified :
    wireConstants.all (fun kv => Gen.Consts.all.contains kv) = true := by decide +kernel

/-- The charset names the XML header prints for the two string charsets of this build. -/
theorem charset_names_as_modelled :
    Gen.Consts.charsets.lookup 3 = some "US-ASCII".toUTF8.toList ∧
    Gen.Consts.charsets.lookup 106 = some "UTF-8".toUTF8.toList := by decide +kernel

end Wbxml.Props.C04
