/-
  C18 — a tree built through the API equals the tree parsed from the same XML.

  Model: `Model/TreeHeap.lean` — `WBXMLTreeNode`s are cells of an index-linked heap (`parent`,
  `first` = `children`, `next`, `prev` : `Option Nat`; freed cells stay behind with `live = false`), every
  C statement of `wbxml_tree_add_node`, `wbxml_tree_extract_node`, the `wbxml_tree_add_*` wrappers and
  the iterative `wbxml_tree_node_destroy_all` is one `deref` / `upd` / `free`, each of which answers
  `Err.ub` on a NULL, wild or freed pointer (`deref_none_is_ub`, `double_free_is_ub`).

  Invariant (`Lemmas/TreeHeapForest.lean`):  `Inv s` := there is a ghost shape `G` (first-child /
  next-sibling tree of addresses, its top-level chain listing the tree root and every detached
  sub-tree root) such that
    * every cell of `G` is live and its four links are exactly those of its position in `G`
      (parent / first child / previous / next mutually consistent; text and nested-document nodes
      have no children),
    * no address occurs twice in `G` (acyclic; nothing is reached twice),
    * every live cell occurs in `G` (everything is reachable from the root or from a detached root),
    * `tree->root`, if set, is a top of `G`.
  `links_consistent` below spells the first item out without the ghost.

  The theorems quantify over ALL states satisfying `Inv` and all arguments inside the executable
  precondition `pre` (live nodes used as the header documents them: a parent that can have children,
  re-insertion / destruction of detached nodes only, never below itself); `inv_all_histories` lifts
  them to ALL finite sequences of calls by induction over the list.  Calls outside `pre` are skipped
  in the model exactly as on both sides of the correspondence (`stepChecked`).
-/
import Wbxml.Lemmas.TreeHeapWitness
import Wbxml.Lemmas.TreeHeapXmlWitness
import Wbxml.Lemmas.TreeHeapReinsert
import Wbxml.Model.EncXml
import Wbxml.Model.EncWbxml
set_option linter.unusedSimpArgs false
set_option linter.unusedVariables false
namespace Wbxml.Props.C18
open Wbxml Wbxml.Model Wbxml.Model.TreeHeap

/-! ### Pointer hazards are visible in the model -/

/-- Dereferencing NULL-free but wild or freed node pointers is the model's `Err.ub`. -/
theorem deref_none_is_ub (s : St) (i : Nat) (h : s.cellAt i = none) : ∃ w, s.deref i = .error (.ub w) :=
  deref_none_ub h

/-- Destroying a node twice is `Err.ub`: a successful teardown contains no double free. -/
theorem double_free_is_ub (s : St) (i : Nat) (h : s.cellAt i = none) : ∃ w, s.free i = .error (.ub w) :=
  free_dead_ub h

/-! ### A new tree -/

/-- `wbxml_tree_create`: the empty tree satisfies the invariant. -/
theorem inv_create (main : List Lang) (lang cs : Nat) : Inv (create main lang cs) :=
  TreeHeap.inv_create main lang cs

/-! ### Every call keeps the links consistent and never faults -/

/-- `wbxml_tree_add_node` (insertion of a detached node under NULL or under an element / CDATA
    node that is not below it): no fault, links consistent afterwards. -/
theorem inv_add_node (s : St) (hI : Inv s) (parent : Option Nat) (node : Nat)
    (hpre : pre s (.addNode parent node) = true) :
    ∃ b s', addNode s parent node = .ok (b, s') ∧ Inv s' := by
  obtain ⟨r, s', e, hI', _, _⟩ := step_inv hI (.addNode parent node) hpre
  simp only [step] at e
  cases h : addNode s parent node with
  | error err => rw [h] at e; cases e
  | ok v =>
    obtain ⟨b, s1⟩ := v
    rw [h] at e
    injection e with e; injection e with e1 e2; subst e2
    exact ⟨b, _, rfl, hI'⟩

/-- `wbxml_tree_extract_node` of any live node. -/
theorem inv_extract (s : St) (hI : Inv s) (node : Nat) (hpre : pre s (.extract node) = true) :
    ∃ s', extractNode s node = .ok s' ∧ Inv s' := by
  obtain ⟨r, s', e, hI', _, _⟩ := step_inv hI (.extract node) hpre
  simp only [step] at e
  cases h : extractNode s node with
  | error err => rw [h] at e; cases e
  | ok s1 =>
    rw [h] at e
    injection e with e; injection e with e1 e2; subst e2
    exact ⟨_, rfl, hI'⟩

/-- `wbxml_tree_add_elt`. -/
theorem inv_add_elt (s : St) (hI : Inv s) (parent : Option Nat) (name : Name)
    (hpre : parentOK s parent = true) :
    ∃ r s', addElt s parent name = .ok (r, s') ∧ Inv s' := by
  obtain ⟨r, s', e, hI', _, _⟩ := step_inv hI (.addElt parent name) hpre
  obtain ⟨n, hn⟩ := wrapN_ok e
  exact ⟨n, s', hn, hI'⟩

/-- `wbxml_tree_add_elt_with_attrs`. -/
theorem inv_add_elt_with_attrs (s : St) (hI : Inv s) (parent : Option Nat) (name : Name) (attrs : List Attr)
    (hpre : parentOK s parent = true) :
    ∃ r s', addEltWithAttrs s parent name attrs = .ok (r, s') ∧ Inv s' := by
  obtain ⟨r, s', e, hI', _, _⟩ := step_inv hI (.addEltAttrs parent name attrs) hpre
  obtain ⟨n, hn⟩ := wrapN_ok e
  exact ⟨n, s', hn, hI'⟩

/-- `wbxml_tree_add_xml_elt` (`tree->lang` set). -/
theorem inv_add_xml_elt (s : St) (hI : Inv s) (parent : Option Nat) (name : Bytes)
    (hpre : pre s (.addXmlElt parent name) = true) :
    ∃ r s', addXmlElt s parent name = .ok (r, s') ∧ Inv s' := by
  obtain ⟨r, s', e, hI', _, _⟩ := step_inv hI (.addXmlElt parent name) hpre
  obtain ⟨n, hn⟩ := wrapN_ok e
  exact ⟨n, s', hn, hI'⟩

/-- `wbxml_tree_add_xml_elt_with_attrs`. -/
theorem inv_add_xml_elt_with_attrs (s : St) (hI : Inv s) (parent : Option Nat) (name : Bytes)
    (attrs : List (Bytes × Bytes)) (hpre : pre s (.addXmlEltAttrs parent name attrs) = true) :
    ∃ r s', addXmlEltWithAttrs s parent name attrs = .ok (r, s') ∧ Inv s' := by
  obtain ⟨r, s', e, hI', _, _⟩ := step_inv hI (.addXmlEltAttrs parent name attrs) hpre
  obtain ⟨n, hn⟩ := wrapN_ok e
  exact ⟨n, s', hn, hI'⟩

/-- `wbxml_tree_add_xml_elt_with_attrs_and_text`. -/
theorem inv_add_xml_elt_with_attrs_and_text (s : St) (hI : Inv s) (parent : Option Nat) (name : Bytes)
    (attrs : List (Bytes × Bytes)) (text : Bytes) (hpre : pre s (.addXmlEltAttrsText parent name attrs text) = true) :
    ∃ r s', addXmlEltWithAttrsAndText s parent name attrs text = .ok (r, s') ∧ Inv s' := by
  obtain ⟨r, s', e, hI', _, _⟩ := step_inv hI (.addXmlEltAttrsText parent name attrs text) hpre
  obtain ⟨n, hn⟩ := wrapN_ok e
  exact ⟨n, s', hn, hI'⟩

/-- `wbxml_tree_add_text`. -/
theorem inv_add_text (s : St) (hI : Inv s) (parent : Option Nat) (t : Bytes) (hpre : parentOK s parent = true) :
    ∃ r s', addText s parent t = .ok (r, s') ∧ Inv s' := by
  obtain ⟨r, s', e, hI', _, _⟩ := step_inv hI (.addText parent t) hpre
  obtain ⟨n, hn⟩ := wrapN_ok e
  exact ⟨n, s', hn, hI'⟩

/-- `wbxml_tree_add_cdata`. -/
theorem inv_add_cdata (s : St) (hI : Inv s) (parent : Option Nat) (hpre : parentOK s parent = true) :
    ∃ r s', addCdata s parent = .ok (r, s') ∧ Inv s' := by
  obtain ⟨r, s', e, hI', _, _⟩ := step_inv hI (.addCdata parent) hpre
  obtain ⟨n, hn⟩ := wrapN_ok e
  exact ⟨n, s', hn, hI'⟩

/-- `wbxml_tree_add_tree`. -/
theorem inv_add_tree (s : St) (hI : Inv s) (parent : Option Nat) (t : Tree) (hpre : parentOK s parent = true) :
    ∃ r s', addTree s parent t = .ok (r, s') ∧ Inv s' := by
  obtain ⟨r, s', e, hI', _, _⟩ := step_inv hI (.addTree parent t) hpre
  obtain ⟨n, hn⟩ := wrapN_ok e
  exact ⟨n, s', hn, hI'⟩

/-- Every call of the API (inside the contract) on every state satisfying the invariant. -/
theorem inv_step (s : St) (hI : Inv s) (op : Op) (hpre : pre s op = true) :
    ∃ r s', step s op = .ok (r, s') ∧ Inv s' := by
  obtain ⟨r, s', e, hI', _, _⟩ := step_inv hI op hpre
  exact ⟨r, s', e, hI'⟩

/-- ALL finite histories on a new tree of any language: the replay never faults (no `Err.ub`, no fuel
    exhaustion, no error at all) and the links are consistent at the end — and, the list being
    arbitrary, after every call. -/
theorem inv_all_histories (main : List Lang) (lang cs : Nat) (ops : List Op) :
    ∃ s', run (create main lang cs) ops = .ok s' ∧ Inv s' := by
  obtain ⟨s', e, hI', _, _⟩ := run_inv ops _ (TreeHeap.inv_create main lang cs)
  exact ⟨s', e, hI'⟩

/-- … and from any state that satisfies the invariant. -/
theorem inv_histories_from (s : St) (hI : Inv s) (ops : List Op) : ∃ s', run s ops = .ok s' ∧ Inv s' := by
  obtain ⟨s', e, hI', _, _⟩ := run_inv ops s hI
  exact ⟨s', e, hI'⟩

/-! ### `abs` is total under the invariant -/

/-- The abstraction walk (`children` / `next`, fuel `2 * heap + 2`) never faults and never runs out
    of fuel on a state that satisfies the invariant. -/
theorem abs_total (s : St) (hI : Inv s) : ∃ t, absTree s = .ok t := absTree_ok hI

/-- … in particular after every history. -/
theorem abs_total_all_histories (main : List Lang) (lang cs : Nat) (ops : List Op) :
    ∃ s' t, run (create main lang cs) ops = .ok s' ∧ absTree s' = .ok t := by
  obtain ⟨s', e, hI'⟩ := inv_all_histories main lang cs ops
  obtain ⟨t, ht⟩ := abs_total s' hI'
  exact ⟨s', t, e, ht⟩

/-! ### Teardown -/

/-- `wbxml_tree_node_destroy_all` on a sub-tree without parent (a detached sub-tree, or the root as
    `wbxml_tree_destroy` calls it): the iterative walk terminates within the model's fuel
    (`2 * heap + 2`), never touches a freed cell (any second `free` would be `Err.ub`), and
    afterwards exactly the cells of the sub-tree are gone — every one of them, none outside. -/
theorem destroy_frees_each_once (s : St) (hI : Inv s) (node : Nat) (c : Cell)
    (hc : s.cellAt node = some c) (hp : c.parent = none) :
    ∃ s' sub, destroyAll s node = .ok s' ∧ below s node = .ok sub ∧
      (∀ j, s'.cellAt j = if j = node ∨ j ∈ sub then none else s.cellAt j) := by
  obtain ⟨G, hF⟩ := hI
  obtain ⟨s', e, hv, _⟩ := destroyAll_spec hF hc hp
  have hn := hF.parent_none_top hc hp
  refine ⟨s', _, e, below_spec hF hn, ?_⟩
  intro j
  rw [hv]
  simp only [vdelAll, List.mem_cons]

/-- Destroying a detached sub-tree keeps the rest of the heap consistent. -/
theorem inv_destroy (s : St) (hI : Inv s) (node : Nat) (hpre : pre s (.destroy node) = true) :
    ∃ s', destroyAll s node = .ok s' ∧ Inv s' := by
  obtain ⟨r, s', e, hI', _, _⟩ := step_inv hI (.destroy node) hpre
  simp only [step] at e
  cases h : destroyAll s node with
  | error err => rw [h] at e; cases e
  | ok s1 =>
    rw [h] at e
    injection e with e; injection e with e1 e2; subst e2
    exact ⟨_, rfl, hI'⟩

/-! ### What the invariant says, cell by cell -/

/-- "Each node's parent, first-child, previous and next links are mutually consistent": in a state
    satisfying `Inv`, for every live node
    * its first child is live, names it as parent and has no previous sibling;
    * its next sibling is live, names it as previous sibling and has the same parent;
    * its previous sibling is live, names it as next sibling and has the same parent;
    * its parent is a live element / CDATA node that has children;
    * text and nested-document nodes have no children;  the root has no parent.
    (Acyclicity and "reachable exactly once" are the repetition-freeness and coverage parts of `Inv`.) -/
theorem links_consistent (s : St) (hI : Inv s) (i : Nat) (c : Cell) (hc : s.cellAt i = some c) :
    (∀ j, c.first = some j → ∃ cj, s.cellAt j = some cj ∧ cj.parent = some i ∧ cj.prev = none) ∧
    (∀ j, c.next = some j → ∃ cj, s.cellAt j = some cj ∧ cj.prev = some i ∧ cj.parent = c.parent) ∧
    (∀ j, c.prev = some j → ∃ cj, s.cellAt j = some cj ∧ cj.next = some i ∧ cj.parent = c.parent) ∧
    (∀ p, c.parent = some p → ∃ cp, s.cellAt p = some cp ∧ cp.pay.isBranch = true ∧ cp.first.isSome = true) ∧
    (c.pay.isBranch = false → c.first = none) ∧
    (s.root = some i → c.parent = none) :=
  hI.links i c hc

/-- … after every call of every finite history. -/
theorem links_consistent_all_histories (main : List Lang) (lang cs : Nat) (ops : List Op) :
    ∃ s', run (create main lang cs) ops = .ok s' ∧
      ∀ i c, s'.cellAt i = some c →
        (∀ j, c.next = some j → ∃ cj, s'.cellAt j = some cj ∧ cj.prev = some i ∧ cj.parent = c.parent) ∧
        (∀ j, c.first = some j → ∃ cj, s'.cellAt j = some cj ∧ cj.parent = some i ∧ cj.prev = none) := by
  obtain ⟨s', e, hI'⟩ := inv_all_histories main lang cs ops
  refine ⟨s', e, fun i c hc => ?_⟩
  have := hI'.links i c hc
  exact ⟨this.2.1, this.1⟩

/-! ### Text merging -/

/-- `wbxml_tree_add_node(tree, P, n)` acts on the ABSTRACT children of `P` exactly as `Model.addKid`
    (the append of the tree builders `BState.attach`, i.e. what both parsers do for every node they
    add): plain append — or, when the last child and `n` are both text, ONE text node carrying the
    joined content.  For every state satisfying the invariant and every call inside `pre`. -/
theorem add_node_abs (s : St) (hI : Inv s) (P n : Nat) (hpre : pre s (.addNode (some P) n) = true) :
    ∃ s' ks sub, addNode s (some P) n = .ok (true, s') ∧ kidsAbs s P = .ok ks ∧ absNode s s.fuel n = .ok sub ∧
      kidsAbs s' P = .ok (addKid ks sub) := by
  obtain ⟨G, hF⟩ := hI
  simp only [pre, Bool.and_eq_true] at hpre
  obtain ⟨cP, cn, ctx⟩ := addCtx_of_pre hF hpre.1.1 hpre.1.2 hpre.2
  exact TreeHeap.add_node_abs ctx

/-- The merge spelled out: appending text `t` after children that end in text `u` yields the same
    children with the last one replaced by the single text node `u ++ t`. -/
theorem add_node_merges_text (s : St) (hI : Inv s) (P n : Nat) (hpre : pre s (.addNode (some P) n) = true)
    (pre_kids : List Node) (u t : Bytes)
    (hk : kidsAbs s P = .ok (pre_kids ++ [.text u])) (hn : absNode s s.fuel n = .ok (.text t)) :
    ∃ s', addNode s (some P) n = .ok (true, s') ∧ kidsAbs s' P = .ok (pre_kids ++ [.text (u ++ t)]) := by
  obtain ⟨s', ks, sub, h1, h2, h3, h4⟩ := add_node_abs s hI P n hpre
  rw [hk] at h2; injection h2 with h2; subst h2
  rw [hn] at h3; injection h3 with h3; subst h3
  refine ⟨s', h1, ?_⟩
  rw [h4]
  simp [addKid]

/-- `NoAdjText` ("adjacent text siblings have been merged": no live text node whose `next` is a live
    text node) is kept by every call except `wbxml_tree_extract_node` … -/
theorem no_adjacent_text_step (s : St) (hI : Inv s) (hN : NoAdjText s) (op : Op) (hpre : pre s op = true)
    (hop : op.isExtract = false) :
    ∃ r s', step s op = .ok (r, s') ∧ NoAdjText s' := by
  obtain ⟨r, s', e, _, _, hna⟩ := step_inv hI op hpre
  exact ⟨r, s', e, hna hop hN⟩

/-- … hence by ALL finite histories that contain no extraction (insertions of every kind,
    re-insertion, destruction, calls outside the contract): the invariant of add-only histories. -/
theorem no_adjacent_text_partial (main : List Lang) (lang cs : Nat) (ops : List Op)
    (hops : ∀ op, op ∈ ops → op.isExtract = false) :
    ∃ s', run (create main lang cs) ops = .ok s' ∧ NoAdjText s' := by
  obtain ⟨s', e, _, _, hna⟩ := run_inv ops _ (TreeHeap.inv_create main lang cs)
  refine ⟨s', e, hna hops ?_⟩
  intro i j ci cj hci
  simp [create, St.cellAt] at hci

/-- Stated at full strength — for ALL histories — "adjacent text siblings have been merged" is FALSE for
    the code as it is: `wbxml_tree_extract_node` does not join the neighbours of the node it unlinks.
    (Recorded in `known_findings.json`, id `adjacent-text-after-extract`; every state of the history
    still satisfies `Inv`, see `inv_all_histories`.) -/
theorem no_adjacent_text_all_histories_false :
    ¬ (∀ (ops : List Op) (s' : St), run (create [] 0 0) ops = .ok s' → NoAdjText s') := by
  intro h
  exact adjWitness_adjacent (h adjWitness adjWitnessState adjWitness_runs)

/-- The witness: root `<r>`, text "a", element `<e/>`, text "b", extraction of `<e/>` (5 calls). -/
theorem adjWitness_history : run (create [] 0 0) adjWitness = .ok adjWitnessState ∧ ¬ NoAdjText adjWitnessState :=
  ⟨adjWitness_runs, adjWitness_adjacent⟩

/-- The abstract tree of the witness: `<r>` with the two text children `a`, `b` side by side. -/
theorem adjWitness_abs_two_texts :
    absTree adjWitnessState =
      .ok { lang := none, origCharset := 0,
            root := some (.elt (.literal b!"r") [] [.text b!"a", .text b!"b"]) } := by rfl

/-! ### `wbxml_tree_extract_node` on a node that is not in the tree -/

/-- After the repair (`fix:` commit recorded in `known_findings.json`): extracting a node that is
    already detached changes nothing — neither the cells nor `tree->root`. -/
theorem extract_detached_keeps_tree (s : St) (hI : Inv s) (n : Nat) (hd : isDetached s n = true) :
    ∃ s', extractNode s n = .ok s' ∧ s'.cellAt = s.cellAt ∧ s'.root = s.root := by
  obtain ⟨G, hF⟩ := hI
  obtain ⟨cn, hcn, hp, _, _, hr⟩ := isDetached_spec hd
  obtain ⟨s', e, _, hv, hroot, _⟩ := extract_top hF hcn hp
  refine ⟨s', e, hv, ?_⟩
  rw [hroot]; simp [hr]

/-- The code as it was pinned (`extractNodeG false`): the same call on a detached node executed
    `tree->root = node->next` and emptied the tree — root `<r>`, child `<c>`, extract the child,
    extract it again. -/
theorem extract_detached_drops_root_unfixed :
    ∃ s s', run (create [] 0 0) [.addElt none (.literal b!"r"), .addElt (some 0) (.literal b!"c"), .extract 1] = .ok s ∧
      isDetached s 1 = true ∧ s.root = some 0 ∧
      extractNodeG false s 1 = .ok s' ∧ s'.root = none :=
  ⟨x3, { x3 with root := none }, extWitness_runs, rfl, rfl, rfl, rfl⟩

/-! ### `wbxml_tree_node_add_child` is not `wbxml_tree_add_node` -/

/-- `wbxml_tree_node_add_child` links without merging: on a state where `NoAdjText` holds (root with
    one text child, plus a fresh text node) it produces two adjacent text siblings.  (It is used by
    `wbxml_tree_node_create_cdata` / `_create_xml_elt_with_text` on fresh parents only; it is not one of
    the calls the histories of C18 range over.) -/
theorem add_child_does_not_merge :
    ∃ s s', Inv s ∧ NoAdjText s ∧ addChild s 0 2 = .ok s' ∧ ¬ NoAdjText s' := by
  have hrun : run (create [] 0 0) [.addElt none (.literal b!"r"), .addText (some 0) b!"a"] = .ok w2 := by
    rw [run_cons _ adj_h1, run_cons _ adj_h2]; rfl
  obtain ⟨s1, e1, hI1, _, hna⟩ := run_inv [.addElt none (.literal b!"r"), .addText (some 0) b!"a"] _
    (TreeHeap.inv_create [] 0 0)
  rw [hrun] at e1; injection e1 with e1; subst e1
  have hN1 : NoAdjText w2 := hna (by intro op hop; simp at hop; rcases hop with h | h <;> subst h <;> rfl) (by
    intro i j ci cj hci; simp [create, St.cellAt] at hci)
  obtain ⟨G, hF⟩ := hI1
  refine ⟨(w2.alloc (.text b!"b")).2, _, ⟨_, (hF.alloc _).1⟩, alloc_noadj ⟨G, hF⟩ hN1 _, rfl, ?_⟩
  intro hN
  exact hN 1 2 _ _ rfl rfl rfl ⟨rfl, rfl⟩

/-! ### Encoders see `abs` only -/

/-- Two states (two pointer histories) with the same abstract tree have the same model XML.  True by
    construction — the model encoder `treeToXml` is a function on `abs` — and therefore NOT the
    evidence for the property; the evidence is the correspondence check: the REAL `wbxml_tree_to_xml`
    bytes equal `treeToXml (abs …)` on every history, and two real trees built by different histories
    with the same dump give the same XML and WBXML bytes (tools/props/c18.py, `T2`/`X2`/`W2`). -/
theorem abs_eq_same_xml (cfg : W2XCfg) (fuel : Nat) (s₁ s₂ : St) (h : absTree s₁ = absTree s₂) :
    (absTree s₁ >>= treeToXml cfg fuel) = (absTree s₂ >>= treeToXml cfg fuel) := by
  rw [h]

/-! ### Name resolution of `wbxml_tree_add_xml_elt` -/

/-- The element created for an XML name carries the token `wbxml_tables_get_tag_from_xml` finds with
    the code page of the name's namespace (else a literal), whatever the calls before it were:
    `tree->cur_code_page` is overwritten from the name on every call, so the order in which an API
    user adds elements cannot change the tokens (the XML front end makes the very same call). -/
theorem add_xml_elt_name (s : St) (lang : Lang) (hl : s.lang = some lang) (parent : Option Nat) (name : Bytes) :
    addXmlElt s parent name =
      addFresh { s with curPage := (xmlEltName lang name).2 } parent (.elt (xmlEltName lang name).1 []) := by
  simp only [addXmlElt, hl]

/-! ### Non-vacuity -/

/-- The preconditions are satisfiable and the theorems have content: a concrete history with
    insertion, merge, extraction, re-insertion and destruction runs inside `pre` at every step. -/
example : ∃ s', run (create [] 0 0)
      [.addElt none (.literal b!"r"), .addText (some 0) b!"a", .addText (some 0) b!"b",
       .addCdata (some 0), .extract 3, .addNode (some 0) 3, .extract 3, .destroy 3] = .ok s' ∧
      absTree s' = .ok { lang := none, origCharset := 0,
                         root := some (.elt (.literal b!"r") [] [.text b!"ab"]) } :=
  ⟨m8, mixWitness_runs, rfl⟩

example : pre adjWitnessState (.addNode (some 0) 2) = true := by rfl
example : pre adjWitnessState (.extract 1) = true := by rfl
example : pre adjWitnessState (.destroy 2) = true := by rfl

/-! ### API-built tree equals parsed tree

  `apiHistoryOf es` (`Lemmas/TreeHeapXml.lean`) is the document-order history a client issues for the
  document Expat reports as `es`: `wbxml_tree_add_xml_elt_with_attrs` under the current parent at a start
  tag, `wbxml_tree_add_text` for character data, `wbxml_tree_add_cdata` (+ `wbxml_tree_add_text` below it)
  for a CDATA section, one step up at an end tag.  `plainEvents L es` says which event lists are covered:
  well-nested Expat output (prolog with XML declaration / DOCTYPE / PIs, one root, epilog) without the
  four things the XML front end does beyond those calls —
    * `embeddedName`: a `DevInf` / `MgmtTree` start tag below the root (embedded SyncML document),
    * `attrPlain`:   an attribute reported in the XML namespace (`xml:lang` … mapping),
    * `textPlain`:   character data below an element called `Data` (SyncML CDATA wrapping, LF → CRLF),
    * `textPlain`:   character data below a binary-flagged element (ActiveSync base64 decoding).
  Each exclusion has a kernel-evaluated witness below on which the two sides really differ.
  Covered (no exclusion): DOCTYPE- and root-name-based language selection (`L` is whatever the front end
  selected), the encoding declaration, names without table row (literals on both sides), namespace
  prefixes / code pages, white-space-only text (the front end model attaches it like any text), text
  reported in pieces (merged on both sides), processing instructions. -/

/-- **Headline clause, `_partial`** (partial = restricted to `plainEvents`).  For EVERY language table,
    every environment of Expat runs, every document on which the XML front end succeeds with tree `t`
    (`treeOfXml … = .ok t`; the events are those of the run recorded for the document, and Expat's
    verdict was `ok`), whose events are `plainEvents` for the language `L` the front end selected:
    creating the tree with an id `lid` that denotes `L` and the parsed charset, and issuing the
    document-order API history of the events, never faults, keeps the link invariant, and ends in a
    state whose abstraction IS `t` — same language, same charset, same root, node for node. -/
theorem api_tree_equals_parsed_partial (main : List Lang) (env : List (Bytes × ExpatRun)) (fuel : Nat)
    (xml key : Bytes) (r : ExpatRun) (t : Tree) (L : Lang) (lid : Nat)
    (henv : env.find? (fun p => p.1 == xml) = some (key, r))
    (hparsed : treeOfXml main env fuel xml = .ok t)
    (hlang : t.lang = some L)
    (hplain : plainEvents L r.events = true)
    (hlid : main.find? (fun l => l.id == lid) = t.lang) :
    r.ok = true ∧
    ∃ s', run (create main lid t.origCharset) (apiHistoryOf r.events) = .ok s' ∧ Inv s' ∧ absTree s' = .ok t := by
  obtain ⟨sub, hok, _, herr, ht⟩ := treeOfXml_ok_inv henv hparsed
  subst ht
  refine ⟨hok, ?_⟩
  simp only at hlang hlid
  obtain ⟨s', hr, hI, habs⟩ := api_history_abs main xml sub r.events
    (r.events.foldl (xbuildStep main xml sub) {}).charset hplain herr hlang
  have hc : create main lid (r.events.foldl (xbuildStep main xml sub) {}).charset =
      { lang := some L, charset := (r.events.foldl (xbuildStep main xml sub) {}).charset } := by
    simp only [create, hlid, hlang]
  refine ⟨s', by rw [hc]; exact hr, hI, ?_⟩
  rw [habs, hlang]

/-- … hence the API-built document converts to the same WBXML bytes and the same XML bytes as the
    parsed one, for EVERY option tuple of the two encoders. -/
theorem api_built_converts_like_parsed_partial (main : List Lang) (env : List (Bytes × ExpatRun)) (fuel : Nat)
    (xml key : Bytes) (r : ExpatRun) (t : Tree) (L : Lang) (lid : Nat)
    (henv : env.find? (fun p => p.1 == xml) = some (key, r))
    (hparsed : treeOfXml main env fuel xml = .ok t)
    (hlang : t.lang = some L)
    (hplain : plainEvents L r.events = true)
    (hlid : main.find? (fun l => l.id == lid) = t.lang)
    (cfgW : X2WCfg) (cfgX : W2XCfg) (xfuel : Nat) :
    ∃ s', run (create main lid t.origCharset) (apiHistoryOf r.events) = .ok s' ∧
      (absTree s' >>= treeToWbxml cfgW) = treeToWbxml cfgW t ∧
      (absTree s' >>= treeToXml cfgX xfuel) = treeToXml cfgX xfuel t := by
  obtain ⟨_, s', hr, _, habs⟩ := api_tree_equals_parsed_partial main env fuel xml key r t L lid henv hparsed hlang hplain hlid
  refine ⟨s', hr, ?_, ?_⟩ <;> rw [habs] <;> rfl

/-! ### Shape determines the bytes -/

/-- ANY two histories (insertions of every kind, extractions, re-insertions, destructions, calls outside
    the contract; on trees of any language and charset) that end in the same shape — equal `abs` — give
    the same WBXML bytes and the same XML bytes under every option tuple; and `abs` is defined for both.
    (As `abs_eq_same_xml`: true by construction of the model encoders, which are functions of `abs`; the
    evidence that the REAL encoders are is the correspondence check `T2`/`X2`/`W2`.) -/
theorem same_shape_same_bytes (main : List Lang) (lang₁ cs₁ lang₂ cs₂ : Nat) (ops₁ ops₂ : List Op) (s₁ s₂ : St)
    (h₁ : run (create main lang₁ cs₁) ops₁ = .ok s₁) (h₂ : run (create main lang₂ cs₂) ops₂ = .ok s₂)
    (hshape : absTree s₁ = absTree s₂) (cfgW : X2WCfg) (cfgX : W2XCfg) (fuel : Nat) :
    ∃ t, absTree s₁ = .ok t ∧ absTree s₂ = .ok t ∧
      (absTree s₁ >>= treeToWbxml cfgW) = (absTree s₂ >>= treeToWbxml cfgW) ∧
      (absTree s₁ >>= treeToXml cfgX fuel) = (absTree s₂ >>= treeToXml cfgX fuel) := by
  obtain ⟨s', t, e, ht⟩ := abs_total_all_histories main lang₁ cs₁ ops₁
  rw [h₁] at e; injection e with e; subst e
  exact ⟨t, ht, by rw [← hshape]; exact ht, by rw [hshape], by rw [hshape]⟩

/-- `wbxml_tree_extract_node(tree, n)` followed by `wbxml_tree_add_node(tree, P, n)` is the identity on
    `abs` — for every state satisfying the invariant and every live node `n` that is the LAST child of its
    parent `P` (`n->next == NULL`), provided `n` and its previous sibling are not both text nodes.
    Both calls are inside the contract (`run` does not skip them), the invariant holds afterwards.
    The side condition is exact: see `extract_then_reinsert_merges_adjacent_text`. -/
theorem extract_then_reinsert_last_child (s : St) (hI : Inv s) (n P : Nat) (cn : Cell)
    (hcn : s.cellAt n = some cn) (hp : cn.parent = some P) (hlast : cn.next = none)
    (hside : ∀ q cq, cn.prev = some q → s.cellAt q = some cq → ¬ (cn.pay.isText = true ∧ cq.pay.isText = true)) :
    ∃ s', run s [.extract n, .addNode (some P) n] = .ok s' ∧ Inv s' ∧ absTree s' = absTree s := by
  obtain ⟨G, hF⟩ := hI
  obtain ⟨s1, s2, e1, e2, hF2, _, _, _, _, habs, hpre⟩ := extract_reinsert_last hF hcn hp hlast (by
    intro q cq hq hcq
    have := hside q cq hq hcq
    cases h1 : cn.pay.isText <;> cases h2 : cq.pay.isText <;> simp_all)
  refine ⟨s2, ?_, ⟨G, hF2⟩, habs⟩
  have hpre0 : pre s (.extract n) = true := by simp only [pre, hcn, Option.isSome_some]
  have st1 : stepChecked s (.extract n) = .ok (.code 0, s1) := by
    unfold stepChecked; rw [if_pos hpre0]; simp only [step, e1]
  have st2 : stepChecked s1 (.addNode (some P) n) = .ok (.bool true, s2) := by
    unfold stepChecked; rw [if_pos hpre]; simp only [step, e2]
  rw [run_cons _ st1, run_cons _ st2]; rfl

/-- Corollary: inserting a detached sub-tree, extracting it and inserting it again at the same place gives
    the same `abs` as inserting it once — for every state with the invariant and without adjacent text
    siblings (e.g. after any extraction-free history, `no_adjacent_text_partial`) and every insertion
    inside the contract; no call of the longer history is skipped. -/
theorem insert_extract_insert_same_abs (s : St) (hI : Inv s) (hN : NoAdjText s) (P n : Nat)
    (hpre : pre s (.addNode (some P) n) = true) :
    ∃ s1 s3, run s [.addNode (some P) n] = .ok s1 ∧
      run s [.addNode (some P) n, .extract n, .addNode (some P) n] = .ok s3 ∧ Inv s3 ∧ absTree s3 = absTree s1 := by
  obtain ⟨G, hF⟩ := hI
  exact insert_extract_insert hF hN hpre

/-- Without the side condition the statement is false: on the state of the known finding
    `adjacent-text-after-extract` (root with the adjacent text children "a", "b") the last child "b" has a
    text node as previous sibling; extracting it and adding it back leaves ONE child "ab". -/
theorem extract_then_reinsert_merges_adjacent_text : reinsertMergeCheck = true := by decide +kernel

/-! ### Non-vacuity of the headline theorems: a WML and a SyncML document -/

/-- WML 1.2 (DOCTYPE, encoding declaration, attributes, nested elements, text reported in pieces, a
    CDATA section, a processing instruction): all hypotheses hold, the theorems apply. -/
example : ∃ t s', treeOfXml Gen.main wmlEnv 1 wmlXml = .ok t ∧ t.lang = some Gen.lang2 ∧
    run (create Gen.main 1103 t.origCharset) (apiHistoryOf wmlEvents) = .ok s' ∧ absTree s' = .ok t ∧
    (∀ cfgW, (absTree s' >>= treeToWbxml cfgW) = treeToWbxml cfgW t) ∧
    (∀ cfgX f, (absTree s' >>= treeToXml cfgX f) = treeToXml cfgX f t) := by
  have h1 : parsedLangIs (treeOfXml Gen.main wmlEnv 1 wmlXml) Gen.lang2 = true := by decide +kernel
  have h2 : plainEvents Gen.lang2 wmlEvents = true := by decide +kernel
  have h3 : Gen.main.find? (fun l => l.id == 1103) = some Gen.lang2 := by decide +kernel
  obtain ⟨t, ht, hl⟩ := parsedLangIs_inv h1
  have henv : wmlEnv.find? (fun p => p.1 == wmlXml) = some (wmlXml, { ok := true, events := wmlEvents }) := by
    simp [wmlEnv]
  obtain ⟨_, s', hr, _, habs⟩ := api_tree_equals_parsed_partial Gen.main wmlEnv 1 wmlXml wmlXml _ t Gen.lang2 1103
    henv ht hl h2 (by rw [h3, hl])
  refine ⟨t, s', ht, hl, hr, habs, ?_, ?_⟩
  · intro cfgW; rw [habs]; rfl
  · intro cfgX f; rw [habs]; rfl

/-- … and, evaluated independently of the theorem, both sides of the WML example give the same non-empty
    WBXML and XML bytes. -/
example : sidesAgree (treeOfXml Gen.main wmlEnv 1 wmlXml) Gen.lang2 wmlEvents = true := by decide +kernel

/-- SyncML 1.2 (language found from the root element's namespace, two code pages, a literal attribute,
    nesting, text in pieces). -/
example : ∃ t s', treeOfXml Gen.main syncEnv 1 syncXml = .ok t ∧ t.lang = some Gen.lang15 ∧
    run (create Gen.main 2201 t.origCharset) (apiHistoryOf syncEvents) = .ok s' ∧ absTree s' = .ok t ∧
    (∀ cfgW, (absTree s' >>= treeToWbxml cfgW) = treeToWbxml cfgW t) ∧
    (∀ cfgX f, (absTree s' >>= treeToXml cfgX f) = treeToXml cfgX f t) := by
  have h1 : parsedLangIs (treeOfXml Gen.main syncEnv 1 syncXml) Gen.lang15 = true := by decide +kernel
  have h2 : plainEvents Gen.lang15 syncEvents = true := by decide +kernel
  have h3 : Gen.main.find? (fun l => l.id == 2201) = some Gen.lang15 := by decide +kernel
  obtain ⟨t, ht, hl⟩ := parsedLangIs_inv h1
  have henv : syncEnv.find? (fun p => p.1 == syncXml) = some (syncXml, { ok := true, events := syncEvents }) := by
    simp [syncEnv]
  obtain ⟨_, s', hr, _, habs⟩ := api_tree_equals_parsed_partial Gen.main syncEnv 1 syncXml syncXml _ t Gen.lang15 2201
    henv ht hl h2 (by rw [h3, hl])
  refine ⟨t, s', ht, hl, hr, habs, ?_, ?_⟩
  · intro cfgW; rw [habs]; rfl
  · intro cfgX f; rw [habs]; rfl

example : sidesAgree (treeOfXml Gen.main syncEnv 1 syncXml) Gen.lang15 syncEvents = true := by decide +kernel

/-! ### What `plainEvents` excludes: on each kind the two sides really differ

  In every witness the XML front end succeeds (tree of the stated language), `plainEvents` rejects the
  event list, and the document-order API history builds a tree whose WBXML bytes AND XML bytes (default
  options) differ from those of the parsed tree (`sidesDiffer`). -/

/-- `attrPlain`: `<wml xml:lang="en"/>` — the front end maps the namespace-qualified name back to `xml:lang`
    (a table attribute), `wbxml_tree_add_xml_elt_with_attrs` called with the reported name does not. -/
theorem excluded_xml_namespace_attr :
    parsedLangIs (treeOfXml Gen.main xmlLangEnv 1 xmlLangXml) Gen.lang0 = true ∧
    plainEvents Gen.lang0 xmlLangEvents = false ∧
    sidesDiffer (treeOfXml Gen.main xmlLangEnv 1 xmlLangXml) Gen.lang0 xmlLangEvents = true := by decide +kernel

/-- `textPlain` (element called `Data`): `<Add><Item><Data>x</Data>…` in SyncML — the front end wraps the text
    in a CDATA node. -/
theorem excluded_syncml_data_text :
    parsedLangIs (treeOfXml Gen.main dataEnv 1 dataXml) Gen.lang15 = true ∧
    plainEvents Gen.lang15 dataEvents = false ∧
    sidesDiffer (treeOfXml Gen.main dataEnv 1 dataXml) Gen.lang15 dataEvents = true := by decide +kernel

/-- `textPlain` (binary-flagged element): `<MIME>QUJD</MIME>` in ActiveSync — the front end attaches the
    base64 DECODING `ABC`. -/
theorem excluded_binary_flagged_text :
    parsedLangIs (treeOfXml Gen.main mimeEnv 1 mimeXml) Gen.lang27 = true ∧
    plainEvents Gen.lang27 mimeEvents = false ∧
    sidesDiffer (treeOfXml Gen.main mimeEnv 1 mimeXml) Gen.lang27 mimeEvents = true := by decide +kernel

/-- `embeddedName`: `<SyncML><DevInf>…</DevInf></SyncML>` — the front end re-parses the byte range as a DevInf
    document and attaches a nested tree; the API history adds an element. -/
theorem excluded_embedded_devinf :
    parsedLangIs (treeOfXml Gen.main devinfEnv 2 devinfXml) Gen.lang15 = true ∧
    plainEvents Gen.lang15 devinfEvents = false ∧
    sidesDiffer (treeOfXml Gen.main devinfEnv 2 devinfXml) Gen.lang15 devinfEvents = true := by decide +kernel

/-- The SHAPE part of `plainEvents` excludes event lists Expat never reports for a well-formed document
    (unbalanced tags, text outside the root, a second root, CDATA outside an element …).  On most of them
    the front end answers an error (the hypothesis `treeOfXml … = .ok t` is false); where it does not,
    the two sides may well agree — e.g. a CDATA section as the whole document — but that is not proved. -/
theorem excluded_shape_agrees_unproved :
    parsedLangIs (treeOfXml Gen.main cdataRootEnv 1 b!"x") Gen.lang2 = true ∧
    plainEvents Gen.lang2 cdataRootEvents = false ∧
    sidesAgree (treeOfXml Gen.main cdataRootEnv 1 b!"x") Gen.lang2 cdataRootEvents = true := by decide +kernel

end Wbxml.Props.C18
