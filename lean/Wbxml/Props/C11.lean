/-
  C11 — multi-byte integers, base64, hex and character entities are exact inverses.

  Every theorem is universally quantified over the model functions of `Model/Codec/*` (tied to the C
  code by the CODEC correspondence run of `tools/props/c11.py`) and proved by case analysis on the
  value ranges, induction on the byte string, `omega` and bit/arithmetic lemmas; the only kernel
  evaluations are over the complete 64-entry base64 and 2×16-entry hex digit tables.
-/
import Wbxml.Model.Codec.MbUint
import Wbxml.Model.Codec.Base64
import Wbxml.Model.Codec.Hex
import Wbxml.Model.Codec.Entity
import Wbxml.Spec.Rfc4648
import Wbxml.Spec.Utf8
import Wbxml.Lemmas.CodecMb
import Wbxml.Lemmas.CodecBase64
import Wbxml.Lemmas.CodecHex
import Wbxml.Lemmas.CodecEntity
namespace Wbxml.Props.C11
open Wbxml Wbxml.Model.Codec Wbxml.Spec Wbxml.Lemmas.Codec

/-! ## Multi-byte integers -/

/-- Every 32-bit value written by `wbxml_buffer_append_mb_uint_32` is read back unchanged by
    `parse_mb_uint32`, which consumes exactly the octets written (whatever follows them). -/
theorem mb_roundtrip (v : Nat) (suf : Bytes) (hv : v < 2 ^ 32) :
    mbDecode (mbEncode v ++ suf) = .ok (v, suf) := by
  rw [mbEncode_eq v hv, mbDecode]
  split
  · simp only [List.cons_append, List.nil_append, dec_cons, toNat_lo, low_lt, ↓reduceIte]
    congr 2; omega
  split
  · simp only [List.cons_append, List.nil_append, dec_cons, toNat_lo, toNat_hi, low_lt, high_not_lt, ↓reduceIte]
    congr 2; omega
  split
  · simp only [List.cons_append, List.nil_append, dec_cons, toNat_lo, toNat_hi, low_lt, high_not_lt, ↓reduceIte]
    congr 2; omega
  split
  · simp only [List.cons_append, List.nil_append, dec_cons, toNat_lo, toNat_hi, low_lt, high_not_lt, ↓reduceIte]
    congr 2; omega
  · simp only [List.cons_append, List.nil_append, dec_cons, toNat_lo, toNat_hi, low_lt, high_not_lt, ↓reduceIte]
    congr 2; omega

/-- The written form has `k` octets, `1 ≤ k ≤ 5`, where `k` is the least positive number of 7-bit
    groups that can hold the value. -/
theorem mb_minimal (v : Nat) (hv : v < 2 ^ 32) :
    1 ≤ (mbEncode v).length ∧ (mbEncode v).length ≤ 5 ∧ v < 2 ^ (7 * (mbEncode v).length) ∧
    ∀ j, 1 ≤ j → v < 2 ^ (7 * j) → (mbEncode v).length ≤ j := by
  have key : ∀ k, 1 ≤ k → (k = 1 ∨ 2 ^ (7 * (k - 1)) ≤ v) → ∀ j, 1 ≤ j → v < 2 ^ (7 * j) → k ≤ j := by
    intro k hk h j hj hlt
    rcases h with h | h
    · omega
    · apply Classical.byContradiction
      intro hn
      have : 7 * j ≤ 7 * (k - 1) := by omega
      have := Nat.pow_le_pow_right (n := 2) (by decide) this
      omega
  rw [mbEncode_eq v hv]
  split
  · refine ⟨by simp, by simp, ?_, key 1 (by omega) (Or.inl rfl)⟩
    simp only [List.length_cons, List.length_nil]; omega
  split
  · refine ⟨by simp, by simp, ?_, key 2 (by omega) (Or.inr ?_)⟩
    · simp only [List.length_cons, List.length_nil]; omega
    · simp only [Nat.reduceSub, Nat.reduceMul, Nat.reducePow]; omega
  split
  · refine ⟨by simp, by simp, ?_, key 3 (by omega) (Or.inr ?_)⟩
    · simp only [List.length_cons, List.length_nil]; omega
    · simp only [Nat.reduceSub, Nat.reduceMul, Nat.reducePow]; omega
  split
  · refine ⟨by simp, by simp, ?_, key 4 (by omega) (Or.inr ?_)⟩
    · simp only [List.length_cons, List.length_nil]; omega
    · simp only [Nat.reduceSub, Nat.reduceMul, Nat.reducePow]; omega
  · refine ⟨by simp, by simp, ?_, key 5 (by omega) (Or.inr ?_)⟩
    · simp only [List.length_cons, List.length_nil]; omega
    · simp only [Nat.reduceSub, Nat.reduceMul, Nat.reducePow]; omega

/-- No written form starts with the octet `0x80` (an empty leading 7-bit group). -/
theorem mb_no_leading_zero_group (v : Nat) (hv : v < 2 ^ 32) : (mbEncode v).head? ≠ some 0x80 := by
  have h80 : ∀ x, x % 128 ≠ 0 → hi x ≠ 0x80 := by
    intro x hx e
    have := congrArg UInt8.toNat e
    rw [toNat_hi] at this
    have h2 : (0x80 : UInt8).toNat = 128 := by decide
    omega
  rw [mbEncode_eq v hv]
  split
  · intro e
    simp only [List.head?_cons, Option.some.injEq] at e
    have := congrArg UInt8.toNat e
    rw [toNat_lo] at this
    have h2 : (0x80 : UInt8).toNat = 128 := by decide
    omega
  split
  · simp only [List.head?_cons, ne_eq, Option.some.injEq]; exact h80 _ (by omega)
  split
  · simp only [List.head?_cons, ne_eq, Option.some.injEq]; exact h80 _ (by omega)
  split
  · simp only [List.head?_cons, ne_eq, Option.some.injEq]; exact h80 _ (by omega)
  · simp only [List.head?_cons, ne_eq, Option.some.injEq]; exact h80 _ (by omega)

/-- An integer that runs to a sixth octet — five octets that all carry the continuation flag — is
    rejected with `WBXML_ERROR_UNVALID_MBUINT32` (70), whatever follows. -/
theorem mb_sixth_rejected (pre rest : Bytes) (h5 : pre.length = 5) (hc : ∀ b ∈ pre, 128 ≤ b.toNat) :
    mbDecode (pre ++ rest) = .error (.code 70) := by
  rw [mbDecode, ← h5]; exact dec_all_high pre hc 0 rest

/-- An integer cut off by the end of the buffer is rejected with `WBXML_ERROR_END_OF_BUFFER` (45). -/
theorem mb_truncated (pre : Bytes) (h5 : pre.length < 5) (hc : ∀ b ∈ pre, 128 ≤ b.toNat) :
    mbDecode pre = .error (.code 45) := dec_truncated pre hc 5 0 h5

example : mbDecode [0x81, 0x80, 0x80, 0x80, 0x80, 0x00] = .error (.code 70) := rfl
example : mbEncode 0xFFFFFFFF = [0x8F, 0xFF, 0xFF, 0xFF, 0x7F] := by decide
example : mbEncode 0 = [0x00] := by decide

/-! ## Base64 -/

/-- `wbxml_base64_encode` never indexes outside `basis_64`, and what it writes is RFC 4648 base64
    (the specification is a bit stream cut into 6-bit groups, `Spec/Rfc4648.lean`). -/
theorem b64_encode_eq_rfc4648 (bs : Bytes) :
    b64EncodeE bs = .ok (Rfc4648.encode bs) ∧ b64Encode bs = Rfc4648.encode bs := by
  rw [b64Encode_eq_enc, b64EncodeE_ok, enc_eq_spec]; exact ⟨rfl, rfl⟩

/-- `wbxml_base64_decode` inverts `wbxml_base64_encode` for every non-empty byte string … -/
theorem b64_decode_encode (bs : Bytes) (h : bs ≠ []) : b64Decode (b64Encode bs) = some bs := by
  rw [b64Encode_eq_enc, b64Decode, b64DecodeE_eq, scan_enc, decLoop_encV]
  cases bs with
  | nil => exact absurd rfl h
  | cons a t => rfl

/-- … and for the empty byte string the C API has no encoding at all: the encoder returns NULL
    (`len <= 0`) and the decoder reports 0 bytes for the empty text, which its callers treat as
    failure. So the inverse law is stated for `bs ≠ []` and is total on the API's domain. -/
theorem b64_empty : b64EncodeApi [] = none ∧ b64Decode [] = none ∧
    ∀ bs, bs ≠ [] → (b64EncodeApi bs).bind b64Decode = some bs := by
  refine ⟨rfl, by decide, ?_⟩
  intro bs h
  simp only [b64EncodeApi, h, ↓reduceIte, Option.bind_some]
  exact b64_decode_encode bs h

/-- On *every* input (malformed included) the decoder's return value equals the number of octets it
    stored: no uninitialised byte of the result block is ever reported. -/
theorem b64_decode_no_ub (s : Bytes) : b64DecodeE s = .ok (b64DecodeLoop (b64Scan s)) := b64DecodeE_eq s

example : b64Encode b!"foobar" = b!"Zm9vYmFy" := by decide
example : b64Encode b!"fo" = b!"Zm8=" := by decide
example : Rfc4648.encode b!"f" = b!"Zg==" := by decide

/-! ## Hex -/

/-- `wbxml_buffer_binary_to_hex` never indexes outside `hexits`; `wbxml_buffer_hex_to_binary` after
    it restores the contents, for both alphabets and every byte string. -/
theorem hex_roundtrip (upper : Bool) (bs : Bytes) :
    (∃ r, hexEncodeE upper bs = .ok r) ∧ hexDecode (hexEncode upper bs) = .ok bs := by
  refine ⟨⟨_, hexEncodeE_ok upper bs⟩, ?_⟩
  rw [hexEncode_eq, hexDecode, hexPairs_hexEnc]

/-- The other direction holds exactly on digit strings of even length in the matching case:
    lower-case digits are restored by `uppercase = FALSE` … -/
theorem hex_roundtrip_lower (s : Bytes) (he : s.length % 2 = 0) (hd : ∀ c ∈ s, isLowerHex c) :
    (hexDecode s).map (hexEncode false) = .ok s := by
  simp only [hexDecode, Except.map, hexEncode_eq]
  rw [hexEnc_hexPairs false isLowerHex sym_nibble_lower s he hd]

/-- … and upper-case digits by `uppercase = TRUE`. -/
theorem hex_roundtrip_upper (s : Bytes) (he : s.length % 2 = 0) (hd : ∀ c ∈ s, isUpperHex c) :
    (hexDecode s).map (hexEncode true) = .ok s := by
  simp only [hexDecode, Except.map, hexEncode_eq]
  rw [hexEnc_hexPairs true isUpperHex sym_nibble_upper s he hd]

/-- Outside that domain the direction fails (these are the function's documented limits, not
    defects): an odd trailing character is dropped, a non-digit is read as 0, case is not kept. -/
theorem hex_reverse_limits :
    (hexDecode b!"abc").map (hexEncode false) = .ok b!"ab" ∧
    (hexDecode b!"zz").map (hexEncode false) = .ok b!"00" ∧
    (hexDecode b!"AB").map (hexEncode false) = .ok b!"ab" := ⟨rfl, rfl, rfl⟩

example : hexEncode true [0xDE, 0xAD] = b!"DEAD" := by decide
example : isLowerHex 0x61 := by decide
example : isUpperHex 0x41 := by decide

/-! ## Character entities -/

/-- The specification is self-consistent: the UTF-8 sequence of a scalar value reads back as it. -/
theorem utf8_decode (c : Nat) (h : isScalar c) : utf8Decode (utf8 c) = some c := by
  have hc : c < 0x110000 := by rcases h with h | h <;> omega
  unfold utf8
  split
  · rename_i h1
    simp only [utf8Decode, toNat_ofNat_lt c (by omega), h1, ↓reduceIte]
  split
  · rename_i h1 h2
    simp only [utf8Decode, cont, toNat_ofNat_lt _ (show 0xC0 + c / 64 < 256 by omega),
      toNat_ofNat_lt _ (show 0x80 + c % 64 < 256 by omega)]
    rw [if_pos (by omega)]; congr 1; omega
  split
  · rename_i h1 h2 h3
    simp only [utf8Decode, cont, toNat_ofNat_lt _ (show 0xE0 + c / 4096 < 256 by omega),
      toNat_ofNat_lt _ (show 0x80 + c / 64 % 64 < 256 by omega), toNat_ofNat_lt _ (show 0x80 + c % 64 < 256 by omega)]
    rw [if_pos (by omega)]; congr 1; omega
  · rename_i h1 h2 h3
    simp only [utf8Decode, cont, toNat_ofNat_lt _ (show 0xF0 + c / 262144 < 256 by omega),
      toNat_ofNat_lt _ (show 0x80 + c / 4096 % 64 < 256 by omega),
      toNat_ofNat_lt _ (show 0x80 + c / 64 % 64 < 256 by omega), toNat_ofNat_lt _ (show 0x80 + c % 64 < 256 by omega)]
    rw [if_pos (by omega)]; congr 1; omega

/-- A character entity for any Unicode scalar value other than U+0000 is delivered as exactly that
    character's UTF-8 encoding.
    Full-strength statement: `∀ c, isScalar c → entityBytes c = .ok (utf8 c)`; it fails for `c = 0`
    only (`entity_zero_witness`, known finding `entity-code-0`). -/
theorem entity_utf8_partial (c : Nat) (h : isScalar c) (h0 : c ≠ 0) : entityBytes c = .ok (utf8 c) := by
  have hc : c < 0x110000 := by rcases h with h | h <;> omega
  have nz : ∀ n, 0x80 ≤ n → n < 256 → ob n ≠ 0 := fun n a b => ofNat_ne_zero n (by omega) b
  by_cases c1 : c < 0x80
  · have a1 : ¬ (c ≥ 0x80000000) := by omega
    simp only [entityBytes, a1, c1, ↓reduceIte, utf8]
    rw [cstr_cons_ne _ _ (ofNat_ne_zero c (by omega) (by omega)), cstr_zero]
  by_cases c2 : c < 0x800
  · rw [entityBytes_of_loop c (by omega) (by omega) _ (loop_2 c (by omega) c2)]
    · simp only [utf8, c1, c2, ↓reduceIte, cont, ob]
    · intro b hb; simp only [List.mem_cons, List.not_mem_nil, or_false] at hb
      rcases hb with rfl | rfl <;> exact nz _ (by omega) (by omega)
  by_cases c3 : c < 0x10000
  · rw [entityBytes_of_loop c (by omega) (by omega) _ (loop_3 c (by omega) c3)]
    · simp only [utf8, c1, c2, c3, ↓reduceIte, cont, ob]
      have e : c / 64 / 64 = c / 4096 := by omega
      rw [e]
    · intro b hb; simp only [List.mem_cons, List.not_mem_nil, or_false] at hb
      rcases hb with rfl | rfl | rfl <;> exact nz _ (by omega) (by omega)
  · rw [entityBytes_of_loop c (by omega) (by omega) _ (loop_4 c (by omega) (by omega))]
    · simp only [utf8, c1, c2, c3, ↓reduceIte, cont, ob]
      have e1 : c / 64 / 64 / 64 = c / 262144 := by omega
      have e2 : c / 64 / 64 = c / 4096 := by omega
      rw [e1, e2]
    · intro b hb; simp only [List.mem_cons, List.not_mem_nil, or_false] at hb
      rcases hb with rfl | rfl | rfl | rfl <;> exact nz _ (by omega) (by omega)

/-- Witness against the full-strength statement: ENTITY 0 yields an empty buffer (the C string
    `""`), so no character is delivered, whereas UTF-8 of U+0000 is the single octet 00. -/
theorem entity_zero_witness :
    isScalar 0 ∧ entityBytes 0 = .ok [] ∧ utf8 0 = [0] ∧
    ¬ (∀ c, isScalar c → entityBytes c = .ok (utf8 c)) := by
  refine ⟨by decide, rfl, rfl, ?_⟩
  intro h
  have := h 0 (by decide)
  rw [show entityBytes 0 = .ok [] from rfl, show utf8 0 = [0] from rfl] at this
  cases this

/-- Entity codes of 0x80000000 and above are rejected with `WBXML_ERROR_INVALID_UNICODE` (122). -/
theorem entity_reject (c : Nat) (h : c ≥ 2 ^ 31) : entityBytes c = .error (.code 122) := by
  have : c ≥ 0x80000000 := h
  simp [entityBytes, this]

/-- For every accepted code (including the 5- and 6-octet forms beyond Unicode) the conversion loop
    stays inside `entity[0..5]` and `masks[0..4]` and delivers 1–6 non-zero octets. -/
theorem entity_no_ub (c : Nat) (h0 : c ≠ 0) (h : c < 2 ^ 31) :
    ∃ bs, entityBytes c = .ok bs ∧ 1 ≤ bs.length ∧ bs.length ≤ 6 := by
  have h' : c < 0x80000000 := h
  by_cases c1 : c < 0x80
  · refine ⟨[UInt8.ofNat c], ?_, by simp, by simp⟩
    have a1 : ¬ (c ≥ 0x80000000) := by omega
    simp only [entityBytes, a1, c1, ↓reduceIte]
    rw [cstr_cons_ne _ _ (ofNat_ne_zero c (by omega) (by omega)), cstr_zero]
  · obtain ⟨bs, hl, h2, h6, hz⟩ := entityLoop_ok c (by omega) h'
    exact ⟨bs, entityBytes_of_loop c (by omega) h' bs hl hz, by omega, h6⟩

example : isScalar 0x800 ∧ (0x800 : Nat) ≠ 0 := by decide
example : entityBytes 0x800 = .ok [0xE0, 0xA0, 0x80] := rfl
example : entityBytes 0x10000 = .ok [0xF0, 0x90, 0x80, 0x80] := rfl
example : entityBytes 0x20AC = .ok (utf8 0x20AC) := rfl

end Wbxml.Props.C11
