/-
  C05 — generated XML is well-formed and denotes exactly the parsed document.
  Theorems about the XML printer model (`Model/EncXml.lean`), for all byte strings.
-/
import Wbxml.Model.EncXml
import Wbxml.Spec.XmlText
import Wbxml.Lemmas.XmlPrint
import Wbxml.Lemmas.XmlNs
import Wbxml.Lemmas.Ident
import Wbxml.Lemmas.XmlSpecDoc
import Wbxml.Lemmas.XmlSpecStrip
import Wbxml.Lemmas.XmlSpecIndent
import Wbxml.Gen.Tables
namespace Wbxml.Props.C05
open Wbxml Wbxml.Model Wbxml.Spec Wbxml.Lemmas.XmlPrint Wbxml.Lemmas.XmlNs

/-- What one byte becomes in `xml_encode_text_entities`. -/
def esc1 (canonical : Bool) (ch : UInt8) : Bytes :=
  if ch == 60 then b!"&lt;"
  else if ch == 62 then b!"&gt;"
  else if ch == 38 then b!"&amp;"
  else if ch == 34 then b!"&quot;"
  else if ch == 39 then b!"&apos;"
  else if ch == 13 then b!"&#13;"
  else if ch == 10 && canonical then b!"&#10;"
  else if ch == 9 && canonical then b!"&#9;"
  else [ch]

theorem xmlEscape_cons (c : Bool) (b : UInt8) (s : Bytes) :
    xmlEscape c (b :: s) = esc1 c b ++ xmlEscape c s := by
  simp [xmlEscape, esc1, List.flatMap_cons]

theorem xmlEscape_nil (c : Bool) : xmlEscape c [] = [] := by simp [xmlEscape]

theorem esc1_no_markup (c : Bool) (a : UInt8) : (esc1 c a).all (fun b => !isMarkup b) = true := by
  unfold esc1
  split; · decide
  split; · decide
  split; · decide
  split; · decide
  split; · decide
  split; · decide
  split; · decide
  split; · decide
  rename_i h1 h2 h3 h4 h5 h6 h7 h8
  simp only [List.all_cons, List.all_nil, Bool.and_true, isMarkup]
  simp_all

/-- Escaped text never contains a literal `<`, `>`, `"` or `'`: markup-significant characters are
    always escaped (character data and attribute values alike). -/
theorem escape_has_no_markup (c : Bool) (s : Bytes) : ∀ b ∈ xmlEscape c s, isMarkup b = false := by
  induction s with
  | nil => simp [xmlEscape_nil]
  | cons a s ih =>
    intro b hb
    rw [xmlEscape_cons] at hb
    rcases List.mem_append.mp hb with h | h
    · have := List.all_eq_true.mp (esc1_no_markup c a) b h
      simpa using this
    · exact ih b h

/-- A reader that undoes the escaping gets back exactly the text that was escaped — in every
    generation mode. -/
theorem unescape_escape (c : Bool) (s : Bytes) : unescape (xmlEscape c s) = s := by
  induction s with
  | nil => simp [xmlEscape_nil, unescape]
  | cons a s ih =>
    rw [xmlEscape_cons]
    unfold esc1
    split
    · rename_i h; have : a = 60 := by simpa using h
      subst this; simp [unescape, ih]
    · split
      · rename_i h; have : a = 62 := by simpa using h
        subst this; simp [unescape, ih]
      · split
        · rename_i h; have : a = 38 := by simpa using h
          subst this; simp [unescape, ih]
        · split
          · rename_i h; have : a = 34 := by simpa using h
            subst this; simp [unescape, ih]
          · split
            · rename_i h; have : a = 39 := by simpa using h
              subst this; simp [unescape, ih]
            · split
              · rename_i h
                have : a = 13 := by simpa using h
                subst this; simp [unescape, ih]
              · split
                · rename_i h; simp only [Bool.and_eq_true] at h
                  have : a = 10 := by simpa using h.1
                  subst this; simp [unescape, ih]
                · split
                  · rename_i h; simp only [Bool.and_eq_true] at h
                    have : a = 9 := by simpa using h.1
                    subst this; simp [unescape, ih]
                  · rename_i h1 h2 h3 h4 h5 h6 h7 h8
                    have hne : a ≠ 38 := by simpa using h3
                    simp only [List.singleton_append]
                    rw [unescape]
                    · rw [ih]
                    all_goals (intros; simp_all)

theorem esc1_canonical_no_ws (a : UInt8) : (esc1 true a).all (fun b => b != 13 && b != 10 && b != 9) = true := by
  unfold esc1
  split; · decide
  split; · decide
  split; · decide
  split; · decide
  split; · decide
  split; · decide
  split; · decide
  split; · decide
  simp only [List.all_cons, List.all_nil, Bool.and_true]
  simp_all

/-- A literal CR is never left in escaped text, in any generation mode (it would not survive
    XML's line-end normalisation). -/
theorem escape_has_no_cr (c : Bool) (s : Bytes) : ∀ b ∈ xmlEscape c s, b ≠ 13 := by
  have h1 : ∀ a, (esc1 c a).all (fun b => b != 13) = true := by
    intro a
    unfold esc1
    split; · decide
    split; · decide
    split; · decide
    split; · decide
    split; · decide
    split; · decide
    split; · decide
    split; · decide
    simp only [List.all_cons, List.all_nil, Bool.and_true]
    simp_all
  induction s with
  | nil => simp [xmlEscape_nil]
  | cons a s ih =>
    intro b hb
    rw [xmlEscape_cons] at hb
    rcases List.mem_append.mp hb with h | h
    · have := List.all_eq_true.mp (h1 a) b h
      simpa using this
    · exact ih b h

/-- In canonical generation no literal CR, LF or TAB is left in escaped text (they are written as
    character references and therefore survive XML's line-end and attribute-value normalisation). -/
theorem canonical_escapes_cr_lf_tab (s : Bytes) : ∀ b ∈ xmlEscape true s, b ≠ 13 ∧ b ≠ 10 ∧ b ≠ 9 := by
  induction s with
  | nil => simp [xmlEscape_nil]
  | cons a s ih =>
    intro b hb
    rw [xmlEscape_cons] at hb
    rcases List.mem_append.mp hb with h | h
    · have := List.all_eq_true.mp (esc1_canonical_no_ws a) b h
      simp only [Bool.and_eq_true, bne_iff_ne, ne_eq] at this
      exact ⟨this.1.1, this.1.2, this.2⟩
    · exact ih b h

/-- The document starts with the XML declaration and the language's DOCTYPE. -/
theorem header_has_doctype (lang : Lang) (gen : Nat) :
    (b!"<?xml version=\"1.0\"?>").isPrefixOf (xmlHeader lang gen) = true := by
  simp [xmlHeader, List.isPrefixOf]

example : unescape (xmlEscape false b!"a<b&\"c'>") = b!"a<b&\"c'>" := by decide

/-! ## CDATA sections -/

/-- **`]]>` never ends a section early.** Whatever bytes `s` a CDATA text holds, the section the
    printer writes — `<![CDATA[`, `cdataText s`, `]]>` — read back as XML reads runs of CDATA
    sections (content up to the first `]]>`; an immediately following section continues the
    character data) denotes exactly `s`. So `cdataText s` contains `]]>` only as part of the inserted
    `]]]]><![CDATA[>`, where it closes one section and the next is opened at once. -/
theorem cdata_text_no_terminator (s : Bytes) :
    readCdata (b!"<![CDATA[" ++ cdataText s ++ b!"]]>") = some s := by
  show readIn (cdataText s ++ [93, 93, 62]) = some s
  exact readIn_cdataText s

/-- Text without `]]>` is written as is. -/
example : cdataText b!"a]]b>" = b!"a]]b>" := by decide
example : cdataText b!"x]]>y" = b!"x]]]]><![CDATA[>y" := by decide
example : readCdata b!"<![CDATA[x]]]]><![CDATA[>y]]>" = some b!"x]]>y" := by decide
/-- the reader refuses an unterminated section and trailing garbage -/
example : readCdata b!"<![CDATA[abc" = none ∧ readCdata b!"<![CDATA[abc]]>x" = none := by decide

/-- **The WBXML tree builder never opens a CDATA section directly inside a CDATA section**: over any
    event sequence, from the initial context, no CDATA frame sits on a CDATA frame (the printer
    therefore never writes `<![CDATA[` twice in a row). Subsumed, since fix eb6f4c7, by
    `cdata_only_on_top` below (`cdata_only_on_top_stackOk`). -/
theorem cdata_never_nested (main : List Lang) (emb : Nat → Bytes → Option Tree) (events : List Event) :
    stackOk (events.foldl (buildStep main emb) {}) = true := by
  suffices h : ∀ (b : BState), stackOk b = true → stackOk (events.foldl (buildStep main emb) b) = true from
    h {} rfl
  induction events with
  | nil => intro b h; exact h
  | cons e rest ih => intro b h; exact ih _ (buildStep_stackOk main emb b e h)

/-- One step: the invariant is preserved from any context that satisfies it. -/
theorem cdata_never_nested_step (main : List Lang) (emb : Nat → Bytes → Option Tree) (b : BState) (e : Event)
    (h : stackOk b = true) : stackOk (buildStep main emb b e) = true := buildStep_stackOk main emb b e h

/-! ### CDATA sections hold character data only (after fix eb6f4c7)

`wbxml_tree_clb_wbxml_start_element` now leaves a current CDATA node before it adds the element
(`BState.leaveCdata`). Before the fix an element start while a CDATA section was open was attached
*inside* the CDATA node (and a vObject `Data` element there opened a second section inside the
first); the former witness is kept below as a regression (`cdata_former_witness_fixed`). -/

/-- **A CDATA frame is only ever the top of the stack**: over any event sequence, from the initial
    context, every CDATA frame is the innermost open frame and sits on an element frame — no element
    frame and no CDATA frame is ever pushed on top of a CDATA frame. -/
theorem cdata_only_on_top (main : List Lang) (emb : Nat → Bytes → Option Tree) (events : List Event) :
    cdataOnlyOnTop (events.foldl (buildStep main emb) {}) = true :=
  foldl_cdataOnlyOnTop main emb events {} rfl

/-- One step: the invariant is preserved from any context that satisfies it. -/
theorem cdata_only_on_top_step (main : List Lang) (emb : Nat → Bytes → Option Tree) (b : BState) (e : Event)
    (h : cdataOnlyOnTop b = true) : cdataOnlyOnTop (buildStep main emb b e) = true :=
  buildStep_cdataOnlyOnTop main emb b e h

/-- `cdataOnlyOnTop` spelled out: no frame below the top is a CDATA frame, and a CDATA frame is never
    the only frame. -/
theorem cdata_only_on_top_meaning (b : BState) :
    cdataOnlyOnTop b = true ↔
      (∀ f ∈ b.stack.tail, isCdataKind f.kind = false) ∧ (∀ f, b.stack = [f] → isCdataKind f.kind = false) :=
  cdataOnlyOnTop_iff b

/-- … so the stack never holds two CDATA frames, over any event sequence. -/
theorem cdata_at_most_one_open (main : List Lang) (emb : Nat → Bytes → Option Tree) (events : List Event) :
    ((events.foldl (buildStep main emb) {}).stack.filter (fun f => isCdataKind f.kind)).length ≤ 1 :=
  cdataOnlyOnTop_count _ (cdata_only_on_top main emb events)

/-- … and it is stronger than `cdata_never_nested`'s invariant. -/
theorem cdata_only_on_top_stackOk (b : BState) (h : cdataOnlyOnTop b = true) : stackOk b = true :=
  cdataTop_kindsOk _ h

/-- **The builder's CDATA invariant** (`CdInv`: `cdataOnlyOnTop`; every open frame's children satisfy
    `Node.noMarkupInCdata` and an open CDATA frame's children are character data; so does the root)
    holds over any event sequence from the initial context — provided the embedded-document parser
    `emb` only hands back trees with that property (`EmbOk`; it is `treeOfWbxml` itself, see
    `cdata_holds_character_data_only`). -/
theorem cdata_invariant (main : List Lang) (emb : Nat → Bytes → Option Tree) (hemb : EmbOk emb)
    (events : List Event) : CdInv (events.foldl (buildStep main emb) {}) :=
  foldl_cdInv main emb hemb events {} cdInv_init

/-- One step, from any context satisfying the invariant. -/
theorem cdata_invariant_step (main : List Lang) (emb : Nat → Bytes → Option Tree) (hemb : EmbOk emb)
    (b : BState) (e : Event) (h : CdInv b) : CdInv (buildStep main emb b e) :=
  buildStep_cdInv main emb hemb b e h

/-- Every node the builder finishes is fine: closing any open frame of a reachable context gives a
    node without markup inside CDATA (for a CDATA frame: a CDATA node whose children are text nodes
    and embedded documents only). -/
theorem closed_frames_no_markup_in_cdata (main : List Lang) (emb : Nat → Bytes → Option Tree) (hemb : EmbOk emb)
    (events : List Event) :
    ∀ f ∈ (events.foldl (buildStep main emb) {}).stack, f.close.noMarkupInCdata = true := by
  intro f hf
  rw [close_ok]
  exact (cdata_invariant main emb hemb events).frames f hf

/-- **No markup inside CDATA sections**: in the tree `wbxml_tree_from_wbxml` returns — for all byte
    strings, all languages tables, any fuel, and through embedded documents — no CDATA node has an
    element or a CDATA node among its children (`Node.noMarkupInCdata` on the root). The printer
    therefore writes only character data between `<![CDATA[` and `]]>`. -/
theorem cdata_holds_character_data_only (main : List Lang) (f lang cs : Nat) (bs : Bytes) (t : Tree)
    (h : treeOfWbxml main f lang cs bs = .ok t) : t.noMarkupInCdata = true :=
  treeOfWbxml_noMarkup main f lang cs bs t h

/-- … in terms of the root node. -/
theorem cdata_holds_character_data_only_root (main : List Lang) (f lang cs : Nat) (bs : Bytes) (t : Tree) (r : Node)
    (h : treeOfWbxml main f lang cs bs = .ok t) (hr : t.root = some r) : r.noMarkupInCdata = true := by
  have := cdata_holds_character_data_only main f lang cs bs t h
  unfold Tree.noMarkupInCdata at this
  rw [hr] at this
  exact this

/-- What `Node.noMarkupInCdata` says at a CDATA node: its children are text nodes and embedded
    documents, and (recursively) its children satisfy the predicate. -/
theorem noMarkupInCdata_cdata (kids : List Node) (h : (Node.cdata kids).noMarkupInCdata = true) :
    (∀ k ∈ kids, (∃ s, k = .text s) ∨ (∃ l c r, k = .tree l c r)) ∧ ∀ k ∈ kids, k.noMarkupInCdata = true := by
  refine ⟨cdata_kids_charData kids h, ?_⟩
  simp only [Node.noMarkupInCdata, Bool.and_eq_true] at h
  have h2 := h.2
  rw [noMarkupInCdataL_eq, List.all_eq_true] at h2
  exact h2

/-- … and at an element / embedded document: it is the predicate on the children / the root. -/
theorem noMarkupInCdata_elt (n : Name) (a : List Attr) (kids : List Node) :
    (Node.elt n a kids).noMarkupInCdata = kids.all Node.noMarkupInCdata := by
  simp only [Node.noMarkupInCdata]; exact noMarkupInCdataL_eq kids

/-- The predicate is not vacuous: it holds of a CDATA node with text, fails for an element or a CDATA
    node inside a CDATA node (at any depth, also inside an embedded document). -/
example : (Node.elt (.literal b!"Data") [] [.cdata [.text b!"abc"]]).noMarkupInCdata = true := by decide
example : (Node.cdata [.text b!"abc", .elt (.literal b!"Meta") [] []]).noMarkupInCdata = false := by decide
example : (Node.elt (.literal b!"Data") [] [.cdata [.cdata []]]).noMarkupInCdata = false := by decide
example : (Node.tree none 106 (some (.cdata [.elt (.literal b!"a") [] []]))).noMarkupInCdata = false := by decide

/-- Events of `<Item><Meta><Type>text/x-vcard</Type></Meta><Data>abc<Meta><Type>text/x-vcard</Type></Meta>
    <Data>x</Data></Data></Item>` — the former witness of CDATA nested through an element. -/
def nestedWitness : List Event :=
  let nItem : Name := .literal b!"Item"
  let nMeta : Name := .literal b!"Meta"
  let nType : Name := .literal b!"Type"
  let nData : Name := .literal b!"Data"
  [ .startDoc 106 2101, .startElt nItem [],
    .startElt nMeta [], .startElt nType [], .chars b!"text/x-vcard", .endElt nType, .endElt nMeta,
    .startElt nData [], .chars b!"abc",
    .startElt nMeta [], .startElt nType [], .chars b!"text/x-vcard", .endElt nType, .endElt nMeta,
    .startElt nData [], .chars b!"x", .endElt nData,
    .endElt nData, .endElt nItem, .endDoc ]

def cdataDepth : Nat → Node → Nat
  | 0, _ => 0
  | f + 1, .cdata kids => 1 + (kids.map (cdataDepth f)).foldl max 0
  | f + 1, .elt _ _ kids => (kids.map (cdataDepth f)).foldl max 0
  | _ + 1, _ => 0

/-- **Regression for the repaired defect.** Before fix eb6f4c7 this event list built a CDATA node
    holding `abc`, the `Meta` element and the inner `Data` element with a second CDATA node (CDATA
    depth 2; `wbxml2xml` printed `<![CDATA[abc<Meta>…<Data><![CDATA[x]]></Data>]]>`, which no XML parser
    accepts). Now the element start closes the section: the outer `Data` element holds the CDATA
    node `abc`, then `Meta`, then the inner `Data` with its own CDATA node — depth 1, and the root
    satisfies `Node.noMarkupInCdata`. -/
theorem cdata_former_witness_fixed :
    ((nestedWitness.foldl (buildStep [] (fun _ _ => none)) {}).root.map (cdataDepth 10)) = some 1 ∧
    ((nestedWitness.foldl (buildStep [] (fun _ _ => none)) {}).root.map Node.noMarkupInCdata) = some true := by
  decide +kernel

/-- The tree built from the former witness, explicitly. -/
example :
    let t (s : Bytes) : Node := .elt (.literal b!"Meta") [] [.elt (.literal b!"Type") [] [.text s]]
    (nestedWitness.foldl (buildStep [] (fun _ _ => none)) {}).root =
      some (Node.elt (.literal b!"Item") [] [t b!"text/x-vcard",
        .elt (.literal b!"Data") [] [.cdata [.text b!"abc"], t b!"text/x-vcard",
          .elt (.literal b!"Data") [] [.cdata [.text b!"x"]]]]) := by
  intro t
  rfl

/-! ## Attributes -/

/-- **What `xml_encode_attr` writes**: a blank, the name, `="`, the escaped value (read as a C string),
    `"` — and the value between the quotes contains no quote and no `<`, and unescapes to exactly
    the C-string value. -/
theorem attr_value_roundtrip (c : XCfg) (a : Attr) (st : XSt) :
    (xmlAttr c a st).out = st.out ++ [32] ++ cstrOf a.name.xmlName ++ b!"=\"" ++
        xmlEscape (c.gen == 2) (cstrOf a.value) ++ [34] ∧
    unescape (xmlEscape (c.gen == 2) (cstrOf a.value)) = cstrOf a.value ∧
    (∀ b ∈ xmlEscape (c.gen == 2) (cstrOf a.value), b ≠ 34 ∧ b ≠ 60) := by
  refine ⟨rfl, unescape_escape _ _, ?_⟩
  intro b hb
  have := escape_has_no_markup _ _ b hb
  simp only [isMarkup, Bool.or_eq_false_iff, beq_eq_false_iff_ne, ne_eq] at this
  exact ⟨this.1.2, this.1.1.1⟩

/-- The whole attribute list of an element: the attributes in order, nothing between them. -/
theorem attr_list_bytes (c : XCfg) (attrs : List Attr) (st : XSt) :
    (attrs.foldl (fun st a => xmlAttr c a st) st).out =
      st.out ++ attrs.flatMap (attrBytes (c.gen == 2)) := by
  rw [xmlAttrs_out]

/-! ## Indentation -/

/-- **No indentation inside an element that has only text.** In indented generation (`gen = 1`,
    any indentation width, any nesting depth `st.indent`), an element all of whose children are
    text nodes is written as: the indentation, `<name`, the namespace declaration if any, the
    attributes, `>`, then *immediately* `texts`, then *immediately* `</name>` and a line feed —
    where `texts` is exactly what compact generation (`gen = 0`, which has no indentation anywhere)
    writes for the children. -/
theorem no_indent_in_text_only_elements (c : XCfg) (parent : Parent) (f : Nat) (name : Name)
    (attrs : List Attr) (kids : List Node) (st st' : XSt) (hk : kids ≠ []) (ht : allText kids = true)
    (h : xmlNode { c with gen := 1 } parent (f + 1) (.elt name attrs kids) st = .ok st') :
    ∃ texts r,
      xmlNodes { c with gen := 0 } (childScope parent name) f kids { st with out := [], curTag := tagOf name } = .ok r ∧
      r.out = texts ∧
      st'.out = st.out ++ spaces (st.indent.toNat * c.delta.toNat) ++ [60] ++ name.xmlName ++
        nsDecl c parent name ++ (if c.lang.attrs.isSome then attrs.flatMap (attrBytes false) else []) ++
        [62] ++ texts ++ b!"</" ++ name.xmlName ++ [62, 10] := by
  have hne : kids.isEmpty = false := by cases kids with | nil => exact absurd rfl hk | cons _ _ => rfl
  have hce := allText_noElt kids ht
  simp only [xmlNode, bind, Except.bind, xmlTag_out, xmlAttrs_out, xmlEndAttrs, xmlEndTag, hne, hce,
    Bool.and_false, Bool.false_eq_true, ↓reduceIte, pure, Except.pure] at h
  split at h
  · cases h
  · rename_i r1 h1
    simp only [Except.ok.injEq] at h
    obtain ⟨x, hx, hp⟩ := xmlNodes_texts c (childScope parent name) kids ht f _ r1 h1
    refine ⟨x, { r1 with out := x }, ?_, rfl, ?_⟩
    · have := hp []
      simp only [List.nil_append] at this
      rw [← this]
      congr 1
      cases c.lang.attrs <;> simp
    · subst h
      simp only [hx]
      cases c.lang.attrs <;> simp [nsDecl, newLine]

/-- One text child: the bytes between `>` and `</` are what `xml_encode_text` appends for it —
    nothing (ignorable white space) or its escaped form. -/
theorem text_piece_shape (c : XCfg) (s : Bytes) (st r : XSt) (h : xmlText c s st = .ok r) :
    ∃ x, r.out = st.out ++ x ∧ ∀ o, xmlText c s { st with out := o } = .ok { r with out := o ++ x } :=
  xmlText_piece c s st r h

/-! ## Namespace declarations (after fix 3c27455)

`xml_encode_tag` declares `xmlns` for a token element whose code page differs from the code page of
the nearest ancestor that is a token element (walking up through literal elements and CDATA nodes),
or that has no such ancestor. Before the fix only a *direct* token parent was compared, so a token
element below a literal element got no declaration and was read in the wrong (or no) namespace;
`namespace_in_scope_matches_page` below was false then (`ns_former_witness_fixed`).

Paths (`List Nat`, child indices) lead through elements and CDATA nodes, not into embedded documents:
those are printed by `xmlNode` as documents of their own — their own language, root scope `.none` —
so every statement below applies to them separately. -/

/-- **(a) The scope is the nearest token-element ancestor.** `scopeAt` walks the tree with an explicit
    scope (`Option Nat`: the page of the nearest token-element ancestor, `none` when there is none).
    Whenever `xmlNode` prints `n` under a scope `p` (for all configurations, fuel, states) and `path`
    leads to the node `m`, then `m` is printed by a call `xmlNode c q g m a` whose scope `q` is a
    proper scope value standing for exactly the page `scopeAt` computes, and what that call has
    written when it returns is an initial part of the whole output. -/
theorem ns_scope_is_nearest_token_ancestor (c : XCfg) (p : Parent) (hp : isScope p = true) (f : Nat) (n : Node)
    (st st' : XSt) (h : xmlNode c p f n st = .ok st') (path : List Nat) (s : Option Nat) (m : Node)
    (hpath : scopeAt (scopePage p) n path = some (s, m)) :
    ∃ q, isScope q = true ∧ scopePage q = s ∧
      ∃ g a b post, xmlNode c q g m a = .ok b ∧ st'.out = b.out ++ post := by
  rw [scopeAt_pathTo] at hpath
  cases hpt : pathTo n path with
  | none => rw [hpt] at hpath; cases hpath
  | some x =>
    rw [hpt] at hpath
    simp only [Option.map_some, Option.some.injEq, Prod.mk.injEq] at hpath
    obtain ⟨hs, hm⟩ := hpath
    refine ⟨x.1.foldl childScope p, foldl_childScope_isScope _ _ hp, ?_, ?_⟩
    · rw [scopePage_foldl]; exact hs
    · rw [← hm]; exact xmlNode_sub c path p f n st st' x.1 x.2 h hpt

/-- … for an element: its start tag, written by `xmlTag` under that scope, is in the output. -/
theorem ns_scope_start_tag (c : XCfg) (p : Parent) (hp : isScope p = true) (f : Nat) (n : Node)
    (st st' : XSt) (h : xmlNode c p f n st = .ok st') (path : List Nat) (s : Option Nat)
    (name : Name) (attrs : List Attr) (kids : List Node)
    (hpath : scopeAt (scopePage p) n path = some (s, .elt name attrs kids)) :
    ∃ q a post, isScope q = true ∧ scopePage q = s ∧ st'.out = (xmlTag c q name a).out ++ post := by
  obtain ⟨q, hq, hs, g, a, b, post, hb, ho⟩ := ns_scope_is_nearest_token_ancestor c p hp f n st st' h path s _ hpath
  obtain ⟨x, hx⟩ := xmlNode_elt_tag c q g name attrs kids a b hb
  exact ⟨q, a, x ++ post, hq, hs, by rw [ho, hx, List.append_assoc]⟩

/-- The explicit scope along a chain of ancestors `names` (outermost first; CDATA nodes do not count):
    the page of the last token name among them, and the scope from above if there is none — and the
    model's `childScope` computes exactly that token element. -/
theorem ns_scope_is_last_token (names : List Name) (s : Option Nat) (p : Parent) :
    names.foldl childPage s = (match lastToken names with | some r => some r.page | none => s) ∧
    names.foldl childScope p = (match lastToken names with | some r => .elt (.token r) | none => p) :=
  ⟨foldl_childPage_last names s, foldl_childScope_last names p⟩

/-- After any chain of literal elements (and CDATA nodes) the scope is still the one from above. -/
theorem ns_scope_unchanged_by_literals (names : List Name) (p : Parent) (h : ∀ n ∈ names, ∃ s, n = .literal s) :
    names.foldl childScope p = p := by
  induction names generalizing p with
  | nil => rfl
  | cons n rest ih =>
    obtain ⟨s, rfl⟩ := h n (List.mem_cons_self ..)
    exact ih p (fun n hn => h n (List.mem_cons_of_mem _ hn))

/-- What `xmlTag` writes, in every case: indentation, `<name`, and the declaration of `declaredNs`. -/
theorem xmlns_declared_bytes (c : XCfg) (p : Parent) (name : Name) (st : XSt) :
    (xmlTag c p name st).out =
      st.out ++ (if c.gen == 1 then spaces (st.indent.toNat * c.delta.toNat) else []) ++ [60] ++ name.xmlName ++
        declBytes (declaredNs c p name) := by
  rw [xmlTag_out, nsDecl_eq]

/-- **(b) `xmlns` is declared exactly when the page differs from the scope's.** In a language with a
    namespace table, the start tag of a token element `r` printed under scope `p` is: indentation,
    `<name`, and ` xmlns="<namespace of r.page>"` exactly when `p` is `.none` or a token element of
    another page (`scopeDiffers`, spelled out in the second part) and the table has a row for the
    page — nothing else. -/
theorem xmlns_declared_iff_page_differs (c : XCfg) (ns : List NsRow) (hns : c.lang.ns = some ns) (p : Parent)
    (r : TagRow) (st : XSt) :
    (xmlTag c p (.token r) st).out =
      st.out ++ (if c.gen == 1 then spaces (st.indent.toNat * c.delta.toNat) else []) ++ [60] ++ r.name ++
        (if scopeDiffers p r.page then
           (match nsOfPageX ns r.page with
            | some n => b!" xmlns=\"" ++ n ++ [34]
            | none => [])
         else []) ∧
    (scopeDiffers p r.page = true ↔ (p = .none ∨ ∃ pr, p = .elt (.token pr) ∧ pr.page ≠ r.page)) := by
  refine ⟨?_, scopeDiffers_iff p r.page⟩
  rw [xmlns_declared_bytes]
  simp only [declaredNs, hns, Name.xmlName]
  cases scopeDiffers p r.page with
  | false => rfl
  | true => cases nsOfPageX ns r.page <;> rfl

/-- Nothing is declared for a literal name … -/
theorem xmlns_not_declared_for_literal (c : XCfg) (p : Parent) (s : Bytes) (st : XSt) :
    (xmlTag c p (.literal s) st).out =
      st.out ++ (if c.gen == 1 then spaces (st.indent.toNat * c.delta.toNat) else []) ++ [60] ++ s := by
  rw [xmlns_declared_bytes]
  cases hns : c.lang.ns <;> simp [declaredNs, hns, declBytes, Name.xmlName]

/-- … nor in a language without namespace table. -/
theorem xmlns_not_declared_without_table (c : XCfg) (hns : c.lang.ns = none) (p : Parent) (name : Name) (st : XSt) :
    (xmlTag c p name st).out =
      st.out ++ (if c.gen == 1 then spaces (st.indent.toNat * c.delta.toNat) else []) ++ [60] ++ name.xmlName := by
  rw [xmlns_declared_bytes]
  simp [declaredNs, hns, declBytes]

/-- The start tag depends on the scope only through the page it stands for. -/
theorem xmlns_depends_on_scope_page_only (c : XCfg) (p q : Parent) (hp : isScope p = true) (hq : isScope q = true)
    (h : scopePage p = scopePage q) (name : Name) (st : XSt) :
    (xmlTag c p name st).out = (xmlTag c q name st).out := by
  rw [xmlns_declared_bytes, xmlns_declared_bytes, declaredNs_congr c p q name hp hq h]

/-- **(c) The namespace in scope is the one of the element's code page.** `nsInScope c .none none names`
    is the default namespace a namespace-aware reader has in scope after the start tags of the
    elements `names` on the way down from the root: each start tag is printed under the scope
    `xmlNode` hands down (`childScope`, theorem (a)), and whenever `xmlTag` declares a namespace there
    (`declaredNs`, the bytes of theorem (b)) it replaces the current one.
    For every tree `root` whose token elements all live on pages with a row in the namespace table
    (`pagesHaveRows`, decidable) and every token element `r` in it (at any `path`, below the elements
    `names`): the namespace in scope inside `r`'s start tag is the namespace of `r`'s page. -/
theorem namespace_in_scope_matches_page (c : XCfg) (ns : List NsRow) (hns : c.lang.ns = some ns) (root : Node)
    (hrows : pagesHaveRows ns root = true) (path : List Nat) (names : List Name) (r : TagRow)
    (attrs : List Attr) (kids : List Node)
    (hpath : pathTo root path = some (names, .elt (.token r) attrs kids)) :
    nsInScope c .none none (names ++ [.token r]) = nsOfPageX ns r.page ∧
    (nsOfPageX ns r.page).isSome = true := by
  obtain ⟨h1, h2⟩ := pathTo_haveRows ns path root names _ hrows hpath
  simp only [pagesHaveRows, Bool.and_eq_true] at h2
  refine ⟨nsInScope_path c ns hns names r ?_, h2.1⟩
  simp only [namesHaveRows, List.all_append, List.all_cons, List.all_nil, Bool.and_true, Bool.and_eq_true]
  exact ⟨h1, h2.1⟩

/-- (c) tied to the bytes: when `xmlNode` prints such a tree from the root (scope `.none`; any
    configuration with that namespace table, any fuel, any state), the start tag of the token element
    `r` at `path` is in the output as `xmlTag` writes it under the scope `q` handed down along the path,
    and with what that tag declares, on top of what the tags above it declare, the namespace in scope
    is the one of `r`'s page. -/
theorem namespace_in_scope_matches_page_printed (c : XCfg) (ns : List NsRow) (hns : c.lang.ns = some ns)
    (root : Node) (hrows : pagesHaveRows ns root = true) (f : Nat) (st st' : XSt)
    (h : xmlNode c .none f root st = .ok st') (path : List Nat) (names : List Name) (r : TagRow)
    (attrs : List Attr) (kids : List Node)
    (hpath : pathTo root path = some (names, .elt (.token r) attrs kids)) :
    ∃ q a post, q = names.foldl childScope .none ∧
      st'.out = (xmlTag c q (.token r) a).out ++ post ∧
      nsAfter c q (nsInScope c .none none names) (.token r) = nsOfPageX ns r.page := by
  obtain ⟨g, a, b, post, hb, ho⟩ := xmlNode_sub c path .none f root st st' names _ h hpath
  obtain ⟨x, hx⟩ := xmlNode_elt_tag c _ g (.token r) attrs kids a b hb
  refine ⟨_, a, x ++ post, rfl, by rw [ho, hx, List.append_assoc], ?_⟩
  rw [← nsInScope_append]
  exact (namespace_in_scope_matches_page c ns hns root hrows path names r attrs kids hpath).1

/-- Path form of (c), without a tree: any chain of ancestors ending in a token element. -/
theorem namespace_in_scope_matches_page_path (c : XCfg) (ns : List NsRow) (hns : c.lang.ns = some ns)
    (names : List Name) (r : TagRow) (hrows : namesHaveRows ns (names ++ [.token r]) = true) :
    nsInScope c .none none (names ++ [.token r]) = nsOfPageX ns r.page :=
  nsInScope_path c ns hns names r hrows

/-- A small language with a namespace table (one page), and the former witness: the literal element
    `X-Custom` with the token child `DSMem`. -/
def nsLang : Lang :=
  { id := 9999, pub := { wbxmlId := 1, xmlId := none, root := some b!"X-Custom", dtd := none },
    tags := some [{ name := b!"DSMem", page := 0, token := 0x0c, opts := 0 }],
    ns := some [{ ns := b!"syncml:devinf", page := 0 }], attrs := none, values := none, exts := none }

def nsCfg : XCfg := { lang := nsLang, gen := 0, delta := 1, ignoreEmpty := true, removeBlanks := true }

def nsWitness : Node :=
  .elt (.literal b!"X-Custom") [] [.elt (.token { name := b!"DSMem", page := 0, token := 0x0c, opts := 0 }) [] [.text b!"text"]]

/-- **Regression for the repaired defect.** `X-Custom[DSMem[text]]`: the token element below the
    literal root now declares the namespace of its page (before fix 3c27455 the output was
    `<X-Custom><DSMem>text</DSMem></X-Custom>`, `DSMem` in no namespace). -/
theorem ns_former_witness_fixed :
    (match xmlNode nsCfg .none 10 nsWitness {} with
     | .ok st => some st.out
     | .error _ => none) = some b!"<X-Custom><DSMem xmlns=\"syncml:devinf\">text</DSMem></X-Custom>" := by
  decide

/-- The former behaviour, for comparison: compared with its direct (literal) parent, the tag declares
    nothing. `xmlNode` no longer produces such a scope value (`isScope`). -/
example : (xmlTag nsCfg (.elt (.literal b!"X-Custom")) (.token { name := b!"DSMem", page := 0, token := 0x0c, opts := 0 }) {}).out
    = b!"<DSMem" := by decide

/-- Non-vacuity of (c): the hypotheses hold of the witness, and the namespace in scope at `DSMem` is
    the declared one. -/
example : pagesHaveRows [{ ns := b!"syncml:devinf", page := 0 }] nsWitness = true ∧
    nsInScope nsCfg .none none [.literal b!"X-Custom", .token { name := b!"DSMem", page := 0, token := 0x0c, opts := 0 }]
      = some b!"syncml:devinf" := by decide
example : pathTo nsWitness [0] = some ([.literal b!"X-Custom"],
      .elt (.token { name := b!"DSMem", page := 0, token := 0x0c, opts := 0 }) [] [.text b!"text"]) := rfl
example : nsInScope nsCfg .none none ([.literal b!"X-Custom"] ++ [.token { name := b!"DSMem", page := 0, token := 0x0c, opts := 0 }])
      = nsOfPageX [{ ns := b!"syncml:devinf", page := 0 }] 0 :=
  (namespace_in_scope_matches_page nsCfg _ rfl nsWitness (by decide) [0] _ _ _ _ rfl).1

/-- The hypothesis of (c) is needed: an element on a page without a row declares nothing and stays in
    its ancestor's namespace. -/
example : pagesHaveRows [{ ns := b!"syncml:devinf", page := 0 }]
      (.elt (.token { name := b!"A", page := 0, token := 5, opts := 0 }) []
        [.elt (.token { name := b!"B", page := 1, token := 5, opts := 0 }) [] []]) = false ∧
    nsInScope nsCfg .none none [.token { name := b!"A", page := 0, token := 5, opts := 0 },
      .token { name := b!"B", page := 1, token := 5, opts := 0 }] = some b!"syncml:devinf" ∧
    nsOfPageX [{ ns := b!"syncml:devinf", page := 0 }] 1 = none := by decide

/-- Two pages, a literal element in between: `B` (page of the nearest token ancestor `A`) declares
    nothing, `C` (another page) declares its namespace, `D` (same page as `C`) nothing. -/
example :
    let t (n : Bytes) (pg : Nat) : Name := .token { name := n, page := pg, token := 5, opts := 0 }
    let l : Lang := { nsLang with ns := some [{ ns := b!"p0", page := 0 }, { ns := b!"p1", page := 1 }] }
    (match xmlNode { nsCfg with lang := l } .none 10
        (.elt (t b!"A" 0) [] [.elt (.literal b!"x") [] [.elt (t b!"B" 0) [] [], .elt (t b!"C" 1) [] [.elt (t b!"D" 1) [] []]]]) {} with
     | .ok st => some st.out
     | .error _ => none) = some b!"<A xmlns=\"p0\"><x><B/><C xmlns=\"p1\"><D/></C></x></A>" := by
  decide

/-! ## DOCTYPE -/

/-- **The DOCTYPE is the language's, exactly as registered**: root element name, then
    `PUBLIC "<public id>" "<DTD>"` for a language with a (non-empty) XML public identifier. -/
theorem doctype_matches_language (lang : Lang) (gen : Nat) (p : Bytes) (hp : lang.pub.xmlId = some p)
    (hne : p ≠ []) :
    xmlHeader lang gen =
      b!"<?xml version=\"1.0\"?>" ++ (if gen == 1 then [10] else []) ++
      b!"<!DOCTYPE " ++ lang.pub.root.getD [] ++ b!" PUBLIC \"" ++ p ++ b!"\" \"" ++ lang.pub.dtd.getD [] ++
      b!"\">" ++ (if gen == 1 then [10] else []) := by
  have : p.isEmpty = false := by cases p with | nil => exact absurd rfl hne | cons _ _ => rfl
  simp [xmlHeader, hp, this, newLine]

/-- … and `SYSTEM "<DTD>"` for a language without one. -/
theorem doctype_system_only (lang : Lang) (gen : Nat) (hp : lang.pub.xmlId = none ∨ lang.pub.xmlId = some []) :
    xmlHeader lang gen =
      b!"<?xml version=\"1.0\"?>" ++ (if gen == 1 then [10] else []) ++
      b!"<!DOCTYPE " ++ lang.pub.root.getD [] ++ b!" SYSTEM \"" ++ lang.pub.dtd.getD [] ++
      b!"\">" ++ (if gen == 1 then [10] else []) := by
  rcases hp with hp | hp <;> simp [xmlHeader, hp, newLine]

/-- The identifiers of that DOCTYPE are recognised back: `wbxml_tables_search_table` on the public
    id the printer wrote selects the first registered entry with that public id (for the
    regenerated tables: the language itself, `Props.C10.gen_doctype_route`). -/
theorem doctype_recognised (main : List Lang) (lang : Lang) (p : Bytes) (hp : lang.pub.xmlId = some p)
    (hl : lang ∈ main) (sysid root : Option Bytes) :
    ∃ l', searchTable main (some p) sysid root = some l' ∧
      main.find? (Wbxml.Lemmas.Ident.pubMatch p) = some l' ∧ Wbxml.Lemmas.Ident.pubMatch p l' = true := by
  have hm : Wbxml.Lemmas.Ident.pubMatch p lang = true := by
    simp [Wbxml.Lemmas.Ident.pubMatch, hp, caseEq]
  cases hf : main.find? (Wbxml.Lemmas.Ident.pubMatch p) with
  | none => exact absurd hm (by simpa using List.find?_eq_none.mp hf lang hl)
  | some l' =>
    refine ⟨l', ?_, rfl, List.find?_some hf⟩
    rw [Wbxml.Lemmas.Ident.searchTable_eq]
    simp [Wbxml.Lemmas.Ident.byPub, hf]


/-! ## The output is a well-formed XML document that denotes the tree

`Spec/Xml.lean` is a specification of well-formed XML written from the XML 1.0 Recommendation
(productions [1] document … [2] Char for the constructs the printer can emit; a strict reader
`Spec.Xml.read : Bytes → Option XDoc`), independent of the printer; the check ties it to Expat
(`SPECX` against `EXPATN` on every output and on a malformed stream). The theorems below are about
compact and canonical generation (`gen` 0 and 2), any keep-white-space setting, any fuel, and every
tree satisfying the decidable precondition `xmlRepresentable cfg t` (Lemmas/XmlSpecDoc.lean, spelled out
in `representable_meaning` / `representable_nodes`; embedded documents included). Outside the
predicate, hence `_partial`: CDATA nodes with several children or with an embedded document inside
(the tree builder merges adjacent text, `addKid`, so it builds the former only around an embedded
document), and indented generation. -/

open Wbxml.Lemmas.XmlSpec Wbxml.Spec.Xml Wbxml.Lemmas.EncW in
/-- **(a) The output is a well-formed XML document**: whenever the printer succeeds on a
    representable tree, the specification reader accepts the octets. -/
theorem output_well_formed_partial (cfg : W2XCfg) (hgen : cfg.gen = 0 ∨ cfg.gen = 2) (fuel : Nat) (t : Tree)
    (xml : Bytes) (hrep : xmlRepresentable cfg t = true) (h : treeToXml cfg fuel t = .ok xml) :
    ∃ d, Spec.Xml.read xml = some d := by
  have hg : (cfg.gen == 1) = false := by rcases hgen with h | h <;> simp [h]
  obtain ⟨lang, _, hr⟩ := treeToXml_read cfg hg fuel t xml hrep h
  exact ⟨_, hr⟩

open Wbxml.Lemmas.XmlSpec Wbxml.Spec.Xml Wbxml.Lemmas.EncW in
/-- **(b) … that denotes exactly the tree**: it has the XML declaration `version="1.0"`, the
    language's DOCTYPE — root name, public identifier (none when the language has none or an empty
    one) and system identifier exactly as registered — and its root element is `xview cfg t`: the
    tree's elements in order, each with the namespace declaration `xml_encode_tag` adds (as attribute
    `xmlns`) followed by its attributes (`attr_view`), and its character data (`text_view_*`),
    adjacent text nodes and CDATA nodes joined (`content_view`). -/
theorem output_denotes_tree_partial (cfg : W2XCfg) (hgen : cfg.gen = 0 ∨ cfg.gen = 2) (fuel : Nat) (t : Tree)
    (xml : Bytes) (hrep : xmlRepresentable cfg t = true) (h : treeToXml cfg fuel t = .ok xml)
    (lang : Lang) (hl : t.lang = some lang) :
    Spec.Xml.read xml = some
      { version := some b!"1.0",
        doctype := some { name := lang.pub.root.getD [],
                          pubid := (match lang.pub.xmlId with
                            | some p => if p.isEmpty then none else some p
                            | none => none),
                          sysid := some (lang.pub.dtd.getD []) },
        root := xview cfg t } := by
  have hg : (cfg.gen == 1) = false := by rcases hgen with h | h <;> simp [h]
  obtain ⟨lang', hl', hr⟩ := treeToXml_read cfg hg fuel t xml hrep h
  rw [hl] at hl'
  injection hl' with hl'
  subst hl'
  exact hr

open Wbxml.Lemmas.XmlSpec Wbxml.Spec.Xml Wbxml.Lemmas.EncW in
/-- (a)+(b) for the whole conversion `wbxml_conv_wbxml2xml_run`: when it succeeds and the tree it built
    is representable, its output is read back as that tree. -/
theorem conversion_output_denotes_tree_partial (cfg : W2XCfg) (hgen : cfg.gen = 0 ∨ cfg.gen = 2) (wbxml xml : Bytes)
    (h : wbxml2xml cfg wbxml = .ok xml) :
    ∃ t, treeOfWbxml cfg.main (wbxml.length + 1) cfg.lang cfg.charset wbxml = .ok t ∧
      (xmlRepresentable cfg t = true → ∃ d, Spec.Xml.read xml = some d ∧ d.root = xview cfg t ∧
        d.doctype = t.lang.map xdoctype) := by
  unfold wbxml2xml at h
  split at h
  · cases h
  · cases ht : treeOfWbxml cfg.main (wbxml.length + 1) cfg.lang cfg.charset wbxml with
    | error e => rw [ht] at h; cases h
    | ok t =>
      rw [ht] at h
      simp only [bind, Except.bind] at h
      refine ⟨t, rfl, fun hrep => ?_⟩
      have hg : (cfg.gen == 1) = false := by rcases hgen with h | h <;> simp [h]
      obtain ⟨lang, hl, hr⟩ := treeToXml_read cfg hg _ t xml hrep h
      exact ⟨_, hr, rfl, by simp [hl]⟩

/-! ### What `xview` is -/

open Wbxml.Lemmas.XmlSpec Wbxml.Spec.Xml Wbxml.Lemmas.EncW Wbxml.Lemmas.XmlPrint in
/-- The root: the element's name, its attributes, its content — printed with the options
    `wbxml_tree_to_xml` derives (`xcfgOf`), under no enclosing token element, the encoder knowing no
    current tag. -/
theorem root_view (cfg : W2XCfg) (t : Tree) (lang : Lang) (name : Name) (attrs : List Attr) (kids : List Node)
    (hl : t.lang = some lang) (hr : t.root = some (.elt name attrs kids)) :
    xview cfg t = .elem name.xmlName ((vAttrs (xcfgOf cfg lang) .none name attrs).map PAttr.view)
      (vNodes (xcfgOf cfg lang) (childScope .none name) (tagOf name) kids []) := by
  simp [xview, hl, hr, xelem]

open Wbxml.Lemmas.XmlSpec Wbxml.Spec.Xml Wbxml.Lemmas.EncW Wbxml.Lemmas.XmlPrint in
/-- Content lists, node by node (`vNodes c p cur kids R`: the children `kids` of an element whose tag
    is `cur`, followed by `R`): an element child is one item — printed under the scope its parent
    hands down, the nearest token-element ancestor —; a text node and a CDATA node with a text node add
    their character data in front of what follows, joining a text item there; the first child is
    written while the encoder's current tag is the parent's, every later one after it was reset; an
    embedded document contributes its root, printed by an encoder of its own (the embedded language,
    no enclosing element, no current tag — its root element declares its namespace again). -/
theorem content_view (c : XCfg) (p : Parent) (cur : Option TagRow) (R : List XItem) :
    vNodes c p cur [] R = R ∧
    (∀ n rest, vNodes c p cur (n :: rest) R = vNode c p cur n (vNodes c p none rest R)) ∧
    (∀ name attrs kids, vNode c p cur (.elt name attrs kids) R =
      .elem name.xmlName ((vAttrs c p name attrs).map PAttr.view) (vNodes c (childScope p name) (tagOf name) kids []) :: R) ∧
    (∀ s, vNode c p cur (.text s) R = addText (vText c cur s) R) ∧
    (∀ s, vNode c p cur (.cdata [.text s]) R = addText (eolNorm s) R) ∧
    vNode c p cur (.cdata []) R = R ∧
    (∀ l cs r, vNode c p cur (.tree (some l) cs (some r)) R = vNode { c with lang := l } .none none r R) := by
  refine ⟨by simp [vNodes], fun _ _ => by simp [vNodes], fun _ _ _ => by simp [vNode], fun _ => by simp [vNode],
    fun _ => by simp [vNode], by simp [vNode], fun _ _ _ => by simp [vNode]⟩

open Wbxml.Lemmas.XmlSpec Wbxml.Spec.Xml Wbxml.Lemmas.EncW Wbxml.Lemmas.XmlNs in
/-- Attributes: the namespace declaration of `xmlns_declared_iff_page_differs` first, as an ordinary
    attribute `xmlns` with the registered namespace name; then, in a language with an attribute table,
    the element's attributes in order, name and value read as C strings (up to the first NUL), the
    value as `attNorm` gives it. -/
theorem attr_view (c : XCfg) (p : Parent) (name : Name) (attrs : List Attr) :
    (vAttrs c p name attrs).map PAttr.view =
      (match declaredNs c p name with
       | some ns => [(b!"xmlns", ns)]
       | none => []) ++
      (if c.lang.attrs.isSome then
         attrs.map fun a => (cstrOf a.name.xmlName, attNorm (c.gen == 2) (cstrOf a.value))
       else []) := by
  unfold vAttrs
  rw [List.map_append]
  congr 1
  · cases declaredNs c p name <;> rfl
  · split <;> simp [PAttr.view, List.map_map, Function.comp_def]

open Wbxml.Lemmas.XmlSpec in
/-- **Attribute values: exactly in canonical generation; otherwise TAB and LF become spaces** (they
    are written literally and §3.3.3 applies on reading) **and everything else — CR included, which is
    always written `&#13;` — is exact.** -/
theorem attr_value_view (v : Bytes) :
    attNorm true v = v ∧ attNorm false v = v.map (fun b => if b == 10 || b == 9 then 32 else b) ∧
    ((∀ b ∈ v, b ≠ 10 ∧ b ≠ 9) → attNorm false v = v) := by
  refine ⟨rfl, rfl, fun h => ?_⟩
  show v.map attNorm1 = v
  induction v with
  | nil => rfl
  | cons a r ih =>
    have ha := h a List.mem_cons_self
    simp only [List.map_cons, List.cons.injEq]
    exact ⟨by simp [attNorm1, ha.1, ha.2], ih (fun b hb => h b (List.mem_cons_of_mem _ hb))⟩

open Wbxml.Lemmas.XmlSpec Wbxml.Lemmas.EncW in
/-- **Character data, canonical generation: exact** — the text node's octets, CR LF TAB included —
    in an element that is not binary-flagged (there: the base64 form the printer substitutes), except
    for the SyncML media-type rewriting inside `Type` (`textStr`). -/
theorem text_view_canonical (c : XCfg) (hg : c.gen = 2) (cur : Option TagRow) (s : Bytes) :
    vText c cur s = (if isBinaryTag cur then b64EncodeGo (textStr c.lang.id cur s) else textStr c.lang.id cur s) ∧
    ((∀ r, cur = some r → (r.page == 1 && r.token == 0x13) = false) → textStr c.lang.id cur s = s) := by
  refine ⟨by simp [vText, hg], fun h => ?_⟩
  unfold textStr
  cases cur with
  | none => simp
  | some r => simp [h r rfl]

open Wbxml.Lemmas.XmlSpec Wbxml.Lemmas.EncW in
/-- **Character data, compact and indented generation**: with white space kept, as in canonical generation (exact:
    a CR is written `&#13;`, everything else literally, and nothing the reader normalises is left);
    otherwise a text node of white space only contributes nothing and any other is stripped of leading
    and trailing blanks first (`xml_encode_text`) — not in a binary-flagged element. -/
theorem text_view_compact (c : XCfg) (hg : c.gen = 0 ∨ c.gen = 1) (cur : Option TagRow) (s : Bytes) (hb : isBinaryTag cur = false) :
    (c.ignoreEmpty = false → c.removeBlanks = false → vText c cur s = textStr c.lang.id cur s) ∧
    (c.ignoreEmpty = true → c.removeBlanks = true →
      vText c cur s = if s.all isSpaceC then [] else textStr c.lang.id cur (stripBlanks s)) := by
  rcases hg with hg | hg <;>
    exact ⟨fun h1 h2 => by simp [vText, hg, hb, h1, h2], fun h1 h2 => by simp [vText, hg, hb, h1, h2]⟩

open Wbxml.Lemmas.XmlSpec in
/-- **CDATA nodes contribute their text**; it is written as it is, so a reader applies XML's line-end
    handling (§2.11): exact when the text has no CR. -/
theorem cdata_view (s : Bytes) (h : ∀ b ∈ s, b ≠ 13) : eolNorm s = s := by
  induction s with
  | nil => rfl
  | cons a r ih =>
    have ha : (a == 13) = false := by simpa using h a List.mem_cons_self
    rw [eolNorm.eq_def]
    simp only [ha, Bool.false_eq_true, ↓reduceIte, ih (fun b hb => h b (List.mem_cons_of_mem _ hb))]

example : Wbxml.Lemmas.XmlSpec.eolNorm b!"a\r\nb\rc\n" = b!"a\nb\nc\n" := by decide


/-! ### Indented generation (and every other mode): the same document up to the white space added

In indented generation the printer writes line feeds and runs of spaces around markup (after the
header lines, before start tags, after `>` and before `</` of an element that has element children,
after end tags). A reader sees them as character data. `sqI` / `sqL` delete the blanks (space, line
feed) from all character data of an item and drop text items that become empty
(`squash_meaning`); the two theorems below say that the output is well-formed and that its root,
squashed, is the squashed view of the tree — the same elements, attributes and non-blank character
data in the same order. For `gen = 1` the view `xview cfg t` treats text as compact generation does
(`text_view_compact`) and attribute values as `attNorm false`. -/

open Wbxml.Lemmas.XmlSpec Wbxml.Spec.Xml Wbxml.Lemmas.EncW in
/-- **(c) Indented generation, any indentation width — in fact any generation mode: the output is a
    well-formed XML document.** -/
theorem indent_output_well_formed_partial (cfg : W2XCfg) (fuel : Nat) (t : Tree) (xml : Bytes)
    (hrep : xmlRepresentable cfg t = true) (h : treeToXml cfg fuel t = .ok xml) :
    ∃ d, Spec.Xml.read xml = some d := by
  obtain ⟨lang, r, _, hr, _⟩ := treeToXml_read_ws cfg fuel t xml hrep h
  exact ⟨_, hr⟩

open Wbxml.Lemmas.XmlSpec Wbxml.Spec.Xml Wbxml.Lemmas.EncW in
/-- **(c) … with the language's DOCTYPE, whose root element is the tree's view up to the blanks the
    printer adds**: equal after deleting space and line feed from character data. -/
theorem indent_output_denotes_tree_partial (cfg : W2XCfg) (fuel : Nat) (t : Tree) (xml : Bytes)
    (hrep : xmlRepresentable cfg t = true) (h : treeToXml cfg fuel t = .ok xml) (lang : Lang) (hl : t.lang = some lang) :
    ∃ r, Spec.Xml.read xml = some
        { version := some b!"1.0",
          doctype := some { name := lang.pub.root.getD [],
                            pubid := (match lang.pub.xmlId with
                              | some p => if p.isEmpty then none else some p
                              | none => none),
                            sysid := some (lang.pub.dtd.getD []) },
          root := r } ∧
      sqI r = sqI (xview cfg t) := by
  obtain ⟨lang', r, hl', hr, hs⟩ := treeToXml_read_ws cfg fuel t xml hrep h
  rw [hl] at hl'
  injection hl' with hl'
  subst hl'
  exact ⟨r, hr, hs⟩

open Wbxml.Lemmas.XmlSpec Wbxml.Spec.Xml Wbxml.Lemmas.EncW in
/-- What squashing does: blanks (space, line feed) are deleted from character data, a text item
    that becomes empty is dropped, elements keep name and attributes and have their content squashed. -/
theorem squash_meaning (s : Bytes) (n : Bytes) (a : List (Bytes × Bytes)) (k r : List XItem) :
    nb s = s.filter (fun b => !(b == 32 || b == 10)) ∧
    sqI (.text s) = .text (nb s) ∧ sqI (.elem n a k) = .elem n a (sqL k) ∧
    sqL [] = [] ∧ sqL (.text s :: r) = (if (nb s).isEmpty then sqL r else .text (nb s) :: sqL r) ∧
    sqL (.elem n a k :: r) = .elem n a (sqL k) :: sqL r := by
  refine ⟨rfl, by simp [sqI], by simp [sqI], by simp [sqL], by simp [sqL], by simp [sqL]⟩

/-! ### The precondition -/

open Wbxml.Lemmas.XmlSpec Wbxml.Spec.Xml Wbxml.Lemmas.EncW Wbxml.Lemmas.XmlPrint Wbxml.Lemmas.XmlNs in
/-- `xmlRepresentable` spelled out: language entry, root element, and node by node. -/
theorem representable_meaning (cfg : W2XCfg) (t : Tree) :
    xmlRepresentable cfg t = true ↔
      ∃ lang name attrs kids, t.lang = some lang ∧ t.root = some (.elt name attrs kids) ∧
        langOk lang = true ∧ okNode (xcfgOf cfg lang) .none none (.elt name attrs kids) = true := by
  unfold xmlRepresentable
  constructor
  · intro h
    cases hl : t.lang with
    | none => simp [hl] at h
    | some lang =>
      cases hr : t.root with
      | none => simp [hl, hr] at h
      | some root =>
        cases root with
        | elt name attrs kids =>
          simp only [hl, hr, Bool.and_eq_true] at h
          exact ⟨lang, name, attrs, kids, rfl, rfl, h.1, h.2⟩
        | text s => simp [hl, hr] at h
        | cdata k => simp [hl, hr] at h
        | tree a b c => simp [hl, hr] at h
  · rintro ⟨lang, name, attrs, kids, hl, hr, h1, h2⟩
    simp [hl, hr, h1, h2]

open Wbxml.Lemmas.XmlSpec Wbxml.Spec.Xml Wbxml.Lemmas.EncW Wbxml.Lemmas.XmlPrint Wbxml.Lemmas.XmlNs in
/-- … node by node: names are Names, attribute values and character data are UTF-8 for XML
    characters, no attribute name twice in a start tag, namespace names are plain, a CDATA node holds
    at most one text node, an embedded document has a language and a root that satisfies the same
    conditions under its own language. -/
theorem representable_nodes (c : XCfg) (p : Parent) (cur : Option TagRow) :
    (∀ name attrs kids, okNode c p cur (.elt name attrs kids) =
      (isName name.xmlName && attrsOk c p name attrs && okNodes c (childScope p name) (tagOf name) kids)) ∧
    (∀ s, okNode c p cur (.text s) = xmlChars (vText c cur s)) ∧
    okNode c p cur (.cdata []) = true ∧ (∀ s, okNode c p cur (.cdata [.text s]) = xmlChars s) ∧
    (∀ l cs r, okNode c p cur (.tree (some l) cs (some r)) = okNode { c with lang := l } .none none r) ∧
    (∀ cs r, okNode c p cur (.tree none cs r) = false) ∧ (∀ l cs, okNode c p cur (.tree l cs none) = false) ∧
    okNodes c p cur [] = true ∧ (∀ n rest, okNodes c p cur (n :: rest) = (okNode c p cur n && okNodes c p none rest)) ∧
    (∀ name attrs, attrsOk c p name attrs =
      ((match declaredNs c p name with
        | some ns => ns.all isPlainAtt && xmlChars ns
        | none => true) &&
       (if c.lang.attrs.isSome then
          attrs.all fun a => isName (cstrOf a.name.xmlName) && xmlChars (cstrOf a.value)
        else true) &&
       nodup ((vAttrs c p name attrs).map (·.name)))) := by
  refine ⟨fun _ _ _ => by simp [okNode], fun _ => by simp [okNode], by simp [okNode], fun _ => by simp [okNode],
    fun _ _ _ => by simp [okNode], fun _ _ => by simp [okNode], fun l _ => by cases l <;> simp [okNode],
    by simp [okNodes], fun _ _ => by simp [okNodes], fun _ _ => rfl⟩

open Wbxml.Lemmas.XmlSpec Wbxml.Spec.Xml in
/-- The condition on a text node can be checked on the node's own octets: if they are UTF-8 for XML
    characters, so is what `xml_encode_text` writes for the node (after stripping blanks, rewriting a
    SyncML media type, or taking the base64 form), wherever the node stands. -/
theorem text_precondition_on_octets (c : XCfg) (p : Parent) (cur : Option TagRow) (s : Bytes)
    (h : xmlChars s = true) : okNode c p cur (.text s) = true ∧ xmlChars (vText c cur s) = true :=
  ⟨okNode_text_of_chars c p cur s h, xmlChars_vText c cur s h⟩

open Wbxml.Lemmas.XmlSpec in
/-- **Every registered language satisfies the language part of the precondition** (complete table):
    its root name is a Name, its public identifier consists of PubidChars, its DTD location has no
    double quote — and every registered namespace name can be written between double quotes as it is. -/
theorem registered_languages_ok :
    Gen.main.all langOk = true ∧
    Gen.main.all (fun l => (l.ns.getD []).all fun r => r.ns.all isPlainAtt && Spec.Xml.xmlChars r.ns) = true := by
  decide +kernel

/-! ### The precondition is needed, conjunct by conjunct

For each conjunct a tree that violates only it, on which the printer succeeds and whose output the
specification reader refuses (`rejected`); `wfLang` has an attribute table and two code pages. -/

def wfLang : Lang :=
  { id := 9998, pub := { wbxmlId := 1, xmlId := some b!"-//X//DTD T 1.0//EN", root := some b!"doc", dtd := some b!"http://x/t.dtd" },
    tags := some [{ name := b!"item", page := 0, token := 5, opts := 0 }, { name := b!"other", page := 1, token := 5, opts := 0 }],
    ns := some [{ ns := b!"urn:p0", page := 0 }, { ns := b!"urn:p1", page := 1 }], attrs := some [], values := none, exts := none }

def wfCfg (gen : Nat) : W2XCfg := { main := [wfLang], gen := gen, keepWs := true }
def wfTree (l : Lang) (r : Node) : Tree := { lang := some l, origCharset := 106, root := some r }

/-- The printer produced an output and `Spec.Xml.read` refuses it. -/
def rejected (cfg : W2XCfg) (t : Tree) : Bool :=
  match treeToXml cfg 10 t with
  | .ok xml => (Spec.Xml.read xml).isNone
  | .error _ => false

def wfItem : Name := .token { name := b!"item", page := 0, token := 5, opts := 0 }
def lit (s : Bytes) (attrs : List Attr) (kids : List Node) : Node := .elt (.literal s) attrs kids

/-- Non-vacuity: a tree with a token element (namespace declared), an attribute with `<` and a
    trailing NUL, text with `&`, an empty literal element, a CDATA node with `]]>` and CR LF, and
    a two-octet character is representable, in both modes; its output is accepted and denotes it. -/
def wfGood : Tree := wfTree wfLang (.elt wfItem [{ name := .literal b!"id", value := [97, 60, 98, 9, 0] }]
  [.text b!"x&y", lit b!"lit" [] [], .cdata [.text b!"c]]>d\r\ne"], .text [0xC3, 0xA9]])

open Wbxml.Lemmas.XmlSpec in
example : xmlRepresentable (wfCfg 0) wfGood = true ∧ xmlRepresentable (wfCfg 2) wfGood = true ∧
    rejected (wfCfg 0) wfGood = false ∧ rejected (wfCfg 2) wfGood = false := by decide +kernel

open Wbxml.Lemmas.XmlSpec Wbxml.Spec.Xml in
example : (xview (wfCfg 0) wfGood).same
    (.elem b!"item" [(b!"xmlns", b!"urn:p0"), (b!"id", b!"a<b ")]
      [.text b!"x&y", .elem b!"lit" [] [], .text ([99, 93, 93, 62, 100, 10, 101, 0xC3, 0xA9])]) = true := by decide +kernel
open Wbxml.Lemmas.XmlSpec Wbxml.Spec.Xml in
example : (xview (wfCfg 2) wfGood).same
    (.elem b!"item" [(b!"xmlns", b!"urn:p0"), (b!"id", [97, 60, 98, 9])]
      [.text b!"x&y", .elem b!"lit" [] [], .text ([99, 93, 93, 62, 100, 10, 101, 0xC3, 0xA9])]) = true := by decide +kernel
example : (match treeToXml (wfCfg 0) 10 wfGood with
    | .ok xml => xml == b!"<?xml version=\"1.0\"?><!DOCTYPE doc PUBLIC \"-//X//DTD T 1.0//EN\" \"http://x/t.dtd\"><item xmlns=\"urn:p0\" id=\"a&lt;b\t\">x&amp;y<lit/><![CDATA[c]]]]><![CDATA[>d\r\ne]]>" ++ [0xC3, 0xA9] ++ b!"</item>"
    | .error _ => false) = true := by
  decide +kernel

open Wbxml.Lemmas.XmlSpec in
/-- **Necessity witnesses.** An element name that is not a Name (`1a`; a name with a blank; a name
    with a NUL); an attribute name that is not a Name; a C0 control character in character data; an
    octet sequence that is not UTF-8; a control character in an attribute value; the same attribute
    name twice; an attribute called `xmlns` next to the namespace declaration; a CDATA node whose two
    text nodes put `]]>` together; a root that is not an element; a language without root name; a
    namespace name with a double quote; a public identifier with a character that is not a PubidChar. -/
theorem precondition_needed :
    let bad (cfg : W2XCfg) (t : Tree) : Bool := !xmlRepresentable cfg t && rejected cfg t
    bad (wfCfg 0) (wfTree wfLang (lit b!"1a" [] [])) = true ∧
    bad (wfCfg 0) (wfTree wfLang (lit b!"a b" [] [])) = true ∧
    bad (wfCfg 0) (wfTree wfLang (lit [97, 0, 98] [] [])) = true ∧
    bad (wfCfg 0) (wfTree wfLang (lit b!"a" [{ name := .literal b!"-x", value := b!"v" }] [])) = true ∧
    bad (wfCfg 2) (wfTree wfLang (lit b!"a" [] [.text [1]])) = true ∧
    bad (wfCfg 2) (wfTree wfLang (lit b!"a" [] [.text [0xC0, 0x80]])) = true ∧
    bad (wfCfg 2) (wfTree wfLang (lit b!"a" [] [.text [0xED, 0xA0, 0x80]])) = true ∧
    bad (wfCfg 2) (wfTree wfLang (lit b!"a" [] [.cdata [.text [0xFF]]])) = true ∧
    bad (wfCfg 0) (wfTree wfLang (lit b!"a" [{ name := .literal b!"x", value := [0x1F] }] [])) = true ∧
    bad (wfCfg 0) (wfTree wfLang (lit b!"a" [{ name := .literal b!"x", value := b!"1" }, { name := .literal b!"x", value := b!"2" }] [])) = true ∧
    bad (wfCfg 0) (wfTree wfLang (.elt wfItem [{ name := .literal b!"xmlns", value := b!"u" }] [])) = true ∧
    bad (wfCfg 0) (wfTree wfLang (lit b!"a" [] [.cdata [.text b!"]]", .text b!">"]])) = true ∧
    bad (wfCfg 0) (wfTree wfLang (.text b!"a")) = true ∧
    bad (wfCfg 0) (wfTree { wfLang with pub := { wfLang.pub with root := none } } (lit b!"a" [] [])) = true ∧
    bad (wfCfg 0) (wfTree { wfLang with ns := some [{ ns := b!"a\"b", page := 0 }] } (.elt wfItem [] [])) = true ∧
    bad (wfCfg 0) (wfTree { wfLang with pub := { wfLang.pub with xmlId := some b!"a{b" } } (lit b!"a" [] [])) = true := by
  decide +kernel


/-- Indented generation of the non-vacuity tree (width 2): accepted, and the text item between `lit` and
    the end tag is the CDATA text, the two-octet character and the line feed added before `</item>`. -/
example : (match treeToXml { wfCfg 1 with indent := 2 } 10 wfGood with
    | .ok xml => xml == b!"<?xml version=\"1.0\"?>\n<!DOCTYPE doc PUBLIC \"-//X//DTD T 1.0//EN\" \"http://x/t.dtd\">\n<item xmlns=\"urn:p0\" id=\"a&lt;b\t\">\nx&amp;y  <lit/>\n<![CDATA[c]]]]><![CDATA[>d\r\ne]]>" ++ [0xC3, 0xA9] ++ b!"\n</item>\n"
    | .error _ => false) = true ∧ rejected { wfCfg 1 with indent := 2 } wfGood = false := by
  decide +kernel


end Wbxml.Props.C05
