/-
  C05 — generated XML is well-formed and denotes exactly the parsed document.
  Theorems about the XML printer model (`Model/EncXml.lean`), for all byte strings.
-/
import Wbxml.Model.EncXml
import Wbxml.Spec.XmlText
import Wbxml.Lemmas.XmlPrint
import Wbxml.Lemmas.Ident
namespace Wbxml.Props.C05
open Wbxml Wbxml.Model Wbxml.Spec Wbxml.Lemmas.XmlPrint

/-- What one byte becomes in `xml_encode_text_entities`. -/
def esc1 (canonical : Bool) (ch : UInt8) : Bytes :=
  if ch == 60 then b!"&lt;"
  else if ch == 62 then b!"&gt;"
  else if ch == 38 then b!"&amp;"
  else if ch == 34 then b!"&quot;"
  else if ch == 39 then b!"&apos;"
  else if ch == 13 then b!"&#13;"
  else if ch == 10 && canonical then b!"&#10;"
  else if ch == 9 && canonical then b!"&#9;"
  else [ch]

theorem xmlEscape_cons (c : Bool) (b : UInt8) (s : Bytes) :
    xmlEscape c (b :: s) = esc1 c b ++ xmlEscape c s := by
  simp [xmlEscape, esc1, List.flatMap_cons]

theorem xmlEscape_nil (c : Bool) : xmlEscape c [] = [] := by simp [xmlEscape]

theorem esc1_no_markup (c : Bool) (a : UInt8) : (esc1 c a).all (fun b => !isMarkup b) = true := by
  unfold esc1
  split; · decide
  split; · decide
  split; · decide
  split; · decide
  split; · decide
  split; · decide
  split; · decide
  split; · decide
  rename_i h1 h2 h3 h4 h5 h6 h7 h8
  simp only [List.all_cons, List.all_nil, Bool.and_true, isMarkup]
  simp_all

/-- Escaped text never contains a literal `<`, `>`, `"` or `'`: markup-significant characters are
    always escaped (character data and attribute values alike). -/
theorem escape_has_no_markup (c : Bool) (s : Bytes) : ∀ b ∈ xmlEscape c s, isMarkup b = false := by
  induction s with
  | nil => simp [xmlEscape_nil]
  | cons a s ih =>
    intro b hb
    rw [xmlEscape_cons] at hb
    rcases List.mem_append.mp hb with h | h
    · have := List.all_eq_true.mp (esc1_no_markup c a) b h
      simpa using this
    · exact ih b h

/-- A reader that undoes the escaping gets back exactly the text that was escaped — in every
    generation mode. -/
theorem unescape_escape (c : Bool) (s : Bytes) : unescape (xmlEscape c s) = s := by
  induction s with
  | nil => simp [xmlEscape_nil, unescape]
  | cons a s ih =>
    rw [xmlEscape_cons]
    unfold esc1
    split
    · rename_i h; have : a = 60 := by simpa using h
      subst this; simp [unescape, ih]
    · split
      · rename_i h; have : a = 62 := by simpa using h
        subst this; simp [unescape, ih]
      · split
        · rename_i h; have : a = 38 := by simpa using h
          subst this; simp [unescape, ih]
        · split
          · rename_i h; have : a = 34 := by simpa using h
            subst this; simp [unescape, ih]
          · split
            · rename_i h; have : a = 39 := by simpa using h
              subst this; simp [unescape, ih]
            · split
              · rename_i h
                have : a = 13 := by simpa using h
                subst this; simp [unescape, ih]
              · split
                · rename_i h; simp only [Bool.and_eq_true] at h
                  have : a = 10 := by simpa using h.1
                  subst this; simp [unescape, ih]
                · split
                  · rename_i h; simp only [Bool.and_eq_true] at h
                    have : a = 9 := by simpa using h.1
                    subst this; simp [unescape, ih]
                  · rename_i h1 h2 h3 h4 h5 h6 h7 h8
                    have hne : a ≠ 38 := by simpa using h3
                    simp only [List.singleton_append]
                    rw [unescape]
                    · rw [ih]
                    all_goals (intros; simp_all)

theorem esc1_canonical_no_ws (a : UInt8) : (esc1 true a).all (fun b => b != 13 && b != 10 && b != 9) = true := by
  unfold esc1
  split; · decide
  split; · decide
  split; · decide
  split; · decide
  split; · decide
  split; · decide
  split; · decide
  split; · decide
  simp only [List.all_cons, List.all_nil, Bool.and_true]
  simp_all

/-- A literal CR is never left in escaped text, in any generation mode (it would not survive
    XML's line-end normalisation). -/
theorem escape_has_no_cr (c : Bool) (s : Bytes) : ∀ b ∈ xmlEscape c s, b ≠ 13 := by
  have h1 : ∀ a, (esc1 c a).all (fun b => b != 13) = true := by
    intro a
    unfold esc1
    split; · decide
    split; · decide
    split; · decide
    split; · decide
    split; · decide
    split; · decide
    split; · decide
    split; · decide
    simp only [List.all_cons, List.all_nil, Bool.and_true]
    simp_all
  induction s with
  | nil => simp [xmlEscape_nil]
  | cons a s ih =>
    intro b hb
    rw [xmlEscape_cons] at hb
    rcases List.mem_append.mp hb with h | h
    · have := List.all_eq_true.mp (h1 a) b h
      simpa using this
    · exact ih b h

/-- In canonical generation no literal CR, LF or TAB is left in escaped text (they are written as
    character references and therefore survive XML's line-end and attribute-value normalisation). -/
theorem canonical_escapes_cr_lf_tab (s : Bytes) : ∀ b ∈ xmlEscape true s, b ≠ 13 ∧ b ≠ 10 ∧ b ≠ 9 := by
  induction s with
  | nil => simp [xmlEscape_nil]
  | cons a s ih =>
    intro b hb
    rw [xmlEscape_cons] at hb
    rcases List.mem_append.mp hb with h | h
    · have := List.all_eq_true.mp (esc1_canonical_no_ws a) b h
      simp only [Bool.and_eq_true, bne_iff_ne, ne_eq] at this
      exact ⟨this.1.1, this.1.2, this.2⟩
    · exact ih b h

/-- The document starts with the XML declaration and the language's DOCTYPE. -/
theorem header_has_doctype (lang : Lang) (gen : Nat) :
    (b!"<?xml version=\"1.0\"?>").isPrefixOf (xmlHeader lang gen) = true := by
  simp [xmlHeader, List.isPrefixOf]

example : unescape (xmlEscape false b!"a<b&\"c'>") = b!"a<b&\"c'>" := by decide

/-! ## CDATA sections -/

/-- **`]]>` never ends a section early.** Whatever bytes `s` a CDATA text holds, the section the
    printer writes — `<![CDATA[`, `cdataText s`, `]]>` — read back as XML reads runs of CDATA
    sections (content up to the first `]]>`; an immediately following section continues the
    character data) denotes exactly `s`. So `cdataText s` contains `]]>` only as part of the inserted
    `]]]]><![CDATA[>`, where it closes one section and the next is opened at once. -/
theorem cdata_text_no_terminator (s : Bytes) :
    readCdata (b!"<![CDATA[" ++ cdataText s ++ b!"]]>") = some s := by
  show readIn (cdataText s ++ [93, 93, 62]) = some s
  exact readIn_cdataText s

/-- Text without `]]>` is written as is. -/
example : cdataText b!"a]]b>" = b!"a]]b>" := by decide
example : cdataText b!"x]]>y" = b!"x]]]]><![CDATA[>y" := by decide
example : readCdata b!"<![CDATA[x]]]]><![CDATA[>y]]>" = some b!"x]]>y" := by decide
/-- the reader refuses an unterminated section and trailing garbage -/
example : readCdata b!"<![CDATA[abc" = none ∧ readCdata b!"<![CDATA[abc]]>x" = none := by decide

/-- **The WBXML tree builder never opens a CDATA section directly inside a CDATA section**: over any
    event sequence, from the initial context, no CDATA frame sits on a CDATA frame (the printer
    therefore never writes `<![CDATA[` twice in a row). -/
theorem cdata_never_nested (main : List Lang) (emb : Nat → Bytes → Option Tree) (events : List Event) :
    stackOk (events.foldl (buildStep main emb) {}) = true := by
  suffices h : ∀ (b : BState), stackOk b = true → stackOk (events.foldl (buildStep main emb) b) = true from
    h {} rfl
  induction events with
  | nil => intro b h; exact h
  | cons e rest ih => intro b h; exact ih _ (buildStep_stackOk main emb b e h)

/-- One step: the invariant is preserved from any context that satisfies it. -/
theorem cdata_never_nested_step (main : List Lang) (emb : Nat → Bytes → Option Tree) (b : BState) (e : Event)
    (h : stackOk b = true) : stackOk (buildStep main emb b e) = true := buildStep_stackOk main emb b e h

/-- Events of `<Item><Meta><Type>text/x-vcard</Type></Meta><Data>abc<Meta><Type>text/x-vcard</Type></Meta>
    <Data>x</Data></Data></Item>`. -/
def nestedWitness : List Event :=
  let nItem : Name := .literal b!"Item"
  let nMeta : Name := .literal b!"Meta"
  let nType : Name := .literal b!"Type"
  let nData : Name := .literal b!"Data"
  [ .startDoc 106 2101, .startElt nItem [],
    .startElt nMeta [], .startElt nType [], .chars b!"text/x-vcard", .endElt nType, .endElt nMeta,
    .startElt nData [], .chars b!"abc",
    .startElt nMeta [], .startElt nType [], .chars b!"text/x-vcard", .endElt nType, .endElt nMeta,
    .startElt nData [], .chars b!"x", .endElt nData,
    .endElt nData, .endElt nItem, .endDoc ]

def cdataDepth : Nat → Node → Nat
  | 0, _ => 0
  | f + 1, .cdata kids => 1 + (kids.map (cdataDepth f)).foldl max 0
  | f + 1, .elt _ _ kids => (kids.map (cdataDepth f)).foldl max 0
  | _ + 1, _ => 0

/-- **`cdata_never_nested` does not extend through elements** (defect candidate): an element start
    while a CDATA section is open is attached *inside* the CDATA node, and a `Data` element there
    whose `Meta/Type` (found among the CDATA node's children) is a vObject type opens a second
    CDATA section inside the first. The real `wbxml2xml` prints `<![CDATA[abc<Meta>…<Data><![CDATA[x]]>
    </Data>]]>` for the corresponding 71-byte SyncML document, which no XML parser accepts. -/
theorem cdata_nested_through_element :
    ((nestedWitness.foldl (buildStep [] (fun _ _ => none)) {}).root.map (cdataDepth 10)) = some 2 := by
  decide +kernel

/-! ## Attributes -/

/-- **What `xml_encode_attr` writes**: a blank, the name, `="`, the escaped value (read as a C string),
    `"` — and the value between the quotes contains no quote and no `<`, and unescapes to exactly
    the C-string value. -/
theorem attr_value_roundtrip (c : XCfg) (a : Attr) (st : XSt) :
    (xmlAttr c a st).out = st.out ++ [32] ++ cstrOf a.name.xmlName ++ b!"=\"" ++
        xmlEscape (c.gen == 2) (cstrOf a.value) ++ [34] ∧
    unescape (xmlEscape (c.gen == 2) (cstrOf a.value)) = cstrOf a.value ∧
    (∀ b ∈ xmlEscape (c.gen == 2) (cstrOf a.value), b ≠ 34 ∧ b ≠ 60) := by
  refine ⟨rfl, unescape_escape _ _, ?_⟩
  intro b hb
  have := escape_has_no_markup _ _ b hb
  simp only [isMarkup, Bool.or_eq_false_iff, beq_eq_false_iff_ne, ne_eq] at this
  exact ⟨this.1.2, this.1.1.1⟩

/-- The whole attribute list of an element: the attributes in order, nothing between them. -/
theorem attr_list_bytes (c : XCfg) (attrs : List Attr) (st : XSt) :
    (attrs.foldl (fun st a => xmlAttr c a st) st).out =
      st.out ++ attrs.flatMap (attrBytes (c.gen == 2)) := by
  rw [xmlAttrs_out]

/-! ## Indentation -/

/-- **No indentation inside an element that has only text.** In indented generation (`gen = 1`,
    any indentation width, any nesting depth `st.indent`), an element all of whose children are
    text nodes is written as: the indentation, `<name`, the namespace declaration if any, the
    attributes, `>`, then *immediately* `texts`, then *immediately* `</name>` and a line feed —
    where `texts` is exactly what compact generation (`gen = 0`, which has no indentation anywhere)
    writes for the children. -/
theorem no_indent_in_text_only_elements (c : XCfg) (parent : Parent) (f : Nat) (name : Name)
    (attrs : List Attr) (kids : List Node) (st st' : XSt) (hk : kids ≠ []) (ht : allText kids = true)
    (h : xmlNode { c with gen := 1 } parent (f + 1) (.elt name attrs kids) st = .ok st') :
    ∃ texts r,
      xmlNodes { c with gen := 0 } (.elt name) f kids { st with out := [], curTag := tagOf name } = .ok r ∧
      r.out = texts ∧
      st'.out = st.out ++ spaces (st.indent.toNat * c.delta.toNat) ++ [60] ++ name.xmlName ++
        nsDecl c parent name ++ (if c.lang.attrs.isSome then attrs.flatMap (attrBytes false) else []) ++
        [62] ++ texts ++ b!"</" ++ name.xmlName ++ [62, 10] := by
  have hne : kids.isEmpty = false := by cases kids with | nil => exact absurd rfl hk | cons _ _ => rfl
  have hce := allText_noElt kids ht
  simp only [xmlNode, bind, Except.bind, xmlTag_out, xmlAttrs_out, xmlEndAttrs, xmlEndTag, hne, hce,
    Bool.and_false, Bool.false_eq_true, ↓reduceIte, pure, Except.pure] at h
  split at h
  · cases h
  · rename_i r1 h1
    simp only [Except.ok.injEq] at h
    obtain ⟨x, hx, hp⟩ := xmlNodes_texts c (.elt name) kids ht f _ r1 h1
    refine ⟨x, { r1 with out := x }, ?_, rfl, ?_⟩
    · have := hp []
      simp only [List.nil_append] at this
      rw [← this]
      congr 1
      cases c.lang.attrs <;> simp
    · subst h
      simp only [hx]
      cases c.lang.attrs <;> simp [nsDecl, newLine]

/-- One text child: the bytes between `>` and `</` are what `xml_encode_text` appends for it —
    nothing (ignorable white space) or its escaped form. -/
theorem text_piece_shape (c : XCfg) (s : Bytes) (st r : XSt) (h : xmlText c s st = .ok r) :
    ∃ x, r.out = st.out ++ x ∧ ∀ o, xmlText c s { st with out := o } = .ok { r with out := o ++ x } :=
  xmlText_piece c s st r h

/-! ## DOCTYPE -/

/-- **The DOCTYPE is the language's, exactly as registered**: root element name, then
    `PUBLIC "<public id>" "<DTD>"` for a language with a (non-empty) XML public identifier. -/
theorem doctype_matches_language (lang : Lang) (gen : Nat) (p : Bytes) (hp : lang.pub.xmlId = some p)
    (hne : p ≠ []) :
    xmlHeader lang gen =
      b!"<?xml version=\"1.0\"?>" ++ (if gen == 1 then [10] else []) ++
      b!"<!DOCTYPE " ++ lang.pub.root.getD [] ++ b!" PUBLIC \"" ++ p ++ b!"\" \"" ++ lang.pub.dtd.getD [] ++
      b!"\">" ++ (if gen == 1 then [10] else []) := by
  have : p.isEmpty = false := by cases p with | nil => exact absurd rfl hne | cons _ _ => rfl
  simp [xmlHeader, hp, this, newLine]

/-- … and `SYSTEM "<DTD>"` for a language without one. -/
theorem doctype_system_only (lang : Lang) (gen : Nat) (hp : lang.pub.xmlId = none ∨ lang.pub.xmlId = some []) :
    xmlHeader lang gen =
      b!"<?xml version=\"1.0\"?>" ++ (if gen == 1 then [10] else []) ++
      b!"<!DOCTYPE " ++ lang.pub.root.getD [] ++ b!" SYSTEM \"" ++ lang.pub.dtd.getD [] ++
      b!"\">" ++ (if gen == 1 then [10] else []) := by
  rcases hp with hp | hp <;> simp [xmlHeader, hp, newLine]

/-- The identifiers of that DOCTYPE are recognised back: `wbxml_tables_search_table` on the public
    id the printer wrote selects the first registered entry with that public id (for the
    regenerated tables: the language itself, `Props.C10.gen_doctype_route`). -/
theorem doctype_recognised (main : List Lang) (lang : Lang) (p : Bytes) (hp : lang.pub.xmlId = some p)
    (hl : lang ∈ main) (sysid root : Option Bytes) :
    ∃ l', searchTable main (some p) sysid root = some l' ∧
      main.find? (Wbxml.Lemmas.Ident.pubMatch p) = some l' ∧ Wbxml.Lemmas.Ident.pubMatch p l' = true := by
  have hm : Wbxml.Lemmas.Ident.pubMatch p lang = true := by
    simp [Wbxml.Lemmas.Ident.pubMatch, hp, caseEq]
  cases hf : main.find? (Wbxml.Lemmas.Ident.pubMatch p) with
  | none => exact absurd hm (by simpa using List.find?_eq_none.mp hf lang hl)
  | some l' =>
    refine ⟨l', ?_, rfl, List.find?_some hf⟩
    rw [Wbxml.Lemmas.Ident.searchTable_eq]
    simp [Wbxml.Lemmas.Ident.byPub, hf]


end Wbxml.Props.C05
