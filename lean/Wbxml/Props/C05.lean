/-
  C05 — generated XML is well-formed and denotes exactly the parsed document.
  Theorems about the XML printer model (`Model/EncXml.lean`), for all byte strings.
-/
import Wbxml.Model.EncXml
import Wbxml.Spec.XmlText
import Wbxml.Lemmas.XmlPrint
import Wbxml.Lemmas.XmlNs
import Wbxml.Lemmas.Ident
namespace Wbxml.Props.C05
open Wbxml Wbxml.Model Wbxml.Spec Wbxml.Lemmas.XmlPrint Wbxml.Lemmas.XmlNs

/-- What one byte becomes in `xml_encode_text_entities`. -/
def esc1 (canonical : Bool) (ch : UInt8) : Bytes :=
  if ch == 60 then b!"&lt;"
  else if ch == 62 then b!"&gt;"
  else if ch == 38 then b!"&amp;"
  else if ch == 34 then b!"&quot;"
  else if ch == 39 then b!"&apos;"
  else if ch == 13 then b!"&#13;"
  else if ch == 10 && canonical then b!"&#10;"
  else if ch == 9 && canonical then b!"&#9;"
  else [ch]

theorem xmlEscape_cons (c : Bool) (b : UInt8) (s : Bytes) :
    xmlEscape c (b :: s) = esc1 c b ++ xmlEscape c s := by
  simp [xmlEscape, esc1, List.flatMap_cons]

theorem xmlEscape_nil (c : Bool) : xmlEscape c [] = [] := by simp [xmlEscape]

theorem esc1_no_markup (c : Bool) (a : UInt8) : (esc1 c a).all (fun b => !isMarkup b) = true := by
  unfold esc1
  split; · decide
  split; · decide
  split; · decide
  split; · decide
  split; · decide
  split; · decide
  split; · decide
  split; · decide
  rename_i h1 h2 h3 h4 h5 h6 h7 h8
  simp only [List.all_cons, List.all_nil, Bool.and_true, isMarkup]
  simp_all

/-- Escaped text never contains a literal `<`, `>`, `"` or `'`: markup-significant characters are
    always escaped (character data and attribute values alike). -/
theorem escape_has_no_markup (c : Bool) (s : Bytes) : ∀ b ∈ xmlEscape c s, isMarkup b = false := by
  induction s with
  | nil => simp [xmlEscape_nil]
  | cons a s ih =>
    intro b hb
    rw [xmlEscape_cons] at hb
    rcases List.mem_append.mp hb with h | h
    · have := List.all_eq_true.mp (esc1_no_markup c a) b h
      simpa using this
    · exact ih b h

/-- A reader that undoes the escaping gets back exactly the text that was escaped — in every
    generation mode. -/
theorem unescape_escape (c : Bool) (s : Bytes) : unescape (xmlEscape c s) = s := by
  induction s with
  | nil => simp [xmlEscape_nil, unescape]
  | cons a s ih =>
    rw [xmlEscape_cons]
    unfold esc1
    split
    · rename_i h; have : a = 60 := by simpa using h
      subst this; simp [unescape, ih]
    · split
      · rename_i h; have : a = 62 := by simpa using h
        subst this; simp [unescape, ih]
      · split
        · rename_i h; have : a = 38 := by simpa using h
          subst this; simp [unescape, ih]
        · split
          · rename_i h; have : a = 34 := by simpa using h
            subst this; simp [unescape, ih]
          · split
            · rename_i h; have : a = 39 := by simpa using h
              subst this; simp [unescape, ih]
            · split
              · rename_i h
                have : a = 13 := by simpa using h
                subst this; simp [unescape, ih]
              · split
                · rename_i h; simp only [Bool.and_eq_true] at h
                  have : a = 10 := by simpa using h.1
                  subst this; simp [unescape, ih]
                · split
                  · rename_i h; simp only [Bool.and_eq_true] at h
                    have : a = 9 := by simpa using h.1
                    subst this; simp [unescape, ih]
                  · rename_i h1 h2 h3 h4 h5 h6 h7 h8
                    have hne : a ≠ 38 := by simpa using h3
                    simp only [List.singleton_append]
                    rw [unescape]
                    · rw [ih]
                    all_goals (intros; simp_all)

theorem esc1_canonical_no_ws (a : UInt8) : (esc1 true a).all (fun b => b != 13 && b != 10 && b != 9) = true := by
  unfold esc1
  split; · decide
  split; · decide
  split; · decide
  split; · decide
  split; · decide
  split; · decide
  split; · decide
  split; · decide
  simp only [List.all_cons, List.all_nil, Bool.and_true]
  simp_all

/-- A literal CR is never left in escaped text, in any generation mode (it would not survive
    XML's line-end normalisation). -/
theorem escape_has_no_cr (c : Bool) (s : Bytes) : ∀ b ∈ xmlEscape c s, b ≠ 13 := by
  have h1 : ∀ a, (esc1 c a).all (fun b => b != 13) = true := by
    intro a
    unfold esc1
    split; · decide
    split; · decide
    split; · decide
    split; · decide
    split; · decide
    split; · decide
    split; · decide
    split; · decide
    simp only [List.all_cons, List.all_nil, Bool.and_true]
    simp_all
  induction s with
  | nil => simp [xmlEscape_nil]
  | cons a s ih =>
    intro b hb
    rw [xmlEscape_cons] at hb
    rcases List.mem_append.mp hb with h | h
    · have := List.all_eq_true.mp (h1 a) b h
      simpa using this
    · exact ih b h

/-- In canonical generation no literal CR, LF or TAB is left in escaped text (they are written as
    character references and therefore survive XML's line-end and attribute-value normalisation). -/
theorem canonical_escapes_cr_lf_tab (s : Bytes) : ∀ b ∈ xmlEscape true s, b ≠ 13 ∧ b ≠ 10 ∧ b ≠ 9 := by
  induction s with
  | nil => simp [xmlEscape_nil]
  | cons a s ih =>
    intro b hb
    rw [xmlEscape_cons] at hb
    rcases List.mem_append.mp hb with h | h
    · have := List.all_eq_true.mp (esc1_canonical_no_ws a) b h
      simp only [Bool.and_eq_true, bne_iff_ne, ne_eq] at this
      exact ⟨this.1.1, this.1.2, this.2⟩
    · exact ih b h

/-- The document starts with the XML declaration and the language's DOCTYPE. -/
theorem header_has_doctype (lang : Lang) (gen : Nat) :
    (b!"<?xml version=\"1.0\"?>").isPrefixOf (xmlHeader lang gen) = true := by
  simp [xmlHeader, List.isPrefixOf]

example : unescape (xmlEscape false b!"a<b&\"c'>") = b!"a<b&\"c'>" := by decide

/-! ## CDATA sections -/

/-- **`]]>` never ends a section early.** Whatever bytes `s` a CDATA text holds, the section the
    printer writes — `<![CDATA[`, `cdataText s`, `]]>` — read back as XML reads runs of CDATA
    sections (content up to the first `]]>`; an immediately following section continues the
    character data) denotes exactly `s`. So `cdataText s` contains `]]>` only as part of the inserted
    `]]]]><![CDATA[>`, where it closes one section and the next is opened at once. -/
theorem cdata_text_no_terminator (s : Bytes) :
    readCdata (b!"<![CDATA[" ++ cdataText s ++ b!"]]>") = some s := by
  show readIn (cdataText s ++ [93, 93, 62]) = some s
  exact readIn_cdataText s

/-- Text without `]]>` is written as is. -/
example : cdataText b!"a]]b>" = b!"a]]b>" := by decide
example : cdataText b!"x]]>y" = b!"x]]]]><![CDATA[>y" := by decide
example : readCdata b!"<![CDATA[x]]]]><![CDATA[>y]]>" = some b!"x]]>y" := by decide
/-- the reader refuses an unterminated section and trailing garbage -/
example : readCdata b!"<![CDATA[abc" = none ∧ readCdata b!"<![CDATA[abc]]>x" = none := by decide

/-- **The WBXML tree builder never opens a CDATA section directly inside a CDATA section**: over any
    event sequence, from the initial context, no CDATA frame sits on a CDATA frame (the printer
    therefore never writes `<![CDATA[` twice in a row). Subsumed, since fix eb6f4c7, by
    `cdata_only_on_top` below (`cdata_only_on_top_stackOk`). -/
theorem cdata_never_nested (main : List Lang) (emb : Nat → Bytes → Option Tree) (events : List Event) :
    stackOk (events.foldl (buildStep main emb) {}) = true := by
  suffices h : ∀ (b : BState), stackOk b = true → stackOk (events.foldl (buildStep main emb) b) = true from
    h {} rfl
  induction events with
  | nil => intro b h; exact h
  | cons e rest ih => intro b h; exact ih _ (buildStep_stackOk main emb b e h)

/-- One step: the invariant is preserved from any context that satisfies it. -/
theorem cdata_never_nested_step (main : List Lang) (emb : Nat → Bytes → Option Tree) (b : BState) (e : Event)
    (h : stackOk b = true) : stackOk (buildStep main emb b e) = true := buildStep_stackOk main emb b e h

/-! ### CDATA sections hold character data only (after fix eb6f4c7)

`wbxml_tree_clb_wbxml_start_element` now leaves a current CDATA node before it adds the element
(`BState.leaveCdata`). Before the fix an element start while a CDATA section was open was attached
*inside* the CDATA node (and a vObject `Data` element there opened a second section inside the
first); the former witness is kept below as a regression (`cdata_former_witness_fixed`). -/

/-- **A CDATA frame is only ever the top of the stack**: over any event sequence, from the initial
    context, every CDATA frame is the innermost open frame and sits on an element frame — no element
    frame and no CDATA frame is ever pushed on top of a CDATA frame. -/
theorem cdata_only_on_top (main : List Lang) (emb : Nat → Bytes → Option Tree) (events : List Event) :
    cdataOnlyOnTop (events.foldl (buildStep main emb) {}) = true :=
  foldl_cdataOnlyOnTop main emb events {} rfl

/-- One step: the invariant is preserved from any context that satisfies it. -/
theorem cdata_only_on_top_step (main : List Lang) (emb : Nat → Bytes → Option Tree) (b : BState) (e : Event)
    (h : cdataOnlyOnTop b = true) : cdataOnlyOnTop (buildStep main emb b e) = true :=
  buildStep_cdataOnlyOnTop main emb b e h

/-- `cdataOnlyOnTop` spelled out: no frame below the top is a CDATA frame, and a CDATA frame is never
    the only frame. -/
theorem cdata_only_on_top_meaning (b : BState) :
    cdataOnlyOnTop b = true ↔
      (∀ f ∈ b.stack.tail, isCdataKind f.kind = false) ∧ (∀ f, b.stack = [f] → isCdataKind f.kind = false) :=
  cdataOnlyOnTop_iff b

/-- … so the stack never holds two CDATA frames, over any event sequence. -/
theorem cdata_at_most_one_open (main : List Lang) (emb : Nat → Bytes → Option Tree) (events : List Event) :
    ((events.foldl (buildStep main emb) {}).stack.filter (fun f => isCdataKind f.kind)).length ≤ 1 :=
  cdataOnlyOnTop_count _ (cdata_only_on_top main emb events)

/-- … and it is stronger than `cdata_never_nested`'s invariant. -/
theorem cdata_only_on_top_stackOk (b : BState) (h : cdataOnlyOnTop b = true) : stackOk b = true :=
  cdataTop_kindsOk _ h

/-- **The builder's CDATA invariant** (`CdInv`: `cdataOnlyOnTop`; every open frame's children satisfy
    `Node.noMarkupInCdata` and an open CDATA frame's children are character data; so does the root)
    holds over any event sequence from the initial context — provided the embedded-document parser
    `emb` only hands back trees with that property (`EmbOk`; it is `treeOfWbxml` itself, see
    `cdata_holds_character_data_only`). -/
theorem cdata_invariant (main : List Lang) (emb : Nat → Bytes → Option Tree) (hemb : EmbOk emb)
    (events : List Event) : CdInv (events.foldl (buildStep main emb) {}) :=
  foldl_cdInv main emb hemb events {} cdInv_init

/-- One step, from any context satisfying the invariant. -/
theorem cdata_invariant_step (main : List Lang) (emb : Nat → Bytes → Option Tree) (hemb : EmbOk emb)
    (b : BState) (e : Event) (h : CdInv b) : CdInv (buildStep main emb b e) :=
  buildStep_cdInv main emb hemb b e h

/-- Every node the builder finishes is fine: closing any open frame of a reachable context gives a
    node without markup inside CDATA (for a CDATA frame: a CDATA node whose children are text nodes
    and embedded documents only). -/
theorem closed_frames_no_markup_in_cdata (main : List Lang) (emb : Nat → Bytes → Option Tree) (hemb : EmbOk emb)
    (events : List Event) :
    ∀ f ∈ (events.foldl (buildStep main emb) {}).stack, f.close.noMarkupInCdata = true := by
  intro f hf
  rw [close_ok]
  exact (cdata_invariant main emb hemb events).frames f hf

/-- **No markup inside CDATA sections**: in the tree `wbxml_tree_from_wbxml` returns — for all byte
    strings, all languages tables, any fuel, and through embedded documents — no CDATA node has an
    element or a CDATA node among its children (`Node.noMarkupInCdata` on the root). The printer
    therefore writes only character data between `<![CDATA[` and `]]>`. -/
theorem cdata_holds_character_data_only (main : List Lang) (f lang cs : Nat) (bs : Bytes) (t : Tree)
    (h : treeOfWbxml main f lang cs bs = .ok t) : t.noMarkupInCdata = true :=
  treeOfWbxml_noMarkup main f lang cs bs t h

/-- … in terms of the root node. -/
theorem cdata_holds_character_data_only_root (main : List Lang) (f lang cs : Nat) (bs : Bytes) (t : Tree) (r : Node)
    (h : treeOfWbxml main f lang cs bs = .ok t) (hr : t.root = some r) : r.noMarkupInCdata = true := by
  have := cdata_holds_character_data_only main f lang cs bs t h
  unfold Tree.noMarkupInCdata at this
  rw [hr] at this
  exact this

/-- What `Node.noMarkupInCdata` says at a CDATA node: its children are text nodes and embedded
    documents, and (recursively) its children satisfy the predicate. -/
theorem noMarkupInCdata_cdata (kids : List Node) (h : (Node.cdata kids).noMarkupInCdata = true) :
    (∀ k ∈ kids, (∃ s, k = .text s) ∨ (∃ l c r, k = .tree l c r)) ∧ ∀ k ∈ kids, k.noMarkupInCdata = true := by
  refine ⟨cdata_kids_charData kids h, ?_⟩
  simp only [Node.noMarkupInCdata, Bool.and_eq_true] at h
  have h2 := h.2
  rw [noMarkupInCdataL_eq, List.all_eq_true] at h2
  exact h2

/-- … and at an element / embedded document: it is the predicate on the children / the root. -/
theorem noMarkupInCdata_elt (n : Name) (a : List Attr) (kids : List Node) :
    (Node.elt n a kids).noMarkupInCdata = kids.all Node.noMarkupInCdata := by
  simp only [Node.noMarkupInCdata]; exact noMarkupInCdataL_eq kids

/-- The predicate is not vacuous: it holds of a CDATA node with text, fails for an element or a CDATA
    node inside a CDATA node (at any depth, also inside an embedded document). -/
example : (Node.elt (.literal b!"Data") [] [.cdata [.text b!"abc"]]).noMarkupInCdata = true := by decide
example : (Node.cdata [.text b!"abc", .elt (.literal b!"Meta") [] []]).noMarkupInCdata = false := by decide
example : (Node.elt (.literal b!"Data") [] [.cdata [.cdata []]]).noMarkupInCdata = false := by decide
example : (Node.tree none 106 (some (.cdata [.elt (.literal b!"a") [] []]))).noMarkupInCdata = false := by decide

/-- Events of `<Item><Meta><Type>text/x-vcard</Type></Meta><Data>abc<Meta><Type>text/x-vcard</Type></Meta>
    <Data>x</Data></Data></Item>` — the former witness of CDATA nested through an element. -/
def nestedWitness : List Event :=
  let nItem : Name := .literal b!"Item"
  let nMeta : Name := .literal b!"Meta"
  let nType : Name := .literal b!"Type"
  let nData : Name := .literal b!"Data"
  [ .startDoc 106 2101, .startElt nItem [],
    .startElt nMeta [], .startElt nType [], .chars b!"text/x-vcard", .endElt nType, .endElt nMeta,
    .startElt nData [], .chars b!"abc",
    .startElt nMeta [], .startElt nType [], .chars b!"text/x-vcard", .endElt nType, .endElt nMeta,
    .startElt nData [], .chars b!"x", .endElt nData,
    .endElt nData, .endElt nItem, .endDoc ]

def cdataDepth : Nat → Node → Nat
  | 0, _ => 0
  | f + 1, .cdata kids => 1 + (kids.map (cdataDepth f)).foldl max 0
  | f + 1, .elt _ _ kids => (kids.map (cdataDepth f)).foldl max 0
  | _ + 1, _ => 0

/-- **Regression for the repaired defect.** Before fix eb6f4c7 this event list built a CDATA node
    holding `abc`, the `Meta` element and the inner `Data` element with a second CDATA node (CDATA
    depth 2; `wbxml2xml` printed `<![CDATA[abc<Meta>…<Data><![CDATA[x]]></Data>]]>`, which no XML parser
    accepts). Now the element start closes the section: the outer `Data` element holds the CDATA
    node `abc`, then `Meta`, then the inner `Data` with its own CDATA node — depth 1, and the root
    satisfies `Node.noMarkupInCdata`. -/
theorem cdata_former_witness_fixed :
    ((nestedWitness.foldl (buildStep [] (fun _ _ => none)) {}).root.map (cdataDepth 10)) = some 1 ∧
    ((nestedWitness.foldl (buildStep [] (fun _ _ => none)) {}).root.map Node.noMarkupInCdata) = some true := by
  decide +kernel

/-- The tree built from the former witness, explicitly. -/
example :
    let t (s : Bytes) : Node := .elt (.literal b!"Meta") [] [.elt (.literal b!"Type") [] [.text s]]
    (nestedWitness.foldl (buildStep [] (fun _ _ => none)) {}).root =
      some (Node.elt (.literal b!"Item") [] [t b!"text/x-vcard",
        .elt (.literal b!"Data") [] [.cdata [.text b!"abc"], t b!"text/x-vcard",
          .elt (.literal b!"Data") [] [.cdata [.text b!"x"]]]]) := by
  intro t
  rfl

/-! ## Attributes -/

/-- **What `xml_encode_attr` writes**: a blank, the name, `="`, the escaped value (read as a C string),
    `"` — and the value between the quotes contains no quote and no `<`, and unescapes to exactly
    the C-string value. -/
theorem attr_value_roundtrip (c : XCfg) (a : Attr) (st : XSt) :
    (xmlAttr c a st).out = st.out ++ [32] ++ cstrOf a.name.xmlName ++ b!"=\"" ++
        xmlEscape (c.gen == 2) (cstrOf a.value) ++ [34] ∧
    unescape (xmlEscape (c.gen == 2) (cstrOf a.value)) = cstrOf a.value ∧
    (∀ b ∈ xmlEscape (c.gen == 2) (cstrOf a.value), b ≠ 34 ∧ b ≠ 60) := by
  refine ⟨rfl, unescape_escape _ _, ?_⟩
  intro b hb
  have := escape_has_no_markup _ _ b hb
  simp only [isMarkup, Bool.or_eq_false_iff, beq_eq_false_iff_ne, ne_eq] at this
  exact ⟨this.1.2, this.1.1.1⟩

/-- The whole attribute list of an element: the attributes in order, nothing between them. -/
theorem attr_list_bytes (c : XCfg) (attrs : List Attr) (st : XSt) :
    (attrs.foldl (fun st a => xmlAttr c a st) st).out =
      st.out ++ attrs.flatMap (attrBytes (c.gen == 2)) := by
  rw [xmlAttrs_out]

/-! ## Indentation -/

/-- **No indentation inside an element that has only text.** In indented generation (`gen = 1`,
    any indentation width, any nesting depth `st.indent`), an element all of whose children are
    text nodes is written as: the indentation, `<name`, the namespace declaration if any, the
    attributes, `>`, then *immediately* `texts`, then *immediately* `</name>` and a line feed —
    where `texts` is exactly what compact generation (`gen = 0`, which has no indentation anywhere)
    writes for the children. -/
theorem no_indent_in_text_only_elements (c : XCfg) (parent : Parent) (f : Nat) (name : Name)
    (attrs : List Attr) (kids : List Node) (st st' : XSt) (hk : kids ≠ []) (ht : allText kids = true)
    (h : xmlNode { c with gen := 1 } parent (f + 1) (.elt name attrs kids) st = .ok st') :
    ∃ texts r,
      xmlNodes { c with gen := 0 } (childScope parent name) f kids { st with out := [], curTag := tagOf name } = .ok r ∧
      r.out = texts ∧
      st'.out = st.out ++ spaces (st.indent.toNat * c.delta.toNat) ++ [60] ++ name.xmlName ++
        nsDecl c parent name ++ (if c.lang.attrs.isSome then attrs.flatMap (attrBytes false) else []) ++
        [62] ++ texts ++ b!"</" ++ name.xmlName ++ [62, 10] := by
  have hne : kids.isEmpty = false := by cases kids with | nil => exact absurd rfl hk | cons _ _ => rfl
  have hce := allText_noElt kids ht
  simp only [xmlNode, bind, Except.bind, xmlTag_out, xmlAttrs_out, xmlEndAttrs, xmlEndTag, hne, hce,
    Bool.and_false, Bool.false_eq_true, ↓reduceIte, pure, Except.pure] at h
  split at h
  · cases h
  · rename_i r1 h1
    simp only [Except.ok.injEq] at h
    obtain ⟨x, hx, hp⟩ := xmlNodes_texts c (childScope parent name) kids ht f _ r1 h1
    refine ⟨x, { r1 with out := x }, ?_, rfl, ?_⟩
    · have := hp []
      simp only [List.nil_append] at this
      rw [← this]
      congr 1
      cases c.lang.attrs <;> simp
    · subst h
      simp only [hx]
      cases c.lang.attrs <;> simp [nsDecl, newLine]

/-- One text child: the bytes between `>` and `</` are what `xml_encode_text` appends for it —
    nothing (ignorable white space) or its escaped form. -/
theorem text_piece_shape (c : XCfg) (s : Bytes) (st r : XSt) (h : xmlText c s st = .ok r) :
    ∃ x, r.out = st.out ++ x ∧ ∀ o, xmlText c s { st with out := o } = .ok { r with out := o ++ x } :=
  xmlText_piece c s st r h

/-! ## Namespace declarations (after fix 3c27455)

`xml_encode_tag` declares `xmlns` for a token element whose code page differs from the code page of
the nearest ancestor that is a token element (walking up through literal elements and CDATA nodes),
or that has no such ancestor. Before the fix only a *direct* token parent was compared, so a token
element below a literal element got no declaration and was read in the wrong (or no) namespace;
`namespace_in_scope_matches_page` below was false then (`ns_former_witness_fixed`).

Paths (`List Nat`, child indices) lead through elements and CDATA nodes, not into embedded documents:
those are printed by `xmlNode` as documents of their own — their own language, root scope `.none` —
so every statement below applies to them separately. -/

/-- **(a) The scope is the nearest token-element ancestor.** `scopeAt` walks the tree with an explicit
    scope (`Option Nat`: the page of the nearest token-element ancestor, `none` when there is none).
    Whenever `xmlNode` prints `n` under a scope `p` (for all configurations, fuel, states) and `path`
    leads to the node `m`, then `m` is printed by a call `xmlNode c q g m a` whose scope `q` is a
    proper scope value standing for exactly the page `scopeAt` computes, and what that call has
    written when it returns is an initial part of the whole output. -/
theorem ns_scope_is_nearest_token_ancestor (c : XCfg) (p : Parent) (hp : isScope p = true) (f : Nat) (n : Node)
    (st st' : XSt) (h : xmlNode c p f n st = .ok st') (path : List Nat) (s : Option Nat) (m : Node)
    (hpath : scopeAt (scopePage p) n path = some (s, m)) :
    ∃ q, isScope q = true ∧ scopePage q = s ∧
      ∃ g a b post, xmlNode c q g m a = .ok b ∧ st'.out = b.out ++ post := by
  rw [scopeAt_pathTo] at hpath
  cases hpt : pathTo n path with
  | none => rw [hpt] at hpath; cases hpath
  | some x =>
    rw [hpt] at hpath
    simp only [Option.map_some, Option.some.injEq, Prod.mk.injEq] at hpath
    obtain ⟨hs, hm⟩ := hpath
    refine ⟨x.1.foldl childScope p, foldl_childScope_isScope _ _ hp, ?_, ?_⟩
    · rw [scopePage_foldl]; exact hs
    · rw [← hm]; exact xmlNode_sub c path p f n st st' x.1 x.2 h hpt

/-- … for an element: its start tag, written by `xmlTag` under that scope, is in the output. -/
theorem ns_scope_start_tag (c : XCfg) (p : Parent) (hp : isScope p = true) (f : Nat) (n : Node)
    (st st' : XSt) (h : xmlNode c p f n st = .ok st') (path : List Nat) (s : Option Nat)
    (name : Name) (attrs : List Attr) (kids : List Node)
    (hpath : scopeAt (scopePage p) n path = some (s, .elt name attrs kids)) :
    ∃ q a post, isScope q = true ∧ scopePage q = s ∧ st'.out = (xmlTag c q name a).out ++ post := by
  obtain ⟨q, hq, hs, g, a, b, post, hb, ho⟩ := ns_scope_is_nearest_token_ancestor c p hp f n st st' h path s _ hpath
  obtain ⟨x, hx⟩ := xmlNode_elt_tag c q g name attrs kids a b hb
  exact ⟨q, a, x ++ post, hq, hs, by rw [ho, hx, List.append_assoc]⟩

/-- The explicit scope along a chain of ancestors `names` (outermost first; CDATA nodes do not count):
    the page of the last token name among them, and the scope from above if there is none — and the
    model's `childScope` computes exactly that token element. -/
theorem ns_scope_is_last_token (names : List Name) (s : Option Nat) (p : Parent) :
    names.foldl childPage s = (match lastToken names with | some r => some r.page | none => s) ∧
    names.foldl childScope p = (match lastToken names with | some r => .elt (.token r) | none => p) :=
  ⟨foldl_childPage_last names s, foldl_childScope_last names p⟩

/-- After any chain of literal elements (and CDATA nodes) the scope is still the one from above. -/
theorem ns_scope_unchanged_by_literals (names : List Name) (p : Parent) (h : ∀ n ∈ names, ∃ s, n = .literal s) :
    names.foldl childScope p = p := by
  induction names generalizing p with
  | nil => rfl
  | cons n rest ih =>
    obtain ⟨s, rfl⟩ := h n (List.mem_cons_self ..)
    exact ih p (fun n hn => h n (List.mem_cons_of_mem _ hn))

/-- What `xmlTag` writes, in every case: indentation, `<name`, and the declaration of `declaredNs`. -/
theorem xmlns_declared_bytes (c : XCfg) (p : Parent) (name : Name) (st : XSt) :
    (xmlTag c p name st).out =
      st.out ++ (if c.gen == 1 then spaces (st.indent.toNat * c.delta.toNat) else []) ++ [60] ++ name.xmlName ++
        declBytes (declaredNs c p name) := by
  rw [xmlTag_out, nsDecl_eq]

/-- **(b) `xmlns` is declared exactly when the page differs from the scope's.** In a language with a
    namespace table, the start tag of a token element `r` printed under scope `p` is: indentation,
    `<name`, and ` xmlns="<namespace of r.page>"` exactly when `p` is `.none` or a token element of
    another page (`scopeDiffers`, spelled out in the second part) and the table has a row for the
    page — nothing else. -/
theorem xmlns_declared_iff_page_differs (c : XCfg) (ns : List NsRow) (hns : c.lang.ns = some ns) (p : Parent)
    (r : TagRow) (st : XSt) :
    (xmlTag c p (.token r) st).out =
      st.out ++ (if c.gen == 1 then spaces (st.indent.toNat * c.delta.toNat) else []) ++ [60] ++ r.name ++
        (if scopeDiffers p r.page then
           (match nsOfPageX ns r.page with
            | some n => b!" xmlns=\"" ++ n ++ [34]
            | none => [])
         else []) ∧
    (scopeDiffers p r.page = true ↔ (p = .none ∨ ∃ pr, p = .elt (.token pr) ∧ pr.page ≠ r.page)) := by
  refine ⟨?_, scopeDiffers_iff p r.page⟩
  rw [xmlns_declared_bytes]
  simp only [declaredNs, hns, Name.xmlName]
  cases scopeDiffers p r.page with
  | false => rfl
  | true => cases nsOfPageX ns r.page <;> rfl

/-- Nothing is declared for a literal name … -/
theorem xmlns_not_declared_for_literal (c : XCfg) (p : Parent) (s : Bytes) (st : XSt) :
    (xmlTag c p (.literal s) st).out =
      st.out ++ (if c.gen == 1 then spaces (st.indent.toNat * c.delta.toNat) else []) ++ [60] ++ s := by
  rw [xmlns_declared_bytes]
  cases hns : c.lang.ns <;> simp [declaredNs, hns, declBytes, Name.xmlName]

/-- … nor in a language without namespace table. -/
theorem xmlns_not_declared_without_table (c : XCfg) (hns : c.lang.ns = none) (p : Parent) (name : Name) (st : XSt) :
    (xmlTag c p name st).out =
      st.out ++ (if c.gen == 1 then spaces (st.indent.toNat * c.delta.toNat) else []) ++ [60] ++ name.xmlName := by
  rw [xmlns_declared_bytes]
  simp [declaredNs, hns, declBytes]

/-- The start tag depends on the scope only through the page it stands for. -/
theorem xmlns_depends_on_scope_page_only (c : XCfg) (p q : Parent) (hp : isScope p = true) (hq : isScope q = true)
    (h : scopePage p = scopePage q) (name : Name) (st : XSt) :
    (xmlTag c p name st).out = (xmlTag c q name st).out := by
  rw [xmlns_declared_bytes, xmlns_declared_bytes, declaredNs_congr c p q name hp hq h]

/-- **(c) The namespace in scope is the one of the element's code page.** `nsInScope c .none none names`
    is the default namespace a namespace-aware reader has in scope after the start tags of the
    elements `names` on the way down from the root: each start tag is printed under the scope
    `xmlNode` hands down (`childScope`, theorem (a)), and whenever `xmlTag` declares a namespace there
    (`declaredNs`, the bytes of theorem (b)) it replaces the current one.
    For every tree `root` whose token elements all live on pages with a row in the namespace table
    (`pagesHaveRows`, decidable) and every token element `r` in it (at any `path`, below the elements
    `names`): the namespace in scope inside `r`'s start tag is the namespace of `r`'s page. -/
theorem namespace_in_scope_matches_page (c : XCfg) (ns : List NsRow) (hns : c.lang.ns = some ns) (root : Node)
    (hrows : pagesHaveRows ns root = true) (path : List Nat) (names : List Name) (r : TagRow)
    (attrs : List Attr) (kids : List Node)
    (hpath : pathTo root path = some (names, .elt (.token r) attrs kids)) :
    nsInScope c .none none (names ++ [.token r]) = nsOfPageX ns r.page ∧
    (nsOfPageX ns r.page).isSome = true := by
  obtain ⟨h1, h2⟩ := pathTo_haveRows ns path root names _ hrows hpath
  simp only [pagesHaveRows, Bool.and_eq_true] at h2
  refine ⟨nsInScope_path c ns hns names r ?_, h2.1⟩
  simp only [namesHaveRows, List.all_append, List.all_cons, List.all_nil, Bool.and_true, Bool.and_eq_true]
  exact ⟨h1, h2.1⟩

/-- (c) tied to the bytes: when `xmlNode` prints such a tree from the root (scope `.none`; any
    configuration with that namespace table, any fuel, any state), the start tag of the token element
    `r` at `path` is in the output as `xmlTag` writes it under the scope `q` handed down along the path,
    and with what that tag declares, on top of what the tags above it declare, the namespace in scope
    is the one of `r`'s page. -/
theorem namespace_in_scope_matches_page_printed (c : XCfg) (ns : List NsRow) (hns : c.lang.ns = some ns)
    (root : Node) (hrows : pagesHaveRows ns root = true) (f : Nat) (st st' : XSt)
    (h : xmlNode c .none f root st = .ok st') (path : List Nat) (names : List Name) (r : TagRow)
    (attrs : List Attr) (kids : List Node)
    (hpath : pathTo root path = some (names, .elt (.token r) attrs kids)) :
    ∃ q a post, q = names.foldl childScope .none ∧
      st'.out = (xmlTag c q (.token r) a).out ++ post ∧
      nsAfter c q (nsInScope c .none none names) (.token r) = nsOfPageX ns r.page := by
  obtain ⟨g, a, b, post, hb, ho⟩ := xmlNode_sub c path .none f root st st' names _ h hpath
  obtain ⟨x, hx⟩ := xmlNode_elt_tag c _ g (.token r) attrs kids a b hb
  refine ⟨_, a, x ++ post, rfl, by rw [ho, hx, List.append_assoc], ?_⟩
  rw [← nsInScope_append]
  exact (namespace_in_scope_matches_page c ns hns root hrows path names r attrs kids hpath).1

/-- Path form of (c), without a tree: any chain of ancestors ending in a token element. -/
theorem namespace_in_scope_matches_page_path (c : XCfg) (ns : List NsRow) (hns : c.lang.ns = some ns)
    (names : List Name) (r : TagRow) (hrows : namesHaveRows ns (names ++ [.token r]) = true) :
    nsInScope c .none none (names ++ [.token r]) = nsOfPageX ns r.page :=
  nsInScope_path c ns hns names r hrows

/-- A small language with a namespace table (one page), and the former witness: the literal element
    `X-Custom` with the token child `DSMem`. -/
def nsLang : Lang :=
  { id := 9999, pub := { wbxmlId := 1, xmlId := none, root := some b!"X-Custom", dtd := none },
    tags := some [{ name := b!"DSMem", page := 0, token := 0x0c, opts := 0 }],
    ns := some [{ ns := b!"syncml:devinf", page := 0 }], attrs := none, values := none, exts := none }

def nsCfg : XCfg := { lang := nsLang, gen := 0, delta := 1, ignoreEmpty := true, removeBlanks := true }

def nsWitness : Node :=
  .elt (.literal b!"X-Custom") [] [.elt (.token { name := b!"DSMem", page := 0, token := 0x0c, opts := 0 }) [] [.text b!"text"]]

/-- **Regression for the repaired defect.** `X-Custom[DSMem[text]]`: the token element below the
    literal root now declares the namespace of its page (before fix 3c27455 the output was
    `<X-Custom><DSMem>text</DSMem></X-Custom>`, `DSMem` in no namespace). -/
theorem ns_former_witness_fixed :
    (match xmlNode nsCfg .none 10 nsWitness {} with
     | .ok st => some st.out
     | .error _ => none) = some b!"<X-Custom><DSMem xmlns=\"syncml:devinf\">text</DSMem></X-Custom>" := by
  decide

/-- The former behaviour, for comparison: compared with its direct (literal) parent, the tag declares
    nothing. `xmlNode` no longer produces such a scope value (`isScope`). -/
example : (xmlTag nsCfg (.elt (.literal b!"X-Custom")) (.token { name := b!"DSMem", page := 0, token := 0x0c, opts := 0 }) {}).out
    = b!"<DSMem" := by decide

/-- Non-vacuity of (c): the hypotheses hold of the witness, and the namespace in scope at `DSMem` is
    the declared one. -/
example : pagesHaveRows [{ ns := b!"syncml:devinf", page := 0 }] nsWitness = true ∧
    nsInScope nsCfg .none none [.literal b!"X-Custom", .token { name := b!"DSMem", page := 0, token := 0x0c, opts := 0 }]
      = some b!"syncml:devinf" := by decide
example : pathTo nsWitness [0] = some ([.literal b!"X-Custom"],
      .elt (.token { name := b!"DSMem", page := 0, token := 0x0c, opts := 0 }) [] [.text b!"text"]) := rfl
example : nsInScope nsCfg .none none ([.literal b!"X-Custom"] ++ [.token { name := b!"DSMem", page := 0, token := 0x0c, opts := 0 }])
      = nsOfPageX [{ ns := b!"syncml:devinf", page := 0 }] 0 :=
  (namespace_in_scope_matches_page nsCfg _ rfl nsWitness (by decide) [0] _ _ _ _ rfl).1

/-- The hypothesis of (c) is needed: an element on a page without a row declares nothing and stays in
    its ancestor's namespace. -/
example : pagesHaveRows [{ ns := b!"syncml:devinf", page := 0 }]
      (.elt (.token { name := b!"A", page := 0, token := 5, opts := 0 }) []
        [.elt (.token { name := b!"B", page := 1, token := 5, opts := 0 }) [] []]) = false ∧
    nsInScope nsCfg .none none [.token { name := b!"A", page := 0, token := 5, opts := 0 },
      .token { name := b!"B", page := 1, token := 5, opts := 0 }] = some b!"syncml:devinf" ∧
    nsOfPageX [{ ns := b!"syncml:devinf", page := 0 }] 1 = none := by decide

/-- Two pages, a literal element in between: `B` (page of the nearest token ancestor `A`) declares
    nothing, `C` (another page) declares its namespace, `D` (same page as `C`) nothing. -/
example :
    let t (n : Bytes) (pg : Nat) : Name := .token { name := n, page := pg, token := 5, opts := 0 }
    let l : Lang := { nsLang with ns := some [{ ns := b!"p0", page := 0 }, { ns := b!"p1", page := 1 }] }
    (match xmlNode { nsCfg with lang := l } .none 10
        (.elt (t b!"A" 0) [] [.elt (.literal b!"x") [] [.elt (t b!"B" 0) [] [], .elt (t b!"C" 1) [] [.elt (t b!"D" 1) [] []]]]) {} with
     | .ok st => some st.out
     | .error _ => none) = some b!"<A xmlns=\"p0\"><x><B/><C xmlns=\"p1\"><D/></C></x></A>" := by
  decide

/-! ## DOCTYPE -/

/-- **The DOCTYPE is the language's, exactly as registered**: root element name, then
    `PUBLIC "<public id>" "<DTD>"` for a language with a (non-empty) XML public identifier. -/
theorem doctype_matches_language (lang : Lang) (gen : Nat) (p : Bytes) (hp : lang.pub.xmlId = some p)
    (hne : p ≠ []) :
    xmlHeader lang gen =
      b!"<?xml version=\"1.0\"?>" ++ (if gen == 1 then [10] else []) ++
      b!"<!DOCTYPE " ++ lang.pub.root.getD [] ++ b!" PUBLIC \"" ++ p ++ b!"\" \"" ++ lang.pub.dtd.getD [] ++
      b!"\">" ++ (if gen == 1 then [10] else []) := by
  have : p.isEmpty = false := by cases p with | nil => exact absurd rfl hne | cons _ _ => rfl
  simp [xmlHeader, hp, this, newLine]

/-- … and `SYSTEM "<DTD>"` for a language without one. -/
theorem doctype_system_only (lang : Lang) (gen : Nat) (hp : lang.pub.xmlId = none ∨ lang.pub.xmlId = some []) :
    xmlHeader lang gen =
      b!"<?xml version=\"1.0\"?>" ++ (if gen == 1 then [10] else []) ++
      b!"<!DOCTYPE " ++ lang.pub.root.getD [] ++ b!" SYSTEM \"" ++ lang.pub.dtd.getD [] ++
      b!"\">" ++ (if gen == 1 then [10] else []) := by
  rcases hp with hp | hp <;> simp [xmlHeader, hp, newLine]

/-- The identifiers of that DOCTYPE are recognised back: `wbxml_tables_search_table` on the public
    id the printer wrote selects the first registered entry with that public id (for the
    regenerated tables: the language itself, `Props.C10.gen_doctype_route`). -/
theorem doctype_recognised (main : List Lang) (lang : Lang) (p : Bytes) (hp : lang.pub.xmlId = some p)
    (hl : lang ∈ main) (sysid root : Option Bytes) :
    ∃ l', searchTable main (some p) sysid root = some l' ∧
      main.find? (Wbxml.Lemmas.Ident.pubMatch p) = some l' ∧ Wbxml.Lemmas.Ident.pubMatch p l' = true := by
  have hm : Wbxml.Lemmas.Ident.pubMatch p lang = true := by
    simp [Wbxml.Lemmas.Ident.pubMatch, hp, caseEq]
  cases hf : main.find? (Wbxml.Lemmas.Ident.pubMatch p) with
  | none => exact absurd hm (by simpa using List.find?_eq_none.mp hf lang hl)
  | some l' =>
    refine ⟨l', ?_, rfl, List.find?_some hf⟩
    rw [Wbxml.Lemmas.Ident.searchTable_eq]
    simp [Wbxml.Lemmas.Ident.byPub, hf]


end Wbxml.Props.C05
