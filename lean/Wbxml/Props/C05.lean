/-
  C05 — generated XML is well-formed and denotes exactly the parsed document.
  Theorems about the XML printer model (`Model/EncXml.lean`), for all byte strings.
-/
import Wbxml.Model.EncXml
import Wbxml.Spec.XmlText
namespace Wbxml.Props.C05
open Wbxml Wbxml.Model Wbxml.Spec

/-- What one byte becomes in `xml_encode_text_entities`. -/
def esc1 (canonical : Bool) (ch : UInt8) : Bytes :=
  if ch == 60 then b!"&lt;"
  else if ch == 62 then b!"&gt;"
  else if ch == 38 then b!"&amp;"
  else if ch == 34 then b!"&quot;"
  else if ch == 39 then b!"&apos;"
  else if ch == 13 then b!"&#13;"
  else if ch == 10 && canonical then b!"&#10;"
  else if ch == 9 && canonical then b!"&#9;"
  else [ch]

theorem xmlEscape_cons (c : Bool) (b : UInt8) (s : Bytes) :
    xmlEscape c (b :: s) = esc1 c b ++ xmlEscape c s := by
  simp [xmlEscape, esc1, List.flatMap_cons]

theorem xmlEscape_nil (c : Bool) : xmlEscape c [] = [] := by simp [xmlEscape]

theorem esc1_no_markup (c : Bool) (a : UInt8) : (esc1 c a).all (fun b => !isMarkup b) = true := by
  unfold esc1
  split; · decide
  split; · decide
  split; · decide
  split; · decide
  split; · decide
  split; · decide
  split; · decide
  split; · decide
  rename_i h1 h2 h3 h4 h5 h6 h7 h8
  simp only [List.all_cons, List.all_nil, Bool.and_true, isMarkup]
  simp_all

/-- Escaped text never contains a literal `<`, `>`, `"` or `'`: markup-significant characters are
    always escaped (character data and attribute values alike). -/
theorem escape_has_no_markup (c : Bool) (s : Bytes) : ∀ b ∈ xmlEscape c s, isMarkup b = false := by
  induction s with
  | nil => simp [xmlEscape_nil]
  | cons a s ih =>
    intro b hb
    rw [xmlEscape_cons] at hb
    rcases List.mem_append.mp hb with h | h
    · have := List.all_eq_true.mp (esc1_no_markup c a) b h
      simpa using this
    · exact ih b h

/-- A reader that undoes the escaping gets back exactly the text that was escaped — in every
    generation mode. -/
theorem unescape_escape (c : Bool) (s : Bytes) : unescape (xmlEscape c s) = s := by
  induction s with
  | nil => simp [xmlEscape_nil, unescape]
  | cons a s ih =>
    rw [xmlEscape_cons]
    unfold esc1
    split
    · rename_i h; have : a = 60 := by simpa using h
      subst this; simp [unescape, ih]
    · split
      · rename_i h; have : a = 62 := by simpa using h
        subst this; simp [unescape, ih]
      · split
        · rename_i h; have : a = 38 := by simpa using h
          subst this; simp [unescape, ih]
        · split
          · rename_i h; have : a = 34 := by simpa using h
            subst this; simp [unescape, ih]
          · split
            · rename_i h; have : a = 39 := by simpa using h
              subst this; simp [unescape, ih]
            · split
              · rename_i h
                have : a = 13 := by simpa using h
                subst this; simp [unescape, ih]
              · split
                · rename_i h; simp only [Bool.and_eq_true] at h
                  have : a = 10 := by simpa using h.1
                  subst this; simp [unescape, ih]
                · split
                  · rename_i h; simp only [Bool.and_eq_true] at h
                    have : a = 9 := by simpa using h.1
                    subst this; simp [unescape, ih]
                  · rename_i h1 h2 h3 h4 h5 h6 h7 h8
                    have hne : a ≠ 38 := by simpa using h3
                    simp only [List.singleton_append]
                    rw [unescape]
                    · rw [ih]
                    all_goals (intros; simp_all)

theorem esc1_canonical_no_ws (a : UInt8) : (esc1 true a).all (fun b => b != 13 && b != 10 && b != 9) = true := by
  unfold esc1
  split; · decide
  split; · decide
  split; · decide
  split; · decide
  split; · decide
  split; · decide
  split; · decide
  split; · decide
  simp only [List.all_cons, List.all_nil, Bool.and_true]
  simp_all

/-- A literal CR is never left in escaped text, in any generation mode (it would not survive
    XML's line-end normalisation). -/
theorem escape_has_no_cr (c : Bool) (s : Bytes) : ∀ b ∈ xmlEscape c s, b ≠ 13 := by
  have h1 : ∀ a, (esc1 c a).all (fun b => b != 13) = true := by
    intro a
    unfold esc1
    split; · decide
    split; · decide
    split; · decide
    split; · decide
    split; · decide
    split; · decide
    split; · decide
    split; · decide
    simp only [List.all_cons, List.all_nil, Bool.and_true]
    simp_all
  induction s with
  | nil => simp [xmlEscape_nil]
  | cons a s ih =>
    intro b hb
    rw [xmlEscape_cons] at hb
    rcases List.mem_append.mp hb with h | h
    · have := List.all_eq_true.mp (h1 a) b h
      simpa using this
    · exact ih b h

/-- In canonical generation no literal CR, LF or TAB is left in escaped text (they are written as
    character references and therefore survive XML's line-end and attribute-value normalisation). -/
theorem canonical_escapes_cr_lf_tab (s : Bytes) : ∀ b ∈ xmlEscape true s, b ≠ 13 ∧ b ≠ 10 ∧ b ≠ 9 := by
  induction s with
  | nil => simp [xmlEscape_nil]
  | cons a s ih =>
    intro b hb
    rw [xmlEscape_cons] at hb
    rcases List.mem_append.mp hb with h | h
    · have := List.all_eq_true.mp (esc1_canonical_no_ws a) b h
      simp only [Bool.and_eq_true, bne_iff_ne, ne_eq] at this
      exact ⟨this.1.1, this.1.2, this.2⟩
    · exact ih b h

/-- The document starts with the XML declaration and the language's DOCTYPE. -/
theorem header_has_doctype (lang : Lang) (gen : Nat) :
    (b!"<?xml version=\"1.0\"?>").isPrefixOf (xmlHeader lang gen) = true := by
  simp [xmlHeader, List.isPrefixOf]

example : unescape (xmlEscape false b!"a<b&\"c'>") = b!"a<b&\"c'>" := by decide

end Wbxml.Props.C05
