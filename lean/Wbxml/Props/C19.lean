import Wbxml.Model.Buf
import Wbxml.Model.LList
namespace Wbxml.Props.C19
theorem placeholder : True := trivial
end Wbxml.Props.C19
