/-
  C19 — the byte-buffer and list containers behave as plain sequences.

  Model: `Model/Buf.lean` (the buffer as the C struct sees it: data pointer, len, malloced,
  is_static; every raw access bounds-obligated) and `Model/LList.lean` (cells in a heap).
  Reference: `Spec/Seq.lean` (plain `List UInt8` / `List Nat`).  The theorems below quantify over
  ALL finite operation histories (induction over the operation list in `Lemmas/BufRun.lean`,
  `Lemmas/BufLList.lean`), all byte contents and all positions.

  Two hypotheses appear and are exactly the ones the property text and DESIGN.md name:
  * `Contract` — no `delete` whose range starts inside the contents and extends beyond them
    (outside the documented contract; the model answers `Err.ub` there, see `excluded_delete_is_ub`);
  * `Sized` — every intermediate length stays below 2^32 (`WB_ULONG` is 32 bits).
-/
import Wbxml.Lemmas.BufRun
import Wbxml.Lemmas.BufLList
set_option linter.unusedSimpArgs false
namespace Wbxml.Props.C19
open Wbxml Wbxml.Model Wbxml.Model.Buf Wbxml.Spec.Seq

/-! ### Objects under test come into existence well formed -/

/-- `wbxml_buffer_create(data, len, block)`: never faults, yields a well-formed dynamic buffer
    whose contents are the given bytes (nothing for NULL / empty data). -/
theorem create_ok (src : Option Bytes) (block : Nat) :
    ∃ b, Buf.create src block = .ok b ∧ DynInv b ∧ sOf b = ⟨src.getD [], false⟩ := by
  obtain ⟨b, hb, hr⟩ := rep_create src block
  exact ⟨b, hb, hr.1, by simp [sOf, hr.2, hr.dyn]⟩

/-- `wbxml_buffer_sta_create(data, len)`: a static view of exactly those bytes. -/
theorem sta_create_ok (d : Bytes) : StaInv (staCreate d) ∧ sOf (staCreate d) = ⟨d, true⟩ := by
  have := staCreate_inv d
  exact ⟨this.1, by simp [sOf, staCreate, Buf.abs]⟩

/-! ### Every single operation -/

/-- `op_refines`: for every operation of the header, on every well-formed buffer, inside the
    contract: no fault (in particular no access outside the allocation, no NULL store, no fuel
    exhaustion), the result is well formed again, its contents and the operation's answer are those
    of the plain byte string. -/
theorem op_refines (b : Buf) (h : Inv b) (op : Op) (hx : ¬ excluded (sOf b) op)
    (hsz : b.abs.length < 4294967296) :
    ∃ b' o, b.step op = .ok (b', o) ∧ Inv b' ∧ sOf b' = (Spec.Seq.step codec (sOf b) op).1 ∧
      absOut o = (Spec.Seq.step codec (sOf b) op).2 ∧ OutOK o :=
  step_refines h op hx hsz

/-- The one excluded case really is a fault of the code (the unsigned `len - pos - n` wraps):
    the exclusion is not a convenience of the model. -/
theorem excluded_delete_is_ub (c j : Bytes) (pos n : Nat) (hp : pos < c.length) (hn : n ≠ 0)
    (ho : pos + n > c.length) :
    ∃ w, (canon c j).delete pos n = .error (.ub w) := by
  refine ⟨"delete: range overruns the contents (outside the contract)", ?_⟩
  have h1 : ¬ pos ≥ c.length := by omega
  simp only [Buf.delete, canon, Bool.false_eq_true, if_false, decide_eq_true_eq, Bool.or_eq_true, h1, hn,
    or_self, ho, if_true]

/-! ### Positions out of range -/

/-- Operations that take a position, with that position out of range for a buffer of length `len`. -/
def OutOfRange (len : Nat) : Op → Prop
  | .getChar pos => pos ≥ len
  | .setChar pos _ => pos ≥ len
  | .insert _ pos => pos > len
  | .insertCstr _ pos => pos > len
  | .insertSelf pos => pos > len
  | .delete pos _ => pos ≥ len
  | .searchChar _ pos => pos ≥ len
  | .search _ pos => pos > len
  | .searchCstr _ pos => pos > len
  | _ => False

/-- What such a call answers. -/
def failure : Op → Out
  | .getChar _ => .optByte none
  | .searchChar _ _ => .optNat none
  | .search _ _ => .optNat none
  | .searchCstr _ _ => .optNat none
  | _ => .bool false

/-- `oob_fails_without_effect`: with an out-of-range position every operation fails and the buffer
    is left *identical* (same storage, same length, same capacity). -/
theorem oob_fails_without_effect (b : Buf) (h : Inv b) (op : Op) (ho : OutOfRange b.len op) :
    ∃ o, b.step op = .ok (b, o) ∧ absOut o = failure op := by
  have hv := h.view
  have hlen : b.len = b.abs.length := hv.2
  cases op with
  | getChar pos =>
    have : b.abs[pos]? = none := List.getElem?_eq_none (by rw [← hlen]; exact ho)
    exact ⟨.optByte none, by simp [Buf.step, getChar_view hv, this], rfl⟩
  | setChar pos ch => exact ⟨.bool false, by simp [Buf.step, liftB, setChar_oob pos ch ho], rfl⟩
  | insert a pos =>
    refine ⟨.bool false, ?_, rfl⟩
    rcases ofArg_spec a with ⟨_, hoa⟩ | ⟨s, bs, _, hoa, hvs, _⟩
    · simp [Buf.step, hoa, Buf.insert, liftB]
    · by_cases hs : b.isStatic = true
      · simp [Buf.step, hoa, liftB, insert_static hs]
      · have hs' : b.isStatic = false := by simpa using hs
        simp [Buf.step, hoa, liftB, Buf.insert, hs', contents_view hvs, insertData_refused pos bs (Or.inr ho)]
  | insertCstr s pos =>
    refine ⟨.bool false, ?_, rfl⟩
    cases s with
    | none => simp [Buf.step, Buf.insertCstr, liftB]
    | some s =>
      by_cases hs : b.isStatic = true
      · simp [Buf.step, liftB, insertCstr_static hs]
      · have hs' : b.isStatic = false := by simpa using hs
        simp [Buf.step, liftB, Buf.insertCstr, hs', insertData_refused pos (bufCstrOf s) (Or.inr ho)]
  | insertSelf pos =>
    refine ⟨.bool false, ?_, rfl⟩
    by_cases hs : b.isStatic = true
    · simp [Buf.step, liftB, insertSelf_static hs]
    · have hs' : b.isStatic = false := by simpa using hs
      obtain ⟨d, hd, hr⟩ := duplicate_view hv
      simp [Buf.step, liftB, Buf.insertSelf, hs', hd, contents_view hr.view,
        insertData_refused pos b.abs (Or.inr ho)]
  | delete pos n => exact ⟨.bool false, by simp [Buf.step, liftB, delete_refused pos n (Or.inl ho)], rfl⟩
  | searchChar ch pos =>
    refine ⟨.optNat none, ?_, rfl⟩
    have ho' : b.len ≤ pos := ho
    simp [Buf.step, Buf.searchChar, ho']
  | search a pos =>
    obtain ⟨o, hoa, hc⟩ := search_spec hv a pos
    have hgt : pos > b.abs.length := by rw [← hlen]; exact ho
    have : searchArg b.abs a.bytes pos = none := by
      unfold searchArg; cases a.bytes <;> simp [Spec.Seq.search, hgt]
    exact ⟨.optNat none, by simp [Buf.step, hoa, hc, this], rfl⟩
  | searchCstr s pos =>
    have hgt : pos > b.abs.length := by rw [← hlen]; exact ho
    have : searchArg b.abs (s.map cstr) pos = none := by
      unfold searchArg; cases s <;> simp [Spec.Seq.search, hgt]
    exact ⟨.optNat none, by simp [Buf.step, searchCstr_spec hv s pos, this], rfl⟩
  | len => exact absurd ho (by simp [OutOfRange])
  | getCstr => exact absurd ho (by simp [OutOfRange])
  | duplicate => exact absurd ho (by simp [OutOfRange])
  | appendSelf => exact absurd ho (by simp [OutOfRange])
  | append _ => exact absurd ho (by simp [OutOfRange])
  | appendData _ => exact absurd ho (by simp [OutOfRange])
  | appendCstr _ => exact absurd ho (by simp [OutOfRange])
  | appendChar _ => exact absurd ho (by simp [OutOfRange])
  | appendMb _ => exact absurd ho (by simp [OutOfRange])
  | shrink => exact absurd ho (by simp [OutOfRange])
  | strip => exact absurd ho (by simp [OutOfRange])
  | noSpaces => exact absurd ho (by simp [OutOfRange])
  | rtz => exact absurd ho (by simp [OutOfRange])
  | compare _ => exact absurd ho (by simp [OutOfRange])
  | compareCstr _ => exact absurd ho (by simp [OutOfRange])
  | splitWords => exact absurd ho (by simp [OutOfRange])
  | onlyWs => exact absurd ho (by simp [OutOfRange])
  | hexToBin => exact absurd ho (by simp [OutOfRange])
  | binToHex _ => exact absurd ho (by simp [OutOfRange])
  | decB64 => exact absurd ho (by simp [OutOfRange])
  | encB64 => exact absurd ho (by simp [OutOfRange])

/-! ### Static buffers -/

/-- The operations that change a buffer. -/
def Mutating : Op → Bool
  | .setChar _ _ | .insert _ _ | .insertCstr _ _ | .insertSelf _ | .appendSelf | .append _ | .appendData _ | .appendCstr _
  | .appendChar _ | .appendMb _ | .delete _ _ | .shrink | .strip | .noSpaces | .rtz
  | .hexToBin | .binToHex _ | .decB64 | .encB64 => true
  | _ => false

/-- `static_refuses_mutation`: a static buffer answers every mutation with a refusal and stays
    identical — whatever its contents and whatever the arguments (no invariant is even needed:
    the refusal comes before anything is looked at). -/
theorem static_refuses_mutation (b : Buf) (hs : b.isStatic = true) (op : Op) (hm : Mutating op = true) :
    b.step op = .ok (b, if op = .noSpaces then .unit else .bool false) := by
  by_cases hn : op = .noSpaces
  · subst hn; simp [Buf.step, noSpaces_static hs]
  · simp only [hn, if_false]
    cases hmu : mutate codec [] op with
    | some r => exact step_static_mutate hs [] op r hmu
    | none => cases op <;> simp_all [Mutating, mutate]

/-- …and every other operation leaves any buffer identical (queries have no effect). -/
theorem queries_have_no_effect (b : Buf) (h : Inv b) (op : Op) (hm : Mutating op = false) :
    ∃ o, b.step op = .ok (b, o) ∧ absOut o = query b.abs op := by
  have hq : mutate codec b.abs op = none := by cases op <;> simp_all [Mutating, mutate]
  have hn : op ≠ .noSpaces := by intro e; subst e; simp [Mutating] at hm
  obtain ⟨o, ho, ha, _⟩ := step_query h.view op hq hn
  exact ⟨o, ho, ha⟩

/-! ### All finite histories -/

theorem spec_run_static (s : State) (ops : List Op) :
    (Spec.Seq.run codec s ops).1.isStatic = s.isStatic := by
  induction ops generalizing s with
  | nil => rfl
  | cons op ops ih =>
    simp only [Spec.Seq.run]
    rw [ih]
    unfold Spec.Seq.step
    split
    · split <;> rfl
    · split
      · split <;> rfl
      · rfl

/-- `history_refines` — the main theorem.  After ANY finite sequence of operations inside the
    contract on a well-formed buffer: the model has not faulted, the buffer is well formed, its
    length and contents are those of the plain byte string subjected to the same operations, and
    every answer along the way was the plain string's answer. -/
theorem history_refines (b : Buf) (h : Inv b) (ops : List Op)
    (hc : Contract codec (sOf b) ops) (hs : Sized (sOf b) ops) :
    ∃ b' outs, b.run ops = .ok (b', outs) ∧ Inv b' ∧
      b'.abs = (Spec.Seq.run codec (sOf b) ops).1.bytes ∧ b'.len = b'.abs.length ∧
      b'.isStatic = b.isStatic ∧
      outs.map absOut = (Spec.Seq.run codec (sOf b) ops).2 ∧ ∀ o ∈ outs, OutOK o := by
  obtain ⟨b', outs, hr, hi, hs', ho, hok⟩ := run_refines ops b h hc hs
  refine ⟨b', outs, hr, hi, ?_, hi.view.2, ?_, ho, hok⟩
  · rw [← hs']; rfl
  · have := spec_run_static (sOf b) ops
    rw [← hs'] at this; exact this

/-- From creation: any history on a freshly created dynamic buffer. -/
theorem dynamic_history (src : Option Bytes) (block : Nat) (ops : List Op)
    (hc : Contract codec ⟨src.getD [], false⟩ ops) (hs : Sized ⟨src.getD [], false⟩ ops) :
    ∃ b0 b outs, Buf.create src block = .ok b0 ∧ b0.run ops = .ok (b, outs) ∧ DynInv b ∧
      b.abs = (Spec.Seq.run codec ⟨src.getD [], false⟩ ops).1.bytes ∧ b.len = b.abs.length ∧
      outs.map absOut = (Spec.Seq.run codec ⟨src.getD [], false⟩ ops).2 := by
  obtain ⟨b0, hb0, hi0, hs0⟩ := create_ok src block
  obtain ⟨b, outs, hr, hi, ha, hl, hst, ho, _⟩ := history_refines b0 (Or.inl hi0) ops (by rw [hs0]; exact hc)
    (by rw [hs0]; exact hs)
  rw [hs0] at ha ho
  refine ⟨b0, b, outs, hb0, hr, ?_, ha, hl, ho⟩
  rcases hi with hd | hsta
  · exact hd
  · have : b.isStatic = false := by rw [hst]; exact hi0.1
    rw [hsta.1] at this; exact absurd this (by simp)

/-- `terminator`: whatever the history, a dynamic buffer's storage holds one NUL right after the
    contents, inside the allocation (or there is no storage and the length is 0). -/
theorem terminator (src : Option Bytes) (block : Nat) (ops : List Op)
    (hc : Contract codec ⟨src.getD [], false⟩ ops) (hs : Sized ⟨src.getD [], false⟩ ops) :
    ∃ b0 b outs, Buf.create src block = .ok b0 ∧ b0.run ops = .ok (b, outs) ∧
      ((b.data = none ∧ b.len = 0) ∨
       (∃ m, b.data = some m ∧ m.length = b.malloced ∧ b.len < b.malloced ∧ m[b.len]? = some 0)) := by
  obtain ⟨b0, b, outs, h0, hr, hd, _⟩ := dynamic_history src block ops hc hs
  refine ⟨b0, b, outs, h0, hr, ?_⟩
  obtain ⟨_, hm⟩ := hd
  cases hdata : b.data with
  | none => rw [hdata] at hm; exact Or.inl ⟨rfl, hm.1⟩
  | some m => rw [hdata] at hm; exact Or.inr ⟨m, rfl, hm⟩

/-- `no_ub`: no history inside the contract makes the code touch memory it does not own. -/
theorem no_ub (b : Buf) (h : Inv b) (ops : List Op)
    (hc : Contract codec (sOf b) ops) (hs : Sized (sOf b) ops) :
    ∀ e, b.run ops ≠ .error e := by
  obtain ⟨b', outs, hr, _⟩ := history_refines b h ops hc hs
  intro e he; rw [hr] at he; cases he

/-- Any history on a static buffer leaves its bytes unchanged. -/
theorem static_history (d : Bytes) (ops : List Op) (hs : Sized ⟨d, true⟩ ops) :
    ∃ b outs, (staCreate d).run ops = .ok (b, outs) ∧ b.abs = d ∧ b.isStatic = true := by
  have hsta := sta_create_ok d
  have hc : ∀ (ops : List Op) (s : State), s.isStatic = true → Contract codec s ops := by
    intro ops
    induction ops with
    | nil => intro s _; trivial
    | cons op ops ih =>
      intro s hst
      refine ⟨?_, ih _ (by rw [← spec_run_static s [op]] at hst; simpa [Spec.Seq.run] using hst)⟩
      cases op <;> simp [excluded, hst]
  have hbytes : ∀ (ops : List Op) (s : State), s.isStatic = true → (Spec.Seq.run codec s ops).1.bytes = s.bytes := by
    intro ops
    induction ops with
    | nil => intro s _; rfl
    | cons op ops ih =>
      intro s hst
      have h1 : (Spec.Seq.step codec s op).1 = s := by
        unfold Spec.Seq.step
        split
        · simp [hst]
        · split
          · simp [hst]
          · rfl
      simp only [Spec.Seq.run]
      rw [h1]; exact ih s hst
  obtain ⟨b, outs, hr, _, ha, _, hst, _⟩ := history_refines (staCreate d) (Or.inr hsta.1) ops
    (by rw [hsta.2]; exact hc ops _ rfl) (by rw [hsta.2]; exact hs)
  refine ⟨b, outs, hr, ?_, by rw [hst]; rfl⟩
  rw [ha, hsta.2]; exact hbytes ops _ rfl

/-! ### The reference means what the property says (white-space operations) -/

/-- After shrinking, a white-space byte is a space and is never followed by white space:
    every maximal run became exactly one space (this is what failed for runs of two). -/
theorem shrink_collapses_runs (xs : Bytes) :
    ∀ i, (hi : i < (shrink xs).length) → ws (shrink xs)[i] = true →
      (shrink xs)[i] = 0x20 ∧ (∀ (hj : i + 1 < (shrink xs).length), ws (shrink xs)[i + 1] = false) := by
  have key : ∀ (xs : Bytes) (r : Bool), ∀ i, (hi : i < (shrinkAux r xs).length) → ws (shrinkAux r xs)[i] = true →
      (shrinkAux r xs)[i] = 0x20 ∧ (∀ (hj : i + 1 < (shrinkAux r xs).length), ws (shrinkAux r xs)[i + 1] = false) ∧
      (r = true → i = 0 → False) := by
    intro xs
    induction xs with
    | nil => intro r i hi; simp [shrinkAux] at hi
    | cons x xs ih =>
      intro r i hi hw
      by_cases hx : ws x = true
      · cases r with
        | true =>
          simp only [shrinkAux, hx, if_true] at hi hw ⊢
          simpa using ih true i hi hw
        | false =>
          simp only [shrinkAux, hx, if_true, Bool.false_eq_true, if_false] at hi hw ⊢
          cases i with
          | zero =>
            refine ⟨rfl, ?_, by simp⟩
            intro hj
            simp only [List.length_cons, Nat.zero_add, List.getElem_cons_succ] at hj ⊢
            cases hh : ws (shrinkAux true xs)[0] with
            | false => rfl
            | true => exact ((ih true 0 (by omega) hh).2.2 rfl rfl).elim
          | succ i =>
            simp only [List.length_cons, List.getElem_cons_succ] at hi hw ⊢
            have := ih true i (by omega) hw
            exact ⟨this.1, fun hj => this.2.1 (by omega), by simp⟩
      · have hx' : ws x = false := by simpa using hx
        simp only [shrinkAux, hx', Bool.false_eq_true, if_false] at hi hw ⊢
        cases i with
        | zero => simp [hx'] at hw
        | succ i =>
          simp only [List.length_cons, List.getElem_cons_succ] at hi hw ⊢
          have := ih false i (by omega) hw
          exact ⟨this.1, fun hj => this.2.1 (by omega), by simp⟩
  intro i hi hw
  have := key xs false i hi hw
  exact ⟨this.1, this.2.1⟩

/-! ### Lists -/

/-- A list's length and item order equal those of a plain sequence under any finite history of
    append, insert, get, extract-first (and len); no NULL or freed cell is ever dereferenced; the
    head/tail/len fields stay coherent (`Denotes`). -/
theorem list_history_refines (ops : List LOp) :
    ∃ l outs, LList.create.run ops = .ok (l, outs) ∧ LList.Denotes l (lrun [] ops).1 ∧
      outs = (lrun [] ops).2 ∧ l.len = (lrun [] ops).1.length := by
  obtain ⟨l, outs, hr, hd, ho⟩ := LList.run_refines ops LList.create [] LList.denotes_create
  exact ⟨l, outs, hr, hd, ho, LList.denotes_len hd⟩

/-- …and destroying the list afterwards frees every cell exactly once. -/
theorem list_destroy_ok (ops : List LOp) :
    ∃ l outs l', LList.create.run ops = .ok (l, outs) ∧ l.destroy = .ok l' := by
  obtain ⟨l, outs, hr, hd, _⟩ := list_history_refines ops
  obtain ⟨l', hl'⟩ := LList.destroy_ok hd
  exact ⟨l, outs, l', hr, hl'⟩

/-! ### Non-vacuity: the hypotheses are satisfiable and the model computes -/

example : Contract codec ⟨b!"a  b", false⟩ [.shrink, .delete 1 2, .insert (.dyn b!"xy") 1, .hexToBin] := by
  simp [Contract, excluded, Spec.Seq.step, mutate, shrink, shrinkAux, ws]

example : Sized ⟨b!"a  b", false⟩ [.shrink, .strip] := by
  simp [Sized, Spec.Seq.step, mutate, shrink, shrinkAux, ws]

/-- The pinned tree left "a  b" unchanged; the fixed code (and the model) collapse the run. -/
example : (match Buf.create (some b!"a  b") 4 with
    | .ok b => (match b.run [.shrink] with | .ok (b', _) => some b'.abs | .error _ => none)
    | .error _ => none) = some b!"a b" := by decide +kernel

/-- `hex_to_binary` on the empty buffer (NULL data) is a no-op, not a NULL store. -/
example : (match Buf.nullBuf.hexToBinary with | .ok r => some r | .error _ => none)
    = some (Buf.nullBuf, true) := by decide +kernel

/-- The excluded delete is a fault in the model. -/
example : ∃ w, (Buf.canon b!"abc" []).delete 1 5 = .error (.ub w) :=
  excluded_delete_is_ub b!"abc" [] 1 5 (by decide) (by decide) (by decide)

example : (match LList.create.run [.append 7, .insert 8 0, .insert 9 5, .extractFirst, .get 1] with
    | .ok (_, outs) => some outs | .error _ => none)
    = some [.bool true, .bool true, .bool true, .item (some 8), .item (some 9)] := by decide +kernel

end Wbxml.Props.C19
