/-
  C07 — conversion options change the form of the output, never its meaning.

  WBXML generation side (version, string table, public identifier, source charset):
    * per option: `charset_irrelevant`, `version_only_changes_header`, `anonymous_only_changes_publicid`,
      `strtbl_off_same_text/_attr_value`;
    * all options at once: `enc_opts_same_events` (same node walk ⇒ the very same events: every
      language, typed content, CDATA, embedded documents), `enc_opts_same_meaning` (all 29 languages,
      typed content; any two option tuples with the same white-space option), the older
      `enc_opts_same_meaning_partial` (21 plain languages, no source hypotheses);
    * at TREE level: `strtbl_irrelevant_tree_partial`, `strtbl_off_fails_on_literal`.
  XML generation side (compact / indented / canonical):
    * the printer: `gen_modes_same_markup_partial`, `indent_adds_only_whitespace` (every tree, embedded
      documents included);
    * the reader (Expat as a parameter): `canonical_and_compact_read_back_same_partial`,
      `indent_read_back_same_up_to_blank_text_partial`, `indent_and_compact_read_back_same_norm_partial`.

  All theorems are universally quantified over trees and option tuples and are proved from the
  definitions of `Model/EncWbxml*.lean` / `Model/EncXml.lean` by induction over the tree
  (`Lemmas/EncW*.lean`, `Lemmas/Rt*.lean`).
-/
import Wbxml.Props.C06
import Wbxml.Props.C03
import Wbxml.Lemmas.EncWOpts
import Wbxml.Lemmas.EncWXmlModes
import Wbxml.Lemmas.RtModes
set_option maxRecDepth 100000
namespace Wbxml.Props.C07
open Wbxml Wbxml.Model Wbxml.Spec Wbxml.Lemmas.EncW Wbxml.Lemmas.ParseSer Wbxml.Lemmas.Rt
open Wbxml.Model.Codec (mbEncode)

/-! ## Source character set -/

/-- "An XML source … transcoded between UTF-8, UTF-16 and ISO-8859-1 yields byte-identical WBXML"
    — tree level: the tree's `orig_charset` field is never read by the WBXML encoder (Expat has
    already delivered UTF-8; that part is a parameter of `Model/X2W.lean`). -/
theorem charset_irrelevant (cfg : X2WCfg) (t : Tree) (x : Nat) :
    treeToWbxml cfg { t with origCharset := x } = treeToWbxml cfg t := rfl

/-! ## Version -/

/-- The version is read in exactly two places of the header: octet 0 and the test whether a
    charset field is written. -/
theorem serHeader_version (h : Header) :
    ∃ A B : Bytes, ∀ v, serHeader { h with version := v } =
      byte v :: (A ++ ((if v = 0 then [] else mb h.charset) ++ B)) :=
  ⟨serPubid h.pubid, mb (tblBytes h.strtbl).length ++ tblBytes h.strtbl, fun _ => rfl⟩

/-- "For each WBXML version number … the same document": for a tree without embedded documents
    the outputs for two versions are `serHeader h ++ body` with the SAME body and headers that
    differ only in the version field, i.e. (`serHeader_version`) in octet 0 and in the presence of
    the charset field (absent for 1.0); a run that fails, fails identically.
    (An embedded document is a complete WBXML document of its own and carries the version in its
    own header: `version_changes_embedded_header`.) -/
theorem version_only_changes_header (cfg : X2WCfg) (v : Nat) (t : Tree)
    (hn : ∀ r, t.root = some r → noNested r = true) :
    (∀ bs, treeToWbxml cfg t = .ok bs → ∃ lang st, t.lang = some lang ∧
      bs = serHeader (hdrOf (dcfgOf cfg lang) st) ++ st.out ∧
      treeToWbxml { cfg with version := v } t =
        .ok (serHeader { hdrOf (dcfgOf cfg lang) st with version := v } ++ st.out)) ∧
    (∀ e, treeToWbxml cfg t = .error e → treeToWbxml { cfg with version := v } t = .error e) := by
  have key : ∀ lang r, t.root = some r →
      encNodeG (dcfgOf { cfg with version := v } lang) none true r (docStartW (dcfgOf { cfg with version := v } lang) r) =
        encNodeG (dcfgOf cfg lang) none true r (docStartW (dcfgOf cfg lang) r) := by
    intro lang r hr
    rw [dcfgOf_version_eq, docStartW_version]
    exact (encNodeG_version v).1 _ _ _ _ _ (hn r hr)
  constructor
  · intro bs h
    obtain ⟨lang, r, st, hl, hr, hrun, hbs⟩ := C06.header_is_ser cfg t bs h
    refine ⟨lang, st, hl, hbs, ?_⟩
    obtain ⟨hinv, hno⟩ := doc_final_inv _ r st hrun
    rw [treeToWbxml_eq, hl, hr]
    simp only
    rw [key lang r hr, hrun]
    show Except.ok _ = _
    rw [dcfgOf_version_eq, fillHeaderW_ser _ _ hinv (by simpa using hno), hdrOf_version]
  · intro e h
    rw [treeToWbxml_eq] at h ⊢
    cases hl : t.lang with
    | none => rw [hl] at h; exact h
    | some lang =>
      rw [hl] at h
      simp only at h ⊢
      cases hr : t.root with
      | none => rw [hr] at h; exact h
      | some r =>
        rw [hr] at h
        simp only at h ⊢
        rw [key lang r hr]
        cases hrun : encNodeG (dcfgOf cfg lang) none true r (docStartW (dcfgOf cfg lang) r) with
        | error e' => rw [hrun] at h; exact h
        | ok st => rw [hrun] at h; cases h

/-- `<SyncML>` with an embedded DevInf document. -/
def exNested : Tree where
  lang := some Gen.lang15
  origCharset := 106
  root := some (.elt (.token ⟨b!"SyncML", 0, 0x2D, 0⟩) [] [
    .tree (some Gen.lang16) 106 (some (.elt (.literal b!"x") [] []))])

/-- The hypothesis `noNested` of `version_only_changes_header` is needed: an embedded document is
    a complete WBXML document inside an OPAQUE and carries the version in its own header (octet 8
    below), so the bodies differ. Both forms decode to the same document. -/
theorem version_changes_embedded_header :
    (match treeToWbxml { version := 2 } exNested with | .ok bs => bs | .error _ => []) =
      [0x02, 0xA4, 0x01, 0x6A, 0x00, 0x6D, 0xC3, 0x09, 0x02, 0xA4, 0x03, 0x6A, 0x02, 0x78, 0x00, 0x04, 0x00, 0x01] ∧
    (match treeToWbxml { version := 3 } exNested with | .ok bs => bs | .error _ => []) =
      [0x03, 0xA4, 0x01, 0x6A, 0x00, 0x6D, 0xC3, 0x09, 0x03, 0xA4, 0x03, 0x6A, 0x02, 0x78, 0x00, 0x04, 0x00, 0x01] := by
  decide +kernel

/-- Non-vacuity of `version_only_changes_header`: C06's example tree has no embedded document. -/
example : ∀ r, C06.exTree.root = some r → noNested r = true := by
  intro r h; injection h with h; subst h; decide +kernel

/-! ## Anonymous -/

/-- "With or without the public identifier": the node walk does not look at `produce_anonymous` —
    for EVERY tree the two runs reach the same final encoder state `st`, so the outputs are
    `header ++ st.out` with the same body and the same string table built by the body; only
    `wbxml_fill_header` differs (`C06.header_publicid`, `C06.anonymous_no_pid_string`: the
    identifier becomes `01` and the textual identifier is not added to the table). A run that
    fails, fails identically. -/
theorem anonymous_only_changes_publicid (cfg : X2WCfg) (a : Bool) (t : Tree) :
    (∀ bs, treeToWbxml cfg t = .ok bs → ∃ lang st, t.lang = some lang ∧
      bs = serHeader (hdrOf (dcfgOf cfg lang) st) ++ st.out ∧
      treeToWbxml { cfg with anonymous := a } t =
        .ok (serHeader (hdrOf (dcfgOf { cfg with anonymous := a } lang) st) ++ st.out)) ∧
    (∀ e, treeToWbxml cfg t = .error e → treeToWbxml { cfg with anonymous := a } t = .error e) := by
  have key : ∀ lang r,
      encNodeG (dcfgOf { cfg with anonymous := a } lang) none true r (docStartW (dcfgOf { cfg with anonymous := a } lang) r) =
        encNodeG (dcfgOf cfg lang) none true r (docStartW (dcfgOf cfg lang) r) := by
    intro lang r
    rw [docStartW_core _ _ (dcfgOf_anonymous_core cfg a lang)]
    exact encNodeG_eq_of_core _ _ (dcfgOf_anonymous_core cfg a lang) _ _ _ _
  have huse : ∀ lang, (dcfgOf { cfg with anonymous := a } lang).useStrtbl = (dcfgOf cfg lang).useStrtbl :=
    fun lang => by have := congrArg WCfg.useStrtbl (dcfgOf_anonymous_core cfg a lang); exact this
  constructor
  · intro bs h
    obtain ⟨lang, r, st, hl, hr, hrun, hbs⟩ := C06.header_is_ser cfg t bs h
    refine ⟨lang, st, hl, hbs, ?_⟩
    obtain ⟨hinv, hno⟩ := doc_final_inv _ r st hrun
    rw [treeToWbxml_eq, hl, hr]
    simp only
    rw [key lang r, hrun]
    show Except.ok _ = _
    rw [fillHeaderW_ser _ _ hinv (by rw [huse]; exact hno)]
  · intro e h
    rw [treeToWbxml_eq] at h ⊢
    cases hl : t.lang with
    | none => rw [hl] at h; exact h
    | some lang =>
      rw [hl] at h
      simp only at h ⊢
      cases hr : t.root with
      | none => rw [hr] at h; exact h
      | some r =>
        rw [hr] at h
        simp only at h ⊢
        rw [key lang r]
        cases hrun : encNodeG (dcfgOf cfg lang) none true r (docStartW (dcfgOf cfg lang) r) with
        | error e' => rw [hrun] at h; exact h
        | ok st => rw [hrun] at h; cases h


/-! ## String table on / off -/

/-- "WBXML produced with and without a string table … the same document", character data: for one
    text (any language but Wireless Village / DRMREL, whose typed content is C12's) the items
    written with the string table enabled (whatever it contains at that moment) and the items
    written without it carry the same character data for their readers — both concatenate to
    the text. -/
theorem strtbl_off_same_text (c : WCfg) (parent : Option Name) (s : Bytes) (st₁ st₂ st₁' st₂' : WSt)
    (hs : nulFree s = true) (hl : langOk c.lang = true) (hnw : isWv c.lang.id = false)
    (hnd : (c.lang.id == 1801) = false) (hne : s ≠ [])
    (h₁ : encContentValueW { c with useStrtbl := true } parent s st₁ = .ok st₁')
    (h₂ : encContentValueW { c with useStrtbl := false } parent s st₂ = .ok st₂') :
    ∃ items₁ items₂, st₁' = st₁.emit (serItems items₁) ∧ st₂' = st₂.emit (serItems items₂) ∧
      ∀ ctx₁ ctx₂ : Ctx, Resolves ctx₁.tbl st₁.strtbl → Resolves ctx₂.tbl st₂.strtbl → ∀ own₁ own₂ pg₁ pg₂,
        charsCat (evItems ctx₁ own₁ pg₁ items₁).1 = charsCat (evItems ctx₂ own₂ pg₂ items₂).1 := by
  obtain ⟨i1, e1, t1⟩ := C06.text_preserved { c with useStrtbl := true } parent s st₁ st₁' hs hl hnw hnd h₁
  obtain ⟨i2, e2, t2⟩ := C06.text_preserved { c with useStrtbl := false } parent s st₂ st₂' hs hl hnw hnd h₂
  refine ⟨i1, i2, e1, e2, ?_⟩
  intro ctx₁ ctx₂ r1 r2 o1 o2 p1 p2
  rw [t1 ctx₁ r1 o1 p1 hne, t2 ctx₂ r2 o2 p2 hne]

/-- … and attribute values: with and without string table the reader's value (start-token prefix
    ++ pieces) is the source value, hence the same. -/
theorem strtbl_off_same_attr_value (c : WCfg) (na : Option (List Attr)) (a : Attr) (st₁ st₂ st₁' st₂' : WSt)
    (ha : attrOver c.lang a = true) (attrs : List AttrRow) (hattrs : c.lang.attrs = some attrs)
    (hl : langOk c.lang = true) (hv : valSemOk c.lang = true) (hs : attrSemOk c.lang = true)
    (h₁ : encAttrW { c with useStrtbl := true } na a st₁ = .ok st₁')
    (h₂ : encAttrW { c with useStrtbl := false } na a st₂ = .ok st₂') :
    ∃ sa₁ sa₂ : Attribute, st₁'.out = st₁.out ++ serAttr sa₁ ∧ st₂'.out = st₂.out ++ serAttr sa₂ ∧
      ∀ ctx₁ ctx₂ : Ctx, ctx₁.lang = c.lang → ctx₂.lang = c.lang →
        Resolves ctx₁.tbl st₁'.strtbl → Resolves ctx₂.tbl st₂'.strtbl → opqsAttr sa₁ = [] → opqsAttr sa₂ = [] →
        (astartName ctx₁ st₁.attrPage sa₁.start).2.1 ++
            (avalsText ctx₁ (astartName ctx₁ st₁.attrPage sa₁.start).2.2 sa₁.vals).1 =
        (astartName ctx₂ st₂.attrPage sa₂.start).2.1 ++
            (avalsText ctx₂ (astartName ctx₂ st₂.attrPage sa₂.start).2.2 sa₂.vals).1 := by
  obtain ⟨sa1, o1, v1⟩ := C06.attr_value_preserved { c with useStrtbl := true } na a st₁ st₁' ha attrs hattrs h₁
  obtain ⟨sa2, o2, v2⟩ := C06.attr_value_preserved { c with useStrtbl := false } na a st₂ st₂' ha attrs hattrs h₂
  refine ⟨sa1, sa2, o1, o2, ?_⟩
  intro ctx₁ ctx₂ l1 l2 r1 r2 n1 n2
  rw [v1 ctx₁ l1 hl hv hs r1 n1, v2 ctx₂ l2 hl hv hs r2 n2]

/-!
  `strtbl_off_same_events` — the full-strength statement of DESIGN §5 C07
  (`Spec.events (decode (encWbxml c₁ t)) = Spec.events (decode (encWbxml c₂ t))` for `c₁`, `c₂`
  differing in `useStrtbl`) is FALSE at the level of event lists and is therefore not stated: a text
  that contains a string-table entry is written as several items (`STR_I … STR_T … STR_I …`) and the
  parser reports one `chars` event per item, where the table-less form reports one. The two
  readings agree after the tree builder has merged adjacent character data (`addKid`), i.e. at
  tree level — that is `rt_preserves` (see Props/C03.lean, items 1 and 4 of the note at its end).
  What is proved above is the content of the claim piece by piece: the character data of every text
  (`strtbl_off_same_text`) and every attribute value (`strtbl_off_same_attr_value`) is the same; that
  the element structure, tags and code pages do not involve the string table except for literal
  names, which without string table are refused (error 100) rather than written differently
  (`C06.literals_only_via_strtbl`).
-/


/-! ## All encoder options at once -/

/-- **`enc_opts_same_meaning`** (DESIGN §5 C07) at the level of what a reader reports, `_partial` as
    `C06.denotes_source_partial` (plain trees of the 21 plain languages; kept because it needs NO source
    hypothesis — `enc_opts_same_meaning` below covers all 29 languages and typed content under the four
    finding hypotheses): two option tuples that agree on
    white-space preservation — any versions, string table on or off, with or without public
    identifier — produce outputs whose strict reading (and the parser model's) has the same
    XML-level view: same elements, same attributes and values, same character data. -/
theorem enc_opts_same_meaning_partial (cfg₁ cfg₂ : X2WCfg) (hk : cfg₁.keepWs = cfg₂.keepWs)
    (t : Tree) (bs₁ bs₂ : Bytes) (lang : Lang) (r : Node)
    (hlang : t.lang = some lang) (hroot : t.root = some r)
    (hl : langOk lang = true) (hover : treeOver lang t = true)
    (h₁ : treeToWbxml cfg₁ t = .ok bs₁) (h₂ : treeToWbxml cfg₂ t = .ok bs₂)
    (hpn : plainNode r = true) (hpl : plainLang lang = true) (hnta : noTypedAttr lang.id = true)
    (hvs : valSemOk lang = true) (has : attrSemOk lang = true) (hts : tagSemOk lang = true)
    (han : attrNameSemOk lang = true) :
    ∃ d₁ d₂ : Doc, bs₁ = Spec.ser d₁ ∧ bs₂ = Spec.ser d₂ ∧
      ∀ p₁ p₂ : PCfg, headerLang p₁ d₁.hdr = some lang → headerLang p₂ d₂.hdr = some lang →
        (headerCharset p₁ d₁.hdr = 3 ∨ headerCharset p₁ d₁.hdr = 106) →
        (headerCharset p₂ d₂.hdr = 3 ∨ headerCharset p₂ d₂.hdr = 106) →
        p₁.charsets.contains (headerCharset p₁ d₁.hdr) = true →
        p₂.charsets.contains (headerCharset p₂ d₂.hdr) = true →
        cfg₁.version < 256 → cfg₂.version < 256 → bs₁.length < 4294967296 → bs₂.length < 4294967296 →
        (parse p₁ bs₁).result = .ok () ∧ (parse p₂ bs₂).result = .ok () ∧
        (parse p₁ bs₁).events.flatMap toks = (parse p₂ bs₂).events.flatMap toks := by
  obtain ⟨d₁, e₁, k₁⟩ := C06.denotes_source_partial cfg₁ t bs₁ lang r hlang hroot hl hover h₁ hpn hpl hnta hvs has hts han
  obtain ⟨d₂, e₂, k₂⟩ := C06.denotes_source_partial cfg₂ t bs₂ lang r hlang hroot hl hover h₂ hpn hpl hnta hvs has hts han
  refine ⟨d₁, d₂, e₁, e₂, ?_⟩
  intro p₁ p₂ a₁ a₂ b₁ b₂ c₁ c₂ v₁ v₂ s₁ s₂
  obtain ⟨_, r₁, _, t₁⟩ := k₁ p₁ a₁ b₁ c₁ v₁ s₁
  obtain ⟨_, r₂, _, t₂⟩ := k₂ p₂ a₂ b₂ c₂ v₂ s₂
  refine ⟨r₁, r₂, ?_⟩
  rw [t₁, t₂]
  have f₁ := dcfgOf_view_fields cfg₁ lang
  have f₂ := dcfgOf_view_fields cfg₂ lang
  exact (srcToks_congr _ _ (by simp) (by rw [f₁.1, f₂.1, hk]) (by rw [f₁.2, f₂.2, hk])).1 r


/-! ## Stronger option independence (all 29 languages, typed content, CDATA, embedded documents)

  `sameWalk cfg₁ cfg₂ lang` — the two parameter blocks agree on white-space preservation and on the
  EFFECTIVE string-table switch (`encoder_encode_tree` never uses a string table for Wireless
  Village and OTA settings, so for those three languages every two blocks with the same `keepWs`
  qualify). Then the version and the public identifier are the only things that may differ, and
  they are read by the header only (the version also by embedded documents). -/

/-- **`enc_opts_same_events`: version and public identifier never change the events — every language,
    every kind of content.** For ANY tree over ANY of the 29 languages (typed content, CDATA
    sections; embedded documents when the two versions agree) under the four source hypotheses of
    `C06.enc_is_ser_wf` (each a recorded finding): two option tuples with `sameWalk` write
    documents `d₁`, `d₂` with THE SAME root element (so the bodies are byte-identical) whose headers
    are the headers of the two tuples over one final encoder state; both are accepted by the parser
    under every pair of reader configurations whose header look-up selects the language, and the two
    event lists are EQUAL except for the character set reported by `startDoc` (a version 1.0 header has
    no charset field, so the reader's default applies). No view, no normalisation: the very same
    events. -/
theorem enc_opts_same_events (cfg₁ cfg₂ : X2WCfg) (t : Tree) (bs₁ bs₂ : Bytes) (lang : Lang) (r : Node)
    (hlang : t.lang = some lang) (hroot : t.root = some r)
    (hl : langOk lang = true) (htl : typedLangOk lang = true) (hover : treeOver lang t = true)
    (h₁ : treeToWbxml cfg₁ t = .ok bs₁) (h₂ : treeToWbxml cfg₂ t = .ok bs₂)
    (hsw : sameWalk cfg₁ cfg₂ lang = true) (hn : noNested r = true ∨ cfg₁.version = cfg₂.version)
    (hcdata : noCdataInTyped lang false r = true) (hdt : validDatetimeAttrs lang r = true)
    (hb64 : b64TextDecodes (dcfgOf cfg₁ lang) none r = true)
    (hkv : keyValueTextFirst (dcfgOf cfg₁ lang) none true r = true) :
    ∃ d₁ d₂ : Doc, bs₁ = Spec.ser d₁ ∧ bs₂ = Spec.ser d₂ ∧ d₂.root = d₁.root ∧
      ∀ p₁ p₂ : PCfg, headerLang p₁ d₁.hdr = some lang → headerLang p₂ d₂.hdr = some lang →
        (headerCharset p₁ d₁.hdr = 3 ∨ headerCharset p₁ d₁.hdr = 106) →
        (headerCharset p₂ d₂.hdr = 3 ∨ headerCharset p₂ d₂.hdr = 106) →
        p₁.charsets.contains (headerCharset p₁ d₁.hdr) = true →
        p₂.charsets.contains (headerCharset p₂ d₂.hdr) = true →
        cfg₁.version < 256 → cfg₂.version < 256 → bs₁.length < 4294967296 → bs₂.length < 4294967296 →
        (parse p₁ bs₁).result = .ok () ∧ (parse p₂ bs₂).result = .ok () ∧
        ∃ evs : List Event,
          (parse p₁ bs₁).events = .startDoc (headerCharset p₁ d₁.hdr) lang.id :: (evs ++ [.endDoc]) ∧
          (parse p₂ bs₂).events = .startDoc (headerCharset p₂ d₂.hdr) lang.id :: (evs ++ [.endDoc]) := by
  obtain ⟨r', d₁, st, hr', hres⟩ := treeToWbxml_doc cfg₁ t bs₁ lang hlang hl hover h₁
  rw [hroot] at hr'; injection hr' with hr'; subst hr'
  obtain ⟨d₂, hs₂, hroot₂, _, hk⟩ := hres.sameWalk hl htl hcdata hdt hb64 hkv cfg₂ t bs₂ hlang hroot hsw hn h₂
  refine ⟨d₁, d₂, hres.ser, hs₂, hroot₂, ?_⟩
  intro p₁ p₂ a₁ a₂ b₁ b₂ c₁ c₂ v₁ v₂ s₁ s₂
  have hwf₁ := hres.wfTyped hl htl hcdata hdt hb64 hkv p₁ a₁ b₁ c₁ v₁ s₁
  obtain ⟨hwf₂, evs, e₁, e₂⟩ := hk p₁ p₂ a₁ a₂ b₂ c₂ v₂ s₁ s₂
  have q₁ := Props.C04.parse_ser p₁ d₁ hwf₁
  have q₂ := Props.C04.parse_ser p₂ d₂ hwf₂
  rw [← hres.ser] at q₁
  rw [← hs₂] at q₂
  exact ⟨q₁.1, q₂.1, evs, by rw [q₁.2, e₁], by rw [q₂.2, e₂]⟩

/-- … in particular the XML-level views agree. -/
theorem enc_opts_same_view_of_sameWalk (cfg₁ cfg₂ : X2WCfg) (t : Tree) (bs₁ bs₂ : Bytes) (lang : Lang) (r : Node)
    (hlang : t.lang = some lang) (hroot : t.root = some r)
    (hl : langOk lang = true) (htl : typedLangOk lang = true) (hover : treeOver lang t = true)
    (h₁ : treeToWbxml cfg₁ t = .ok bs₁) (h₂ : treeToWbxml cfg₂ t = .ok bs₂)
    (hsw : sameWalk cfg₁ cfg₂ lang = true) (hn : noNested r = true ∨ cfg₁.version = cfg₂.version)
    (hcdata : noCdataInTyped lang false r = true) (hdt : validDatetimeAttrs lang r = true)
    (hb64 : b64TextDecodes (dcfgOf cfg₁ lang) none r = true)
    (hkv : keyValueTextFirst (dcfgOf cfg₁ lang) none true r = true) :
    ∃ d₁ d₂ : Doc, bs₁ = Spec.ser d₁ ∧ bs₂ = Spec.ser d₂ ∧
      ∀ p₁ p₂ : PCfg, headerLang p₁ d₁.hdr = some lang → headerLang p₂ d₂.hdr = some lang →
        (headerCharset p₁ d₁.hdr = 3 ∨ headerCharset p₁ d₁.hdr = 106) →
        (headerCharset p₂ d₂.hdr = 3 ∨ headerCharset p₂ d₂.hdr = 106) →
        p₁.charsets.contains (headerCharset p₁ d₁.hdr) = true →
        p₂.charsets.contains (headerCharset p₂ d₂.hdr) = true →
        cfg₁.version < 256 → cfg₂.version < 256 → bs₁.length < 4294967296 → bs₂.length < 4294967296 →
        (parse p₁ bs₁).result = .ok () ∧ (parse p₂ bs₂).result = .ok () ∧
        (parse p₁ bs₁).events.flatMap toks = (parse p₂ bs₂).events.flatMap toks := by
  obtain ⟨d₁, d₂, e₁, e₂, _, hk⟩ := enc_opts_same_events cfg₁ cfg₂ t bs₁ bs₂ lang r hlang hroot hl htl hover h₁ h₂
    hsw hn hcdata hdt hb64 hkv
  refine ⟨d₁, d₂, e₁, e₂, ?_⟩
  intro p₁ p₂ a₁ a₂ b₁ b₂ c₁ c₂ v₁ v₂ s₁ s₂
  obtain ⟨r₁, r₂, evs, q₁, q₂⟩ := hk p₁ p₂ a₁ a₂ b₁ b₂ c₁ c₂ v₁ v₂ s₁ s₂
  refine ⟨r₁, r₂, ?_⟩
  rw [q₁, q₂]
  simp only [List.flatMap_cons, toks, List.nil_append]

/-- Wireless Village 1.1/1.2 and OTA settings never use a string table: there `sameWalk` is just
    "same white-space option", so `enc_opts_same_events` covers ALL option tuples. -/
theorem sameWalk_wv_ota (cfg₁ cfg₂ : X2WCfg) (lang : Lang) (hk : cfg₁.keepWs = cfg₂.keepWs)
    (hw : (isWv lang.id || lang.id == 1901) = true) : sameWalk cfg₁ cfg₂ lang = true := by
  have : ∀ cfg : X2WCfg, (dcfgOf cfg lang).useStrtbl = false := by
    intro cfg
    unfold dcfgOf
    rw [deriveCfg_useStrtbl]
    simp only [wcfgOf, hw, ↓reduceIte]
  simp only [sameWalk, hk, this, beq_self_eq_true, Bool.and_self]

/-- … and for every other language it says: same white-space option, same `useStrtbl`. -/
theorem sameWalk_of_fields (cfg₁ cfg₂ : X2WCfg) (lang : Lang) (hk : cfg₁.keepWs = cfg₂.keepWs)
    (hu : cfg₁.useStrtbl = cfg₂.useStrtbl) : sameWalk cfg₁ cfg₂ lang = true := by
  have : (dcfgOf cfg₁ lang).useStrtbl = (dcfgOf cfg₂ lang).useStrtbl := by
    unfold dcfgOf
    rw [deriveCfg_useStrtbl, deriveCfg_useStrtbl]
    show (if (isWv lang.id || lang.id == 1901) = true then false else cfg₁.useStrtbl) = _
    rw [hu]
    rfl
  simp only [sameWalk, hk, this, beq_self_eq_true, Bool.and_self]

/-- Non-vacuity (Wireless Village, typed content): `<Code>0200</Code>` under (1.3, string table asked
    for, public identifier) and (1.1, no string table, anonymous): `sameWalk` holds, all hypotheses
    hold, the octets differ, both parse, and the events after `startDoc` are the same list (the
    integer comes back as `200` in both). -/
example : sameWalk {} { version := 1, useStrtbl := false, anonymous := true } Gen.lang24 = true ∧
    noNested (C06.exWvRoot [.text b!"0200"]) = true ∧
    C06.typedHyps {} Gen.lang24 (C06.exWvRoot [.text b!"0200"]) = true ∧
    C06.outOf {} (C06.exWv [.text b!"0200"]) = [0x03, 0x10, 0x6A, 0x00, 0x49, 0x4B, 0xC3, 0x01, 0xC8, 0x01, 0x01] ∧
    C06.outOf { version := 1, useStrtbl := false, anonymous := true } (C06.exWv [.text b!"0200"]) =
      [0x01, 0x01, 0x6A, 0x00, 0x49, 0x4B, 0xC3, 0x01, 0xC8, 0x01, 0x01] ∧
    (parse { main := Gen.main, langForced := 2301 }
        (C06.outOf { version := 1, useStrtbl := false, anonymous := true } (C06.exWv [.text b!"0200"]))).events.drop 1 =
      (parse C06.exPc (C06.outOf {} (C06.exWv [.text b!"0200"]))).events.drop 1 ∧
    Event.chars b!"200" ∈ (parse C06.exPc (C06.outOf {} (C06.exWv [.text b!"0200"]))).events := by decide +kernel

/-- `<SyncML><![CDATA[a<b]]><x/></SyncML>`-like tree (SyncML 1.2): a CDATA section and a literal element. -/
def exCdata : Tree where
  lang := some Gen.lang15
  origCharset := 106
  root := some (.elt (.token ⟨b!"SyncML", 0, 0x2D, 0⟩) [] [.cdata [.text b!"a<b"], .elt (.literal b!"x") [] []])

/-- Non-vacuity (CDATA section, literal name through the string table, anonymous vs public identifier,
    versions 1.3 and 1.0): same events after `startDoc`. -/
example : sameWalk {} { version := 0, anonymous := true } Gen.lang15 = true ∧
    noNested (C03.rootOr exCdata) = true ∧ C06.typedHyps {} Gen.lang15 (C03.rootOr exCdata) = true ∧
    treeOver Gen.lang15 exCdata = true ∧
    (C06.outOf {} exCdata == C06.outOf { version := 0, anonymous := true } exCdata) = false ∧
    (parse { main := Gen.main, langForced := 2201 } (C06.outOf { version := 0, anonymous := true } exCdata)).events.drop 1 =
      (parse C06.exPc (C06.outOf {} exCdata)).events.drop 1 ∧
    Event.chars b!"a<b" ∈ (parse C06.exPc (C06.outOf {} exCdata)).events := by decide +kernel

/-- **`enc_opts_same_meaning`, all 29 languages, typed content included.** Two option tuples with
    the same white-space option — any versions, string table on or off, with or without public
    identifier — for a tree over ANY language of the library under the four source hypotheses of
    `C06.enc_is_ser_wf` (each a recorded finding): both outputs are accepted by the parser (under every
    pair of reader configurations whose header look-up selects the language) and the two event lists
    have the SAME XML-level view — same elements (names as the reader resolves them), same attributes
    and values, same character data; typed values (`%Datetime` attributes, WV integers and dates,
    base64-carried content, binary elements) are the same octets in both outputs, hence the same
    value. Scope (`hscope`), one of:

    * the two tuples run the same node walk (`sameWalk`: same effective string-table switch — always
      so for Wireless Village and OTA settings) and the tree has no embedded document or the versions
      agree: then ANY tree (CDATA sections included), and the events themselves are equal
      (`enc_opts_same_events`);
    * the tree is plain (no CDATA section, no embedded document): then any two tuples, through the
      typed source view `C06.denotes_source_typed` (`vTree`), which no option but `keepWs` enters.

    What is left `_partial` (not covered by either alternative): CDATA sections or embedded documents
    together with DIFFERENT string-table switches (the view of a CDATA section needs the
    concatenation of the section's text as a function of the source), and embedded documents with
    different versions (`version_changes_embedded_header`: the octets of the OPAQUE differ; its
    meaning is this theorem one level down). -/
theorem enc_opts_same_meaning (cfg₁ cfg₂ : X2WCfg) (hk : cfg₁.keepWs = cfg₂.keepWs)
    (t : Tree) (bs₁ bs₂ : Bytes) (lang : Lang) (r : Node)
    (hlang : t.lang = some lang) (hroot : t.root = some r)
    (hl : langOk lang = true) (htl : typedLangOk lang = true) (hover : treeOver lang t = true)
    (h₁ : treeToWbxml cfg₁ t = .ok bs₁) (h₂ : treeToWbxml cfg₂ t = .ok bs₂)
    (hcdata : noCdataInTyped lang false r = true) (hdt : validDatetimeAttrs lang r = true)
    (hb64 : b64TextDecodes (dcfgOf cfg₁ lang) none r = true)
    (hkv : keyValueTextFirst (dcfgOf cfg₁ lang) none true r = true)
    (hvs : valSemOk lang = true) (has : attrSemOk lang = true) (han : attrNameSemOk lang = true)
    (hscope : (sameWalk cfg₁ cfg₂ lang = true ∧ (noNested r = true ∨ cfg₁.version = cfg₂.version)) ∨
      plainNode r = true) :
    ∃ d₁ d₂ : Doc, bs₁ = Spec.ser d₁ ∧ bs₂ = Spec.ser d₂ ∧
      ∀ p₁ p₂ : PCfg, headerLang p₁ d₁.hdr = some lang → headerLang p₂ d₂.hdr = some lang →
        (headerCharset p₁ d₁.hdr = 3 ∨ headerCharset p₁ d₁.hdr = 106) →
        (headerCharset p₂ d₂.hdr = 3 ∨ headerCharset p₂ d₂.hdr = 106) →
        p₁.charsets.contains (headerCharset p₁ d₁.hdr) = true →
        p₂.charsets.contains (headerCharset p₂ d₂.hdr) = true →
        cfg₁.version < 256 → cfg₂.version < 256 → bs₁.length < 4294967296 → bs₂.length < 4294967296 →
        (parse p₁ bs₁).result = .ok () ∧ (parse p₂ bs₂).result = .ok () ∧
        (parse p₁ bs₁).events.flatMap toks = (parse p₂ bs₂).events.flatMap toks := by
  have hsame : sameWalk cfg₁ cfg₂ lang = true → (noNested r = true ∨ cfg₁.version = cfg₂.version) → _ :=
    fun hsw hn => enc_opts_same_view_of_sameWalk cfg₁ cfg₂ t bs₁ bs₂ lang r hlang hroot hl htl hover h₁ h₂ hsw hn
      hcdata hdt hb64 hkv
  rcases hscope with ⟨hsw, hn⟩ | hpn
  · exact hsame hsw hn
  · by_cases hw : (isWv lang.id || lang.id == 1901) = true
    · exact hsame (sameWalk_wv_ota cfg₁ cfg₂ lang hk hw) (Or.inl (noNested_of_plain r hpn))
    · have hw' : isWv lang.id = false ∧ (lang.id == 1901) = false := by
        simpa using hw
      have f₁ := dcfgOf_view_fields cfg₁ lang
      have f₂ := dcfgOf_view_fields cfg₂ lang
      have hi : (dcfgOf cfg₂ lang).ignoreEmpty = (dcfgOf cfg₁ lang).ignoreEmpty := by rw [f₁.1, f₂.1, hk]
      have hr : (dcfgOf cfg₂ lang).removeBlanks = (dcfgOf cfg₁ lang).removeBlanks := by rw [f₁.2, f₂.2, hk]
      have hb64₂ : b64TextDecodes (dcfgOf cfg₂ lang) none r = true := by
        rw [b64TextDecodes_congr _ _ (by simp) hi hr]; exact hb64
      have hkv₂ : keyValueTextFirst (dcfgOf cfg₂ lang) none true r = true := by
        rw [keyValueTextFirst_congr _ _ (by simp) hi hr]; exact hkv
      obtain ⟨d₁, e₁, k₁⟩ := C06.denotes_source_typed cfg₁ t bs₁ lang r hlang hroot hl htl hover h₁ hcdata hdt hb64 hkv
        hpn hw'.1 hw'.2 hvs has han
      obtain ⟨d₂, e₂, k₂⟩ := C06.denotes_source_typed cfg₂ t bs₂ lang r hlang hroot hl htl hover h₂ hcdata hdt hb64₂ hkv₂
        hpn hw'.1 hw'.2 hvs has han
      refine ⟨d₁, d₂, e₁, e₂, ?_⟩
      intro p₁ p₂ a₁ a₂ b₁ b₂ c₁ c₂ v₁ v₂ s₁ s₂
      obtain ⟨_, r₁, _, t₁⟩ := k₁ p₁ a₁ b₁ c₁ v₁ s₁
      obtain ⟨_, r₂, _, t₂⟩ := k₂ p₂ a₂ b₂ c₂ v₂ s₂
      refine ⟨r₁, r₂, ?_⟩
      rw [t₁, t₂]
      unfold vTree
      rw [vNode_congr _ _ (by simp) hi hr]

/-- The table facts `enc_opts_same_meaning` asks for hold for all 29 languages of the library. -/
theorem main_opts_facts : Gen.main.all (fun l => langOk l && typedLangOk l && valSemOk l && attrSemOk l && attrNameSemOk l) = true := by
  decide +kernel

/-! ### Non-vacuity of `enc_opts_same_meaning` in the languages that are new (string table on vs off) -/

/-- SI 1.0: a `%Datetime` attribute and a text that occurs three times (so it goes to the string table). -/
def exSiRoot : Node :=
  .elt (.token ⟨b!"si", 0, 5, 0⟩) [] [
    .elt (.token ⟨b!"indication", 0, 6, 0⟩) [⟨.token ⟨b!"created", none, 0, 10⟩, b!"1999-06-25T15:23:15Z" ++ [0]⟩]
      [.text b!"hello world hello"],
    .elt (.token ⟨b!"info", 0, 7, 0⟩) [] [
      .elt (.token ⟨b!"item", 0, 8, 0⟩) [⟨.token ⟨b!"class", none, 0, 18⟩, b!"hello world hello" ++ [0]⟩]
        [.text b!"hello world hello"]]]
def exSi : Tree := { lang := some Gen.lang8, origCharset := 106, root := some exSiRoot }

/-- All hypotheses hold; with the string table the text is written once (`83 00`), without it three
    times inline; the `created` value is the same seven BCD octets in both; both outputs parse; both
    views are the typed source view `vTree`, which shows the date-time as text again. -/
example : treeOver Gen.lang8 exSi = true ∧ C06.typedHyps {} Gen.lang8 exSiRoot = true ∧ plainNode exSiRoot = true ∧
    hexOfBytes (C06.outOf {} exSi) =
      "03056a1268656c6c6f20776f726c642068656c6c6f0045c60ac307199906251523150183000147c8128300018300010101" ∧
    hexOfBytes (C06.outOf { useStrtbl := false, version := 1, anonymous := true } exSi) =
      "01016a0045c60ac30719990625152315010368656c6c6f20776f726c642068656c6c6f000147c8120368656c6c6f20776f726c642068656c6c6f00010368656c6c6f20776f726c642068656c6c6f00010101" ∧
    (parse C06.exPc (C06.outOf {} exSi)).events.flatMap toks = vTree (dcfgOf {} Gen.lang8) exSiRoot ∧
    (parse { main := Gen.main, langForced := 1301 }
      (C06.outOf { useStrtbl := false, version := 1, anonymous := true } exSi)).events.flatMap toks =
        vTree (dcfgOf {} Gen.lang8) exSiRoot ∧
    Tok.start b!"indication" [(b!"created", b!"1999-06-25T15:23:15Z" ++ [0])] ∈ vTree (dcfgOf {} Gen.lang8) exSiRoot := by
  decide +kernel

/-- DRMREL: base64 text (with a blank) under `ds:KeyValue`, and a text that occurs twice. -/
def exDrmRoot : Node :=
  .elt (.token ⟨b!"o-ex:rights", 0, 5, 0⟩) [] [
    .elt (.token ⟨b!"ds:KeyValue", 0, 12, 0⟩) [] [.text b!"QU JD"],
    .elt (.token ⟨b!"o-dd:uid", 0, 8, 0⟩) [] [.text b!"cid:4567829547@foo.com"],
    .elt (.token ⟨b!"o-dd:uid", 0, 8, 0⟩) [] [.text b!"cid:4567829547@foo.com"]]
def exDrm : Tree := { lang := some Gen.lang13, origCharset := 106, root := some exDrmRoot }

/-- The key goes out as the OPAQUE `ABC` in both; the view shows its canonical base64 text `QUJD`. -/
example : treeOver Gen.lang13 exDrm = true ∧ C06.typedHyps {} Gen.lang13 exDrmRoot = true ∧ plainNode exDrmRoot = true ∧
    hexOfBytes (C06.outOf {} exDrm) =
      "030e6a176369643a3435363738323935343740666f6f2e636f6d00454cc30341424301488300014883000101" ∧
    hexOfBytes (C06.outOf { useStrtbl := false } exDrm) =
      "030e6a00454cc3034142430148036369643a3435363738323935343740666f6f2e636f6d000148036369643a3435363738323935343740666f6f2e636f6d000101" ∧
    (parse C06.exPc (C06.outOf {} exDrm)).events.flatMap toks = vTree (dcfgOf {} Gen.lang13) exDrmRoot ∧
    (parse C06.exPc (C06.outOf { useStrtbl := false } exDrm)).events.flatMap toks = vTree (dcfgOf {} Gen.lang13) exDrmRoot ∧
    (vTree (dcfgOf {} Gen.lang13) exDrmRoot).take 7 =
      [.start b!"o-ex:rights" [], .start b!"ds:KeyValue" [], .ch 0x51, .ch 0x55, .ch 0x4A, .ch 0x44, .stop b!"ds:KeyValue"] := by
  decide +kernel

/-- ActiveSync: a repeated text, an aliased name (`RequireStorageCardEncryption` shares page 14 token
    16 with `DeviceEncryptionEnabled`), a binary-flagged element as token and as literal name. -/
def exAsRoot : Node :=
  .elt (.token ⟨b!"Sync", 0, 5, 0⟩) [] [
    .elt (.token ⟨b!"SyncKey", 0, 11, 0⟩) [] [.text b!"repeated text here"],
    .elt (.token ⟨b!"ClientId", 0, 12, 0⟩) [] [.text b!"repeated text here"],
    .elt (.token ⟨b!"RequireStorageCardEncryption", 14, 16, 0⟩) [] [.text b!"1"],
    .elt (.token ⟨b!"ConversationId", 15, 32, 1⟩) [] [.text [1, 2, 0, 255]],
    .elt (.literal b!"ConversationId") [] [.text [3, 0, 4]]]
def exAs : Tree := { lang := some Gen.lang27, origCharset := 106, root := some exAsRoot }

example : treeOver Gen.lang27 exAs = true ∧ C06.typedHyps {} Gen.lang27 exAsRoot = true ∧ plainNode exAsRoot = true ∧
    hexOfBytes ((C06.outOf {} exAs).drop 57) = "454b8300014c830001000e5003310001000f60c304010200ff0160c3030300040101" ∧
    (C06.outOf {} exAs == C06.outOf { useStrtbl := false } exAs) = false ∧
    (parse C06.exPc (C06.outOf {} exAs)).events.flatMap toks = vTree (dcfgOf {} Gen.lang27) exAsRoot ∧
    (parse C06.exPc (C06.outOf { useStrtbl := false } exAs)).events.flatMap toks = vTree (dcfgOf {} Gen.lang27) exAsRoot ∧
    Tok.start b!"DeviceEncryptionEnabled" [] ∈ vTree (dcfgOf {} Gen.lang27) exAsRoot := by
  decide +kernel

/-! ## String table on / off at TREE level -/

/-- The normalisation of C03 depends on the options only through the white-space option. -/
theorem normNode_opts (cfg₁ cfg₂ : X2WCfg) (hk : cfg₁.keepWs = cfg₂.keepWs) (lang : Lang) (r : Node)
    (hpn : plainNode r = true) (helt : isElt r = true) (hnames : namesOk lang r = true) :
    normNode (dcfgOf cfg₁ lang) r = normNode (dcfgOf cfg₂ lang) r := by
  have f₁ := dcfgOf_view_fields cfg₁ lang
  have f₂ := dcfgOf_view_fields cfg₂ lang
  have hv : ntoks (normNode (dcfgOf cfg₁ lang) r) = ntoks (normNode (dcfgOf cfg₂ lang) r) := by
    rw [ntoks_normNode _ r hpn (by rw [dcfgOf_lang]; exact hnames),
      ntoks_normNode _ r hpn (by rw [dcfgOf_lang]; exact hnames)]
    exact (srcToks_congr _ _ (by simp) (by rw [f₁.1, f₂.1, hk]) (by rw [f₁.2, f₂.2, hk])).1 r
  have ht : ∀ c, isText (normNode c r) = false := by
    intro c; cases r <;> first | rfl | cases helt
  have := canon_eq_of_ntoks _ _ (nf_normNode (dcfgOf cfg₁ lang) r hpn (isText_of_isElt r helt))
    (nf_normNode (dcfgOf cfg₂ lang) r hpn (isText_of_isElt r helt)) (ht _) (ht _) hv
  rw [canon_normNode, canon_normNode] at this
  exact this

/-- **`strtbl_irrelevant_tree_partial`** ("WBXML produced with and without a string table … decodes to
    the same document", at TREE level, where it is true — on event lists it is false, see above).
    For the class of trees covered by `C03.rt_preserves_partial` (plain tree of a plain language, no
    element called `Data`) and two option tuples with the same white-space option — in particular
    `{cfg with useStrtbl := true}` against `{cfg with useStrtbl := false}`, any versions, with or
    without public identifier — whenever BOTH encodings succeed, `wbxml_tree_from_wbxml` accepts both
    outputs (every reader configuration that selects the language, every fuel) and the two trees
    have the same language and roots that are EQUAL up to `canon` (token vs literal representation
    of names): both are, up to `canon`, the one normalised source tree `normNode … r`.
    When the second encoding can fail while the first succeeds: `strtbl_off_fails_on_literal`. -/
theorem strtbl_irrelevant_tree_partial (cfg₁ cfg₂ : X2WCfg) (hk : cfg₁.keepWs = cfg₂.keepWs)
    (t : Tree) (bs₁ bs₂ : Bytes) (lang : Lang) (r : Node)
    (hlang : t.lang = some lang) (hroot : t.root = some r)
    (hl : langOk lang = true) (hover : treeOver lang t = true)
    (h₁ : treeToWbxml cfg₁ t = .ok bs₁) (h₂ : treeToWbxml cfg₂ t = .ok bs₂)
    (hpn : plainNode r = true) (hpl : plainLang lang = true) (hnta : noTypedAttr lang.id = true)
    (hvs : valSemOk lang = true) (has : attrSemOk lang = true) (hts : tagSemOk lang = true)
    (han : attrNameSemOk lang = true) (hnd : noDataNode r = true) :
    ∃ d₁ d₂ : Doc, bs₁ = Spec.ser d₁ ∧ bs₂ = Spec.ser d₂ ∧
      ∀ (main : List Lang) (f₁ forced₁ meta₁ f₂ forced₂ meta₂ : Nat),
        headerLang (pcfgOf main forced₁ meta₁) d₁.hdr = some lang →
        (headerCharset (pcfgOf main forced₁ meta₁) d₁.hdr = 3 ∨ headerCharset (pcfgOf main forced₁ meta₁) d₁.hdr = 106) →
        headerLang (pcfgOf main forced₂ meta₂) d₂.hdr = some lang →
        (headerCharset (pcfgOf main forced₂ meta₂) d₂.hdr = 3 ∨ headerCharset (pcfgOf main forced₂ meta₂) d₂.hdr = 106) →
        cfg₁.version < 256 → cfg₂.version < 256 → bs₁.length < 4294967296 → bs₂.length < 4294967296 →
        ∃ (t₁ t₂ : Tree) (r₁ r₂ : Node),
          treeOfWbxml main (f₁ + 1) forced₁ meta₁ bs₁ = .ok t₁ ∧ t₁.root = some r₁ ∧
          treeOfWbxml main (f₂ + 1) forced₂ meta₂ bs₂ = .ok t₂ ∧ t₂.root = some r₂ ∧
          t₁.lang = t₂.lang ∧ nfNode r₁ = true ∧ nfNode r₂ = true ∧
          canon r₁ = normNode (dcfgOf cfg₁ lang) r ∧ canon r₂ = normNode (dcfgOf cfg₁ lang) r ∧
          canon r₁ = canon r₂ := by
  obtain ⟨d₁, e₁, k₁⟩ := C03.rt_preserves_partial cfg₁ t bs₁ lang r hlang hroot hl hover h₁ hpn hpl hnta hvs has hts han hnd
  obtain ⟨d₂, e₂, k₂⟩ := C03.rt_preserves_partial cfg₂ t bs₂ lang r hlang hroot hl hover h₂ hpn hpl hnta hvs has hts han hnd
  refine ⟨d₁, d₂, e₁, e₂, ?_⟩
  intro main f₁ forced₁ meta₁ f₂ forced₂ meta₂ a₁ b₁ a₂ b₂ v₁ v₂ s₁ s₂
  obtain ⟨r₁, q₁, _, n₁, c₁, _⟩ := k₁ main f₁ forced₁ meta₁ a₁ b₁ v₁ s₁
  obtain ⟨r₂, q₂, _, n₂, c₂, _⟩ := k₂ main f₂ forced₂ meta₂ a₂ b₂ v₂ s₂
  have hrElt : isElt r = true := by
    simp only [treeOver, hroot, Bool.and_eq_true] at hover; exact hover.1
  have hrOver : nodeOver lang r = true := by
    simp only [treeOver, hroot, Bool.and_eq_true] at hover; exact hover.2
  have hN := normNode_opts cfg₁ cfg₂ hk lang r hpn hrElt (namesOk_of_over lang hts han r hrOver)
  refine ⟨_, _, r₁, r₂, q₁, rfl, q₂, rfl, rfl, n₁, n₂, c₁, by rw [c₂, hN], by rw [c₁, c₂, hN]⟩

/-- `<x/>` as an OMA DM-DDF tree — a name that is not in the tag table. -/
def exLiteral : Tree := C06.exDdf

/-- **When the table-less encoding fails while the other succeeds**: exactly the literal names
    (`C06.literals_only_via_strtbl`: with the string table disabled the body contains no string-table
    index at all). `wbxml_encode_tag_literal` / `wbxml_encode_attr_start_literal` refuse an unknown
    element or attribute name with error 100 (`WBXML_ERROR_STRTBL_DISABLED`) instead of writing it
    another way — witness: `<x/>`, accepted with the string table, refused without. -/
theorem strtbl_off_fails_on_literal :
    (match treeToWbxml { useStrtbl := true } exLiteral with | .ok bs => bs.length | .error _ => 0) = 36 ∧
    C06.errOf ((treeToWbxml { useStrtbl := false } exLiteral).map (fun _ => ())) = 100 := by decide +kernel

/-- Non-vacuity of `strtbl_irrelevant_tree_partial`: C03's WML example (`<card id="a">` with text that is
    trimmed, merged and dropped) satisfies all hypotheses; both encodings succeed with different octets
    (the string table holds `there`/… only in the first); both round-trip trees are the normalised source tree up to `canon`. -/
example : (match treeToWbxml { useStrtbl := true } C03.exWml, treeToWbxml { useStrtbl := false } C03.exWml with
    | .ok b₁, .ok b₂ =>
      (match treeOfWbxml Gen.main (b₁.length + 1) 0 0 b₁, treeOfWbxml Gen.main (b₂.length + 1) 0 0 b₂ with
       | .ok t₁, .ok t₂ =>
         plainEq (canon (C03.rootOr t₁)) (normNode (dcfgOf {} Gen.lang3) C03.exWmlRoot) &&
         plainEq (canon (C03.rootOr t₂)) (normNode (dcfgOf {} Gen.lang3) C03.exWmlRoot) && t₁.lang == t₂.lang
       | _, _ => false)
    | _, _ => false) = true := by decide +kernel

/-! ## XML generation modes -/

/-- "Compact, indented (any indent width) and canonical XML generation … differing only in white
    space between markup": for one tree — ANY tree: CDATA sections and embedded documents (at any
    depth) included — and two parameter blocks that differ in the generation mode and the indent
    width, `wbxml_tree_to_xml` either fails alike or produces ONE sequence of chunks `ch`, written

      `mk bs`   identically in both runs (tags, attribute names, quotes, CDATA brackets, DOCTYPE),
      `txt s`   as `xmlEscape (gen == 2) s` — the same character data, canonical mode also escapes
                LF and TAB,
      `ws a b`  as `a` in the first run and `b` in the second, both consisting of spaces and line
                feeds only (indentation and new lines between markup).

    An embedded document is printed by a duplicated encoder with the same generation mode and
    indent and appended as a C string; the cut at the first NUL octet falls into the same chunk of
    both renderings at the same place (`cutChunks`), so no hypothesis about NUL octets is needed.

    `_partial`: the two modes must take the same white-space decisions on text — both are not
    canonical, or white space is kept (`-k`): canonical generation never trims or drops white-space
    text, compact / indented generation does unless `-k` is given, so for compact-versus-canonical
    without `-k` the character data itself differs (by design of the modes; see
    `canonical_keeps_blank_text` below for the witness). -/
theorem gen_modes_same_markup_partial (cfgA cfgB : W2XCfg) (fuel : Nat) (t : Tree) (hk : cfgA.keepWs = cfgB.keepWs)
    (hc : (cfgA.gen != 2) = (cfgB.gen != 2) ∨ cfgA.keepWs = true) :
    match treeToXml cfgA fuel t, treeToXml cfgB fuel t with
    | .ok xa, .ok xb => ∃ ch : List XChunk, xa = ch.flatMap (rA cfgA.gen) ∧ xb = ch.flatMap (rB cfgB.gen) ∧ WsOk ch
    | .error ea, .error eb => ea = eb
    | _, _ => False :=
  treeToXml_sim cfgA cfgB fuel t hk hc

/-- Indentation only: compact against indented output of any width, EVERY tree (embedded documents
    included) — the character data is byte-identical too (no canonical escaping on either side). -/
theorem indent_adds_only_whitespace (cfg : W2XCfg) (w : UInt8) (fuel : Nat) (t : Tree) :
    match treeToXml { cfg with gen := 0 } fuel t, treeToXml { cfg with gen := 1, indent := w } fuel t with
    | .ok xa, .ok xb => ∃ ch : List XChunk, xa = ch.flatMap (rA 0) ∧ xb = ch.flatMap (rB 1) ∧ WsOk ch
    | .error ea, .error eb => ea = eb
    | _, _ => False :=
  treeToXml_sim { cfg with gen := 0 } { cfg with gen := 1, indent := w } fuel t rfl (Or.inl rfl)

/-- Non-vacuity: C06's example tree printed compact and with indent 2. -/
example :
    (match treeToXml { main := Gen.main, gen := 0 } 10 C06.exTree, treeToXml { main := Gen.main, gen := 1, indent := 2 } 10 C06.exTree with
     | .ok xa, .ok xb => xa.length < xb.length && xa.filter (fun b => !isBlankB b) == xb.filter (fun b => !isBlankB b)
     | _, _ => false) = true := by decide +kernel

/-- `<SyncML>a<DevInf><Man>x &amp; y</Man></DevInf></SyncML>`-like tree with an EMBEDDED DevInf document. -/
def exNestedXml : Tree where
  lang := some Gen.lang15
  origCharset := 106
  root := some (.elt (.token ⟨b!"SyncML", 0, 0x2D, 0⟩) [] [
    .tree (some Gen.lang16) 106 (some (.elt (.literal b!"DevInf") [] [.elt (.literal b!"Man") [] [.text b!"x & y"]]))])

/-- Non-vacuity with an embedded document: compact, indented (width 3) and canonical renderings all
    succeed, differ, and agree once spaces and line feeds are removed. -/
example :
    (match treeToXml { main := Gen.main, gen := 0 } 10 exNestedXml, treeToXml { main := Gen.main, gen := 1, indent := 3 } 10 exNestedXml,
        treeToXml { main := Gen.main, gen := 2 } 10 exNestedXml with
     | .ok xa, .ok xb, .ok xc =>
       xa.length < xb.length && xa.filter (fun b => !isBlankB b) == xb.filter (fun b => !isBlankB b) &&
         xa.filter (fun b => !isBlankB b) == xc.filter (fun b => !isBlankB b) &&
         (xa.drop (xa.length - 46) == b!"<DevInf><Man>x &amp; y</Man></DevInf></SyncML>")
     | _, _, _ => false) = true := by decide +kernel

/-- Why `gen_modes_same_markup_partial` needs its side condition: canonical generation keeps a
    white-space-only text node that compact generation (without `-k`) drops. -/
theorem canonical_keeps_blank_text :
    (match treeToXml { main := Gen.main, gen := 0 } 10 C03.exHollow, treeToXml { main := Gen.main, gen := 2 } 10 C03.exHollow with
     | .ok xa, .ok xc => (xa.drop (xa.length - 24), xc.drop (xc.length - 25))
     | _, _ => ([], [])) = (b!"<wml><card></card></wml>", b!"<wml><card> </card></wml>") := by decide +kernel

/-! ## XML generation modes and the reader (Expat as a parameter, as in C03)

  `ReadsBack env xml c t` (Lemmas/RtSecond.lean) is the one assumption about Expat: the recorded run for
  the text `xml` succeeded and its events are a conforming reading of the tree `t` printed under the
  options `c` (language without namespace table; start / end events with the printed names and
  attributes, character data as printed, in any chunking). -/

/-- **Canonical and compact XML read back to the same tree.** One tree `t'` (root element `r'`, element
    names readable, attribute values without literal TAB / LF — `attrsReadable` for the compact mode)
    is printed compact (`cfgA`; `ReadsBack` itself excludes the indented mode) and canonical (`cfgC`,
    `gen = 2`) with the same white-space option. Under
    `ReadsBack` for BOTH printed texts `wbxml_tree_from_xml` succeeds on both and builds `readNode` of
    `r'` under the respective options, and

    * when white space is kept (`-k`), the two trees are EQUAL — canonical escaping (LF, TAB as
      character references) is undone by the reader, nothing else differs;
    * in general (also without `-k`, where compact drops / trims white-space text and canonical does
      not): for every encoder configuration `wc` of the language whose white-space policy absorbs the
      compact printer's (`flagsOk`, automatically true with `-k`), both trees have the same
      normalisation `normNode wc`, namely that of `r'` (`r'` in normal form, not SyncML).

    `_partial`: the scope of `ReadsBack` (plain trees, languages without namespace table). -/
theorem canonical_and_compact_read_back_same_partial (main : List Lang) (lang : Lang) (cfgA cfgC : W2XCfg)
    (hgC : cfgC.gen = 2) (hk : cfgA.keepWs = cfgC.keepWs)
    (t' : Tree) (r' : Node) (fuelA fuelC k : Nat) (xmlA xmlC : Bytes) (env : List (Bytes × ExpatRun))
    (hroot : t'.root = some r') (hpl : plainLang lang = true) (hdt : docTypeFinds main lang = true)
    (helt : isElt r' = true) (hre : readable r' = true)
    (har : attrsReadable (Lemmas.Rt.xcfgOf cfgA lang) r' = true)
    (hxA : treeToXml cfgA fuelA t' = .ok xmlA) (hxC : treeToXml cfgC fuelC t' = .ok xmlC)
    (hrbA : ReadsBack env xmlA (Lemmas.Rt.xcfgOf cfgA lang) t') (hrbC : ReadsBack env xmlC (Lemmas.Rt.xcfgOf cfgC lang) t') :
    ∃ rA rC : Node,
      treeOfXml main env (k + 1) xmlA = .ok { lang := some lang, origCharset := 0, root := some rA } ∧
      treeOfXml main env (k + 1) xmlC = .ok { lang := some lang, origCharset := 0, root := some rC } ∧
      rA = readNode lang (Lemmas.Rt.xcfgOf cfgA lang) r' ∧ rC = readNode lang (Lemmas.Rt.xcfgOf cfgC lang) r' ∧
      (cfgA.keepWs = true → rA = rC) ∧
      ∀ wc : WCfg, wc.lang = lang → isSyncml lang.id = false → nfNode r' = true →
        (cfgA.keepWs = true ∨ flagsOk (Lemmas.Rt.xcfgOf cfgA lang) wc = true) →
        normNode wc rA = normNode wc rC ∧ normNode wc rA = normNode wc r' := by
  have hC2 : ((Lemmas.Rt.xcfgOf cfgC lang).gen == 2) = true := by simp [Lemmas.Rt.xcfgOf, hgC]
  have harC : attrsReadable (Lemmas.Rt.xcfgOf cfgC lang) r' = true := attrsReadable_canonical _ _ hC2 r' har
  refine ⟨_, _, treeOfXml_readsBack main hpl rfl hdt t' r' hroot hre helt env xmlA (treeToXml_ne_nil cfgA fuelA t' xmlA hxA) hrbA k,
    treeOfXml_readsBack main hpl rfl hdt t' r' hroot hre helt env xmlC (treeToXml_ne_nil cfgC fuelC t' xmlC hxC) hrbC k,
    rfl, rfl, ?_, ?_⟩
  · intro hkeep
    have hkC : cfgC.keepWs = true := by rw [← hk]; exact hkeep
    exact readNode_congr lang (Lemmas.Rt.xcfgOf cfgA lang) (Lemmas.Rt.xcfgOf cfgC lang) rfl r'
      (sameRead_keep (Lemmas.Rt.xcfgOf cfgA lang) (Lemmas.Rt.xcfgOf cfgC lang)
        (by simp [Lemmas.Rt.xcfgOf, hkeep]) (by simp [Lemmas.Rt.xcfgOf, hkeep])
        (by simp [Lemmas.Rt.xcfgOf, hkC]) (by simp [Lemmas.Rt.xcfgOf, hkC]) r' har harC)
  · intro wc hwl hs hnf hflag
    have hfA : flagsOk (Lemmas.Rt.xcfgOf cfgA lang) wc = true := by
      rcases hflag with hkeep | hf
      · simp [flagsOk, Lemmas.Rt.xcfgOf, hkeep]
      · exact hf
    have hfC : flagsOk (Lemmas.Rt.xcfgOf cfgC lang) wc = true := by simp [flagsOk, Lemmas.Rt.xcfgOf, hgC]
    have nA := norm_read_node lang (Lemmas.Rt.xcfgOf cfgA lang) wc hwl (by rw [hwl]; exact hs) hfA r' hnf hre har
    have nC := norm_read_node lang (Lemmas.Rt.xcfgOf cfgC lang) wc hwl (by rw [hwl]; exact hs) hfC r' hnf hre harC
    exact ⟨by rw [nA, nC], nA⟩

/-- **Indentation changes the read-back tree only by blank octets between markup.** The indented
    rendering (`gen = 1`, any width) of `t'` (root `<name attrs>kids</name>`) is read by a conforming
    reader as the markup of `t'` with white space added between markup (`indent_adds_only_whitespace`):
    the reading is a conforming reading of a tree `<name attrs>kidsW</name>` where `kidsW` is `kids`
    as printed plus blank octets — `BlankRelL`: blank-only text nodes inserted between markup, blank
    octets at either end of a text (mixed content: `<card>\nHi there    <b>…`), nothing else; Expat
    merges adjacent character data, so `kidsW` is taken in normal form. That is the assumption
    `ReadsBack env xmlI (keepAll …) { t' with root := … kidsW }`. Then `wbxml_tree_from_xml` succeeds,
    builds `readNode` of that blank-extended tree, and for every encoder configuration `wc` that
    drops and trims white space (the default, no `-k`) its normalisation is the normalisation of the
    printed tree: the added white space does not reach the WBXML document.

    `_partial`: the scope of `ReadsBack`; with `-k` on the encoder side the statement is false by
    design (the indentation white space is kept as text: `indent_read_back_differs_with_keep`). -/
theorem indent_read_back_same_up_to_blank_text_partial (main : List Lang) (lang : Lang) (cfgI : W2XCfg)
    (t' : Tree) (name : Name) (attrs : List Attr) (kids kidsW : List Node) (fuelI k : Nat) (xmlI : Bytes)
    (env : List (Bytes × ExpatRun))
    (hpl : plainLang lang = true) (hdt : docTypeFinds main lang = true)
    (hrel : BlankRelL (Lemmas.Rt.xcfgOf cfgI lang) kids kidsW)
    (hnfW : nfNode (.elt name attrs kidsW) = true) (hreW : readable (.elt name attrs kidsW) = true)
    (harW : attrsReadable (keepAll (Lemmas.Rt.xcfgOf cfgI lang)) (.elt name attrs kidsW) = true)
    (hxI : treeToXml cfgI fuelI t' = .ok xmlI)
    (hrbI : ReadsBack env xmlI (keepAll (Lemmas.Rt.xcfgOf cfgI lang)) { t' with root := some (.elt name attrs kidsW) }) :
    ∃ rI : Node,
      treeOfXml main env (k + 1) xmlI = .ok { lang := some lang, origCharset := 0, root := some rI } ∧
      rI = readNode lang (keepAll (Lemmas.Rt.xcfgOf cfgI lang)) (.elt name attrs kidsW) ∧
      ∀ wc : WCfg, wc.lang = lang → isSyncml lang.id = false → wc.ignoreEmpty = true → wc.removeBlanks = true →
        normNode wc rI = normNode wc (.elt name attrs kidsW) ∧
        normNode wc rI = normNode wc (.elt name attrs kids) := by
  refine ⟨_, treeOfXml_readsBack main hpl rfl hdt _ (.elt name attrs kidsW) rfl hreW rfl env xmlI
    (treeToXml_ne_nil cfgI fuelI t' xmlI hxI) hrbI k, rfl, ?_⟩
  intro wc hwl hs hi hr
  have hf1 : flagsOk (keepAll (Lemmas.Rt.xcfgOf cfgI lang)) wc = true := by simp [flagsOk, keepAll]
  have hf2 : flagsOk (Lemmas.Rt.xcfgOf cfgI lang) wc = true := by simp [flagsOk, hi, hr]
  have n1 := norm_read_node lang (keepAll (Lemmas.Rt.xcfgOf cfgI lang)) wc hwl (by rw [hwl]; exact hs) hf1 _ hnfW hreW harW
  have n2 := blankRel_norm_node (Lemmas.Rt.xcfgOf cfgI lang) wc (by rw [hwl]; exact hs) hf2 hi hr name attrs kids kidsW hrel
  exact ⟨n1, by rw [n1, n2]⟩

/-- … hence the indented and the compact rendering of one tree read back to trees with the same
    normalisation (encoder without `-k`): `wbxml2xml -i n` followed by `xml2wbxml` gives what
    `wbxml2xml` (compact) followed by `xml2wbxml` gives. -/
theorem indent_and_compact_read_back_same_norm_partial (main : List Lang) (lang : Lang) (cfgI cfgA : W2XCfg)
    (t' : Tree) (name : Name) (attrs : List Attr) (kids kidsW : List Node) (fuelI fuelA k : Nat) (xmlI xmlA : Bytes)
    (env : List (Bytes × ExpatRun))
    (hroot : t'.root = some (.elt name attrs kids))
    (hpl : plainLang lang = true) (hdt : docTypeFinds main lang = true)
    (hrel : BlankRelL (Lemmas.Rt.xcfgOf cfgI lang) kids kidsW)
    (hnf : nfNode (.elt name attrs kids) = true) (hre : readable (.elt name attrs kids) = true)
    (har : attrsReadable (Lemmas.Rt.xcfgOf cfgA lang) (.elt name attrs kids) = true)
    (hnfW : nfNode (.elt name attrs kidsW) = true) (hreW : readable (.elt name attrs kidsW) = true)
    (harW : attrsReadable (keepAll (Lemmas.Rt.xcfgOf cfgI lang)) (.elt name attrs kidsW) = true)
    (hxI : treeToXml cfgI fuelI t' = .ok xmlI) (hxA : treeToXml cfgA fuelA t' = .ok xmlA)
    (hrbI : ReadsBack env xmlI (keepAll (Lemmas.Rt.xcfgOf cfgI lang)) { t' with root := some (.elt name attrs kidsW) })
    (hrbA : ReadsBack env xmlA (Lemmas.Rt.xcfgOf cfgA lang) t') :
    ∃ rI rA : Node,
      treeOfXml main env (k + 1) xmlI = .ok { lang := some lang, origCharset := 0, root := some rI } ∧
      treeOfXml main env (k + 1) xmlA = .ok { lang := some lang, origCharset := 0, root := some rA } ∧
      ∀ wc : WCfg, wc.lang = lang → isSyncml lang.id = false → wc.ignoreEmpty = true → wc.removeBlanks = true →
        normNode wc rI = normNode wc rA := by
  obtain ⟨rI, eI, _, nI⟩ := indent_read_back_same_up_to_blank_text_partial main lang cfgI t' name attrs kids kidsW fuelI k xmlI env
    hpl hdt hrel hnfW hreW harW hxI hrbI
  refine ⟨rI, _, eI, treeOfXml_readsBack main hpl rfl hdt t' _ hroot hre rfl env xmlA
    (treeToXml_ne_nil cfgA fuelA t' xmlA hxA) hrbA k, ?_⟩
  intro wc hwl hs hi hr
  have hfA : flagsOk (Lemmas.Rt.xcfgOf cfgA lang) wc = true := by simp [flagsOk, hi, hr]
  rw [(nI wc hwl hs hi hr).2, norm_read_node lang (Lemmas.Rt.xcfgOf cfgA lang) wc hwl (by rw [hwl]; exact hs) hfA _ hnf hre har]

/-! ### Non-vacuity of the read-back theorems -/

/-- `<wml><card id="a">Hi<LF><TAB>there<b>x</b><b>y</b></card></wml>` (WML 1.3, literal names): mixed content,
    a line feed and a TAB in the text (canonical XML writes them as character references). -/
def exRb : Tree where
  lang := some Gen.lang3
  origCharset := 106
  root := some (.elt (.literal b!"wml") [] [
    .elt (.literal b!"card") [{ name := .literal b!"id", value := b!"a" }] [
      .text (b!"Hi" ++ [10, 9] ++ b!"there"), .elt (.literal b!"b") [] [.text b!"x"], .elt (.literal b!"b") [] [.text b!"y"]]])

def outX (cfg : W2XCfg) (t : Tree) : Bytes := match treeToXml cfg 10 t with | .ok x => x | .error _ => []

/-- The recorded Expat runs: for each printed text the canonical conforming reading (`readsBack_canonical`
    says each of them is a `ReadsBack` witness). -/
def envRb (cA cC : W2XCfg) (t : Tree) : List (Bytes × ExpatRun) :=
  [(outX cA t, { ok := true, events := xmlEventsOf (Lemmas.Rt.xcfgOf cA Gen.lang3) t }),
   (outX cC t, { ok := true, events := xmlEventsOf (Lemmas.Rt.xcfgOf cC Gen.lang3) t })]

/-- `canonical_and_compact_read_back_same_partial`, evaluated (white space kept): the table hypotheses,
    `readable`, `attrsReadable` hold; the two printed texts differ (`&#10;&#9;` against the raw octets); both
    are read back successfully, and the two trees are equal. -/
example : plainLang Gen.lang3 = true ∧ docTypeFinds Gen.main Gen.lang3 = true ∧ readable (C03.rootOr exRb) = true ∧
    attrsReadable (Lemmas.Rt.xcfgOf { main := Gen.main, gen := 0, keepWs := true } Gen.lang3) (C03.rootOr exRb) = true ∧
    (outX { main := Gen.main, gen := 0, keepWs := true } exRb).length + 7 =
      (outX { main := Gen.main, gen := 2, keepWs := true } exRb).length ∧
    (match treeOfXml Gen.main (envRb { main := Gen.main, gen := 0, keepWs := true } { main := Gen.main, gen := 2, keepWs := true } exRb) 3
        (outX { main := Gen.main, gen := 0, keepWs := true } exRb),
      treeOfXml Gen.main (envRb { main := Gen.main, gen := 0, keepWs := true } { main := Gen.main, gen := 2, keepWs := true } exRb) 3
        (outX { main := Gen.main, gen := 2, keepWs := true } exRb) with
     | .ok ta, .ok tc => plainEq (C03.rootOr ta) (C03.rootOr tc) && (ta.lang == some Gen.lang3)
     | _, _ => false) = true := by decide +kernel

/-- The example tree of the indentation theorem: mixed content under `card`. -/
def exInd : Tree where
  lang := some Gen.lang3
  origCharset := 106
  root := some (.elt (.literal b!"wml") [] [
    .elt (.literal b!"card") [{ name := .literal b!"id", value := b!"a" }] [
      .text b!"Hi there", .elt (.literal b!"b") [] [.text b!"x"], .elt (.literal b!"b") [] [.text b!"y"]]])

def exIndCfg : W2XCfg := { main := Gen.main, gen := 1, indent := 2 }

/-- Its children with the white space the indented rendering (width 2) adds: a blank text node before
    `card` and before `</wml>`, LF in front of and four spaces behind `Hi there`, blank text nodes before
    the second `b` and before `</card>`. -/
def exIndKidsW : List Node := [
  .text [10, 32, 32],
  .elt (.literal b!"card") [{ name := .literal b!"id", value := b!"a" }] [
    .text ([10] ++ b!"Hi there" ++ [32, 32, 32, 32]), .elt (.literal b!"b") [] [.text b!"x"],
    .text [10, 32, 32, 32, 32], .elt (.literal b!"b") [] [.text b!"y"], .text [10, 32, 32]],
  .text [10]]

def exIndW : Tree := { exInd with root := some (.elt (.literal b!"wml") [] exIndKidsW) }

/-- The blank-extended children are related to the printed children by `BlankRelL`. -/
theorem exInd_blankRel : BlankRelL (Lemmas.Rt.xcfgOf exIndCfg Gen.lang3)
    [.elt (.literal b!"card") [{ name := .literal b!"id", value := b!"a" }] [
      .text b!"Hi there", .elt (.literal b!"b") [] [.text b!"x"], .elt (.literal b!"b") [] [.text b!"y"]]]
    exIndKidsW := by
  refine BlankRelL.ins [10, 32, 32] _ _ (by decide) (BlankRelL.elt _ _ _ _ _ _ ?_ (BlankRelL.ins [10] _ _ (by decide) BlankRelL.nil))
  refine BlankRelL.text b!"Hi there" [10] [32, 32, 32, 32] _ _ (by decide) (by decide) ?_
  refine BlankRelL.elt _ _ _ _ _ _ (BlankRelL.text b!"x" [] [] _ _ (by decide) (by decide) BlankRelL.nil) ?_
  refine BlankRelL.ins [10, 32, 32, 32, 32] _ _ (by decide) ?_
  exact BlankRelL.elt _ _ _ _ _ _ (BlankRelL.text b!"y" [] [] _ _ (by decide) (by decide) BlankRelL.nil)
    (BlankRelL.ins [10, 32, 32] _ _ (by decide) BlankRelL.nil)

/-- `indent_read_back_same_up_to_blank_text_partial`, evaluated: the indented rendering of `exInd` IS, octet
    for octet, the header followed by the white-space-keeping compact rendering of the blank-extended
    tree `exIndW` (so a conforming reader of the one is a conforming reader of the other); `exIndW` is in
    normal form, readable; `wbxml_tree_from_xml` over its canonical reading succeeds, and under the default
    encoder options the tree it builds, the tree built from the compact rendering and the printed tree
    have one and the same normalisation. -/
example : outX exIndCfg exInd =
      xmlHeader Gen.lang3 1 ++ renderNode (keepAll (Lemmas.Rt.xcfgOf exIndCfg Gen.lang3)) (C03.rootOr exIndW) ++ [10] ∧
    nfNode (C03.rootOr exIndW) = true ∧ readable (C03.rootOr exIndW) = true ∧
    attrsReadable (keepAll (Lemmas.Rt.xcfgOf exIndCfg Gen.lang3)) (C03.rootOr exIndW) = true ∧
    (match treeOfXml Gen.main [(outX exIndCfg exInd,
          { ok := true, events := xmlEventsOf (keepAll (Lemmas.Rt.xcfgOf exIndCfg Gen.lang3)) exIndW })] 3 (outX exIndCfg exInd),
        treeOfXml Gen.main [(outX { main := Gen.main, gen := 0 } exInd,
          { ok := true, events := xmlEventsOf (Lemmas.Rt.xcfgOf { main := Gen.main, gen := 0 } Gen.lang3) exInd })] 3
          (outX { main := Gen.main, gen := 0 } exInd) with
     | .ok ti, .ok ta =>
       plainEq (normNode (dcfgOf {} Gen.lang3) (C03.rootOr ti)) (normNode (dcfgOf {} Gen.lang3) (C03.rootOr ta)) &&
       plainEq (normNode (dcfgOf {} Gen.lang3) (C03.rootOr ti)) (normNode (dcfgOf {} Gen.lang3) (C03.rootOr exInd)) &&
       !(plainEq (C03.rootOr ti) (C03.rootOr ta))
     | _, _ => false) = true := by decide +kernel

/-- With `-k` on the encoder side the indentation white space is kept as character data (by design):
    the normalisations under `keepWs := true` differ. -/
theorem indent_read_back_differs_with_keep :
    (match treeOfXml Gen.main [(outX exIndCfg exInd,
          { ok := true, events := xmlEventsOf (keepAll (Lemmas.Rt.xcfgOf exIndCfg Gen.lang3)) exIndW })] 3 (outX exIndCfg exInd) with
     | .ok ti => plainEq (normNode (dcfgOf { keepWs := true } Gen.lang3) (C03.rootOr ti))
         (normNode (dcfgOf { keepWs := true } Gen.lang3) (C03.rootOr exInd))
     | _ => true) = false := by decide +kernel

end Wbxml.Props.C07
