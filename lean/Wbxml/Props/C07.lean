/-
  C07 — conversion options change the form of the output, never its meaning (WBXML generation
  side; the XML generation modes are at the end).

  All theorems are universally quantified over trees and option tuples and are proved from the
  definitions of `Model/EncWbxml*.lean` by induction over the tree (`Lemmas/EncWCfg.lean`,
  `Lemmas/EncWTbl.lean`).
-/
import Wbxml.Props.C06
import Wbxml.Lemmas.EncWXmlModes
set_option maxRecDepth 100000
namespace Wbxml.Props.C07
open Wbxml Wbxml.Model Wbxml.Spec Wbxml.Lemmas.EncW Wbxml.Lemmas.ParseSer
open Wbxml.Model.Codec (mbEncode)

/-! ## Source character set -/

/-- "An XML source … transcoded between UTF-8, UTF-16 and ISO-8859-1 yields byte-identical WBXML"
    — tree level: the tree's `orig_charset` field is never read by the WBXML encoder (Expat has
    already delivered UTF-8; that part is a parameter of `Model/X2W.lean`). -/
theorem charset_irrelevant (cfg : X2WCfg) (t : Tree) (x : Nat) :
    treeToWbxml cfg { t with origCharset := x } = treeToWbxml cfg t := rfl

/-! ## Version -/

/-- The version is read in exactly two places of the header: octet 0 and the test whether a
    charset field is written. -/
theorem serHeader_version (h : Header) :
    ∃ A B : Bytes, ∀ v, serHeader { h with version := v } =
      byte v :: (A ++ ((if v = 0 then [] else mb h.charset) ++ B)) :=
  ⟨serPubid h.pubid, mb (tblBytes h.strtbl).length ++ tblBytes h.strtbl, fun _ => rfl⟩

/-- "For each WBXML version number … the same document": for a tree without embedded documents
    the outputs for two versions are `serHeader h ++ body` with the SAME body and headers that
    differ only in the version field, i.e. (`serHeader_version`) in octet 0 and in the presence of
    the charset field (absent for 1.0); a run that fails, fails identically.
    (An embedded document is a complete WBXML document of its own and carries the version in its
    own header: `version_changes_embedded_header`.) -/
theorem version_only_changes_header (cfg : X2WCfg) (v : Nat) (t : Tree)
    (hn : ∀ r, t.root = some r → noNested r = true) :
    (∀ bs, treeToWbxml cfg t = .ok bs → ∃ lang st, t.lang = some lang ∧
      bs = serHeader (hdrOf (dcfgOf cfg lang) st) ++ st.out ∧
      treeToWbxml { cfg with version := v } t =
        .ok (serHeader { hdrOf (dcfgOf cfg lang) st with version := v } ++ st.out)) ∧
    (∀ e, treeToWbxml cfg t = .error e → treeToWbxml { cfg with version := v } t = .error e) := by
  have key : ∀ lang r, t.root = some r →
      encNodeG (dcfgOf { cfg with version := v } lang) none true r (docStartW (dcfgOf { cfg with version := v } lang) r) =
        encNodeG (dcfgOf cfg lang) none true r (docStartW (dcfgOf cfg lang) r) := by
    intro lang r hr
    rw [dcfgOf_version_eq, docStartW_version]
    exact (encNodeG_version v).1 _ _ _ _ _ (hn r hr)
  constructor
  · intro bs h
    obtain ⟨lang, r, st, hl, hr, hrun, hbs⟩ := C06.header_is_ser cfg t bs h
    refine ⟨lang, st, hl, hbs, ?_⟩
    obtain ⟨hinv, hno⟩ := doc_final_inv _ r st hrun
    rw [treeToWbxml_eq, hl, hr]
    simp only
    rw [key lang r hr, hrun]
    show Except.ok _ = _
    rw [dcfgOf_version_eq, fillHeaderW_ser _ _ hinv (by simpa using hno), hdrOf_version]
  · intro e h
    rw [treeToWbxml_eq] at h ⊢
    cases hl : t.lang with
    | none => rw [hl] at h; exact h
    | some lang =>
      rw [hl] at h
      simp only at h ⊢
      cases hr : t.root with
      | none => rw [hr] at h; exact h
      | some r =>
        rw [hr] at h
        simp only at h ⊢
        rw [key lang r hr]
        cases hrun : encNodeG (dcfgOf cfg lang) none true r (docStartW (dcfgOf cfg lang) r) with
        | error e' => rw [hrun] at h; exact h
        | ok st => rw [hrun] at h; cases h

/-- `<SyncML>` with an embedded DevInf document. -/
def exNested : Tree where
  lang := some Gen.lang15
  origCharset := 106
  root := some (.elt (.token ⟨b!"SyncML", 0, 0x2D, 0⟩) [] [
    .tree (some Gen.lang16) 106 (some (.elt (.literal b!"x") [] []))])

/-- The hypothesis `noNested` of `version_only_changes_header` is needed: an embedded document is
    a complete WBXML document inside an OPAQUE and carries the version in its own header (octet 8
    below), so the bodies differ. Both forms decode to the same document. -/
theorem version_changes_embedded_header :
    (match treeToWbxml { version := 2 } exNested with | .ok bs => bs | .error _ => []) =
      [0x02, 0xA4, 0x01, 0x6A, 0x00, 0x6D, 0xC3, 0x09, 0x02, 0xA4, 0x03, 0x6A, 0x02, 0x78, 0x00, 0x04, 0x00, 0x01] ∧
    (match treeToWbxml { version := 3 } exNested with | .ok bs => bs | .error _ => []) =
      [0x03, 0xA4, 0x01, 0x6A, 0x00, 0x6D, 0xC3, 0x09, 0x03, 0xA4, 0x03, 0x6A, 0x02, 0x78, 0x00, 0x04, 0x00, 0x01] := by
  decide +kernel

/-- Non-vacuity of `version_only_changes_header`: C06's example tree has no embedded document. -/
example : ∀ r, C06.exTree.root = some r → noNested r = true := by
  intro r h; injection h with h; subst h; decide +kernel

/-! ## Anonymous -/

/-- "With or without the public identifier": the node walk does not look at `produce_anonymous` —
    for EVERY tree the two runs reach the same final encoder state `st`, so the outputs are
    `header ++ st.out` with the same body and the same string table built by the body; only
    `wbxml_fill_header` differs (`C06.header_publicid`, `C06.anonymous_no_pid_string`: the
    identifier becomes `01` and the textual identifier is not added to the table). A run that
    fails, fails identically. -/
theorem anonymous_only_changes_publicid (cfg : X2WCfg) (a : Bool) (t : Tree) :
    (∀ bs, treeToWbxml cfg t = .ok bs → ∃ lang st, t.lang = some lang ∧
      bs = serHeader (hdrOf (dcfgOf cfg lang) st) ++ st.out ∧
      treeToWbxml { cfg with anonymous := a } t =
        .ok (serHeader (hdrOf (dcfgOf { cfg with anonymous := a } lang) st) ++ st.out)) ∧
    (∀ e, treeToWbxml cfg t = .error e → treeToWbxml { cfg with anonymous := a } t = .error e) := by
  have key : ∀ lang r,
      encNodeG (dcfgOf { cfg with anonymous := a } lang) none true r (docStartW (dcfgOf { cfg with anonymous := a } lang) r) =
        encNodeG (dcfgOf cfg lang) none true r (docStartW (dcfgOf cfg lang) r) := by
    intro lang r
    rw [docStartW_core _ _ (dcfgOf_anonymous_core cfg a lang)]
    exact encNodeG_eq_of_core _ _ (dcfgOf_anonymous_core cfg a lang) _ _ _ _
  have huse : ∀ lang, (dcfgOf { cfg with anonymous := a } lang).useStrtbl = (dcfgOf cfg lang).useStrtbl :=
    fun lang => by have := congrArg WCfg.useStrtbl (dcfgOf_anonymous_core cfg a lang); exact this
  constructor
  · intro bs h
    obtain ⟨lang, r, st, hl, hr, hrun, hbs⟩ := C06.header_is_ser cfg t bs h
    refine ⟨lang, st, hl, hbs, ?_⟩
    obtain ⟨hinv, hno⟩ := doc_final_inv _ r st hrun
    rw [treeToWbxml_eq, hl, hr]
    simp only
    rw [key lang r, hrun]
    show Except.ok _ = _
    rw [fillHeaderW_ser _ _ hinv (by rw [huse]; exact hno)]
  · intro e h
    rw [treeToWbxml_eq] at h ⊢
    cases hl : t.lang with
    | none => rw [hl] at h; exact h
    | some lang =>
      rw [hl] at h
      simp only at h ⊢
      cases hr : t.root with
      | none => rw [hr] at h; exact h
      | some r =>
        rw [hr] at h
        simp only at h ⊢
        rw [key lang r]
        cases hrun : encNodeG (dcfgOf cfg lang) none true r (docStartW (dcfgOf cfg lang) r) with
        | error e' => rw [hrun] at h; exact h
        | ok st => rw [hrun] at h; cases h


/-! ## String table on / off -/

/-- "WBXML produced with and without a string table … the same document", character data: for one
    text (any language but Wireless Village / DRMREL, whose typed content is C12's) the items
    written with the string table enabled (whatever it contains at that moment) and the items
    written without it carry the same character data for their readers — both concatenate to
    the text. -/
theorem strtbl_off_same_text (c : WCfg) (parent : Option Name) (s : Bytes) (st₁ st₂ st₁' st₂' : WSt)
    (hs : nulFree s = true) (hl : langOk c.lang = true) (hnw : isWv c.lang.id = false)
    (hnd : (c.lang.id == 1801) = false) (hne : s ≠ [])
    (h₁ : encContentValueW { c with useStrtbl := true } parent s st₁ = .ok st₁')
    (h₂ : encContentValueW { c with useStrtbl := false } parent s st₂ = .ok st₂') :
    ∃ items₁ items₂, st₁' = st₁.emit (serItems items₁) ∧ st₂' = st₂.emit (serItems items₂) ∧
      ∀ ctx₁ ctx₂ : Ctx, Resolves ctx₁.tbl st₁.strtbl → Resolves ctx₂.tbl st₂.strtbl → ∀ own₁ own₂ pg₁ pg₂,
        charsCat (evItems ctx₁ own₁ pg₁ items₁).1 = charsCat (evItems ctx₂ own₂ pg₂ items₂).1 := by
  obtain ⟨i1, e1, t1⟩ := C06.text_preserved { c with useStrtbl := true } parent s st₁ st₁' hs hl hnw hnd h₁
  obtain ⟨i2, e2, t2⟩ := C06.text_preserved { c with useStrtbl := false } parent s st₂ st₂' hs hl hnw hnd h₂
  refine ⟨i1, i2, e1, e2, ?_⟩
  intro ctx₁ ctx₂ r1 r2 o1 o2 p1 p2
  rw [t1 ctx₁ r1 o1 p1 hne, t2 ctx₂ r2 o2 p2 hne]

/-- … and attribute values: with and without string table the reader's value (start-token prefix
    ++ pieces) is the source value, hence the same. -/
theorem strtbl_off_same_attr_value (c : WCfg) (na : Option (List Attr)) (a : Attr) (st₁ st₂ st₁' st₂' : WSt)
    (ha : attrOver c.lang a = true) (attrs : List AttrRow) (hattrs : c.lang.attrs = some attrs)
    (hl : langOk c.lang = true) (hv : valSemOk c.lang = true) (hs : attrSemOk c.lang = true)
    (h₁ : encAttrW { c with useStrtbl := true } na a st₁ = .ok st₁')
    (h₂ : encAttrW { c with useStrtbl := false } na a st₂ = .ok st₂') :
    ∃ sa₁ sa₂ : Attribute, st₁'.out = st₁.out ++ serAttr sa₁ ∧ st₂'.out = st₂.out ++ serAttr sa₂ ∧
      ∀ ctx₁ ctx₂ : Ctx, ctx₁.lang = c.lang → ctx₂.lang = c.lang →
        Resolves ctx₁.tbl st₁'.strtbl → Resolves ctx₂.tbl st₂'.strtbl → opqsAttr sa₁ = [] → opqsAttr sa₂ = [] →
        (astartName ctx₁ st₁.attrPage sa₁.start).2.1 ++
            (avalsText ctx₁ (astartName ctx₁ st₁.attrPage sa₁.start).2.2 sa₁.vals).1 =
        (astartName ctx₂ st₂.attrPage sa₂.start).2.1 ++
            (avalsText ctx₂ (astartName ctx₂ st₂.attrPage sa₂.start).2.2 sa₂.vals).1 := by
  obtain ⟨sa1, o1, v1⟩ := C06.attr_value_preserved { c with useStrtbl := true } na a st₁ st₁' ha attrs hattrs h₁
  obtain ⟨sa2, o2, v2⟩ := C06.attr_value_preserved { c with useStrtbl := false } na a st₂ st₂' ha attrs hattrs h₂
  refine ⟨sa1, sa2, o1, o2, ?_⟩
  intro ctx₁ ctx₂ l1 l2 r1 r2 n1 n2
  rw [v1 ctx₁ l1 hl hv hs r1 n1, v2 ctx₂ l2 hl hv hs r2 n2]

/-!
  `strtbl_off_same_events` — the full-strength statement of DESIGN §5 C07
  (`Spec.events (decode (encWbxml c₁ t)) = Spec.events (decode (encWbxml c₂ t))` for `c₁`, `c₂`
  differing in `useStrtbl`) is FALSE at the level of event lists and is therefore not stated: a text
  that contains a string-table entry is written as several items (`STR_I … STR_T … STR_I …`) and the
  parser reports one `chars` event per item, where the table-less form reports one. The two
  readings agree after the tree builder has merged adjacent character data (`addKid`), i.e. at
  tree level — that is `rt_preserves` (see Props/C03.lean, items 1 and 4 of the note at its end).
  What is proved above is the content of the claim piece by piece: the character data of every text
  (`strtbl_off_same_text`) and every attribute value (`strtbl_off_same_attr_value`) is the same; that
  the element structure, tags and code pages do not involve the string table except for literal
  names, which without string table are refused (error 100) rather than written differently
  (`C06.literals_only_via_strtbl`).
-/


/-! ## All encoder options at once -/

/-- **`enc_opts_same_meaning`** (DESIGN §5 C07) at the level of what a reader reports, `_partial` as
    `C06.denotes_source_partial` (plain trees of plain languages): two option tuples that agree on
    white-space preservation — any versions, string table on or off, with or without public
    identifier — produce outputs whose strict reading (and the parser model's) has the same
    XML-level view: same elements, same attributes and values, same character data. -/
theorem enc_opts_same_meaning_partial (cfg₁ cfg₂ : X2WCfg) (hk : cfg₁.keepWs = cfg₂.keepWs)
    (t : Tree) (bs₁ bs₂ : Bytes) (lang : Lang) (r : Node)
    (hlang : t.lang = some lang) (hroot : t.root = some r)
    (hl : langOk lang = true) (hover : treeOver lang t = true)
    (h₁ : treeToWbxml cfg₁ t = .ok bs₁) (h₂ : treeToWbxml cfg₂ t = .ok bs₂)
    (hpn : plainNode r = true) (hpl : plainLang lang = true) (hnta : noTypedAttr lang.id = true)
    (hvs : valSemOk lang = true) (has : attrSemOk lang = true) (hts : tagSemOk lang = true)
    (han : attrNameSemOk lang = true) :
    ∃ d₁ d₂ : Doc, bs₁ = Spec.ser d₁ ∧ bs₂ = Spec.ser d₂ ∧
      ∀ p₁ p₂ : PCfg, headerLang p₁ d₁.hdr = some lang → headerLang p₂ d₂.hdr = some lang →
        (headerCharset p₁ d₁.hdr = 3 ∨ headerCharset p₁ d₁.hdr = 106) →
        (headerCharset p₂ d₂.hdr = 3 ∨ headerCharset p₂ d₂.hdr = 106) →
        p₁.charsets.contains (headerCharset p₁ d₁.hdr) = true →
        p₂.charsets.contains (headerCharset p₂ d₂.hdr) = true →
        cfg₁.version < 256 → cfg₂.version < 256 → bs₁.length < 4294967296 → bs₂.length < 4294967296 →
        (parse p₁ bs₁).result = .ok () ∧ (parse p₂ bs₂).result = .ok () ∧
        (parse p₁ bs₁).events.flatMap toks = (parse p₂ bs₂).events.flatMap toks := by
  obtain ⟨d₁, e₁, k₁⟩ := C06.denotes_source_partial cfg₁ t bs₁ lang r hlang hroot hl hover h₁ hpn hpl hnta hvs has hts han
  obtain ⟨d₂, e₂, k₂⟩ := C06.denotes_source_partial cfg₂ t bs₂ lang r hlang hroot hl hover h₂ hpn hpl hnta hvs has hts han
  refine ⟨d₁, d₂, e₁, e₂, ?_⟩
  intro p₁ p₂ a₁ a₂ b₁ b₂ c₁ c₂ v₁ v₂ s₁ s₂
  obtain ⟨_, r₁, _, t₁⟩ := k₁ p₁ a₁ b₁ c₁ v₁ s₁
  obtain ⟨_, r₂, _, t₂⟩ := k₂ p₂ a₂ b₂ c₂ v₂ s₂
  refine ⟨r₁, r₂, ?_⟩
  rw [t₁, t₂]
  have f₁ := dcfgOf_view_fields cfg₁ lang
  have f₂ := dcfgOf_view_fields cfg₂ lang
  exact (srcToks_congr _ _ (by simp) (by rw [f₁.1, f₂.1, hk]) (by rw [f₁.2, f₂.2, hk])).1 r

/-! ## XML generation modes -/

/-- "Compact, indented (any indent width) and canonical XML generation … differing only in white
    space between markup": for one tree (without embedded documents) and two parameter blocks that
    differ in the generation mode and the indent width, `wbxml_tree_to_xml` either fails alike or
    produces ONE sequence of chunks `ch`, written

      `mk bs`   identically in both runs (tags, attribute names, quotes, CDATA brackets, DOCTYPE),
      `txt s`   as `xmlEscape (gen == 2) s` — the same character data, canonical mode also escapes
                LF and TAB,
      `ws a b`  as `a` in the first run and `b` in the second, both consisting of spaces and line
                feeds only (indentation and new lines between markup).

    `_partial`: (i) the two modes must take the same white-space decisions on text — both are
    not canonical, or white space is kept (`-k`): canonical generation never trims or drops
    white-space text, compact / indented generation does unless `-k` is given, so for
    compact-versus-canonical without `-k` the character data itself differs (by design of the
    modes); (ii) trees without embedded documents (`noNested`): an embedded document is appended
    as a C string, i.e. cut at the first NUL of either rendering — the chunk-wise cut is not
    modelled here. -/
theorem gen_modes_same_markup_partial (cfgA cfgB : W2XCfg) (fuel : Nat) (t : Tree) (hk : cfgA.keepWs = cfgB.keepWs)
    (hc : (cfgA.gen != 2) = (cfgB.gen != 2) ∨ cfgA.keepWs = true)
    (hn : ∀ r, t.root = some r → noNested r = true) :
    match treeToXml cfgA fuel t, treeToXml cfgB fuel t with
    | .ok xa, .ok xb => ∃ ch : List XChunk, xa = ch.flatMap (rA cfgA.gen) ∧ xb = ch.flatMap (rB cfgB.gen) ∧ WsOk ch
    | .error ea, .error eb => ea = eb
    | _, _ => False :=
  treeToXml_sim cfgA cfgB fuel t hk hc hn

/-- Indentation only: compact against indented output of any width — the character data is
    byte-identical too (no canonical escaping on either side). -/
theorem indent_adds_only_whitespace (cfg : W2XCfg) (w : UInt8) (fuel : Nat) (t : Tree)
    (hn : ∀ r, t.root = some r → noNested r = true) :
    match treeToXml { cfg with gen := 0 } fuel t, treeToXml { cfg with gen := 1, indent := w } fuel t with
    | .ok xa, .ok xb => ∃ ch : List XChunk, xa = ch.flatMap (rA 0) ∧ xb = ch.flatMap (rB 1) ∧ WsOk ch
    | .error ea, .error eb => ea = eb
    | _, _ => False :=
  treeToXml_sim { cfg with gen := 0 } { cfg with gen := 1, indent := w } fuel t rfl (Or.inl rfl) hn

/-- Non-vacuity: C06's example tree printed compact and with indent 2. -/
example :
    (match treeToXml { main := Gen.main, gen := 0 } 10 C06.exTree, treeToXml { main := Gen.main, gen := 1, indent := 2 } 10 C06.exTree with
     | .ok xa, .ok xb => xa.length < xb.length && xa.filter (fun b => !isBlankB b) == xb.filter (fun b => !isBlankB b)
     | _, _ => false) = true := by decide +kernel

end Wbxml.Props.C07
