/-
  C20 — the command-line tools report the library's verdict and nothing else.

  All theorems are about `Model.Tool.tool t g lib w argv`: tool `t` (wbxml2xml / xml2wbxml) linked with
  option scanner `g` (attgetopt.c or the C library's getopt), for EVERY library behaviour `lib`, EVERY
  world `w` (stdin, what `fopen` answers for every path, whether the output device stores bytes, the
  `fread` schedule) and EVERY argv made of C strings. The model is tied to the executables by
  `tools/props/c20.py`.
-/
import Wbxml.Lemmas.ToolMain
import Wbxml.Gen.Tables
namespace Wbxml.Props.C20
open Wbxml Wbxml.Model.Tool

/-! ### the option scanner -/

/-- `wbxml_getopt` (attgetopt.c), run to EOF on any argv: never reads outside an argv string or
    dereferences `argv[argc]`, terminates within the model's fuel, and hands `main` an argument with
    every option that is declared with `:`. -/
theorem att_getopt_safe_and_total (opts : Bytes) (argv : Argv) (hn : NulFree argv) :
    ∃ sr, attScan opts argv = .ok sr ∧ ScanOK opts argv sr :=
  attScan_ok opts argv hn

/-- The same contract for the C library's getopt as specified by `gnuScan`. -/
theorem gnu_getopt_contract (opts : Bytes) (argv : Argv) : ScanOK opts argv (gnuScan opts argv) :=
  gnuScan_ok opts argv

theorem scan_ok (t : Tool) (g : Getopt) (argv : Argv) (hn : NulFree argv) :
    ∃ sr, scan g (toolOpts t) argv = .ok sr ∧ ScanOK (toolOpts t) argv sr := by
  cases g with
  | att => exact attScan_ok _ argv hn
  | gnu => exact ⟨_, rfl, gnuScan_ok _ argv⟩

/-- Quirk of attgetopt.c recorded in DESIGN Appendix C: a leading `--` is not an end-of-options marker
    but the illegal option `-`; the C library's getopt treats it as the marker. -/
theorem att_dashdash_is_illegal_option :
    (match attScan (toolOpts .x2w) [b!"p", b!"--", b!"f"] with
      | .ok r => r.evs.map (·.opt) == [63] && r.optind == 2
      | .error _ => false) = true ∧
    ((gnuScan (toolOpts .x2w) [b!"p", b!"--", b!"f"]).evs, (gnuScan (toolOpts .x2w) [b!"p", b!"--", b!"f"]).optind)
      = ([], 2) := by decide

/-- The mid-cluster `--` test of attgetopt.c (`sp != 1` and `argv[optind]` is `--`) can never fire:
    in a state with `sp > 1` the current word has more than two characters. -/
theorem att_midcluster_dashdash_dead (argv : Argv) (st : GState) (hi : Inv argv st) (hsp : st.sp ≠ 1) :
    argv[st.optind]? ≠ some b!"--" := by
  rcases hi.2 with h | ⟨w, hw, h1, h2⟩
  · exact absurd h hsp
  · intro h
    rw [hw] at h
    cases h
    simp at h2
    omega

/-- Every language name `-l` accepts denotes a language of the library's (regenerated) main table. -/
theorem lang_names_are_library_languages :
    langNames.all (fun p => Gen.main.any (fun l => l.id == p.2)) = true := by decide +kernel

/-! ### never_crashes -/

/-- Unknown options, missing arguments, unreadable input, unwritable output — whatever argv, world
    and library: the run ends with an exit status, never in a fault. -/
theorem never_crashes (t : Tool) (g : Getopt) (lib : Lib) (w : World) (argv : Argv) (hn : NulFree argv) :
    ∃ o, tool t g lib w argv = .done o := by
  obtain ⟨sr, hs, hok⟩ := scan_ok t g argv hn
  simp only [tool, hs]
  rcases toolMain_cases t lib w argv sr hok with ⟨pre, ls, _, _, h⟩ | ⟨pre, p, output, i, _, _, h⟩
  · exact ⟨_, h⟩
  · rw [h]
    unfold convAndWrite
    repeat' split
    all_goals exact ⟨_, rfl⟩

/-! ### the two kinds of run -/

/-- A run either converts nothing (exit 0, nothing on stdout, no file opened for writing, the
    scanner's messages followed by help / "Missing arguments"+help / "Failed to open" / "Error while
    reading"), or it is the conversion of the designated input, read completely. -/
theorem run_cases (t : Tool) (g : Getopt) (lib : Lib) (w : World) (argv : Argv) (hn : NulFree argv) :
    ∃ sr, scan g (toolOpts t) argv = .ok sr ∧
    ((∃ pre ls, GetoptLines argv pre ∧ UsageTail ls ∧
        tool t g lib w argv = .done ⟨0, [], pre ++ ls, [], none⟩) ∨
     (∃ pre p output input, GetoptLines argv pre ∧ InputIs w sr input ∧
        tool t g lib w argv = convAndWrite t lib w p output input pre)) := by
  obtain ⟨sr, hs, hok⟩ := scan_ok t g argv hn
  refine ⟨sr, hs, ?_⟩
  simp only [tool, hs]
  rcases toolMain_cases t lib w argv sr hok with ⟨pre, ls, hg, hu, h⟩ | ⟨pre, p, output, i, hg, hi, h⟩
  · exact .inl ⟨pre, ls, hg, hu, by rw [h]; rfl⟩
  · exact .inr ⟨pre, p, output, i, hg, hi, h⟩

/-! ### reads_whole_input -/

/-- `fread` may cut the input into any pieces of 1…1000 bytes: the buffer handed on is the input. -/
theorem reads_whole_input (t : Tool) (sched : List Nat) (content : Bytes) :
    readAll t sched content = .data content :=
  readAll_spec t sched content

/-- The bytes given to the library are the complete contents of the designated input (stdin for `-`). -/
theorem conversion_input_is_designated_input (t : Tool) (g : Getopt) (lib : Lib) (w : World) (argv : Argv)
    (hn : NulFree argv) (o : Out) (h : tool t g lib w argv = .done o) (p : Params) (i : Bytes)
    (hc : o.call = some (p, i)) :
    ∃ sr, scan g (toolOpts t) argv = .ok sr ∧ InputIs w sr i := by
  obtain ⟨sr, hs, hcase⟩ := run_cases t g lib w argv hn
  refine ⟨sr, hs, ?_⟩
  rcases hcase with ⟨pre, ls, _, _, h'⟩ | ⟨pre, p', output, i', _, hi, h'⟩
  · rw [h'] at h
    cases h
    cases hc
  · rw [h'] at h
    unfold convAndWrite at h
    have : i' = i := by
      repeat' split at h
      all_goals (simp only [mkOut, Result.done.injEq] at h; subst h; simp only [Option.some.injEq, Prod.mk.injEq] at hc; exact hc.2)
    exact this ▸ hi

/-- The result does not depend on how `fread` cuts the input. -/
theorem chunking_is_unobservable (t : Tool) (g : Getopt) (lib : Lib) (w : World) (argv : Argv) (s : List Nat) :
    tool t g lib { w with sched := s } argv = tool t g lib w argv := by
  have h : ∀ p output sr errs, afterOpts t lib { w with sched := s } p output sr errs = afterOpts t lib w p output sr errs := by
    intro p output sr errs
    simp only [afterOpts, readAll_spec]
    rfl
  cases t <;> simp only [tool, toolMain, w2xMain, x2wMain, h]

/-! ### exit_is_lib_code, failed_line_iff_failure, no_output_on_failure, out_is_lib_bytes -/

/-- Everything observable about a run that reaches the conversion, as a function of the library's
    answer. Stated for `convAndWrite`; `run_cases` says every converting run is one. -/
theorem conv_failure (t : Tool) (lib : Lib) (w : World) (p : Params) (output : Option Bytes) (i : Bytes)
    (pre : List Line) (c : Nat) (h : lib.conv p i = .error c) :
    convAndWrite t lib w p output i pre =
      .done ⟨c % 256, [], pre ++ [.failed t (lib.errStr c)], [], some (p, i)⟩ := by
  simp [convAndWrite, h, mkOut]

theorem conv_success_no_output (t : Tool) (lib : Lib) (w : World) (p : Params) (i : Bytes)
    (pre : List Line) (res : Bytes) (h : lib.conv p i = .ok res) :
    convAndWrite t lib w p none i pre = .done ⟨0, [], pre ++ [.succeeded t], [], some (p, i)⟩ := by
  simp [convAndWrite, h, mkOut]

/-- `-o -`: stdout receives exactly the library's bytes. -/
theorem conv_success_stdout (t : Tool) (lib : Lib) (w : World) (p : Params) (i : Bytes)
    (pre : List Line) (res : Bytes) (h : lib.conv p i = .ok res) (hs : w.stdout = .ok) :
    convAndWrite t lib w p (some b!"-") i pre = .done ⟨0, res, pre ++ [.succeeded t], [], some (p, i)⟩ := by
  simp [convAndWrite, h, mkOut, hs, fwriteShort, flushFails, stored]

/-- `-o path`: the file is created/truncated and receives exactly the library's bytes; stdout nothing. -/
theorem conv_success_file (t : Tool) (lib : Lib) (w : World) (p : Params) (i : Bytes)
    (pre : List Line) (res path : Bytes) (h : lib.conv p i = .ok res) (hp : path ≠ b!"-")
    (hs : w.openW path = .ok .ok) :
    convAndWrite t lib w p (some path) i pre =
      .done ⟨0, [], pre ++ [.succeeded t], [⟨path, res, true⟩], some (p, i)⟩ := by
  have hb : (path == b!"-") = false := by simp [hp]
  simp [convAndWrite, h, mkOut, hs, hb, fwriteShort, flushFails, stored]

/-- Unwritable output (cannot be opened): reported on stderr, exit status still the library's 0,
    nothing written anywhere, no fault. -/
theorem conv_success_unopenable_output (t : Tool) (lib : Lib) (w : World) (p : Params) (i : Bytes)
    (pre : List Line) (res path : Bytes) (h : lib.conv p i = .ok res) (hp : path ≠ b!"-")
    (hs : w.openW path = .fail) :
    convAndWrite t lib w p (some path) i pre =
      .done ⟨0, [], pre ++ [.succeeded t, .failedOpenOut path], [], some (p, i)⟩ := by
  have hb : (path == b!"-") = false := by simp [hp]
  simp [convAndWrite, h, mkOut, hs, hb]

/-- Unwritable output (device stores nothing): a non-empty result is reported as a write error,
    whichever of `fwrite` / `fflush` / `fclose` notices. -/
theorem conv_success_full_device (t : Tool) (lib : Lib) (w : World) (p : Params) (i : Bytes)
    (pre : List Line) (res path : Bytes) (buf : Nat) (h : lib.conv p i = .ok res) (hne : res ≠ [])
    (hs : (path = b!"-" ∧ w.stdout = .full buf) ∨ (path ≠ b!"-" ∧ w.openW path = .ok (.full buf))) :
    ∃ o, convAndWrite t lib w p (some path) i pre = .done o ∧ Line.writeError path ∈ o.stderr ∧
      o.exit = 0 ∧ o.stdout = [] := by
  have hl : 0 < res.length := List.length_pos_iff.mpr hne
  have hbad : (fwriteShort (.full buf) res.length || flushFails (.full buf) res.length) = true := by
    simp only [fwriteShort, flushFails, hl, decide_true, Bool.true_and, Bool.or_eq_true, decide_eq_true_eq]
    omega
  have hst : stored (.full buf) res = false := by
    cases res with
    | nil => exact absurd rfl hne
    | cons _ _ => rfl
  rcases hs with ⟨hp, hs⟩ | ⟨hp, hs⟩
  · subst hp
    refine ⟨_, by simp only [convAndWrite, h, beq_self_eq_true, if_true, hs, hbad, hst, mkOut]; rfl, ?_, rfl, rfl⟩
    simp
  · have hb : (path == b!"-") = false := by simp [hp]
    refine ⟨_, by simp only [convAndWrite, h, hb, hs, hbad, hst, mkOut]; rfl, ?_, rfl, rfl⟩
    simp

/-- Shape of every successful conversion run: exit 0, "<tool> succeeded", then at most one line about
    the output; stdout is empty or the result; at most one file, holding the result if it was stored. -/
theorem conv_success_cases (t : Tool) (lib : Lib) (w : World) (p : Params) (output : Option Bytes) (i : Bytes)
    (pre : List Line) (res : Bytes) (h : lib.conv p i = .ok res) :
    ∃ so files tail, convAndWrite t lib w p output i pre =
        .done ⟨0, so, pre ++ .succeeded t :: tail, files, some (p, i)⟩ ∧
      (so = [] ∨ so = res) ∧
      (files = [] ∨ ∃ path c, files = [⟨path, if c then res else [], c⟩]) ∧
      (∀ l ∈ tail, (∃ q, l = .failedOpenOut q) ∨ (∃ q, l = .writeError q)) := by
  unfold convAndWrite
  simp only [h]
  cases output with
  | none => exact ⟨[], [], [], by simp [mkOut], .inl rfl, .inl rfl, by intro l hl; cases hl⟩
  | some path =>
    by_cases hb : (path == b!"-") = true
    · simp only [hb, if_true]
      refine ⟨if stored w.stdout res then res else [], [],
        if (fwriteShort w.stdout res.length || flushFails w.stdout res.length) then [.writeError path] else [],
        by simp [mkOut], ?_, .inl rfl, ?_⟩
      · split
        · exact .inr rfl
        · exact .inl rfl
      · intro l hl
        split at hl
        · rw [List.mem_singleton] at hl
          exact .inr ⟨_, hl⟩
        · cases hl
    · simp only [hb]
      cases hw : w.openW path with
      | fail =>
        refine ⟨[], [], [.failedOpenOut path], by simp [mkOut], .inl rfl, .inl rfl, ?_⟩
        intro l hl
        rw [List.mem_singleton] at hl
        exact .inl ⟨_, hl⟩
      | ok sk =>
        refine ⟨[], [⟨path, if stored sk res then res else [], stored sk res⟩],
          if (fwriteShort sk res.length || flushFails sk res.length) then [.writeError path] else [],
          by simp [mkOut], .inl rfl, .inr ⟨path, stored sk res, rfl⟩, ?_⟩
        intro l hl
        split at hl
        · rw [List.mem_singleton] at hl
          exact .inr ⟨_, hl⟩
        · cases hl

/-- `exit_is_lib_code`: the exit status is the library's result code modulo 256 (0 for success, and 0
    when the library was never called). -/
theorem exit_is_lib_code (t : Tool) (g : Getopt) (lib : Lib) (w : World) (argv : Argv) (hn : NulFree argv)
    (o : Out) (h : tool t g lib w argv = .done o) :
    o.exit = match o.call with
      | none => 0
      | some (p, i) => (match lib.conv p i with
        | .ok _ => 0
        | .error c => c % 256) := by
  obtain ⟨sr, _, hcase⟩ := run_cases t g lib w argv hn
  rcases hcase with ⟨pre, ls, _, _, h'⟩ | ⟨pre, p, output, i, _, _, h'⟩
  · rw [h'] at h; cases h; rfl
  · rw [h'] at h
    cases hl : lib.conv p i with
    | error c =>
      rw [conv_failure t lib w p output i pre c hl] at h
      cases h
      simp [hl]
    | ok res =>
      obtain ⟨so, files, tail, he, _⟩ := conv_success_cases t lib w p output i pre res hl
      rw [he] at h
      cases h
      simp [hl]

/-- `no_output_on_failure`: when the conversion fails (or never takes place) stdout stays empty and no
    file is opened for writing — an existing output file keeps its contents. -/
theorem no_output_on_failure (t : Tool) (g : Getopt) (lib : Lib) (w : World) (argv : Argv) (hn : NulFree argv)
    (o : Out) (h : tool t g lib w argv = .done o)
    (hf : o.call = none ∨ ∃ p i c, o.call = some (p, i) ∧ lib.conv p i = .error c) :
    o.stdout = [] ∧ o.files = [] := by
  obtain ⟨sr, _, hcase⟩ := run_cases t g lib w argv hn
  rcases hcase with ⟨pre, ls, _, _, h'⟩ | ⟨pre, p, output, i, _, _, h'⟩
  · rw [h'] at h; cases h; exact ⟨rfl, rfl⟩
  · rw [h'] at h
    cases hl : lib.conv p i with
    | error c =>
      rw [conv_failure t lib w p output i pre c hl] at h
      cases h
      exact ⟨rfl, rfl⟩
    | ok res =>
      exfalso
      obtain ⟨so, files, tail, he, _⟩ := conv_success_cases t lib w p output i pre res hl
      rw [he] at h
      cases h
      rcases hf with hf | ⟨p', i', c, hf, hc⟩
      · cases hf
      · simp only [Option.some.injEq, Prod.mk.injEq] at hf
        rw [← hf.1, ← hf.2, hl] at hc
        cases hc

/-- `out_is_lib_bytes` ("nothing else" half): whatever reaches stdout or a file is the library's
    result, byte for byte; at most one file is written. The "exactly" half for each output
    designation is `conv_success_stdout` / `conv_success_file` / `conv_success_no_output`. -/
theorem out_is_lib_bytes (t : Tool) (g : Getopt) (lib : Lib) (w : World) (argv : Argv) (hn : NulFree argv)
    (o : Out) (h : tool t g lib w argv = .done o) (p : Params) (i res : Bytes)
    (hc : o.call = some (p, i)) (hl : lib.conv p i = .ok res) :
    (o.stdout = [] ∨ o.stdout = res) ∧ o.files.length ≤ 1 ∧
    (∀ f ∈ o.files, f.complete = true → f.content = res) := by
  obtain ⟨sr, _, hcase⟩ := run_cases t g lib w argv hn
  rcases hcase with ⟨pre, ls, _, _, h'⟩ | ⟨pre, p', output, i', _, _, h'⟩
  · rw [h'] at h; cases h; cases hc
  · rw [h'] at h
    cases hl' : lib.conv p' i' with
    | error c =>
      rw [conv_failure t lib w p' output i' pre c hl'] at h
      cases h
      simp only [Option.some.injEq, Prod.mk.injEq] at hc
      rw [hc.1, hc.2, hl] at hl'
      cases hl'
    | ok res' =>
      obtain ⟨so, files, tail, he, hso, hfiles, _⟩ := conv_success_cases t lib w p' output i' pre res' hl'
      rw [he] at h
      cases h
      simp only [Option.some.injEq, Prod.mk.injEq] at hc
      rw [hc.1, hc.2, hl] at hl'
      cases hl'
      refine ⟨hso, ?_, ?_⟩
      · rcases hfiles with rfl | ⟨path, c, rfl⟩ <;> simp
      · rcases hfiles with rfl | ⟨path, c, rfl⟩
        · intro f hf; cases hf
        · intro f hf hcomp
          rw [List.mem_singleton] at hf
          subst hf
          simp only at hcomp
          simp [hcomp]

/-- `failed_line_iff_failure`: a "<tool> failed:" line is printed exactly when the conversion fails. -/
theorem failed_line_iff_failure (t : Tool) (g : Getopt) (lib : Lib) (w : World) (argv : Argv) (hn : NulFree argv)
    (o : Out) (h : tool t g lib w argv = .done o) :
    (∃ t' x, Line.failed t' x ∈ o.stderr) ↔ (∃ p i c, o.call = some (p, i) ∧ lib.conv p i = .error c) := by
  have hgl : ∀ pre : List Line, GetoptLines argv pre → ∀ t' x, Line.failed t' x ∉ pre := by
    intro pre hg t' x hm
    obtain ⟨_, _, _, he⟩ := hg _ hm
    cases he
  obtain ⟨sr, _, hcase⟩ := run_cases t g lib w argv hn
  rcases hcase with ⟨pre, ls, hg, hu, h'⟩ | ⟨pre, p, output, i, hg, _, h'⟩
  · rw [h'] at h; cases h
    constructor
    · rintro ⟨t', x, hm⟩
      rcases List.mem_append.mp hm with hm | hm
      · exact absurd hm (hgl pre hg t' x)
      · rcases hu with rfl | rfl | ⟨n, rfl⟩ | ⟨n, rfl⟩ <;> simp at hm
    · rintro ⟨_, _, _, hc, _⟩
      cases hc
  · rw [h'] at h
    cases hl : lib.conv p i with
    | error c =>
      rw [conv_failure t lib w p output i pre c hl] at h
      cases h
      exact ⟨fun _ => ⟨p, i, c, rfl, hl⟩, fun _ => ⟨t, lib.errStr c, by simp⟩⟩
    | ok res =>
      obtain ⟨so, files, tail, he, _, _, htail⟩ := conv_success_cases t lib w p output i pre res hl
      rw [he] at h
      cases h
      constructor
      · rintro ⟨t', x, hm⟩
        exfalso
        rcases List.mem_append.mp hm with hm | hm
        · exact hgl pre hg t' x hm
        · rcases List.mem_cons.mp hm with hm | hm
          · cases hm
          · rcases htail _ hm with ⟨q, hq⟩ | ⟨q, hq⟩ <;> cases hq
      · rintro ⟨p', i', c, hc, hcv⟩
        exfalso
        simp only [Option.some.injEq, Prod.mk.injEq] at hc
        rw [← hc.1, ← hc.2, hl] at hcv
        cases hcv

/-- The line is attributed to the right tool. -/
theorem failed_line_names_the_tool (t : Tool) (g : Getopt) (lib : Lib) (w : World) (argv : Argv) (hn : NulFree argv)
    (o : Out) (h : tool t g lib w argv = .done o) (t' : Tool) (x : Bytes) (hm : Line.failed t' x ∈ o.stderr) :
    t' = t ∧ ∃ p i c, o.call = some (p, i) ∧ lib.conv p i = .error c ∧ x = lib.errStr c := by
  obtain ⟨p, i, c, hc, hcv⟩ := (failed_line_iff_failure t g lib w argv hn o h).mp ⟨t', x, hm⟩
  obtain ⟨sr, _, hcase⟩ := run_cases t g lib w argv hn
  rcases hcase with ⟨pre, ls, _, _, h'⟩ | ⟨pre, p', output, i', hg, _, h'⟩
  · rw [h'] at h; cases h; cases hc
  · rw [h'] at h
    cases hl : lib.conv p' i' with
    | ok res =>
      obtain ⟨so, files, tail, he, _⟩ := conv_success_cases t lib w p' output i' pre res hl
      rw [he] at h
      cases h
      simp only [Option.some.injEq, Prod.mk.injEq] at hc
      rw [← hc.1, ← hc.2, hl] at hcv
      cases hcv
    | error c' =>
      rw [conv_failure t lib w p' output i' pre c' hl] at h
      cases h
      rcases List.mem_append.mp hm with hm | hm
      · obtain ⟨_, _, _, he⟩ := hg _ hm
        cases he
      · rw [List.mem_singleton] at hm
        cases hm
        exact ⟨rfl, p', i', c', rfl, hl, rfl⟩

/-- Unknown options, missing arguments and unreadable input are reported on standard error (and
    only there): a run that does not convert prints at least one line on stderr, nothing on stdout. -/
theorem usage_errors_reported_on_stderr (t : Tool) (g : Getopt) (lib : Lib) (w : World) (argv : Argv)
    (hn : NulFree argv) (o : Out) (h : tool t g lib w argv = .done o) (hc : o.call = none) :
    o.stderr ≠ [] ∧ o.stdout = [] ∧ o.exit = 0 := by
  obtain ⟨sr, _, hcase⟩ := run_cases t g lib w argv hn
  rcases hcase with ⟨pre, ls, _, hu, h'⟩ | ⟨pre, p, output, i, _, _, h'⟩
  · rw [h'] at h; cases h
    refine ⟨?_, rfl, rfl⟩
    rcases hu with rfl | rfl | ⟨n, rfl⟩ | ⟨n, rfl⟩ <;> simp
  · rw [h'] at h
    exfalso
    cases hl : lib.conv p i with
    | error c =>
      rw [conv_failure t lib w p output i pre c hl] at h
      cases h
      cases hc
    | ok res =>
      obtain ⟨so, files, tail, he, _⟩ := conv_success_cases t lib w p output i pre res hl
      rw [he] at h
      cases h
      cases hc

/-! ### from symbolic lines to the bytes on stderr -/

/-- "a line starting with the tool name and 'failed:'". -/
def failedPrefix (t : Tool) : Bytes := toolName t ++ b!" failed:"

/-- A message of the option scanner (`argv[0]: …`) does not start with "<tool> failed:" unless
    `argv[0]` itself starts with "<tool> ". -/
theorem getopt_line_not_failed (t : Tool) (a0 r : Bytes) (h0 : ¬ (toolName t ++ b!" ") <+: a0) :
    ¬ failedPrefix t <+: (a0 ++ b!": " ++ r) := by
  intro hp
  have hT : (toolName t ++ b!" ") <+: failedPrefix t := by
    cases t <;> exact ⟨b!"failed:", rfl⟩
  have hlenT : (toolName t ++ b!" ").length = 10 := by cases t <;> rfl
  have hlenP : (failedPrefix t).length = 17 := by cases t <;> rfl
  by_cases hlen : 10 ≤ a0.length
  · apply h0
    have h1 : (toolName t ++ b!" ") <+: (a0 ++ b!": " ++ r) := hT.trans hp
    rw [List.append_assoc] at h1
    exact List.prefix_of_prefix_length_le h1 (List.prefix_append a0 _) (by omega)
  · have h2 : (a0 ++ b!": ") <+: failedPrefix t :=
      List.prefix_of_prefix_length_le (List.prefix_append _ r) hp (by simp; omega)
    have hi : a0.length < (a0 ++ b!": ").length := by simp
    have h3 := h2.getElem hi
    have h4 : (a0 ++ b!": ")[a0.length] = 58 := by simp
    have key : ∀ i, (h : i < (failedPrefix t).length) → i ≤ 9 → (failedPrefix t)[i] ≠ 58 := by
      cases t <;> decide
    exact key a0.length (by omega) (by omega) (h3 ▸ h4)

/-- Every line a run prints on stderr is of one of these kinds. -/
theorem stderr_line_kinds (t : Tool) (g : Getopt) (lib : Lib) (w : World) (argv : Argv) (hn : NulFree argv)
    (o : Out) (h : tool t g lib w argv = .done o) :
    ∀ l ∈ o.stderr,
      (∃ a0 r, argv.head? = some a0 ∧ l = .getopt (a0 ++ b!": " ++ r)) ∨ l = .help ∨ l = .missingArgs ∨
      (∃ n, l = .failedOpenIn n) ∨ (∃ n, l = .readError n) ∨ (∃ x, l = .failed t x) ∨ l = .succeeded t ∨
      (∃ q, l = .failedOpenOut q) ∨ (∃ q, l = .writeError q) := by
  obtain ⟨sr, _, hcase⟩ := run_cases t g lib w argv hn
  rcases hcase with ⟨pre, ls, hg, hu, h'⟩ | ⟨pre, p, output, i, hg, _, h'⟩
  · rw [h'] at h; cases h
    intro l hl
    rcases List.mem_append.mp hl with hl | hl
    · exact .inl (hg l hl)
    · rcases hu with rfl | rfl | ⟨n, rfl⟩ | ⟨n, rfl⟩
      · simp at hl; simp [hl]
      · simp at hl; rcases hl with rfl | rfl <;> simp
      · simp at hl; simp [hl]
      · simp at hl; simp [hl]
  · rw [h'] at h
    cases hl : lib.conv p i with
    | error c =>
      rw [conv_failure t lib w p output i pre c hl] at h
      cases h
      intro l hl
      rcases List.mem_append.mp hl with hl | hl
      · exact .inl (hg l hl)
      · rw [List.mem_singleton] at hl
        simp [hl]
    | ok res =>
      obtain ⟨so, files, tail, he, _, _, htail⟩ := conv_success_cases t lib w p output i pre res hl
      rw [he] at h
      cases h
      intro l hl
      rcases List.mem_append.mp hl with hl | hl
      · exact .inl (hg l hl)
      · rcases List.mem_cons.mp hl with hl | hl
        · simp [hl]
        · rcases htail l hl with ⟨q, hq⟩ | ⟨q, hq⟩ <;> simp [hq]

/-- `failed_line_iff_failure` on the bytes: provided `argv[0]` does not itself begin with "<tool> ",
    a stderr line starts with "<tool> failed:" exactly when it is the failure line. -/
theorem rendered_failed_prefix_iff (t : Tool) (g : Getopt) (lib : Lib) (w : World) (argv : Argv)
    (hn : NulFree argv) (o : Out) (h : tool t g lib w argv = .done o)
    (h0 : ∀ a0, argv.head? = some a0 → ¬ (toolName t ++ b!" ") <+: a0) :
    ∀ l ∈ o.stderr, (failedPrefix t <+: l.render ↔ ∃ x, l = .failed t x) := by
  intro l hl
  have hno : ∀ (c : UInt8) (rest : Bytes), c ≠ 119 → c ≠ 120 → ¬ failedPrefix t <+: (c :: rest) := by
    intro c rest h1 h2 hp
    cases t <;> simp [failedPrefix, toolName, List.cons_prefix_cons] at hp
    · exact h1 hp.1.symm
    · exact h2 hp.1.symm
  rcases stderr_line_kinds t g lib w argv hn o h l hl with
    ⟨a0, r, hh, rfl⟩ | rfl | rfl | ⟨n, rfl⟩ | ⟨n, rfl⟩ | ⟨x, rfl⟩ | rfl | ⟨q, rfl⟩ | ⟨q, rfl⟩
  · exact ⟨fun hp => absurd hp (getopt_line_not_failed t a0 r (h0 a0 hh)), fun ⟨x, hx⟩ => by cases hx⟩
  · exact ⟨fun hp => absurd hp (hno _ _ (by decide) (by decide)), fun ⟨x, hx⟩ => by cases hx⟩
  · exact ⟨fun hp => absurd hp (hno _ _ (by decide) (by decide)), fun ⟨x, hx⟩ => by cases hx⟩
  · exact ⟨fun hp => absurd hp (hno _ _ (by decide) (by decide)), fun ⟨x, hx⟩ => by cases hx⟩
  · exact ⟨fun hp => absurd hp (hno _ _ (by decide) (by decide)), fun ⟨x, hx⟩ => by cases hx⟩
  · refine ⟨fun _ => ⟨x, rfl⟩, fun _ => ?_⟩
    cases t <;> exact ⟨32 :: x, by simp [failedPrefix, toolName, Line.render]⟩
  · refine ⟨fun hp => ?_, fun ⟨x, hx⟩ => by cases hx⟩
    exfalso
    cases t <;> simp [failedPrefix, toolName, Line.render, List.cons_prefix_cons] at hp
  · exact ⟨fun hp => absurd hp (hno _ _ (by decide) (by decide)), fun ⟨x, hx⟩ => by cases hx⟩
  · exact ⟨fun hp => absurd hp (hno _ _ (by decide) (by decide)), fun ⟨x, hx⟩ => by cases hx⟩

/-- The hypothesis on `argv[0]` is needed: with `argv[0] = "wbxml2xml failed"` the scanner's own
    complaint about `-z` starts with "wbxml2xml failed:" although nothing was converted. -/
theorem argv0_hypothesis_needed :
    failedPrefix .w2x <+: (attIllegal b!"wbxml2xml failed" 122) := by
  exact ⟨b!" illegal option -- z", by decide⟩

/-! ### non-vacuity: concrete runs through the whole model -/

section Examples

private def lib1 : Lib := { conv := fun _ i => if i == b!"good" then .ok b!"RESULT" else .error 300, errStr := fun _ => b!"bad" }
private def w1 : World := {
  stdin := .file b!"good", stdout := .ok, sched := [0, 2],
  openR := fun p => if p == b!"in" then .file b!"good" else if p == b!"junk" then .file b!"xx" else if p == b!"d" then .dir else .fail,
  openW := fun p => if p == b!"out" then .ok .ok else if p == b!"full" then .ok (.full 4096) else .fail }

example : NulFree [b!"xml2wbxml", b!"-ko", b!"out", b!"in"] := by unfold NulFree; decide

example : tool .x2w .gnu lib1 w1 [b!"xml2wbxml", b!"in", b!"-ko", b!"out"] =
    .done ⟨0, [], [.succeeded .x2w], [⟨b!"out", b!"RESULT", true⟩],
           some (.x2w { keepWs := true }, b!"good")⟩ := by decide

example : tool .w2x .att lib1 w1 [b!"wbxml2xml", b!"-i4", b!"-o", b!"-", b!"-"] =
    .done ⟨0, b!"RESULT", [.succeeded .w2x], [], some (.w2x { indent := 4 }, b!"good")⟩ := by decide

example : tool .w2x .gnu lib1 w1 [b!"wbxml2xml", b!"-o", b!"out", b!"junk"] =
    .done ⟨300 % 256, [], [.failed .w2x b!"bad"], [], some (.w2x {}, b!"xx")⟩ := by decide

example : tool .w2x .gnu lib1 w1 [b!"wbxml2xml", b!"-o", b!"nodir/x", b!"in"] =
    .done ⟨0, [], [.succeeded .w2x, .failedOpenOut b!"nodir/x"], [], some (.w2x {}, b!"good")⟩ := by decide

example : tool .x2w .gnu lib1 w1 [b!"xml2wbxml", b!"-o", b!"full", b!"in"] =
    .done ⟨0, [], [.succeeded .x2w, .writeError b!"full"], [⟨b!"full", [], false⟩], some (.x2w {}, b!"good")⟩ := by decide

example : tool .x2w .att lib1 w1 [b!"xml2wbxml", b!"-z", b!"in"] =
    .done ⟨0, [], [.getopt b!"xml2wbxml: illegal option -- z", .help], [], none⟩ := by decide

example : tool .x2w .gnu lib1 w1 [b!"xml2wbxml", b!"d", b!"-n"] =
    .done ⟨0, [], [.readError b!"-n"], [], none⟩ := by decide

end Examples

end Wbxml.Props.C20
