/- C20 — placeholder while the check pipeline is brought up; replaced by the property theorems. -/
import Wbxml.Model.ToolMain
namespace Wbxml.Props.C20
open Wbxml Wbxml.Model.Tool

theorem exit_status_is_a_byte (e : Nat) (a : Bytes) (l : List Line) (f : List FileWrite) (c : Option (Params × Bytes)) :
    ∃ o, mkOut e a l f c = .done o ∧ o.exit < 256 := by
  refine ⟨_, rfl, ?_⟩
  exact Nat.mod_lt _ (by decide)

end Wbxml.Props.C20
