/-
  C08 — every language's token tables form a consistent, self-inverse code.
  All theorems are about the *regenerated* `Gen.Tables` (what the compiler saw of
  `src/wbxml_tables.c` in the current tree) and are discharged by kernel evaluation
  (`decide +kernel`, no axioms beyond the kernel's own reduction), lifted through the parametric
  lemmas of `Lemmas/Tables.lean`.
-/
import Wbxml.Lemmas.Tables
import Wbxml.Gen.Tables
import Wbxml.Gen.Consts
set_option maxRecDepth 100000
namespace Wbxml.Props.C08
open Wbxml Wbxml.Model

/-- The model's literal global tokens are the ones the library was compiled with. -/
theorem global_tokens_agree :
    ([Gen.Consts.WBXML_SWITCH_PAGE, Gen.Consts.WBXML_END, Gen.Consts.WBXML_ENTITY, Gen.Consts.WBXML_STR_I,
      Gen.Consts.WBXML_LITERAL, Gen.Consts.WBXML_EXT_I_0, Gen.Consts.WBXML_EXT_I_1, Gen.Consts.WBXML_EXT_I_2,
      Gen.Consts.WBXML_PI, Gen.Consts.WBXML_LITERAL_C, Gen.Consts.WBXML_EXT_T_0, Gen.Consts.WBXML_EXT_T_1,
      Gen.Consts.WBXML_EXT_T_2, Gen.Consts.WBXML_STR_T, Gen.Consts.WBXML_LITERAL_A, Gen.Consts.WBXML_EXT_0,
      Gen.Consts.WBXML_EXT_1, Gen.Consts.WBXML_EXT_2, Gen.Consts.WBXML_OPAQUE, Gen.Consts.WBXML_LITERAL_AC] : List Int)
    = globalTokens.map Int.ofNat := by decide

theorem tag_tables_fast : ∀ t ∈ Gen.allTagTables, tagTableOKFast t = true := by decide +kernel

/-- Tag tokens lie in 0x05–0x3F, none is a global token, decode→encode and encode→decode→encode
    (from the row's own page and from no page) are the identity on (page, token). -/
theorem tag_tables_ok : ∀ t ∈ Gen.allTagTables, tagTableOK t = true :=
  fun t ht => tagTableOK_of_fast t (tag_tables_fast t ht)

/-- Attribute-start tokens lie in 0x05–0x7F, none is global; decoding a start token and encoding
    its (name, value prefix) yields a start token that decodes to the same (name, value prefix)
    and covers the whole prefix. -/
theorem attr_tables_ok : ∀ t ∈ Gen.allAttrTables, attrTableOK t = true := by decide +kernel

/-- Attribute-value tokens lie in 0x85–0xFF and none is a global token. -/
theorem val_tables_range : ∀ t ∈ Gen.allValTables, valTableRange t = true := by decide +kernel

/-- Every value token decodes (first match) to a row with that (page, token). -/
theorem val_tables_ok : ∀ t ∈ Gen.allValTables, valTableOK t = true := by decide +kernel

/-- Namespaces: name → page → name and page → name → page are identities. -/
theorem ns_tables_ok : ∀ t ∈ Gen.allNsTables, nsTableOK t = true := by decide +kernel

/-- Extension values: the table is short enough for the parser's 8-bit index and
    name → token → name → token closes. -/
theorem ext_tables_enc_dec : ∀ t ∈ Gen.allExtTables,
    (decide (t.length < 256) && t.all (extEncDec t)) = true := by decide +kernel

/-- The rows of the Wireless-Village extension table whose token does *not* re-encode to itself
    (two tokens share one name; the meaning is preserved, the token is not). Known finding. -/
def extAliasExceptions : List (Bytes × Nat) := [(b!"SMS", 0x75), (b!"IM", 0x68)]

/-- Full-strength statement `∀ r, extDecEnc t r` is false on the pinned tables (see
    `ext_dec_enc_witness`); it holds for every row outside `extAliasExceptions`. -/
theorem ext_tables_dec_enc_partial : ∀ t ∈ Gen.allExtTables,
    t.all (fun r => extDecEnc t r || extAliasExceptions.contains (r.name, r.token)) = true := by
  decide +kernel

/-- The exceptions still preserve meaning: token → name → token' → the same name. -/
theorem ext_alias_meaning_preserved : ∀ t ∈ Gen.allExtTables,
    t.all (fun r => match decExt t r.token with
      | some d => (match encExt t d.name with
        | some e => (match decExt t e.token with
          | some d' => d'.name == d.name
          | none => false)
        | none => false)
      | none => false) = true := by decide +kernel

/-- Every table a language entry points to is one of the tables proved above. -/
theorem lang_tables_covered : Gen.main.all (fun l =>
    (match l.tags with | some t => Gen.allTagTables.contains t | none => false) &&
    (match l.ns with | some t => Gen.allNsTables.contains t | none => true) &&
    (match l.attrs with | some t => Gen.allAttrTables.contains t | none => true) &&
    (match l.values with | some t => Gen.allValTables.contains t | none => true) &&
    (match l.exts with | some t => Gen.allExtTables.contains t | none => true)) = true := by
  decide +kernel

/-- User-facing form: for every language entry, every tag row. -/
theorem every_language_tag_row (l : Lang) (hl : l ∈ Gen.main) (t : List TagRow) (ht : l.tags = some t)
    (r : TagRow) (hr : r ∈ t) :
    tagRowRange r = true ∧ tagDecEnc t r = true ∧ tagEncDec t r = true := by
  have hcov := lang_tables_covered
  simp only [List.all_eq_true, Bool.and_eq_true] at hcov
  have h := (hcov l hl).1.1.1.1
  simp only [ht, List.contains_iff_mem] at h
  have hok := tag_tables_ok t h
  unfold tagTableOK at hok
  simp only [Bool.and_eq_true, List.all_eq_true] at hok
  exact ⟨hok.1.1 r hr, hok.1.2 r hr, hok.2 r hr⟩

/-- Every language has a tag table and a public-id entry (29 entries on the pinned tree). -/
theorem every_language_has_tags : Gen.main.all (fun l => l.tags.isSome) = true := by decide +kernel

/-- Non-vacuity: the tables are not empty. -/
example : Gen.main.length ≥ 29 ∧ Gen.allTagTables.length ≥ 20 := by decide

end Wbxml.Props.C08
