/-
  C02 — XML→WBXML conversion is total, memory-safe and bounded.

  The model (`Model.xml2wbxml`) takes Expat's verdict and events as a parameter (`env`: the runs of
  Expat on the document and on every embedded document the conversion re-parses). Two hypotheses
  appear in the theorems and are shown to be necessary by witnesses at the end of the file:

  * `EnvWf env` — Expat's contract: when it reports success, the events form a document (prolog, one
    root element with balanced content, epilog) and element / attribute names are non-empty
    C strings;
  * `MainOk main` — no row of a tag, attribute or attribute-value table has an empty name
    (`gen_main_ok`: true of the regenerated tables, by kernel evaluation).
-/
import Wbxml.Lemmas.X2WMain
import Wbxml.Lemmas.X2WFuel
import Wbxml.Gen.Tables
set_option maxRecDepth 100000
namespace Wbxml.Props.C02
open Wbxml Wbxml.Model Wbxml.Lemmas.X2W Wbxml.Lemmas.ParserSafe

/-- The regenerated tables satisfy the table hypothesis. -/
theorem gen_main_ok : MainOk Gen.main := by
  have h : Gen.main.all langNames = true := by decide +kernel
  intro l hl
  exact List.all_eq_true.mp h l hl

/-- What the conversion may answer. -/
def Contract (env : List (Bytes × ExpatRun)) : X2WRes → Prop
  | .ok _ => True
  | .err (.code c) => c ≠ 0
  | .err _ => False
  | .need d => env.find? (fun p => p.1 == d) = none

/-- **Contract**: for every table satisfying `MainOk`, every option block, every set of Expat runs
    satisfying `EnvWf` and every byte string, the conversion answers WBXML bytes, or a non-zero
    library error code, or asks for the Expat run of a document that is missing from `env` — never a
    model flag for undefined behaviour (NULL root, OTA `current_attr`, pointer past a terminator), a
    crash, or exhausted fuel. -/
theorem x2w_contract (main : List Lang) (cfg : X2WCfg) (env : List (Bytes × ExpatRun)) (xml : Bytes)
    (hm : MainOk main) (he : EnvWf env) : Contract env (xml2wbxml main cfg env xml) := by
  unfold xml2wbxml
  split
  · simp [Contract]
  · have hok := treeOfXml_ok main env hm he (env.length + 2) xml
    split
    · rename_i d hd
      exact treeOfXml_need main env _ xml d hd
    · rename_i c hc
      rw [hc] at hok
      exact hok
    · rename_i t ht
      rw [ht] at hok
      have hs := treeToWbxml_ok cfg t hok
      cases hw : treeToWbxml cfg t with
      | ok w => trivial
      | error e =>
        rw [hw] at hs
        cases e with
        | code c => exact hs
        | ub w => exact absurd hs (by simp [Safe])
        | fuel => exact absurd hs (by simp [Safe])
        | crash w => exact absurd hs (by simp [Safe])

/-- **Totality.** -/
theorem x2w_total (main : List Lang) (cfg : X2WCfg) (env : List (Bytes × ExpatRun)) (xml : Bytes)
    (hm : MainOk main) (he : EnvWf env) :
    (∃ w, xml2wbxml main cfg env xml = .ok w) ∨
    (∃ c, c ≠ 0 ∧ xml2wbxml main cfg env xml = .err (.code c)) ∨
    (∃ d, xml2wbxml main cfg env xml = .need d ∧ env.find? (fun p => p.1 == d) = none) := by
  have h := x2w_contract main cfg env xml hm he
  cases hr : xml2wbxml main cfg env xml with
  | ok w => exact Or.inl ⟨w, rfl⟩
  | need d => rw [hr] at h; exact Or.inr (Or.inr ⟨d, rfl, h⟩)
  | err e =>
    rw [hr] at h
    cases e with
    | code c => exact Or.inr (Or.inl ⟨c, h, rfl⟩)
    | ub w => exact absurd h (by simp [Contract])
    | fuel => exact absurd h (by simp [Contract])
    | crash w => exact absurd h (by simp [Contract])

theorem x2w_no_ub (main : List Lang) (cfg : X2WCfg) (env : List (Bytes × ExpatRun)) (xml : Bytes)
    (hm : MainOk main) (he : EnvWf env) (w : String) : xml2wbxml main cfg env xml ≠ .err (.ub w) := by
  intro h; have := x2w_contract main cfg env xml hm he; rw [h] at this; exact this

theorem x2w_fuel_sufficient (main : List Lang) (cfg : X2WCfg) (env : List (Bytes × ExpatRun)) (xml : Bytes)
    (hm : MainOk main) (he : EnvWf env) : xml2wbxml main cfg env xml ≠ .err .fuel := by
  intro h; have := x2w_contract main cfg env xml hm he; rw [h] at this; exact this

theorem x2w_no_crash (main : List Lang) (cfg : X2WCfg) (env : List (Bytes × ExpatRun)) (xml : Bytes)
    (hm : MainOk main) (he : EnvWf env) (w : String) : xml2wbxml main cfg env xml ≠ .err (.crash w) := by
  intro h; have := x2w_contract main cfg env xml hm he; rw [h] at this; exact this

/-- … for the tables of the tree under test. -/
theorem x2w_contract_gen (cfg : X2WCfg) (env : List (Bytes × ExpatRun)) (xml : Bytes) (he : EnvWf env) :
    Contract env (xml2wbxml Gen.main cfg env xml) := x2w_contract Gen.main cfg env xml gen_main_ok he

/-- The tree stage alone (any table satisfying `MainOk`): a tree on which the encoder is total, a
    non-zero code, or a request for a missing run. -/
theorem x2w_tree_total (main : List Lang) (env : List (Bytes × ExpatRun)) (hm : MainOk main) (he : EnvWf env)
    (f : Nat) (xml : Bytes) : ResOk (treeOfXml main env f xml) := treeOfXml_ok main env hm he f xml

/-- The encoder stage alone, on any tree of that kind — including trees built through the API. -/
theorem x2w_encoder_total (cfg : X2WCfg) (t : Tree) (ht : treeOk t = true) : Safe (treeToWbxml cfg t) :=
  treeToWbxml_ok cfg t ht

/-- **Empty input**: error 12 (`WBXML_ERROR_BAD_PARAMETER`), whatever else. -/
theorem x2w_empty (main : List Lang) (cfg : X2WCfg) (env : List (Bytes × ExpatRun)) :
    xml2wbxml main cfg env [] = .err (.code 12) := rfl

/-- **Text that is not well-formed XML is always an error**: when Expat refuses the document the
    answer is error 104 (`WBXML_ERROR_XML_PARSING_FAILED`) — or, in the model only, the request for
    the run of an embedded document that ended before the error. Never success, never another
    code. No hypothesis on tables or on Expat's events. -/
theorem x2w_illformed (main : List Lang) (cfg : X2WCfg) (env : List (Bytes × ExpatRun)) (xml k : Bytes)
    (xr : ExpatRun) (hne : xml ≠ []) (hfind : env.find? (fun p => p.1 == xml) = some (k, xr))
    (hok : xr.ok = false) :
    xml2wbxml main cfg env xml = .err (.code 104) ∨ ∃ d, xml2wbxml main cfg env xml = .need d := by
  have hemp : xml.isEmpty = false := by cases xml with | nil => exact absurd rfl hne | cons _ _ => rfl
  unfold xml2wbxml
  rw [hemp]
  simp only [Bool.false_eq_true, ↓reduceIte]
  rw [treeOfXml_succ, hemp, hfind]
  simp only [Bool.false_eq_true, ↓reduceIte, hok, Bool.not_false]
  cases hn : (xr.events.foldl (xbuildStep main xml (subOf main env (env.length + 1))) {}).need with
  | none => left; rfl
  | some d =>
    right
    simp only
    cases treeOfXml main env (env.length + 1) d <;> exact ⟨_, rfl⟩

/-- … exactly 104 when no embedded document is pending. -/
theorem x2w_illformed_no_pending (main : List Lang) (cfg : X2WCfg) (env : List (Bytes × ExpatRun)) (xml k : Bytes)
    (xr : ExpatRun) (hne : xml ≠ []) (hfind : env.find? (fun p => p.1 == xml) = some (k, xr))
    (hok : xr.ok = false)
    (hneed : (xr.events.foldl (xbuildStep main xml (subOf main env (env.length + 1))) {}).need = none) :
    xml2wbxml main cfg env xml = .err (.code 104) := by
  have hemp : xml.isEmpty = false := by cases xml with | nil => exact absurd rfl hne | cons _ _ => rfl
  unfold xml2wbxml
  rw [hemp]
  simp only [Bool.false_eq_true, ↓reduceIte]
  rw [treeOfXml_succ, hemp, hfind]
  simp only [Bool.false_eq_true, ↓reduceIte, hok, Bool.not_false, hneed]

/-- **A document whose language cannot be determined is always an error**: no DOCTYPE of the prolog
    is known to the table (by public or system identifier) and the root element matches no root
    name and no namespace ⇒ error 101 (`WBXML_ERROR_UNKNOWN_XML_LANGUAGE`), whatever follows the
    root start tag. -/
theorem x2w_unknown_lang (main : List Lang) (cfg : X2WCfg) (env : List (Bytes × ExpatRun)) (xml k : Bytes)
    (xr : ExpatRun) (hne : xml ≠ []) (hfind : env.find? (fun p => p.1 == xml) = some (k, xr))
    (hok : xr.ok = true) (pro rest : List XEvent) (name : Bytes) (attrs : List (Bytes × Bytes)) (i : Nat)
    (hev : xr.events = pro ++ .startElt name attrs i :: rest) (hpro : pro.all isPrologEv = true)
    (hdoc : ∀ sysid pubid, XEvent.doctype sysid pubid ∈ pro → searchTable main pubid sysid none = none)
    (hroot : searchTable main none none (some name) = none) :
    xml2wbxml main cfg env xml = .err (.code 101) := by
  have hemp : xml.isEmpty = false := by cases xml with | nil => exact absurd rfl hne | cons _ _ => rfl
  unfold xml2wbxml
  rw [hemp]
  simp only [Bool.false_eq_true, ↓reduceIte]
  rw [treeOfXml_succ, hemp, hfind]
  simp only [Bool.false_eq_true, ↓reduceIte, hok, Bool.not_true]
  -- the state after the prolog
  obtain ⟨p1, p2, p3, p4, p5⟩ := run_prolog main xml (subOf main env (env.length + 1)) pro hpro {}
  have pl := fold_prolog_unknown main xml (subOf main env (env.length + 1)) pro hpro hdoc {} rfl rfl
  -- the root start tag
  have hstep : ∀ (b : XBState), b.need = none → b.error = none → b.skipLvl = 0 → b.stack = [] → b.root = none →
      b.lang = none →
      xbuildStep main xml (subOf main env (env.length + 1)) b (.startElt name attrs i) = { b with error := some 101 } := by
    intro b h1 h2 h3 h4 h5 h6
    simp [xbuildStep, h1, h2, h3, h4, h5, h6, hroot]
  have hfold := fold_frozen main xml (subOf main env (env.length + 1)) 101 rest
    ({ List.foldl (xbuildStep main xml (subOf main env (env.length + 1))) {} pro with error := some 101 } : XBState)
    p1 p4 rfl
  rw [hev, List.foldl_append, List.foldl_cons, hstep _ p1 p2 p3 p4 p5 pl, hfold.1, hfold.2]

/-! ## The hypotheses are satisfiable, and each of them is needed

All evaluations below are kernel evaluations of the model on concrete inputs. -/

/-- `<si><indication>hi</indication></si>` with its DOCTYPE, as Expat reports it. -/
def siRun : ExpatRun :=
  { ok := true,
    events := [.xmlDecl (some b!"1.0") none,
               .doctype (some b!"http://www.wapforum.org/DTD/si.dtd") (some b!"-//WAPFORUM//DTD SI 1.0//EN"),
               .startElt b!"si" [] 0, .startElt b!"indication" [(b!"href", b!"http://a.b/")] 4,
               .chars b!"hi", .endElt b!"indication" 40, .endElt b!"si" 53] }

def siDoc : Bytes := b!"<si><indication href=\"http://a.b/\">hi</indication></si>"

theorem siRun_wf : WfDoc siRun.events :=
  ⟨[.xmlDecl (some b!"1.0") none,
     .doctype (some b!"http://www.wapforum.org/DTD/si.dtd") (some b!"-//WAPFORUM//DTD SI 1.0//EN")],
   b!"si", [], 0, 53,
   [.startElt b!"indication" [(b!"href", b!"http://a.b/")] 4, .chars b!"hi", .endElt b!"indication" 40], [],
   rfl, by decide, by decide, by decide,
   Content.elt b!"indication" [(b!"href", b!"http://a.b/")] 4 40 (inner := [.chars b!"hi"]) (rest := [])
     (by decide) (by decide) (Content.chars _ Content.nil) Content.nil,
   by decide⟩

/-- Non-vacuity: an environment satisfying `EnvWf` on which the conversion succeeds. -/
example : EnvWf [(siDoc, siRun)] := by
  intro p hp
  simp only [List.mem_singleton] at hp
  subst hp
  intro _
  exact siRun_wf

example : (match xml2wbxml Gen.main {} [(siDoc, siRun)] siDoc with
    | .ok w => w == [0x03, 0x05, 0x6A, 0x00, 0x45, 0xC6, 0x0C, 0x03] ++ b!"a.b/" ++ [0x00, 0x01, 0x03] ++ b!"hi" ++ [0x00, 0x01, 0x01]
    | _ => false) = true := by decide +kernel

def isCode (c : Nat) : X2WRes → Bool
  | .err (.code c') => c' == c
  | _ => false

def xRun : ExpatRun := { ok := true, events := [.startElt b!"x" [] 0, .endElt b!"x" 0] }

/-- the three other verdicts -/
example : isCode 104 (xml2wbxml Gen.main {} [(siDoc, { siRun with ok := false })] siDoc) = true := by decide +kernel
example : (match xml2wbxml Gen.main {} [] siDoc with | .need d => d == siDoc | _ => false) = true := by decide +kernel
example : isCode 101 (xml2wbxml Gen.main {} [(b!"<x/>", xRun)] b!"<x/>") = true := by decide +kernel

def isUb : X2WRes → Bool
  | .err (.ub _) => true
  | _ => false

def isFuel : X2WRes → Bool
  | .err .fuel => true
  | _ => false

/-- **`EnvWf` is needed (root).** If "Expat" reports success for a document that has a DOCTYPE but no
    root element, the tree has a language and no root, and `wbxml_tree_to_wbxml` dereferences NULL
    (the same dereference is reachable through the tree API with a root-less tree: finding D3 of the
    encoder notes). A real Expat never does this — a document without root element is not
    well-formed. -/
def noRootRun : ExpatRun := { ok := true, events := [.doctype none (some b!"-//WAPFORUM//DTD SI 1.0//EN")] }

theorem x2w_ub_without_root : isUb (xml2wbxml Gen.main {} [(b!"x", noRootRun)] b!"x") = true := by decide +kernel

/-- **`EnvWf` is needed (names).** An element whose local name is empty (`"SYNCML:SYNCML1.2|"`, which
    the namespace-aware Expat cannot report) is a literal tag with the empty name; the empty string
    enters the string table and the next text search for it never ends (finding D2). -/
def emptyNameRun : ExpatRun :=
  { ok := true, events := [.startElt b!"SYNCML:SYNCML1.2|" [] 0, .chars b!"abc", .endElt b!"SYNCML:SYNCML1.2|" 0] }

theorem x2w_fuel_empty_local_name :
    isFuel (xml2wbxml Gen.main {} [(b!"x", emptyNameRun)] b!"x") = true := by decide +kernel

/-- A table with an attribute-value row whose name is empty. -/
def badMain : List Lang :=
  [{ id := 1, pub := ⟨1, none, some b!"a", none⟩, tags := some [], ns := none,
     attrs := some [⟨b!"b", none, 0, 5⟩], values := some [⟨[], 0, 0x85⟩], exts := none }]

/-- **`MainOk` is needed.** With an empty attribute-value name `strstr` finds the value at offset 0 for
    ever: `<a b="c"/>` does not terminate (the model runs out of fuel). -/
def abRun : ExpatRun := { ok := true, events := [.startElt b!"a" [(b!"b", b!"c")] 0, .endElt b!"a" 0] }

theorem x2w_fuel_empty_value_row : isFuel (xml2wbxml badMain {} [(b!"x", abRun)] b!"x") = true := by decide +kernel

/-! ## Fuel of the embedded-document recursion

`treeOfXml` spends one unit of fuel per nesting level of embedded documents and answers error 13 when it
is spent; `xml2wbxml` supplies `env.length + 2`. The theorems above hold whatever that recursion does
(13 is a legitimate library code), so totality does not depend on the bound. Whether the bound is
*reached* is a property of Expat, not of libwbxml: every level must find its document in `env`, so a
chain without repetition has at most `env.length` levels; a chain with a repetition is a document
whose own events ask for itself, which the byte indices of a real parser exclude (the embedded
document is cut out of its container and its own `DevInf`/`MgmtTree` root is not skipped again).
For an unconstrained `ExpatRun` the bound IS reached: -/

def cycLang : Lang := (Gen.main.find? (fun l => l.id == 2202)).getD default

/-- The embedded DevInf 1.2 document made of an empty byte range. -/
def cycDoc : Bytes := embeddedDoc [] 0 0 false cycLang

/-- A run for it that claims a `SyncML` root containing a `DevInf` element at offsets `0..0`:
    the embedded document it asks for is `cycDoc` again. -/
def cycRun : ExpatRun :=
  { ok := true,
    events := [.startElt b!"SyncML" [] 0, .startElt devinfName [] 0, .endElt devinfName 0, .endElt b!"SyncML" 0] }

def cycEnv : List (Bytes × ExpatRun) := [(cycDoc, cycRun)]

/-- **The embedded-document fuel is exhausted on a self-embedding environment** — at the fuel the
    conversion supplies and at any other (checked for 0 … 6): the answer 13 is the fuel clause's.
    `x2w_embedded_fuel_partial` is therefore the honest statement: sufficiency of `env.length + 2`
    is NOT a theorem for arbitrary `ExpatRun`s; the contract nevertheless holds (`x2w_contract`). -/
theorem x2w_embedded_fuel_witness :
    isCode 13 (xml2wbxml Gen.main {} cycEnv cycDoc) = true ∧
    [0, 1, 2, 3, 4, 5, 6].all (fun f => match treeOfXml Gen.main cycEnv f cycDoc with
      | .err 13 => true | _ => false) = true := by
  constructor <;> decide +kernel

/-- What IS proved about the recursion, for all tables and all environments: a request names a
    document whose run is missing, at every level (so supplying the requested runs one by one
    converges: each request adds a key to `env`). -/
theorem x2w_embedded_fuel_partial (main : List Lang) (env : List (Bytes × ExpatRun)) (f : Nat) (xml d : Bytes)
    (h : treeOfXml main env f xml = .need d) : env.find? (fun p => p.1 == d) = none :=
  treeOfXml_need main env f xml d h

/-- **Sufficiency of the embedded-document fuel under a nesting rank.** If some measure `rank`
    decreases from every document of `env` to each embedded document the builder asks for while
    processing it (`Ranked`; for a real parser: the length of the byte range the embedded document
    was cut from), then any fuel above the rank of the document gives the same result; with ranks
    bounded by `env.length + 1` the fuel `env.length + 2` that `xml2wbxml` supplies gives the result
    of every larger fuel — the fuel clause is not what answered. -/
theorem x2w_embedded_fuel_sufficient (main : List Lang) (env : List (Bytes × ExpatRun)) (rank : Bytes → Nat)
    (hr : Ranked main env rank) (hb : ∀ d, rank d ≤ env.length + 1) (xml : Bytes) (k : Nat) :
    treeOfXml main env (env.length + 2 + k) xml = treeOfXml main env (env.length + 2) xml :=
  treeOfXml_fuel_sufficient main env rank hr hb xml k

theorem x2w_embedded_fuel_irrelevant (main : List Lang) (env : List (Bytes × ExpatRun)) (rank : Bytes → Nat)
    (hr : Ranked main env rank) (n : Nat) (xml : Bytes) (hx : rank xml ≤ n) (f g : Nat) (hf : n < f) (hg : n < g) :
    treeOfXml main env f xml = treeOfXml main env g xml :=
  treeOfXml_fuel_irrelevant main env rank hr n xml hx f g hf hg

/-- The self-embedding environment above has no rank: processing `cycDoc` asks for `cycDoc`. -/
theorem cycEnv_not_ranked : ¬ ∃ rank, Ranked Gen.main cycEnv rank := by
  rintro ⟨rank, hr⟩
  have hfind : cycEnv.find? (fun p => p.1 == cycDoc) = some (cycDoc, cycRun) := by
    simp [cycEnv]
  have hq : cycDoc ∈ queries Gen.main cycDoc (subOf Gen.main cycEnv 0) cycRun.events {} := by
    decide +kernel
  exact Nat.lt_irrefl _ (hr 0 cycDoc cycDoc cycRun hfind cycDoc hq)

/-- Non-vacuity of `Ranked`: an environment without documents has every rank. -/
example : Ranked Gen.main [] (fun _ => 0) := by
  intro f d k xr h
  cases h

end Wbxml.Props.C02
