/-
  C02 — XML→WBXML conversion is total, memory-safe and bounded.

  The model (`Model.xml2wbxml`) takes Expat's verdict and events as a parameter (`env`: the runs of
  Expat on the document and on every embedded document the conversion re-parses). Two hypotheses
  appear in the theorems and are shown to be necessary by witnesses at the end of the file:

  * `EnvWf env` — Expat's contract: when it reports success, the events form a document (prolog, one
    root element with balanced content, epilog) and element / attribute names are non-empty
    C strings;
  * `MainOk main` — no row of a tag, attribute or attribute-value table has an empty name
    (`gen_main_ok`: true of the regenerated tables, by kernel evaluation).
-/
import Wbxml.Lemmas.X2WMain
import Wbxml.Lemmas.X2WFuel
import Wbxml.Lemmas.X2WOut
import Wbxml.Lemmas.X2WDepth
import Wbxml.Gen.Tables
set_option maxRecDepth 100000
namespace Wbxml.Props.C02
open Wbxml Wbxml.Model Wbxml.Lemmas.X2W Wbxml.Lemmas.ParserSafe

/-- The regenerated tables satisfy the table hypothesis. -/
theorem gen_main_ok : MainOk Gen.main := by
  have h : Gen.main.all langNames = true := by decide +kernel
  intro l hl
  exact List.all_eq_true.mp h l hl

/-- What the conversion may answer. -/
def Contract (env : List (Bytes × ExpatRun)) : X2WRes → Prop
  | .ok _ => True
  | .err (.code c) => c ≠ 0
  | .err _ => False
  | .need d => env.find? (fun p => p.1 == d) = none

/-- **Contract**: for every table satisfying `MainOk`, every option block, every set of Expat runs
    satisfying `EnvWf` and every byte string, the conversion answers WBXML bytes, or a non-zero
    library error code, or asks for the Expat run of a document that is missing from `env` — never a
    model flag for undefined behaviour (NULL root, OTA `current_attr`, pointer past a terminator), a
    crash, or exhausted fuel. -/
theorem x2w_contract (main : List Lang) (cfg : X2WCfg) (env : List (Bytes × ExpatRun)) (xml : Bytes)
    (hm : MainOk main) (he : EnvWf env) : Contract env (xml2wbxml main cfg env xml) := by
  unfold xml2wbxml
  split
  · simp [Contract]
  · have hok := treeOfXml_ok main env hm he (env.length + 2) xml
    split
    · rename_i d hd
      exact treeOfXml_need main env _ xml d hd
    · rename_i c hc
      rw [hc] at hok
      exact hok
    · rename_i t ht
      rw [ht] at hok
      have hs := treeToWbxml_ok cfg t hok
      cases hw : treeToWbxml cfg t with
      | ok w => trivial
      | error e =>
        rw [hw] at hs
        cases e with
        | code c => exact hs
        | ub w => exact absurd hs (by simp [Safe])
        | fuel => exact absurd hs (by simp [Safe])
        | crash w => exact absurd hs (by simp [Safe])

/-- **Totality.** -/
theorem x2w_total (main : List Lang) (cfg : X2WCfg) (env : List (Bytes × ExpatRun)) (xml : Bytes)
    (hm : MainOk main) (he : EnvWf env) :
    (∃ w, xml2wbxml main cfg env xml = .ok w) ∨
    (∃ c, c ≠ 0 ∧ xml2wbxml main cfg env xml = .err (.code c)) ∨
    (∃ d, xml2wbxml main cfg env xml = .need d ∧ env.find? (fun p => p.1 == d) = none) := by
  have h := x2w_contract main cfg env xml hm he
  cases hr : xml2wbxml main cfg env xml with
  | ok w => exact Or.inl ⟨w, rfl⟩
  | need d => rw [hr] at h; exact Or.inr (Or.inr ⟨d, rfl, h⟩)
  | err e =>
    rw [hr] at h
    cases e with
    | code c => exact Or.inr (Or.inl ⟨c, h, rfl⟩)
    | ub w => exact absurd h (by simp [Contract])
    | fuel => exact absurd h (by simp [Contract])
    | crash w => exact absurd h (by simp [Contract])

theorem x2w_no_ub (main : List Lang) (cfg : X2WCfg) (env : List (Bytes × ExpatRun)) (xml : Bytes)
    (hm : MainOk main) (he : EnvWf env) (w : String) : xml2wbxml main cfg env xml ≠ .err (.ub w) := by
  intro h; have := x2w_contract main cfg env xml hm he; rw [h] at this; exact this

theorem x2w_fuel_sufficient (main : List Lang) (cfg : X2WCfg) (env : List (Bytes × ExpatRun)) (xml : Bytes)
    (hm : MainOk main) (he : EnvWf env) : xml2wbxml main cfg env xml ≠ .err .fuel := by
  intro h; have := x2w_contract main cfg env xml hm he; rw [h] at this; exact this

theorem x2w_no_crash (main : List Lang) (cfg : X2WCfg) (env : List (Bytes × ExpatRun)) (xml : Bytes)
    (hm : MainOk main) (he : EnvWf env) (w : String) : xml2wbxml main cfg env xml ≠ .err (.crash w) := by
  intro h; have := x2w_contract main cfg env xml hm he; rw [h] at this; exact this

/-- … for the tables of the tree under test. -/
theorem x2w_contract_gen (cfg : X2WCfg) (env : List (Bytes × ExpatRun)) (xml : Bytes) (he : EnvWf env) :
    Contract env (xml2wbxml Gen.main cfg env xml) := x2w_contract Gen.main cfg env xml gen_main_ok he

/-- The tree stage alone (any table satisfying `MainOk`): a tree on which the encoder is total, a
    non-zero code, or a request for a missing run. -/
theorem x2w_tree_total (main : List Lang) (env : List (Bytes × ExpatRun)) (hm : MainOk main) (he : EnvWf env)
    (f : Nat) (xml : Bytes) : ResOk (treeOfXml main env f xml) := treeOfXml_ok main env hm he f xml

/-- The encoder stage alone, on any tree of that kind — including trees built through the API. -/
theorem x2w_encoder_total (cfg : X2WCfg) (t : Tree) (ht : treeOk t = true) : Safe (treeToWbxml cfg t) :=
  treeToWbxml_ok cfg t ht

/-- **Empty input**: error 12 (`WBXML_ERROR_BAD_PARAMETER`), whatever else. -/
theorem x2w_empty (main : List Lang) (cfg : X2WCfg) (env : List (Bytes × ExpatRun)) :
    xml2wbxml main cfg env [] = .err (.code 12) := rfl

/-- **Text that is not well-formed XML is always an error**: when Expat refuses the document the
    answer is error 104 (`WBXML_ERROR_XML_PARSING_FAILED`) — or, in the model only, the request for
    the run of an embedded document that ended before the error. Never success, never another
    code. No hypothesis on tables or on Expat's events. -/
theorem x2w_illformed (main : List Lang) (cfg : X2WCfg) (env : List (Bytes × ExpatRun)) (xml k : Bytes)
    (xr : ExpatRun) (hne : xml ≠ []) (hfind : env.find? (fun p => p.1 == xml) = some (k, xr))
    (hok : xr.ok = false) :
    xml2wbxml main cfg env xml = .err (.code 104) ∨ ∃ d, xml2wbxml main cfg env xml = .need d := by
  have hemp : xml.isEmpty = false := by cases xml with | nil => exact absurd rfl hne | cons _ _ => rfl
  unfold xml2wbxml
  rw [hemp]
  simp only [Bool.false_eq_true, ↓reduceIte]
  rw [treeOfXml_succ, hemp, hfind]
  simp only [Bool.false_eq_true, ↓reduceIte, hok, Bool.not_false]
  cases hn : (xr.events.foldl (xbuildStep main xml (subOf main env (env.length + 1))) {}).need with
  | none => left; rfl
  | some d =>
    right
    simp only
    cases treeOfXml main env (env.length + 1) d <;> exact ⟨_, rfl⟩

/-- … exactly 104 when no embedded document is pending. -/
theorem x2w_illformed_no_pending (main : List Lang) (cfg : X2WCfg) (env : List (Bytes × ExpatRun)) (xml k : Bytes)
    (xr : ExpatRun) (hne : xml ≠ []) (hfind : env.find? (fun p => p.1 == xml) = some (k, xr))
    (hok : xr.ok = false)
    (hneed : (xr.events.foldl (xbuildStep main xml (subOf main env (env.length + 1))) {}).need = none) :
    xml2wbxml main cfg env xml = .err (.code 104) := by
  have hemp : xml.isEmpty = false := by cases xml with | nil => exact absurd rfl hne | cons _ _ => rfl
  unfold xml2wbxml
  rw [hemp]
  simp only [Bool.false_eq_true, ↓reduceIte]
  rw [treeOfXml_succ, hemp, hfind]
  simp only [Bool.false_eq_true, ↓reduceIte, hok, Bool.not_false, hneed]

/-- **A document whose language cannot be determined is always an error**: no DOCTYPE of the prolog
    is known to the table (by public or system identifier) and the root element matches no root
    name and no namespace ⇒ error 101 (`WBXML_ERROR_UNKNOWN_XML_LANGUAGE`), whatever follows the
    root start tag. -/
theorem x2w_unknown_lang (main : List Lang) (cfg : X2WCfg) (env : List (Bytes × ExpatRun)) (xml k : Bytes)
    (xr : ExpatRun) (hne : xml ≠ []) (hfind : env.find? (fun p => p.1 == xml) = some (k, xr))
    (hok : xr.ok = true) (pro rest : List XEvent) (name : Bytes) (attrs : List (Bytes × Bytes)) (i : Nat)
    (hev : xr.events = pro ++ .startElt name attrs i :: rest) (hpro : pro.all isPrologEv = true)
    (hdoc : ∀ sysid pubid, XEvent.doctype sysid pubid ∈ pro → searchTable main pubid sysid none = none)
    (hroot : searchTable main none none (some name) = none) :
    xml2wbxml main cfg env xml = .err (.code 101) := by
  have hemp : xml.isEmpty = false := by cases xml with | nil => exact absurd rfl hne | cons _ _ => rfl
  unfold xml2wbxml
  rw [hemp]
  simp only [Bool.false_eq_true, ↓reduceIte]
  rw [treeOfXml_succ, hemp, hfind]
  simp only [Bool.false_eq_true, ↓reduceIte, hok, Bool.not_true]
  -- the state after the prolog
  obtain ⟨p1, p2, p3, p4, p5⟩ := run_prolog main xml (subOf main env (env.length + 1)) pro hpro {}
  have pl := fold_prolog_unknown main xml (subOf main env (env.length + 1)) pro hpro hdoc {} rfl rfl
  -- the root start tag
  have hstep : ∀ (b : XBState), b.need = none → b.error = none → b.skipLvl = 0 → b.stack = [] → b.root = none →
      b.lang = none →
      xbuildStep main xml (subOf main env (env.length + 1)) b (.startElt name attrs i) = { b with error := some 101 } := by
    intro b h1 h2 h3 h4 h5 h6
    simp [xbuildStep, h1, h2, h3, h4, h5, h6, hroot]
  have hfold := fold_frozen main xml (subOf main env (env.length + 1)) 101 rest
    ({ List.foldl (xbuildStep main xml (subOf main env (env.length + 1))) {} pro with error := some 101 } : XBState)
    p1 p4 rfl
  rw [hev, List.foldl_append, List.foldl_cons, hstep _ p1 p2 p3 p4 p5 pl, hfold.1, hfold.2]

/-! ## The hypotheses are satisfiable, and each of them is needed

All evaluations below are kernel evaluations of the model on concrete inputs. -/

/-- `<si><indication>hi</indication></si>` with its DOCTYPE, as Expat reports it. -/
def siRun : ExpatRun :=
  { ok := true,
    events := [.xmlDecl (some b!"1.0") none,
               .doctype (some b!"http://www.wapforum.org/DTD/si.dtd") (some b!"-//WAPFORUM//DTD SI 1.0//EN"),
               .startElt b!"si" [] 0, .startElt b!"indication" [(b!"href", b!"http://a.b/")] 4,
               .chars b!"hi", .endElt b!"indication" 40, .endElt b!"si" 53] }

def siDoc : Bytes := b!"<si><indication href=\"http://a.b/\">hi</indication></si>"

theorem siRun_wf : WfDoc siRun.events :=
  ⟨[.xmlDecl (some b!"1.0") none,
     .doctype (some b!"http://www.wapforum.org/DTD/si.dtd") (some b!"-//WAPFORUM//DTD SI 1.0//EN")],
   b!"si", [], 0, 53,
   [.startElt b!"indication" [(b!"href", b!"http://a.b/")] 4, .chars b!"hi", .endElt b!"indication" 40], [],
   rfl, by decide, by decide, by decide,
   Content.elt b!"indication" [(b!"href", b!"http://a.b/")] 4 40 (inner := [.chars b!"hi"]) (rest := [])
     (by decide) (by decide) (Content.chars _ Content.nil) Content.nil,
   by decide⟩

/-- Non-vacuity: an environment satisfying `EnvWf` on which the conversion succeeds. -/
example : EnvWf [(siDoc, siRun)] := by
  intro p hp
  simp only [List.mem_singleton] at hp
  subst hp
  intro _
  exact siRun_wf

example : (match xml2wbxml Gen.main {} [(siDoc, siRun)] siDoc with
    | .ok w => w == [0x03, 0x05, 0x6A, 0x00, 0x45, 0xC6, 0x0C, 0x03] ++ b!"a.b/" ++ [0x00, 0x01, 0x03] ++ b!"hi" ++ [0x00, 0x01, 0x01]
    | _ => false) = true := by decide +kernel

def isCode (c : Nat) : X2WRes → Bool
  | .err (.code c') => c' == c
  | _ => false

def xRun : ExpatRun := { ok := true, events := [.startElt b!"x" [] 0, .endElt b!"x" 0] }

/-- the three other verdicts -/
example : isCode 104 (xml2wbxml Gen.main {} [(siDoc, { siRun with ok := false })] siDoc) = true := by decide +kernel
example : (match xml2wbxml Gen.main {} [] siDoc with | .need d => d == siDoc | _ => false) = true := by decide +kernel
example : isCode 101 (xml2wbxml Gen.main {} [(b!"<x/>", xRun)] b!"<x/>") = true := by decide +kernel

def isUb : X2WRes → Bool
  | .err (.ub _) => true
  | _ => false

def isFuel : X2WRes → Bool
  | .err .fuel => true
  | _ => false

/-- **`EnvWf` is needed (root).** If "Expat" reports success for a document that has a DOCTYPE but no
    root element, the tree has a language and no root, and `wbxml_tree_to_wbxml` dereferences NULL
    (the same dereference is reachable through the tree API with a root-less tree: finding D3 of the
    encoder notes). A real Expat never does this — a document without root element is not
    well-formed. -/
def noRootRun : ExpatRun := { ok := true, events := [.doctype none (some b!"-//WAPFORUM//DTD SI 1.0//EN")] }

theorem x2w_ub_without_root : isUb (xml2wbxml Gen.main {} [(b!"x", noRootRun)] b!"x") = true := by decide +kernel

/-- **`EnvWf` is needed (names).** An element whose local name is empty (`"SYNCML:SYNCML1.2|"`, which
    the namespace-aware Expat cannot report) is a literal tag with the empty name; the empty string
    enters the string table and the next text search for it never ends (finding D2). -/
def emptyNameRun : ExpatRun :=
  { ok := true, events := [.startElt b!"SYNCML:SYNCML1.2|" [] 0, .chars b!"abc", .endElt b!"SYNCML:SYNCML1.2|" 0] }

theorem x2w_fuel_empty_local_name :
    isFuel (xml2wbxml Gen.main {} [(b!"x", emptyNameRun)] b!"x") = true := by decide +kernel

/-- A table with an attribute-value row whose name is empty. -/
def badMain : List Lang :=
  [{ id := 1, pub := ⟨1, none, some b!"a", none⟩, tags := some [], ns := none,
     attrs := some [⟨b!"b", none, 0, 5⟩], values := some [⟨[], 0, 0x85⟩], exts := none }]

/-- **`MainOk` is needed.** With an empty attribute-value name `strstr` finds the value at offset 0 for
    ever: `<a b="c"/>` does not terminate (the model runs out of fuel). -/
def abRun : ExpatRun := { ok := true, events := [.startElt b!"a" [(b!"b", b!"c")] 0, .endElt b!"a" 0] }

theorem x2w_fuel_empty_value_row : isFuel (xml2wbxml badMain {} [(b!"x", abRun)] b!"x") = true := by decide +kernel

/-! ## Fuel of the embedded-document recursion

`treeOfXml` spends one unit of fuel per nesting level of embedded documents and answers error 13 when it
is spent; `xml2wbxml` supplies `env.length + 2`. The theorems above hold whatever that recursion does
(13 is a legitimate library code), so totality does not depend on the bound. Whether the bound is
*reached* is a property of Expat, not of libwbxml: every level must find its document in `env`, so a
chain without repetition has at most `env.length` levels; a chain with a repetition is a document
whose own events ask for itself, which the byte indices of a real parser exclude (the embedded
document is cut out of its container and its own `DevInf`/`MgmtTree` root is not skipped again).
For an unconstrained `ExpatRun` the bound IS reached: -/

def cycLang : Lang := (Gen.main.find? (fun l => l.id == 2202)).getD default

/-- The embedded DevInf 1.2 document made of an empty byte range. -/
def cycDoc : Bytes := embeddedDoc [] 0 0 false cycLang

/-- A run for it that claims a `SyncML` root containing a `DevInf` element at offsets `0..0`:
    the embedded document it asks for is `cycDoc` again. -/
def cycRun : ExpatRun :=
  { ok := true,
    events := [.startElt b!"SyncML" [] 0, .startElt devinfName [] 0, .endElt devinfName 0, .endElt b!"SyncML" 0] }

def cycEnv : List (Bytes × ExpatRun) := [(cycDoc, cycRun)]

/-- **The embedded-document fuel is exhausted on a self-embedding environment** — at the fuel the
    conversion supplies and at any other (checked for 0 … 6): the answer 13 is the fuel clause's.
    `x2w_embedded_fuel_partial` is therefore the honest statement: sufficiency of `env.length + 2`
    is NOT a theorem for arbitrary `ExpatRun`s; the contract nevertheless holds (`x2w_contract`). -/
theorem x2w_embedded_fuel_witness :
    isCode 13 (xml2wbxml Gen.main {} cycEnv cycDoc) = true ∧
    [0, 1, 2, 3, 4, 5, 6].all (fun f => match treeOfXml Gen.main cycEnv f cycDoc with
      | .err 13 => true | _ => false) = true := by
  constructor <;> decide +kernel

/-- What IS proved about the recursion, for all tables and all environments: a request names a
    document whose run is missing, at every level (so supplying the requested runs one by one
    converges: each request adds a key to `env`). -/
theorem x2w_embedded_fuel_partial (main : List Lang) (env : List (Bytes × ExpatRun)) (f : Nat) (xml d : Bytes)
    (h : treeOfXml main env f xml = .need d) : env.find? (fun p => p.1 == d) = none :=
  treeOfXml_need main env f xml d h

/-- **Sufficiency of the embedded-document fuel under a nesting rank.** If some measure `rank`
    decreases from every document of `env` to each embedded document the builder asks for while
    processing it (`Ranked`; for a real parser: the length of the byte range the embedded document
    was cut from), then any fuel above the rank of the document gives the same result; with ranks
    bounded by `env.length + 1` the fuel `env.length + 2` that `xml2wbxml` supplies gives the result
    of every larger fuel — the fuel clause is not what answered. -/
theorem x2w_embedded_fuel_sufficient (main : List Lang) (env : List (Bytes × ExpatRun)) (rank : Bytes → Nat)
    (hr : Ranked main env rank) (hb : ∀ d, rank d ≤ env.length + 1) (xml : Bytes) (k : Nat) :
    treeOfXml main env (env.length + 2 + k) xml = treeOfXml main env (env.length + 2) xml :=
  treeOfXml_fuel_sufficient main env rank hr hb xml k

theorem x2w_embedded_fuel_irrelevant (main : List Lang) (env : List (Bytes × ExpatRun)) (rank : Bytes → Nat)
    (hr : Ranked main env rank) (n : Nat) (xml : Bytes) (hx : rank xml ≤ n) (f g : Nat) (hf : n < f) (hg : n < g) :
    treeOfXml main env f xml = treeOfXml main env g xml :=
  treeOfXml_fuel_irrelevant main env rank hr n xml hx f g hf hg

/-- The self-embedding environment above has no rank: processing `cycDoc` asks for `cycDoc`. -/
theorem cycEnv_not_ranked : ¬ ∃ rank, Ranked Gen.main cycEnv rank := by
  rintro ⟨rank, hr⟩
  have hfind : cycEnv.find? (fun p => p.1 == cycDoc) = some (cycDoc, cycRun) := by
    simp [cycEnv]
  have hq : cycDoc ∈ queries Gen.main cycDoc (subOf Gen.main cycEnv 0) cycRun.events {} := by
    decide +kernel
  exact Nat.lt_irrefl _ (hr 0 cycDoc cycDoc cycRun hfind cycDoc hq)

/-- Non-vacuity of `Ranked`: an environment without documents has every rank. -/
example : Ranked Gen.main [] (fun _ => 0) := by
  intro f d k xr h
  cases h

/-! ## Size and depth bounds

"The document after entity expansion" is, in the model, the list of events Expat reported (Expat is a
parameter; entity expansion is its work). `evSize` counts one unit per event and per attribute plus
all octets of element names, attribute names, attribute values and character data. A conversion
also re-parses every embedded DevInf / DM-DDF document from its own run; `expSize` / `expDocs` /
`expStarts` sum events / documents / start-element events over that recursion exactly as
`treeOfXml` performs it (for a document that embeds nothing: `expSize = evSize events`,
`expDocs = 1`, see `x2w_bounded_plain`).

`Tree.size` counts one unit per `WBXMLTree`, per node and per attribute, plus all octets of names
(literal buffers and the table names of tokens), attribute values and text. -/

/-- **The tree is linear in the events** — every table, every environment, every fuel, every run
    (no hypothesis: not even well-formedness of the events). Per event at most twice its size:
    a character-data event may add a CDATA node and a text node, a lone LF becomes CR LF. -/
theorem x2w_tree_size_le (main : List Lang) (env : List (Bytes × ExpatRun)) (f : Nat) (xml : Bytes) (t : Tree)
    (h : treeOfXml main env f xml = .ok t) :
    t.size ≤ 2 * expSize main env f xml + expDocs main env f xml := by
  have := treeOfXml_sizeW main env (fun _ => 0) 1 (fun _ _ _ _ => Nat.le_refl _) f xml t h
  simpa [Tree.size] using this

/-- … in terms of the events alone (every embedded document is closed by an end-element event). -/
theorem x2w_tree_size_le_events (main : List Lang) (env : List (Bytes × ExpatRun)) (f : Nat) (xml : Bytes) (t : Tree)
    (h : treeOfXml main env f xml = .ok t) : t.size ≤ 3 * expSize main env f xml + 1 := by
  have h1 := x2w_tree_size_le main env f xml t h
  have h2 := expDocs_le main env f xml
  omega

/-- … for a document that embeds no other document: `2 * evSize events + 1`. -/
theorem x2w_tree_size_plain (main : List Lang) (env : List (Bytes × ExpatRun)) (f : Nat) (xml k : Bytes) (run : ExpatRun)
    (t : Tree) (hfind : env.find? (fun p => p.1 == xml) = some (k, run))
    (hq : queries main xml (subOf main env f) run.events {} = [])
    (h : treeOfXml main env (f + 1) xml = .ok t) : t.size ≤ 2 * evSize run.events + 1 := by
  have h1 := x2w_tree_size_le main env (f + 1) xml t h
  obtain ⟨e1, e2⟩ := expSize_plain main env f xml k run hfind hq
  omega

/-- **Nesting depth**: the element nesting of the built tree (embedded documents entered) is at most
    the number of start-element events, which is at most the size of the events. CDATA nodes and
    text nodes are the only other levels: `Tree.depth ≤ Tree.size` below. -/
theorem x2w_depth_le (main : List Lang) (env : List (Bytes × ExpatRun)) (f : Nat) (xml : Bytes) (t : Tree)
    (h : treeOfXml main env f xml = .ok t) :
    t.eltDepth ≤ expStarts main env f xml ∧ expStarts main env f xml ≤ expSize main env f xml :=
  ⟨treeOfXml_eltDepth main env f xml t h, expStarts_le_expSize main env f xml⟩

/-- **Recursion depth of the encoder** on ANY tree: `parse_node` recurses once per nesting level and
    once per sibling (`Tree.walk`, the shape of the model's `encNodeG` / `encNodesW` recursion, which
    is structural — the model spends no fuel on it; the only fuel of the encoder model is
    `splitPass`'s, see `x2w_fuel_sufficient`). It is at least the nesting depth and less than the
    tree size. The C call stack itself is outside the model (known finding "deep nesting"). -/
theorem x2w_walk_le (t : Tree) : t.depth ≤ 1 + t.walk ∧ 1 + t.walk ≤ t.size :=
  ⟨depth_le_walk _, walkIn_lt_size _⟩

/-- … and the sibling walk alone reaches it: `k` empty text siblings need `k` frames. -/
theorem x2w_walk_siblings (k : Nat) : Node.walkL (List.replicate k (.text [])) = k := walkL_replicate k

/-- … for the trees the conversion builds: recursion depth linear in the events. -/
theorem x2w_recursion_le (main : List Lang) (env : List (Bytes × ExpatRun)) (f : Nat) (xml : Bytes) (t : Tree)
    (h : treeOfXml main env f xml = .ok t) :
    1 + t.walk ≤ 2 * expSize main env f xml + expDocs main env f xml :=
  Nat.le_trans (x2w_walk_le t).2 (x2w_tree_size_le main env f xml t h)

/-- **The output is linear in the tree** — every option block, every well-named tree (`treeOk`; trees
    built through the API included): at most ten octets per unit of tree size, plus for the document
    and each embedded document its textual public identifier and 20 octets (header ≤ 14, OPAQUE
    frame ≤ 6). Where the ten come from: an inline string costs 2 more than its octets, a string-table
    reference ≤ 6, an opaque ≤ 6 + length, a tag or attribute token ≤ 3 with its page switch, a
    literal ≤ 6 plus its table entry; a text cut up by `k` references is `k` octets shorter and `≤ 8 k`
    longer; typed content (base64, integers, date-times) only shrinks, the SyncML `+xml` → `+wbxml`
    label grows by two; the string table built before the walk holds only strings of the tree. -/
theorem x2w_output_le (cfg : X2WCfg) (t : Tree) (ht : treeOk t = true) (bs : Bytes)
    (h : treeToWbxml cfg t = .ok bs) : bs.length ≤ 10 * t.size + t.hdr docW :=
  treeToWbxml_length cfg t ht bs h

/-- The decomposition of a successful conversion. -/
theorem x2w_ok_stages (main : List Lang) (cfg : X2WCfg) (env : List (Bytes × ExpatRun)) (xml bs : Bytes)
    (h : xml2wbxml main cfg env xml = .ok bs) :
    ∃ t, treeOfXml main env (env.length + 2) xml = .ok t ∧ treeToWbxml cfg t = .ok bs := by
  unfold xml2wbxml at h
  split at h
  · cases h
  · split at h
    · cases h
    · cases h
    · rename_i t ht
      refine ⟨t, ht, ?_⟩
      split at h
      · rename_i w hw
        injection h with h
        rw [hw, h]
      · cases h

/-- **Bounded**: for every table satisfying `MainOk`, every option tuple, every environment
    satisfying `EnvWf` and every document, the WBXML output is at most
    `20 * expSize + (pubMax main + 30) * expDocs` octets long (`pubMax`: longest XML public identifier
    of the table; 32 for the regenerated tables). -/
theorem x2w_bounded (main : List Lang) (cfg : X2WCfg) (env : List (Bytes × ExpatRun)) (xml bs : Bytes)
    (hm : MainOk main) (he : EnvWf env) (h : xml2wbxml main cfg env xml = .ok bs) :
    bs.length ≤ 20 * expSize main env (env.length + 2) xml +
      (pubMax main + 30) * expDocs main env (env.length + 2) xml := by
  obtain ⟨t, ht, hw⟩ := x2w_ok_stages main cfg env xml bs h
  have hok : treeOk t = true := by
    have := treeOfXml_ok main env hm he (env.length + 2) xml
    rw [ht] at this
    exact this
  have h1 := x2w_output_le cfg t hok bs hw
  have h2 := x2w_tree_size_le main env _ xml t ht
  have h3 := treeOfXml_sizeW main env docW (pubMax main + 21)
    (fun f x t' h' => docW_le main t'.lang (treeOfXml_lang_mem main env hm he f x t' h')) _ xml t ht
  rw [tree_sizeW_eq] at h3
  generalize expSize main env (env.length + 2) xml = E at *
  generalize expDocs main env (env.length + 2) xml = Dn at *
  have e1 : (pubMax main + 21) * Dn = pubMax main * Dn + 21 * Dn := Nat.add_mul _ _ _
  have e2 : (pubMax main + 30) * Dn = pubMax main * Dn + 30 * Dn := Nat.add_mul _ _ _
  omega

/-- … as one linear function of the events: `A * expSize + B` with `A = pubMax main + 50`,
    `B = pubMax main + 30`. -/
theorem x2w_bounded_linear (main : List Lang) (cfg : X2WCfg) (env : List (Bytes × ExpatRun)) (xml bs : Bytes)
    (hm : MainOk main) (he : EnvWf env) (h : xml2wbxml main cfg env xml = .ok bs) :
    bs.length ≤ (pubMax main + 50) * expSize main env (env.length + 2) xml + (pubMax main + 30) := by
  have h1 := x2w_bounded main cfg env xml bs hm he h
  have h2 := expDocs_le main env (env.length + 2) xml
  generalize expSize main env (env.length + 2) xml = E at *
  generalize expDocs main env (env.length + 2) xml = Dn at *
  have h3 : (pubMax main + 30) * Dn ≤ (pubMax main + 30) * (1 + E) := Nat.mul_le_mul_left _ h2
  have e1 : (pubMax main + 30) * (1 + E) = (pubMax main + 30) + (pubMax main + 30) * E := by
    rw [Nat.mul_add, Nat.mul_one]
  have e2 : (pubMax main + 50) * E = (pubMax main + 30) * E + 20 * E := by
    have : pubMax main + 50 = (pubMax main + 30) + 20 := by omega
    rw [this, Nat.add_mul]
  omega

/-- … for a document that embeds no other document: `20 * evSize events + pubMax main + 30`. -/
theorem x2w_bounded_plain (main : List Lang) (cfg : X2WCfg) (env : List (Bytes × ExpatRun)) (xml k bs : Bytes)
    (run : ExpatRun) (hm : MainOk main) (he : EnvWf env)
    (hfind : env.find? (fun p => p.1 == xml) = some (k, run))
    (hq : queries main xml (subOf main env (env.length + 1)) run.events {} = [])
    (h : xml2wbxml main cfg env xml = .ok bs) :
    bs.length ≤ 20 * evSize run.events + pubMax main + 30 := by
  have h1 := x2w_bounded main cfg env xml bs hm he h
  obtain ⟨e1, e2⟩ := expSize_plain main env (env.length + 1) xml k run hfind hq
  rw [e1, e2] at h1
  omega

theorem gen_pubMax : pubMax Gen.main = 32 := by decide +kernel

/-- … with the tables of the tree under test: `20 * expSize + 62 * expDocs ≤ 82 * expSize + 62`. -/
theorem x2w_bounded_gen (cfg : X2WCfg) (env : List (Bytes × ExpatRun)) (xml bs : Bytes) (he : EnvWf env)
    (h : xml2wbxml Gen.main cfg env xml = .ok bs) :
    bs.length ≤ 20 * expSize Gen.main env (env.length + 2) xml + 62 * expDocs Gen.main env (env.length + 2) xml ∧
    bs.length ≤ 82 * expSize Gen.main env (env.length + 2) xml + 62 := by
  have h1 := x2w_bounded Gen.main cfg env xml bs gen_main_ok he h
  have h2 := x2w_bounded_linear Gen.main cfg env xml bs gen_main_ok he h
  rw [gen_pubMax] at h1 h2
  exact ⟨h1, h2⟩

/-- **Linear space.** Every object the model of a successful conversion holds is linearly bounded by
    the events: the tree (`t.size`), the encoder's call depth (`t.walk`), the final encoder state —
    output buffer plus declared string table (`st.out.length + st.strtblLen`; the CDATA buffer is
    part of the same potential during the walk, `encNodeG_pot`) — and the result. Embedded documents
    are encoded by the same walk into their own output and table, bounded the same way
    (`Node.hdr` carries their headers).

    What this says about heap use: the C objects these model — `WBXMLTree` nodes with their name /
    value / content buffers, the `WBXMLBuffer` output, the string-table list and its buffers — hold at
    most this many octets of payload and this many objects. What it cannot say: the size of each C
    object header, allocator overhead, and the growth policy of `WBXMLBuffer` reallocation (a buffer
    may hold a constant factor more than its length), nor Expat's own memory; those are observed, not
    proved, by the heap ladder of `tools/props/c02.py` (peak heap against input length over a geometric
    ladder of document sizes). The C call stack is likewise outside the model (`x2w_walk_le` bounds
    the logical recursion depth; the known finding on deep nesting stays). -/
theorem x2w_linear_space (main : List Lang) (cfg : X2WCfg) (env : List (Bytes × ExpatRun)) (xml bs : Bytes)
    (hm : MainOk main) (he : EnvWf env) (h : xml2wbxml main cfg env xml = .ok bs) :
    ∃ t lang r st, treeOfXml main env (env.length + 2) xml = .ok t ∧ t.lang = some lang ∧ t.root = some r ∧
      encNodeG (Wbxml.Lemmas.EncW.dcfgOf cfg lang) none true r (docStartW (Wbxml.Lemmas.EncW.dcfgOf cfg lang) r) = .ok st ∧
      bs = (fillHeaderW (Wbxml.Lemmas.EncW.dcfgOf cfg lang) st).1 ++ st.out ∧
      t.size ≤ 2 * expSize main env (env.length + 2) xml + expDocs main env (env.length + 2) xml ∧
      1 + t.walk ≤ t.size ∧
      st.out.length + st.strtblLen ≤ 10 * t.size + t.hdr docW ∧
      bs.length ≤ 10 * t.size + t.hdr docW ∧
      bs.length ≤ 20 * expSize main env (env.length + 2) xml +
        (pubMax main + 30) * expDocs main env (env.length + 2) xml := by
  obtain ⟨t, ht, hw⟩ := x2w_ok_stages main cfg env xml bs h
  have hok : treeOk t = true := by
    have := treeOfXml_ok main env hm he (env.length + 2) xml
    rw [ht] at this
    exact this
  obtain ⟨lang, r, st, hl, hr, henc, hbs, hst⟩ := treeToWbxml_state cfg t hok bs hw
  refine ⟨t, lang, r, st, ht, hl, hr, henc, hbs, x2w_tree_size_le main env _ xml t ht, (x2w_walk_le t).2, ?_,
    x2w_output_le cfg t hok bs hw, x2w_bounded main cfg env xml bs hm he h⟩
  have e1 : t.size = 1 + r.size := by
    simp [Tree.size, Tree.sizeW, hr, Node.sizeW, Node.size]
  have e2 : t.hdr docW = docW t.lang + r.hdr docW := by
    simp [Tree.hdr, hr, Node.hdr]
  omega

/-! ### Non-vacuity of the bounds, and how far from tight they are -/

/-- `<wml><card id="a"><p>hi</p></card></wml>` with its DOCTYPE, as Expat reports it. -/
def wmlDoc : Bytes := b!"<wml><card id=\"a\"><p>hi</p></card></wml>"

def wmlRun : ExpatRun :=
  { ok := true,
    events := [.doctype (some b!"http://www.wapforum.org/DTD/wml_1.1.xml") (some b!"-//WAPFORUM//DTD WML 1.1//EN"),
               .startElt b!"wml" [] 0, .startElt b!"card" [(b!"id", b!"a")] 5, .startElt b!"p" [] 18,
               .chars b!"hi", .endElt b!"p" 23, .endElt b!"card" 27, .endElt b!"wml" 34] }

def wmlEnv : List (Bytes × ExpatRun) := [(wmlDoc, wmlRun)]

theorem wmlRun_wf : WfDoc wmlRun.events :=
  ⟨[.doctype (some b!"http://www.wapforum.org/DTD/wml_1.1.xml") (some b!"-//WAPFORUM//DTD WML 1.1//EN")],
   b!"wml", [], 0, 34,
   [.startElt b!"card" [(b!"id", b!"a")] 5, .startElt b!"p" [] 18, .chars b!"hi", .endElt b!"p" 23, .endElt b!"card" 27], [],
   rfl, by decide, by decide, by decide,
   Content.elt b!"card" [(b!"id", b!"a")] 5 27
     (inner := [.startElt b!"p" [] 18, .chars b!"hi", .endElt b!"p" 23]) (rest := [])
     (by decide) (by decide)
     (Content.elt b!"p" [] 18 23 (inner := [.chars b!"hi"]) (rest := []) (by decide) (by decide)
       (Content.chars _ Content.nil) Content.nil)
     Content.nil,
   by decide⟩

theorem wmlEnv_wf : EnvWf wmlEnv := by
  intro p hp
  simp only [wmlEnv, List.mem_singleton] at hp
  subst hp
  intro _
  exact wmlRun_wf

/-- The WML run: 30 units of events, a tree of 19 units (element nesting 3, call depth 5),
    19 octets of WBXML; the bound of `x2w_bounded_gen` is `20 * 30 + 62 = 662`. -/
example : (match treeOfXml Gen.main wmlEnv 3 wmlDoc, xml2wbxml Gen.main {} wmlEnv wmlDoc with
    | .ok t, .ok bs => (evSize wmlRun.events, expSize Gen.main wmlEnv 3 wmlDoc, expDocs Gen.main wmlEnv 3 wmlDoc,
        expStarts Gen.main wmlEnv 3 wmlDoc, t.size, t.hdr docW, t.eltDepth, 1 + t.walk, bs.length) ==
        (30, 30, 1, 3, 19, 48, 3, 5, 19)
    | _, _ => false) = true := by decide +kernel

example : ∃ bs, xml2wbxml Gen.main {} wmlEnv wmlDoc = .ok bs ∧
    bs.length ≤ 20 * expSize Gen.main wmlEnv 3 wmlDoc + 62 * expDocs Gen.main wmlEnv 3 wmlDoc := by
  cases h : xml2wbxml Gen.main {} wmlEnv wmlDoc with
  | ok bs => exact ⟨bs, rfl, (x2w_bounded_gen {} wmlEnv wmlDoc bs wmlEnv_wf h).1⟩
  | err e =>
    have : (match xml2wbxml Gen.main {} wmlEnv wmlDoc with | .ok _ => true | _ => false) = true := by decide +kernel
    rw [h] at this; cases this
  | need d =>
    have : (match xml2wbxml Gen.main {} wmlEnv wmlDoc with | .ok _ => true | _ => false) = true := by decide +kernel
    rw [h] at this; cases this

/-- A SyncML 1.2 message whose `Data` element holds a DevInf document; the conversion re-parses the
    byte range of the `DevInf` element as a document of its own. -/
def syDoc : Bytes :=
  b!"<SyncML xmlns=\"SYNCML:SYNCML1.2\"><SyncBody><Results><Item><Data><DevInf xmlns=\"syncml:devinf\"><VerDTD>1.2</VerDTD><Man>x</Man></DevInf></Data></Item></Results></SyncBody></SyncML>"

def devinfLang : Lang := (Gen.main.find? (fun l => l.id == 2202)).getD default

/-- The embedded document the C code builds from bytes 64 … 126 of `syDoc`. -/
def dvDoc : Bytes := embeddedDoc syDoc 64 126 false devinfLang

def syN (s : Bytes) : Bytes := b!"SYNCML:SYNCML1.2|" ++ s
def syD (s : Bytes) : Bytes := b!"syncml:devinf|" ++ s

def syRun : ExpatRun :=
  { ok := true,
    events := [.startElt (syN b!"SyncML") [] 0, .startElt (syN b!"SyncBody") [] 33, .startElt (syN b!"Results") [] 43,
               .startElt (syN b!"Item") [] 52, .startElt (syN b!"Data") [] 58,
               .startElt (syD b!"DevInf") [] 64, .startElt (syD b!"VerDTD") [] 94, .chars b!"1.2",
               .endElt (syD b!"VerDTD") 105, .startElt (syD b!"Man") [] 114, .chars b!"x", .endElt (syD b!"Man") 120,
               .endElt (syD b!"DevInf") 126,
               .endElt (syN b!"Data") 135, .endElt (syN b!"Item") 142, .endElt (syN b!"Results") 149,
               .endElt (syN b!"SyncBody") 159, .endElt (syN b!"SyncML") 170] }

def dvRun : ExpatRun :=
  { ok := true,
    events := [.doctype (some b!"http://www.openmobilealliance.org/tech/DTD/OMA-SyncML-Device_Information-DTD-1.2.dtd")
                 (some b!"-//SYNCML//DTD DevInf 1.2//EN"),
               .startElt (syD b!"DevInf") [] 140, .startElt (syD b!"VerDTD") [] 170, .chars b!"1.2",
               .endElt (syD b!"VerDTD") 181, .startElt (syD b!"Man") [] 190, .chars b!"x", .endElt (syD b!"Man") 196,
               .endElt (syD b!"DevInf") 202] }

def syEnv : List (Bytes × ExpatRun) := [(syDoc, syRun), (dvDoc, dvRun)]

theorem dvContent : Content [.startElt (syD b!"VerDTD") [] 170, .chars b!"1.2", .endElt (syD b!"VerDTD") 181,
    .startElt (syD b!"Man") [] 190, .chars b!"x", .endElt (syD b!"Man") 196] :=
  Content.elt (syD b!"VerDTD") [] 170 181 (inner := [.chars b!"1.2"])
    (rest := [.startElt (syD b!"Man") [] 190, .chars b!"x", .endElt (syD b!"Man") 196])
    (by decide) (by decide) (Content.chars _ Content.nil)
    (Content.elt (syD b!"Man") [] 190 196 (inner := [.chars b!"x"]) (rest := []) (by decide) (by decide)
      (Content.chars _ Content.nil) Content.nil)

theorem dvRun_wf : WfDoc dvRun.events :=
  ⟨[.doctype (some b!"http://www.openmobilealliance.org/tech/DTD/OMA-SyncML-Device_Information-DTD-1.2.dtd")
      (some b!"-//SYNCML//DTD DevInf 1.2//EN")],
   syD b!"DevInf", [], 140, 202, _, [], rfl, by decide, by decide, by decide, dvContent, by decide⟩

theorem syRun_wf : WfDoc syRun.events :=
  ⟨[], syN b!"SyncML", [], 0, 170, _, [], rfl, by decide, by decide, by decide,
   Content.elt (syN b!"SyncBody") [] 33 159 (rest := []) (by decide) (by decide)
     (Content.elt (syN b!"Results") [] 43 149 (rest := []) (by decide) (by decide)
       (Content.elt (syN b!"Item") [] 52 142 (rest := []) (by decide) (by decide)
         (Content.elt (syN b!"Data") [] 58 135 (rest := []) (by decide) (by decide)
           (Content.elt (syD b!"DevInf") [] 64 126 (rest := []) (by decide) (by decide)
             (Content.elt (syD b!"VerDTD") [] 94 105 (inner := [.chars b!"1.2"])
               (rest := [.startElt (syD b!"Man") [] 114, .chars b!"x", .endElt (syD b!"Man") 120])
               (by decide) (by decide) (Content.chars _ Content.nil)
               (Content.elt (syD b!"Man") [] 114 120 (inner := [.chars b!"x"]) (rest := []) (by decide) (by decide)
                 (Content.chars _ Content.nil) Content.nil))
             Content.nil)
           Content.nil)
         Content.nil)
       Content.nil)
     Content.nil,
   by decide⟩

theorem syEnv_wf : EnvWf syEnv := by
  intro p hp
  simp only [syEnv, List.mem_cons, List.mem_nil_iff, or_false] at hp
  rcases hp with rfl | rfl
  · intro _; exact syRun_wf
  · intro _; exact dvRun_wf

/-- The SyncML run with its embedded DevInf run: 364 + 127 = 491 units of events in 2 documents,
    11 start-element events; the tree has 60 units (element nesting 7 through the embedded document,
    call depth 11), 36 octets of WBXML; the bound is `20 * 491 + 62 * 2`. The long namespace-prefixed
    names Expat reports make the events much larger than the tree here. -/
example : (match treeOfXml Gen.main syEnv 4 syDoc, xml2wbxml Gen.main {} syEnv syDoc with
    | .ok t, .ok bs => (evSize syRun.events, evSize dvRun.events, expSize Gen.main syEnv 4 syDoc,
        expDocs Gen.main syEnv 4 syDoc, expStarts Gen.main syEnv 4 syDoc, t.size, t.hdr docW, t.eltDepth, 1 + t.walk,
        bs.length) == (364, 127, 491, 2, 11, 60, 98, 7, 11, 36)
    | _, _ => false) = true := by decide +kernel

example : ∃ bs, xml2wbxml Gen.main {} syEnv syDoc = .ok bs ∧
    bs.length ≤ 20 * expSize Gen.main syEnv 4 syDoc + 62 * expDocs Gen.main syEnv 4 syDoc := by
  cases h : xml2wbxml Gen.main {} syEnv syDoc with
  | ok bs => exact ⟨bs, rfl, (x2w_bounded_gen {} syEnv syDoc bs syEnv_wf h).1⟩
  | err e =>
    have : (match xml2wbxml Gen.main {} syEnv syDoc with | .ok _ => true | _ => false) = true := by decide +kernel
    rw [h] at this; cases this
  | need d =>
    have : (match xml2wbxml Gen.main {} syEnv syDoc with | .ok _ => true | _ => false) = true := by decide +kernel
    rw [h] at this; cases this

/-- **The factor is really larger than 1.** `<si><x>xxxxxxxx</x></si>`: the unknown element `x` is a
    literal tag, its name enters the string table, and every `x` of the text becomes a two-octet
    table reference: 19 units of events, a tree of 15 units, 27 octets of WBXML (the 8 octets of
    text alone cost 16). With a table of more than 127 octets each reference takes three octets, so
    no constant below 3 per octet of text can be proved; the proof's 8 + 2 is not tight. -/
def txDoc : Bytes := b!"<si><x>xxxxxxxx</x></si>"

def txRun : ExpatRun :=
  { ok := true,
    events := [.startElt b!"si" [] 0, .startElt b!"x" [] 4, .chars b!"xxxxxxxx", .endElt b!"x" 15, .endElt b!"si" 19] }

theorem x2w_output_exceeds_input :
    (match treeOfXml Gen.main [(txDoc, txRun)] 3 txDoc, xml2wbxml Gen.main {} [(txDoc, txRun)] txDoc with
     | .ok t, .ok bs => (evSize txRun.events, t.size, bs.length) == (19, 15, 27) &&
         bs == [0x03, 0x05, 0x6A, 0x02, 0x78, 0x00, 0x45, 0x44, 0x00,
                0x83, 0x00, 0x83, 0x00, 0x83, 0x00, 0x83, 0x00, 0x83, 0x00, 0x83, 0x00, 0x83, 0x00, 0x83, 0x00,
                0x01, 0x01]
     | _, _ => false) = true := by decide +kernel

end Wbxml.Props.C02
