/-
  C04 — the event parser reports exactly what the WBXML bytes denote.

  `Spec/Wbxml.lean` is the WBXML 1.0–1.3 grammar (`Spec.Doc`), its serialisation (`Spec.ser`) and
  the event stream the specification assigns to a document (`Spec.events`). The central theorem
  `parse_ser` says: for EVERY well-formed document (any size, any nesting depth, any language of
  `cfg.main`, any token of its tables) the parser model run on the document's octets succeeds
  and delivers exactly the specified events. It is proved production by production
  (`Lemmas/ParseSer*.lean`: "running parser function F on `ser x ++ suf` consumes exactly `ser x`,
  leaves `suf` untouched, yields `events x` and the code pages the specification computes") by
  induction on the fuel, which the serialised length bounds.

  The byte-exact tie of the model to `wbxml_parser.c` is the PARSE correspondence run by
  tools/props/c04.py, which also compares the implementation with an oracle written from the
  WBXML specification (tools/specgen.py).
-/
import Wbxml.Lemmas.ParseSerHeader
import Wbxml.Lemmas.ParseSerElem
import Wbxml.Lemmas.ParseSerTyped
import Wbxml.Gen.Tables
import Wbxml.Props.Consts
set_option maxRecDepth 100000
namespace Wbxml.Props.C04
open Wbxml Wbxml.Model Wbxml.Spec Wbxml.Lemmas.ParseSer

/-- An empty input is refused before any event is delivered. -/
theorem empty_rejected (cfg : PCfg) : (parse cfg []).result = .error (.code E.emptyWbxml) ∧
    (parse cfg []).events = [] := by
  simp [parse, parseHeader]

/-- Events are delivered only after the header selected a language: a run that fails in the
    header delivers nothing. -/
theorem header_failure_delivers_nothing (cfg : PCfg) (bs : Bytes) (e : Err)
    (h : parseHeader cfg bs = .error e) : (parse cfg bs).events = [] ∧ (parse cfg bs).result = .error e := by
  simp [parse, h]

/-! ## The central theorem -/

/-- For every well-formed document, followed by arbitrary octets that do not start another
    processing instruction: the run succeeds, the events are exactly those the specification
    assigns, and exactly the document's octets are consumed. -/
theorem parse_ser_trailing (cfg : PCfg) (d : Doc) (h : d.WF cfg) (trail : Bytes) (ht : trail.head? ≠ some 0x43) :
    (parse cfg (ser d ++ trail)).result = .ok () ∧
    (parse cfg (ser d ++ trail)).events = events cfg d ∧
    (parse cfg (ser d ++ trail)).consumed = (ser d).length := by
  unfold Doc.WF Doc.wf at h
  rw [Bool.and_eq_true] at h
  obtain ⟨hh, hb⟩ := h
  cases hl : headerLang cfg d.hdr with
  | none => simp [hl] at hb
  | some l =>
    simp only [hl, Bool.and_eq_true] at hb
    obtain ⟨⟨hpre, hroot⟩, hpost⟩ := hb
    have hc := headerCtx_ok cfg d.hdr l hh
    have hhdr := parseHeader_ser cfg d.hdr hh l hl (serBody d ++ trail)
    have hbody := parseBody_ser (headerCtx cfg d.hdr l) d.hdr.version hc d.pre d.post d.root hpre hroot hpost
      trail ht [Event.startDoc (headerCtx cfg d.hdr l).charset l.id]
    unfold parse
    simp only [ser, serBody, List.append_assoc] at hhdr ⊢
    simp only [hhdr, hbody, events, hl]
    refine ⟨trivial, by simp, ?_⟩
    simp only [List.length_append]
    omega

/-- **C04.** For ALL well-formed documents `d` over the languages of `cfg.main` (unbounded size
    and depth): parsing `ser d` succeeds and delivers exactly `Spec.events cfg d`. -/
theorem parse_ser (cfg : PCfg) (d : Doc) (h : d.WF cfg) :
    (parse cfg (ser d)).result = .ok () ∧ (parse cfg (ser d)).events = events cfg d := by
  have := parse_ser_trailing cfg d h [] (by simp)
  rw [List.append_nil] at this
  exact ⟨this.1, this.2.1⟩

/-! ## The stages (each production: consumes exactly its octets, yields its meaning) -/

/-- (a) `mb_u_int32`: every 32-bit value written in the variable-length form is read back. -/
theorem parse_ser_mbuint32 (c : Ctx) (ver v : Nat) (hv : v < 4294967296) (suf : Bytes) (tp ap : Nat) (cur) :
    parseMb (st c ver (mb v ++ suf) tp ap cur) = .ok (v, st c ver suf tp ap cur) :=
  parseMb_ser c ver v hv suf tp ap cur

/-- (a) Header: `parseHeader (serHeader h ++ body)` consumes exactly the header, installs the
    string table and selects the language and character set the header denotes — numeric public
    identifier, textual identifier through the string table (ASCII case-insensitively), or the
    forced language (`headerLang`); charset field, meta charset or UTF-8 (`headerCharset`). -/
theorem parse_ser_header (cfg : PCfg) (h : Header) (hwf : wfHeader cfg h = true) (l : Lang)
    (hl : headerLang cfg h = some l) (body : Bytes) :
    parseHeader cfg (serHeader h ++ body) = .ok (st (headerCtx cfg h l) h.version body 0 0 none, l) :=
  parseHeader_ser cfg h hwf l hl body

/-- (b)–(d), (f) Elements: token and literal tags, nesting to any depth, `END` balance, tag-space
    `SWITCH_PAGE`, inline strings, table references at any offset, entities, opaque data (typed
    by the enclosing tag), extensions and processing instructions as content. -/
theorem parse_ser_element (c : Ctx) (ver) (hc : c.ok = true) (e : Elem) (slot : Option TagRow) (pg : Pages)
    (hwf : wfElem c slot pg e = true) (suf : Bytes) (ev : List Event) (f : Nat) (hf : (serElem e).length ≤ f) :
    parseElement f ev (st c ver (serElem e ++ suf) pg.tag pg.attr slot) =
      .ok (ev ++ (evElem c pg e).1, st c ver suf (evElem c pg e).2.tag (evElem c pg e).2.attr none) :=
  parseElement_ser c ver hc e slot pg hwf suf ev f hf

/-- (b) Content lists up to their `END`. -/
theorem parse_ser_content (c : Ctx) (ver) (hc : c.ok = true) (items : List Item) (own slot : Option TagRow)
    (pg : Pages) (hwf : wfItems c own slot pg items = true) (suf : Bytes) (ev : List Event) (f : Nat)
    (hf : (serItems items).length + 1 ≤ f) :
    contentLoop f ev (st c ver (serItems items ++ 0x01 :: suf) pg.tag pg.attr slot) =
      .ok (ev ++ (evItems c own pg items).1,
        st c ver (0x01 :: suf) (evItems c own pg items).2.tag (evItems c own pg items).2.attr (slotEnd slot items)) :=
  contentLoop_ser c ver hc items own slot pg hwf suf ev f hf

/-- (c) `STR_I` / `STR_T`: a table reference at ANY offset inside the table yields the string
    that starts there. -/
theorem parse_ser_string (c : Ctx) (ver) (hc : c.ok = true) (s : Str) (hs : wfStr c s = true)
    (suf : Bytes) (tp ap cur) :
    parseString (st c ver (serStr s ++ suf) tp ap cur) = .ok (strText c s, st c ver suf tp ap cur) :=
  parseString_ser c ver hc s hs suf tp ap cur

/-- (d) `ENTITY`: the UTF-8 form of the character (scalar values other than U+0000). -/
theorem parse_ser_entity (c : Ctx) (ver) (code : Nat) (h : wfEntity code = true) (suf : Bytes) (tp ap cur) :
    parseEntity (st c ver (0x02 :: (mb code ++ suf)) tp ap cur) = .ok (utf8 code, st c ver suf tp ap cur) :=
  parseEntity_ser c ver code h suf tp ap cur

/-- (d) `OPAQUE length *byte`. -/
theorem parse_ser_opaque (c : Ctx) (ver) (d : Bytes) (h : d.length < 4294967296) (suf : Bytes) (tp ap cur) :
    parseOpaque (st c ver (serOpaque d ++ suf) tp ap cur) = .ok (d, st c ver suf tp ap cur) :=
  parseOpaque_ser c ver d h suf tp ap cur

/-- (e) One attribute: start token (with its value prefix) or literal name, then the value
    pieces — value tokens, strings, entities, opaque data, extensions, attribute-space
    `SWITCH_PAGE` — up to the point where the `is_attr_value` look-ahead says "no". -/
theorem parse_ser_attribute (c : Ctx) (ver) (hc : c.ok = true) (ap : Nat) (a : Attribute)
    (ha : wfAttr c ap a = true) (suf : Bytes) (hstop : Stops c ver suf) (tp cur) :
    parseAttribute (st c ver (serAttr a ++ suf) tp ap cur) =
      .ok ((evAttr c ap a).1, st c ver suf tp (evAttr c ap a).2 cur) :=
  parseAttribute_ser c ver hc ap a ha suf hstop tp cur

/-- (e) The look-ahead stops exactly where the grammar ends an attribute: at `END` and at the
    next attribute start; it goes on at every value piece. -/
theorem parse_ser_attr_lookahead (c : Ctx) (ver) (ap : Nat) (suf : Bytes) :
    Stops c ver (0x01 :: suf) ∧
    (∀ a : AStart, wfAStart c ap a = true → Stops c ver (serAStart a ++ suf)) ∧
    (∀ v : AVal, wfAVal c ap v = true → ∀ tp ap' cur, isAttrValue (st c ver (serAVal v ++ suf) tp ap' cur) = true) :=
  ⟨stops_END c ver suf, fun a ha => stops_serAStart c ver ap a ha suf,
   fun v hv tp ap' cur => isAttrValue_serAVal c ver ap v hv suf tp ap' cur⟩

/-- (e) A non-empty attribute list up to its `END`. -/
theorem parse_ser_attributes (c : Ctx) (ver) (hc : c.ok = true) (a : Attribute) (as : List Attribute) (ap : Nat)
    (hwf : wfAttrs c ap (a :: as) = true) (suf : Bytes) (f : Nat) (hf : as.length < f)
    (acc : List Attr) (tp cur) :
    attrsLoop f acc (st c ver (serAttrs (a :: as) ++ 0x01 :: suf) tp ap cur) =
      .ok (acc ++ (evAttrs c ap (a :: as)).1, st c ver (0x01 :: suf) tp (evAttrs c ap (a :: as)).2 cur) :=
  attrsLoop_ser c ver hc a as ap hwf suf f hf acc tp cur

/-- (f) Extensions: WML variables (`$(name:escape|:unesc|:noesc)`, inline or through the string
    table), Wireless Village extension values, single-octet extensions. -/
theorem parse_ser_extension (c : Ctx) (ver) (hc : c.ok = true) (tagSpace : Bool) (sw : Option Nat)
    (hsw : wfSw sw = true) (x : Ext) (hx : wfExt c x = true) (suf : Bytes) (tp ap cur) :
    parseExtension tagSpace (st c ver (serSw sw ++ (serExt x ++ suf)) tp ap cur) =
      .ok (extText c x, st c ver suf (bif tagSpace then swPage sw tp else tp)
        (bif tagSpace then ap else swPage sw ap) cur) :=
  parseExtension_ser c ver hc tagSpace sw hsw x hx suf tp ap cur

/-- (f) Processing instructions. -/
theorem parse_ser_pi (c : Ctx) (ver) (hc : c.ok = true) (ap : Nat) (a : Attribute)
    (ha : wfPi c ap a = true) (suf : Bytes) (tp cur) :
    parsePi (st c ver (serPi a ++ suf) tp ap cur) = .ok ((evPi c ap a).1, st c ver suf tp (evPi c ap a).2 cur) :=
  parsePi_ser c ver hc ap a ha suf tp cur

/-! ## Corollaries: the clauses of the property, one by one -/

/-- "The charset and language announced at document start are those the header selects":
    the first event is `startDoc (headerCharset …) (headerLang …).id`. -/
theorem start_document_reports_header (cfg : PCfg) (d : Doc) (h : d.WF cfg) :
    ∃ l, headerLang cfg d.hdr = some l ∧
      (parse cfg (ser d)).events.head? = some (.startDoc (headerCharset cfg d.hdr) l.id) := by
  have hp := (parse_ser cfg d h).2
  unfold Doc.WF Doc.wf at h
  rw [Bool.and_eq_true] at h
  cases hl : headerLang cfg d.hdr with
  | none => simp [hl] at h
  | some l =>
    refine ⟨l, rfl, ?_⟩
    rw [hp]
    simp [events, hl, headerCtx]

/-- "Tokens are resolved under the tag code page in force at that point": an element with a token
    tag `t`, met while tag page `pg.tag` is in force (after its own optional `SWITCH_PAGE`), is
    reported under the FIRST row of the language's tag table with that (page, token), in both its
    start and its end event; the attribute page plays no role. -/
theorem tag_resolved_under_current_page (c : Ctx) (ver) (hc : c.ok = true) (sw : Option Nat) (t : Nat)
    (attrs : List Attribute) (content : Option (List Item)) (slot : Option TagRow) (pg : Pages)
    (hwf : wfElem c slot pg (.mk sw (.tok t) attrs content) = true) (suf : Bytes) (ev : List Event) (f : Nat)
    (hf : (serElem (.mk sw (.tok t) attrs content)).length ≤ f) :
    ∃ row tags inner s',
      c.lang.tags = some tags ∧
      tags.find? (fun r => r.token == t && r.page == swPage sw pg.tag) = some row ∧
      parseElement f ev (st c ver (serElem (.mk sw (.tok t) attrs content) ++ suf) pg.tag pg.attr slot) =
        .ok (ev ++ (.startElt (.token row) (evAttrs c pg.attr attrs).1 :: (inner ++ [.endElt (.token row)])), s') := by
  have hrun := parseElement_ser c ver hc _ slot pg hwf suf ev f hf
  rw [wfElem_mk] at hwf
  simp only [Bool.and_eq_true, wfTag] at hwf
  obtain ⟨row, hrow⟩ := Option.isSome_iff_exists.mp hwf.1.1.2.2
  have hrow' := hrow
  simp only [tagRow] at hrow
  cases htags : c.lang.tags with
  | none => simp [htags] at hrow
  | some tags =>
    simp only [htags] at hrow
    refine ⟨row, tags, (evContent c (some row) ⟨swPage sw pg.tag, (evAttrs c pg.attr attrs).2⟩ content).1,
      st c ver suf (evElem c pg (.mk sw (.tok t) attrs content)).2.tag
        (evElem c pg (.mk sw (.tok t) attrs content)).2.attr none, rfl, hrow, ?_⟩
    rw [hrun, evElem_mk]
    simp only [tagName, hrow']

/-- The tag page set by an element's `SWITCH_PAGE` stays in force for what follows it. -/
theorem tag_page_persists (c : Ctx) (pg : Pages) (sw : Option Nat) (tag : Tag) (attrs : List Attribute) :
    (evElem c pg (.mk sw tag attrs none)).2.tag = swPage sw pg.tag := by
  rw [evElem_mk, evContent_none]

/-- "…under the tag OR ATTRIBUTE code page": the two code spaces have independent current pages.
    An attribute is resolved under the attribute page only — the tag page in force has no
    influence on what is delivered and is left unchanged by attribute-space `SWITCH_PAGE`s — and,
    conversely, the attributes of an element are those of `evAttrs c pg.attr`, whatever tag page
    the element's own `SWITCH_PAGE` selects. -/
theorem attr_page_independent_of_tag_page (c : Ctx) (ver) (hc : c.ok = true) (ap : Nat) (a : Attribute)
    (ha : wfAttr c ap a = true) (suf : Bytes) (hstop : Stops c ver suf) (tp tp' : Nat) (cur) :
    (∃ s, parseAttribute (st c ver (serAttr a ++ suf) tp ap cur) = .ok ((evAttr c ap a).1, s) ∧ s.tagPage = tp) ∧
    (∃ s, parseAttribute (st c ver (serAttr a ++ suf) tp' ap cur) = .ok ((evAttr c ap a).1, s) ∧ s.tagPage = tp') ∧
    (∀ (pg : Pages) sw tag attrs content,
      (evElem c pg (.mk sw tag attrs content)).1.head? =
        some (.startElt (tagName c (swPage sw pg.tag) tag).1 (evAttrs c pg.attr attrs).1)) := by
  refine ⟨⟨_, parseAttribute_ser c ver hc ap a ha suf hstop tp cur, rfl⟩,
    ⟨_, parseAttribute_ser c ver hc ap a ha suf hstop tp' cur, rfl⟩, ?_⟩
  intro pg sw tag attrs content
  rw [evElem_mk]; rfl

/-- "Literal names and string references [are resolved] through the document's string table":
    a literal tag (`LITERAL`, `_A`, `_C`, `_AC`), a literal attribute name and a `STR_T` reference
    with offset `off` all denote the string that starts at octet `off` of the table — any offset
    inside the table, not only entry starts. -/
theorem literal_via_strtbl (c : Ctx) (ver) (hc : c.ok = true) (hcs : csOk c = true) (off : Nat)
    (hoff : off < c.tbl.length) (suf : Bytes) (tp ap : Nat) (cur) (a cb : Bool) :
    parseStag (st c ver (serTag (tagFlags a cb) (.lit off) ++ suf) tp ap cur) =
      .ok ((stagByte a cb (.lit off), .literal (strAt c.tbl off)), st c ver suf tp ap cur) ∧
    parseAttrStart (st c ver (serAStart (.lit off) ++ suf) tp ap cur) =
      .ok ((.literal (strAt c.tbl off), none), st c ver suf tp ap cur) ∧
    parseString (st c ver (serStr (.tbl off) ++ suf) tp ap cur) = .ok (strAt c.tbl off, st c ver suf tp ap cur) := by
  have hw : wfTag c tp (.lit off) = true := by simp [wfTag, hcs, hoff]
  have hw2 : wfAStart c ap (.lit off) = true := by simp [wfAStart, hcs, hoff]
  have hw3 : wfStr c (.tbl off) = true := by simp [wfStr, hcs, hoff]
  exact ⟨parseStag_ser c ver hc tp a cb (.lit off) hw suf ap cur,
    parseAttrStart_ser c ver hc ap (.lit off) hw2 suf tp cur,
    parseString_ser c ver hc (.tbl off) hw3 suf tp ap cur⟩

/-- The text of a list of value pieces is the concatenation of the texts of the pieces. -/
theorem avalsText_eq_concat (c : Ctx) (ap : Nat) (v : AVal) (vs : List AVal) :
    (avalsText c ap (v :: vs)).1 = (avalText c ap v).1 ++ (avalsText c (avalText c ap v).2 vs).1 := rfl

/-- "Attribute values [are] the concatenation of their start-token prefix, value tokens, strings
    and entities": the value delivered for an attribute that is not `%Datetime`-typed is the
    prefix of its start token followed by the texts of its pieces in order (plus the trailing NUL
    the parser appends to a non-empty value). -/
theorem attr_value_is_concatenation (c : Ctx) (ver) (hc : c.ok = true) (ap : Nat) (a : Attribute)
    (ha : wfAttr c ap a = true) (hnd : isDatetimeAttr c (astartName c ap a.start).1 = false)
    (suf : Bytes) (hstop : Stops c ver suf) (tp cur) :
    ∃ s, parseAttribute (st c ver (serAttr a ++ suf) tp ap cur) =
      .ok ({ name := (astartName c ap a.start).1,
             value := withNul ((astartName c ap a.start).2.1 ++
               (avalsText c (astartName c ap a.start).2.2 a.vals).1) }, s) := by
  refine ⟨st c ver suf tp (evAttr c ap a).2 cur, ?_⟩
  rw [parseAttribute_ser c ver hc ap a ha suf hstop tp cur]
  simp only [evAttr, attrValueText, hnd, Bool.and_false, Bool.false_eq_true, ↓reduceIte, Option.getD_some]

/-- "Opaque data [is resolved] by the language's documented rule": opaque content of an element
    whose own (token) tag is also what the parser's `current_tag` slot holds is delivered as
    `decodeOpaqueContent lang own` — Wireless Village integer / date-time, base64 for DRMREL
    `KeyValue` and SyncML `NextNonce`, the raw octets otherwise. -/
theorem opaque_typed_rule (c : Ctx) (ver) (hc : c.ok = true) (own : Option TagRow) (pg : Pages) (d b : Bytes)
    (hd : d.length < 4294967296) (hb : decodeOpaqueContent c.lang.id own d = .ok b)
    (suf : Bytes) (ev : List Event) (f : Nat) (hf : (serOpaque d).length + 1 ≤ f) :
    contentLoop f ev (st c ver (serOpaque d ++ 0x01 :: suf) pg.tag pg.attr own) =
      .ok (ev ++ charsEv b, st c ver (0x01 :: suf) pg.tag pg.attr own) := by
  have hwf : wfItems c own own pg [.opaque d] = true := by
    rw [wfItems_cons, wfItem_opaque]
    simp [opaqueText, hb, hd, wfItems]
  have := contentLoop_ser c ver hc [.opaque d] own own pg hwf suf ev f (by
    rw [serItems_cons, serItem_opaque, serItems_nil]; simpa using hf)
  rw [serItems_cons, serItem_opaque, serItems_nil, List.append_nil, evItems_cons, evItem_opaque, evItems_nil] at this
  simpa [opaqueText, hb, slotEnd, slotAfter] using this


/-- The typed rules in terms of the standards. DRMREL `ds:KeyValue` (page 0, 0x0C), SyncML
    `NextNonce` (MetInf page 1, 0x10) and every OTA opaque attribute value: RFC 4648 base64 of the
    octets. Wireless Village integer elements: the decimal numeral of the big-endian value of the
    octets (defined when it fits 32 bits). -/
theorem typed_rules_by_standard (d : Bytes) (row : TagRow) :
    (d ≠ [] → row.page = 0 → row.token = 0x0C →
      decodeOpaqueContent 1801 (some row) d = .ok (Rfc4648.encode d)) ∧
    (d ≠ [] → row.page = 1 → row.token = 0x10 → ∀ l, isSyncml l = true →
      decodeOpaqueContent l (some row) d = .ok (Rfc4648.encode d)) ∧
    (d ≠ [] → decodeOpaqueAttrValue 1901 d = .ok (Rfc4648.encode d)) ∧
    (wvDataType row.page row.token = .integer → Lemmas.Typed.beNat d < 4294967296 → ∀ l, isWv l = true →
      decodeOpaqueContent l (some row) d = .ok (natDigits (Lemmas.Typed.beNat d))) := by
  refine ⟨?_, ?_, ?_, ?_⟩
  · intro hd hp ht
    simp [decodeOpaqueContent, isWv, hp, ht, decodeBase64Value_spec d hd]
  · intro hd hp ht l hl
    have hnw : isWv l = false := by
      simp only [isSyncml, Bool.or_eq_true, beq_iff_eq] at hl
      rcases hl with (rfl | rfl) | rfl <;> rfl
    have hn : (l == 1801) = false := by
      simp only [isSyncml, Bool.or_eq_true, beq_iff_eq] at hl
      rcases hl with (rfl | rfl) | rfl <;> rfl
    simp [decodeOpaqueContent, hnw, hn, hl, hp, ht, decodeBase64Value_spec d hd]
  · intro hd
    simp [decodeOpaqueAttrValue, decodeBase64Value_spec d hd]
  · intro hk hv l hl
    simp [decodeOpaqueContent, hl, hk, decodeWvInteger_spec, hv]

/-! ## Non-vacuity: concrete documents over the regenerated tables -/

/-- The parser configuration of the library: the regenerated main table, nothing forced. -/
def exCfg : PCfg := { main := Gen.main }

/-- SyncML 1.2, multi-page: `<SyncML><SyncHdr><Meta><Format xmlns="syncml:metinf">b64</Format>…`;
    `Format` lives on code page 1 (MetInf) and is reached by `SWITCH_PAGE 01`. -/
def exSyncml : Doc where
  hdr := { version := 2, pubid := .num 4609, charset := 106, strtbl := [] }
  pre := []
  post := []
  root := .mk none (.tok 0x2D) [] (some [.elem (.mk none (.tok 0x2C) [] (some [
    .elem (.mk none (.tok 0x1A) [] (some [
      .elem (.mk (some 1) (.tok 0x07) [] (some [.str (.inl b!"b64")]))]))]))])

example : exSyncml.WF exCfg := by decide +kernel

example : ser exSyncml =
    [0x02, 0xA4, 0x01, 0x6A, 0x00, 0x6D, 0x6C, 0x5A, 0x00, 0x01, 0x47, 0x03, 0x62, 0x36, 0x34, 0x00, 1, 1, 1, 1] := by
  decide +kernel

/-- The model run on those octets delivers the expected events: `Format` is resolved on page 1. -/
example : (parse exCfg (ser exSyncml)).events =
    [.startDoc 106 2201,
     .startElt (.token ⟨b!"SyncML", 0, 0x2D, 0⟩) [], .startElt (.token ⟨b!"SyncHdr", 0, 0x2C, 0⟩) [],
     .startElt (.token ⟨b!"Meta", 0, 0x1A, 0⟩) [], .startElt (.token ⟨b!"Format", 1, 0x07, 0⟩) [],
     .chars b!"b64",
     .endElt (.token ⟨b!"Format", 1, 0x07, 0⟩), .endElt (.token ⟨b!"Meta", 0, 0x1A, 0⟩),
     .endElt (.token ⟨b!"SyncHdr", 0, 0x2C, 0⟩), .endElt (.token ⟨b!"SyncML", 0, 0x2D, 0⟩), .endDoc] := by
  decide +kernel

example : (parse exCfg (ser exSyncml)).events = events exCfg exSyncml := (parse_ser exCfg exSyncml (by decide +kernel)).2

/-- WML 1.3: attributes (start tokens, a value token, an inline string, a table reference into the
    MIDDLE of an entry), a WML variable, an entity, a literal element and a processing instruction. -/
def exWml : Doc where
  hdr := { version := 3, pubid := .num 0x0A, charset := 106, strtbl := [b!"xyzabc", b!"lit"] }
  pre := []
  post := []
  root := .mk none (.tok 0x3F) [] (some [
    .elem (.mk none (.tok 0x27) [⟨.tok none 0x55, [.str (.inl b!"c1")]⟩, ⟨.tok none 0x36, [.str (.tbl 3)]⟩] (some [
      .elem (.mk none (.tok 0x20) [] (some [.str (.inl b!"Hi "), .ext none (.inl 0 b!"name"), .entity 0x20AC])),
      .elem (.mk none (.tok 0x2B) [⟨.tok none 0x4A, [.str (.inl b!"example"), .tok none 0x85, .str (.inl b!"x.wml")]⟩] none),
      .elem (.mk none (.lit 7) [] (some [.str (.tbl 0)])),
      .pi ⟨.lit 7, [.str (.inl b!"d")]⟩]))])

example : exWml.WF exCfg := by decide +kernel

/-- `title="abc"` comes from offset 3 of the entry `xyzabc`; `href` is the concatenation
    `example` ++ `.com/` (value token 0x85) ++ `x.wml`, with the parser's trailing NUL. -/
example : (parse exCfg (ser exWml)).events =
    [.startDoc 106 1104,
     .startElt (.token ⟨b!"wml", 0, 0x3F, 0⟩) [],
     .startElt (.token ⟨b!"card", 0, 0x27, 0⟩)
       [⟨.token ⟨b!"id", none, 0, 0x55⟩, b!"c1" ++ [0]⟩, ⟨.token ⟨b!"title", none, 0, 0x36⟩, b!"abc" ++ [0]⟩],
     .startElt (.token ⟨b!"p", 0, 0x20, 0⟩) [],
     .chars b!"Hi ", .chars b!"$(name:escape)", .chars [0xE2, 0x82, 0xAC],
     .endElt (.token ⟨b!"p", 0, 0x20, 0⟩),
     .startElt (.token ⟨b!"go", 0, 0x2B, 0⟩) [⟨.token ⟨b!"href", none, 0, 0x4A⟩, b!"example.com/x.wml" ++ [0]⟩],
     .endElt (.token ⟨b!"go", 0, 0x2B, 0⟩),
     .startElt (.literal b!"lit") [], .chars b!"xyzabc", .endElt (.literal b!"lit"),
     .pi b!"lit" (b!"d" ++ [0]),
     .endElt (.token ⟨b!"card", 0, 0x27, 0⟩), .endElt (.token ⟨b!"wml", 0, 0x3F, 0⟩), .endDoc] := by
  decide +kernel

/-- SI: a `%Datetime` attribute (opaque BCD ⇒ ISO text) and a start token with a value prefix. -/
def exSi : Doc where
  hdr := { version := 1, pubid := .num 5, charset := 106, strtbl := [] }
  pre := []
  post := []
  root := .mk none (.tok 0x05) [] (some [
    .elem (.mk none (.tok 0x06) [⟨.tok none 0x0A, [.opaque [0x19, 0x99, 0x06, 0x25, 0x09, 0x30]]⟩,
        ⟨.tok none 0x0C, [.str (.inl b!"example"), .tok none 0x85]⟩] (some [.str (.inl b!"You have mail")]))])

example : exSi.WF exCfg := by decide +kernel

example : (parse exCfg (ser exSi)).events =
    [.startDoc 106 1301,
     .startElt (.token ⟨b!"si", 0, 0x05, 0⟩) [],
     .startElt (.token ⟨b!"indication", 0, 0x06, 0⟩)
       [⟨.token ⟨b!"created", none, 0, 0x0A⟩, b!"1999-06-25T09:30:00Z" ++ [0]⟩,
        ⟨.token ⟨b!"href", some b!"http://", 0, 0x0C⟩, b!"http://example.com/" ++ [0]⟩],
     .chars b!"You have mail",
     .endElt (.token ⟨b!"indication", 0, 0x06, 0⟩), .endElt (.token ⟨b!"si", 0, 0x05, 0⟩), .endDoc] := by
  decide +kernel

/-- Wireless Village 1.1: typed integer content (`Code` = 200), an extension value. -/
def exWv : Doc where
  hdr := { version := 3, pubid := .num 0x10, charset := 106, strtbl := [] }
  pre := []
  post := []
  root := .mk none (.tok 0x09) [] (some [
    .elem (.mk none (.tok 0x0B) [] (some [.opaque [0x00, 0xC8]])),
    .elem (.mk none (.tok 0x0D) [] (some [.ext none (.tbl 0 0x05)]))])

example : exWv.WF exCfg := by decide +kernel
example : (parse exCfg (ser exWv)).events = events exCfg exWv := (parse_ser exCfg exWv (by decide +kernel)).2
example : Event.chars b!"200" ∈ (parse exCfg (ser exWv)).events := by decide +kernel

/-- A textual public identifier in the string table, in different letter case, and a forced
    language: both select SyncML 1.2. -/
def exTextualId : Doc where
  hdr := { version := 3, pubid := .str 0, charset := 106, strtbl := [b!"-//syncml//dtd SYNCML 1.2//en"] }
  pre := []
  post := []
  root := .mk none (.tok 0x2D) [] none

example : exTextualId.WF exCfg := by decide +kernel
example : (parse exCfg (ser exTextualId)).events.head? = some (.startDoc 106 2201) := by decide +kernel
example : ({ exSyncml with hdr := { exSyncml.hdr with pubid := .num 1 } } : Doc).WF
    { main := Gen.main, langForced := 2201 } := by decide +kernel

/-! ## Observations: shapes outside `WF`, and what the parser does there

  `WF` is the domain of `parse_ser`. The three shapes below are excluded; each theorem exhibits a
  concrete document of the shape on which the parser's events differ from `Spec.events`, so the
  exclusion is visible (and justified) rather than silent. -/

/-- `ENTITY 0`: the specification's denotation is the character U+0000; the parser builds the
    text with `wbxml_buffer_create_from_cstr` and so delivers nothing (known finding
    `entity-code-0`, property C11). -/
def obsEntity0 : Doc where
  hdr := { version := 3, pubid := .num 4609, charset := 106, strtbl := [] }
  pre := []
  post := []
  root := .mk none (.tok 0x2D) [] (some [.entity 0])

theorem entity_zero_observation :
    ¬ obsEntity0.WF exCfg ∧ (parse exCfg (ser obsEntity0)).result.toBool = true ∧
    Event.chars [0] ∈ events exCfg obsEntity0 ∧ Event.chars [0] ∉ (parse exCfg (ser obsEntity0)).events := by
  decide +kernel

/-- Typed content after a child element: the parser keeps ONE `current_tag` slot and clears it at
    every element end, so the integer-typed `Code` (WV page 0, 0x0B) delivers the raw octet `*`
    where the rule of the element's own tag gives `42`. -/
def obsTypedAfterChild : Doc where
  hdr := { version := 3, pubid := .num 0x10, charset := 106, strtbl := [] }
  pre := []
  post := []
  root := .mk none (.tok 0x0B) [] (some [.elem (.mk none (.tok 0x05) [] none), .opaque [0x2A]])

theorem typed_opaque_after_child_observation :
    ¬ obsTypedAfterChild.WF exCfg ∧ (parse exCfg (ser obsTypedAfterChild)).result.toBool = true ∧
    Event.chars b!"42" ∈ events exCfg obsTypedAfterChild ∧
    Event.chars b!"*" ∈ (parse exCfg (ser obsTypedAfterChild)).events := by
  decide +kernel

/-- A literal-named element does not replace the slot: opaque content of `<x>` inside the
    integer-typed `Code` is decoded by `Code`'s rule (`42`), where its own (literal) tag has none. -/
def obsLiteralInherits : Doc where
  hdr := { version := 3, pubid := .num 0x10, charset := 106, strtbl := [b!"x"] }
  pre := []
  post := []
  root := .mk none (.tok 0x0B) [] (some [.elem (.mk none (.lit 0) [] (some [.opaque [0x2A]]))])

theorem literal_inherits_typed_slot_observation :
    ¬ obsLiteralInherits.WF exCfg ∧ (parse exCfg (ser obsLiteralInherits)).result.toBool = true ∧
    Event.chars b!"*" ∈ events exCfg obsLiteralInherits ∧
    Event.chars b!"42" ∈ (parse exCfg (ser obsLiteralInherits)).events := by
  decide +kernel

end Wbxml.Props.C04
