/-
  C04 — the event parser reports exactly what the WBXML bytes denote.
  Theorems about `Model.parse`; the byte-exact tie of the model to `wbxml_parser.c` is the PARSE
  correspondence run by tools/props/c04.py, which also compares the implementation with an
  oracle written from the WBXML specification (tools/specgen.py).
-/
import Wbxml.Model.Parser
namespace Wbxml.Props.C04
open Wbxml Wbxml.Model

/-- An empty input is refused before any event is delivered. -/
theorem empty_rejected (cfg : PCfg) : (parse cfg []).result = .error (.code E.emptyWbxml) ∧
    (parse cfg []).events = [] := by
  simp [parse, parseHeader]

/-- Events are delivered only after the header selected a language: a run that fails in the
    header delivers nothing. -/
theorem header_failure_delivers_nothing (cfg : PCfg) (bs : Bytes) (e : Err)
    (h : parseHeader cfg bs = .error e) : (parse cfg bs).events = [] ∧ (parse cfg bs).result = .error e := by
  simp [parse, h]

end Wbxml.Props.C04
