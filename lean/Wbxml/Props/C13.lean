/-
  C13 — truncated documents and dangling references are rejected, never guessed.

  Theorems about `Model.parse` (the model of `wbxml_parser_parse`, tied to `src/wbxml_parser.c`
  by the byte-exact PARSE correspondence). All statements are for ALL byte strings and ALL parser
  configurations (`PCfg`: main table, forced language, meta charset, charset list).

  Part A: totality of the parser model (no `Err.ub`, no `Err.fuel`; consumed bytes).
  Part B: the individual length / index / terminator checks and the documented tolerances.
  Part C: truncation (see `Lemmas/ParserSafeExt.lean` for the extension-stability lemmas).
-/
import Wbxml.Lemmas.ParserSafeMain
import Wbxml.Lemmas.ParserSafeExt
import Wbxml.Lemmas.ParserBridge
import Wbxml.Lemmas.ParserSafeTree
namespace Wbxml.Props.C13
open Wbxml Wbxml.Model Wbxml.Lemmas.ParserSafe Wbxml.Lemmas.ParserBridge

/-! ## Part A — the parser model is total and stays inside the input -/

/-- No run of the parser reaches a flagged operation: every blind `pos++` follows a successful
    token test, and the two places that dereference the language table without a check are only
    reached after the header stage selected a language. -/
theorem parse_no_ub (cfg : PCfg) (bs : Bytes) (w : String) : (parse cfg bs).result ≠ .error (.ub w) :=
  (parse_result_ok cfg bs).not_ub w

/-- The fuel the model supplies (`rest.length + 1` for the flat loops, `2 * rest.length + 2` for
    `parseElement`/`contentLoop`) is never exhausted: every loop round and every recursive
    descent consumes at least one byte. -/
theorem parse_fuel_sufficient (cfg : PCfg) (bs : Bytes) : (parse cfg bs).result ≠ .error .fuel :=
  (parse_result_ok cfg bs).not_fuel

/-- Totality: the verdict is success or a `WBXMLError` code other than 0 (`WBXML_OK`). -/
theorem parse_total (cfg : PCfg) (bs : Bytes) :
    (parse cfg bs).result = .ok () ∨ ∃ c, c ≠ 0 ∧ (parse cfg bs).result = .error (.code c) := by
  rcases (parse_result_ok cfg bs).cases with ⟨⟨⟩, h, _⟩ | ⟨c, h, h0⟩
  · exact Or.inl h
  · exact Or.inr ⟨c, h0, h⟩

/-- A successful run consumed at least four bytes (version, public id, string-table length, one
    tag) and at most the whole input. -/
theorem parse_consumed_le (cfg : PCfg) (bs : Bytes) (h : (parse cfg bs).result = .ok ()) :
    4 ≤ (parse cfg bs).consumed ∧ (parse cfg bs).consumed ≤ bs.length := by
  rcases parse_anatomy cfg bs with ⟨c, _, h', _⟩ | ⟨s, l, c, _, _, h', _⟩ | ⟨s, l, ev, s', _, _, _, _, hc, _, hlen⟩
  · rw [h'] at h; cases h
  · rw [h'] at h; cases h
  · rw [hc]; omega

/-- … and `consumed` is an honest offset: the cursor the body stage ends with is exactly the input
    with the first `consumed` bytes dropped (so the run never moved the cursor past the end). -/
theorem parse_consumed_cursor (cfg : PCfg) (bs : Bytes) (h : (parse cfg bs).result = .ok ()) :
    ∃ s l ev s', parseHeader cfg bs = .ok (s, l) ∧
      parseBody [Event.startDoc s.charset l.id] s = .ok (ev, s') ∧
      s'.rest = bs.drop (parse cfg bs).consumed := by
  rcases parse_anatomy cfg bs with ⟨c, _, h', _⟩ | ⟨s, l, c, _, _, h', _⟩ | ⟨s, l, ev, s', hh, hb, _, _, hc, hsuf, hlen⟩
  · rw [h'] at h; cases h
  · rw [h'] at h; cases h
  · refine ⟨s, l, ev, s', hh, hb, ?_⟩
    obtain ⟨pre, hpre⟩ := hsuf
    rw [hc, ← hpre]
    simp

/-- An unsuccessful run reports no `endDoc`, a run failing in the header reports nothing. -/
theorem parse_error_events (cfg : PCfg) (bs : Bytes) (e : Err) (h : (parse cfg bs).result = .error e) :
    (parse cfg bs).events = [] ∨ ∃ cs l, (parse cfg bs).events = [Event.startDoc cs l] := by
  rcases parse_anatomy cfg bs with ⟨c, _, _, h', _⟩ | ⟨s, l, c, _, _, _, h', _⟩ | ⟨s, l, ev, s', _, _, h', _⟩
  · exact Or.inl h'
  · exact Or.inr ⟨_, _, h'⟩
  · rw [h'] at h; cases h

/-! ## Part B — the individual checks -/

/-- The empty input is refused (error 44) and nothing is reported. -/
theorem empty_rejected (cfg : PCfg) :
    (parse cfg []).result = .error (.code 44) ∧ (parse cfg []).events = [] := by
  simp [parse, parseHeader, E.emptyWbxml]

/-- `parse_strtbl`: a declared string-table length that exceeds the bytes that follow is error 54. -/
theorem strtbl_length_checked_local (s : PState) (len : Nat) (r : Bytes)
    (hmb : mbLoop 5 0 s.rest = .ok (len, r)) (hlen : len > r.length) :
    parseStrtbl s = .error (.code 54) := by
  unfold parseStrtbl
  rw [hmb]
  have h0 : (len == 0) = false := by
    cases len with
    | zero => omega
    | succ n => rfl
  simp only [h0, Bool.false_eq_true, if_false, hlen, if_true, E.strtblLength]

/-- The same seen from `parse`: if, after version / public id / charset (`headerPre`), the
    string-table length field declares more bytes than are present, the run fails with error 54
    and reports no event at all. -/
theorem strtbl_length_checked (cfg : PCfg) (bs : Bytes) (pid : Nat) (idx : Option Nat) (s : PState)
    (len : Nat) (r : Bytes) (hpre : headerPre cfg bs = .ok (pid, idx, s))
    (hmb : mbLoop 5 0 s.rest = .ok (len, r)) (hlen : len > r.length) :
    (parse cfg bs).result = .error (.code 54) ∧ (parse cfg bs).events = [] := by
  have hne : bs.isEmpty = false := by
    cases bs with
    | nil =>
      have : headerPre cfg [] = .error (.code 45) := rfl
      rw [this] at hpre; cases hpre
    | cons _ _ => rfl
  have hh : parseHeader cfg bs = .error (.code 54) := by
    rw [parseHeader_eq, hne, hpre]
    simp only [Bool.false_eq_true, if_false, bind, Except.bind]
    rw [strtbl_length_checked_local s len r hmb hlen]
  simp [parse, hh]

/-- `parse_opaque`: a declared opaque length that exceeds the bytes that follow is error 43. -/
theorem opaque_length_checked (s : PState) (r : Bytes) (len : Nat) (r' : Bytes)
    (hs : s.rest = 0xC3 :: r) (hmb : mbLoop 5 0 r = .ok (len, r')) (hlen : len > r'.length) :
    parseOpaque s = .error (.code 43) := by
  simp only [parseOpaque, skip1, hs, parseMb, hmb, bind, Except.bind, pure, Except.pure, hlen,
    if_true, E.badOpaqueLength]

/-- `get_strtbl_reference` with an index at or beyond the (padded) table: error 48. -/
theorem strtbl_index_checked (s : PState) (tbl : Bytes) (i : Nat) (ht : s.strtbl = some tbl)
    (hi : i ≥ tbl.length) : strtblRef s i = .error (.code 48) := by
  simp only [strtblRef, ht, hi, if_true, E.invalidStrtblIndex]

/-- … without a string table every index but 0 is error 52 … -/
theorem strtbl_index_no_table (s : PState) (i : Nat) (ht : s.strtbl = none) (hi : i ≠ 0) :
    strtblRef s i = .error (.code 52) := by
  have : (i == 0) = false := by
    cases i with
    | zero => exact absurd rfl hi
    | succ n => rfl
  simp only [strtblRef, ht, this, Bool.false_eq_true, if_false, E.nullStringTable]

/-- … and index 0 without a table reads as "xmlns" (the documented Nokia tolerance). -/
theorem nokia_xmlns (s : PState) (ht : s.strtbl = none) : strtblRef s 0 = .ok b!"xmlns" := by
  simp [strtblRef, ht]

/-- `strlen` of a NUL-free byte string is its length. -/
theorem cstrLen_of_no_nul : ∀ (bs : Bytes), (∀ b ∈ bs, b ≠ 0) → cstrLen bs = bs.length
  | [], _ => rfl
  | b :: r, h => by
    have hb : (b == 0) = false := by
      have := h b (by simp)
      simpa using this
    simp only [cstrLen, hb, Bool.false_eq_true, if_false, List.length_cons]
    rw [cstrLen_of_no_nul r (fun x hx => h x (by simp [hx]))]

theorem searchNull2_of_no_nul : ∀ (bs : Bytes), (∀ b ∈ bs, b ≠ 0) → searchNull2 bs = false
  | [], _ => rfl
  | [_], _ => rfl
  | a :: b :: r, h => by
    have ha : (a == 0) = false := by
      have := h a (by simp)
      simpa using this
    simp only [searchNull2, ha, Bool.false_and, Bool.false_eq_true, if_false]
    exact searchNull2_of_no_nul r (fun x hx => h x (by simp [hx]))

/-- An inline string (or string-table entry) without terminator inside the available bytes is
    error 31, in every charset. -/
theorem inline_string_needs_terminator (cs : Nat) (avail : Bytes) (h : ∀ b ∈ avail, b ≠ 0) :
    convTerm cs avail = .error (.code 31) := by
  unfold convTerm
  split
  · rw [searchNull2_of_no_nul avail h]; rfl
  · simp only [cstrLen_of_no_nul avail h, Nat.lt_add_one, gt_iff_lt, if_true, E.charsetStrLen]

/-- Hence `parse_termstr` on a NUL-free remainder fails (the cursor is not moved). -/
theorem termstr_needs_terminator (s : PState) (h : ∀ b ∈ s.rest, b ≠ 0) :
    parseTermstr s = .error (.code 31) := by
  simp only [parseTermstr, inline_string_needs_terminator s.charset s.rest h, bind, Except.bind]

/-- A multi-byte integer whose first five octets all carry the continuation flag is error 70; the
    sixth octet is never looked at. -/
theorem mb_uint_sixth_octet_rejected (b1 b2 b3 b4 b5 : UInt8) (r : Bytes) (acc : Nat)
    (h1 : b1.toNat &&& 0x80 ≠ 0) (h2 : b2.toNat &&& 0x80 ≠ 0) (h3 : b3.toNat &&& 0x80 ≠ 0)
    (h4 : b4.toNat &&& 0x80 ≠ 0) (h5 : b5.toNat &&& 0x80 ≠ 0) :
    mbLoop 5 acc (b1 :: b2 :: b3 :: b4 :: b5 :: r) = .error (.code 70) := by
  have f : ∀ b : UInt8, b.toNat &&& 0x80 ≠ 0 → (b.toNat &&& 0x80 == 0) = false := by
    intro b hb; simpa using hb
  simp only [mbLoop, f b1 h1, f b2 h2, f b3 h3, f b4 h4, f b5 h5, Bool.false_eq_true, if_false,
    E.unvalidMbUint32]

/-- … and a multi-byte integer cut short by the end of the input is error 45. -/
theorem mb_uint_truncated : ∀ (n acc : Nat) (bs : Bytes), 0 < n → (∀ b ∈ bs, b.toNat &&& 0x80 ≠ 0) →
    bs.length < n → mbLoop n acc bs = .error (.code 45)
  | n + 1, acc, [], _, _, _ => rfl
  | n + 1, acc, b :: r, _, h, hl => by
    have hb : (b.toNat &&& 0x80 == 0) = false := by
      have := h b (by simp)
      simpa using this
    simp only [mbLoop, hb, Bool.false_eq_true, if_false]
    have hl' : r.length < n := by simp at hl; omega
    exact mb_uint_truncated n _ r (by omega) (fun x hx => h x (by simp [hx])) hl'

/-- Documented tolerance: a string table whose last byte is not NUL is padded with four NULs in the
    parser's private copy (so every in-range reference finds a terminator) … -/
theorem unterminated_strtbl_padded (s : PState) (len : Nat) (r : Bytes)
    (hmb : mbLoop 5 0 s.rest = .ok (len, r)) (h0 : len ≠ 0) (hlen : len ≤ r.length)
    (hlast : (r.take len).getLast? ≠ some 0) :
    parseStrtbl s = .ok { s with rest := r.drop len, strtbl := some (r.take len ++ [0, 0, 0, 0]) } := by
  unfold parseStrtbl
  rw [hmb]
  have h0' : (len == 0) = false := by
    cases len with
    | zero => exact absurd rfl h0
    | succ n => rfl
  have h1 : ¬ len > r.length := by omega
  have h2 : ((r.take len).getLast? == some 0) = false := by simpa using hlast
  simp only [h0', Bool.false_eq_true, if_false, h1, h2]

/-- … while a terminated table is taken as it is. -/
theorem terminated_strtbl_kept (s : PState) (len : Nat) (r : Bytes)
    (hmb : mbLoop 5 0 s.rest = .ok (len, r)) (h0 : len ≠ 0) (hlen : len ≤ r.length)
    (hlast : (r.take len).getLast? = some 0) :
    parseStrtbl s = .ok { s with rest := r.drop len, strtbl := some (r.take len) } := by
  unfold parseStrtbl
  rw [hmb]
  have h0' : (len == 0) = false := by
    cases len with
    | zero => exact absurd rfl h0
    | succ n => rfl
  have h1 : ¬ len > r.length := by omega
  have h2 : ((r.take len).getLast? == some 0) = true := by simp [hlast]
  simp only [h0', Bool.false_eq_true, if_false, h1, h2, if_true]

/-- Documented tolerance: when the caller forces a language the document's public identifier (and
    public-identifier string index) are not consulted. -/
theorem forced_skips_pid_check (cfg : PCfg) (hf : cfg.langForced ≠ 0) (s s' : PState) (pid pid' : Nat)
    (idx idx' : Option Nat) :
    checkPublicId cfg s pid idx = checkPublicId cfg s' pid' idx' ∧
    checkPublicId cfg s pid idx = cfg.main.find? (fun l => l.id == cfg.langForced) := by
  have h1 : (cfg.langForced == 0) = false := by simpa using hf
  have h2 : (cfg.langForced != 0) = true := by simpa using hf
  simp only [checkPublicId, h1, h2, Bool.false_and, Bool.false_eq_true, if_false, if_true, and_self]

/-! ### The same checks, stated for field *values* (through the C11 codec: `Codec.mbEncode` is the
library's own writer `wbxml_buffer_append_mb_uint_32`, and `Lemmas/ParserBridge.lean` shows the parser
reads it back) -/

/-- A string-table length field holding any 32-bit value larger than the number of bytes that
    follow it is refused with error 54. -/
theorem strtbl_length_value_checked (s : PState) (len : Nat) (r : Bytes) (hv : len < 2 ^ 32)
    (hs : s.rest = Codec.mbEncode len ++ r) (hlen : len > r.length) :
    parseStrtbl s = .error (.code 54) := by
  refine strtbl_length_checked_local s len r ?_ hlen
  rw [hs, mbLoop_eq_mbDecode, Wbxml.Props.C11.mb_roundtrip len r hv]

/-- An opaque length field holding any 32-bit value larger than the number of bytes that follow it
    is refused with error 43. -/
theorem opaque_length_value_checked (s : PState) (len : Nat) (r : Bytes) (hv : len < 2 ^ 32)
    (hs : s.rest = 0xC3 :: (Codec.mbEncode len ++ r)) (hlen : len > r.length) :
    parseOpaque s = .error (.code 43) := by
  refine opaque_length_checked s _ len r hs ?_ hlen
  rw [mbLoop_eq_mbDecode, Wbxml.Props.C11.mb_roundtrip len r hv]

/-- A string-table reference (`STR_T index`) holding any 32-bit index at or beyond the table is
    refused with error 48, and with error 52 (index ≠ 0) when the document has no table. -/
theorem strT_index_value_checked (s : PState) (idx : Nat) (r : Bytes) (hv : idx < 2 ^ 32)
    (hs : s.rest = 0x83 :: (Codec.mbEncode idx ++ r)) :
    (∀ tbl, s.strtbl = some tbl → idx ≥ tbl.length → parseString s = .error (.code 48)) ∧
    (s.strtbl = none → idx ≠ 0 → parseString s = .error (.code 52)) := by
  have h3 : isToken s 0x03 = false := by simp [isToken, hs]
  have h83 : isToken s 0x83 = true := by simp [isToken, hs]
  have hmb : parseMb { s with rest := Codec.mbEncode idx ++ r } = .ok (idx, { s with rest := r }) :=
    parseMb_mbEncode _ idx r hv rfl
  have key : parseString s = (strtblRef { s with rest := r } idx >>= fun v => pure (v, { s with rest := r })) := by
    simp only [parseString, h3, h83, Bool.false_eq_true, if_false, if_true, skip1, hs, bind, Except.bind, hmb]
  constructor
  · intro tbl ht hi
    rw [key, strtbl_index_checked { s with rest := r } tbl idx ht hi]; rfl
  · intro ht hi
    rw [key, strtbl_index_no_table { s with rest := r } idx ht hi]; rfl

/-! ## Part C — truncation

`rootEnd cfg bs = some e` (defined in `Lemmas/ParserSafeExt.lean`): the header, the leading
processing instructions and the root element of `bs` parse, and the root element ends at offset `e`.
The general statement is about `e`, not about `consumed`: trailing processing instructions after the
root element are optional, so a cut *after* the root element may again be a document (witness below). -/

/-- A successful run has a root end, at least four bytes in and no later than `consumed`. -/
theorem root_closed (cfg : PCfg) (bs : Bytes) (h : (parse cfg bs).result = .ok ()) :
    ∃ e, rootEnd cfg bs = some e ∧ 4 ≤ e ∧ e ≤ (parse cfg bs).consumed ∧ e ≤ bs.length := by
  obtain ⟨e, he, hle⟩ := rootEnd_of_parse_ok h
  obtain ⟨_, _, _, _, _, s2, _, _, _, hE, _, hlen, _⟩ := rootEnd_eq_some he
  exact ⟨e, he, by omega, hle, by omega⟩

/-- The root element's extent is decided by the bytes before its end: appending anything to the
    input leaves it where it is. -/
theorem extend_stable (cfg : PCfg) (bs x : Bytes) (e : Nat) (h : rootEnd cfg bs = some e) :
    rootEnd cfg (bs ++ x) = some e :=
  (rootEnd_ext x h).1

/-- **Every document cut before the end of its root element is rejected** with an error code —
    whether the cut falls in the header, the string table, a tag, an attribute, a string, an opaque,
    a multi-byte integer or just before the final `END` — and the failed run reports no `endDoc`
    (nothing at all when the cut is in the header). -/
theorem prefix_rejected (cfg : PCfg) (bs : Bytes) (e k : Nat) (h : rootEnd cfg bs = some e) (hk : k < e) :
    (∃ c, (parse cfg (bs.take k)).result = .error (.code c)) ∧
    ((parse cfg (bs.take k)).events = [] ∨ ∃ cs l, (parse cfg (bs.take k)).events = [Event.startDoc cs l]) := by
  rcases parse_total cfg (bs.take k) with hok | ⟨c, _, hc⟩
  · exact absurd hok (take_not_ok h hk)
  · exact ⟨⟨c, hc⟩, parse_error_events cfg _ _ hc⟩

/-- The same, starting from an accepted document. -/
theorem prefix_rejected_of_ok (cfg : PCfg) (bs : Bytes) (h : (parse cfg bs).result = .ok ()) :
    ∃ e, rootEnd cfg bs = some e ∧ 4 ≤ e ∧ e ≤ (parse cfg bs).consumed ∧
      ∀ k, k < e → ∃ c, (parse cfg (bs.take k)).result = .error (.code c) := by
  obtain ⟨e, he, h4, hle, _⟩ := root_closed cfg bs h
  exact ⟨e, he, h4, hle, fun k hk => (prefix_rejected cfg bs e k he hk).1⟩

/-- Header stage on its own: every proper prefix of the header bytes of a run whose header was
    accepted fails in the header (so nothing is reported), whatever the body looks like. -/
theorem header_truncation_rejected (cfg : PCfg) (bs : Bytes) (s : PState) (l : Lang) (k : Nat)
    (h : parseHeader cfg bs = .ok (s, l)) (hk : k < bs.length - s.rest.length) :
    (∃ c, (parse cfg (bs.take k)).result = .error (.code c)) ∧ (parse cfg (bs.take k)).events = [] := by
  rcases parse_anatomy cfg (bs.take k) with ⟨c, _, h1, h2, _⟩ | ⟨s', l', c, hh, _⟩ | ⟨s', l', _, _, hh, _⟩
  · exact ⟨⟨c, h1⟩, h2⟩
  · exact absurd hh (header_take_not_ok h hk _)
  · exact absurd hh (header_take_not_ok h hk _)

/-- The same at the level of the conversion (`wbxml_conv_wbxml2xml_run`): a document cut before the
    end of its root element yields a non-zero error code and no XML, under every option tuple. -/
theorem conversion_prefix_rejected (cfg : W2XCfg) (bs : Bytes) (e k : Nat)
    (h : rootEnd { main := cfg.main, langForced := cfg.lang, metaCharset := cfg.charset } bs = some e)
    (hk : k < e) : ∃ c, c ≠ 0 ∧ wbxml2xml cfg (bs.take k) = .error (.code c) := by
  rcases wbxml2xml_anatomy cfg (bs.take k) with ⟨_, h'⟩ | ⟨c, hc0, _, h'⟩ | ⟨t, ht, _⟩
  · exact ⟨12, by decide, h'⟩
  · exact ⟨c, hc0, h'⟩
  · obtain ⟨⟨c, hc⟩, _⟩ := prefix_rejected _ bs e k h hk
    rw [treeOfWbxml_of_parse_error cfg.main _ cfg.lang cfg.charset _ _ hc] at ht
    cases ht

/-- Documented tolerance: bytes after the document are ignored. Appending `y` to an accepted input
    changes neither verdict, events nor `consumed` — unless the run had consumed the whole input and
    `y` starts with the `PI` token 0x43, in which case `y` is read as one more trailing processing
    instruction. -/
theorem trailing_ignored (cfg : PCfg) (bs y : Bytes) (h : (parse cfg bs).result = .ok ())
    (hy : (parse cfg bs).consumed = bs.length → y.head? ≠ some 0x43) :
    (parse cfg (bs ++ y)).result = .ok () ∧ (parse cfg (bs ++ y)).events = (parse cfg bs).events ∧
    (parse cfg (bs ++ y)).consumed = (parse cfg bs).consumed :=
  parse_append y h hy

/-! ## Non-vacuity and witnesses -/

/-- A one-language main table for the examples (tag/attribute/value tables present). -/
def demoLang : Lang :=
  { id := 1101, pub := ⟨2, some b!"-//DEMO//EN", some b!"doc", some b!"demo.dtd"⟩,
    tags := some [⟨b!"doc", 0, 5, 0⟩, ⟨b!"p", 0, 6, 0⟩],
    ns := none,
    attrs := some [⟨b!"id", none, 0, 5⟩, ⟨b!"href", some b!"http://", 0, 6⟩],
    values := some [⟨b!".com", 0, 0x85⟩],
    exts := none }

def demoCfg : PCfg := { main := [demoLang] }

/-- `<doc>a</doc>`: version 3, public id 2, UTF-8, empty string table, `doc` with content. -/
def demoDoc : Bytes := [3, 2, 0x6A, 0, 0x45, 3, 0x61, 0, 1]

/-- `<doc id="x.com"><p/>&#x41;</doc>` with a two-byte string table ("x\0"). -/
def demoDoc2 : Bytes := [3, 2, 0x6A, 2, 0x78, 0, 0xC5, 5, 0x83, 0, 0x85, 1, 6, 2, 0x41, 1]

example : (parse demoCfg demoDoc).result.toBool = true := by decide +kernel
example : (parse demoCfg demoDoc).consumed = 9 ∧ rootEnd demoCfg demoDoc = some 9 := by decide +kernel
example : (parse demoCfg demoDoc2).result.toBool = true ∧ rootEnd demoCfg demoDoc2 = some 16 := by
  decide +kernel
/-- … so `prefix_rejected` applies to all 16 cuts of `demoDoc2` (hypotheses satisfiable). -/
example : ∀ k, k < 16 → ∃ c, (parse demoCfg (demoDoc2.take k)).result = .error (.code c) :=
  fun k hk => (prefix_rejected demoCfg demoDoc2 16 k (by decide +kernel) hk).1

/-- Why the truncation theorem speaks of the root end and not of `consumed`: a trailing processing
    instruction is consumed (8 bytes), yet cutting it off (5 bytes) leaves a document. The statement
    "every `k < consumed` is rejected" is therefore false, and rightly so (the property's wording is
    "ends inside its header, string table, or root element"). -/
theorem prefix_before_consumed_may_be_accepted :
    ¬ ∀ (cfg : PCfg) (bs : Bytes) (k : Nat), (parse cfg bs).result = .ok () → k < (parse cfg bs).consumed →
        (parse cfg (bs.take k)).result ≠ .ok () := by
  intro h
  have h1 : (parse demoCfg [3, 2, 0x6A, 0, 5, 0x43, 6, 1]).result = .ok () := by
    have : (parse demoCfg [3, 2, 0x6A, 0, 5, 0x43, 6, 1]).result.toBool = true := by decide +kernel
    rcases parse_total demoCfg [3, 2, 0x6A, 0, 5, 0x43, 6, 1] with h | ⟨c, _, h⟩
    · exact h
    · rw [h] at this; cases this
  have h2 : (parse demoCfg [3, 2, 0x6A, 0, 5, 0x43, 6, 1]).consumed = 8 := by decide +kernel
  have h3 : (parse demoCfg ([3, 2, 0x6A, 0, 5, 0x43, 6, 1].take 5)).result.toBool = true := by decide +kernel
  have := h demoCfg [3, 2, 0x6A, 0, 5, 0x43, 6, 1] 5 h1 (by rw [h2]; decide)
  rcases parse_total demoCfg ([3, 2, 0x6A, 0, 5, 0x43, 6, 1].take 5) with h4 | ⟨c, _, h4⟩
  · exact this h4
  · rw [h4] at h3; cases h3

/-- The hypotheses of the local checks are satisfiable. -/
example : parseStrtbl { rest := [5, 0x61, 0] } = .error (.code 54) :=
  strtbl_length_checked_local { rest := [5, 0x61, 0] } 5 [0x61, 0] rfl (by decide)
example : (parse demoCfg [3, 2, 0x6A, 5, 0x61, 0]).result = .error (.code 54) ∧
    (parse demoCfg [3, 2, 0x6A, 5, 0x61, 0]).events = [] :=
  strtbl_length_checked demoCfg _ 2 none { rest := [5, 0x61, 0], charset := 106, version := 3 } 5 [0x61, 0]
    rfl rfl (by decide)
example : parseOpaque { rest := [0xC3, 4, 1, 2] } = .error (.code 43) :=
  opaque_length_checked _ [4, 1, 2] 4 [1, 2] rfl rfl (by decide)
example : strtblRef { rest := [], strtbl := some [0x78, 0] } 2 = .error (.code 48) :=
  strtbl_index_checked _ [0x78, 0] 2 rfl (by decide)
example : parseTermstr { rest := [0x61, 0x62], charset := 106 } = .error (.code 31) :=
  termstr_needs_terminator _ (by decide)
example : mbLoop 5 0 [0x81, 0x82, 0x83, 0x84, 0x85, 0x06] = .error (.code 70) :=
  mb_uint_sixth_octet_rejected _ _ _ _ _ _ _ (by decide) (by decide) (by decide) (by decide) (by decide)
example : (parseStrtbl { rest := [1, 0x61, 5] }).toBool = true ∧
    ((parseStrtbl { rest := [1, 0x61, 5] }).toOption.bind (·.strtbl)) = some [0x61, 0, 0, 0, 0] := by
  decide +kernel
/-- Forcing a language: the same bytes with an unknown public id (0x7F) are accepted. -/
example : (parse { demoCfg with langForced := 1101 } [3, 0x7F, 0x6A, 0, 5]).result.toBool = true ∧
    (parse demoCfg [3, 0x7F, 0x6A, 0, 5]).result.toBool = false := by decide +kernel
/-- Trailing bytes: garbage after the root element is ignored (`trailing_ignored` applies: the run
    consumed everything, and the appended bytes do not start with the PI token). -/
example : (parse demoCfg (demoDoc ++ [0xFF, 0xFF])).consumed = 9 := by decide +kernel
example : (parse demoCfg (demoDoc ++ [0xFF, 0xFF])).events = (parse demoCfg demoDoc).events := by
  have h : (parse demoCfg demoDoc).result = .ok () := by
    rcases parse_total demoCfg demoDoc with h | ⟨c, _, h⟩
    · exact h
    · have : (parse demoCfg demoDoc).result.toBool = true := by decide +kernel
      rw [h] at this; cases this
  exact (trailing_ignored demoCfg demoDoc [0xFF, 0xFF] h (fun _ => by decide)).2.1
/-- Header truncation: the header of `demoDoc2` is its first 6 bytes. -/
example : ∀ k, k < 6 → (parse demoCfg (demoDoc2.take k)).events = [] := by
  intro k hk
  have hh : (match parseHeader demoCfg demoDoc2 with
      | .ok (s, _) => s.rest.length == 10 | .error _ => false) = true := by decide +kernel
  cases hp : parseHeader demoCfg demoDoc2 with
  | error e => rw [hp] at hh; cases hh
  | ok p =>
    obtain ⟨s, l⟩ := p
    rw [hp] at hh
    have hl : s.rest.length = 10 := by simpa using hh
    exact (header_truncation_rejected demoCfg demoDoc2 s l k hp (by rw [hl]; simpa [demoDoc2] using hk)).2

end Wbxml.Props.C13
