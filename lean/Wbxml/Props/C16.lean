/-
  C16 — running out of memory yields a clean error, never a crash or a leak.
-/
import Wbxml.Lemmas.AllocCont
namespace Wbxml.Props.C16
open Wbxml Wbxml.Model.Alloc

theorem bufCreate_clean (src : Option Bytes) (blk : Nat) (s : Ledger) (wf : s.WF) :
    Good (bufCreate src blk) s (fun r s' =>
      LiveEq s s' [] (ownedBufOpt r) ∧ (s.hits < s'.hits → r = none)) :=
  (bufCreate_spec src blk s wf).mono (fun _ _ h => ⟨h.1, h.2.2.2⟩)

end Wbxml.Props.C16
