/-
  C16 — running out of memory yields a clean error, never a crash or a leak.

  Every theorem is about the ledger-monad models of `Model/Alloc*.lean` (tied to the C code by the
  OOM correspondence of `tools/props/c16.py`).  The clause proved per function is

      `SingleFailureClean f isErr s consumed owned` :
        for EVERY k, the run of `f` from ledger `s` with request k failing
          * ends without fault (no double free, no free of an unknown block, no use after free,
            no NULL dereference),
          * leaves  live = (live₀ \ consumed) ∪ owned(result)  — nothing leaked, nothing else freed,
          * returns an error, or else exactly the value of the run without failure.

  It is obtained from a stronger fact that holds for EVERY schedule (`AnyScheduleClean`: any set
  of failing requests — pairs, triples, …), proved by induction on the attribute / piece / cell
  lists in `Lemmas/Alloc*.lean`.  The `*_old_*` theorems are the kernel-checked `(function, k)`
  witnesses that the code before the `fix:` commits violated the clause.
-/
import Wbxml.Lemmas.AllocCont
import Wbxml.Lemmas.AllocParse
import Wbxml.Lemmas.AllocEnc
import Wbxml.Lemmas.AllocStrtbl
import Wbxml.Lemmas.AllocWords
import Wbxml.Lemmas.AllocInit
import Wbxml.Lemmas.AllocEncTree
import Wbxml.Lemmas.AllocTreeD
import Wbxml.Lemmas.AllocPipe
import Wbxml.Lemmas.AllocPipeXml
import Wbxml.Lemmas.AllocTreeXmlB
import Wbxml.Model.AllocOld
namespace Wbxml.Props.C16
open Wbxml Wbxml.Model.Alloc

/-- The clause under an arbitrary failure schedule. -/
def AnyScheduleClean {α : Type} (f : Prog α) (isErr : α → Bool) (s : Ledger) (consumed : List Nat)
    (owned : α → List Nat) : Prop :=
  ∀ sched : List Nat, ∃ r s', run f { s with sched := sched } = (.ok r, s') ∧
    (∀ i, i ∈ s'.live ↔ (i ∈ s.live ∧ i ∉ consumed) ∨ i ∈ owned r) ∧
    (isErr r = true ∨ (run f { s with sched := [] }).1 = .ok r)

/-- The clause of the property: one failing request, any k. -/
def SingleFailureClean {α : Type} (f : Prog α) (isErr : α → Bool) (s : Ledger) (consumed : List Nat)
    (owned : α → List Nat) : Prop :=
  ∀ k : Nat, ∃ r s', run f { s with sched := failAt k } = (.ok r, s') ∧
    (∀ i, i ∈ s'.live ↔ (i ∈ s.live ∧ i ∉ consumed) ∨ i ∈ owned r) ∧
    (isErr r = true ∨ (run f { s with sched := [] }).1 = .ok r)

/-- … and two failing requests (thorough tier of the enumeration). -/
def PairFailureClean {α : Type} (f : Prog α) (isErr : α → Bool) (s : Ledger) (consumed : List Nat)
    (owned : α → List Nat) : Prop :=
  ∀ k1 k2 : Nat, ∃ r s', run f { s with sched := [k1, k2] } = (.ok r, s') ∧
    (∀ i, i ∈ s'.live ↔ (i ∈ s.live ∧ i ∉ consumed) ∨ i ∈ owned r) ∧
    (isErr r = true ∨ (run f { s with sched := [] }).1 = .ok r)

theorem AnyScheduleClean.single {α : Type} {f : Prog α} {isErr : α → Bool} {s : Ledger} {c : List Nat} {o : α → List Nat}
    (h : AnyScheduleClean f isErr s c o) : SingleFailureClean f isErr s c o := fun k => h (failAt k)

theorem AnyScheduleClean.pair {α : Type} {f : Prog α} {isErr : α → Bool} {s : Ledger} {c : List Nat} {o : α → List Nat}
    (h : AnyScheduleClean f isErr s c o) : PairFailureClean f isErr s c o := fun k1 k2 => h [k1, k2]

/-- From a specification that holds in every well-formed ledger to the clause: a run that was
    delivered no failure is the un-failed run (`run_nohit`), a run that was must report an error. -/
theorem clean_of_live {α : Type} {f : Prog α} {isErr : α → Bool} {s : Ledger} {c : List Nat} {o : α → List Nat}
    (spec : ∀ s' : Ledger, s'.live = s.live → s'.next = s.next →
      Good f s' (fun r t => (∀ i, i ∈ t.live ↔ (i ∈ s'.live ∧ i ∉ c) ∨ i ∈ o r) ∧ s'.hits ≤ t.hits ∧
        (s'.hits < t.hits → isErr r = true))) :
    AnyScheduleClean f isErr s c o := by
  intro sched
  obtain ⟨r, t, hrun, hlive, hle, herr⟩ := (spec { s with sched := sched } rfl rfl).elim
  refine ⟨r, t, hrun, hlive, ?_⟩
  by_cases hh : ({ s with sched := sched } : Ledger).hits < t.hits
  · exact Or.inl (herr hh)
  · refine Or.inr ?_
    have heq : (run f { s with sched := sched }).2.hits = ({ s with sched := sched } : Ledger).hits := by
      rw [hrun]; simp at hle hh ⊢; omega
    have := run_nohit f { s with sched := sched } heq
    rw [hrun] at this
    simpa using congrArg Prod.fst this

theorem clean_of_spec {α : Type} {f : Prog α} {isErr : α → Bool} {s : Ledger} {c : List Nat} {o : α → List Nat}
    (spec : ∀ s' : Ledger, s'.live = s.live → s'.next = s.next →
      Good f s' (fun r t => Clean s' t c (o r) ∧ (s'.hits < t.hits → isErr r = true))) :
    AnyScheduleClean f isErr s c o :=
  clean_of_live fun s' hl hn => (spec s' hl hn).mono fun r t ⟨c, h⟩ => ⟨c.live, c.hits, h⟩

/-- Well-formedness only looks at `live` and `next`. -/
theorem wf_of_eq {s s' : Ledger} (wf : s.WF) (hl : s'.live = s.live) (hn : s'.next = s.next) : s'.WF := by
  intro i hi; rw [hl] at hi; rw [hn]; exact wf i hi

theorem owns_of_eq {s s' : Ledger} {X : List Nat} (own : Owns s X) (hl : s'.live = s.live) : Owns s' X :=
  ⟨own.1, fun i hi => by rw [hl]; exact own.2 i hi⟩

/-! ## Container core: buffers -/

theorem buffer_create_clean (src : Option Bytes) (blk : Nat) (s : Ledger) (wf : s.WF) :
    AnyScheduleClean (bufCreate src blk) Option.isNone s [] ownedBufOpt :=
  clean_of_spec fun s' hl hn => (bufCreate_spec src blk s' (wf_of_eq wf hl hn)).mono
    fun r t ⟨c, h, _, _⟩ => ⟨c, fun hh => by rw [h hh]; rfl⟩

theorem buffer_sta_create_clean (d : Bytes) (s : Ledger) (wf : s.WF) :
    AnyScheduleClean (bufStaCreate d) Option.isNone s [] ownedBufOpt :=
  clean_of_spec fun s' hl hn => (bufStaCreate_spec d s' (wf_of_eq wf hl hn)).mono
    fun r t ⟨c, h, _⟩ => ⟨c, fun hh => by rw [h hh]; rfl⟩

theorem buffer_destroy_clean (b : Option ABuf) (s : Ledger) (wf : s.WF) (own : Owns s (ownedBufOpt b)) :
    AnyScheduleClean (bufDestroy b) (fun _ => false) s (ownedBufOpt b) (fun _ => []) :=
  clean_of_spec fun s' hl hn => (bufDestroy_spec b s' (wf_of_eq wf hl hn) (owns_of_eq own hl)).mono
    fun r t ⟨c, h, _⟩ => ⟨c, fun hh => by omega⟩

/-- `grow_buff` (repaired): the old block is kept on failure. -/
theorem grow_buff_clean (b : ABuf) (size : Nat) (s : Ledger) (wf : s.WF) (own : Owns s b.owned) :
    AnyScheduleClean (growBuff b size) (fun r => !r.2) s b.owned (fun r => r.1.owned) :=
  clean_of_spec fun s' hl hn => (growBuff_spec b size s' (wf_of_eq wf hl hn) (owns_of_eq own hl)).mono
    fun r t ⟨⟨_, _, c, h, _⟩, _⟩ => ⟨c, fun hh => by rw [h hh]; rfl⟩

theorem insert_data_clean (b : ABuf) (pos : Nat) (d : Bytes) (s : Ledger) (wf : s.WF) (own : Owns s b.owned) (hok : b.ok) :
    AnyScheduleClean (insertData b pos d) (fun r => !r.2) s b.owned (fun r => r.1.owned) :=
  clean_of_spec fun s' hl hn => (insertData_spec b pos d s' (wf_of_eq wf hl hn) (owns_of_eq own hl) hok).mono
    fun r t ⟨_, _, c, h, _⟩ => ⟨c, fun hh => by rw [h hh]; rfl⟩

theorem buffer_append_data_clean (b : ABuf) (d : Option Bytes) (s : Ledger) (wf : s.WF) (own : Owns s b.owned) (hok : b.ok) :
    AnyScheduleClean (bufAppendData b d) (fun r => !r.2) s b.owned (fun r => r.1.owned) :=
  clean_of_spec fun s' hl hn => (bufAppendData_spec b d s' (wf_of_eq wf hl hn) (owns_of_eq own hl) hok).mono
    fun r t ⟨_, _, c, h, _⟩ => ⟨c, fun hh => by rw [h hh]; rfl⟩

theorem buffer_append_clean (dest : ABuf) (src : Option ABuf) (s : Ledger) (wf : s.WF) (own : Owns s dest.owned)
    (hok : dest.ok) (hsrc : ∀ x, src = some x → x.hdr ∈ s.live) :
    AnyScheduleClean (bufAppend dest src) (fun r => !r.2) s dest.owned (fun r => r.1.owned) :=
  clean_of_spec fun s' hl hn =>
    (bufAppend_spec dest src s' (wf_of_eq wf hl hn) (owns_of_eq own hl) hok (fun x hx => by rw [hl]; exact hsrc x hx)).mono
      fun r t ⟨_, _, c, h, _⟩ => ⟨c, fun hh => by rw [h hh]; rfl⟩

theorem buffer_append_char_clean (b : ABuf) (ch : UInt8) (s : Ledger) (wf : s.WF) (own : Owns s b.owned) (hok : b.ok) :
    AnyScheduleClean (bufAppendChar b ch) (fun r => !r.2) s b.owned (fun r => r.1.owned) :=
  clean_of_spec fun s' hl hn => (bufAppendChar_spec b ch s' (wf_of_eq wf hl hn) (owns_of_eq own hl) hok).mono
    fun r t ⟨_, _, c, h, _⟩ => ⟨c, fun hh => by rw [h hh]; rfl⟩

/-- `wbxml_buffer_duplicate` of a non-NULL buffer. -/
theorem buffer_duplicate_clean (b : ABuf) (s : Ledger) (wf : s.WF) (hb : b.hdr ∈ s.live) :
    AnyScheduleClean (bufDuplicate (some b)) Option.isNone s [] ownedBufOpt :=
  clean_of_spec fun s' hl hn =>
    (bufDuplicate_spec (some b) s' (wf_of_eq wf hl hn) (fun x hx => by cases hx; rw [hl]; exact hb)).mono
      fun r t ⟨c, h, _, _⟩ => ⟨c, fun hh => by rw [h hh]; rfl⟩

/-! ## Container core: lists -/

theorem list_create_clean {ι : Type} (s : Ledger) (wf : s.WF) :
    AnyScheduleClean (listCreate (ι := ι)) Option.isNone s [] (fun r => match r with | none => [] | some l => [l.hdr]) :=
  clean_of_spec fun s' hl hn => (listCreate_spec (ι := ι) s' (wf_of_eq wf hl hn)).mono
    fun r t ⟨c, h, _⟩ => ⟨c, fun hh => by rw [h hh]; rfl⟩

/-- The cells a list gained. -/
def newCells {ι : Type} (l : AList ι) (r : AList ι × Bool) : List Nat :=
  (r.1.cells.map (·.1)).filter (fun i => !(l.cells.map (·.1)).contains i)

theorem newCells_of_step {ι : Type} {l : AList ι} {s t : Ledger} {r : AList ι × Bool} (wf : s.WF)
    (hc : ∀ c ∈ l.cells.map (·.1), c ∈ s.live) (h : ListStep l s r t) :
    (∀ i, i ∈ t.live ↔ (i ∈ s.live ∧ i ∉ ([] : List Nat)) ∨ i ∈ newCells l r) ∧ s.hits ≤ t.hits := by
  obtain ⟨_, _, hcase⟩ := h
  rcases hcase with ⟨_, hl2, c⟩ | ⟨_, cid, c, hperm⟩
  · refine ⟨fun i => ?_, c.hits⟩
    rw [c.live]
    have : newCells l r = [] := by
      simp only [newCells, hl2, List.filter_eq_nil_iff]
      intro a ha; simp [ha]
    rw [this]
  · refine ⟨fun i => ?_, c.hits⟩
    rw [c.live]
    have hcid : cid ∉ l.cells.map (·.1) := fun hm => c.fresh_not_live wf cid (by simp) (hc cid hm)
    have hmem : i ∈ r.1.cells.map (·.1) ↔ i = cid ∨ i ∈ l.cells.map (·.1) := by
      rw [hperm.mem_iff]; simp
    simp only [newCells, List.mem_filter, hmem, List.contains_eq_mem, Bool.not_eq_eq_eq_not, Bool.not_true,
      decide_eq_false_iff_not, List.mem_singleton, List.not_mem_nil, not_false_eq_true, and_true]
    constructor
    · rintro (h | h)
      · exact Or.inl h
      · subst h; exact Or.inr ⟨Or.inl rfl, hcid⟩
    · rintro (h | ⟨h | h, hn⟩)
      · exact Or.inl h
      · exact Or.inr h
      · exact (hn h).elim

/-- `wbxml_list_append`: on success exactly one fresh cell; the list struct and the item are untouched. -/
theorem list_append_clean {ι : Type} (l : AList ι) (item : ι) (s : Ledger) (wf : s.WF) (hl : l.hdr ∈ s.live)
    (hc : ∀ c ∈ l.cells.map (·.1), c ∈ s.live) :
    AnyScheduleClean (listAppend l item) (fun r => !r.2) s [] (newCells l) := by
  refine clean_of_live fun s' hl' hn => (listAppend_spec l item s' (wf_of_eq wf hl' hn) (by rw [hl']; exact hl)).mono ?_
  intro r t ⟨e, h, hcase⟩
  have hstep : ListStep l s' r t := by
    refine ⟨e, h, ?_⟩
    rcases hcase with h1 | ⟨hok, cid, hcells, c⟩
    · exact Or.inl h1
    · refine Or.inr ⟨hok, cid, c, ?_⟩
      rw [hcells]
      simp only [List.map_append, List.map_cons, List.map_nil]
      exact List.perm_append_singleton _ _
  have := newCells_of_step (wf_of_eq wf hl' hn) (fun c hcm => by rw [hl']; exact hc c hcm) hstep
  exact ⟨this.1, this.2, fun hh => by rw [h hh]; rfl⟩

theorem list_insert_clean {ι : Type} (l : AList ι) (item : ι) (pos : Nat) (s : Ledger) (wf : s.WF) (hl : l.hdr ∈ s.live)
    (hc : ∀ c ∈ l.cells.map (·.1), c ∈ s.live) :
    AnyScheduleClean (listInsert l item pos) (fun r => !r.2) s [] (newCells l) := by
  refine clean_of_live fun s' hl' hn => (listInsert_spec l item pos s' (wf_of_eq wf hl' hn) (by rw [hl']; exact hl)).mono ?_
  intro r t hstep
  have := newCells_of_step (wf_of_eq wf hl' hn) (fun c hcm => by rw [hl']; exact hc c hcm) hstep
  exact ⟨this.1, this.2, fun hh => by rw [hstep.2.1 hh]; rfl⟩

theorem list_destroy_clean {ι : Type} (oi : ι → List Nat) (d : ι → Prog Unit) (hd : Destroys oi d)
    (l : Option (AList ι)) (s : Ledger) (wf : s.WF) (own : Owns s (listOwned oi l)) :
    AnyScheduleClean (listDestroy l d) (fun _ => false) s (listOwned oi l) (fun _ => []) :=
  clean_of_spec fun s' hl hn => (listDestroy_spec oi d hd l s' (wf_of_eq wf hl hn) (owns_of_eq own hl)).mono
    fun r t ⟨c, h, _⟩ => ⟨c, fun hh => by omega⟩

/-! ## Container core: tags, attribute names, attributes (`wbxml_elt.c`), tree node -/

theorem name_create_token_clean (row : Nat) (s : Ledger) (wf : s.WF) :
    AnyScheduleClean (nameCreateToken row) Option.isNone s [] ownedNameOpt :=
  clean_of_spec fun s' hl hn => (nameCreateToken_spec row s' (wf_of_eq wf hl hn)).mono
    fun r t ⟨c, h⟩ => ⟨c, fun hh => by rw [h hh]; rfl⟩

theorem name_create_literal_clean (value : Option Bytes) (s : Ledger) (wf : s.WF) :
    AnyScheduleClean (nameCreateLiteral value) Option.isNone s [] ownedNameOpt :=
  clean_of_spec fun s' hl hn => (nameCreateLiteral_spec value s' (wf_of_eq wf hl hn)).mono
    fun r t ⟨c, h⟩ => ⟨c, fun hh => by rw [h hh]; rfl⟩

/-- `wbxml_tag_duplicate` / `wbxml_attribute_name_duplicate` (repaired): NULL on any failed copy. -/
theorem name_duplicate_clean (t : AName) (s : Ledger) (wf : s.WF) (own : Owns s t.owned) :
    AnyScheduleClean (nameDuplicate (some t)) Option.isNone s [] ownedNameOpt :=
  clean_of_spec fun s' hl hn =>
    (nameDuplicate_spec (some t) s' (wf_of_eq wf hl hn) (owns_of_eq own hl)).mono
      fun r u ⟨c, h, _⟩ => ⟨c, fun hh => by rw [h hh]; rfl⟩

theorem name_destroy_clean (t : Option AName) (s : Ledger) (wf : s.WF) (own : Owns s (ownedNameOpt t)) :
    AnyScheduleClean (nameDestroy t) (fun _ => false) s (ownedNameOpt t) (fun _ => []) :=
  clean_of_spec fun s' hl hn => (nameDestroy_spec t s' (wf_of_eq wf hl hn) (owns_of_eq own hl)).mono
    fun r u ⟨c, h, _⟩ => ⟨c, fun hh => by omega⟩

theorem attribute_create_clean (s : Ledger) (wf : s.WF) :
    AnyScheduleClean attrCreate Option.isNone s [] ownedAttrOpt :=
  clean_of_spec fun s' hl hn => (attrCreate_spec s' (wf_of_eq wf hl hn)).mono
    fun r t ⟨c, h, _⟩ => ⟨c, fun hh => by rw [h hh]; rfl⟩

/-- `wbxml_attribute_duplicate` (repaired): NULL when the name or the value cannot be copied. -/
theorem attribute_duplicate_clean (a : AAttr) (s : Ledger) (wf : s.WF) (own : Owns s a.owned) :
    AnyScheduleClean (attrDuplicate (some a)) Option.isNone s [] ownedAttrOpt :=
  clean_of_spec fun s' hl hn =>
    (attrDuplicate_spec (some a) s' (wf_of_eq wf hl hn) (owns_of_eq own hl)).mono
      fun r t ⟨c, h, _⟩ => ⟨c, fun hh => by rw [h hh]; rfl⟩

theorem attribute_destroy_clean (a : Option AAttr) (s : Ledger) (wf : s.WF) (own : Owns s (ownedAttrOpt a)) :
    AnyScheduleClean (attrDestroy a) (fun _ => false) s (ownedAttrOpt a) (fun _ => []) :=
  clean_of_spec fun s' hl hn => (attrDestroy_spec a s' (wf_of_eq wf hl hn) (owns_of_eq own hl)).mono
    fun r u ⟨c, h, _⟩ => ⟨c, fun hh => by omega⟩

/-- `wbxml_tree_node_add_attr` (repaired): the caller's attribute is never touched (it is not among
    the consumed blocks), the node keeps everything it had, and a failure is reported. -/
theorem tree_node_add_attr_clean (n : ANode) (attr : AAttr) (s : Ledger) (wf : s.WF) (own : Owns s n.owned)
    (ownA : Owns s attr.owned) :
    AnyScheduleClean (nodeAddAttr n attr) (fun r => r.2 != OK) s n.owned (fun r => r.1.owned) :=
  clean_of_spec fun s' hl hn =>
    (nodeAddAttr_spec n attr s' (wf_of_eq wf hl hn) (owns_of_eq own hl) (owns_of_eq ownA hl)).mono
      fun r t ⟨_, c, h⟩ => ⟨c, fun hh => by rw [h hh]; rfl⟩

theorem tree_node_destroy_clean (n : ANode) (s : Ledger) (wf : s.WF) (own : Owns s n.owned) :
    AnyScheduleClean (nodeDestroy (some n)) (fun _ => false) s n.owned (fun _ => []) :=
  clean_of_spec fun s' hl hn => (nodeDestroy_spec (some n) s' (wf_of_eq wf hl hn) (owns_of_eq own hl)).mono
    fun r u ⟨c, h, _⟩ => ⟨c, fun hh => by omega⟩

/-! ## Hand-unwound parser functions -/

/-- `parse_attr_start` (repaired `LITERAL` case): an error code whenever the name could not be made. -/
theorem parse_attr_start_clean (st : AttrStart) (hst : st.wf) (s : Ledger) (wf : s.WF) :
    AnyScheduleClean (parseAttrStart st) (fun r => r.1 != OK) s [] (fun r => ownedNameOpt r.2.1) :=
  clean_of_spec fun s' hl hn => (parseAttrStart_spec st hst s' (wf_of_eq wf hl hn)).mono
    fun r t ⟨c, _, _, h⟩ => ⟨c, fun hh => by simpa using h hh⟩

/-- … and with OK the name is there (what `parse_attribute` dereferences). -/
theorem parse_attr_start_ok_has_name (st : AttrStart) (hst : st.wf) (s : Ledger) (wf : s.WF) :
    Good (parseAttrStart st) s (fun r _ => r.1 = OK → r.2.1.isSome) :=
  (parseAttrStart_spec st hst s wf).mono fun r t ⟨_, _, k, _⟩ => k

/-- `parse_attribute`, for every attribute start and every list of value pieces. -/
theorem parse_attribute_clean (a : AttrShape) (hst : a.start.wf) (s : Ledger) (wf : s.WF) :
    AnyScheduleClean (parseAttribute a) (fun r => r.1 != OK) s [] (fun r => ownedAttrOpt r.2) :=
  clean_of_spec fun s' hl hn => (parseAttribute_spec a hst s' (wf_of_eq wf hl hn)).mono
    fun r t ⟨c, _, _, h⟩ => ⟨c, fun hh => by simpa using h hh⟩

/-- `parse_element` with its `realloc`ed attribute table, for every tag and every attribute list. -/
theorem parse_element_clean (t : TagShape) (ht : t.wf) (attrs : List AttrShape) (hshape : ∀ a ∈ attrs, a.start.wf)
    (s : Ledger) (wf : s.WF) :
    AnyScheduleClean (parseElement t attrs) (fun ret => ret != OK) s [] (fun _ => []) :=
  clean_of_spec fun s' hl hn => (parseElement_spec t ht attrs hshape s' (wf_of_eq wf hl hn)).mono
    fun r u ⟨c, h⟩ => ⟨c, fun hh => by simpa using h hh⟩

theorem free_attrs_table_clean (tbl : Ptr) (entries : List AAttr) (s : Ledger) (wf : s.WF)
    (own : Owns s (tbl.toList ++ entries.flatMap AAttr.owned)) (hnone : tbl = none → entries = []) :
    AnyScheduleClean (freeAttrsTable tbl entries) (fun _ => false) s (tbl.toList ++ entries.flatMap AAttr.owned) (fun _ => []) :=
  clean_of_spec fun s' hl hn =>
    (freeAttrsTable_spec tbl entries s' (wf_of_eq wf hl hn) (owns_of_eq own hl) hnone).mono
      fun r u ⟨c, h, _⟩ => ⟨c, fun hh => by omega⟩

/-! ## Hand-unwound encoder functions -/

theorem strtbl_element_create_clean (string : ABuf) (stat : Bool) (s : Ledger) (wf : s.WF) :
    AnyScheduleClean (strEltCreate string stat) Option.isNone s [] (fun r => match r with | none => [] | some e => [e.hdr]) :=
  clean_of_spec fun s' hl hn => (strEltCreate_spec string stat s' (wf_of_eq wf hl hn)).mono
    fun r t ⟨c, h, _⟩ => ⟨c, fun hh => by rw [h hh]; rfl⟩

theorem strtbl_element_destroy_clean (e : Option StrElt) (s : Ledger) (wf : s.WF) (own : Owns s (ownedEltOpt e)) :
    AnyScheduleClean (strEltDestroy e) (fun _ => false) s (ownedEltOpt e) (fun _ => []) :=
  clean_of_spec fun s' hl hn => (strEltDestroy_spec e s' (wf_of_eq wf hl hn) (owns_of_eq own hl)).mono
    fun r u ⟨c, h, _⟩ => ⟨c, fun hh => by omega⟩

/-- `wbxml_strtbl_add_element`: the element belongs to the table exactly when `added`; otherwise it
    stays the caller's (who destroys it — once). -/
theorem strtbl_add_element_clean (e : AEnc) (elt : StrElt) (s : Ledger) (wf : s.WF) (own : Owns s (e.owned ++ elt.owned)) :
    AnyScheduleClean (strtblAddElement e elt) (fun r => !r.2.1) s (e.owned ++ elt.owned)
      (fun r => r.1.owned ++ (if r.2.2 then [] else elt.owned)) :=
  clean_of_spec fun s' hl hn => (strtblAddElement_spec e elt s' (wf_of_eq wf hl hn) (owns_of_eq own hl)).mono
    fun r t ⟨_, _, _, c, h, _⟩ => ⟨c, fun hh => by rw [h hh]; rfl⟩

/-- `wbxml_strtbl_check_references` (repaired, incl. the copy of shared text-node buffers): for every
    list of strings, borrowed (`stat`) or owned, and every schedule. Blocks afterwards: the encoder
    with what was added to its string table, `*strings` (only when the first allocation failed) and
    `one_ref`; an error whenever a request failed. -/
theorem strtbl_check_references_clean (e : AEnc) (strings : AList ABuf) (stat : Bool) (s : Ledger) (wf : s.WF)
    (own : Owns s (e.owned ++ stringsOwned stat strings.hdr strings.cells))
    (hbor : stat = true → ∀ b ∈ strings.cells.map (·.2),
      b.hdr ∈ s.live ∧ b.hdr ∉ e.owned ++ stringsOwned stat strings.hdr strings.cells) :
    AnyScheduleClean (checkReferences e strings stat) (fun r => r.2.1 != OK) s
      (e.owned ++ stringsOwned stat strings.hdr strings.cells)
      (fun r => r.1.owned ++ ((match r.2.2.1 with | none => [] | some l => stringsOwned stat l.hdr l.cells) ++
          (match r.2.2.2 with | none => [] | some one => refsOwned one))) :=
  clean_of_spec fun s' hl hn =>
    (checkReferences_spec e strings stat s' (wf_of_eq wf hl hn) (owns_of_eq own hl)
      (fun h b hb => by rw [hl]; exact hbor h b hb)).mono
      fun r t ⟨_, _, _, c, _, _, h, _⟩ => ⟨c, fun hh => by simpa using h hh⟩

/-- … with `WBXML_OK`, `*strings` has been destroyed and reset and `one_ref` is there. -/
theorem strtbl_check_references_ok (e : AEnc) (strings : AList ABuf) (stat : Bool) (s : Ledger) (wf : s.WF)
    (own : Owns s (e.owned ++ stringsOwned stat strings.hdr strings.cells))
    (hbor : stat = true → ∀ b ∈ strings.cells.map (·.2),
      b.hdr ∈ s.live ∧ b.hdr ∉ e.owned ++ stringsOwned stat strings.hdr strings.cells) :
    Good (checkReferences e strings stat) s (fun r _ =>
      (r.2.1 = OK → r.2.2.1 = none ∧ r.2.2.2.isSome) ∧ (r.2.1 ≠ OK → r.2.2.2 = none)) :=
  (checkReferences_spec e strings stat s wf own hbor).mono fun r t ⟨_, _, _, _, a, b, _, _⟩ => ⟨b, a⟩

theorem encoder_create_clean (s : Ledger) (wf : s.WF) :
    AnyScheduleClean encCreate Option.isNone s [] ownedEncOpt :=
  clean_of_spec fun s' hl hn => (encCreate_spec s' (wf_of_eq wf hl hn)).mono
    fun r t ⟨c, h, _⟩ => ⟨c, fun hh => by rw [h hh]; rfl⟩

theorem encoder_destroy_clean (e : Option AEnc) (s : Ledger) (wf : s.WF) (own : Owns s (ownedEncOpt e)) :
    AnyScheduleClean (encDestroy e) (fun _ => false) s (ownedEncOpt e) (fun _ => []) :=
  clean_of_spec fun s' hl hn => (encDestroy_spec e s' (wf_of_eq wf hl hn) (owns_of_eq own hl)).mono
    fun r u ⟨c, h, _⟩ => ⟨c, fun hh => by omega⟩

theorem encoder_init_output_clean (e : AEnc) (s : Ledger) (wf : s.WF) (own : Owns s e.owned)
    (hok : ∀ o, e.output = some o → o.ok) :
    AnyScheduleClean (encInitOutput e) (fun r => !r.2) s e.owned (fun r => r.1.owned) :=
  clean_of_spec fun s' hl hn => (encInitOutput_spec e s' (wf_of_eq wf hl hn) (owns_of_eq own hl) hok).mono
    fun r t ⟨⟨_, c, _, _⟩, _, _, h, _⟩ => ⟨c, fun hh => by rw [h hh]; rfl⟩

/-! ### The string-table chain -/

/-- `wbxml_strtbl_collect_strings` — which IGNORES a failed `wbxml_list_append` on purpose — for every
    list of text nodes and every schedule: no fault; the only blocks allocated are the new cells of
    the list, one per string the list now refers to; these strings are a sub-sequence of the
    collectable text nodes (all of them when no request failed); nothing is released; exactly one
    request per collectable text node. -/
theorem strtbl_collect_strings_clean (texts : List ABuf) (strings : AList ABuf) (s : Ledger) (wf : s.WF)
    (hs : strings.hdr ∈ s.live) (hl : ∀ t ∈ texts, t.hdr ∈ s.live) :
    ∀ sched : List Nat, ∃ r s', run (collectStrings strings texts) { s with sched := sched } = (.ok r, s') ∧
      r.hdr = strings.hdr ∧ ∃ newc : List (Nat × ABuf), r.cells = strings.cells ++ newc ∧
        (∀ i, i ∈ s'.live ↔ i ∈ s.live ∨ i ∈ newc.map (·.1)) ∧ (newc.map (·.1)).Nodup ∧
        (newc.map (·.2)).Sublist (texts.filter collectable) ∧
        (s'.hits = s.hits → newc.map (·.2) = texts.filter collectable) ∧
        s'.next = s.next + (texts.filter collectable).length := by
  intro sched
  obtain ⟨r, t, hrun, eh, newc, hc, c, sub, all, n⟩ :=
    (collectStrings_spec texts strings { s with sched := sched } (wf_of_eq wf rfl rfl) hs hl).elim
  exact ⟨r, t, hrun, eh, newc, hc, fun i => by have := c.live i; simpa using this, c.nodup, sub, all, n⟩

/-- `wbxml_buffer_split_words_real` (repaired): the list with the words it owns, or NULL with
    everything released; NULL whenever a request failed. -/
theorem buffer_split_words_clean (b : ABuf) (s : Ledger) (wf : s.WF) (hb : b.hdr ∈ s.live) :
    AnyScheduleClean (splitWords b) Option.isNone s [] bufListOwned :=
  clean_of_spec fun s' hl hn => (splitWords_spec b s' (wf_of_eq wf hl hn) (by rw [hl]; exact hb)).mono
    fun r t ⟨c, h⟩ => ⟨c, fun hh => by rw [h hh]; rfl⟩

/-- The word-moving loop of `wbxml_strtbl_collect_words`: the words of `temp_list` end up in `list`
    (the emptied `temp_list` struct is left to the caller), or — on a failed append — the word in
    hand, the rest of `temp_list` with its struct and `list` are all released and NULL is returned. -/
theorem strtbl_move_words_clean (cells : List (Nat × ABuf)) (tHdr : Nat) (list : AList ABuf) (s : Ledger) (wf : s.WF)
    (own : Owns s ((tHdr :: cellsOwned ABuf.owned cells) ++ bufListOwned (some list))) :
    AnyScheduleClean (moveWords tHdr list cells) Option.isNone s
      ((tHdr :: cellsOwned ABuf.owned cells) ++ bufListOwned (some list))
      (fun r => match r with | none => [] | some l => tHdr :: bufListOwned (some l)) :=
  clean_of_spec fun s' hl hn => (moveWords_spec cells tHdr list s' (wf_of_eq wf hl hn) (owns_of_eq own hl)).mono
    fun r t ⟨c, h⟩ => ⟨c, fun hh => by rw [h hh]; rfl⟩

/-- `wbxml_strtbl_collect_words` (repaired): the elements are only read; the result is the list of
    words with the words it owns, or an error with everything released; an error whenever a request
    failed. -/
theorem strtbl_collect_words_clean (elements : AList StrElt) (s : Ledger) (wf : s.WF) (hh : elements.hdr ∈ s.live)
    (hl : ∀ x ∈ elements.items, x.hdr ∈ s.live ∧ x.string.hdr ∈ s.live) :
    AnyScheduleClean (collectWords elements) (fun r => r.1 != OK) s [] (fun r => bufListOwned r.2) :=
  clean_of_spec fun s' hl' hn =>
    (collectWords_spec elements s' (wf_of_eq wf hl' hn) (by rw [hl']; exact hh) (fun x hx => by rw [hl']; exact hl x hx)).mono
      fun r t ⟨c, _, h⟩ => ⟨c, fun hh => by simpa using h hh⟩

/-- … and an error never comes with a list. -/
theorem strtbl_collect_words_error_has_no_list (elements : AList StrElt) (s : Ledger) (wf : s.WF) (hh : elements.hdr ∈ s.live)
    (hl : ∀ x ∈ elements.items, x.hdr ∈ s.live ∧ x.string.hdr ∈ s.live) :
    Good (collectWords elements) s (fun r _ => r.1 ≠ OK → r.2 = none) :=
  (collectWords_spec elements s wf hh hl).mono fun r t ⟨_, h, _⟩ => h

/-- A valid string table: offsets consecutive from 0 and adding up to `strstbl_len`, no two entries
    with the same bytes (`TblInv`), and every entry owns its string (so the table survives the tree). -/
def TableValid (e : AEnc) : Prop :=
  TblInv e ∧ ∀ l, e.strstbl = some l → ∀ x ∈ l.items, x.stat = false

theorem TableValid.step {e e' : AEnc} (h : TableValid e) (hi : TblInv e → TblInv e') (hg : TblGrew e e') : TableValid e' := by
  refine ⟨hi h.1, fun l' hl' x hx => ?_⟩
  rcases hg l' hl' x hx with ⟨l, hl, hxl⟩ | h'
  · exact h.2 l hl x hxl
  · exact h'

/-- The encoder as `wbxml_encoder_create` makes it has a valid (empty) table. -/
theorem TableValid.of_empty {e : AEnc} (l : AList StrElt) (hl : e.strstbl = some l) (hc : l.items = []) (hlen : e.strstblLen = 0) :
    TableValid e :=
  ⟨⟨l, hl, by rw [hc, hlen]; rfl, by rw [hc]; exact List.nodup_nil⟩, fun l' hl' x hx => by
    rw [hl] at hl'; cases hl'; rw [hc] at hx; cases hx⟩

theorem fails_iff_mem (s : Ledger) (k : Nat) : s.fails k = true ↔ k ∈ s.sched := by
  simp [Ledger.fails]

/-- `wbxml_strtbl_initialize` as a whole, for every encoder, every list of text nodes (borrowed from
    the tree: live, not the encoder's) and EVERY failure schedule:
      * no fault;
      * everything allocated is owned by the encoder afterwards (in its string table) or released,
        the text buffers are untouched:  live' = (live ∖ encoder) ∪ encoder';
      * the string table is valid on every exit (`TableValid`) — in particular when a failure was
        ignored and `WBXML_OK` is returned with a smaller table;
      * a failed request is reported as an error code, EXCEPT at the request sites listed in
        `InitBenign`, whose failure the code ignores on purpose:
          - `wbxml_strtbl_initialize>wbxml_strtbl_collect_strings>wbxml_list_append#1`
            (request numbers `next+2 … next+1+#collectable`): the string is just not shared;
          - every request below the second `wbxml_strtbl_check_references(…, FALSE)`
            (`wbxml_list_create_real#1`, `wbxml_strtbl_element_create#1`, `wbxml_list_append#1`,
            `wbxml_strtbl_add_element>wbxml_list_append#1`): the words only improve the table;
      * the result is an error, or the result of the un-failed run, or `WBXML_OK` after a failure at
        one of those sites. -/
theorem strtbl_initialize_clean (e : AEnc) (texts : List ABuf) (s : Ledger) (wf : s.WF) (own : Owns s e.owned)
    (htx : ∀ t ∈ texts, t.hdr ∈ s.live ∧ t.hdr ∉ e.owned) (hval : TableValid e) :
    ∀ sched : List Nat, ∃ r s', run (strtblInitialize e texts) { s with sched := sched } = (.ok r, s') ∧
      (∀ i, i ∈ s'.live ↔ (i ∈ s.live ∧ i ∉ e.owned) ∨ i ∈ r.1.owned) ∧
      r.1.hdr = e.hdr ∧ r.1.output = e.output ∧ TableValid r.1 ∧
      (∀ k ∈ sched, s.next < k → k ≤ s'.next → ¬ InitBenign e texts { s with sched := sched } k → r.2 ≠ OK) ∧
      (r.2 ≠ OK ∨ (run (strtblInitialize e texts) { s with sched := [] }).1 = .ok r ∨
        (r.2 = OK ∧ ∃ k ∈ sched, s.next < k ∧ k ≤ s'.next ∧ InitBenign e texts { s with sched := sched } k)) := by
  intro sched
  obtain ⟨r, t, hrun, eh, eo, _, c, hg, hi, hrep⟩ :=
    (strtblInitialize_spec e texts { s with sched := sched } (wf_of_eq wf rfl rfl) (owns_of_eq own rfl) htx).elim
  have hrep' : ∀ k ∈ sched, s.next < k → k ≤ t.next → ¬ InitBenign e texts { s with sched := sched } k → r.2 ≠ OK := by
    intro k hk a b hnb
    refine hrep k ((fails_iff_mem _ k).2 hk) a b (fun hw => hnb (Or.inl hw)) (fun hp => hnb (Or.inr ⟨hp, ?_⟩))
    rw [hrun]; exact b
  refine ⟨r, t, hrun, c.live, eh, eo, hval.step hi hg, hrep', ?_⟩
  by_cases hret : r.2 = OK
  · by_cases hh : ({ s with sched := sched } : Ledger).hits < t.hits
    · obtain ⟨k, hf, a, b⟩ := fail_of_hits hrun hh
      have hk : k ∈ sched := (fails_iff_mem _ k).1 hf
      refine Or.inr (Or.inr ⟨hret, k, hk, a, b, ?_⟩)
      apply Classical.byContradiction
      intro hnb
      exact hrep' k hk a b hnb hret
    · refine Or.inr (Or.inl ?_)
      have hle := c.hits
      have heq : (run (strtblInitialize e texts) { s with sched := sched }).2.hits = ({ s with sched := sched } : Ledger).hits := by
        rw [hrun]; simp at hle hh ⊢; omega
      have := run_nohit _ { s with sched := sched } heq
      rw [hrun] at this
      simpa using congrArg Prod.fst this
  · exact Or.inl hret

/-- `encoder_encode_tree` (repaired), with or without string table, for every tree (text nodes
    `texts`, body chunks `body`) and every schedule: the encoder stays the caller's on every exit
    (it is "consumed and produced again"), nothing else is left allocated, its string table is valid,
    and a failed request is reported unless it is one of the benign ones (`EncBenign`: the sites of
    `strtbl_initialize_clean`; none without string table). -/
theorem encoder_encode_tree_strtbl (texts : List ABuf) (body : List Bytes) (e : AEnc)
    (s : Ledger) (wf : s.WF) (own : Owns s e.owned) (hout : e.output = none)
    (htx : ∀ t ∈ texts, t.hdr ∈ s.live ∧ t.hdr ∉ e.owned)
    (htbl : ∀ l, e.strstbl = some l → l.items = []) (hinv : TblInv e) :
    ∀ sched : List Nat, ∃ r s', run (encodeTree e texts body) { s with sched := sched } = (.ok r, s') ∧
      (∀ i, i ∈ s'.live ↔ (i ∈ s.live ∧ i ∉ e.owned) ∨ i ∈ r.1.owned) ∧ TblInv r.1 ∧
      (∀ l, r.1.strstbl = some l → ∀ x ∈ l.items, x.string.hdr ∈ s'.live ∧ x.string.hdr ∉ ownedBufOpt r.1.output) ∧
      (∀ k ∈ sched, s.next < k → k ≤ s'.next → ¬ EncBenign e texts { s with sched := sched } k → r.2 ≠ OK) := by
  intro sched
  obtain ⟨r, t, hrun, ⟨_, c, _, _⟩, hs, _, hi, hrep⟩ :=
    (encodeTree_spec texts body e { s with sched := sched } (wf_of_eq wf rfl rfl) (owns_of_eq own rfl) hout htx htbl).elim
  exact ⟨r, t, hrun, c.live, hi hinv, hs, fun k hk a b hnb => hrep k ((fails_iff_mem _ k).2 hk) a b hnb⟩

/-- Without string table every failure is reported (the `AnyScheduleClean` clause). -/
theorem encoder_encode_tree_clean (body : List Bytes) (e : AEnc) (s : Ledger) (wf : s.WF) (own : Owns s e.owned)
    (hout : e.output = none) (hu : e.useStrtbl = false) (htbl : ∀ l, e.strstbl = some l → l.items = []) :
    AnyScheduleClean (encodeTree e [] body) (fun r => r.2 != OK) s e.owned (fun r => r.1.owned) :=
  clean_of_spec fun s' hl hn =>
    (encodeTree_spec [] body e s' (wf_of_eq wf hl hn) (owns_of_eq own hl) hout (fun t ht => by cases ht) htbl).mono
      fun r t ⟨⟨_, c, _, _⟩, _, h, _⟩ => ⟨c, fun hh => by simpa using h hu hh⟩

/-- `wbxml_build_result`: the encoder is only read, the header never outlives the call. -/
theorem build_result_clean (e : AEnc) (version publicId : Nat) (s : Ledger) (wf : s.WF) (hl : e.hdr ∈ s.live)
    (hout : ∀ o, e.output = some o → o.hdr ∈ s.live ∧ o.ok)
    (hstr : ∀ l, e.strstbl = some l → ∀ x ∈ l.items, x.string.hdr ∈ s.live) :
    AnyScheduleClean (buildResult e version publicId) (fun r => r.1 != OK) s [] (fun r => ownedResult r.2) :=
  clean_of_spec fun s' hl' hn =>
    (buildResult_spec e version publicId s' (wf_of_eq wf hl' hn) (by rw [hl']; exact hl)
      (fun o ho => by rw [hl']; exact hout o ho) (fun l h x hx => by rw [hl']; exact hstr l h x hx)).mono
      fun r t ⟨c, _, h⟩ => ⟨c, fun hh => by simpa using h hh⟩

/-- … and an error never comes with a result (`*wbxml` stays NULL). -/
theorem build_result_error_has_no_output (e : AEnc) (version publicId : Nat) (s : Ledger) (wf : s.WF) (hl : e.hdr ∈ s.live)
    (hout : ∀ o, e.output = some o → o.hdr ∈ s.live ∧ o.ok)
    (hstr : ∀ l, e.strstbl = some l → ∀ x ∈ l.items, x.string.hdr ∈ s.live) :
    Good (buildResult e version publicId) s (fun r _ => r.1 ≠ OK → r.2 = none) :=
  (buildResult_spec e version publicId s wf hl hout hstr).mono fun r t ⟨_, h, _⟩ => h

/-! ## The whole conversion -/

/-- `oom_result_sound` for a conversion `conv` returning (status, output): whichever single request
    fails, the run ends without fault, the status is an error with no output and nothing left
    allocated, or the conversion returns exactly what it returns without failure and only that
    output is left allocated. -/
def OomResultSound (conv : Prog (Nat × Option (Nat × Bytes))) (s : Ledger) : Prop :=
  ∀ k : Nat, ∃ r s', run conv { s with sched := failAt k } = (.ok r, s') ∧
    ((r.1 ≠ OK ∧ r.2 = none ∧ ∀ i, i ∈ s'.live ↔ i ∈ s.live) ∨
     ((run conv { s with sched := [] }).1 = .ok r ∧ ∀ i, i ∈ s'.live ↔ i ∈ s.live ∨ i ∈ ownedResult r.2))

/-- The same, up to the allocations that are inessential (`benign`): if such a request fails the
    conversion may still return `WBXML_OK` with a correct — possibly different — result, and only
    that result is left allocated. -/
def OomResultSoundUpTo (conv : Prog (Nat × Option (Nat × Bytes))) (s : Ledger) (benign : Ledger → Nat → Prop) : Prop :=
  ∀ k : Nat, ∃ r s', run conv { s with sched := failAt k } = (.ok r, s') ∧
    ((r.1 ≠ OK ∧ r.2 = none ∧ ∀ i, i ∈ s'.live ↔ i ∈ s.live) ∨
     ((run conv { s with sched := [] }).1 = .ok r ∧ ∀ i, i ∈ s'.live ↔ i ∈ s.live ∨ i ∈ ownedResult r.2) ∨
     (benign { s with sched := failAt k } k ∧ r.1 = OK ∧ ∀ i, i ∈ s'.live ↔ i ∈ s.live ∨ i ∈ ownedResult r.2))

theorem OomResultSoundUpTo.strict {conv : Prog (Nat × Option (Nat × Bytes))} {s : Ledger} {benign : Ledger → Nat → Prop}
    (h : OomResultSoundUpTo conv s benign) (hb : ∀ t k, ¬ benign t k) : OomResultSound conv s := by
  intro k
  obtain ⟨r, s', hrun, h1 | h2 | h3⟩ := h k
  · exact ⟨r, s', hrun, Or.inl h1⟩
  · exact ⟨r, s', hrun, Or.inr h2⟩
  · exact (hb _ _ h3.1).elim

/-- `wbxml_tree_to_wbxml` under ANY schedule, with or without string table, for every tree: no
    fault, no result with an error code, nothing but the result stays allocated, and a failed request
    that is not benign (`TreeBenign`) yields an error code. -/
theorem tree_to_wbxml_no_leak (useStrtbl : Bool) (texts : List ABuf)
    (body : List Bytes) (version publicId : Nat) (s : Ledger) (wf : s.WF) (htx : ∀ t ∈ texts, t.hdr ∈ s.live) :
    ∀ sched : List Nat, ∃ r s', run (treeToWbxml useStrtbl texts body version publicId) { s with sched := sched } = (.ok r, s') ∧
      (r.1 ≠ OK → r.2 = none) ∧ (∀ i, i ∈ s'.live ↔ i ∈ s.live ∨ i ∈ ownedResult r.2) ∧
      (∀ k ∈ sched, s.next < k → k ≤ s'.next → ¬ TreeBenign useStrtbl texts { s with sched := sched } k → r.1 ≠ OK) := by
  intro sched
  obtain ⟨r, t, hrun, hc, hnone, _, hrep⟩ :=
    (treeToWbxml_spec useStrtbl texts body version publicId { s with sched := sched } (wf_of_eq wf rfl rfl) htx).elim
  exact ⟨r, t, hrun, hnone, fun i => by have := hc.live i; simpa using this,
    fun k hk a b hnb => hrep k ((fails_iff_mem _ k).2 hk) a b hnb⟩

/-- Without string table nothing is benign. -/
theorem tree_benign_false (texts : List ABuf) (t : Ledger) (k : Nat) : ¬ TreeBenign false texts t k := by
  rintro ⟨e0, s1, _, hu, _⟩
  simp at hu

/-- `oom_result_sound`, proved for the part of the pipeline that is modelled: the encoder side of
    `wbxml_tree_to_wbxml` (encoder create → `encoder_encode_tree` incl. `wbxml_strtbl_initialize` →
    `wbxml_build_result` → encoder destroy), with or without string table, for every tree, every
    document body and every k.  With the string table the clause holds up to the benign requests of
    `strtbl_initialize_clean` (`TreeBenign`).  Composed with the parser main loop, the tree-building
    call-backs and the glue of `wbxml_tree_from_wbxml` it gives the clause for the whole
    WBXML → tree → WBXML conversion: `oom_result_sound_wbxml2wbxml` below (no `_partial` there).
    This half keeps the name because the other producers / consumers of a tree (Expat call-backs,
    XML printer) are covered by the enumeration of `tools/props/c16.py` only, which is a TEST and
    labelled so in the evidence. -/
theorem oom_result_sound_tree_to_wbxml (useStrtbl : Bool) (texts : List ABuf) (body : List Bytes) (version publicId : Nat)
    (s : Ledger) (wf : s.WF) (htx : ∀ t ∈ texts, t.hdr ∈ s.live) :
    OomResultSoundUpTo (treeToWbxml useStrtbl texts body version publicId) s (TreeBenign useStrtbl texts) := by
  intro k
  have hspec := treeToWbxml_spec useStrtbl texts body version publicId { s with sched := failAt k } (wf_of_eq wf rfl rfl) htx
  obtain ⟨r, t, hrun, hc, hnone, _, hrep⟩ := hspec.elim
  refine ⟨r, t, hrun, ?_⟩
  have hlive : ∀ i, i ∈ t.live ↔ i ∈ s.live ∨ i ∈ ownedResult r.2 := fun i => by have := hc.live i; simpa using this
  by_cases hret : r.1 = OK
  · by_cases hh : ({ s with sched := failAt k } : Ledger).hits < t.hits
    · obtain ⟨k', hf, a, b⟩ := fail_of_hits hrun hh
      have hk : k' = k := by simpa [Ledger.fails, failAt] using hf
      subst hk
      refine Or.inr (Or.inr ⟨?_, hret, hlive⟩)
      apply Classical.byContradiction
      intro hnb
      exact hrep k' hf a b hnb hret
    · refine Or.inr (Or.inl ⟨?_, hlive⟩)
      have hle := hc.hits
      have heq : (run (treeToWbxml useStrtbl texts body version publicId) { s with sched := failAt k }).2.hits =
          ({ s with sched := failAt k } : Ledger).hits := by
        rw [hrun]; simp at hle hh ⊢; omega
      have := run_nohit _ { s with sched := failAt k } heq
      rw [hrun] at this
      simpa using congrArg Prod.fst this
  · have hn := hnone hret
    refine Or.inl ⟨hret, hn, fun i => ?_⟩
    have := hlive i
    rw [hn] at this
    simpa [ownedResult] using this

/-- Without string table: the strict clause. -/
theorem oom_result_sound_no_strtbl (body : List Bytes) (version publicId : Nat) (s : Ledger) (wf : s.WF) :
    OomResultSound (treeToWbxml false [] body version publicId) s :=
  (oom_result_sound_tree_to_wbxml false [] body version publicId s wf (fun t ht => by cases ht)).strict
    (fun t k => tree_benign_false [] t k)

/-! ### With the string table the strict clause does not hold — and is not meant to -/

/-- Status and output bytes of a conversion run. -/
def resultIs (r : Except Err (Nat × Option (Nat × Bytes)) × Ledger) (code : Nat) (bytes : Option Bytes) : Bool :=
  match r.1 with
  | .ok x => x.1 == code && x.2.map (·.2) == bytes
  | .error _ => false

theorem resultIs_ok {x : Except Err (Nat × Option (Nat × Bytes)) × Ledger} {r : Nat × Option (Nat × Bytes)}
    {code : Nat} {bytes : Option Bytes} (h : x.1 = .ok r) (hr : resultIs x code bytes = true) :
    r.1 = code ∧ r.2.map (·.2) = bytes := by
  unfold resultIs at hr
  rw [h] at hr
  simpa using hr

/-- Two text nodes "abcd" (blocks 1 and 2 of the caller's tree). -/
def benignTexts : List ABuf := [⟨1, none, b!"abcd", 0, true⟩, ⟨2, none, b!"abcd", 0, true⟩]
def benignStart : Ledger := { next := 2, live := [1, 2] }

/-- Request 7 is the first `wbxml_list_append` of `wbxml_strtbl_collect_strings`: when it fails the
    conversion still returns `WBXML_OK`, with an empty string table instead of the table {"abcd"}. -/
theorem strtbl_benign_failure_changes_output :
    resultIs (run (treeToWbxml true benignTexts [[0x45]] 3 10) { benignStart with sched := failAt 7 }) 0
      (some [3, 10, 106, 0, 69]) = true ∧
    resultIs (run (treeToWbxml true benignTexts [[0x45]] 3 10) { benignStart with sched := [] }) 0
      (some [3, 10, 106, 5, 97, 98, 99, 100, 0, 69]) = true := by decide

/-- Hence the strict `OomResultSound` is false with the string table: the statement that holds is
    `oom_result_sound_tree_to_wbxml` (`OomResultSoundUpTo … TreeBenign`). -/
theorem oom_result_sound_strict_fails_with_strtbl :
    ¬ OomResultSound (treeToWbxml true benignTexts [[0x45]] 3 10) benignStart := by
  intro h
  obtain ⟨a, b⟩ := strtbl_benign_failure_changes_output
  obtain ⟨r, s', hrun, h1 | h2⟩ := h 7
  · exact h1.1 (resultIs_ok (congrArg Prod.fst hrun) a).1
  · have := (resultIs_ok (congrArg Prod.fst hrun) a).2.symm.trans (resultIs_ok h2.1 b).2
    simp at this

/-- The hypotheses of `strtbl_initialize_clean` / `oom_result_sound_tree_to_wbxml` are satisfiable (the
    scenario above). -/
example : benignStart.WF ∧ (∀ t ∈ benignTexts, t.hdr ∈ benignStart.live) := by
  refine ⟨fun i hi => ?_, fun t ht => ?_⟩
  · simp [benignStart] at hi ⊢; omega
  · simp [benignTexts] at ht; rcases ht with rfl | rfl <;> simp [benignStart]

example : ∃ (e : AEnc) (s : Ledger), s.WF ∧ Owns s e.owned ∧
    (∀ t ∈ benignTexts, t.hdr ∈ s.live ∧ t.hdr ∉ e.owned) ∧ TableValid e := by
  refine ⟨⟨3, some ⟨4, []⟩, 0, none, true⟩, { next := 4, live := [1, 2, 3, 4] }, ?_, ?_, ?_, ?_⟩
  · intro i hi; simp at hi ⊢; omega
  · exact ⟨by decide, by decide⟩
  · intro t ht; simp [benignTexts] at ht; rcases ht with rfl | rfl <;> decide
  · exact TableValid.of_empty ⟨4, []⟩ rfl rfl rfl

/-! ## Tree building: the call-backs of the WBXML parser (`wbxml_tree_clb_wbxml_*`) -/

theorem ev_ready_of_eq {b : Nat} {s s' : Ledger} {e : TEvent} (h : EvReady b s e) (hl : s'.live = s.live) : EvReady b s' e :=
  fun X hX => ⟨owns_of_eq (h X hX).1 hl, (h X hX).2⟩

/-- One event delivered to the tree-building call-backs (`start_element` with
    `wbxml_tree_add_elt_with_attrs` / `wbxml_tree_extract_node`, `end_element`, `characters` with
    `wbxml_tree_add_cdata` / `wbxml_tree_add_text` and the join of adjacent text nodes), for every
    consistent context and every schedule: no fault; the context owns afterwards exactly what it
    owned plus what was allocated and not released again (nothing leaks, the tag and the attributes
    of the parser are untouched); and a failed request leaves an error code in the context. -/
theorem tree_clb_event_clean (c : TCtx) (e : TEvent) (s : Ledger) (wf : s.WF) (hok : c.ok) (own : Owns s c.owned)
    (b : Nat) (hb : ∀ i ∈ c.owned, b < i) (hr : EvReady b s e) :
    AnyScheduleClean (clbEvent c e) (fun c' => c'.error != OK) s c.owned TCtx.owned :=
  clean_of_spec fun s' hl hn =>
    (clbEvent_spec c e s' (wf_of_eq wf hl hn) hok (owns_of_eq own hl) b hb (ev_ready_of_eq hr hl)).mono
      fun c' t ⟨_, _, cl, h, _⟩ => ⟨cl, fun hh => by simpa using h hh⟩

/-- … the context stays consistent, keeps its tree, and an error code is never cleared. -/
theorem tree_clb_event_keeps (c : TCtx) (e : TEvent) (s : Ledger) (wf : s.WF) (hok : c.ok) (own : Owns s c.owned)
    (b : Nat) (hb : ∀ i ∈ c.owned, b < i) (hr : EvReady b s e) :
    Good (clbEvent c e) s (fun c' _ => c'.tree = c.tree ∧ c'.ok ∧ (c.error ≠ OK → c'.error ≠ OK)) :=
  (clbEvent_spec c e s wf hok own b hb hr).mono fun c' t ⟨a, b', _, _, d⟩ => ⟨a, b', d⟩

/-- A list of events, by induction on the list. -/
theorem tree_clb_events_clean (events : List TEvent) (c : TCtx) (s : Ledger) (wf : s.WF) (hok : c.ok) (own : Owns s c.owned)
    (b : Nat) (hbs : b ≤ s.next) (hb : ∀ i ∈ c.owned, b < i) (hr : ∀ e ∈ events, EvReady b s e) :
    AnyScheduleClean (clbEvents c events) (fun c' => c'.error != OK) s c.owned TCtx.owned :=
  clean_of_spec fun s' hl hn =>
    (clbEvents_spec events c s' (wf_of_eq wf hl hn) hok (owns_of_eq own hl) b (by rw [hn]; exact hbs) hb
      (fun e he => ev_ready_of_eq (hr e he) hl)).mono
      fun c' t ⟨_, _, cl, h, _⟩ => ⟨cl, fun hh => by simpa using h hh⟩

/-- `wbxml_tree_destroy`: everything the tree owns is released, once. -/
theorem tree_destroy_clean (c : TCtx) (s : Ledger) (wf : s.WF) (own : Owns s c.owned) :
    AnyScheduleClean (treeDestroy c) (fun _ => false) s c.owned (fun _ => []) :=
  clean_of_spec fun s' hl hn => (treeDestroy_spec c s' (wf_of_eq wf hl hn) (owns_of_eq own hl)).mono
    fun r u ⟨cl, h, _⟩ => ⟨cl, fun hh => by omega⟩

/-- `tree_from_wbxml_events_clean`: the tree side of `wbxml_tree_from_wbxml` (`wbxml_tree_create`, the
    call-backs on the events of a parse, `wbxml_tree_destroy` when a call-back reported an error), for
    EVERY list of events and every schedule: no fault; an error code with the tree destroyed and
    nothing left allocated, or `WBXML_OK` with the tree owning everything that is left; an error
    whenever a request failed. -/
theorem tree_from_wbxml_events_clean (events : List TEvent) (s : Ledger) (wf : s.WF)
    (hr : ∀ e ∈ events, ∀ X ∈ evObjs e, Owns s X) :
    AnyScheduleClean (treeFromEvents events) (fun r => r.1 != OK) s [] (fun r => ownedCtxOpt r.2) :=
  clean_of_spec fun s' hl hn =>
    (treeFromEvents_spec events s' (wf_of_eq wf hl hn) (fun e he X hX => owns_of_eq (hr e he X hX) hl)).mono
      fun r t ⟨cl, _, h, _⟩ => ⟨cl, fun hh => by simpa using h hh⟩

/-- … an error never comes with a tree, and a tree that is returned is consistent and error-free. -/
theorem tree_from_wbxml_events_result (events : List TEvent) (s : Ledger) (wf : s.WF)
    (hr : ∀ e ∈ events, ∀ X ∈ evObjs e, Owns s X) :
    Good (treeFromEvents events) s (fun r _ => (r.1 ≠ OK → r.2 = none) ∧ ∀ c, r.2 = some c → c.ok ∧ c.error = OK) :=
  (treeFromEvents_spec events s wf hr).mono fun r t ⟨_, a, _, b⟩ => ⟨a, b⟩

theorem single_failure_clean_tree_from_wbxml_events (events : List TEvent) (s : Ledger) (wf : s.WF)
    (hr : ∀ e ∈ events, ∀ X ∈ evObjs e, Owns s X) :
    SingleFailureClean (treeFromEvents events) (fun r => r.1 != OK) s [] (fun r => ownedCtxOpt r.2) :=
  (tree_from_wbxml_events_clean events s wf hr).single

/-- The hypotheses are satisfiable: `<T5 id="x">ab</T5>` with the tag and the attribute owned by the
    parser (blocks 1 … 6). -/
example : ∃ (events : List TEvent) (s : Ledger), s.WF ∧ events.length = 3 ∧ ∀ e ∈ events, ∀ X ∈ evObjs e, Owns s X := by
  refine ⟨[.start ⟨1, .token 5⟩ [⟨2, some ⟨3, .token 7⟩, some ⟨4, some 5, b!"x", 2, false⟩⟩], .chars b!"ab" false, .stop],
    { next := 6, live := [1, 2, 3, 4, 5, 6] }, ?_, rfl, ?_⟩
  · intro i hi; simp at hi ⊢; omega
  · intro e he X hX
    simp only [List.mem_cons, List.mem_singleton, List.not_mem_nil, or_false] at he
    rcases he with rfl | rfl | rfl
    · simp only [evObjs, List.map_cons, List.map_nil, List.mem_cons, List.not_mem_nil, or_false] at hX
      rcases hX with rfl | rfl
      · exact ⟨by decide, by decide⟩
      · exact ⟨by decide, by decide⟩
    · simp [evObjs] at hX
    · simp [evObjs] at hX


/-! ## The parser main loop (`wbxml_parser_parse` with the tree builder as content handler) -/

/-- `parse_pi`, for every attribute start and every list of value pieces. -/
theorem parse_pi_clean (a : AttrShape) (hst : a.start.wf) (s : Ledger) (wf : s.WF) :
    AnyScheduleClean (parsePi a) (fun ret => ret != OK) s [] (fun _ => []) :=
  clean_of_spec fun s' hl hn => (parsePi_spec a hst s' (wf_of_eq wf hl hn)).mono
    fun r t ⟨c, h⟩ => ⟨c, fun hh => by simpa using h hh⟩

/-- The per-item buffers of `parse_content`: `parse_string` (static buffer), `parse_entity`,
    `parse_opaque` (+ `decode_base64_value` with its temporary block), `parse_extension` for the WML
    variables (`var_value`, the `ext` block, the result buffer): the result is the only block left,
    it comes with `WBXML_OK` only, and a failed request is an error code. -/
theorem parse_content_clean (ci : Content) (s : Ledger) (wf : s.WF) :
    AnyScheduleClean (parseContent ci) (fun r => r.1 != OK) s [] (fun r => ownedBufOpt r.2) :=
  clean_of_spec fun s' hl hn => (parseContent_spec ci s' (wf_of_eq wf hl hn)).mono
    fun r t ⟨c, _, h⟩ => ⟨c, fun hh => by simpa using h hh⟩

/-- `parse_strtbl` (table buffer + the four terminating bytes): the buffer is the parser's on every
    exit (destroyed by `wbxml_parser_destroy`). -/
theorem parse_strtbl_clean (sh : StrtblShape) (s : Ledger) (wf : s.WF) :
    AnyScheduleClean (parseStrtbl sh) (fun r => r.1 != OK) s [] (fun r => ownedBufOpt r.2) :=
  clean_of_spec fun s' hl hn => (parseStrtbl_spec sh s' (wf_of_eq wf hl hn)).mono
    fun r t ⟨c, h⟩ => ⟨c, fun hh => by simpa using h hh⟩

/-- `check_public_id`: a failed read of a textual public id is "not found" (`WB_BOOL`), which
    `wbxml_parser_parse` turns into `WBXML_ERROR_UNKNOWN_PUBLIC_ID`: an error, as the clause demands
    (inside an *embedded* document the same answer means "keep as text": the known finding, outside
    this model). -/
theorem check_public_id_clean (sh : PubidShape) (s : Ledger) (wf : s.WF) :
    AnyScheduleClean (checkPublicId sh) (fun r => !r) s [] (fun _ => []) :=
  clean_of_spec fun s' hl hn => (checkPublicId_spec sh s' (wf_of_eq wf hl hn)).mono
    fun r t ⟨c, h⟩ => ⟨c, fun hh => by rw [h hh]; rfl⟩

/-- The start of `parse_element` (tag, attribute table, `start_element` call-back into the tree
    builder, release of the table). -/
theorem start_element_clean (c : TCtx) (t : TagShape) (ht : t.wf) (attrs : List AttrShape)
    (hshape : ∀ a ∈ attrs, a.start.wf) (s : Ledger) (wf : s.WF) (hok : c.ok) (own : Owns s c.owned) :
    AnyScheduleClean (startElement c t attrs) (fun r => r.1 != OK || r.2.2.error != OK) s c.owned
      (fun r => ownedNameOpt r.2.1 ++ r.2.2.owned) :=
  clean_of_spec fun s' hl hn =>
    (startElement_spec c t ht attrs hshape s' (wf_of_eq wf hl hn) hok (owns_of_eq own hl)).mono
      fun r u ⟨_, _, cl, _, _, h, _⟩ => ⟨cl, fun hh => by
        rcases h hh with h' | h'
        · simp [h']
        · simp [h']⟩

/-- The content loops of the open elements — `parse_element` → `parse_content` → `parse_element` … —
    over ANY list of body items, from ANY stack of open tags and any consistent tree context, for
    EVERY schedule (induction on the item list): no fault; on every return all tags of the open frames
    have been destroyed, the content buffers and attribute tables are gone, and the context owns
    whatever else was allocated; a failed request is an error code, returned by the parser or left in
    the context by a call-back. -/
theorem parse_loop_clean (p : APars) (hpw : p.wbxml.isSome) (items : List Item) (hw : ∀ it ∈ items, it.wf)
    (st : List AName) (c : TCtx) (s : Ledger) (wf : s.WF) (hok : c.ok)
    (own : Owns s (p.owned ++ (stackOwned st ++ c.owned))) :
    AnyScheduleClean (parseLoop p st c items) (fun r => r.1 != OK || r.2.error != OK) s
      (stackOwned st ++ c.owned) (fun r => r.2.owned) :=
  clean_of_spec fun s' hl hn =>
    (parseLoop_spec p hpw items hw st c s' (wf_of_eq wf hl hn) hok (owns_of_eq own hl)).mono
      fun r u ⟨_, _, cl, h, _⟩ => ⟨cl, fun hh => by
        rcases h hh with h' | h'
        · simp [h']
        · simp [h']⟩

/-- … the context stays consistent, keeps its tree, and an error code is never cleared. -/
theorem parse_loop_keeps (p : APars) (hpw : p.wbxml.isSome) (items : List Item) (hw : ∀ it ∈ items, it.wf)
    (st : List AName) (c : TCtx) (s : Ledger) (wf : s.WF) (hok : c.ok)
    (own : Owns s (p.owned ++ (stackOwned st ++ c.owned))) :
    Good (parseLoop p st c items) s (fun r _ => r.2.tree = c.tree ∧ r.2.ok ∧ (c.error ≠ OK → r.2.error ≠ OK)) :=
  (parseLoop_spec p hpw items hw st c s wf hok own).mono fun r u ⟨a, b, _, _, d⟩ => ⟨a, b, d⟩

/-- `parse_document_clean`: `wbxml_parser_parse` (document buffer, header, `parse_strtbl`,
    `check_public_id`, `start_document`, `parse_body` = PIs, root element with the whole main loop,
    PIs) on a fresh parser, with the tree builder as content handler, for every well-formed document
    shape and EVERY schedule: no fault; afterwards the parser owns its (at most two) buffers, the
    context owns its tree, and nothing else is left; a failed request is an error code (returned, or
    in the context).  No request of the parser / tree-building half is benign. -/
theorem parse_document_clean (hdr : Nat) (c : TCtx) (d : Doc) (hd : d.wf) (s : Ledger) (wf : s.WF) (hok : c.ok)
    (own : Owns s ([hdr] ++ c.owned)) :
    AnyScheduleClean (parserParse hdr c d) (fun r => r.1 != OK || r.2.2.error != OK) s ([hdr] ++ c.owned)
      (fun r => r.2.1.owned ++ r.2.2.owned) :=
  clean_of_spec fun s' hl hn =>
    (parserParse_spec hdr c d hd s' (wf_of_eq wf hl hn) hok (owns_of_eq own hl)).mono
      fun r u ⟨_, _, _, cl, h, _⟩ => ⟨cl, fun hh => by
        rcases h hh with h' | h'
        · simp [h']
        · simp [h']⟩

theorem parser_destroy_clean (p : APars) (s : Ledger) (wf : s.WF) (own : Owns s p.owned) :
    AnyScheduleClean (parserDestroy p) (fun _ => false) s p.owned (fun _ => []) :=
  clean_of_spec fun s' hl hn => (parserDestroy_spec p s' (wf_of_eq wf hl hn) (owns_of_eq own hl)).mono
    fun r u ⟨cl, h, _⟩ => ⟨cl, fun hh => by omega⟩

/-- `tree_from_wbxml_clean`: the whole of `wbxml_tree_from_wbxml` — parser create, tree create, the
    parse above, `wbxml_tree_destroy` when the parser or a call-back reported an error, parser destroy —
    for every well-formed document shape and EVERY schedule: no fault; an error code with NOTHING left
    allocated, or `WBXML_OK` with the tree owning everything that is left; an error whenever a request
    failed (no benign site). -/
theorem tree_from_wbxml_clean (d : Doc) (hd : d.wf) (s : Ledger) (wf : s.WF) :
    AnyScheduleClean (treeFromWbxml d) (fun r => r.1 != OK) s [] (fun r => ownedCtxOpt r.2) :=
  clean_of_spec fun s' hl hn => (treeFromWbxml_spec d hd s' (wf_of_eq wf hl hn)).mono
    fun r t ⟨cl, _, h, _⟩ => ⟨cl, fun hh => by simpa using h hh⟩

/-- … an error never comes with a tree, and a tree that is returned is consistent and error-free. -/
theorem tree_from_wbxml_result (d : Doc) (hd : d.wf) (s : Ledger) (wf : s.WF) :
    Good (treeFromWbxml d) s (fun r _ => (r.1 ≠ OK → r.2 = none) ∧ ∀ c, r.2 = some c → c.ok ∧ c.error = OK) :=
  (treeFromWbxml_spec d hd s wf).mono fun r t ⟨_, a, _, b⟩ => ⟨a, b⟩

theorem single_failure_clean_tree_from_wbxml (d : Doc) (hd : d.wf) (s : Ledger) (wf : s.WF) :
    SingleFailureClean (treeFromWbxml d) (fun r => r.1 != OK) s [] (fun r => ownedCtxOpt r.2) :=
  (tree_from_wbxml_clean d hd s wf).single

/-- A sample document — `<T5>ab<T7/>$(x:escape)</T5>` with a string table — is well formed, parses
    to a tree (17 blocks) without failure, and with request 9 (inside the `start_element` call-back of
    the root: the parser goes on to the end of the document, the glue then destroys the partial tree)
    returns `WBXML_ERROR_NOT_ENOUGH_MEMORY` with nothing left (kernel-evaluated). -/
def sampleDoc : Doc :=
  ⟨[3, 1, 106, 0], OK, .tbl b!"x", .known, [], .elem (.token 5) [] true,
   [.content (.ref (.sta b!"ab")) false, .elem (.token 7) [⟨.token 0 none, [.sta b!"v"]⟩] false,
    .content (.ext (.sta b!"x") b!":escape") false, .stop]⟩

example : sampleDoc.wf := by
  refine ⟨fun a ha => (by cases ha), ⟨trivial, fun a ha => (by cases ha)⟩, fun it hit => ?_⟩
  simp only [sampleDoc, List.mem_cons, List.not_mem_nil, or_false] at hit
  rcases hit with rfl | rfl | rfl | rfl
  · trivial
  · exact ⟨trivial, fun a ha => by simp only [List.mem_singleton] at ha; subst ha; trivial⟩
  · trivial
  · trivial

/-- Status of a `wbxml_tree_from_wbxml` run, whether a tree came back, and what is left allocated. -/
def fromWbxmlIs (r : Except Err (Nat × Option TCtx) × Ledger) (code : Nat) (tree : Bool) (live : Nat) : Bool :=
  match r.1 with
  | .ok x => x.1 == code && x.2.isSome == tree && r.2.live.length == live
  | .error _ => false

theorem sample_unfailed_and_failed :
    fromWbxmlIs (run (treeFromWbxml sampleDoc) (Ledger.start [])) OK true 17 = true ∧
    fromWbxmlIs (run (treeFromWbxml sampleDoc) (Ledger.start (failAt 9))) ENOMEM false 0 = true := by decide

/-! ## A whole conversion: WBXML → tree → WBXML -/

/-- `wbxml_tree_from_wbxml` ∘ `wbxml_tree_to_wbxml` ∘ `wbxml_tree_destroy` under ANY schedule, with or
    without string table, for every well-formed document shape and whatever text buffers / body
    chunks the encoder reads off the tree: no fault, no result with an error code, nothing but the
    result stays allocated, and a failed request that is not one of the encoder's benign string-table
    requests (`PipeBenign`) yields an error code. -/
theorem wbxml2wbxml_no_leak (d : Doc) (hd : d.wf) (useStrtbl : Bool) (texts : TCtx → List ABuf)
    (htexts : ∀ c, ∀ t ∈ texts c, t.hdr ∈ c.owned) (body : TCtx → List Bytes) (version publicId : Nat)
    (s : Ledger) (wf : s.WF) :
    ∀ sched : List Nat, ∃ r s', run (wbxml2wbxml d useStrtbl texts body version publicId) { s with sched := sched } = (.ok r, s') ∧
      (r.1 ≠ OK → r.2 = none) ∧ (∀ i, i ∈ s'.live ↔ i ∈ s.live ∨ i ∈ ownedResult r.2) ∧
      (∀ k ∈ sched, s.next < k → k ≤ s'.next → ¬ PipeBenign d useStrtbl texts { s with sched := sched } k → r.1 ≠ OK) := by
  intro sched
  obtain ⟨r, t, hrun, hc, hnone, _, hrep⟩ :=
    (wbxml2wbxml_spec d hd useStrtbl texts htexts body version publicId { s with sched := sched } (wf_of_eq wf rfl rfl)).elim
  exact ⟨r, t, hrun, hnone, fun i => by have := hc.live i; simpa using this,
    fun k hk a b hnb => hrep k ((fails_iff_mem _ k).2 hk) a b hnb⟩

/-- Without string table nothing is benign in the whole conversion. -/
theorem pipe_benign_false (d : Doc) (texts : TCtx → List ABuf) (t : Ledger) (k : Nat) : ¬ PipeBenign d false texts t k := by
  rintro ⟨c, s1, _, hb⟩
  exact tree_benign_false (texts c) s1 k hb

/-- `oom_result_sound` for the WBXML → tree → WBXML conversion — parser main loop, tree-building
    call-backs, glue, encoder, result — for every well-formed document shape and EVERY k: the run
    ends without fault; the status is an error with no output and nothing left allocated, or the
    conversion returns exactly what it returns without failure and only that output is left; with
    the string table, up to the encoder's benign requests (`PipeBenign` = `TreeBenign` after the first
    half; see `oom_result_sound_strict_fails_with_strtbl` for why the strict clause cannot hold there). -/
theorem oom_result_sound_wbxml2wbxml (d : Doc) (hd : d.wf) (useStrtbl : Bool) (texts : TCtx → List ABuf)
    (htexts : ∀ c, ∀ t ∈ texts c, t.hdr ∈ c.owned) (body : TCtx → List Bytes) (version publicId : Nat)
    (s : Ledger) (wf : s.WF) :
    OomResultSoundUpTo (wbxml2wbxml d useStrtbl texts body version publicId) s (PipeBenign d useStrtbl texts) := by
  intro k
  have hspec := wbxml2wbxml_spec d hd useStrtbl texts htexts body version publicId { s with sched := failAt k } (wf_of_eq wf rfl rfl)
  obtain ⟨r, t, hrun, hc, hnone, _, hrep⟩ := hspec.elim
  refine ⟨r, t, hrun, ?_⟩
  have hlive : ∀ i, i ∈ t.live ↔ i ∈ s.live ∨ i ∈ ownedResult r.2 := fun i => by have := hc.live i; simpa using this
  by_cases hret : r.1 = OK
  · by_cases hh : ({ s with sched := failAt k } : Ledger).hits < t.hits
    · obtain ⟨k', hf, a, b⟩ := fail_of_hits hrun hh
      have hk : k' = k := by simpa [Ledger.fails, failAt] using hf
      subst hk
      refine Or.inr (Or.inr ⟨?_, hret, hlive⟩)
      apply Classical.byContradiction
      intro hnb
      exact hrep k' hf a b hnb hret
    · refine Or.inr (Or.inl ⟨?_, hlive⟩)
      have hle := hc.hits
      have heq : (run (wbxml2wbxml d useStrtbl texts body version publicId) { s with sched := failAt k }).2.hits =
          ({ s with sched := failAt k } : Ledger).hits := by
        rw [hrun]; simp at hle hh ⊢; omega
      have := run_nohit _ { s with sched := failAt k } heq
      rw [hrun] at this
      simpa using congrArg Prod.fst this
  · have hn := hnone hret
    refine Or.inl ⟨hret, hn, fun i => ?_⟩
    have := hlive i
    rw [hn] at this
    simpa [ownedResult] using this

/-- Without string table: the strict clause, for the whole conversion. -/
theorem oom_result_sound_wbxml2wbxml_no_strtbl (d : Doc) (hd : d.wf) (texts : TCtx → List ABuf)
    (htexts : ∀ c, ∀ t ∈ texts c, t.hdr ∈ c.owned) (body : TCtx → List Bytes) (version publicId : Nat)
    (s : Ledger) (wf : s.WF) :
    OomResultSound (wbxml2wbxml d false texts body version publicId) s :=
  (oom_result_sound_wbxml2wbxml d hd false texts htexts body version publicId s wf).strict
    (fun t k => pipe_benign_false d texts t k)

/-! ## The XML output half: `wbxml_tree_to_xml` (`Model/AllocXml.lean`) -/

/-- From a specification that holds in every well-formed ledger to the strict clause of the
    property for a conversion: an error comes without output and with nothing left; a run that was
    delivered no failure is the un-failed run. -/
theorem oom_sound_of_spec {conv : Prog (Nat × Option (Nat × Bytes))} {s : Ledger}
    (spec : ∀ s' : Ledger, s'.live = s.live → s'.next = s.next →
      Good conv s' (fun r t => Clean s' t [] (ownedResult r.2) ∧ (r.1 ≠ OK → r.2 = none) ∧ (s'.hits < t.hits → r.1 ≠ OK))) :
    OomResultSound conv s := by
  intro k
  obtain ⟨r, t, hrun, hc, hnone, hrep⟩ := (spec { s with sched := failAt k } rfl rfl).elim
  refine ⟨r, t, hrun, ?_⟩
  have hlive : ∀ i, i ∈ t.live ↔ i ∈ s.live ∨ i ∈ ownedResult r.2 := fun i => by have := hc.live i; simpa using this
  by_cases hret : r.1 = OK
  · refine Or.inr ⟨?_, hlive⟩
    have hle := hc.hits
    have heq : (run conv { s with sched := failAt k }).2.hits = ({ s with sched := failAt k } : Ledger).hits := by
      rw [hrun]
      by_cases hh : ({ s with sched := failAt k } : Ledger).hits < t.hits
      · exact absurd hret (hrep hh)
      · simp at hle hh ⊢; omega
    have := run_nohit _ { s with sched := failAt k } heq
    rw [hrun] at this
    simpa using congrArg Prod.fst this
  · have hn := hnone hret
    refine Or.inl ⟨hret, hn, fun i => ?_⟩
    have := hlive i
    rw [hn] at this
    simpa [ownedResult] using this

theorem ready_of_eq {e : AEnc} {s s' : Ledger} (rdy : EncReady e s) (hl : s'.live = s.live) : EncReady e s' :=
  ⟨owns_of_eq rdy.1 hl, rdy.2⟩

/-- A run of `wbxml_buffer_append_*` calls on `encoder->output` (every piece of the document is
    written by one): the encoder stays the caller's, the output block may move, a failure is the
    error code of the call site. -/
theorem xml_appends_clean (e : AEnc) (err : Nat) (herr : err ≠ OK) (chunks : List Bytes) (s : Ledger) (wf : s.WF)
    (rdy : EncReady e s) :
    AnyScheduleClean (appendAll e err chunks) (fun r => r.2 != OK) s e.owned (fun r => r.1.owned) :=
  clean_of_spec fun s' hl hn => (appendAll_spec e err herr chunks s' (wf_of_eq wf hl hn) (ready_of_eq rdy hl)).mono
    fun r t x => ⟨x.clean, fun hh => by simpa using x.2.2.2 hh⟩

/-- `xml_encode_attr`: the temporary copy of the value never outlives the call. -/
theorem xml_attr_clean (g : XGen) (e : AEnc) (name value : Bytes) (s : Ledger) (wf : s.WF) (rdy : EncReady e s) :
    AnyScheduleClean (xmlAttr g e name value) (fun r => r.2 != OK) s e.owned (fun r => r.1.owned) :=
  clean_of_spec fun s' hl hn => (xmlAttr_spec g e name value s' (wf_of_eq wf hl hn) (ready_of_eq rdy hl)).mono
    fun r t x => ⟨x.clean, fun hh => by simpa using x.2.2.2 hh⟩

/-- `wbxml_buffer_encode_base64` on the temporary copy of a binary element's text. -/
theorem buffer_encode_base64_clean (tmp : ABuf) (s : Ledger) (wf : s.WF) (own : Owns s tmp.owned) (hok : tmp.ok)
    (hst : tmp.isStatic = false) :
    AnyScheduleClean (bufEncodeB64 tmp) (fun r => r.2 != OK) s tmp.owned (fun r => r.1.owned) :=
  clean_of_spec fun s' hl hn => (bufEncodeB64_spec tmp s' (wf_of_eq wf hl hn) (owns_of_eq own hl) hok hst).mono
    fun r t ⟨c, _, _, h⟩ => ⟨c, fun hh => by simpa using h hh⟩

/-- `parse_text` + `xml_encode_text` (copy, SyncML replacement, base64 rewrite, entities, CDATA text). -/
theorem xml_text_clean (g : XGen) (l : XLang) (e : AEnc) (st : XSt) (content : ABuf) (s : Ledger) (wf : s.WF)
    (rdy : EncReady e s) (hc : content.hdr ∈ s.live) :
    AnyScheduleClean (xmlText g l e st content) (fun r => r.2.2 != OK) s e.owned (fun r => r.1.owned) :=
  clean_of_spec fun s' hl hn =>
    (xmlText_spec g l e st content s' (wf_of_eq wf hl hn) (ready_of_eq rdy hl) (by rw [hl]; exact hc)).mono
      fun r t x => ⟨x.clean, fun hh => by simpa using x.2.2.2 hh⟩

/-- `xml_build_result` with `xml_fill_header`: only the result block is produced, with `WBXML_OK` only. -/
theorem xml_build_result_clean (g : XGen) (l : XLang) (e : AEnc) (withHeader : Bool) (s : Ledger) (wf : s.WF)
    (hl : e.hdr ∈ s.live) (hout : ∀ o, e.output = some o → o.hdr ∈ s.live ∧ o.ok) :
    AnyScheduleClean (xmlBuildResult g l e withHeader) (fun r => r.1 != OK) s [] (fun r => ownedResult r.2) :=
  clean_of_spec fun s' hl' hn =>
    (xmlBuildResult_spec g l e withHeader s' (wf_of_eq wf hl' hn) (by rw [hl']; exact hl)
      (fun o ho => by rw [hl']; exact hout o ho)).mono
      fun r t ⟨c, _, h⟩ => ⟨c, fun hh => by simpa using h hh⟩

/-- The node walk (`parse_node` in XML mode) for EVERY tree — elements with attributes, text, CDATA
    sections, embedded trees with their second encoder, nodes the printer refuses — from any state of
    the walk and under EVERY schedule (structural induction over the tree): no fault; the encoder
    stays the caller's; every temporary is gone; a failed request is an error code. -/
theorem xml_node_clean (g : XGen) (l : XLang) (n : XNode) (e : AEnc) (st : XSt) (s : Ledger) (wf : s.WF) (rdy : EncReady e s)
    (hb : ∀ t ∈ n.bufs, t.hdr ∈ s.live ∧ t.hdr ∉ e.owned) :
    AnyScheduleClean (xmlNode g l e st n) (fun r => r.2.2 != OK) s e.owned (fun r => r.1.owned) :=
  clean_of_spec fun s' hl hn =>
    (xmlNode_spec g n l e st s' (wf_of_eq wf hl hn) (ready_of_eq rdy hl) (fun t ht => by rw [hl]; exact hb t ht)).mono
      fun r t x => ⟨x.clean, fun hh => by simpa using x.2.2.2 hh⟩

/-- `tree_to_xml_clean`: the whole of `wbxml_tree_to_xml` for every tree whose text buffers are live,
    every generation type / indentation / language shape and EVERY schedule: no fault; an error code
    with NOTHING left allocated, or `WBXML_OK` with the result block as the only thing left; an error
    whenever a request failed.  Benign sites of the XML output half: none. -/
theorem tree_to_xml_clean (g : XGen) (l : XLang) (root : XNode) (s : Ledger) (wf : s.WF)
    (hb : ∀ t ∈ root.bufs, t.hdr ∈ s.live) :
    AnyScheduleClean (treeToXml g l root) (fun r => r.1 != OK) s [] (fun r => ownedResult r.2) :=
  clean_of_spec fun s' hl hn =>
    (treeToXml_spec g l root s' (wf_of_eq wf hl hn) (fun t ht => by rw [hl]; exact hb t ht)).mono
      fun r t ⟨c, _, h⟩ => ⟨c, fun hh => by simpa using h hh⟩

/-- … and an error never comes with a result. -/
theorem tree_to_xml_result (g : XGen) (l : XLang) (root : XNode) (s : Ledger) (wf : s.WF)
    (hb : ∀ t ∈ root.bufs, t.hdr ∈ s.live) :
    Good (treeToXml g l root) s (fun r _ => r.1 ≠ OK → r.2 = none) :=
  (treeToXml_spec g l root s wf hb).mono fun r t ⟨_, a, _⟩ => a

/-- The strict clause for `wbxml_tree_to_xml` on its own. -/
theorem oom_result_sound_tree_to_xml (g : XGen) (l : XLang) (root : XNode) (s : Ledger) (wf : s.WF)
    (hb : ∀ t ∈ root.bufs, t.hdr ∈ s.live) :
    OomResultSound (treeToXml g l root) s :=
  oom_sound_of_spec fun s' hl hn => treeToXml_spec g l root s' (wf_of_eq wf hl hn) (fun t ht => by rw [hl]; exact hb t ht)

/-- A sample: `<a id="x&quot;">T<![CDATA[]]]]><![CDATA[>]]></a>` in indent mode — text buffers are the blocks
    1 … 4 of the tree — un-failed (the XML text), and with request 13 − 4 = the 9th of the call (a `realloc` of the output buffer
    while the attribute value is written: the temporary copy is live) failing: error 90, nothing but
    the tree left (kernel-evaluated). -/
def sampleXLang : XLang := ⟨true, false, false, b!"r", b!"P", b!"d"⟩
def sampleXTree : XNode :=
  .elt b!"a" none false false [⟨some b!"id", b!"x\""⟩] [.text ⟨1, some 2, b!"T", 2, false⟩, .cdata [.text ⟨3, some 4, b!"]]>", 4, false⟩]]
def sampleXStart : Ledger := { next := 4, live := [1, 2, 3, 4] }

example : sampleXStart.WF ∧ ∀ t ∈ sampleXTree.bufs, t.hdr ∈ sampleXStart.live := by
  refine ⟨fun i hi => ?_, fun t ht => ?_⟩
  · simp [sampleXStart] at hi ⊢; omega
  · simp [sampleXTree, XNode.bufs, XNode.bufsL] at ht; rcases ht with rfl | rfl <;> simp [sampleXStart]

set_option maxRecDepth 20000 in
theorem sample_xml_unfailed_and_failed :
    resultIs (run (treeToXml ⟨1, 1, true, true⟩ sampleXLang sampleXTree) sampleXStart) OK
      (some b!"<?xml version=\"1.0\"?>\n<!DOCTYPE r PUBLIC \"P\" \"d\">\n<a id=\"x&quot;\">T<![CDATA[]]]]><![CDATA[>]]></a>\n") = true ∧
    resultIs (run (treeToXml ⟨1, 1, true, true⟩ sampleXLang sampleXTree) { sampleXStart with sched := failAt 13 }) EAPPEND none = true ∧
    (run (treeToXml ⟨1, 1, true, true⟩ sampleXLang sampleXTree) { sampleXStart with sched := failAt 13 }).2.live = [1, 2, 3, 4] := by
  decide

/-! ## A whole conversion: WBXML → tree → XML -/

/-- `wbxml_tree_from_wbxml` ∘ `wbxml_tree_to_xml` ∘ `wbxml_tree_destroy` under ANY schedule, for every
    well-formed document shape and whatever the printer reads off the tree (`xtree`, its text buffers
    being the tree's): no fault; an error code with nothing left allocated, or `WBXML_OK` with only the
    result left; an error whenever a request failed. -/
theorem wbxml2xml_clean (d : Doc) (hd : d.wf) (g : XGen) (l : XLang) (xtree : TCtx → XNode)
    (hx : ∀ c, ∀ t ∈ (xtree c).bufs, t.hdr ∈ c.owned) (s : Ledger) (wf : s.WF) :
    AnyScheduleClean (wbxml2xml d g l xtree) (fun r => r.1 != OK) s [] (fun r => ownedResult r.2) :=
  clean_of_spec fun s' hl hn => (wbxml2xml_spec d hd g l xtree hx s' (wf_of_eq wf hl hn)).mono
    fun r t ⟨c, _, h⟩ => ⟨c, fun hh => by simpa using h hh⟩

/-- `oom_result_sound` for the WBXML → tree → XML conversion, strict: parser main loop, tree-building
    call-backs, glue, XML printer with all its temporaries, result — for every well-formed document
    shape and EVERY k: the run ends without fault; the status is an error with no output and nothing
    left allocated, or the conversion returns exactly what it returns without failure and only that
    output is left.  Neither half has a benign request. -/
theorem oom_result_sound_wbxml2xml (d : Doc) (hd : d.wf) (g : XGen) (l : XLang) (xtree : TCtx → XNode)
    (hx : ∀ c, ∀ t ∈ (xtree c).bufs, t.hdr ∈ c.owned) (s : Ledger) (wf : s.WF) :
    OomResultSound (wbxml2xml d g l xtree) s :=
  oom_sound_of_spec fun s' hl hn => wbxml2xml_spec d hd g l xtree hx s' (wf_of_eq wf hl hn)

/-! ## The Expat call-backs: `wbxml_tree_from_xml` (`Model/AllocTreeXml.lean`) -/

/-- `wbxml_tree_add_xml_elt_with_attrs` (tag, node, link into the tree, attribute list with the
    `"xml:"` name buffer, names, values, list cells; removal of the half-built node on failure). -/
theorem tree_add_xml_elt_with_attrs_clean (c : TCtx) (tag : XName) (attrs : List XAttrIn) (s : Ledger) (wf : s.WF) (hok : c.ok)
    (own : Owns s c.owned) :
    AnyScheduleClean (treeAddXmlEltWithAttrs c tag attrs) (fun r => !r.2) s c.owned (fun r => r.1.owned) :=
  clean_of_spec fun s' hl hn =>
    (treeAddXmlEltWithAttrs_spec c tag attrs s' (wf_of_eq wf hl hn) hok (owns_of_eq own hl)).mono
      fun r t ⟨_, _, _, cl, h⟩ => ⟨cl, fun hh => by rw [h hh]; rfl⟩

/-- `wbxml_buffer_decode_base64` on the cached text of a binary element (the result block of
    `wbxml_base64_decode` is released on every exit, also when nothing could be decoded). -/
theorem buffer_decode_base64_clean (b : ABuf) (s : Ledger) (wf : s.WF) (own : Owns s b.owned) (hok : b.ok) :
    AnyScheduleClean (bufDecodeB64 b) (fun r => r.2 != OK) s b.owned (fun r => r.1.owned) :=
  clean_of_spec fun s' hl hn => (bufDecodeB64_spec b s' (wf_of_eq wf hl hn) (owns_of_eq own hl) hok).mono
    fun r t ⟨c, _, h⟩ => ⟨c, fun hh => by simpa using h hh⟩

/-- One call-back of `wbxml_tree_clb_xml.c` — start element (with attributes), end element (with
    the base64 decoding of a binary element's cache), start / end of a CDATA section, characters
    (LF → CRLF, missing CDATA section, cache of a binary element, text node) — from any consistent
    context: the context keeps owning exactly its blocks; a failed request leaves an error code. -/
theorem tree_clb_xml_event_clean (binRow : Nat → Bool) (c : TCtx) (e : XEvent) (s : Ledger) (wf : s.WF) (hok : c.ok)
    (own : Owns s c.owned) :
    AnyScheduleClean (clbXmlEvent binRow c e) (fun c' => c'.error != OK) s c.owned TCtx.owned :=
  clean_of_spec fun s' hl hn => (clbXmlEvent_spec binRow c e s' (wf_of_eq wf hl hn) hok (owns_of_eq own hl)).mono
    fun c' t ⟨_, _, cl, h, _⟩ => ⟨cl, fun hh => by simpa using h hh⟩

/-- … and any list of them (induction on the list). -/
theorem tree_clb_xml_events_clean (binRow : Nat → Bool) (events : List XEvent) (c : TCtx) (s : Ledger) (wf : s.WF) (hok : c.ok)
    (own : Owns s c.owned) :
    AnyScheduleClean (clbXmlEvents binRow c events) (fun c' => c'.error != OK) s c.owned TCtx.owned :=
  clean_of_spec fun s' hl hn => (clbXmlEvents_spec binRow events c s' (wf_of_eq wf hl hn) hok (owns_of_eq own hl)).mono
    fun c' t ⟨_, _, cl, h, _⟩ => ⟨cl, fun hh => by simpa using h hh⟩

/-- `tree_from_xml_events_clean`: `wbxml_tree_from_xml` around the call-backs Expat makes
    (`wbxml_tree_create`, the events, `wbxml_tree_destroy` when Expat or a call-back reported an
    error), for EVERY list of events, every table of binary tags, either outcome of `XML_Parse` and
    every schedule: no fault; an error code with nothing left allocated, or `WBXML_OK` with the tree
    owning everything that is left; an error whenever a request failed.  Benign sites: none. -/
theorem tree_from_xml_events_clean (binRow : Nat → Bool) (events : List XEvent) (parseOk : Bool) (s : Ledger) (wf : s.WF) :
    AnyScheduleClean (treeFromXml binRow events parseOk) (fun r => r.1 != OK) s [] (fun r => ownedCtxOpt r.2) :=
  clean_of_spec fun s' hl hn => (treeFromXml_spec binRow events parseOk s' (wf_of_eq wf hl hn)).mono
    fun r t ⟨cl, _, h, _⟩ => ⟨cl, fun hh => by simpa using h hh⟩

/-- … an error never comes with a tree, and a tree that is returned is consistent and error-free. -/
theorem tree_from_xml_events_result (binRow : Nat → Bool) (events : List XEvent) (parseOk : Bool) (s : Ledger) (wf : s.WF) :
    Good (treeFromXml binRow events parseOk) s (fun r _ => (r.1 ≠ OK → r.2 = none) ∧ ∀ c, r.2 = some c → c.ok ∧ c.error = OK) :=
  (treeFromXml_spec binRow events parseOk s wf).mono fun r t ⟨_, a, _, b⟩ => ⟨a, b⟩

theorem single_failure_clean_tree_from_xml (binRow : Nat → Bool) (events : List XEvent) (parseOk : Bool) (s : Ledger) (wf : s.WF) :
    SingleFailureClean (treeFromXml binRow events parseOk) (fun r => r.1 != OK) s [] (fun r => ownedCtxOpt r.2) :=
  (tree_from_xml_events_clean binRow events parseOk s wf).single

/-- A sample: `<T0 xml:lang="en" a="v"><T1>QUJD\nRA==</T1>x</T0>` with `T1` a binary tag — un-failed: a tree
    of 24 blocks whose binary element holds the decoded text; with request 25 (the result block of
    `wbxml_base64_decode`) failing: `WBXML_ERROR_B64_DEC`, nothing left; and when Expat reports a parse error
    after these events: `WBXML_ERROR_XML_PARSING_FAILED`, nothing left (kernel-evaluated). -/
def sampleXEvents : List XEvent :=
  [.start true (.token 0) [⟨some b!"lang", .token 0, b!"en"⟩, ⟨none, .literal b!"a", b!"v"⟩],
   .start true (.token 1) [], .chars b!"QUJD" .normal, .chars b!"\n" .normal, .chars b!"RA==" .normal, .stop,
   .chars b!"x" .normal, .stop]

set_option maxRecDepth 20000 in
theorem sample_from_xml_unfailed_and_failed :
    fromWbxmlIs (run (treeFromXml (· == 1) sampleXEvents true) (Ledger.start [])) OK true 24 = true ∧
    fromWbxmlIs (run (treeFromXml (· == 1) sampleXEvents true) (Ledger.start (failAt 25))) EB64DEC false 0 = true ∧
    fromWbxmlIs (run (treeFromXml (· == 1) sampleXEvents false) (Ledger.start [])) EXMLPARSE false 0 = true := by
  decide

/-! ## Whole conversions from XML: XML → tree → WBXML, XML → tree → XML -/

/-- From a specification with the list of reported requests to the clause up to benign requests. -/
theorem oom_upto_of_spec {conv : Prog (Nat × Option (Nat × Bytes))} {s : Ledger} {benign : Ledger → Nat → Prop}
    (spec : ∀ k : Nat, Good conv { s with sched := failAt k } (fun r t =>
      Clean { s with sched := failAt k } t [] (ownedResult r.2) ∧ (r.1 ≠ OK → r.2 = none) ∧
      (∀ k', ({ s with sched := failAt k } : Ledger).fails k' = true → s.next < k' → k' ≤ t.next →
        ¬ benign { s with sched := failAt k } k' → r.1 ≠ OK))) :
    OomResultSoundUpTo conv s benign := by
  intro k
  obtain ⟨r, t, hrun, hc, hnone, hrep⟩ := (spec k).elim
  refine ⟨r, t, hrun, ?_⟩
  have hlive : ∀ i, i ∈ t.live ↔ i ∈ s.live ∨ i ∈ ownedResult r.2 := fun i => by have := hc.live i; simpa using this
  by_cases hret : r.1 = OK
  · by_cases hh : ({ s with sched := failAt k } : Ledger).hits < t.hits
    · obtain ⟨k', hf, a, b⟩ := fail_of_hits hrun hh
      have hk : k' = k := by simpa [Ledger.fails, failAt] using hf
      subst hk
      refine Or.inr (Or.inr ⟨?_, hret, hlive⟩)
      apply Classical.byContradiction
      intro hnb
      exact hrep k' hf a b hnb hret
    · refine Or.inr (Or.inl ⟨?_, hlive⟩)
      have hle := hc.hits
      have heq : (run conv { s with sched := failAt k }).2.hits = ({ s with sched := failAt k } : Ledger).hits := by
        rw [hrun]; simp at hle hh ⊢; omega
      have := run_nohit _ { s with sched := failAt k } heq
      rw [hrun] at this
      simpa using congrArg Prod.fst this
  · have hn := hnone hret
    refine Or.inl ⟨hret, hn, fun i => ?_⟩
    have := hlive i
    rw [hn] at this
    simpa [ownedResult] using this

/-- `wbxml_tree_from_xml` ∘ `wbxml_tree_to_wbxml` ∘ `wbxml_tree_destroy` under ANY schedule: no fault, no
    result with an error code, nothing but the result stays allocated, and a failed request that is
    not one of the encoder's benign string-table requests (`XPipeBenign`) yields an error code. -/
theorem xml2wbxml_no_leak (binRow : Nat → Bool) (events : List XEvent) (parseOk : Bool) (useStrtbl : Bool)
    (texts : TCtx → List ABuf) (htexts : ∀ c, ∀ t ∈ texts c, t.hdr ∈ c.owned) (body : TCtx → List Bytes) (version publicId : Nat)
    (s : Ledger) (wf : s.WF) :
    ∀ sched : List Nat, ∃ r s', run (xml2wbxml binRow events parseOk useStrtbl texts body version publicId) { s with sched := sched } = (.ok r, s') ∧
      (r.1 ≠ OK → r.2 = none) ∧ (∀ i, i ∈ s'.live ↔ i ∈ s.live ∨ i ∈ ownedResult r.2) ∧
      (∀ k ∈ sched, s.next < k → k ≤ s'.next → ¬ XPipeBenign binRow events parseOk useStrtbl texts { s with sched := sched } k → r.1 ≠ OK) := by
  intro sched
  obtain ⟨r, t, hrun, hc, hnone, _, hrep⟩ :=
    (xml2wbxml_spec binRow events parseOk useStrtbl texts htexts body version publicId { s with sched := sched } (wf_of_eq wf rfl rfl)).elim
  exact ⟨r, t, hrun, hnone, fun i => by have := hc.live i; simpa using this,
    fun k hk a b hnb => hrep k ((fails_iff_mem _ k).2 hk) a b hnb⟩

theorem xpipe_benign_false (binRow : Nat → Bool) (events : List XEvent) (parseOk : Bool) (texts : TCtx → List ABuf) (t : Ledger) (k : Nat) :
    ¬ XPipeBenign binRow events parseOk false texts t k := by
  rintro ⟨c, s1, _, hb⟩
  exact tree_benign_false (texts c) s1 k hb

/-- `oom_result_sound` for the XML → tree → WBXML conversion: the Expat call-backs and the glue of
    `wbxml_tree_from_xml` for EVERY event list, composed with the encoder half, for EVERY k; with the
    string table up to the encoder's benign requests (`XPipeBenign` = `TreeBenign` after the first half). -/
theorem oom_result_sound_xml2wbxml (binRow : Nat → Bool) (events : List XEvent) (parseOk : Bool) (useStrtbl : Bool)
    (texts : TCtx → List ABuf) (htexts : ∀ c, ∀ t ∈ texts c, t.hdr ∈ c.owned) (body : TCtx → List Bytes) (version publicId : Nat)
    (s : Ledger) (wf : s.WF) :
    OomResultSoundUpTo (xml2wbxml binRow events parseOk useStrtbl texts body version publicId) s
      (XPipeBenign binRow events parseOk useStrtbl texts) :=
  oom_upto_of_spec fun k =>
    (xml2wbxml_spec binRow events parseOk useStrtbl texts htexts body version publicId { s with sched := failAt k } (wf_of_eq wf rfl rfl)).mono
      fun r t ⟨c, n, _, rep⟩ => ⟨c, n, rep⟩

/-- Without string table: the strict clause. -/
theorem oom_result_sound_xml2wbxml_no_strtbl (binRow : Nat → Bool) (events : List XEvent) (parseOk : Bool)
    (texts : TCtx → List ABuf) (htexts : ∀ c, ∀ t ∈ texts c, t.hdr ∈ c.owned) (body : TCtx → List Bytes) (version publicId : Nat)
    (s : Ledger) (wf : s.WF) :
    OomResultSound (xml2wbxml binRow events parseOk false texts body version publicId) s :=
  (oom_result_sound_xml2wbxml binRow events parseOk false texts htexts body version publicId s wf).strict
    (fun t k => xpipe_benign_false binRow events parseOk texts t k)

/-- XML → tree → XML, strict: neither the call-backs nor the printer have a benign request. -/
theorem oom_result_sound_xml2xml (binRow : Nat → Bool) (events : List XEvent) (parseOk : Bool) (g : XGen) (l : XLang)
    (xtree : TCtx → XNode) (hx : ∀ c, ∀ t ∈ (xtree c).bufs, t.hdr ∈ c.owned) (s : Ledger) (wf : s.WF) :
    OomResultSound (xml2xml binRow events parseOk g l xtree) s :=
  oom_sound_of_spec fun s' hl hn => xml2xml_spec binRow events parseOk g l xtree hx s' (wf_of_eq wf hl hn)

/-! ## `oom_result_sound`: the four public conversions in one statement -/

/-- The clause of the property for the four conversions an application can run — WBXML → XML,
    XML → WBXML, and the two round trips through the tree (WBXML → WBXML, XML → XML) — each as
    `from` ∘ `to` ∘ `wbxml_tree_destroy` on the ledger, for EVERY well-formed WBXML document shape /
    EVERY list of Expat call-backs, every option set of the printers and encoders, EVERY k: the run
    ends without fault (no double free, no use after free, no NULL dereference); the status is an
    error with no output and nothing left allocated, or the conversion returns exactly what it returns
    without failure and only that output is left.  The two conversions that end in the WBXML encoder
    hold up to its benign string-table requests (`PipeBenign` / `XPipeBenign`; strict without string
    table: `oom_result_sound_wbxml2wbxml_no_strtbl`, `oom_result_sound_xml2wbxml_no_strtbl`); the two
    that end in the XML printer are strict.

    It keeps the suffix `_partial` because the following allocate and are in NO model (they are
    covered by the conversion-level enumeration only, a TEST):
      * the body of the WBXML encoder — `wbxml_encode_value_element_buffer` with its value-element
        lists and buffers, the typed encoders (WV, date-time, OTA icon, DRMREL), the CDATA buffer of
        `parse_cdata`, and `parse_text`'s in-place `wbxml_buffer_insert_cstr(node->content, "\r", 0)`
        (a `realloc` of a TREE buffer inside the encoder; its result was ignored until fix 8847582,
        found while this model was written): the model takes the body as the chunks that are
        appended (`body`);
      * the Wireless-Village / date-time decoders and the WV extension values of the WBXML parser;
      * an embedded document: `WBXML_SYNCML_DATA_TYPE_WBXML` inside the WBXML `characters` call-back
        (nested `wbxml_tree_from_wbxml`; the known finding `check-public-id-oom-embedded` lives there)
        and the `DevInf` / `MgmtTree` element of the XML call-backs (nested `wbxml_tree_from_xml`,
        with the skip-level counter);
      * Expat itself (libc `malloc`: neither failed nor on the ledger) and the converter objects
        (`wbxml_conv_*_create`: one block, released by `wbxml_conv_*_destroy`). -/
theorem oom_result_sound_partial
    (d : Doc) (hd : d.wf) (binRow : Nat → Bool) (events : List XEvent) (parseOk : Bool)
    (g : XGen) (l : XLang) (xtree : TCtx → XNode) (hx : ∀ c, ∀ t ∈ (xtree c).bufs, t.hdr ∈ c.owned)
    (useStrtbl : Bool) (texts : TCtx → List ABuf) (htexts : ∀ c, ∀ t ∈ texts c, t.hdr ∈ c.owned)
    (body : TCtx → List Bytes) (version publicId : Nat) (s : Ledger) (wf : s.WF) :
    OomResultSound (wbxml2xml d g l xtree) s ∧
    OomResultSoundUpTo (xml2wbxml binRow events parseOk useStrtbl texts body version publicId) s
      (XPipeBenign binRow events parseOk useStrtbl texts) ∧
    OomResultSoundUpTo (wbxml2wbxml d useStrtbl texts body version publicId) s (PipeBenign d useStrtbl texts) ∧
    OomResultSound (xml2xml binRow events parseOk g l xtree) s :=
  ⟨oom_result_sound_wbxml2xml d hd g l xtree hx s wf,
   oom_result_sound_xml2wbxml binRow events parseOk useStrtbl texts htexts body version publicId s wf,
   oom_result_sound_wbxml2wbxml d hd useStrtbl texts htexts body version publicId s wf,
   oom_result_sound_xml2xml binRow events parseOk g l xtree hx s wf⟩

/-- The hypotheses of `oom_result_sound_partial` are satisfiable together (the samples above; the
    printer and the encoder read nothing off the tree). -/
example : ∃ (d : Doc) (xtree : TCtx → XNode) (texts : TCtx → List ABuf) (s : Ledger),
    d.wf ∧ (∀ c, ∀ t ∈ (xtree c).bufs, t.hdr ∈ c.owned) ∧ (∀ c, ∀ t ∈ texts c, t.hdr ∈ c.owned) ∧ s.WF := by
  refine ⟨⟨[3, 1, 106, 0], OK, .none, .known, [], .elem (.token 5) [] false, []⟩, fun _ => .elt b!"a" none false false [] [],
    fun _ => [], Ledger.start [], ?_, ?_, ?_, ?_⟩
  · exact ⟨fun a ha => (by cases ha), ⟨trivial, fun a ha => (by cases ha)⟩, fun it hit => (by cases hit)⟩
  · intro c t ht; simp [XNode.bufs, XNode.bufsL] at ht
  · intro c t ht; cases ht
  · intro i hi; cases hi

/-! ## The property's statement for one function, as `single_failure_clean` -/

/-- `single_failure_clean` — the form quoted in DESIGN §5 C16 — for `parse_element`: for EVERY k. -/
theorem single_failure_clean_parse_element (t : TagShape) (ht : t.wf) (attrs : List AttrShape)
    (hshape : ∀ a ∈ attrs, a.start.wf) (s : Ledger) (wf : s.WF) :
    SingleFailureClean (parseElement t attrs) (fun ret => ret != OK) s [] (fun _ => []) :=
  (parse_element_clean t ht attrs hshape s wf).single

theorem pair_failure_clean_parse_element (t : TagShape) (ht : t.wf) (attrs : List AttrShape)
    (hshape : ∀ a ∈ attrs, a.start.wf) (s : Ledger) (wf : s.WF) :
    PairFailureClean (parseElement t attrs) (fun ret => ret != OK) s [] (fun _ => []) :=
  (parse_element_clean t ht attrs hshape s wf).pair

/-! ## The code before the `fix:` commits: kernel-checked `(function, k)` witnesses -/

/-- Did the run end in a fault? -/
def faulted {α : Type} (r : Except Err α × Ledger) : Bool :=
  match r.1 with
  | .error (.ub _) => true
  | _ => false

/-- `grow_buff` (old), k = 3: the append fails cleanly for the caller, but the old data block (id 2)
    is never released. -/
theorem grow_buff_old_leaks : (run Old.growScenario (Ledger.start (failAt 3))).2.live = [2] := by decide

/-- … and a caller that carries on writes through the NULL `data` pointer. -/
theorem grow_buff_old_null_write : faulted (run Old.growScenario2 (Ledger.start (failAt 3))) = true := by decide

/-- The repaired function on the same scenario: nothing live, no fault. -/
theorem grow_buff_new_same_scenario :
    (run Old.growScenarioNew (Ledger.start (failAt 3))).2.live = [] ∧
    faulted (run Old.growScenarioNew (Ledger.start (failAt 3))) = false := by decide

/-- `wbxml_tree_node_add_attr` (old), k = 11 (the list element): the caller's attribute is destroyed,
    so the caller's own destroy is a double free. -/
theorem add_attr_old_double_free :
    faulted (run (Old.addAttrScenario Old.nodeAddAttr) (Ledger.start (failAt 11))) = true := by decide

theorem add_attr_new_same_scenario :
    faulted (run (Old.addAttrScenario nodeAddAttr) (Ledger.start (failAt 11))) = false ∧
    (run (Old.addAttrScenario nodeAddAttr) (Ledger.start (failAt 11))).2.live = [] := by decide

/-- `encoder_encode_tree` (old), k = 3 (the output buffer): the encoder is destroyed by the callee
    and used / freed again by `wbxml_tree_to_wbxml`. -/
theorem encode_tree_old_double_destroy :
    faulted (run (Old.treeToWbxml false [] [[0x45]] 3 10) (Ledger.start (failAt 3))) = true := by decide

theorem encode_tree_new_same_scenario :
    faulted (run (treeToWbxml false [] [[0x45]] 3 10) (Ledger.start (failAt 3))) = false ∧
    (run (treeToWbxml false [] [[0x45]] 3 10) (Ledger.start (failAt 3))).2.live = [] := by decide

/-- `parse_attr_start` (old), literal attribute name with a non-empty value, k = 3 (the name buffer):
    OK is returned with a NULL name, which `parse_attribute` dereferences. -/
theorem parse_attr_start_old_null_name :
    faulted (run (Old.parseAttribute ⟨.literal b!"id", [.sta b!"x"]⟩) (Ledger.start (failAt 3))) = true := by decide

/-- `parse_element` (old), two attributes, k = 15 (the second `realloc`): the first table and the
    attribute in it stay allocated. -/
theorem parse_element_old_leaks_table :
    (run (Old.parseElement (.token 5) [⟨.token 0 none, [.sta b!"ab"]⟩, ⟨.token 1 none, [.sta b!"c"]⟩]) (Ledger.start (failAt 15))).2.live ≠ [] := by
  decide

/-- The negation of the clause for the old `parse_element`: there IS a k that breaks it. -/
theorem parse_element_old_not_single_failure_clean :
    ¬ SingleFailureClean (Old.parseElement (.token 5) [⟨.token 0 none, [.sta b!"ab"]⟩, ⟨.token 1 none, [.sta b!"c"]⟩])
        (fun ret => ret != OK) (Ledger.start []) [] (fun _ => []) := by
  intro h
  obtain ⟨r, s', hrun, hlive, _⟩ := h 15
  have hl : s'.live = (run (Old.parseElement (.token 5) [⟨.token 0 none, [.sta b!"ab"]⟩, ⟨.token 1 none, [.sta b!"c"]⟩])
      (Ledger.start (failAt 15))).2.live := by
    have : ({ Ledger.start [] with sched := failAt 15 } : Ledger) = Ledger.start (failAt 15) := rfl
    rw [this] at hrun; rw [hrun]
  have hne := parse_element_old_leaks_table
  rw [← hl] at hne
  apply hne
  cases hs : s'.live with
  | nil => rfl
  | cons a rest =>
    have := (hlive a).1 (by rw [hs]; simp)
    simp [Ledger.start] at this

end Wbxml.Props.C16
