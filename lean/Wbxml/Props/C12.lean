/-
  C12 — typed content survives encoding and decoding unchanged in value.

  Model: `Model/Typed/{Datetime,WvInt,WvDate}.lean`, `Lemmas/TypedBinary.lean` (tied to the C code by the TYPED
  correspondence run of `tools/props/c12.py`: static codec routines by source inclusion and minimal
  SI/EMN/WV/OTA/DRMREL/SyncML/AirSync documents through the conversion entry points).
  Spec:  `Spec/Calendar.lean` (calendar date-times, the canonical `YYYY-MM-DDThh:mm:ssZ` and Wireless-Village
  basic forms, SI §8.2.2 BCD), `Spec/Rfc4648.lean` (component C11), `beNat` (big-endian value).

  All theorems are universally quantified (every calendar date-time 0000–9999, every 32-bit integer, every
  opaque octet string, every zone letter, every byte string) and proved symbolically; the only kernel
  evaluations are over the complete tables of the 10 decimal digits and the 100 two-digit BCD octets.
-/
import Wbxml.Lemmas.TypedDatetime
import Wbxml.Lemmas.TypedWvInt
import Wbxml.Lemmas.TypedWvDate
import Wbxml.Lemmas.TypedBinary
import Wbxml.Props.C11
namespace Wbxml.Props.C12
open Wbxml Wbxml.Model.Typed Wbxml.Spec Wbxml.Spec.Calendar Wbxml.Lemmas.Typed
open Wbxml.Model.Codec (b64Encode b64Decode)

/-! ## SI / EMN `%Datetime` -/

/-- For every calendar date-time with a four-digit year, decoding what the encoder produced from
    `YYYY-MM-DDThh:mm:ssZ` gives back exactly that text (same instant, canonical form). -/
theorem datetime_roundtrip (d : DateTime) (h : d.Valid) :
    (datetimePayload (canon d)).bind decodeDatetime = .ok (canon d) := by
  rw [datetimePayload_canon d h]
  show decodeDatetime _ = _
  rw [decodeDatetime_take d h _ (keptOctets_range d), truncTo_kept]

/-- What is sent is the SI §8.2.2 BCD form cut after the last non-zero octet: between four and seven octets,
    and every omitted octet is zero — stripping never reaches the date and never drops a non-zero field. -/
theorem datetime_payload_is_bcd (d : DateTime) (h : d.Valid) :
    datetimePayload (canon d) = .ok ((bcd7 d).take (keptOctets d)) ∧
    4 ≤ keptOctets d ∧ keptOctets d ≤ 7 ∧ (∀ b ∈ (bcd7 d).drop (keptOctets d), b = 0) := by
  refine ⟨datetimePayload_canon d h, (keptOctets_range d).1, (keptOctets_range d).2, ?_⟩
  have z : bcd 0 = 0 := by decide
  unfold keptOctets bcd7
  by_cases s0 : d.second = 0 <;> by_cases m0 : d.minute = 0 <;> by_cases h0 : d.hour = 0 <;>
    simp [s0, m0, h0, z]

/-- The same through the caller's guard and the OPAQUE framing (the canonical text has no NUL and is not empty). -/
theorem datetime_item (d : DateTime) (h : d.Valid) :
    guarded encodeDatetime (canon d) = .ok (opaqueItem ((bcd7 d).take (keptOctets d))) := by
  have nz : ∀ n, (dig n != 0) = true := fun n =>
    (by decide : ∀ k, k < 10 → (UInt8.ofNat (48 + k) != 0) = true) (n % 10) (Nat.mod_lt _ (by decide))
  have hc : cstr (canon d) = canon d := by
    simp [cstr, canon, d4, d2, List.takeWhile, nz]
  unfold guarded
  rw [hc]
  have : canon d ≠ [] := by simp [canon, d4]
  simp [this, encodeDatetime, datetimePayload_canon d h, Except.map]

/-- Every legal truncation: the first 4, 5, 6 or 7 BCD octets decode to the canonical form of the date-time
    whose omitted fields are zero. -/
theorem datetime_decode_truncation (d : DateTime) (h : d.Valid) (k : Nat) (hk : 4 ≤ k ∧ k ≤ 7) :
    decodeDatetime ((bcd7 d).take k) = .ok (canon (truncTo d k)) :=
  decodeDatetime_take d h k hk

/-- Fewer than four or more than seven octets are rejected with `WBXML_ERROR_BAD_DATETIME`. -/
theorem datetime_bad_length (p : Bytes) (h : p.length < 4 ∨ 7 < p.length) :
    decodeDatetime p = .error (.code 11) := by
  have hl : ∀ q : Bytes, (binToHex q).length = 2 * q.length := by
    intro q; induction q with
    | nil => rfl
    | cons b bs ih => simp [binToHex, ih]; omega
  unfold decodeDatetime decodeHex
  have := hl p
  have hcond : ((binToHex p).length < 8 || (binToHex p).length > 14 || (binToHex p).length == 9 ||
      (binToHex p).length == 11 || (binToHex p).length == 13) = true := by
    simp only [Bool.or_eq_true, decide_eq_true_eq, beq_iff_eq]
    omega
  simp only [hcond, if_true]

example : DateTime.Valid ⟨1999, 6, 30, 0, 0, 0⟩ := by decide
example : DateTime.Valid ⟨0, 2, 29, 23, 59, 59⟩ := by decide
example : DateTime.Valid ⟨9999, 12, 31, 10, 0, 0⟩ := by decide

/-! ## Wireless-Village integers -/

/-- Every integer `n < 2^32`: its decimal text is encoded as the minimal big-endian opaque of value `n`
    (at most four octets, no leading zero octet), and that opaque decodes to the decimal text of `n`. -/
theorem wvint_roundtrip (n : Nat) (h : n < 2 ^ 32) :
    encodeWvInt (decNat n) = .ok (some (opaqueItem (wvIntOctets n))) ∧
    decodeWvInt (wvIntOctets n) = .ok (decNat n) ∧
    beNat (wvIntOctets n) = n ∧ (wvIntOctets n).length ≤ 4 ∧ (wvIntOctets n).head? ≠ some 0 := by
  have h' : n < 4294967296 := h
  have hv := beNat_wvIntOctets n h'
  refine ⟨?_, ?_, hv, (wvIntOctets_minimal n h').1, (wvIntOctets_minimal n h').2⟩
  · unfold encodeWvInt
    rw [wvIntNumeral_digits _ (decNat_ne_nil n) (all_isDigit_decNat n), decVal_decNat]
    have : ¬ n > 0xFFFFFFFF := by omega
    simp [this]
  · unfold decodeWvInt
    rw [wvIntAcc_spec 0 _ (by omega), ← beNat_eq, hv]
    simp [h', Except.map]

/-- An opaque integer of any length whose big-endian value does not fit in 32 bits is reported as
    `WBXML_ERROR_WV_INTEGER_OVERFLOW` (80) — not truncated. -/
theorem wvint_overflow (p : Bytes) (h : 2 ^ 32 ≤ beNat p) : decodeWvInt p = .error (.code 80) := by
  unfold decodeWvInt
  rw [wvIntAcc_spec 0 _ (by omega), ← beNat_eq]
  have : ¬ beNat p < 4294967296 := by have : (2:Nat) ^ 32 = 4294967296 := by decide
                                      omega
  simp [this, Except.map]

/-- … and every opaque integer that does fit (leading zero octets allowed, any length) decodes to the decimal
    text of its value. Together: the decoder never yields another number. -/
theorem wvint_decode_value (p : Bytes) (h : beNat p < 2 ^ 32) : decodeWvInt p = .ok (decNat (beNat p)) := by
  unfold decodeWvInt
  rw [wvIntAcc_spec 0 _ (by omega), ← beNat_eq]
  have : beNat p < 4294967296 := h
  simp [this, Except.map]

/-- Element text on the way to WBXML (DESIGN §6.3 #24): whatever the text is, the encoder either emits the
    opaque of exactly the number the text denotes (a decimal numeral, or `0x…` hexadecimal), or leaves the
    text to be carried unchanged as a string (`none`), or refuses with error 80 — it never emits another number. -/
theorem wvint_text_never_changes_value (s : Bytes) :
    (∃ v, wvIntNumeral s = some v ∧ v < 2 ^ 32 ∧ encodeWvInt s = .ok (some (opaqueItem (wvIntOctets v))) ∧
          decodeWvInt (wvIntOctets v) = .ok (decNat v)) ∨
    (wvIntNumeral s = none ∧ encodeWvInt s = .ok none) ∨
    (∃ v, wvIntNumeral s = some v ∧ 2 ^ 32 ≤ v ∧ encodeWvInt s = .error (.code 80)) := by
  unfold encodeWvInt
  cases hn : wvIntNumeral s with
  | none => exact Or.inr (Or.inl ⟨rfl, rfl⟩)
  | some v =>
    by_cases hv : v > 0xFFFFFFFF
    · refine Or.inr (Or.inr ⟨v, rfl, ?_, by simp [hv]⟩)
      have : (2:Nat) ^ 32 = 4294967296 := by decide
      omega
    · have hlt : v < 2 ^ 32 := by
        have : (2:Nat) ^ 32 = 4294967296 := by decide
        omega
      exact Or.inl ⟨v, rfl, hlt, by simp [hv], (wvint_roundtrip v hlt).2.1⟩

/-- What "the number the text denotes" means: all decimal digits, or `0x`/`0X` + hexadecimal digits. -/
theorem wvint_numeral_meaning (s : Bytes) (v : Nat) (h : wvIntNumeral s = some v) :
    (s ≠ [] ∧ s.all isDigit = true ∧ v = decVal s) ∨
    (∃ x hexs, s = 0x30 :: x :: hexs ∧ (x = 0x78 ∨ x = 0x58) ∧ hexs ≠ [] ∧ hexs.all isHexDigit = true ∧ v = Model.Typed.hexVal hexs) := by
  match s with
  | [] => simp [wvIntNumeral] at h
  | [c0] =>
    by_cases h0 : isDigit c0 = true
    · simp [wvIntNumeral, h0] at h
      exact Or.inl ⟨by simp, by simp [h0], h.symm⟩
    · simp [wvIntNumeral, h0] at h
  | c0 :: c1 :: hexs =>
    by_cases h0 : isDigit c0 = true
    · by_cases hx : (c1 == 0x78 || c1 == 0x58) = true
      · by_cases hh : (c0 == 0x30 && hexs ≠ [] && hexs.all isHexDigit) = true
        · simp only [wvIntNumeral, h0, Bool.not_true, Bool.false_eq_true, if_false, hx, if_true, hh,
            Option.some.injEq] at h
          simp only [Bool.and_eq_true, beq_iff_eq, decide_eq_true_eq] at hh
          simp only [Bool.or_eq_true, beq_iff_eq] at hx
          obtain ⟨⟨e0, hne⟩, hall⟩ := hh
          exact Or.inr ⟨c1, hexs, by rw [e0], hx, hne, hall, h.symm⟩
        · simp only [wvIntNumeral, h0, Bool.not_true, Bool.false_eq_true, if_false, hx, if_true, hh] at h
          cases h
      · by_cases hd : (c0 :: c1 :: hexs).all isDigit = true
        · simp only [wvIntNumeral, h0, Bool.not_true, Bool.false_eq_true, if_false, hx, hd, if_true,
            Option.some.injEq] at h
          exact Or.inl ⟨by simp, hd, h.symm⟩
        · simp [wvIntNumeral, h0, hx, hd] at h
    · simp [wvIntNumeral, h0] at h

example : (2:Nat) ^ 32 ≤ beNat [1, 0, 0, 0, 0] := by decide
example : beNat [0, 0, 0, 0, 0xFF, 0xFF, 0xFF, 0xFF] < 2 ^ 32 := by decide

/-! ## Wireless-Village date and time -/

/-- For every calendar date-time, **years 0000–9999**, and every zone designator `A`–`Z` without `J`
    (including `Z`): the text `YYYYMMDDThhmmss<zone>` is encoded, and what the parser delivers for the encoded
    item reads as the same date-time and zone (zero seconds may be omitted in the text: same value). -/
theorem wvdate_roundtrip (d : DateTime) (h : d.Valid) (z : UInt8) (hz : isZone z = true) :
    ∃ item text, encodeWvDate (basic d (some z)) = .ok item ∧ decodeWvDateItem item = .ok text ∧
      readBasic text = some (d, some z) := by
  by_cases hZ : z = 0x5A
  · subst hZ
    exact ⟨_, _, encodeWvDate_basic_utc d, rfl, readBasic_basic d h _ hz⟩
  · by_cases hy : d.year > 4095
    · refine ⟨.inline (basic d (some z)), basic d (some z), ?_, rfl, readBasic_basic d h z hz⟩
      rw [encodeWvDate_basic d h z hz hZ]; simp [hy]
    · obtain ⟨_, _, hmo, _, hd2, hh, hm, hs⟩ := h
      have hd31 := daysInMonth_le d.year d.month
      refine ⟨.opaque (wvPack d.year d.month d.day d.hour d.minute d.second z), basicShort d (some z), ?_, ?_, ?_⟩
      · rw [encodeWvDate_basic d ⟨by assumption, by assumption, hmo, by assumption, hd2, hh, hm, hs⟩ z hz hZ]; simp [hy]
      · simp only [decodeWvDateItem]
        rw [decodeWvDate_wvPack _ _ _ _ _ _ z (by omega) (by omega) (by omega) (by omega) (by omega) (by omega)]
        rw [wvDateText_valid d ⟨by assumption, by assumption, hmo, by assumption, hd2, hh, hm, hs⟩ z hz]
      · exact readBasic_basicShort d ⟨by assumption, by assumption, hmo, by assumption, hd2, hh, hm, hs⟩ z hz

/-- Exactly which form is used and what comes back: the six-octet opaque for years 0000–4095 with a zone other
    than `Z` (printed with four year digits, seconds omitted when zero); the inline string, unchanged, for `Z`
    and for years 4096–9999, which the 12-bit field cannot carry. -/
theorem wvdate_forms (d : DateTime) (h : d.Valid) (z : UInt8) (hz : isZone z = true) :
    (z ≠ 0x5A ∧ d.year ≤ 4095 →
        encodeWvDate (basic d (some z)) = .ok (.opaque (wvPack d.year d.month d.day d.hour d.minute d.second z)) ∧
        decodeWvDate (wvPack d.year d.month d.day d.hour d.minute d.second z) = .ok (basicShort d (some z))) ∧
    (z = 0x5A ∨ d.year > 4095 → encodeWvDate (basic d (some z)) = .ok (.inline (basic d (some z)))) := by
  constructor
  · rintro ⟨hZ, hy⟩
    have hv := h
    obtain ⟨_, _, hmo, _, hd2, hh, hm, hs⟩ := h
    have hd31 := daysInMonth_le d.year d.month
    constructor
    · rw [encodeWvDate_basic d hv z hz hZ]; simp [show ¬ d.year > 4095 by omega]
    · rw [decodeWvDate_wvPack _ _ _ _ _ _ z hy (by omega) (by omega) (by omega) (by omega) (by omega),
        wvDateText_valid d hv z hz]
  · rintro (hZ | hy)
    · subst hZ; exact encodeWvDate_basic_utc d
    · by_cases hZ : z = 0x5A
      · subst hZ; exact encodeWvDate_basic_utc d
      · rw [encodeWvDate_basic d h z hz hZ]; simp [hy]

/-- Observation, outside the property (the text is not zone-designated): a date-time *without* zone
    designator is sent with zone octet 0, which the parser prints as `Z` — it comes back as the same wall-clock
    fields marked UTC (the parser's comment calls a zero zone octet "a bug in the WBXML document"). -/
theorem wvdate_absent_zone_reads_utc (d : DateTime) (h : d.Valid) (hy : d.year ≤ 4095) :
    encodeWvDate (basic d none) = .ok (.opaque (wvPack d.year d.month d.day d.hour d.minute d.second 0)) ∧
    decodeWvDate (wvPack d.year d.month d.day d.hour d.minute d.second 0) = .ok (basicShort d (some 0x5A)) := by
  have hv := h
  obtain ⟨_, _, hmo, _, hd2, hh, hm, hs⟩ := h
  have hd31 := daysInMonth_le d.year d.month
  constructor
  · rw [encodeWvDate_basic_none d hv]; simp [show ¬ d.year > 4095 by omega]
  · rw [decodeWvDate_wvPack _ _ _ _ _ _ 0 hy (by omega) (by omega) (by omega) (by omega) (by omega)]
    have := wvDateText_valid d hv 0x5A (by decide)
    unfold wvDateText at this ⊢
    have zt : wvZoneText 0 = wvZoneText 0x5A := by decide
    rw [zt]; exact congrArg _ this

example : isZone 0x41 = true ∧ isZone 0x5A = true ∧ isZone 0x4A = false := by decide

/-! ## Binary content: opaque in WBXML, base64 in XML -/

/-- OTA attribute values, DRMREL `ds:KeyValue`, SyncML `NextNonce` and the text of binary-flagged elements:
    a non-empty opaque is rendered as the RFC 4648 base64 of its bytes. -/
theorem opaque_to_base64_rfc4648 (bs : Bytes) (h : bs ≠ []) : opaqueToBase64 bs = .ok (Rfc4648.encode bs) := by
  simp [opaqueToBase64, h, (Wbxml.Props.C11.b64_encode_eq_rfc4648 bs).2]

/-- XML → WBXML for `WBXML_TAG_OPTION_BINARY` elements: any text that is the base64 of `bs` with white space
    anywhere inside (line-wrapped, indented) becomes the opaque of exactly `bs`. -/
theorem binary_element_roundtrip (bs s : Bytes) (h : bs ≠ [])
    (hs : s.filter (fun c => !isSpace c) = b64Encode bs) :
    binaryElemItem s = .ok (opaqueItem bs) := by
  simp [binaryElemItem, base64ToBytesStrip, hs, Wbxml.Props.C11.b64_decode_encode bs h, Except.map]

/-- In particular for the text the library itself generates (no white space in it): opaque → base64 → opaque
    is the identity on binary elements. -/
theorem binary_element_identity (bs : Bytes) (h : bs ≠ []) :
    (opaqueToBase64 bs).bind binaryElemItem = .ok (opaqueItem bs) := by
  simp only [opaqueToBase64, h, if_false]
  exact binary_element_roundtrip bs _ h (b64Encode_filter bs)

/-- OTA `ICON` values and DRMREL `ds:KeyValue` (XML → WBXML), full strength since the fix of finding
    `b64-whitespace-ota-drmrel`: ANY text that is the base64 of `bs` with white space (space, TAB, LF, VT, FF, CR)
    anywhere inside — line-wrapped, indented, or none at all — becomes the opaque of exactly `bs`
    (`bs = []`: text of white space only gives the empty opaque). -/
theorem base64_strip_roundtrip (bs s : Bytes)
    (hs : s.filter (fun c => !isSpace c) = b64Encode bs) :
    base64ToOpaqueStrip s = opaqueItem bs := by
  by_cases h : bs = []
  · subst h
    have e : b64Encode [] = [] := by decide
    have d : b64Decode [] = none := by decide
    simp [base64ToOpaqueStrip, hs, e, d]
  · simp [base64ToOpaqueStrip, hs, Wbxml.Props.C11.b64_decode_encode bs h]

/-- What the encoder decodes is the text with its white space removed: the bytes it sends are those the
    stripped text denotes (nothing of the text behind a white-space character is lost any more). -/
theorem base64_strip_decodes_stripped_text (bs s : Bytes) (h : bs ≠ [])
    (hs : s.filter (fun c => !isSpace c) = b64Encode bs) :
    b64Decode (s.filter (fun c => !isSpace c)) = some bs := by
  rw [hs]; exact Wbxml.Props.C11.b64_decode_encode bs h

/-- In particular for the text the library itself generates (no white space in it). -/
theorem base64_strip_roundtrip_plain (bs : Bytes) :
    base64ToOpaqueStrip (b64Encode bs) = opaqueItem bs :=
  base64_strip_roundtrip bs _ (b64Encode_filter bs)

/-- The round trip of the property for OTA `ICON` / DRMREL `ds:KeyValue`: opaque → base64 (parser) → opaque
    (encoder) is the identity, and so is it when the base64 text has been re-wrapped in between. -/
theorem base64_strip_identity (bs : Bytes) (h : bs ≠ []) :
    (opaqueToBase64 bs).map base64ToOpaqueStrip = .ok (opaqueItem bs) := by
  simp only [opaqueToBase64, h, if_false]
  exact congrArg Except.ok (base64_strip_roundtrip_plain bs)

/-- Text without white space is treated exactly as before the fix (the text itself is decoded). -/
theorem base64_strip_noSpace_unchanged (s : Bytes) (h : ∀ c ∈ s, isSpace c = false) :
    base64ToOpaqueStrip s = opaqueItem ((b64Decode s).getD []) := by
  simp only [base64ToOpaqueStrip, filter_noSpace_id s h]
  cases b64Decode s <;> rfl

/-- Regression for the former negation witness `ota_drmrel_whitespace_witness` (`QUJD REVG` gave `ABC`):
    the base64 of `ABCDEF` wrapped after four characters — by a space, a CR LF pair or a TAB with indentation —
    now carries the whole data. -/
theorem ota_drmrel_whitespace_regression :
    (b!"QUJD REVG").filter (fun c => !isSpace c) = b64Encode b!"ABCDEF" ∧
    base64ToOpaqueStrip b!"QUJD REVG" = opaqueItem b!"ABCDEF" ∧
    base64ToOpaqueStrip [0x51, 0x55, 0x4A, 0x44, 0x0D, 0x0A, 0x52, 0x45, 0x56, 0x47] = opaqueItem b!"ABCDEF" ∧
    base64ToOpaqueStrip [0x0A, 0x09, 0x51, 0x55, 0x4A, 0x44, 0x0A, 0x09, 0x52, 0x45, 0x56, 0x47, 0x0A] = opaqueItem b!"ABCDEF" := by
  decide

example : ∃ s : Bytes, s ≠ b64Encode b!"ABCDEF" ∧ s.filter (fun c => !isSpace c) = b64Encode b!"ABCDEF" :=
  ⟨b!"QUJD REVG", by decide, by decide⟩

example : (b!"abc" : Bytes) ≠ [] := by decide

end Wbxml.Props.C12
