/-
  C10 — every language is recognised from its own identifiers; forcing always wins.

  Part A: `check_public_id` / the WBXML header (`Model.checkPublicId`, `Model.parseHeader`), for ALL
          documents and ALL main tables.
  Part B: `wbxml_tables_search_table` (`Model.searchTable`) and the root-element callback of the XML
          tree builder, for ALL main tables.
  Part C: the regenerated table `Gen.main`, entry by entry and route by route (kernel evaluation).
-/
import Wbxml.Lemmas.Ident
import Wbxml.Lemmas.ParserBridge
import Wbxml.Lemmas.ParserSafeBuild
import Wbxml.Model.EncWbxml
import Wbxml.Gen.Tables
set_option maxRecDepth 100000
namespace Wbxml.Props.C10
open Wbxml Wbxml.Model Wbxml.Lemmas.Ident Wbxml.Lemmas.ParserSafe

/-! ## Part A — WBXML side -/

/-- Textual public identifier, compared with `strcasecmp`. -/
def textMatch (str : Bytes) (l : Lang) : Bool :=
  match l.pub.xmlId with
  | some x => caseEq x str
  | none => false

/-- What a successful header tells: the selected entry is what `check_public_id` answered on the state
    after the string table, for the identifier fields the header carried. -/
theorem header_selects (cfg : PCfg) (bs : Bytes) (s : PState) (lang : Lang)
    (hok : parseHeader cfg bs = .ok (s, lang)) :
    ∃ pubId pubIdx s0 s1, headerPre cfg bs = .ok (pubId, pubIdx, s0) ∧ parseStrtbl s0 = .ok s1 ∧
      checkPublicId cfg s1 pubId pubIdx = some lang ∧ s = { s1 with lang := some lang } := by
  rw [parseHeader_eq] at hok
  split at hok
  · cases hok
  · cases h1 : headerPre cfg bs with
    | error e => rw [h1] at hok; cases hok
    | ok r =>
      obtain ⟨pubId, pubIdx, s0⟩ := r
      rw [h1] at hok
      simp only [bind, Except.bind] at hok
      cases h2 : parseStrtbl s0 with
      | error e => rw [h2] at hok; cases hok
      | ok s1 =>
        rw [h2] at hok
        simp only at hok
        cases h3 : checkPublicId cfg s1 pubId pubIdx with
        | none => rw [h3] at hok; cases hok
        | some l =>
          rw [h3] at hok
          simp only [pure, Except.pure, Except.ok.injEq, Prod.mk.injEq] at hok
          obtain ⟨hs, hl⟩ := hok
          subst hl
          exact ⟨pubId, pubIdx, s0, s1, rfl, h2, h3, hs.symm⟩

/-- A failed identification is error 64 (`WBXML_ERROR_UNKNOWN_PUBLIC_ID`) once the fields before it
    were read. -/
theorem header_rejects (cfg : PCfg) (bs : Bytes) (pubId : Nat) (pubIdx : Option Nat) (s0 s1 : PState)
    (h1 : headerPre cfg bs = .ok (pubId, pubIdx, s0)) (h2 : parseStrtbl s0 = .ok s1)
    (h3 : checkPublicId cfg s1 pubId pubIdx = none) (hne : bs ≠ []) :
    parseHeader cfg bs = .error (.code 64) := by
  rw [parseHeader_eq]
  have : bs.isEmpty = false := by cases bs with | nil => exact absurd rfl hne | cons _ _ => rfl
  simp only [this, Bool.false_eq_true, ↓reduceIte, h1, bind, Except.bind, h2, h3]
  rfl

/-- **Forcing wins** (`check_public_id`): with a forced language the document's identifier fields
    and its string table are not consulted at all. -/
theorem forced_selects (cfg : PCfg) (hf : cfg.langForced ≠ 0) (s : PState) (pubId : Nat) (pubIdx : Option Nat) :
    checkPublicId cfg s pubId pubIdx = cfg.main.find? (fun l => l.id == cfg.langForced) := by
  have h1 : (cfg.langForced == 0) = false := by simpa using hf
  have h2 : (cfg.langForced != 0) = true := by simpa using hf
  simp only [checkPublicId, h1, h2, Bool.false_and, Bool.false_eq_true, if_false, if_true]

/-- **Forcing wins**: when the caller forces language `l` (`l` being the first entry of the main
    table with that id), every header that is accepted selects exactly `l` — whatever public
    identifier, string-table index or string table the document carries. -/
theorem forced_wins (cfg : PCfg) (l : Lang) (bs : Bytes) (s : PState) (lang : Lang)
    (hf : cfg.langForced = l.id) (h0 : l.id ≠ 0)
    (hfirst : cfg.main.find? (fun x => x.id == l.id) = some l)
    (hok : parseHeader cfg bs = .ok (s, lang)) : lang = l ∧ s.lang = some l := by
  obtain ⟨pubId, pubIdx, s0, s1, _, _, h3, hs⟩ := header_selects cfg bs s lang hok
  rw [forced_selects cfg (by rw [hf]; exact h0), hf, hfirst] at h3
  cases h3
  exact ⟨rfl, by rw [hs]⟩

/-- … and the start-document event of the whole parse reports the forced language: a run delivers no
    event at all (header refused), or its first event is `startDoc _ l.id`. -/
theorem forced_wins_parse (cfg : PCfg) (l : Lang) (bs : Bytes)
    (hf : cfg.langForced = l.id) (h0 : l.id ≠ 0)
    (hfirst : cfg.main.find? (fun x => x.id == l.id) = some l) :
    (parse cfg bs).events = [] ∨ ∃ cs rest, (parse cfg bs).events = .startDoc cs l.id :: rest := by
  rcases parse_anatomy cfg bs with ⟨c, _, _, h', _⟩ | ⟨s, l', c, hh, _, _, h', _⟩ | ⟨s, l', ev, s', hh, hb, _, hev, _⟩
  · exact Or.inl h'
  · have := (forced_wins cfg l bs s l' hf h0 hfirst hh).1
    subst this
    exact Or.inr ⟨s.charset, [], h'⟩
  · have := (forced_wins cfg l bs s l' hf h0 hfirst hh).1
    subst this
    unfold parseBody at hb
    obtain ⟨⟨ev1, s1⟩, h1, hb⟩ := bind_eq_ok2 hb
    obtain ⟨⟨ev2, s2⟩, h2, h3⟩ := bind_eq_ok2 hb
    dsimp only at h2 h3
    obtain ⟨pis1, e1, _⟩ := piLoop_events _ _ _ _ h1
    obtain ⟨n, attrs, body, e2, _⟩ := (elem_content_events _).1 _ _ _ h2
    obtain ⟨pis2, e3, _⟩ := piLoop_events _ _ _ _ h3
    dsimp only at e1 e2 e3
    right
    rw [hev, e3, e2, e1]
    simp only [List.cons_append, List.nil_append, List.append_assoc]
    exact ⟨_, _, rfl⟩

/-- **No identifier, no forced language ⇒ no language** (`check_public_id`): public id 0x01
    ("unknown") and no string-table index. -/
theorem no_id_no_force_none (cfg : PCfg) (hf : cfg.langForced = 0) (s : PState) :
    checkPublicId cfg s 1 none = none := by
  simp [checkPublicId, hf]

/-- … as a verdict of the header: error 64, never a guessed language. `headerPre` yields
    `(1, none, _)` exactly for a document whose public-id field is the single byte `01`, or
    `00` followed by the index `0xFFFFFFFF` (the library's "no index"). -/
theorem no_id_no_force_rejected (cfg : PCfg) (hf : cfg.langForced = 0) (bs : Bytes) (s0 : PState)
    (h1 : headerPre cfg bs = .ok (1, none, s0)) :
    (∀ r, parseHeader cfg bs ≠ .ok r) ∧
    (∀ s1, parseStrtbl s0 = .ok s1 → parseHeader cfg bs = .error (.code 64)) := by
  have hne : bs ≠ [] := by
    intro h; subst h; simp [headerPre, parseU8, bind, Except.bind] at h1
  constructor
  · intro r hr
    obtain ⟨s, lang⟩ := r
    obtain ⟨pubId, pubIdx, s0', s1, h1', _, h3, _⟩ := header_selects cfg bs s lang hr
    rw [h1] at h1'
    simp only [Except.ok.injEq, Prod.mk.injEq] at h1'
    obtain ⟨rfl, rfl, rfl⟩ := h1'
    rw [no_id_no_force_none cfg hf] at h3
    cases h3
  · intro s1 h2
    exact header_rejects cfg bs 1 none s0 s1 h1 h2 (no_id_no_force_none cfg hf s1) hne

/-- **Numeric identifier**: the first entry of the main table with that WBXML public id. -/
theorem numeric_id_selects_first (cfg : PCfg) (hf : cfg.langForced = 0) (s : PState) (pubId : Nat)
    (hp : pubId ≠ 1) (pubIdx : Option Nat) :
    checkPublicId cfg s pubId pubIdx = cfg.main.find? (fun l => l.pub.wbxmlId == pubId) := by
  have h1 : (pubId == 1) = false := by simpa using hp
  simp [checkPublicId, hf, h1, hp]

/-- … through the header: an accepted document carrying the numeric id `pubId ≠ 1` is decoded
    with the first entry registered for `pubId`. -/
theorem numeric_id_header (cfg : PCfg) (hf : cfg.langForced = 0) (bs : Bytes) (s : PState) (lang : Lang)
    (hok : parseHeader cfg bs = .ok (s, lang)) (pubId : Nat) (pubIdx : Option Nat) (s0 : PState)
    (h1 : headerPre cfg bs = .ok (pubId, pubIdx, s0)) (hp : pubId ≠ 1) :
    cfg.main.find? (fun l => l.pub.wbxmlId == pubId) = some lang := by
  obtain ⟨pubId', pubIdx', s0', s1, h1', _, h3, _⟩ := header_selects cfg bs s lang hok
  rw [h1] at h1'
  simp only [Except.ok.injEq, Prod.mk.injEq] at h1'
  obtain ⟨rfl, rfl, rfl⟩ := h1'
  rw [numeric_id_selects_first cfg hf s1 pubId hp] at h3
  exact h3

/-- **Textual identifier**: the string found at the index is compared case-insensitively with each
    entry's XML public id, first match wins. -/
theorem textual_id_selects_first (cfg : PCfg) (hf : cfg.langForced = 0) (s : PState) (i : Nat) (str : Bytes)
    (hs : strtblRef s i = .ok str) :
    checkPublicId cfg s 1 (some i) = cfg.main.find? (textMatch str) := by
  simp only [checkPublicId, hf, hs]
  rfl

/-- **Textual identifier at any offset, any letter case**: a string table that holds, at offset
    `pre.length`, a NUL-terminated spelling `x'` of an identifier selects the first entry whose XML
    public id equals `x'` up to ASCII case (US-ASCII / UTF-8 documents). -/
theorem textual_id_selects_first_caseless (cfg : PCfg) (hf : cfg.langForced = 0) (s : PState)
    (pre x' post : Bytes) (hx : ∀ b ∈ x', b ≠ 0) (hcs : s.charset = 3 ∨ s.charset = 106)
    (htbl : s.strtbl = some (pre ++ x' ++ 0 :: post)) :
    checkPublicId cfg s 1 (some pre.length) = cfg.main.find? (textMatch x') := by
  apply textual_id_selects_first cfg hf
  have hlen : ¬ (pre.length ≥ (pre ++ x' ++ 0 :: post).length) := by
    simp only [List.length_append, List.length_cons]; omega
  have hdrop : (pre ++ x' ++ 0 :: post).drop pre.length = x' ++ 0 :: post := by
    rw [List.append_assoc, List.drop_left]
  have hm : (0 : UInt8) ∈ x' ++ 0 :: post := by simp
  have htw : (x' ++ 0 :: post).takeWhile (· != 0) = x' := by
    have : ∀ (l : Bytes), (∀ b ∈ l, b ≠ 0) → (l ++ 0 :: post).takeWhile (· != 0) = l := by
      intro l
      induction l with
      | nil => intro _; simp
      | cons b t ih =>
        intro h
        have hb : b ≠ 0 := h b (by simp)
        simp only [List.cons_append, List.takeWhile_cons, bne_iff_ne, ne_eq, hb, not_false_eq_true, ↓reduceIte]
        rw [ih (fun c hc => h c (by simp [hc]))]
    exact this x' hx
  simp only [strtblRef, htbl, hlen, ↓reduceIte, hdrop,
    Wbxml.Lemmas.ParseSer.convTerm_of_mem s.charset hcs _ hm, htw, bind, Except.bind]
  rfl

/-- **Unknown identifiers are rejected**: a numeric id no entry carries, a textual id no entry
    matches, or a string-table index that does not yield a string. -/
theorem unknown_id_none (cfg : PCfg) (hf : cfg.langForced = 0) (s : PState) :
    (∀ pubId pubIdx, pubId ≠ 1 → (∀ l ∈ cfg.main, l.pub.wbxmlId ≠ pubId) →
        checkPublicId cfg s pubId pubIdx = none) ∧
    (∀ i str, strtblRef s i = .ok str → (∀ l ∈ cfg.main, textMatch str l = false) →
        checkPublicId cfg s 1 (some i) = none) ∧
    (∀ i e, strtblRef s i = .error e → checkPublicId cfg s 1 (some i) = none) := by
  refine ⟨?_, ?_, ?_⟩
  · intro pubId pubIdx hp hall
    rw [numeric_id_selects_first cfg hf s pubId hp]
    exact List.find?_eq_none.mpr (fun l hl => by simpa using hall l hl)
  · intro i str hs hall
    rw [textual_id_selects_first cfg hf s i str hs]
    exact List.find?_eq_none.mpr (fun l hl => by simp [hall l hl])
  · intro i e he
    simp [checkPublicId, hf, he]

/-- … as the header's verdict: error 64. -/
theorem unknown_id_rejected (cfg : PCfg) (bs : Bytes) (pubId : Nat) (pubIdx : Option Nat) (s0 s1 : PState)
    (h1 : headerPre cfg bs = .ok (pubId, pubIdx, s0)) (h2 : parseStrtbl s0 = .ok s1)
    (h3 : checkPublicId cfg s1 pubId pubIdx = none) :
    parseHeader cfg bs = .error (.code 64) := by
  have hne : bs ≠ [] := by
    intro h; subst h; simp [headerPre, parseU8, bind, Except.bind] at h1
  exact header_rejects cfg bs pubId pubIdx s0 s1 h1 h2 h3 hne

/-! ## Part B — XML side -/

/-- **Search order** of `wbxml_tables_search_table`: the DOCTYPE public id (case-insensitive), else the
    system id (exact), else the root element — by namespace (the FIRST namespace row of each
    language, as a case-insensitive prefix of the root name) when the root name contains the
    separator `|`, by root name (exact) otherwise. In each stage the first entry of `main` wins. -/
theorem search_order (main : List Lang) (pubid sysid root : Option Bytes) :
    searchTable main pubid sysid root =
      ((byPub main pubid).or (bySys main sysid)).or (byRoot main root) := searchTable_eq main pubid sysid root

/-- The four routes one by one. -/
theorem search_pub (main : List Lang) (p : Bytes) (sysid root : Option Bytes) (l : Lang)
    (h : main.find? (pubMatch p) = some l) : searchTable main (some p) sysid root = some l := by
  simp [search_order, byPub, h]

theorem search_sys (main : List Lang) (pubid : Option Bytes) (s : Bytes) (root : Option Bytes) (l : Lang)
    (hp : byPub main pubid = none) (h : main.find? (fun l => l.pub.dtd == some s) = some l) :
    searchTable main pubid (some s) root = some l := by
  simp [search_order, hp, bySys, h]

theorem search_root_ns (main : List Lang) (pubid sysid : Option Bytes) (r : Bytes)
    (hp : byPub main pubid = none) (hs : bySys main sysid = none) (hr : r.contains 124 = true) :
    searchTable main pubid sysid (some r) = main.find? (nsMatch r) := by
  have : (124 : UInt8) ∈ r := by simpa using hr
  simp [search_order, hp, hs, byRoot, this]

theorem search_root_name (main : List Lang) (pubid sysid : Option Bytes) (r : Bytes)
    (hp : byPub main pubid = none) (hs : bySys main sysid = none) (hr : r.contains 124 = false) :
    searchTable main pubid sysid (some r) = main.find? (fun l => l.pub.root == some r) := by
  have : ¬ (124 : UInt8) ∈ r := by simpa using hr
  simp [search_order, hp, hs, byRoot, this]

/-- Whatever `searchTable` answers is an entry of the table. -/
theorem search_mem (main : List Lang) (pubid sysid root : Option Bytes) (l : Lang)
    (h : searchTable main pubid sysid root = some l) : l ∈ main :=
  searchTable_mem main pubid sysid root l h

/-- **No match ⇒ no language.** -/
theorem search_none (main : List Lang) (pubid sysid root : Option Bytes)
    (hp : byPub main pubid = none) (hs : bySys main sysid = none) (hr : byRoot main root = none) :
    searchTable main pubid sysid root = none := by
  simp [search_order, hp, hs, hr]

/-- … and the tree builder then fails at the root element with error 101
    (`WBXML_ERROR_UNKNOWN_XML_LANGUAGE`): no DOCTYPE match earlier (`lang = none`), root name
    unknown. -/
theorem root_unknown_sets_101 (main : List Lang) (input : Bytes) (sub : Bytes → Option (Except Nat Tree))
    (b : XBState) (name : Bytes) (attrs : List (Bytes × Bytes)) (idx : Nat)
    (hneed : b.need = none) (herr : b.error = none) (hskip : b.skipLvl = 0)
    (hstack : b.stack = []) (hroot : b.root = none) (hlang : b.lang = none)
    (hsearch : searchTable main none none (some name) = none) :
    (xbuildStep main input sub b (.startElt name attrs idx)).error = some 101 := by
  simp [xbuildStep, hneed, herr, hskip, hstack, hroot, hlang, hsearch]

/-- A DOCTYPE the table does not know leaves the language open (the root element decides). -/
theorem doctype_unknown_keeps_state (main : List Lang) (input : Bytes) (sub : Bytes → Option (Except Nat Tree))
    (b : XBState) (sysid pubid : Option Bytes)
    (hsearch : searchTable main pubid sysid none = none) :
    xbuildStep main input sub b (.doctype sysid pubid) = b := by
  unfold xbuildStep
  split
  · rfl
  · simp [hsearch]

/-! ## Part C — the regenerated table `Gen.main`, entry by entry, route by route

Each statement is a closed Boolean evaluated by the kernel over the table the translator produced
from `src/wbxml_tables.c` of the tree under test. Entries are compared by their language id, which
identifies the entry (`gen_ids_distinct`). For every route two facts are checked: the route selects
the FIRST registered entry carrying the identifier (computed end to end through the model of the C
function, not through the general theorem), and the set of entries that are *not* reachable by the
route — because an earlier entry carries the same identifier — is exactly the listed one. A new or
moved row that captures another language's identifier changes that list. -/

open Wbxml.Model.Codec (mbEncode)

def cfgGen : PCfg := { main := Gen.main }

/-- Language id the header model selects for a document prefix. -/
def hdrId (bs : Bytes) : Option Nat :=
  match parseHeader cfgGen bs with
  | .ok (_, l) => some l.id
  | .error _ => none

def firstId (p : Lang → Bool) : Option Nat := (Gen.main.find? p).map (·.id)

def distinct : List Nat → Bool
  | [] => true
  | a :: r => !r.contains a && distinct r

def upperByte (b : UInt8) : UInt8 := if 97 ≤ b.toNat ∧ b.toNat ≤ 122 then b - 32 else b

/-- WBXML 1.3 header with a numeric public id, UTF-8, empty string table. -/
def numericDoc (id : Nat) : Bytes := [3] ++ mbEncode id ++ [0x6A, 0x00]

/-- WBXML 1.3 header with public id "index `pre.length` of the string table", the table being
    `pre ++ x ++ NUL`. -/
def textualDoc (pre x : Bytes) : Bytes :=
  [3, 0] ++ mbEncode pre.length ++ [0x6A] ++ mbEncode (pre.length + x.length + 1) ++ pre ++ x ++ [0]

theorem gen_ids_distinct : distinct (Gen.main.map (·.id)) = true ∧ Gen.main.all (fun l => l.id != 0) = true := by
  decide +kernel

/-- Numeric route: every entry that has a numeric public id (≠ 0x01) is selected — itself — by a
    document carrying that id; no two entries share a numeric id. -/
theorem gen_numeric_route :
    Gen.main.all (fun l => l.pub.wbxmlId == 1 ||
      (hdrId (numericDoc l.pub.wbxmlId) == some l.id &&
       firstId (fun x => x.pub.wbxmlId == l.pub.wbxmlId) == some l.id)) = true := by decide +kernel

/-- Textual route: every entry that has an XML public id is selected — itself — by a document
    whose string table holds that id at offset 0 or behind another string, as registered, in
    upper case or in lower case. The one entry without XML public id is OTA settings (1901). -/
theorem gen_textual_route :
    Gen.main.all (fun l => match l.pub.xmlId with
      | none => l.id == 1901
      | some x =>
        hdrId (textualDoc [] x) == some l.id &&
        hdrId (textualDoc [97, 98, 0] x) == some l.id &&
        hdrId (textualDoc [] (x.map upperByte)) == some l.id &&
        hdrId (textualDoc [120, 0] (x.map lowerByte)) == some l.id &&
        firstId (textMatch x) == some l.id) = true := by decide +kernel

/-- DOCTYPE route: the public id of every entry (as registered / upper case) selects that entry,
    even when system id and root element are those of other languages. -/
theorem gen_doctype_route :
    Gen.main.all (fun l => match l.pub.xmlId with
      | none => l.id == 1901
      | some x =>
        (searchTable Gen.main (some x) none none).map (·.id) == some l.id &&
        (searchTable Gen.main (some (x.map upperByte)) (some b!"wtai.dtd") (some b!"SyncML")).map (·.id) == some l.id) = true := by
  decide +kernel

/-- System-id route (no or unknown public id): the first entry registered with that DTD. -/
theorem gen_system_route :
    Gen.main.all (fun l => match l.pub.dtd with
      | none => false
      | some d =>
        (searchTable Gen.main none (some d) none).map (·.id) == firstId (fun x => x.pub.dtd == some d) &&
        (searchTable Gen.main (some b!"-//NOBODY//DTD X//EN") (some d) (some b!"wml")).map (·.id) ==
          firstId (fun x => x.pub.dtd == some d)) = true := by decide +kernel

/-- Entries not reachable by their system id: ActiveSync shares AirSync's. -/
theorem gen_system_shadowed :
    Gen.main.filterMap (fun l => match l.pub.dtd with
      | some d => if firstId (fun x => x.pub.dtd == some d) == some l.id then none else some l.id
      | none => some l.id) = [2402] := by decide +kernel

/-- Root-element route (no DOCTYPE): no registered root name contains the namespace separator, and
    the root name selects the first entry registered with it. -/
theorem gen_root_route :
    Gen.main.all (fun l => match l.pub.root with
      | none => false
      | some r =>
        !r.contains 124 &&
        (searchTable Gen.main none none (some r)).map (·.id) == firstId (fun x => x.pub.root == some r)) = true := by
  decide +kernel

/-- Entries not reachable by their root element alone (versions of one vocabulary share it: the
    oldest WML / CHANNEL, the newest SyncML family, WV-CSP 1.1 are found). -/
theorem gen_root_shadowed :
    Gen.main.filterMap (fun l => match l.pub.root with
      | some r => if firstId (fun x => x.pub.root == some r) == some l.id then none else some l.id
      | none => some l.id) = [1102, 1103, 1104, 1204, 2101, 2102, 2103, 2001, 2002, 2302] := by decide +kernel

/-- Namespaced-root route: `<first namespace of the entry>|<root>` selects the first entry whose
    first namespace row is a (case-insensitive) prefix of it. -/
theorem gen_ns_route :
    Gen.main.all (fun l => match l.ns, l.pub.root with
      | some (n :: _), some r =>
        (searchTable Gen.main none none (some (n.ns ++ [124] ++ r))).map (·.id) ==
          firstId (nsMatch (n.ns ++ [124] ++ r))
      | some [], _ => false
      | _, _ => true) = true := by decide +kernel

/-- Entries with a namespace table that are not reachable by their namespaced root: DevInf 1.1 and
    1.0 share `syncml:devinf` with DevInf 1.2, which is registered first. -/
theorem gen_ns_shadowed :
    Gen.main.filterMap (fun l => match l.ns, l.pub.root with
      | some (n :: _), some r =>
        if firstId (nsMatch (n.ns ++ [124] ++ r)) == some l.id then none else some l.id
      | _, _ => none) = [2102, 2002] := by decide +kernel

/-- The XML tree builder's root callback on a fresh context takes the same decision. -/
theorem gen_root_callback :
    Gen.main.all (fun l => match l.pub.root with
      | none => false
      | some r =>
        ((xbuildStep Gen.main [] (fun _ => none) {} (.startElt r [] 0)).lang.map (·.id)) ==
          firstId (fun x => x.pub.root == some r)) = true := by decide +kernel

/-- **The encoder's header is recognised back.** For every entry that has an identifier (all but
    OTA settings), every WBXML version, with and without string table, numeric or textual public
    id, on an empty and (when the table is enabled) on a pre-filled string table: the header `fillHeaderW` writes (non-anonymous)
    makes `check_public_id` select that very entry. -/
theorem encoder_header_recognised :
    Gen.main.all (fun l => (l.pub.wbxmlId == 1 && l.pub.xmlId.isNone) ||
      [0, 1, 2, 3].all (fun ver => [true, false].all (fun tbl => [true, false].all (fun txt =>
        (if tbl then [({} : WSt), { strtbl := [{ str := b!"abcd", offset := 0 }], strtblLen := 5 }] else [{}]).all (fun st =>
          hdrId (fillHeaderW { lang := l, version := ver, useStrtbl := tbl, textualPublicId := txt } st).1
            == some l.id))))) = true := by decide +kernel

/-- The entry without any identifier: OTA settings; its header says "unknown" and is rejected
    unless the language is forced. -/
theorem ota_header_needs_forcing :
    (Gen.main.filter (fun l => l.pub.wbxmlId == 1 && l.pub.xmlId.isNone)).map (·.id) = [1901] ∧
    Gen.main.all (fun l => !(l.id == 1901) ||
      ((match parseHeader cfgGen (fillHeaderW { lang := l } {}).1 with
        | .error (.code c) => c == 64
        | _ => false) &&
       (match parseHeader { cfgGen with langForced := 1901 } (fillHeaderW { lang := l } {}).1 with
        | .ok (_, l') => l'.id == 1901
        | .error _ => false))) = true := by decide +kernel

/-! ### Non-vacuity -/

example : Gen.main.length = 29 := by decide
example : hdrId (numericDoc 4609) = some 2201 := by decide +kernel
example : hdrId (textualDoc [] b!"-//airsync//dtd airsync//en") = some 2401 := by decide +kernel
example : hdrId (numericDoc 1) = none := by decide +kernel
example : hdrId (numericDoc 77) = none := by decide +kernel
/-- forcing: a SyncML 1.2 header decoded as WML 1.3 when the caller says so. -/
example : (match parseHeader { cfgGen with langForced := 1104 } (numericDoc 4609) with
    | .ok (_, l) => some l.id | .error _ => none) = some 1104 := by decide +kernel
example : (searchTable Gen.main none none (some b!"syncml:devinf|DevInf")).map (·.id) = some 2202 := by decide +kernel
example : searchTable Gen.main (some b!"x") (some b!"y") (some b!"z") = none := by decide +kernel

end Wbxml.Props.C10
