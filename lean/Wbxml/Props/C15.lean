/-
  C15 — converter, parser and encoder objects carry nothing from one run to the next.

  Two layers.
  (1) Obligations over the REGENERATED `Gen.Fields` (what the compiler saw of the structs and of
      every function of wbxml_parser.c / wbxml_encoder.c / wbxml_conv.c in the tree under test),
      closed by `decide` over the complete finite field/function tables.
  (2) The life-cycle machine of `Model/Objects.lean`, instantiated with those facts, for an
      ARBITRARY per-document function (`body`): history freedom and persistence of settings for all
      finite histories, by the inductions of `Lemmas/Objects.lean`.

  Known finding (known_findings.json, `encoder-reset-keeps-tree-derived-settings`): the encoder's
  `lang`, `use_strtbl`, `output_charset` are written by their setters AND derived from the tree by
  `encoder_encode_tree`, and `wbxml_encoder_reset` cannot restore the user's values.  The
  full-strength encoder clauses are therefore refuted by concrete witnesses
  (`encoder_reset_incomplete`, `encoder_plain_history_not_free`) and the provable parts carry the
  `_partial` suffix.
-/
import Wbxml.Lemmas.Objects
namespace Wbxml.Props.C15
open Wbxml.Gen.Fields Wbxml.Model.Objects

/-! ## Parser (`struct WBXMLParser_s`, `wbxml_parser_create`, `wbxml_parser_reinit`) -/

/-- The settings — fields whose every writer other than create is a setter — are exactly these. -/
theorem parser_settings_exact :
    settings parser = ["user_data", "content_hdl", "mainTable", "lang_forced", "meta_charset"] := by decide +kernel

/-- Every other field is per-document state (written by some non-setter function). -/
theorem parser_derived_exact :
    derived parser = ["wbxml", "strstbl", "langTable", "current_tag", "public_id", "public_id_index",
                      "charset", "pos", "version", "tagCodePage", "attrCodePage"] := by decide +kernel

/-- Every derived field is assigned by `wbxml_parser_reinit`, unconditionally, the value
    `wbxml_parser_create` gives it. -/
theorem parser_reinit_complete : ∀ f ∈ derived parser, restores parser f = true := by decide +kernel

/-- `wbxml_parser_reinit` stores to no setting. -/
theorem parser_reinit_keeps_settings : reinitKeepsSettings parser = true := by decide +kernel

/-- `wbxml_parser_create` initialises every field of the malloc'ed object. -/
theorem parser_create_complete : ∀ f ∈ fieldNames parser, (initValue parser f).isSome = true := by decide +kernel

/-- Heap objects owned by the parser are destroyed by reinit before their field is overwritten. -/
theorem parser_reinit_frees_owned : reinitFreesOwned parser = true := by decide +kernel

/-- No function of wbxml_parser.c other than a setter calls a setter on an existing parser. -/
theorem parser_no_hidden_setter_calls : setterCallsFromNonSetters parser = [] := by decide +kernel

/-! ## Encoder (`struct WBXMLEncoder_s`, `wbxml_encoder_create_real`, `wbxml_encoder_reset`) -/

theorem encoder_settings_exact :
    settings encoder = ["ignore_empty_text", "remove_text_blanks", "output_type", "xml_gen_type", "indent_delta",
                        "xml_encode_header", "produce_anonymous", "wbxml_version", "flow_mode",
                        "textual_publicid"] := by decide +kernel

/-- The derived fields that `wbxml_encoder_reset` does not give their creation value: exactly the
    three tree-derived settings of the known finding. -/
theorem encoder_sticky_exact : stickyList encoder = ["lang", "use_strtbl", "output_charset"] := by decide +kernel

/-- Provable part of `encoder_reset_complete`: every derived field other than those three
    (`tree`, `output`, `output_header`, `current_*`, both code pages, `indent`, `in_content`,
    `in_cdata`, `cdata`, `strstbl`, `strstbl_len`, `pre_last_node_len`) is assigned by
    `wbxml_encoder_reset`, unconditionally, the value `wbxml_encoder_create_real` gives it. -/
theorem encoder_reset_complete_partial :
    ∀ f ∈ derived encoder, f ∉ ["lang", "use_strtbl", "output_charset"] → restores encoder f = true := by decide +kernel

/-- Negation of the full-strength clause, with the witness field: `lang` is stored by
    `encoder_encode_tree` (not a setter) and `wbxml_encoder_reset` does not assign it. -/
theorem encoder_reset_incomplete :
    ¬ (∀ f ∈ derived encoder, restores encoder f = true) ∧
    "lang" ∈ derived encoder ∧ "encoder_encode_tree" ∈ writers encoder "lang" ∧ reinitValue encoder "lang" = none := by
  decide +kernel

/-- The string-table list is recreated by reset exactly as create creates it (the defect fixed by
    this component: it used to be left NULL, so every later WBXML encoding failed). -/
theorem encoder_reset_recreates_strtbl :
    reinitValue encoder "strstbl" = initValue encoder "strstbl" ∧ (initValue encoder "strstbl").isSome = true := by
  decide +kernel

/-- Each of the three sticky fields has a setter, so the user can re-apply them after reset. -/
theorem encoder_sticky_have_setters : ∀ f ∈ stickyList encoder, hasSetter encoder f = true := by decide +kernel

theorem encoder_reset_keeps_settings : reinitKeepsSettings encoder = true := by decide +kernel

theorem encoder_create_complete : ∀ f ∈ fieldNames encoder, (initValue encoder f).isSome = true := by decide +kernel

theorem encoder_reset_frees_owned : reinitFreesOwned encoder = true := by decide +kernel

/-- The only non-setter functions that call a setter on an existing encoder are the two entry points,
    which select the output type named in their own name. -/
theorem encoder_hidden_setter_calls_exact :
    setterCallsFromNonSetters encoder =
      [("wbxml_encoder_encode_tree_to_wbxml", "wbxml_encoder_set_output_type"),
       ("wbxml_encoder_encode_tree_to_xml", "wbxml_encoder_set_output_type")] := by decide +kernel


/-! ## Encoder run kinds: what each public entry point may leave changed

  A run is what happens between two resets.  Besides `set_tree` + `encode_tree_to_wbxml/_to_xml`
  (`encTreeRunW/X`) the public API offers flow-style runs (`wbxml_encoder_encode_tree(encoder, tree)`
  then `wbxml_encoder_get_output`: `encFlowRun`) and node-wise runs (`encode_node`,
  `encode_node_with_elt_end`, `encode_raw_elt_start/_end`, `delete_last_node`, `delete_output_bytes`,
  `get_output`: `encNodeRun`).  The facts below are about EVERY path through these functions — a run
  that fails in the middle of a tree included. -/

/-- `wbxml_encoder_encode_tree` installs the tree's language for the duration of the call and puts the
    saved entry value of `lang` back on EVERY path (also when the root node could not be encoded). -/
theorem encoder_encode_tree_restores_lang :
    ownWrites encoder "wbxml_encoder_encode_tree" "lang" = true ∧
    restoresSaved encoder "wbxml_encoder_encode_tree" "lang" = true := by decide +kernel

/-- A flow-style run — successful or not — leaves every setting and each of `lang`, `use_strtbl`,
    `output_charset` as it found it. -/
theorem encoder_flow_run_keeps_user_fields :
    ∀ f ∈ settings encoder ++ stickyList encoder, keepsNet encoder encFlowRun f = true := by
  rw [← keepsAll_iff, encoder_settings_exact, encoder_sticky_exact]
  decide +kernel

/-- So does a node-wise run, whatever mixture of the flow API it is made of. -/
theorem encoder_node_run_keeps_user_fields :
    ∀ f ∈ settings encoder ++ stickyList encoder, keepsNet encoder encNodeRun f = true := by
  rw [← keepsAll_iff, encoder_settings_exact, encoder_sticky_exact]
  decide +kernel

/-- What a tree run (`set_tree` + `encode_tree_to_wbxml/_to_xml`) may leave changed among the user's
    fields: exactly the three sticky fields and, of the settings, only the output type named in the
    entry point. -/
theorem encoder_tree_run_writes_exact :
    (settings encoder ++ stickyList encoder).filter (fun f => !keepsNet encoder encTreeRunW f)
      = ["output_type", "lang", "use_strtbl", "output_charset"] ∧
    (settings encoder ++ stickyList encoder).filter (fun f => !keepsNet encoder encTreeRunX f)
      = ["output_type", "lang", "use_strtbl", "output_charset"] := by
  rw [encoder_settings_exact, encoder_sticky_exact]
  decide +kernel

/-- The known finding, localised: the ONLY run kind after which the user has to call the setters of
    `lang`, `use_strtbl`, `output_charset` again is `set_tree` + `encode_tree_to_wbxml/_to_xml`
    (through `encoder_encode_tree`). -/
theorem encoder_reapply_exact :
    reapplyAfter encoder encFlowRun = false ∧ reapplyAfter encoder encNodeRun = false ∧
    reapplyAfter encoder encTreeRunW = true ∧ reapplyAfter encoder encTreeRunX = true := by
  simp only [reapplyAfter_eq, encoder_sticky_exact]
  decide +kernel

/-- `wbxml_encoder_reset` does not store to `lang`, `use_strtbl`, `output_charset` at all. -/
theorem encoder_reset_leaves_sticky : reinitLeavesSticky encoder = true := by
  simp only [reinitLeavesSticky, encoder_sticky_exact]
  decide +kernel

/-! ## Converter objects -/

/-- No converter field has a writer other than create and setters: converters hold options only. -/
theorem conv_holds_options_only : derived convW2X = [] ∧ derived convX2W = [] := by decide +kernel

theorem conv_settings_exact :
    settings convW2X = ["gen_type", "lang", "charset", "indent", "keep_ignorable_ws"] ∧
    settings convX2W = ["wbxml_version", "keep_ignorable_ws", "use_strtbl", "produce_anonymous"] := by decide +kernel

theorem conv_create_complete :
    (∀ f ∈ fieldNames convW2X, (initValue convW2X f).isSome = true) ∧
    (∀ f ∈ fieldNames convX2W, (initValue convX2W f).isSome = true) := by decide +kernel

/-- `_run` and every other function of wbxml_conv.c call setters only on converters they created. -/
theorem conv_no_hidden_setter_calls :
    setterCallsFromNonSetters convW2X = [] ∧ setterCallsFromNonSetters convX2W = [] := by decide +kernel

/-! ## The life cycle, for an arbitrary per-document function -/

section
variable {D R : Type}

theorem parser_machine_sound (body : (String → String) → D → (String → String) × R) :
    (machineOf parser body).Sound := machineOf_sound parser body parser_reinit_keeps_settings

theorem parser_no_sticky : ∀ f, isSticky parser f = false := not_sticky_of_nil parser (by decide +kernel)

/-- **History freedom for the parser.**  For EVERY per-document function `body` (it may read and
    write every field; its stores to settings are discarded because no non-setter function of
    wbxml_parser.c stores to a setting), every finite history `ops` of setter calls and documents,
    and every initial choice of settings `s`: the results obtained on ONE parser object are, document
    by document, the results obtained on a fresh parser carrying the settings current at that point. -/
theorem parser_history_free (body : (String → String) → D → (String → String) × R)
    (ops : List (Machine.POp String String D)) (s : String → String) :
    ((machineOf parser body).pexec ((machineOf parser body).created s) ops).2
      = (machineOf parser body).pfresh s ops :=
  (machineOf parser body).pexec_history_free (parser_machine_sound body) parser_no_sticky ops _ s
    (fun f hf => (machineOf parser body).created_setting s f hf)

/-- **Settings persist**: after any history, each setting holds what the user set last. -/
theorem parser_settings_persist (body : (String → String) → D → (String → String) × R)
    (ops : List (Machine.POp String String D)) (s : String → String) (f : String)
    (hf : isSetting parser f = true) :
    ((machineOf parser body).pexec ((machineOf parser body).created s) ops).1 f
      = (machineOf parser body).userAfter s ops f :=
  (machineOf parser body).settings_persist (parser_machine_sound body) ops _ s
    (fun g hg => (machineOf parser body).created_setting s g hg) f hf

/-! ### Non-vacuity (parser machine) -/

/-- The hypotheses are satisfiable and the machine is not trivial: on the parser machine a body that
    reports the code page it sees and then switches it yields page 0 for every document. -/
example :
    ((machineOf parser (fun m (_ : Unit) => (upd m "tagCodePage" "1", m "tagCodePage"))).pexec
        ((machineOf parser (fun m (_ : Unit) => (upd m "tagCodePage" "1", m "tagCodePage"))).created (initOf parser))
        [.doc (), .doc (), .doc ()]).2 = ["0", "0", "0"] := by decide +kernel

/-- … and the same body WITHOUT re-initialisation would report the leftover page: the theorem is about
    reinit, not about the body. -/
example :
    let M := machineOf parser (fun m (_ : Unit) => (upd m "tagCodePage" "1", m "tagCodePage"))
    (M.run (M.run (M.created (initOf parser)) ()).1 ()).2 = "1" := by decide +kernel

/-- A body that tries to overwrite a setting does not succeed (settings persist). -/
example :
    let M := machineOf parser (fun m (_ : Unit) => (upd m "lang_forced" "9", m "lang_forced"))
    (M.pexec (M.created (initOf parser)) [.set "lang_forced" "7", .doc (), .doc ()]).2 = ["7", "7"] := by decide +kernel

theorem convW2X_machine_sound (body : (String → String) → D → (String → String) × R) :
    (machineOf convW2X body).Sound := machineOf_sound convW2X body (by decide +kernel)

theorem convX2W_machine_sound (body : (String → String) → D → (String → String) × R) :
    (machineOf convX2W body).Sound := machineOf_sound convX2W body (by decide +kernel)

/-- **History freedom for the converter objects** (no re-initialisation function exists and none is
    needed: `reinit` is the identity and no field is derived). -/
theorem convW2X_history_free (body : (String → String) → D → (String → String) × R)
    (ops : List (Machine.POp String String D)) (s : String → String) :
    ((machineOf convW2X body).pexec ((machineOf convW2X body).created s) ops).2
      = (machineOf convW2X body).pfresh s ops :=
  (machineOf convW2X body).pexec_history_free (convW2X_machine_sound body)
    (not_sticky_of_nil convW2X (by decide +kernel)) ops _ s
    (fun f hf => (machineOf convW2X body).created_setting s f hf)

theorem convX2W_history_free (body : (String → String) → D → (String → String) × R)
    (ops : List (Machine.POp String String D)) (s : String → String) :
    ((machineOf convX2W body).pexec ((machineOf convX2W body).created s) ops).2
      = (machineOf convX2W body).pfresh s ops :=
  (machineOf convX2W body).pexec_history_free (convX2W_machine_sound body)
    (not_sticky_of_nil convX2W (by decide +kernel)) ops _ s
    (fun f hf => (machineOf convX2W body).created_setting s f hf)

theorem conv_settings_persist (body : (String → String) → D → (String → String) × R)
    (ops : List (Machine.POp String String D)) (s : String → String) (f : String)
    (hf : isSetting convW2X f = true) :
    ((machineOf convW2X body).pexec ((machineOf convW2X body).created s) ops).1 f
      = (machineOf convW2X body).userAfter s ops f :=
  (machineOf convW2X body).settings_persist (convW2X_machine_sound body) ops _ s
    (fun g hg => (machineOf convW2X body).created_setting s g hg) f hf

theorem encoder_machine_sound (body : (String → String) → D → (String → String) × R) :
    (machineOf encoder body).Sound := machineOf_sound encoder body encoder_reset_keeps_settings

/-- **Encode after reset, provable part.**  For every per-tree function `body`, every history of
    setter calls and (encode; reset) steps in which the user calls the setters of `lang`,
    `use_strtbl`, `output_charset` again after each reset: every tree is encoded exactly as by a
    newly created encoder with the same settings. -/
theorem encoder_history_free_partial (body : (String → String) → D → (String → String) × R)
    (ops : List (Machine.EOp String String D)) (s : String → String) :
    ((machineOf encoder body).eexec ((machineOf encoder body).created s) s ops).2
      = (machineOf encoder body).efresh s ops :=
  (machineOf encoder body).eexec_history_free (encoder_machine_sound body) ops s

/-! ### Histories that mix run kinds, failed runs included -/

theorem encoder_machineK_sound (body : List String → (String → String) → D → (String → String) × R) :
    (machineOfK encoder body).Sound := machineOf_sound encoder _ encoder_reset_keeps_settings

/-- **Encode after reset, all run kinds.**  For every body (a function of the run kind, the whole
    store and the document: it may fail at any point and leave anything in the per-run fields), every
    history of setter calls and runs of ANY kind — tree runs, flow-style runs, node-wise runs, in any
    order, each followed by `wbxml_encoder_reset` — in which the user calls the setters of `lang`,
    `use_strtbl`, `output_charset` again only after the runs that `reapplyAfter` names (by
    `encoder_reapply_exact`: after tree runs, never after flow-style or node-wise runs): every run
    gives exactly the result it gives on a newly created encoder with the same settings.
    (A tree run is preceded by `.set "output_type" …`: the entry point's name is the user's choice,
    `encoder_hidden_setter_calls_exact`.) -/
theorem encoder_history_free_mixed (body : List String → (String → String) → D → (String → String) × R)
    (ops : List (Machine.KOp String String D (List String))) (s : String → String) :
    ((machineOfK encoder body).kexec (keepsNet encoder) (reapplyAfter encoder)
        ((machineOfK encoder body).created s) s ops).2
      = (machineOfK encoder body).kfresh (keepsNet encoder) s ops :=
  (machineOfK encoder body).kexec_history_free (keepsNet encoder) (reapplyAfter encoder)
    (encoder_machineK_sound body)
    (fun f hf => reinitAssign_none_of_leaves encoder encoder_reset_leaves_sticky f hf)
    (fun k f hf hr => keepsNet_of_not_reapply encoder k f hf hr) ops s

/-- **Full strength for the flow API**: a history made of setter calls and flow-style / node-wise
    runs only (failed ones included), reset after every run and NOTHING re-applied: every run gives
    the result of a newly created encoder with the same settings. -/
theorem encoder_flow_histories_free (body : List String → (String → String) → D → (String → String) × R)
    (ops : List (Machine.KOp String String D (List String))) (s : String → String)
    (h : ∀ k ∈ Machine.kindsOf ops, k = encFlowRun ∨ k = encNodeRun) :
    ((machineOfK encoder body).kexecPlain (keepsNet encoder) ((machineOfK encoder body).created s) ops).2
      = (machineOfK encoder body).kfresh (keepsNet encoder) s ops := by
  refine (machineOfK encoder body).kexecPlain_history_free (keepsNet encoder) (encoder_machineK_sound body)
    (fun f hf => reinitAssign_none_of_leaves encoder encoder_reset_leaves_sticky f hf) ops s ?_
  intro k hk f hf
  have hr : reapplyAfter encoder k = false := by
    rcases h k hk with rfl | rfl
    · exact encoder_reapply_exact.1
    · exact encoder_reapply_exact.2.1
  exact keepsNet_of_not_reapply encoder k f hf hr

end

/-- A per-tree function that does what `encoder_encode_tree` does with `lang`: keep the user's
    language if there is one, else take the tree's. -/
def langBody (m : String → String) (treeLang : String) : (String → String) × String :=
  let l := if m "lang" = "NULL" then treeLang else m "lang"
  (upd m "lang" l, l)

/-- **Negation of full-strength encode-after-reset**, concrete witness in the model of the tree under
    test: WV tree, reset, SI tree on ONE encoder whose language the user never set encodes the SI
    tree as WV; fresh encoders encode it as SI.  (The same history is run on the real code by
    `tools/props/c15.py`: corpus/c15/encoder-sticky-lang.json.) -/
theorem encoder_plain_history_not_free :
    ((machineOf encoder langBody).eexecPlain ((machineOf encoder langBody).created (initOf encoder))
        [.enc "WV", .enc "SI"]).2 = ["WV", "WV"] ∧
    (machineOf encoder langBody).efresh (initOf encoder) [.enc "WV", .enc "SI"] = ["WV", "SI"] := by
  decide +kernel

/-- A per-run function that does with `lang` what the entry points do — a flow-style run installs the
    tree's language and fails half-way, leaving `indent` and `in_content` behind; a tree run keeps the
    language it derived (`encoder_encode_tree`) — and reports the language and indentation it started with. -/
def kindBody (_k : List String) (m : String → String) (treeLang : String) : (String → String) × (String × String) :=
  (upd (upd (upd m "lang" treeLang) "indent" "7") "in_content" "1", (m "lang", m "indent"))

/-- Non-vacuity of `encoder_flow_histories_free`, and **the known finding through the new run kinds**
    (why `encoder_history_free_mixed` re-applies after tree runs), in one history on ONE encoder whose
    language the user never set, reset after every run, nothing re-applied: a FAILED flow-style SI run
    leaves nothing (the WV tree run starts without language, as on a new encoder); the WV tree run
    leaves its language, so the node-wise run after it starts with the WV language where a new encoder
    has none (`wbxml_encoder_encode_node` answers Bad Parameter there). -/
theorem encoder_mixed_plain_not_free :
    ((machineOfK encoder kindBody).kexecPlain (keepsNet encoder) ((machineOfK encoder kindBody).created (initOf encoder))
        [.run encFlowRun "SI", .run encTreeRunW "WV", .run encNodeRun "SI"]).2
      = [("NULL", "0"), ("NULL", "0"), ("WV", "0")] ∧
    (machineOfK encoder kindBody).kfresh (keepsNet encoder) (initOf encoder)
        [.run encFlowRun "SI", .run encTreeRunW "WV", .run encNodeRun "SI"]
      = [("NULL", "0"), ("NULL", "0"), ("NULL", "0")] := by
  decide +kernel

end Wbxml.Props.C15
