/- X2T verb: tree built from XML, with Expat's recorded runs supplied on the request line.
   Request:  X2T <hexxml> {<hexdoc>=<ok>/<events>}
   Response: R 0 ; <tree>  |  R <code> ;  |  NEED <hexdoc> -/
import Wbxml.Model.TreeOfXml
import Wbxml.Model.X2W
import Driver.TreeIO
import Driver.Parse
namespace Driver
open Wbxml Wbxml.Model

def optHex (s : String) : Option (Option Bytes) :=
  if s == "~" then some none else (unhx s).map some

def parseXEvent (s : String) : Option XEvent :=
  if s == "[" then some .startCdata
  else if s == "]" then some .endCdata
  else if s == "P" then some .pi
  else
    match s.splitOn ":" with
    | ["D", v, e] => do pure (.xmlDecl (← optHex v) (← optHex e))
    | ["Y", sy, pu] => do pure (.doctype (← optHex sy) (← optHex pu))
    | ["C", h] => (unhx h).map .chars
    | ["E", idx, n] => do pure (.endElt (← unhx n) idx.toNat!)
    | ["S", idx, rest] =>
      match rest.splitOn ";" with
      | n :: attrs => do
        let nm ← unhx n
        let as ← attrs.mapM fun a => match a.splitOn "=" with
          | [k, v] => do pure ((← unhx k), (← unhx v))
          | _ => none
        pure (.startElt nm as idx.toNat!)
      | [] => none
    | _ => none

def parseRun (s : String) : Option ExpatRun :=
  match s.splitOn "/" with
  | [ok, evs] =>
    let toks := if evs == "" then [] else evs.splitOn ","
    (toks.mapM parseXEvent).map fun es => { ok := ok == "1", events := es }
  | _ => none

def parseEnv (args : List String) : Option (List (Bytes × ExpatRun)) :=
  args.mapM fun a => match a.splitOn "=" with
    | k :: rest => do pure ((← unhx k), (← parseRun ("=".intercalate rest)))
    | [] => none

def x2tVerb (args : List String) : String :=
  match args with
  | xml :: envs =>
    match unhx xml, parseEnv envs with
    | some x, some env =>
      (match treeOfXml Gen.main env (env.length + 2) x with
       | .ok t => s!"R 0 ; {fmtTree t}"
       | .err c => s!"R {c} ; "
       | .need d => s!"NEED {hxs d}")
    | _, _ => "BADARG"
  | _ => "BADARG"

/-- X2W <version> <keepws> <strtbl> <anon> <hexxml> {<hexdoc>=<ok>/<events>}  ->  R 0 ; <hex wbxml> | R <code> ; | NEED <hexdoc> -/
def x2wVerb (args : List String) : String :=
  match args with
  | ver :: keep :: strtbl :: anon :: xml :: envs =>
    match unhx xml, parseEnv envs with
    | some x, some env =>
      let cfg : X2WCfg := { version := ver.toNat!, keepWs := keep != "0", useStrtbl := strtbl != "0", anonymous := anon != "0" }
      (match xml2wbxml Gen.main cfg env x with
       | .ok w => s!"R 0 ; {hx w}"
       | .err e => s!"R {errCode e} ; "
       | .need d => s!"NEED {hxs d}")
    | _, _ => "BADARG"
  | _ => "BADARG"

end Driver
