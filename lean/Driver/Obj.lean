/- Line-protocol handlers for the object life-cycle model (C15): replays, field by field, what the
   regenerated `Gen.Fields` facts say about settings / derived fields and about what
   reinit / reset leaves behind.  Verb `OBJ`. -/
import Wbxml.Model.Objects
namespace Driver
open Wbxml.Gen.Fields Wbxml.Model.Objects

def objByName (n : String) : Option Obj := (all.find? (fun p => p.1 == n)).map (·.2)

def csv (l : List String) : String := if l.isEmpty then "-" else ",".intercalate l

def uncsv (s : String) : List String := if s == "-" || s == "" then [] else s.splitOn ","

/-- Why a derived field is not restored by the re-initialisation function. -/
def unrestoredReason (o : Obj) (f : String) : String :=
  match reinitValue o f, initValue o f with
  | some a, some b => if a == b then "ok" else s!"value:{a}!={b}"
  | none, _ =>
    if (reinitStores o).any (fun s => s.field == f) then "conditional-or-compound-store" else "not-assigned"
  | some _, none => "not-initialised-by-create"

def obj (args : List String) : String :=
  match args with
  | ["CLASS", n] =>
    match objByName n with
    | some o => s!"OK settings={csv (settings o)} derived={csv (derived o)} sticky={csv (stickyList o)} setters={csv (setterNames o)}"
    | none => "BADARG"
  | ["LEFT", n, dirty] =>
    match objByName n with
    | some o => s!"OK {csv (leftAfterReinit o (uncsv dirty))}"
    | none => "BADARG"
  | ["NET", n, entries] =>
    -- fields a run made of calls of these entry points may leave changed (struct order)
    match objByName n with
    | some o => s!"OK {csv (netFields o (uncsv entries))}"
    | none => "BADARG"
  | ["NETKIND", n, tag] =>
    -- the same for the run kinds of the check: T/X tree runs, F flow-style, N node-wise, P one parse
    match objByName n with
    | some o =>
      let k := if tag == "T" then encTreeRunW else if tag == "X" then encTreeRunX
               else if tag == "F" then encFlowRun else if tag == "N" then encNodeRun
               else if tag == "P" then ["wbxml_parser_parse"] else []
      s!"OK {csv (netFields o k)}"
    | none => "BADARG"
  | ["KINDS", n] =>
    -- the encoder's run kinds: user fields (settings, sticky) each may leave changed; re-apply needed?
    match objByName n with
    | some o =>
      let b := fun (x : Bool) => if x then "T" else "F"
      let user := settings o ++ stickyList o
      let one := fun (tag : String) (k : List String) =>
        s!"{tag}={csv ((netFields o k).filter user.contains)}:{b (reapplyAfter o k)}"
      s!"OK {one "T" encTreeRunW} {one "X" encTreeRunX} {one "F" encFlowRun} {one "N" encNodeRun}"
    | none => "BADARG"
  | ["WRITERS", n, f] =>
    match objByName n with
    | some o => s!"OK {csv (writers o f)}"
    | none => "BADARG"
  | ["UNRESTORED", n] =>
    match objByName n with
    | some o =>
      let l := (derived o).filterMap (fun f =>
        let r := unrestoredReason o f
        if r == "ok" then none else some s!"{f}:{r}")
      s!"OK {csv l}"
    | none => "BADARG"
  | ["CHECK", n] =>
    match objByName n with
    | some o =>
      let b := fun (x : Bool) => if x then "T" else "F"
      let uninit := (fieldNames o).filter (fun f => (initValue o f).isNone)
      let badStores := ((reinitStores o).filter (fun s => !(derived o).contains s.field)).map (·.field)
      let leaks := ((reinitStores o).filter (fun s => (owned o).contains s.field && !s.destroyedFirst)).map (·.field)
      let hidden := (setterCallsFromNonSetters o).map (fun p => s!"{p.1}>{p.2}")
      s!"OK reinitComplete={b (reinitComplete o)} createComplete={b (createComplete o)} uninit={csv uninit} " ++
      s!"keepsSettings={b (reinitKeepsSettings o)} reinitWritesSettings={csv badStores} " ++
      s!"freesOwned={b (reinitFreesOwned o)} notFreed={csv leaks} hiddenSetterCalls={csv hidden}"
    | none => "BADARG"
  | _ => "BADVERB"

end Driver
