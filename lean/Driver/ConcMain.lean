/- Line-protocol driver for the Conc component (C14): one request line in, one response line out. -/
import Driver.Conc
open Driver

def dispatch (line : String) : String :=
  let toks := (line.trimAscii.toString.splitOn " ").filter (· ≠ "")
  match toks with
  | [] => ""
  | verb :: rest => conc verb rest

partial def loop (h : IO.FS.Stream) (out : IO.FS.Stream) : IO Unit := do
  let line ← h.getLine
  if line.isEmpty then return ()
  out.putStrLn (dispatch line)
  loop h out

def main : IO Unit := do
  let out ← IO.getStdout
  loop (← IO.getStdin) out
  out.flush
