/- ENCW verb: WBXML generation of an arbitrary tree (wbxml_tree_to_wbxml).
     ENCW <version 0-3> <keepws 0/1> <use_strtbl 0/1> <anonymous 0/1> <tree>  ->  R <code> ; <hex wbxml> -/
import Wbxml.Model.EncWbxml
import Driver.TreeIO
import Driver.Parse
namespace Driver
open Wbxml Wbxml.Model

def encwVerb (args : List String) : String :=
  match args with
  | [ver, keep, strtbl, anon, tree] =>
    match readTree tree with
    | none => "BADTREE"
    | some t =>
      let cfg : X2WCfg := { version := ver.toNat!, keepWs := keep != "0", useStrtbl := strtbl != "0",
                            anonymous := anon != "0" }
      match treeToWbxml cfg t with
      | .ok w => s!"R 0 ; {hx w}"
      | .error e => s!"R {errCode e} ; "
  | _ => "BADARG"

end Driver
