/- Line-protocol handlers for the codec models (CODEC verbs; see tools/props/c11.py). -/
import Wbxml.Model.Codec.MbUint
import Wbxml.Model.Codec.Base64
import Wbxml.Model.Codec.Hex
import Wbxml.Model.Codec.Entity
import Wbxml.Spec.Rfc4648
import Wbxml.Spec.Utf8
namespace Driver
open Wbxml Wbxml.Model.Codec

def hexArgC (s : String) : Option Bytes := if s == "-" then some [] else bytesOfHex s

def hexOut (bs : Bytes) : String := if bs.isEmpty then "-" else hexOfBytes bs

def errOut : Err → String
  | .code c => s!"ERR:{c}"
  | .ub w => s!"UB {w}"
  | .fuel => "UB fuel"
  | .crash w => s!"UB crash {w}"

/-- ENTITY token followed by an `mb_u_int32`: what `parse_entity` delivers. -/
def entityOf (mb : Bytes) : Except Err (Bytes × Bytes) := do
  let (v, rest) ← mbDecode mb
  let e ← entityBytes v
  pure (e, rest)

def codec (args : List String) : String :=
  match args with
  | ["MBENC", v] => s!"OK {hexOut (mbEncode v.toNat!)}"
  | ["MBDEC", h] =>
    match hexArgC h with
    | some bs =>
      (match mbDecode bs with
       | .ok (v, rest) => s!"OK {v} {bs.length - rest.length}"
       | .error e => errOut e)
    | none => "BADARG"
  | ["MBPUB", h] =>
    -- document: version, public id (mb_u_int32, first octet ≠ 0), then `6a 00 45 01`
    match hexArgC h with
    | some (_ :: 0 :: _) => "BADDOC"
    | some (_ :: body) =>
      (match mbDecode body with
       | .ok (v, rest) => if rest == [0x6a, 0x00, 0x45, 0x01] then s!"OK {v}" else "BADDOC"
       | .error e => errOut e)
    | _ => "BADARG"
  | ["ENT", h] =>
    match hexArgC h with
    | some bs =>
      (match entityOf bs with
       | .ok (e, rest) => s!"OK {hexOut e} {bs.length - rest.length}"
       | .error e => errOut e)
    | none => "BADARG"
  | ["ENTDOC", h] =>
    -- document `03 05 6a 00 45 02 <h> 01`: characters delivered for the element's content
    match hexArgC h with
    | some bs =>
      (match entityOf (bs ++ [0x01]) with
       | .ok (e, rest) => if rest == [0x01] then s!"OK {hexOut e}" else "BADDOC"
       | .error e => errOut e)
    | none => "BADARG"
  | ["B64ENC", h] =>
    match hexArgC h with
    | some bs =>
      (match b64EncodeApi bs with
       | some r => s!"OK {hexOut r}"
       | none => "NULL")
    | none => "BADARG"
  | ["B64DEC", h] =>
    match hexArgC h with
    | some bs =>
      (match b64DecodeE bs with
       | .ok [] => "NONE"
       | .ok r => s!"OK {hexOut r}"
       | .error e => errOut e)
    | none => "BADARG"
  | ["HEXENC", u, h] =>
    match hexArgC h with
    | some bs =>
      (match hexEncodeE (u == "1") bs with
       | .ok r => s!"OK {hexOut r}"
       | .error e => errOut e)
    | none => "BADARG"
  | ["HEXDEC", h] =>
    match hexArgC h with
    | some bs =>
      (match hexDecode bs with
       | .ok r => s!"OK {hexOut r}"
       | .error e => errOut e)
    | none => "BADARG"
  -- specification side, used by the check's oracle
  | ["SPECB64", h] =>
    match hexArgC h with
    | some bs => s!"OK {hexOut (Spec.Rfc4648.encode bs)}"
    | none => "BADARG"
  | ["SPECUTF8", c] => s!"OK {hexOut (Spec.utf8 c.toNat!)}"
  | _ => "BADVERB"

end Driver
