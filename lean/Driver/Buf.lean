/- Line-protocol handlers for the buffer and list containers (BUF / LIST verbs); the concrete
   models of `Model/Buf.lean` and `Model/LList.lean` are run, nothing else. See harness/buf.c. -/
import Wbxml.Model.Buf
import Wbxml.Model.LList
namespace Driver.BufDrv
open Wbxml Wbxml.Model Wbxml.Spec.Seq

def hexOrDash (bs : Bytes) : String := if bs.isEmpty then "-" else hexOfBytes bs

def unhex (s : String) : Option Bytes := if s == "-" then some [] else bytesOfHex s

def stateStr (b : Buf) : String :=
  let c := hexOrDash b.abs
  if b.isStatic then s!"{b.len} {c} - S"
  else match b.data with
    | none => s!"{b.len} {c} {b.malloced} N"
    | some m => s!"{b.len} {c} {b.malloced} {if b.len < b.malloced && m[b.len]? == some 0 then "T" else "F"}"

def parseArg (s : String) : Option Arg :=
  match s.toList with
  | 'N' :: _ => some .null
  | 'D' :: r => (bytesOfHexChars r).map .dyn
  | 'S' :: r => (bytesOfHexChars r).map .sta
  | _ => none

def parseStr (s : String) : Option (Option Bytes) :=
  match s.toList with
  | 'N' :: _ => some none
  | 'B' :: r => (bytesOfHexChars r).map some
  | _ => none

def hexByte (s : String) : Option UInt8 :=
  match s.toList with
  | [a] => (hexVal a).map UInt8.ofNat
  | [a, b] => do let x ← hexVal a; let y ← hexVal b; pure (UInt8.ofNat (x * 16 + y))
  | _ => none

def parseOp (s : String) : Option Op :=
  match s.splitOn ":" with
  | ["len"] => some .len
  | ["get", p] => some (.getChar p.toNat!)
  | ["set", p, c] => (hexByte c).map (.setChar p.toNat!)
  | ["cstr"] => some .getCstr
  | ["dup"] => some .duplicate
  | ["ins", a, p] => (parseArg a).map (.insert · p.toNat!)
  | ["insc", a, p] => (parseStr a).map (.insertCstr · p.toNat!)
  | ["insself", p] => some (.insertSelf p.toNat!)
  | ["appself"] => some .appendSelf
  | ["app", a] => (parseArg a).map .append
  | ["appd", a] => (parseStr a).map .appendData
  | ["appc", a] => (parseStr a).map .appendCstr
  | ["appch", c] => (hexByte c).map .appendChar
  | ["appmb", v] => some (.appendMb v.toNat!)
  | ["del", p, n] => some (.delete p.toNat! n.toNat!)
  | ["shrink"] => some .shrink
  | ["strip"] => some .strip
  | ["nosp"] => some .noSpaces
  | ["rtz"] => some .rtz
  | ["cmp", a] => (parseArg a).map .compare
  | ["cmpc", a] => (parseStr a).map .compareCstr
  | ["split"] => some .splitWords
  | ["sch", c, p] => (hexByte c).map (.searchChar · p.toNat!)
  | ["srch", a, p] => (parseArg a).map (.search · p.toNat!)
  | ["srchc", a, p] => (parseStr a).map (.searchCstr · p.toNat!)
  | ["onlyws"] => some .onlyWs
  | ["h2b"] => some .hexToBin
  | ["b2h", u] => some (.binToHex (u == "1"))
  | ["d64"] => some .decB64
  | ["e64"] => some .encB64
  | _ => none

def wordStr (w : Buf) : String :=
  match w.data with
  | some m => s!"{w.len} {hexOrDash w.abs} {w.malloced} {if m[w.len]? == some 0 then "T" else "F"}"
  | none => s!"{w.len} {hexOrDash w.abs} {w.malloced} F"

def outStr (op : Op) : COut → String
  | .bool b => if b then "T" else "F"
  | .nat n => toString n
  | .optByte (some v) => "T:" ++ hexOfBytes [v]
  | .optByte none => "F"
  | .optNat (some n) => s!"T:{n}"
  | .optNat none => "F"
  | .sign i => toString i
  | .bytes bs => hexOrDash bs
  | .buf d => stateStr d
  | .bufs l => toString l.length ++ String.join (l.map fun w => "," ++ wordStr w)
  | .unit => match op with | .noSpaces => "V" | _ => "?"

def errStr : Err → String
  | .ub w => "UB:" ++ w.replace " " "_"
  | .fuel => "FUEL"
  | .code c => s!"CODE:{c}"
  | .crash w => "CRASH:" ++ w

/-- The delete outside the contract: both sides answer `EXCLUDED` without calling the code. -/
def isExcluded (b : Buf) : Op → Bool
  | .delete pos n => !b.isStatic && pos < b.len && n != 0 && pos + n > b.len
  | _ => false

def runOps (b : Buf) : List String → String → String
  | [], acc => acc
  | t :: ts, acc =>
    match parseOp t with
    | none => acc ++ " / BADOP " ++ stateStr b
    | some op =>
      if isExcluded b op then runOps b ts (acc ++ " / EXCLUDED " ++ stateStr b)
      else match b.step op with
        | .error e => acc ++ " / " ++ errStr e
        | .ok (b', o) => runOps b' ts (acc ++ " / " ++ outStr op o ++ " " ++ stateStr b')

def bufLine (toks : List String) : String :=
  match toks with
  | [] => "BADINIT"
  | init :: ops =>
    let b? : Option (Except Err Buf) :=
      match init.splitOn ":" with
      | ["D", h, blk] => (unhex h).map fun d => Buf.create (some d) blk.toNat!
      | ["DN", blk] => some (Buf.create none blk.toNat!)
      | ["S", h] => (unhex h).map fun d => .ok (Buf.staCreate d)
      | _ => none
    match b? with
    | none => "BADINIT"
    | some (.error e) => errStr e
    | some (.ok b) => runOps b ops (stateStr b)

/-! LIST -/

def parseLOp (s : String) : Option LOp :=
  match s.splitOn ":" with
  | ["len"] => some .len
  | ["app", i] => some (.append i.toNat!)
  | ["ins", i, p] => some (.insert i.toNat! p.toNat!)
  | ["get", i] => some (.get i.toNat!)
  | ["xf"] => some .extractFirst
  | _ => none

def lstateStr (l : LList) : String :=
  match l.walk with
  | .error e => errStr e
  | .ok items =>
    let s := if items.isEmpty then "-" else ",".intercalate (items.map toString)
    s!"{l.len} {s} {if l.wellFormed then "W" else "B"}"

def loutStr : LOut → String
  | .nat n => toString n
  | .bool b => if b then "T" else "F"
  | .item (some i) => toString i
  | .item none => "0"

def runLOps (l : LList) : List String → String → String
  | [], acc => acc
  | t :: ts, acc =>
    match parseLOp t with
    | none => acc ++ " / BADOP " ++ lstateStr l
    | some op => match l.step op with
      | .error e => acc ++ " / " ++ errStr e
      | .ok (l', o) => runLOps l' ts (acc ++ " / " ++ loutStr o ++ " " ++ lstateStr l')

def listLine (toks : List String) : String := runLOps LList.create toks (lstateStr LList.create)

def dispatch (line : String) : String :=
  let toks := (line.trimAscii.toString.splitOn " ").filter (· ≠ "")
  match toks with
  | [] => ""
  | "BUF" :: rest => bufLine rest
  | "LIST" :: rest => listLine rest
  | _ => "BADVERB"

end Driver.BufDrv
