/- PARSE verb: the parser model's event stream in the harness's format. -/
import Wbxml.Model.Parser
import Wbxml.Gen.Tables
namespace Driver
open Wbxml Wbxml.Model

def hx (b : Bytes) : String := if b.isEmpty then "-" else hexOfBytes b

def fmtName : Name → String
  | .token r => s!"t:{r.page}:{r.token}:{hx r.name}"
  | .literal s => s!"l:{hx s}"

def fmtAttr (a : Attr) : String :=
  (match a.name with
   | .token r => s!"t:{r.page}:{r.token}:{hx r.name}:" ++ (match r.value with | some v => hx v | none => "~")
   | .literal s => s!"l:{hx s}") ++ "=" ++ hx a.value

/-- `hx_outs` prints a C string: up to the first NUL. -/
def cstr (b : Bytes) : Bytes := b.take (cstrLen b)

def fmtEvent : Event → String
  | .startDoc cs l => s!"SD {cs} {l}"
  | .endDoc => "ED"
  | .startElt n as => "SE " ++ fmtName n ++ String.join (as.map (fun a => " " ++ fmtAttr a))
  | .endElt n => "EE " ++ fmtName n
  | .chars s => "CH " ++ hx s
  | .pi t d => s!"PI {hx (cstr t)} {hx (cstr d)}"

def errCode : Err → String
  | .code c => toString c
  | .ub w => s!"UB({w})"
  | .fuel => "FUEL"
  | .crash w => s!"CRASH({w})"

def parseVerb (args : List String) : String :=
  match args with
  | [lang, cs, doc] =>
    match (if doc == "-" then some [] else bytesOfHex doc) with
    | none => "BADARG"
    | some bs =>
      let cfg : PCfg := { main := Gen.main, langForced := lang.toNat!, metaCharset := cs.toNat! }
      let out := parse cfg bs
      let r := match out.result with | .ok _ => "0" | .error e => errCode e
      -- events delivered before an error are not compared (the conversions discard them)
      s!"R {r} ; " ++ (if r == "0" then " / ".intercalate (out.events.map fmtEvent) else "")
  | _ => "BADARG"

/-- PLEN: number of bytes a successful parse consumed (end of the root element and trailing PIs). -/
def plenVerb (args : List String) : String :=
  match args with
  | [lang, cs, doc] =>
    match (if doc == "-" then some [] else bytesOfHex doc) with
    | none => "BADARG"
    | some bs =>
      let cfg : PCfg := { main := Gen.main, langForced := lang.toNat!, metaCharset := cs.toNat! }
      let out := parse cfg bs
      (match out.result with | .ok _ => s!"LEN {out.consumed}" | .error _ => "ERR")
  | _ => "BADARG"

end Driver
