/- Line-protocol driver for the Buf component (BUF / LIST verbs); handlers are in Driver/Buf.lean. -/
import Driver.Buf

partial def loop (h : IO.FS.Stream) (out : IO.FS.Stream) : IO Unit := do
  let line ← h.getLine
  if line.isEmpty then return ()
  out.putStrLn (Driver.BufDrv.dispatch line)
  loop h out

def main : IO Unit := do
  let out ← IO.getStdout
  loop (← IO.getStdin) out
  out.flush
