/- Line-protocol driver: one request line in, one response line out (DESIGN.md Appendix B). -/
import Driver.Tbl
import Driver.Parse
import Driver.W2X
import Driver.EncX
import Driver.EncW
import Driver.X2T
import Driver.Spec
import Driver.SpecXml
open Driver

def dispatch (line : String) : String :=
  let toks := (line.trimAscii.toString.splitOn " ").filter (· ≠ "")
  match toks with
  | [] => ""
  | "TBL" :: rest => tbl rest
  | "PARSE" :: rest => parseVerb rest
  | "PLEN" :: rest => plenVerb rest
  | "W2X" :: rest => w2xVerb rest
  | "ENCX" :: rest => encxVerb rest
  | "ENCW" :: rest => encwVerb rest
  | "W2T" :: rest => w2tVerb rest
  | "T2T" :: rest => t2tVerb rest
  | "X2T" :: rest => x2tVerb rest
  | "X2W" :: rest => x2wVerb rest
  | "SPEC" :: rest => specVerb rest
  | "SPECX" :: rest => specxVerb rest
  | "XVIEW" :: rest => xviewVerb rest
  | _ => "BADVERB"

partial def loop (h : IO.FS.Stream) (out : IO.FS.Stream) : IO Unit := do
  let line ← h.getLine
  if line.isEmpty then return ()
  out.putStrLn (dispatch line)
  loop h out

def main : IO Unit := do
  let out ← IO.getStdout
  loop (← IO.getStdin) out
  out.flush
