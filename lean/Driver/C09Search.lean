/- Row-by-row evaluation of the C09 predicates: one `FAIL …` line per published item that the
   current tables no longer understand identically. Depends only on Model + Gen + Registry. -/
import Wbxml.Model.Compat
import Wbxml.Registry
import Wbxml.Gen.Tables
open Wbxml Wbxml.Model

def rep (kind : String) (lang : Nat) (name : Bytes) (page token : Nat) (extra : String := "") : IO Unit :=
  IO.println s!"FAIL kind={kind} lang={lang} name={hexOfBytes name} page={page} token={token} {extra}"

def main : IO Unit := do
  let mut rows := 0
  for r in Registry.reg do
    match langOf Gen.main r.id with
    | none => IO.println s!"FAIL kind=languageMissing lang={r.id} name=- page=0 token=0"
    | some c =>
      if !(r.pub == c.pub) then IO.println s!"FAIL kind=publicId lang={r.id} name=- page=0 token={c.pub.wbxmlId}"
      if !routesPreserved Registry.reg Gen.main r then IO.println s!"FAIL kind=route lang={r.id} name=- page=0 token=0"
      match r.tags, c.tags with
      | some rt, some ct =>
        for x in rt do
          rows := rows + 1
          if !(contigFrom x.page ct) then rep "tagPageSplit" r.id x.name x.page x.token
          else if !tagRowPreserved rt ct x then
            let now := (decTag ct x.page x.token).map (fun y => hexOfBytes y.name)
            rep "tag" r.id x.name x.page x.token s!"now={now}"
      | some _, none => IO.println s!"FAIL kind=tagTableMissing lang={r.id} name=- page=0 token=0"
      | none, _ => pure ()
      match r.attrs, c.attrs with
      | some ra, some ca =>
        for x in ra do
          rows := rows + 1
          if !attrRowPreserved ra ca x then rep "attr" r.id x.name x.page x.token
      | some _, none => IO.println s!"FAIL kind=attrTableMissing lang={r.id} name=- page=0 token=0"
      | none, _ => pure ()
      match r.values, c.values with
      | some rv, some cv =>
        for x in rv do
          rows := rows + 1
          if !valRowPreserved rv cv x then rep "value" r.id x.name x.page x.token
      | some _, none => IO.println s!"FAIL kind=valueTableMissing lang={r.id} name=- page=0 token=0"
      | none, _ => pure ()
      match r.exts, c.exts with
      | some re, some ce =>
        for x in re do
          rows := rows + 1
          if !extRowPreserved re ce x then rep "ext" r.id x.name 0 x.token
      | some _, none => IO.println s!"FAIL kind=extTableMissing lang={r.id} name=- page=0 token=0"
      | none, _ => pure ()
      match r.ns, c.ns with
      | some rn, some cn =>
        for x in rn do
          rows := rows + 1
          if !nsRowPreserved rn cn x then rep "ns" r.id x.ns x.page 0
        if !nssPreserved rn cn then IO.println s!"FAIL kind=nsFirstRow lang={r.id} name=- page=0 token=0"
      | some _, none => IO.println s!"FAIL kind=nsTableMissing lang={r.id} name=- page=0 token=0"
      | none, _ => pure ()
  IO.println s!"ROWS {rows} LANGS {Registry.reg.length}"
