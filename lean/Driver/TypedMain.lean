/- Line-protocol driver for the Typed component (C12): one request line in, one response line out. -/
import Driver.Typed

def dispatch (line : String) : String :=
  let toks := (line.trimAscii.toString.splitOn " ").filter (· ≠ "")
  match toks with
  | [] => ""
  | "TYPED" :: rest => Driver.Typed.typed rest
  | _ => "BADVERB"

partial def loop (h : IO.FS.Stream) (out : IO.FS.Stream) : IO Unit := do
  let line ← h.getLine
  if line.isEmpty then return ()
  out.putStrLn (dispatch line)
  loop h out

def main : IO Unit := do
  let out ← IO.getStdout
  loop (← IO.getStdin) out
  out.flush
