/- Line-protocol driver for the Alloc component (verb OOM); handlers are in Driver/Alloc.lean. -/
import Driver.Alloc

partial def loop (h : IO.FS.Stream) (out : IO.FS.Stream) : IO Unit := do
  let line ← h.getLine
  if line.isEmpty then return ()
  out.putStrLn (Driver.AllocDrv.dispatch line)
  loop h out

def main : IO Unit := do
  let out ← IO.getStdout
  loop (← IO.getStdin) out
  out.flush
